(* Properties/C16.v — Written range and location lists read back as the same lists.
   Only statements (`exact lemma`), non-vacuity examples, refutation witnesses and pins live here.

   Model: GV.Model.ListsWr (write/range.rs, write/loc.rs, the list part of write/unit.rs Unit::write);
   range lists are written as `map loc_of_range l` with loc = false (the two Rust files are the same code).
   Spec: GV.Spec.ListWrSpec (meaning of a written list, decoders dec5 / dec4 of the emitted bytes).
   Inputs are values of the Rust types: `wf loc x` / `wloc_wf x` say that numbers are u64 / i64 / usize and
   that a range entry carries no expression (it is `loc_of_range r`).

   Known findings (known_findings.txt): the faithful model REFUTES two clauses for the DWARF 2-4 writers;
   each refutation is a theorem below (`…_refuted…`, witness by vm_compute, reproduced on gimli by the
   harness) next to the weakened theorem with the exact extra hypothesis:
     * ambiguity/write_read_v4: a non-base entry whose first word is the all-ones marker (`marker_clash`);
     * no_panic (debug builds): StartLength sums that overflow u64 / i64 (`sum_fits`), and a BaseAddress entry
       with an address size outside 1..8. *)
From Coq Require Import List NArith ZArith Bool.
From Coq.Strings Require Import Byte.
Require Import GV.Base.Res GV.Base.Byt GV.Base.Ints GV.Model.Leb GV.Model.Prim.
Require Import GV.Spec.ListWrSpec GV.Model.ListsWr GV.Proofs.ListsWrProofs.
Import ListNotations.
Local Open Scope N_scope.

(* ------------------------------------------------------------------ (1) rejects *)

(* DWARF 2-4, both writers, both build modes: scan the list with the running "a base address is in force" flag
   (the unit's flag, set by every BaseAddress entry). The FIRST entry that is an empty range (begin = end or
   length 0), an OffsetPair without a base, a StartEnd/StartLength with a base, or a DefaultLocation decides the
   result: exactly InvalidRange / MissingBaseAddress / UnexpectedBaseAddress as `rejected` says — provided the
   entries before it are writable at this address size and the offender's own sum does not overflow
   (`plain_until_reject`; otherwise an earlier ValueTooLarge/InvalidAddress/panic wins). *)
Theorem rejects_v4 : forall (dbg loc be : bool) (version asz : N) (l : list wloc) (hb : bool) (e : error),
  size_ok asz -> version <= 4 -> Forall wloc_wf l ->
  rejected hb l = Some e -> plain_until_reject asz hb l = true ->
  write_list_v4 dbg loc be version asz hb l = Err e.
Proof. exact lwp_rejects_v4. Qed.

Example rejects_v4_ex :
  size_ok 4 /\ rejected false [LStartEnd (AConst 1) (AConst 2) [x9c]; LBase (AConst 7); LStartLength (AConst 16) 4 []]
               = Some WUnexpectedBaseAddress /\
  plain_until_reject 4 false [LStartEnd (AConst 1) (AConst 2) [x9c]; LBase (AConst 7); LStartLength (AConst 16) 4 []] = true /\
  rejected false [LOffsetPair 1 2 []] = Some WMissingBaseAddress /\
  rejected true [LOffsetPair 5 5 []] = Some WInvalidRange /\ rejected true [LDefault [x9c]] = Some WInvalidRange.
Proof. vm_compute. repeat split; auto. Qed.

(* ... and never bytes: whenever a pre-v5 writer returns Ok, no entry of the list was in a rejected class. *)
Theorem rejected_never_bytes : forall (dbg loc be : bool) (version asz : N) (l : list wloc) (hb : bool) (bs : list byte),
  write_list_v4 dbg loc be version asz hb l = Ok bs -> Forall (wf loc) l -> rejected hb l = None.
Proof. exact lwp_rejected_never_bytes. Qed.

Example rejected_never_bytes_ex :
  exists bs, write_list_v4 true true false 4 4 false [LStartEnd (AConst 1) (AConst 2) [x9c]] = Ok bs /\
    Forall (wf true) [LStartEnd (AConst 1) (AConst 2) [x9c]].
Proof. eexists. split; [vm_compute; reflexivity|]. repeat constructor; try discriminate; vm_compute; reflexivity. Qed.

(* the same through Unit::write (have_base_address derived from the root DIE), one list in the unit:
   this is the value the `c16.rej` stream expects *)
Theorem rejects_unit_rng : forall dbg be fmt64 version asz attrs rstart lstart (l : list wrange) e,
  size_ok asz -> 2 <= version <= 4 -> Forall wloc_wf (map loc_of_range l) ->
  rejected (have_base_address attrs) (map loc_of_range l) = Some e ->
  plain_until_reject asz (have_base_address attrs) (map loc_of_range l) = true ->
  unit_write_lists dbg be fmt64 version asz attrs rstart lstart [l] [] = Err e.
Proof. exact lw_rejects_unit_rng. Qed.

Theorem rejects_unit_loc : forall dbg be fmt64 version asz attrs rstart lstart (l : list wloc) e,
  size_ok asz -> 2 <= version <= 4 -> Forall wloc_wf l ->
  rejected (have_base_address attrs) l = Some e ->
  plain_until_reject asz (have_base_address attrs) l = true ->
  unit_write_lists dbg be fmt64 version asz attrs rstart lstart [] [l] = Err e.
Proof. exact lw_rejects_unit_loc. Qed.

Example rejects_unit_ex :
  unit_write_lists true false false 4 8 [(DW_AT_low_pc, VAddress (AConst 4096))] 0 0
    [[RStartEnd (AConst 1) (AConst 2)]] [] = Err WUnexpectedBaseAddress /\
  unit_write_lists true false false 3 8 [(DW_AT_low_pc, VAddress (AConst 0))] 0 0
    [] [[LOffsetPair 1 2 [x9c]]] = Err WMissingBaseAddress.
Proof. vm_compute. split; reflexivity. Qed.

(* ------------------------------------------------------------------ (2) ambiguity *)

(* Whenever a pre-v5 writer returns Ok it has emitted exactly the pair encoding of `pairs_of l` followed by the
   (0,0) terminator, and NO emitted non-terminator pair is (0,0). *)
Theorem ambiguity_zero : forall (dbg loc be : bool) (version asz : N) (hb : bool) (l : list wloc) (bs : list byte),
  write_list_v4 dbg loc be version asz hb l = Ok bs -> version <= 4 -> Forall (wf loc) l ->
  exists ps, pairs_of l = Some ps /\ bs = enc_list4 loc be asz ps /\
    Forall (fun p => match p with EPair b e _ => ~ (b = 0 /\ e = 0) | _ => True end) ps.
Proof. exact lw_ambiguity_zero. Qed.

(* Planned second half — "no emitted non-base pair has begin = all-ones" — is FALSE for the faithful model: *)
Theorem ambiguity_marker_refuted_offsetpair : forall dbg : bool,
  exists l bs ps, Forall (wf false) l /\
    write_list_v4 dbg false false 4 4 true l = Ok bs /\ pairs_of l = Some ps /\ bs = enc_list4 false false 4 ps /\
    Exists (fun p => match p with EPair b _ _ => b = amod 4 - 1 | _ => False end) ps.
Proof. exact lwp_ambiguity_marker_refuted_offsetpair. Qed.

Theorem ambiguity_marker_refuted_startend : forall dbg : bool,
  exists bs, write_list_v4 dbg true false 4 4 false [LStartEnd (AConst 4294967295) (AConst 32) [x9c]] = Ok bs /\
    pairs_of [LStartEnd (AConst 4294967295) (AConst 32) [x9c]] = Some [EPair (amod 4 - 1) 32 [x9c]].
Proof. exact lwp_ambiguity_marker_refuted_startend. Qed.

(* release builds, address size 8: the u64 sum of StartLength wraps and the pair (all-ones, len-1) is written *)
Theorem ambiguity_marker_refuted_startlength_release :
  exists bs, write_list_v4 false false false 4 8 false [LStartLength (AConst (2 ^ 64 - 1)) 33 []] = Ok bs /\
    pairs_of [LStartLength (AConst (2 ^ 64 - 1)) 33 []] = Some [EPair (amod 8 - 1) 32 []].
Proof. exact lwp_ambiguity_marker_refuted_startlength_release. Qed.

(* the weakened theorem, with the exact extra hypothesis: no entry of the LIST begins at the marker *)
Theorem ambiguity_marker : forall (dbg loc be : bool) (version asz : N) (hb : bool) (l : list wloc) (bs : list byte),
  write_list_v4 dbg loc be version asz hb l = Ok bs -> version <= 4 -> Forall (wf loc) l ->
  ~ marker_clash asz l ->
  exists ps, pairs_of l = Some ps /\ bs = enc_list4 loc be asz ps /\
    Forall (fun p => match p with EPair b _ _ => b <> amod asz - 1 | _ => True end) ps.
Proof. exact lw_ambiguity_marker. Qed.

Example ambiguity_marker_ex :
  ~ marker_clash 4 [LBase (AConst 4096); LOffsetPair 4294967294 32 []] /\
  exists bs, write_list_v4 true false false 4 4 false [LBase (AConst 4096); LOffsetPair 4294967294 32 []] = Ok bs.
Proof.
  split; [|eexists; vm_compute; reflexivity].
  intros [x [[<- | [<- | []]] H]]; vm_compute in H; discriminate.
Qed.

(* ------------------------------------------------------------------ (3) write_read_v5 *)

(* Unit::write for a DWARF 5 unit, all lists of both tables: at the offset recorded for the list's id
   (offsets.get(id)) the section decodes to EXACTLY the entries of the written list (raw read-back), and therefore
   resolves, relative to any base address, to the meaning of the written list. rsec/lsec = what .debug_rnglists /
   .debug_loclists held before this unit. *)
Theorem write_read_v5 : forall (dbg dbg' be fmt64 : bool) (asz : N) attrs (rstart lstart : N)
    (rtbl : list (list wrange)) (ltbl : list (list wloc)) rb ro lb lo (rsec lsec : list byte) (base : N),
  unit_write_lists dbg be fmt64 5 asz attrs rstart lstart rtbl ltbl = Ok ((rb, ro), (lb, lo)) ->
  N.of_nat (length rsec) = rstart -> N.of_nat (length lsec) = lstart -> unit_wf rtbl ltbl ->
  (forall i l, nth_error rtbl i = Some l ->
     exists o es rest, nth_error ro i = Some o /\
       dec5 dbg' false be asz (at_offset o (rsec ++ rb)) = Ok (es, rest) /\
       ents_of (map loc_of_range l) = Some es /\
       meaning_rng asz base l = Some (map fst (resolve asz base es))) /\
  (forall i l, nth_error ltbl i = Some l ->
     exists o es rest, nth_error lo i = Some o /\
       dec5 dbg' true be asz (at_offset o (lsec ++ lb)) = Ok (es, rest) /\
       ents_of l = Some es /\
       meaning_loc asz base l = Some (resolve asz base es)).
Proof. exact lw_unit_read_v5. Qed.

Example write_read_v5_ex :
  exists out, unit_write_lists true false false 5 4 [(DW_AT_low_pc, VAddress (AConst 4096))] 0 0
      [[RBase (AConst 8192); ROffsetPair 16 32; RStartLength (AConst 64) 8]]
      [[LDefault [x9c]; LStartEnd (AConst 1) (AConst 2) [x50; x51]]] = Ok out /\
  unit_wf [[RBase (AConst 8192); ROffsetPair 16 32; RStartLength (AConst 64) 8]]
          [[LDefault [x9c]; LStartEnd (AConst 1) (AConst 2) [x50; x51]]] /\
  meaning_rng 4 4096 [RBase (AConst 8192); ROffsetPair 16 32; RStartLength (AConst 64) 8] = Some [(8208, 8224); (64, 72)].
Proof.
  eexists. split; [vm_compute; reflexivity|]. split; [|vm_compute; reflexivity].
  split; repeat constructor; try discriminate; try (vm_compute; reflexivity).
Qed.

(* ------------------------------------------------------------------ (4) write_read_v4 *)

(* The planned statement without a side condition is FALSE (design item F8): v4, address size 4, unit low_pc
   0x1000, [OffsetPair{0xffffffff,0x20}; OffsetPair{0x30,0x40}] is written with Ok and the bytes read back as a
   base-address selection followed by (0x30,0x40): [(0x50,0x60)] instead of the written ranges. *)
Theorem write_read_v4_refuted_F8 : forall dbg : bool,
  let attrs := [(DW_AT_low_pc, VAddress (AConst 4096))] in
  let l := [ROffsetPair 4294967295 32; ROffsetPair 48 64] in
  exists rb o ps rest,
    unit_write_lists dbg false false 4 4 attrs 0 0 [l] [] = Ok ((rb, [o]), ([], [])) /\
    dec4 dbg false false 4 (at_offset o rb) = Ok (ps, rest) /\
    map fst (resolve 4 (unit_base attrs) ps) = [(80, 96)] /\
    meaning_rng 4 (unit_base attrs) l = Some [(4095, 4128); (4144, 4160)].
Proof. exact lwp_write_read_v4_refuted_F8. Qed.

(* Unit::write for a DWARF 2-4 unit, every list of both tables that is outside the known class: at the offset
   recorded for its id the pair decoder yields pairs that resolve, through the unit base address that the READER
   derives from the root DIE (`unit_base attrs`), to exactly the meaning of the written list. *)
Theorem write_read_v4 : forall (dbg dbg' be fmt64 : bool) (version asz : N) attrs (rstart lstart : N)
    (rtbl : list (list wrange)) (ltbl : list (list wloc)) rb ro lb lo (rsec lsec : list byte),
  unit_write_lists dbg be fmt64 version asz attrs rstart lstart rtbl ltbl = Ok ((rb, ro), (lb, lo)) ->
  2 <= version <= 4 ->
  N.of_nat (length rsec) = rstart -> N.of_nat (length lsec) = lstart -> unit_wf rtbl ltbl ->
  (forall i l, nth_error rtbl i = Some l -> ~ marker_clash asz (map loc_of_range l) ->
     exists o ps rest, nth_error ro i = Some o /\
       dec4 dbg' false be asz (at_offset o (rsec ++ rb)) = Ok (ps, rest) /\
       meaning_rng asz (unit_base attrs) l = Some (map fst (resolve asz (unit_base attrs) ps))) /\
  (forall i l, nth_error ltbl i = Some l -> ~ marker_clash asz l ->
     exists o ps rest, nth_error lo i = Some o /\
       dec4 dbg' true be asz (at_offset o (lsec ++ lb)) = Ok (ps, rest) /\
       meaning_loc asz (unit_base attrs) l = Some (resolve asz (unit_base attrs) ps)).
Proof. exact lw_unit_read_v4. Qed.

Example write_read_v4_ex :
  exists out, unit_write_lists true true false 3 8 [(DW_AT_low_pc, VAddress (AConst 4096))] 5 0
      [[ROffsetPair 16 32; RBase (AConst 8192); ROffsetPair 1 2]]
      [[LOffsetPair 16 32 [x9c; x50]]] = Ok out /\
  unit_wf [[ROffsetPair 16 32; RBase (AConst 8192); ROffsetPair 1 2]] [[LOffsetPair 16 32 [x9c; x50]]] /\
  marker_clashb 8 (map loc_of_range [ROffsetPair 16 32; RBase (AConst 8192); ROffsetPair 1 2]) = false /\
  meaning_rng 8 4096 [ROffsetPair 16 32; RBase (AConst 8192); ROffsetPair 1 2] = Some [(4112, 4128); (8193, 8194)].
Proof.
  eexists. split; [vm_compute; reflexivity|]. split; [|split; vm_compute; reflexivity].
  split; repeat constructor; try discriminate; try (vm_compute; reflexivity).
Qed.

(* ------------------------------------------------------------------ (5) dedup *)

(* RangeListTable::add over a sequence of lists: the table holds every distinct list exactly once, the id returned
   for the k-th add points at that list, and two adds return the same id iff their lists are equal.
   (Each table element is then emitted once, in table order, and offsets.get(id) is where it starts: that is the
   `nth_error ro i = Some o` part of write_read_v5 / write_read_v4 — one offset per table element.) *)
Theorem dedup_rng : forall (xs : list (list wrange)) t ids,
  rng_add_all [] xs = (t, ids) ->
  NoDup t /\ length ids = length xs /\
  (forall k x, nth_error xs k = Some x -> exists i, nth_error ids k = Some i /\ nth_error t i = Some x) /\
  (forall k1 k2 x1 x2 i1 i2, nth_error xs k1 = Some x1 -> nth_error xs k2 = Some x2 ->
     nth_error ids k1 = Some i1 -> nth_error ids k2 = Some i2 -> (x1 = x2 <-> i1 = i2)) /\
  (forall y, In y t <-> In y xs).
Proof. exact lwp_dedup_rng. Qed.

Theorem dedup_loc : forall (xs : list (list wloc)) t ids,
  loc_add_all [] xs = (t, ids) ->
  NoDup t /\ length ids = length xs /\
  (forall k x, nth_error xs k = Some x -> exists i, nth_error ids k = Some i /\ nth_error t i = Some x) /\
  (forall k1 k2 x1 x2 i1 i2, nth_error xs k1 = Some x1 -> nth_error xs k2 = Some x2 ->
     nth_error ids k1 = Some i1 -> nth_error ids k2 = Some i2 -> (x1 = x2 <-> i1 = i2)) /\
  (forall y, In y t <-> In y xs).
Proof. exact lwp_dedup_loc. Qed.

Example dedup_ex :
  rng_add_all [] [[ROffsetPair 1 2]; [RBase (AConst 3)]; [ROffsetPair 1 2]; []; [RBase (AConst 3)]] =
  ([[ROffsetPair 1 2]; [RBase (AConst 3)]; []], [0; 1; 0; 2; 1]%nat).
Proof. vm_compute. reflexivity. Qed.

(* one emitted copy per table element, in table order; the offsets are the running positions *)
Theorem one_copy_v4 : forall dbg loc be version asz hb pos tbl body offs,
  write_tbl_v4 dbg loc be version asz hb pos tbl = Ok (body, offs) ->
  exists bss, Forall2 (fun l bs => write_list_v4 dbg loc be version asz hb l = Ok bs) tbl bss /\
    body = concat bss /\ offs = offsets_from pos bss.
Proof. exact lwp_one_copy_v4. Qed.

Theorem one_copy_v5 : forall loc be version asz pos tbl body offs,
  write_lists_v5 loc be version asz pos tbl = Ok (body, offs) ->
  exists bss, Forall2 (fun l bs => write_list_v5 loc be version asz l = Ok bs) tbl bss /\
    body = concat bss /\ offs = offsets_from pos bss.
Proof. exact lwp_one_copy_v5. Qed.

(* ------------------------------------------------------------------ end to end: add ... add; Unit::write; read *)

(* Any sequence of unit.ranges.add / unit.locations.add calls followed by Unit::write (DWARF 5): for the k-th
   added list, the id returned by add indexes an offset (offsets.get(id)) at which the section decodes to exactly
   that list, which therefore means what was written, for every base address. Combines dedup and write_read_v5. *)
Theorem added_lists_read_back_v5 :
  forall (dbg dbg' be fmt64 : bool) (asz : N) attrs (rstart lstart : N)
    (rxs : list (list wrange)) (lxs : list (list wloc)) rtbl rids ltbl lids rb ro lb lo (rsec lsec : list byte) (base : N),
  rng_add_all [] rxs = (rtbl, rids) -> loc_add_all [] lxs = (ltbl, lids) ->
  unit_write_lists dbg be fmt64 5 asz attrs rstart lstart rtbl ltbl = Ok ((rb, ro), (lb, lo)) ->
  N.of_nat (length rsec) = rstart -> N.of_nat (length lsec) = lstart -> unit_wf rtbl ltbl ->
  (forall k x, nth_error rxs k = Some x ->
     exists id o es rest, nth_error rids k = Some id /\ offsets_get ro id = Ok o /\
       dec5 dbg' false be asz (at_offset o (rsec ++ rb)) = Ok (es, rest) /\
       ents_of (map loc_of_range x) = Some es /\
       meaning_rng asz base x = Some (map fst (resolve asz base es))) /\
  (forall k x, nth_error lxs k = Some x ->
     exists id o es rest, nth_error lids k = Some id /\ offsets_get lo id = Ok o /\
       dec5 dbg' true be asz (at_offset o (lsec ++ lb)) = Ok (es, rest) /\
       ents_of x = Some es /\
       meaning_loc asz base x = Some (resolve asz base es)).
Proof. exact lwp_added_lists_read_back_v5. Qed.

(* The same for DWARF 2-4 outside the known class, relative to the base address the reader derives from the root. *)
Theorem added_lists_read_back_v4 :
  forall (dbg dbg' be fmt64 : bool) (version asz : N) attrs (rstart lstart : N)
    (rxs : list (list wrange)) (lxs : list (list wloc)) rtbl rids ltbl lids rb ro lb lo (rsec lsec : list byte),
  rng_add_all [] rxs = (rtbl, rids) -> loc_add_all [] lxs = (ltbl, lids) ->
  unit_write_lists dbg be fmt64 version asz attrs rstart lstart rtbl ltbl = Ok ((rb, ro), (lb, lo)) ->
  2 <= version <= 4 ->
  N.of_nat (length rsec) = rstart -> N.of_nat (length lsec) = lstart -> unit_wf rtbl ltbl ->
  (forall k x, nth_error rxs k = Some x -> ~ marker_clash asz (map loc_of_range x) ->
     exists id o ps rest, nth_error rids k = Some id /\ offsets_get ro id = Ok o /\
       dec4 dbg' false be asz (at_offset o (rsec ++ rb)) = Ok (ps, rest) /\
       meaning_rng asz (unit_base attrs) x = Some (map fst (resolve asz (unit_base attrs) ps))) /\
  (forall k x, nth_error lxs k = Some x -> ~ marker_clash asz x ->
     exists id o ps rest, nth_error lids k = Some id /\ offsets_get lo id = Ok o /\
       dec4 dbg' true be asz (at_offset o (lsec ++ lb)) = Ok (ps, rest) /\
       meaning_loc asz (unit_base attrs) x = Some (resolve asz (unit_base attrs) ps)).
Proof. exact lwp_added_lists_read_back_v4. Qed.

Example added_lists_read_back_ex :
  exists rtbl rids out,
    rng_add_all [] [[ROffsetPair 1 2]; [ROffsetPair 1 2]; [RStartEnd (AConst 3) (AConst 4)]] = (rtbl, rids) /\
    rids = [0; 0; 1]%nat /\
    unit_write_lists true false true 5 8 [] 0 0 rtbl [] = Ok out.
Proof. do 3 eexists. split; [vm_compute; reflexivity|]. split; [reflexivity|vm_compute; reflexivity]. Qed.

(* ------------------------------------------------------------------ (6) base_from_root *)

(* the writer's have_base_address flag: the root DIE has a DW_AT_low_pc whose value is anything other than
   Address::Constant(0) ... *)
Theorem base_from_root_iff : forall attrs,
  have_base_address attrs = true <-> exists v, In (DW_AT_low_pc, v) attrs /\ v <> VAddress (AConst 0).
Proof. exact lw_have_base_iff. Qed.

(* ... and it is consistent with the reader: when the flag is false the base address the reader derives from the
   same root DIE is 0, so the address pairs the writer then insists on are read as absolute addresses. *)
Theorem base_from_root : forall attrs, have_base_address attrs = false -> unit_base attrs = 0.
Proof. exact lw_base_from_root. Qed.

Example base_from_root_ex :
  have_base_address [(3, VOther); (DW_AT_low_pc, VAddress (AConst 0))] = false /\
  have_base_address [(DW_AT_low_pc, VAddress (AConst 4096))] = true /\ unit_base [(DW_AT_low_pc, VAddress (AConst 4096))] = 4096 /\
  have_base_address [(DW_AT_low_pc, VUdata 0)] = true /\ unit_base [(DW_AT_low_pc, VUdata 7)] = 0.
Proof. vm_compute. repeat split; reflexivity. Qed.

(* ------------------------------------------------------------------ no_panic *)

(* The planned "for all inputs, both build modes" is FALSE for debug builds of the DWARF 2-4 writers: *)
Theorem no_panic_refuted_startlength :
  write_list_v4 true false false 4 8 false [LStartLength (AConst (2 ^ 64 - 1)) 1 []] = Panic /\
  write_list_v4 true true false 4 8 false [LStartLength (ASym 0 (2 ^ 63 - 1)) 1 []] = Panic.
Proof. exact lwp_no_panic_refuted_startlength. Qed.

Theorem no_panic_refuted_marker :
  write_list_v4 true false false 4 16 false [LBase (AConst 1)] = Panic /\
  write_list_v4 true false false 4 0 false [LBase (AConst 1)] = Panic /\
  write_list_v4 true false false 4 32 false [LBase (AConst 1)] = Panic.
Proof. exact lwp_no_panic_refuted_marker. Qed.

(* Unit::write's list part never panics (and the model never runs out of fuel): in release builds for every
   input; in debug builds for every input whose address size is in 1..8 and whose StartLength sums fit the Rust
   integer types (`panic_free_input`), all versions, formats, byte orders, root attributes, section positions. *)
Theorem no_panic : forall dbg be fmt64 version asz attrs rstart lstart (rtbl : list (list wrange)) (ltbl : list (list wloc)),
  unit_wf rtbl ltbl ->
  Forall (panic_free_input dbg asz) (map (map loc_of_range) rtbl) -> Forall (panic_free_input dbg asz) ltbl ->
  unit_write_lists dbg be fmt64 version asz attrs rstart lstart rtbl ltbl <> Panic /\
  unit_write_lists dbg be fmt64 version asz attrs rstart lstart rtbl ltbl <> OutOfFuel.
Proof. exact lwp_no_panic. Qed.

Theorem no_panic_release : forall be fmt64 version asz attrs rstart lstart (rtbl : list (list wrange)) (ltbl : list (list wloc)),
  unit_wf rtbl ltbl ->
  unit_write_lists false be fmt64 version asz attrs rstart lstart rtbl ltbl <> Panic.
Proof. exact lwp_no_panic_release. Qed.

Example no_panic_ex :
  panic_free_input true 8 [LStartLength (AConst (2 ^ 64 - 2)) 1 []; LBase (AConst 5)] /\
  ~ (sum_fits (LStartLength (AConst (2 ^ 64 - 1)) 1 []) = true).
Proof. split; [right; split; [vm_compute; split; discriminate|repeat constructor]|vm_compute; discriminate]. Qed.

(* ------------------------------------------------------------------ pins *)
Check rejects_v4 : forall dbg loc be version asz l hb e, size_ok asz -> version <= 4 -> Forall wloc_wf l ->
  rejected hb l = Some e -> plain_until_reject asz hb l = true -> write_list_v4 dbg loc be version asz hb l = Err e.
Check rejected_never_bytes : forall dbg loc be version asz l hb bs,
  write_list_v4 dbg loc be version asz hb l = Ok bs -> Forall (wf loc) l -> rejected hb l = None.
Check base_from_root : forall attrs, have_base_address attrs = false -> unit_base attrs = 0.
Check no_panic_release : forall be fmt64 version asz attrs rstart lstart rtbl ltbl, unit_wf rtbl ltbl ->
  unit_write_lists false be fmt64 version asz attrs rstart lstart rtbl ltbl <> Panic.
