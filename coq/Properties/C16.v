(* Properties/C16.v — Written range and location lists read back as the same lists.
   Only statements (`exact lemma`), non-vacuity examples and pins live here.

   Model: GV.Model.ListsWr (write/range.rs, write/loc.rs, the list part of write/unit.rs Unit::write) as repaired by
   /repo commits 85ffc95 (entries that would read back as base-address selections are rejected; the address size is
   validated before the marker is computed) and e67c31b (StartLength sums are checked). No unchecked arithmetic is
   left in these functions, so the model writers have no `dbg` argument: the statements hold for debug and release
   builds alike (the correspondence streams still run both). Range lists are written as `map loc_of_range l` with
   loc = false (the two Rust files are the same code).
   Spec: GV.Spec.ListWrSpec (meaning of a written list, `rejected`, decoders dec5 / dec4 of the emitted bytes).
   Inputs are values of the Rust types: `wf loc x` / `wloc_wf x` say that numbers are u64 / i64 / usize and
   that a range entry carries no expression (it is `loc_of_range r`).

   History: on the unrepaired tree the faithful model refuted `ambiguity` (second half), `write_read_v4` and
   `no_panic` (debug); the witnesses of those refutations are kept below as Examples of the Err results they now
   get (known_findings.txt: `fixed: property=C16 …`). *)
From Coq Require Import List NArith ZArith Bool.
From Coq.Strings Require Import Byte.
Require Import GV.Base.Res GV.Base.Byt GV.Base.Ints GV.Model.Leb GV.Model.Prim.
Require Import GV.Spec.ListWrSpec GV.Model.ListsWr GV.Proofs.ListsWrProofs GV.Proofs.ListsRoundtrip.
Require GV.Spec.ListSpec GV.Model.ListsRd.
Import ListNotations.
Local Open Scope N_scope.

(* ------------------------------------------------------------------ (1) rejects *)

(* DWARF 2-4, both writers: scan the list with the running "a base address is in force" flag (the unit's flag,
   set by every BaseAddress entry). The FIRST entry that is
     - an empty range (begin = end, length 0)                                   -> InvalidRange
     - an OffsetPair without a base                                             -> MissingBaseAddress
     - a StartEnd / StartLength with a base                                     -> UnexpectedBaseAddress
     - an entry whose first word is the all-ones base-selection marker          -> InvalidRange      (new, 85ffc95)
     - a StartLength whose end does not fit u64 (constant) / i64 (symbolic)     -> ValueTooLarge     (new, e67c31b)
     - a DefaultLocation                                                        -> InvalidRange
   decides the result, exactly as `rejected` says (tests in the order of the code), provided the entries before it
   are writable at this address size (`plain_until_reject`; otherwise an earlier ValueTooLarge/InvalidAddress wins). *)
Theorem rejects_v4 : forall (loc be : bool) (version asz : N) (l : list wloc) (hb : bool) (e : error),
  size_ok asz -> version <= 4 -> Forall wloc_wf l ->
  rejected asz hb l = Some e -> plain_until_reject asz hb l = true ->
  write_list_v4 loc be version asz (marker asz) hb l = Err e.
Proof. exact lwp_rejects_v4. Qed.

Example rejects_v4_ex :
  size_ok 4 /\ rejected 4 false [LStartEnd (AConst 1) (AConst 2) [x9c]; LBase (AConst 7); LStartLength (AConst 16) 4 []]
               = Some WUnexpectedBaseAddress /\
  plain_until_reject 4 false [LStartEnd (AConst 1) (AConst 2) [x9c]; LBase (AConst 7); LStartLength (AConst 16) 4 []] = true /\
  rejected 4 false [LOffsetPair 1 2 []] = Some WMissingBaseAddress /\
  rejected 4 true [LOffsetPair 5 5 []] = Some WInvalidRange /\ rejected 4 true [LDefault [x9c]] = Some WInvalidRange /\
  rejected 4 true [LOffsetPair 4294967295 32 []] = Some WInvalidRange /\
  rejected 4 false [LStartEnd (AConst 4294967295) (AConst 32) []] = Some WInvalidRange /\
  rejected 8 false [LStartLength (AConst (2 ^ 64 - 1)) 1 []] = Some WValueTooLarge /\
  rejected 8 true [LStartLength (ASym 0 (2 ^ 63 - 1)) 1 []] = Some WValueTooLarge.
Proof. vm_compute. repeat split; auto. Qed.

(* ... and never bytes: whenever a pre-v5 writer returns Ok, no entry of the list was in a rejected class. *)
Theorem rejected_never_bytes : forall (loc be : bool) (version asz : N) (l : list wloc) (hb : bool) (bs : list byte),
  write_list_v4 loc be version asz (marker asz) hb l = Ok bs -> Forall (wf loc) l -> rejected asz hb l = None.
Proof. exact lwp_rejected_never_bytes. Qed.

Example rejected_never_bytes_ex :
  exists bs, write_list_v4 true false 4 4 (marker 4) false [LStartEnd (AConst 1) (AConst 2) [x9c]] = Ok bs /\
    Forall (wf true) [LStartEnd (AConst 1) (AConst 2) [x9c]].
Proof. eexists. split; [vm_compute; reflexivity|]. repeat constructor; try discriminate; vm_compute; reflexivity. Qed.

(* the same through Unit::write (have_base_address derived from the root DIE), one list in the unit:
   this is the value the `c16.rej` stream expects *)
Theorem rejects_unit_rng : forall be fmt64 version asz attrs rstart lstart (l : list wrange) e,
  size_ok asz -> 2 <= version <= 4 -> Forall wloc_wf (map loc_of_range l) ->
  rejected asz (have_base_address attrs) (map loc_of_range l) = Some e ->
  plain_until_reject asz (have_base_address attrs) (map loc_of_range l) = true ->
  unit_write_lists be fmt64 version asz attrs rstart lstart [l] [] = Err e.
Proof. exact lw_rejects_unit_rng. Qed.

Theorem rejects_unit_loc : forall be fmt64 version asz attrs rstart lstart (l : list wloc) e,
  size_ok asz -> 2 <= version <= 4 -> Forall wloc_wf l ->
  rejected asz (have_base_address attrs) l = Some e ->
  plain_until_reject asz (have_base_address attrs) l = true ->
  unit_write_lists be fmt64 version asz attrs rstart lstart [] [l] = Err e.
Proof. exact lw_rejects_unit_loc. Qed.

(* an address size outside 1..8 is refused with UnsupportedWordSize before anything is written, whatever the
   lists are (new, 85ffc95; sizes 3,5,6,7 are refused by the first word written) *)
Theorem rejects_bad_address_size : forall be fmt64 version asz attrs rstart lstart
    (rtbl : list (list wrange)) (ltbl : list (list wloc)),
  2 <= version <= 4 -> ~ (1 <= asz <= 8) -> rtbl <> [] \/ ltbl <> [] ->
  unit_write_lists be fmt64 version asz attrs rstart lstart rtbl ltbl = Err WUnsupportedWordSize.
Proof. exact lw_rejects_unit_bad_address_size. Qed.

(* the witnesses that refuted ambiguity / write_read_v4 / no_panic on the unrepaired tree, with their results now *)
Example rejects_unit_ex :
  unit_write_lists false false 4 8 [(DW_AT_low_pc, VAddress (AConst 4096))] 0 0
    [[RStartEnd (AConst 1) (AConst 2)]] [] = Err WUnexpectedBaseAddress /\
  unit_write_lists false false 3 8 [(DW_AT_low_pc, VAddress (AConst 0))] 0 0
    [] [[LOffsetPair 1 2 [x9c]]] = Err WMissingBaseAddress /\
  (* design item F8 *)
  unit_write_lists false false 4 4 [(DW_AT_low_pc, VAddress (AConst 4096))] 0 0
    [[ROffsetPair 4294967295 32; ROffsetPair 48 64]] [] = Err WInvalidRange /\
  unit_write_lists false false 4 4 [] 0 0 [] [[LStartEnd (AConst 4294967295) (AConst 32) [x9c]]] = Err WInvalidRange /\
  unit_write_lists false false 4 8 [] 0 0 [[RStartLength (AConst (2 ^ 64 - 1)) 33]] [] = Err WValueTooLarge /\
  unit_write_lists false false 4 8 [] 0 0 [[RStartLength (AConst (2 ^ 64 - 1)) 1]] [] = Err WValueTooLarge /\
  unit_write_lists false false 4 8 [] 0 0 [] [[LStartLength (ASym 0 (2 ^ 63 - 1)) 1 []]] = Err WValueTooLarge /\
  unit_write_lists false false 4 16 [] 0 0 [[RBase (AConst 1)]] [] = Err WUnsupportedWordSize /\
  unit_write_lists false false 4 0 [] 0 0 [[RBase (AConst 1)]] [] = Err WUnsupportedWordSize /\
  unit_write_lists false false 4 32 [] 0 0 [[RBase (AConst 1)]] [] = Err WUnsupportedWordSize.
Proof. vm_compute. repeat split; reflexivity. Qed.

(* ------------------------------------------------------------------ (2) ambiguity *)

(* FULL: whenever a pre-v5 writer returns Ok it has emitted exactly the pair encoding of `pairs_of l` followed by
   the (0,0) terminator; no emitted non-terminator pair is (0,0) and no emitted non-base pair begins with the
   all-ones marker. *)
Theorem ambiguity : forall (loc be : bool) (version asz : N) (hb : bool) (l : list wloc) (bs : list byte),
  write_list_v4 loc be version asz (marker asz) hb l = Ok bs -> version <= 4 -> Forall (wf loc) l ->
  exists ps, pairs_of l = Some ps /\ bs = enc_list4 loc be asz ps /\
    Forall (fun p => match p with EPair b e _ => ~ (b = 0 /\ e = 0) /\ b <> amod asz - 1 | _ => True end) ps.
Proof. exact lw_ambiguity. Qed.

Example ambiguity_ex :
  exists bs, write_list_v4 false false 4 4 (marker 4) false [LBase (AConst 4096); LOffsetPair 4294967294 32 []] = Ok bs /\
    pairs_of [LBase (AConst 4096); LOffsetPair 4294967294 32 []] = Some [EBase 4096; EPair 4294967294 32 []].
Proof. eexists. split; vm_compute; reflexivity. Qed.

(* ------------------------------------------------------------------ (3) write_read_v5 *)

(* Unit::write for a DWARF 5 unit, all lists of both tables: at the offset recorded for the list's id
   (offsets.get(id)) the section decodes to EXACTLY the entries of the written list (raw read-back), and therefore
   resolves, relative to any base address, to the meaning of the written list. rsec/lsec = what .debug_rnglists /
   .debug_loclists held before this unit. *)
Theorem write_read_v5 : forall (dbg' be fmt64 : bool) (asz : N) attrs (rstart lstart : N)
    (rtbl : list (list wrange)) (ltbl : list (list wloc)) rb ro lb lo (rsec lsec : list byte) (base : N),
  unit_write_lists be fmt64 5 asz attrs rstart lstart rtbl ltbl = Ok ((rb, ro), (lb, lo)) ->
  N.of_nat (length rsec) = rstart -> N.of_nat (length lsec) = lstart -> unit_wf rtbl ltbl ->
  (forall i l, nth_error rtbl i = Some l ->
     exists o es rest, nth_error ro i = Some o /\
       dec5 dbg' false be asz (at_offset o (rsec ++ rb)) = Ok (es, rest) /\
       ents_of (map loc_of_range l) = Some es /\
       meaning_rng asz base l = Some (map fst (resolve asz base es))) /\
  (forall i l, nth_error ltbl i = Some l ->
     exists o es rest, nth_error lo i = Some o /\
       dec5 dbg' true be asz (at_offset o (lsec ++ lb)) = Ok (es, rest) /\
       ents_of l = Some es /\
       meaning_loc asz base l = Some (resolve asz base es)).
Proof. exact lw_unit_read_v5. Qed.

Example write_read_v5_ex :
  exists out, unit_write_lists false false 5 4 [(DW_AT_low_pc, VAddress (AConst 4096))] 0 0
      [[RBase (AConst 8192); ROffsetPair 16 32; RStartLength (AConst 64) 8]]
      [[LDefault [x9c]; LStartEnd (AConst 1) (AConst 2) [x50; x51]]] = Ok out /\
  unit_wf [[RBase (AConst 8192); ROffsetPair 16 32; RStartLength (AConst 64) 8]]
          [[LDefault [x9c]; LStartEnd (AConst 1) (AConst 2) [x50; x51]]] /\
  meaning_rng 4 4096 [RBase (AConst 8192); ROffsetPair 16 32; RStartLength (AConst 64) 8] = Some [(8208, 8224); (64, 72)].
Proof.
  eexists. split; [vm_compute; reflexivity|]. split; [|vm_compute; reflexivity].
  split; repeat constructor; try discriminate; try (vm_compute; reflexivity).
Qed.

(* ------------------------------------------------------------------ (4) write_read_v4 *)

(* FULL: Unit::write for a DWARF 2-4 unit, EVERY list of both tables: at the offset recorded for its id the pair
   decoder yields pairs that resolve, through the unit base address that the READER derives from the root DIE
   (`unit_base attrs`), to exactly the meaning of the written list. *)
Theorem write_read_v4 : forall (dbg' be fmt64 : bool) (version asz : N) attrs (rstart lstart : N)
    (rtbl : list (list wrange)) (ltbl : list (list wloc)) rb ro lb lo (rsec lsec : list byte),
  unit_write_lists be fmt64 version asz attrs rstart lstart rtbl ltbl = Ok ((rb, ro), (lb, lo)) ->
  2 <= version <= 4 ->
  N.of_nat (length rsec) = rstart -> N.of_nat (length lsec) = lstart -> unit_wf rtbl ltbl ->
  (forall i l, nth_error rtbl i = Some l ->
     exists o ps rest, nth_error ro i = Some o /\
       dec4 dbg' false be asz (at_offset o (rsec ++ rb)) = Ok (ps, rest) /\
       meaning_rng asz (unit_base attrs) l = Some (map fst (resolve asz (unit_base attrs) ps))) /\
  (forall i l, nth_error ltbl i = Some l ->
     exists o ps rest, nth_error lo i = Some o /\
       dec4 dbg' true be asz (at_offset o (lsec ++ lb)) = Ok (ps, rest) /\
       meaning_loc asz (unit_base attrs) l = Some (resolve asz (unit_base attrs) ps)).
Proof. exact lw_unit_read_v4. Qed.

Example write_read_v4_ex :
  exists out, unit_write_lists true false 3 8 [(DW_AT_low_pc, VAddress (AConst 4096))] 5 0
      [[ROffsetPair 16 32; RBase (AConst 8192); ROffsetPair 1 2]]
      [[LOffsetPair 16 32 [x9c; x50]]] = Ok out /\
  unit_wf [[ROffsetPair 16 32; RBase (AConst 8192); ROffsetPair 1 2]] [[LOffsetPair 16 32 [x9c; x50]]] /\
  meaning_rng 8 4096 [ROffsetPair 16 32; RBase (AConst 8192); ROffsetPair 1 2] = Some [(4112, 4128); (8193, 8194)].
Proof.
  eexists. split; [vm_compute; reflexivity|]. split; [|vm_compute; reflexivity].
  split; repeat constructor; try discriminate; try (vm_compute; reflexivity).
Qed.

(* ------------------------------------------------------------------ composed with the list READER model (C08) *)

(* The writer model composed with GV.Model.ListsRd (the model of read/rnglists.rs + read/loclists.rs that property C08
   proves correct against GV.Spec.ListSpec and ties to gimli's reader by its own streams).
   `tr_ent` / `tr_loc` translate ListWrSpec.ent to the reader's raw entry (ListSpec.lent, with the expression bytes
   for location lists); `rd_cfg be asz version` is the unit encoding as the reader sees it; `other` is whatever the
   section of the other format holds; x = the reader's .debug_addr context (irrelevant: no indexed entry is written).
   Proof route: the writer's bytes ARE C08's spec encoding of the translated entries (rt_list5 / rt_list4), those are
   well formed in C08's sense (for DWARF 2-4 this is exactly `ambiguity`), the two resolution specs agree
   (rt_resolve_rng / rt_resolve_loc), then C08's raw_roundtrip_* / resolve_refines_* apply.

   DWARF 5, every list of both tables of a unit with a real address size (1,2,4,8 — the reader refuses others):
   the reader's RAW iterator started at offsets.get(id) yields exactly the written entries (expression bytes
   unchanged), and its RESOLVING iterator yields exactly ListWrSpec's meaning of the written list, for every base
   address, in both build modes. Together with write_read_v5 (same `es`): dec5 and the reader model agree on
   everything write_rnglists / write_loclists can produce. *)
Theorem write_read_by_reader_v5 : forall dbg be fmt64 asz attrs rstart lstart rtbl ltbl rb ro lb lo (rsec lsec other : list byte),
  unit_write_lists be fmt64 5 asz attrs rstart lstart rtbl ltbl = Ok ((rb, ro), (lb, lo)) -> size_ok asz ->
  N.of_nat (length rsec) = rstart -> N.of_nat (length lsec) = lstart -> unit_wf rtbl ltbl ->
  (forall i l, nth_error rtbl i = Some l ->
     exists o es, nth_error ro i = Some o /\ ents_of (map loc_of_range l) = Some es /\
       ListsRd.raw_ranges_all dbg (rd_cfg be asz 5) other (rsec ++ rb) o = Ok (map ListsRd.EvItem (map tr_ent es)) /\
       forall x base, N.of_nat (length (ListsRd.x_addr x)) < two64 ->
         exists rs, meaning_rng asz base l = Some rs /\
           ListsRd.ranges_all dbg (rd_cfg be asz 5) x other (rsec ++ rb) o base = Ok (map ListsRd.EvItem rs)) /\
  (forall i l, nth_error ltbl i = Some l ->
     exists o es, nth_error lo i = Some o /\ ents_of l = Some es /\
       ListsRd.raw_locations_all dbg (rd_cfg be asz 5) false other (lsec ++ lb) o = Ok (map ListsRd.EvItem (map tr_loc es)) /\
       forall x base, N.of_nat (length (ListsRd.x_addr x)) < two64 ->
         exists rs, meaning_loc asz base l = Some rs /\
           ListsRd.locations_all dbg (rd_cfg be asz 5) false x other (lsec ++ lb) o base = Ok (map ListsRd.EvItem rs)).
Proof. exact rt_unit_reader_v5. Qed.

(* DWARF 2-4, every list of both tables: the RAW iterator yields exactly the pairs the list is written as
   (`pairs_of`: base selections and address-or-offset pairs, expression bytes unchanged); the RESOLVING iterator,
   started with the base address the reader derives from the root DIE, yields exactly the meaning of the written
   list. Together with write_read_v4: dec4 and the reader model agree on everything write_ranges / write_loc emit. *)
Theorem write_read_by_reader_v4 : forall dbg be fmt64 version asz attrs rstart lstart rtbl ltbl rb ro lb lo (rsec lsec other : list byte),
  unit_write_lists be fmt64 version asz attrs rstart lstart rtbl ltbl = Ok ((rb, ro), (lb, lo)) -> 2 <= version <= 4 ->
  N.of_nat (length rsec) = rstart -> N.of_nat (length lsec) = lstart -> unit_wf rtbl ltbl ->
  (forall i l, nth_error rtbl i = Some l ->
     exists o ps, nth_error ro i = Some o /\ pairs_of (map loc_of_range l) = Some ps /\
       ListsRd.raw_ranges_all dbg (rd_cfg be asz version) (rsec ++ rb) other o = Ok (map ListsRd.EvItem (map tr_ent ps)) /\
       forall x, N.of_nat (length (ListsRd.x_addr x)) < two64 ->
         exists rs, meaning_rng asz (unit_base attrs) l = Some rs /\
           ListsRd.ranges_all dbg (rd_cfg be asz version) x (rsec ++ rb) other o (unit_base attrs) = Ok (map ListsRd.EvItem rs)) /\
  (forall i l, nth_error ltbl i = Some l ->
     exists o ps, nth_error lo i = Some o /\ pairs_of l = Some ps /\
       ListsRd.raw_locations_all dbg (rd_cfg be asz version) false (lsec ++ lb) other o = Ok (map ListsRd.EvItem (map tr_loc ps)) /\
       forall x, N.of_nat (length (ListsRd.x_addr x)) < two64 ->
         exists rs, meaning_loc asz (unit_base attrs) l = Some rs /\
           ListsRd.locations_all dbg (rd_cfg be asz version) false x (lsec ++ lb) other o (unit_base attrs) = Ok (map ListsRd.EvItem rs)).
Proof. exact rt_unit_reader_v4. Qed.

Example write_read_by_reader_ex :
  let attrs := [(DW_AT_low_pc, VAddress (AConst 4096))] in
  (* v4: offsets relative to low_pc, then a base selection *)
  unit_write_lists false false 4 4 attrs 0 0 [[ROffsetPair 16 32; RBase (AConst 8192); ROffsetPair 1 2]] []
    = Ok (([x10; x00; x00; x00; x20; x00; x00; x00; xff; xff; xff; xff; x00; x20; x00; x00;
            x01; x00; x00; x00; x02; x00; x00; x00; x00; x00; x00; x00; x00; x00; x00; x00], [0]), ([], [])) /\
  ListsRd.ranges_all true (rd_cfg false 4 4) no_addr_table
    [x10; x00; x00; x00; x20; x00; x00; x00; xff; xff; xff; xff; x00; x20; x00; x00;
     x01; x00; x00; x00; x02; x00; x00; x00; x00; x00; x00; x00; x00; x00; x00; x00] [] 0 (unit_base attrs)
    = Ok [ListsRd.EvItem (4112, 4128); ListsRd.EvItem (8193, 8194)] /\
  meaning_rng 4 (unit_base attrs) [ROffsetPair 16 32; RBase (AConst 8192); ROffsetPair 1 2] = Some [(4112, 4128); (8193, 8194)] /\
  (* v5 location list: expression bytes come back unchanged *)
  unit_write_lists false false 5 4 attrs 0 0 [] [[LDefault [x9c]; LStartLength (AConst 64) 8 [x50; x51]]]
    = Ok (([], []), ([x15; x00; x00; x00; x05; x00; x04; x00; x00; x00; x00; x00;
                      x05; x01; x9c; x08; x40; x00; x00; x00; x08; x02; x50; x51; x00], [12])) /\
  ListsRd.raw_locations_all false (rd_cfg false 4 5) false []
    [x15; x00; x00; x00; x05; x00; x04; x00; x00; x00; x00; x00;
     x05; x01; x9c; x08; x40; x00; x00; x00; x08; x02; x50; x51; x00] 12
    = Ok [ListsRd.EvItem (ListSpec.LDefault, [x9c]); ListsRd.EvItem (ListSpec.LStartLength 64 8, [x50; x51])].
Proof. vm_compute. repeat split; reflexivity. Qed.

(* ------------------------------------------------------------------ (5) dedup *)

(* RangeListTable::add over a sequence of lists: the table holds every distinct list exactly once, the id returned
   for the k-th add points at that list, and two adds return the same id iff their lists are equal.
   (Each table element is then emitted once, in table order, and offsets.get(id) is where it starts: that is the
   `nth_error ro i = Some o` part of write_read_v5 / write_read_v4 — one offset per table element.) *)
Theorem dedup_rng : forall (xs : list (list wrange)) t ids,
  rng_add_all [] xs = (t, ids) ->
  NoDup t /\ length ids = length xs /\
  (forall k x, nth_error xs k = Some x -> exists i, nth_error ids k = Some i /\ nth_error t i = Some x) /\
  (forall k1 k2 x1 x2 i1 i2, nth_error xs k1 = Some x1 -> nth_error xs k2 = Some x2 ->
     nth_error ids k1 = Some i1 -> nth_error ids k2 = Some i2 -> (x1 = x2 <-> i1 = i2)) /\
  (forall y, In y t <-> In y xs).
Proof. exact lwp_dedup_rng. Qed.

Theorem dedup_loc : forall (xs : list (list wloc)) t ids,
  loc_add_all [] xs = (t, ids) ->
  NoDup t /\ length ids = length xs /\
  (forall k x, nth_error xs k = Some x -> exists i, nth_error ids k = Some i /\ nth_error t i = Some x) /\
  (forall k1 k2 x1 x2 i1 i2, nth_error xs k1 = Some x1 -> nth_error xs k2 = Some x2 ->
     nth_error ids k1 = Some i1 -> nth_error ids k2 = Some i2 -> (x1 = x2 <-> i1 = i2)) /\
  (forall y, In y t <-> In y xs).
Proof. exact lwp_dedup_loc. Qed.

Example dedup_ex :
  rng_add_all [] [[ROffsetPair 1 2]; [RBase (AConst 3)]; [ROffsetPair 1 2]; []; [RBase (AConst 3)]] =
  ([[ROffsetPair 1 2]; [RBase (AConst 3)]; []], [0; 1; 0; 2; 1]%nat).
Proof. vm_compute. reflexivity. Qed.

(* one emitted copy per table element, in table order; the offsets are the running positions *)
Theorem one_copy_v4 : forall loc be version asz hb pos tbl body offs,
  write_tbl_v4 loc be version asz hb pos tbl = Ok (body, offs) ->
  exists bss, Forall2 (fun l bs => write_list_v4 loc be version asz (marker asz) hb l = Ok bs) tbl bss /\
    body = concat bss /\ offs = offsets_from pos bss.
Proof. exact lwp_one_copy_v4. Qed.

Theorem one_copy_v5 : forall loc be version asz pos tbl body offs,
  write_lists_v5 loc be version asz pos tbl = Ok (body, offs) ->
  exists bss, Forall2 (fun l bs => write_list_v5 loc be version asz l = Ok bs) tbl bss /\
    body = concat bss /\ offs = offsets_from pos bss.
Proof. exact lwp_one_copy_v5. Qed.

(* ------------------------------------------------------------------ end to end: add ... add; Unit::write; read *)

(* Any sequence of unit.ranges.add / unit.locations.add calls followed by Unit::write (DWARF 5): for the k-th
   added list, the id returned by add indexes an offset (offsets.get(id)) at which the section decodes to exactly
   that list, which therefore means what was written, for every base address. Combines dedup and write_read_v5. *)
Theorem added_lists_read_back_v5 :
  forall (dbg' be fmt64 : bool) (asz : N) attrs (rstart lstart : N)
    (rxs : list (list wrange)) (lxs : list (list wloc)) rtbl rids ltbl lids rb ro lb lo (rsec lsec : list byte) (base : N),
  rng_add_all [] rxs = (rtbl, rids) -> loc_add_all [] lxs = (ltbl, lids) ->
  unit_write_lists be fmt64 5 asz attrs rstart lstart rtbl ltbl = Ok ((rb, ro), (lb, lo)) ->
  N.of_nat (length rsec) = rstart -> N.of_nat (length lsec) = lstart -> unit_wf rtbl ltbl ->
  (forall k x, nth_error rxs k = Some x ->
     exists id o es rest, nth_error rids k = Some id /\ offsets_get ro id = Ok o /\
       dec5 dbg' false be asz (at_offset o (rsec ++ rb)) = Ok (es, rest) /\
       ents_of (map loc_of_range x) = Some es /\
       meaning_rng asz base x = Some (map fst (resolve asz base es))) /\
  (forall k x, nth_error lxs k = Some x ->
     exists id o es rest, nth_error lids k = Some id /\ offsets_get lo id = Ok o /\
       dec5 dbg' true be asz (at_offset o (lsec ++ lb)) = Ok (es, rest) /\
       ents_of x = Some es /\
       meaning_loc asz base x = Some (resolve asz base es)).
Proof. exact lwp_added_lists_read_back_v5. Qed.

(* The same for DWARF 2-4, relative to the base address the reader derives from the root DIE. *)
Theorem added_lists_read_back_v4 :
  forall (dbg' be fmt64 : bool) (version asz : N) attrs (rstart lstart : N)
    (rxs : list (list wrange)) (lxs : list (list wloc)) rtbl rids ltbl lids rb ro lb lo (rsec lsec : list byte),
  rng_add_all [] rxs = (rtbl, rids) -> loc_add_all [] lxs = (ltbl, lids) ->
  unit_write_lists be fmt64 version asz attrs rstart lstart rtbl ltbl = Ok ((rb, ro), (lb, lo)) ->
  2 <= version <= 4 ->
  N.of_nat (length rsec) = rstart -> N.of_nat (length lsec) = lstart -> unit_wf rtbl ltbl ->
  (forall k x, nth_error rxs k = Some x ->
     exists id o ps rest, nth_error rids k = Some id /\ offsets_get ro id = Ok o /\
       dec4 dbg' false be asz (at_offset o (rsec ++ rb)) = Ok (ps, rest) /\
       meaning_rng asz (unit_base attrs) x = Some (map fst (resolve asz (unit_base attrs) ps))) /\
  (forall k x, nth_error lxs k = Some x ->
     exists id o ps rest, nth_error lids k = Some id /\ offsets_get lo id = Ok o /\
       dec4 dbg' true be asz (at_offset o (lsec ++ lb)) = Ok (ps, rest) /\
       meaning_loc asz (unit_base attrs) x = Some (resolve asz (unit_base attrs) ps)).
Proof. exact lwp_added_lists_read_back_v4. Qed.

Example added_lists_read_back_ex :
  exists rtbl rids out,
    rng_add_all [] [[ROffsetPair 1 2]; [ROffsetPair 1 2]; [RStartEnd (AConst 3) (AConst 4)]] = (rtbl, rids) /\
    rids = [0; 0; 1]%nat /\
    unit_write_lists false true 5 8 [] 0 0 rtbl [] = Ok out.
Proof. do 3 eexists. split; [vm_compute; reflexivity|]. split; [reflexivity|vm_compute; reflexivity]. Qed.

(* ------------------------------------------------------------------ (6) base_from_root *)

(* the writer's have_base_address flag: the root DIE has a DW_AT_low_pc whose value is anything other than
   Address::Constant(0) ... *)
Theorem base_from_root_iff : forall attrs,
  have_base_address attrs = true <-> exists v, In (DW_AT_low_pc, v) attrs /\ v <> VAddress (AConst 0).
Proof. exact lw_have_base_iff. Qed.

(* ... and it is consistent with the reader: when the flag is false the base address the reader derives from the
   same root DIE is 0, so the address pairs the writer then insists on are read as absolute addresses. *)
Theorem base_from_root : forall attrs, have_base_address attrs = false -> unit_base attrs = 0.
Proof. exact lw_base_from_root. Qed.

Example base_from_root_ex :
  have_base_address [(3, VOther); (DW_AT_low_pc, VAddress (AConst 0))] = false /\
  have_base_address [(DW_AT_low_pc, VAddress (AConst 4096))] = true /\ unit_base [(DW_AT_low_pc, VAddress (AConst 4096))] = 4096 /\
  have_base_address [(DW_AT_low_pc, VUdata 0)] = true /\ unit_base [(DW_AT_low_pc, VUdata 7)] = 0.
Proof. vm_compute. repeat split; reflexivity. Qed.

(* ------------------------------------------------------------------ no_panic *)

(* FULL: Unit::write's list part never panics (and the model never runs out of fuel) for ANY input of the Rust
   types: all versions, formats, byte orders, address sizes 0..255, root attributes, section positions, lists.
   The model has no build-mode parameter because the repaired code has no unchecked arithmetic left; what used to
   panic in debug builds is now an error (see rejects_unit_ex). *)
Theorem no_panic : forall be fmt64 version asz attrs rstart lstart (rtbl : list (list wrange)) (ltbl : list (list wloc)),
  unit_wf rtbl ltbl ->
  unit_write_lists be fmt64 version asz attrs rstart lstart rtbl ltbl <> Panic /\
  unit_write_lists be fmt64 version asz attrs rstart lstart rtbl ltbl <> OutOfFuel.
Proof. exact lwp_no_panic. Qed.

Example no_panic_ex :
  unit_wf [[RStartLength (AConst (2 ^ 64 - 1)) 1; RBase (AConst 5)]] [[LStartLength (ASym 3 (- 2 ^ 63)) (2 ^ 64 - 1) [x9c]]].
Proof. split; repeat constructor; try discriminate; try (vm_compute; reflexivity); try (vm_compute; discriminate). Qed.

(* ------------------------------------------------------------------ pins *)
Check rejects_v4 : forall loc be version asz l hb e, size_ok asz -> version <= 4 -> Forall wloc_wf l ->
  rejected asz hb l = Some e -> plain_until_reject asz hb l = true -> write_list_v4 loc be version asz (marker asz) hb l = Err e.
Check rejected_never_bytes : forall loc be version asz l hb bs,
  write_list_v4 loc be version asz (marker asz) hb l = Ok bs -> Forall (wf loc) l -> rejected asz hb l = None.
Check base_from_root : forall attrs, have_base_address attrs = false -> unit_base attrs = 0.
Check no_panic : forall be fmt64 version asz attrs rstart lstart rtbl ltbl, unit_wf rtbl ltbl ->
  unit_write_lists be fmt64 version asz attrs rstart lstart rtbl ltbl <> Panic /\
  unit_write_lists be fmt64 version asz attrs rstart lstart rtbl ltbl <> OutOfFuel.

(* ================================================================ GLUE with C11 (the DIE side) — Model/UnitGlueWr.v, stream c11.glue
   The value Unit::write puts into DW_AT_ranges = RangeListRef(id) / DW_AT_location = LocationListRef(id) is
   offsets.get(id), the number RangeListTable::write / LocationListTable::write returned for that list (UnitWr.av_write
   with wc_rng / wc_loc = those results: that is how Model/UnitGlueWr.gunit_write builds the DIE writer's context).
   Compositions of C11 attr_read_by_reader, C03's Attribute::value() model and the theorems above
   (Proofs/WriterGlueProofs.v). *)
Require GV.Spec.UnitWrSpec GV.Model.UnitWr GV.Proofs.UnitRoundtrip GV.Proofs.AttrProofs GV.Spec.FormSpec GV.Model.Attr
        GV.Model.OpWr GV.Model.UnitGlueWr GV.Proofs.WriterGlueProofs.

(* the attribute step: C03's reader (Attr.parse_attribute under the specification the writer stores: sec_offset, or
   data4/data8 in DWARF 2/3) reads the written bytes back, Attribute::value() makes it RangeListsRef(o) /
   LocationListsRef(o), and C08's Dwarf::attr_ranges_offset / attr_locations_offset return o = the list writer's offset
   of list i *)
Theorem ranges_attr_roundtrip : forall (dbg dbg' : bool) (cx : UnitWr.wcx) (i : nat) (ops : list UnitWr.wop)
    (rest : list byte) (u : ListsRd.uctx),
  UnitWr.av_write dbg cx (UnitWr.AvRangeListRef i) = Ok ops ->
  (forall o, nth_error (UnitWr.wc_rng cx) i = Some o -> o < 2 ^ 64) ->
  AttrProofs.addr_size_ok (UnitRoundtrip.renc cx) -> ListsRd.u_dwo u = false ->
  exists o val,
    nth_error (UnitWr.wc_rng cx) i = Some o /\
    Attr.parse_attribute dbg' (UnitRoundtrip.renc cx)
       (Attr.mkSpec 85 (fst (UnitWr.av_form (UnitWr.wc_enc cx) (UnitWr.AvRangeListRef i))) 0)
       (UnitWr.ops_bytes ops ++ rest) = Ok (val, rest) /\
    ListsRd.attr_ranges_offset u (WriterGlueProofs.lrd_aval (Attr.attr_normalise 85 val)) = Ok (Some o).
Proof. exact (fun dbg dbg' cx i ops rest u => WriterGlueProofs.list_ref_attr_offset dbg dbg' cx false i ops rest u). Qed.

Theorem locations_attr_roundtrip : forall (dbg dbg' : bool) (cx : UnitWr.wcx) (i : nat) (ops : list UnitWr.wop)
    (rest : list byte) (u : ListsRd.uctx),
  UnitWr.av_write dbg cx (UnitWr.AvLocationListRef i) = Ok ops ->
  (forall o, nth_error (UnitWr.wc_loc cx) i = Some o -> o < 2 ^ 64) ->
  AttrProofs.addr_size_ok (UnitRoundtrip.renc cx) -> ListsRd.u_dwo u = false ->
  exists o val,
    nth_error (UnitWr.wc_loc cx) i = Some o /\
    Attr.parse_attribute dbg' (UnitRoundtrip.renc cx)
       (Attr.mkSpec 2 (fst (UnitWr.av_form (UnitWr.wc_enc cx) (UnitWr.AvLocationListRef i))) 0)
       (UnitWr.ops_bytes ops ++ rest) = Ok (val, rest) /\
    ListsRd.attr_locations_offset u (WriterGlueProofs.lrd_aval (Attr.attr_normalise 2 val)) = Ok (Some o).
Proof. exact (fun dbg dbg' cx i ops rest u => WriterGlueProofs.list_ref_attr_offset dbg dbg' cx true i ops rest u). Qed.

(* composed with write_read_by_reader_v5: from the DIE attribute to the supplied list, DWARF 5.  The DIE writer's
   context carries the list writers' results (Hcx); the offsets fit the address space (Hfit). *)
Theorem ranges_locations_attr_roundtrip_v5 : forall (dbg dbg' rdbg be fmt64 : bool) (asz : N) attrs (rstart lstart : N)
    rtbl ltbl (rb lb : list byte) (ro lo : list N) (rsec lsec other : list byte) (cx : UnitWr.wcx) (u : ListsRd.uctx),
  unit_write_lists be fmt64 5 asz attrs rstart lstart rtbl ltbl = Ok ((rb, ro), (lb, lo)) ->
  N.of_nat (length rsec) = rstart -> N.of_nat (length lsec) = lstart -> unit_wf rtbl ltbl ->
  UnitWr.wc_enc cx = UnitWrSpec.mkEnc 5 fmt64 asz /\ UnitWr.wc_be cx = be /\ UnitWr.wc_rng cx = ro /\ UnitWr.wc_loc cx = lo ->
  Forall (fun o => o < 2 ^ 64) (ro ++ lo) ->
  AttrProofs.addr_size_ok (UnitRoundtrip.renc cx) -> ListsRd.u_dwo u = false -> size_ok asz ->
  (forall i l ops rest, nth_error rtbl i = Some l -> UnitWr.av_write dbg cx (UnitWr.AvRangeListRef i) = Ok ops ->
     exists o val es,
       Attr.parse_attribute dbg' (UnitRoundtrip.renc cx)
          (Attr.mkSpec 85 (fst (UnitWr.av_form (UnitWr.wc_enc cx) (UnitWr.AvRangeListRef i))) 0)
          (UnitWr.ops_bytes ops ++ rest) = Ok (val, rest) /\
       ListsRd.attr_ranges_offset u (WriterGlueProofs.lrd_aval (Attr.attr_normalise 85 val)) = Ok (Some o) /\
       ents_of (map loc_of_range l) = Some es /\
       ListsRd.raw_ranges_all rdbg (rd_cfg be asz 5) other (rsec ++ rb) o = Ok (map ListsRd.EvItem (map tr_ent es)) /\
       forall x base, N.of_nat (length (ListsRd.x_addr x)) < two64 ->
         exists rs, meaning_rng asz base l = Some rs /\
           ListsRd.ranges_all rdbg (rd_cfg be asz 5) x other (rsec ++ rb) o base = Ok (map ListsRd.EvItem rs)) /\
  (forall i l ops rest, nth_error ltbl i = Some l -> UnitWr.av_write dbg cx (UnitWr.AvLocationListRef i) = Ok ops ->
     exists o val es,
       Attr.parse_attribute dbg' (UnitRoundtrip.renc cx)
          (Attr.mkSpec 2 (fst (UnitWr.av_form (UnitWr.wc_enc cx) (UnitWr.AvLocationListRef i))) 0)
          (UnitWr.ops_bytes ops ++ rest) = Ok (val, rest) /\
       ListsRd.attr_locations_offset u (WriterGlueProofs.lrd_aval (Attr.attr_normalise 2 val)) = Ok (Some o) /\
       ents_of l = Some es /\
       ListsRd.raw_locations_all rdbg (rd_cfg be asz 5) false other (lsec ++ lb) o = Ok (map ListsRd.EvItem (map tr_loc es)) /\
       forall x base, N.of_nat (length (ListsRd.x_addr x)) < two64 ->
         exists rs, meaning_loc asz base l = Some rs /\
           ListsRd.locations_all rdbg (rd_cfg be asz 5) false x other (lsec ++ lb) o base = Ok (map ListsRd.EvItem rs)).
Proof.
  intros dbg dbg' rdbg be fmt64 asz attrs rstart lstart rtbl ltbl rb lb ro lo rsec lsec other cx u Hw Hrs Hls Hwf Hcx Hfit HA Hd Hs.
  exact (WriterGlueProofs.list_attrs_roundtrip_v5_lemma dbg dbg' rdbg be fmt64 5 asz attrs rstart lstart rtbl ltbl rb lb ro lo
           rsec lsec other cx u Hw Hrs Hls Hwf Hcx Hfit HA Hd eq_refl Hs).
Qed.

(* the same for DWARF 2-4 (.debug_ranges / .debug_loc), relative to the base address the reader derives from the root DIE *)
Theorem ranges_locations_attr_roundtrip_v4 : forall (dbg dbg' rdbg be fmt64 : bool) (version asz : N) attrs (rstart lstart : N)
    rtbl ltbl (rb lb : list byte) (ro lo : list N) (rsec lsec other : list byte) (cx : UnitWr.wcx) (u : ListsRd.uctx),
  unit_write_lists be fmt64 version asz attrs rstart lstart rtbl ltbl = Ok ((rb, ro), (lb, lo)) ->
  N.of_nat (length rsec) = rstart -> N.of_nat (length lsec) = lstart -> unit_wf rtbl ltbl ->
  UnitWr.wc_enc cx = UnitWrSpec.mkEnc version fmt64 asz /\ UnitWr.wc_be cx = be /\ UnitWr.wc_rng cx = ro /\ UnitWr.wc_loc cx = lo ->
  Forall (fun o => o < 2 ^ 64) (ro ++ lo) ->
  AttrProofs.addr_size_ok (UnitRoundtrip.renc cx) -> ListsRd.u_dwo u = false -> 2 <= version <= 4 ->
  (forall i l ops rest, nth_error rtbl i = Some l -> UnitWr.av_write dbg cx (UnitWr.AvRangeListRef i) = Ok ops ->
     exists o val ps,
       Attr.parse_attribute dbg' (UnitRoundtrip.renc cx)
          (Attr.mkSpec 85 (fst (UnitWr.av_form (UnitWr.wc_enc cx) (UnitWr.AvRangeListRef i))) 0)
          (UnitWr.ops_bytes ops ++ rest) = Ok (val, rest) /\
       ListsRd.attr_ranges_offset u (WriterGlueProofs.lrd_aval (Attr.attr_normalise 85 val)) = Ok (Some o) /\
       pairs_of (map loc_of_range l) = Some ps /\
       ListsRd.raw_ranges_all rdbg (rd_cfg be asz version) (rsec ++ rb) other o = Ok (map ListsRd.EvItem (map tr_ent ps)) /\
       forall x, N.of_nat (length (ListsRd.x_addr x)) < two64 ->
         exists rs, meaning_rng asz (unit_base attrs) l = Some rs /\
           ListsRd.ranges_all rdbg (rd_cfg be asz version) x (rsec ++ rb) other o (unit_base attrs) = Ok (map ListsRd.EvItem rs)) /\
  (forall i l ops rest, nth_error ltbl i = Some l -> UnitWr.av_write dbg cx (UnitWr.AvLocationListRef i) = Ok ops ->
     exists o val ps,
       Attr.parse_attribute dbg' (UnitRoundtrip.renc cx)
          (Attr.mkSpec 2 (fst (UnitWr.av_form (UnitWr.wc_enc cx) (UnitWr.AvLocationListRef i))) 0)
          (UnitWr.ops_bytes ops ++ rest) = Ok (val, rest) /\
       ListsRd.attr_locations_offset u (WriterGlueProofs.lrd_aval (Attr.attr_normalise 2 val)) = Ok (Some o) /\
       pairs_of l = Some ps /\
       ListsRd.raw_locations_all rdbg (rd_cfg be asz version) false (lsec ++ lb) other o = Ok (map ListsRd.EvItem (map tr_loc ps)) /\
       forall x, N.of_nat (length (ListsRd.x_addr x)) < two64 ->
         exists rs, meaning_loc asz (unit_base attrs) l = Some rs /\
           ListsRd.locations_all rdbg (rd_cfg be asz version) false x (lsec ++ lb) other o (unit_base attrs) = Ok (map ListsRd.EvItem rs)).
Proof.
  intros dbg dbg' rdbg be fmt64 version asz attrs rstart lstart rtbl ltbl rb lb ro lo rsec lsec other cx u Hw Hrs Hls Hwf Hcx Hfit HA Hd Hv.
  exact (WriterGlueProofs.list_attrs_roundtrip_v4_lemma dbg dbg' rdbg be fmt64 version asz attrs rstart lstart rtbl ltbl rb lb ro lo
           rsec lsec other cx u Hw Hrs Hls Hwf Hcx Hfit HA Hd Hv).
Qed.

(* a DWARF 4 unit: two range lists, the second referenced by DW_AT_ranges: data written = 32 = the list writer's offset *)
Definition gx_cx : UnitWr.wcx := UnitWr.mkWcx (UnitWrSpec.mkEnc 4 false 8) false 0 0 [] [] None [] [] [0; 32] [] 2.
Example ranges_attr_roundtrip_ex :
  (exists rb lb, unit_write_lists false false 4 8 [(DW_AT_low_pc, VAddress (AConst 4096))] 0 0
                   [[ROffsetPair 1 2]; [ROffsetPair 3 9]] [] = Ok ((rb, [0; 32]), (lb, []))) /\
  UnitWr.av_write true gx_cx (UnitWr.AvRangeListRef 1) = Ok [UnitWr.WB [x20; x00; x00; x00]] /\
  Attr.attr_normalise 85 (FormSpec.VSecOffset 32) = FormSpec.VRangeListsRef 32 /\
  AttrProofs.addr_size_ok (UnitRoundtrip.renc gx_cx).
Proof.
  split; [eexists; eexists; vm_compute; reflexivity|]. split; [vm_compute; reflexivity|].
  split; [reflexivity|vm_compute; reflexivity].
Qed.

(* LocationListTable::write of the composed model (real expressions, fix-ups) = table_write of this property's model on the
   raw view of the table (each expression replaced by the bytes it is written as: WriterGlueProofs.raw_rel): same bytes,
   same LocationListOffsets.  Hence every theorem above about table_write / unit_write_lists applies to the location
   lists the composed model writes. *)
Theorem loc_table_write_composed : forall dbg oe uo hb start tbl bytes offs fx,
  UnitGlueWr.gloc_table_write dbg oe uo hb start tbl = Ok (bytes, offs, fx) -> start + 20 + OpWr.blen bytes < 2 ^ 64 ->
  exists rtbl, Forall2 (Forall2 (WriterGlueProofs.raw_rel dbg oe uo)) tbl rtbl /\
    table_write true (OpWr.e_be oe) (OpWr.e_fmt64 oe) (OpWr.e_version oe) (OpWr.e_asize oe) hb start rtbl = Ok (bytes, offs).
Proof. exact WriterGlueProofs.gloc_table_write_raw. Qed.
