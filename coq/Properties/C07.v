(* Properties/C07.v — Expression decoding and evaluation equal the DWARF stack machine.
   Only statements (`exact lemma`), non-vacuity examples and pins live here. *)
From Coq Require Import List NArith ZArith Bool.
From Coq.Strings Require Import Byte.
Require Import GV.Base.Res GV.Base.Byt GV.Base.Ints.
Require Import GV.Model.Leb GV.Model.Prim GV.Model.OpDec GV.Model.OpVal GV.Model.OpEval GV.Spec.StackSpec.
Require Import GV.Proofs.OpDecProofs GV.Proofs.OpValProofs.
Import ListNotations.
Local Open Scope N_scope.

(* ------------------------------------------------------------------------------------------------
   1. Decoding.  For EVERY opcode byte (all 256), every encoding (address size, format, version,
   byte order), both build modes and every operand byte string, Operation::parse is the generic
   table-driven decoder applied to the operand layout that DWARF 5 Table 7.9 (+ GNU/WASM) gives
   the opcode, followed by the opcode's constructor; opcodes outside the table give
   InvalidExpression. *)
Theorem decode_table : forall (dbg : bool) (e : enc) (opc : byte) (bs : list byte),
  parse_op dbg e (opc :: bs) = generic_decode dbg e opc bs.
Proof. intros. exact (decode_table_lemma dbg e opc bs). Qed.

(* Decoding never panics (no overflow check can fire, in either build mode) and needs no fuel. *)
Theorem decode_no_panic : forall (dbg : bool) (e : enc) (bs : list byte),
  parse_op dbg e bs <> Panic /\ parse_op dbg e bs <> OutOfFuel.
Proof. exact parse_op_no_panic_lemma. Qed.

(* A successful decode consumes the opcode byte plus a prefix of the rest: the returned reader is a
   strict suffix of the input (this is what makes OperationIter and the evaluator progress). *)
Theorem decode_consumes : forall (dbg : bool) (e : enc) (bs : list byte) (o : operation) (rest : list byte),
  parse_op dbg e bs = Ok (o, rest) -> exists b u, bs = b :: u ++ rest.
Proof. exact parse_op_consumes. Qed.

(* The result does not depend on the build mode (debug overflow checks vs release wrapping). *)
Theorem decode_build_mode_independent : forall (e : enc) (bs : list byte),
  parse_op true e bs = parse_op false e bs.
Proof. exact parse_op_dbg. Qed.

(* Expression::operations stops: the stated fuel (length + 1) suffices and no step panics. *)
Theorem operations_terminate : forall (dbg : bool) (e : enc) (bs : list byte),
  snd (operations dbg e bs) <> Some OutOfFuel /\ snd (operations dbg e bs) <> Some Panic.
Proof. exact operations_total. Qed.

Example decode_ex_bregx :    (* DW_OP_bregx 300, -2  on a 4-byte big-endian v5 target *)
  parse_op true (mkEnc 4 false 5 true) [x92; xac; x02; x7e; xaa] = Ok (ORegisterOffset 300 (-2) 0, [xaa]).
Proof. vm_compute. reflexivity. Qed.
Example decode_ex_implicit_pointer_v2 :   (* the reference is address-sized in DWARF 2, offset-sized later *)
  parse_op true (mkEnc 2 true 2 false) [xa0; x34; x12; x05] = Ok (OImplicitPointer 4660 5, []) /\
  parse_op true (mkEnc 2 false 5 false) [xa0; x34; x12; x00; x00; x05] = Ok (OImplicitPointer 4660 5, []).
Proof. split; vm_compute; reflexivity. Qed.
Example decode_ex_piece_overflow :        (* DW_OP_piece with 2^61 bytes: error, not a wrapped size *)
  parse_op true (mkEnc 8 false 5 false) [x93; x80; x80; x80; x80; x80; x80; x80; x80; x20] = Err EInvalidExpression.
Proof. vm_compute. reflexivity. Qed.

(* ------------------------------------------------------------------------------------------------
   2. Value arithmetic.  `canon sz v` is the value v denotes on a target with sz-byte addresses (a
   generic value is its residue modulo 2^(8 sz)).  For address sizes 1, 2, 4, 8, every fops (IEEE
   arithmetic is a parameter), all well-formed operands a b: the result of the model of
   Value::op(a, b, addr_mask), canonicalised, is the DWARF stack machine's op applied to the
   canonical operands — same value or same error.  Signedness per operation is in Spec/StackSpec.v
   (div/abs/neg/shra/compare signed, mod/shr unsigned; shifts by >= width give 0 or the sign). *)
Definition agrees1 (sz : N) (m : value -> N -> res value) (s : value -> res value) : Prop :=
  forall a, addr_size sz -> wf_value a = true -> cres sz (m a (amask sz)) = s (canon sz a).
Definition agrees2 (sz : N) (m : value -> value -> N -> res value) (s : value -> value -> res value) : Prop :=
  forall a b, addr_size sz -> wf_value a = true -> wf_value b = true ->
    cres sz (m a b (amask sz)) = s (canon sz a) (canon sz b).
(* shifts: the same, for counts that are canonical when generic (see shift_count_refuted) *)
Definition agrees_shift (sz : N) (m : value -> value -> N -> res value) (s : value -> value -> res value) : Prop :=
  forall a b, addr_size sz -> wf_value a = true -> wf_value b = true -> count_ok sz b ->
    cres sz (m a b (amask sz)) = s (canon sz a) (canon sz b).

Theorem value_ops : forall (F : fops) (sz : N),
  agrees2 sz (vadd F) (sp_add sz F) /\ agrees2 sz (vsub F) (sp_sub sz F) /\ agrees2 sz (vmul F) (sp_mul sz F) /\
  agrees2 sz (vdiv F) (sp_div sz F) /\ agrees2 sz vrem (sp_rem sz) /\
  agrees2 sz (vand F) sp_and /\ agrees2 sz (vor F) sp_or /\ agrees2 sz (vxor F) sp_xor /\
  agrees1 sz (vnot F) (sp_not sz) /\ agrees1 sz vneg (sp_neg sz) /\ agrees1 sz vabs (sp_abs sz) /\
  agrees2 sz veq (sp_eq sz) /\ agrees2 sz vge (sp_ge sz) /\ agrees2 sz vgt (sp_gt sz) /\
  agrees2 sz vle (sp_le sz) /\ agrees2 sz vlt (sp_lt sz) /\ agrees2 sz vne (sp_ne sz) /\
  agrees_shift sz vshl (sp_shl sz) /\ agrees_shift sz vshr (sp_shr sz) /\ agrees_shift sz vshra (sp_shra sz) /\
  (forall a t, addr_size sz -> wf_value a = true -> cres sz (convert F a t (amask sz)) = sp_convert sz F (canon sz a) t) /\
  (forall a t, addr_size sz -> wf_value a = true -> cres sz (reinterpret a t (amask sz)) = sp_reinterpret sz (canon sz a) t).
Proof.
  intros F sz. unfold agrees1, agrees2, agrees_shift.
  repeat split; intros.
  - now apply vadd_spec. - now apply vsub_spec. - now apply vmul_spec. - now apply vdiv_spec.
  - now apply vrem_spec. - now apply vand_spec. - now apply vor_spec. - now apply vxor_spec.
  - now apply vnot_spec. - now apply vneg_spec. - now apply vabs_spec.
  - now apply veq_spec. - now apply vge_spec. - now apply vgt_spec. - now apply vle_spec.
  - now apply vlt_spec. - now apply vne_spec.
  - now apply vshl_spec. - now apply vshr_spec. - now apply vshra_spec.
  - now apply convert_spec. - now apply reinterpret_spec.
Qed.

(* "Generic values compared modulo the address size" FAILS for the count operand of shl/shr/shra:
   Value::shift_length takes the raw 64-bit container.  On a 4-byte target the generic count
   2^32+1 denotes 1; the stack machine gives 1 << 1 = 2, gimli gives 0.  (known_findings.txt) *)
Theorem shift_count_refuted :
  exists (sz : N) (a b : value), addr_size sz /\ wf_value a = true /\ wf_value b = true /\
    cres sz (vshl a b (amask sz)) <> sp_shl sz (canon sz a) (canon sz b).
Proof.
  exists 4, (mkV TGeneric 1), (mkV TGeneric 4294967297).
  destruct shift_count_witness as [H1 H2]. repeat split; try (right; right; left; reflexivity).
  rewrite H1, H2. discriminate.
Qed.

(* the hypotheses are satisfiable by non-trivial instances; two boundary computations *)
Example value_ex_hyp : addr_size 2 /\ wf_value (mkV TGeneric 18446744073709551615) = true /\ count_ok 2 (mkV TGeneric 65535)
  /\ count_ok 2 (mkV TI8 255).
Proof. repeat split; try (right; left; reflexivity); try reflexivity; intros; try discriminate; vm_compute; reflexivity. Qed.
Example value_ex_shra :   (* 2-byte target: 0x8000 shra 20 = -1 (all ones in the 64-bit container), canonically 0xffff *)
  cres 2 (vshra (mkV TGeneric 32768) (mkV TGeneric 20) (amask 2)) = Ok (mkV TGeneric 65535).
Proof. vm_compute. reflexivity. Qed.
Example value_ex_div_min :   (* i8: -128 / -1 wraps to -128 *)
  vdiv no_fops (mkV TI8 128) (mkV TI8 255) (amask 4) = Ok (mkV TI8 128).
Proof. vm_compute. reflexivity. Qed.

Check decode_table : forall (dbg : bool) (e : enc) (opc : byte) (bs : list byte),
  parse_op dbg e (opc :: bs) = generic_decode dbg e opc bs.
Check decode_no_panic : forall (dbg : bool) (e : enc) (bs : list byte),
  parse_op dbg e bs <> Panic /\ parse_op dbg e bs <> OutOfFuel.
