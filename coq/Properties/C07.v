(* Properties/C07.v — Expression decoding and evaluation equal the DWARF stack machine.
   Only statements (`exact lemma`), non-vacuity examples and pins live here. *)
From Coq Require Import List NArith ZArith Bool.
From Coq.Strings Require Import Byte.
Require Import GV.Base.Res GV.Base.Byt GV.Base.Ints.
Require Import GV.Model.Leb GV.Model.Prim GV.Model.OpDec GV.Model.OpVal GV.Model.OpEval GV.Spec.StackSpec GV.Spec.StackMachine.
Require Import GV.Proofs.OpDecProofs GV.Proofs.OpValProofs GV.Proofs.OpEvalProofs GV.Proofs.OpEvalRefine.
Import ListNotations.
Local Open Scope N_scope.

(* ------------------------------------------------------------------------------------------------
   1. Decoding.  For EVERY opcode byte (all 256), every encoding (address size, format, version,
   byte order), both build modes and every operand byte string, Operation::parse is the generic
   table-driven decoder applied to the operand layout that DWARF 5 Table 7.9 (+ GNU/WASM) gives
   the opcode, followed by the opcode's constructor; opcodes outside the table give
   InvalidExpression. *)
Theorem decode_table : forall (dbg : bool) (e : enc) (opc : byte) (bs : list byte),
  parse_op dbg e (opc :: bs) = generic_decode dbg e opc bs.
Proof. intros. exact (decode_table_lemma dbg e opc bs). Qed.

(* Decoding never panics (no overflow check can fire, in either build mode) and needs no fuel. *)
Theorem decode_no_panic : forall (dbg : bool) (e : enc) (bs : list byte),
  parse_op dbg e bs <> Panic /\ parse_op dbg e bs <> OutOfFuel.
Proof. exact parse_op_no_panic_lemma. Qed.

(* A successful decode consumes the opcode byte plus a prefix of the rest: the returned reader is a
   strict suffix of the input (this is what makes OperationIter and the evaluator progress). *)
Theorem decode_consumes : forall (dbg : bool) (e : enc) (bs : list byte) (o : operation) (rest : list byte),
  parse_op dbg e bs = Ok (o, rest) -> exists b u, bs = b :: u ++ rest.
Proof. exact parse_op_consumes. Qed.

(* The result does not depend on the build mode (debug overflow checks vs release wrapping). *)
Theorem decode_build_mode_independent : forall (e : enc) (bs : list byte),
  parse_op true e bs = parse_op false e bs.
Proof. exact parse_op_dbg. Qed.

(* Expression::operations stops: the stated fuel (length + 1) suffices and no step panics. *)
Theorem operations_terminate : forall (dbg : bool) (e : enc) (bs : list byte),
  snd (operations dbg e bs) <> Some OutOfFuel /\ snd (operations dbg e bs) <> Some Panic.
Proof. exact operations_total. Qed.

(* Encoding then decoding is the identity: for every operation that is a value of gimli's Operation type
   (wf_op: fields within their Rust widths, piece sizes a whole number of bytes for DW_OP_piece, ...),
   every encoding, both build modes and every continuation `rest`, parsing the canonical encoding
   (Spec/StackSpec.v enc_op: DWARF 5 opcodes, minimal LEB128) returns the operation and leaves `rest`. *)
Theorem decode_roundtrip : forall (dbg : bool) (e : enc) (o : operation) (rest : list byte),
  wf_op e o -> parse_op dbg e (enc_op e o ++ rest) = Ok (o, rest).
Proof. exact decode_roundtrip_lemma. Qed.

Example decode_roundtrip_ex :   (* wf_op is satisfiable by a non-trivial operation; and the bytes it produces *)
  wf_op (mkEnc 8 true 5 false) (OImplicitPointer 4886718345 (-3)) /\
  enc_op (mkEnc 8 true 5 false) (OImplicitPointer 4886718345 (-3)) = [xa0; x89; x67; x45; x23; x01; x00; x00; x00; x7d] /\
  wf_op (mkEnc 2 false 2 true) (ORegisterOffset 65535 (-9223372036854775808) 0).
Proof. repeat split; try (vm_compute; reflexivity). intros H. now elim H. Qed.

Example decode_ex_bregx :    (* DW_OP_bregx 300, -2  on a 4-byte big-endian v5 target *)
  parse_op true (mkEnc 4 false 5 true) [x92; xac; x02; x7e; xaa] = Ok (ORegisterOffset 300 (-2) 0, [xaa]).
Proof. vm_compute. reflexivity. Qed.
Example decode_ex_implicit_pointer_v2 :   (* the reference is address-sized in DWARF 2, offset-sized later *)
  parse_op true (mkEnc 2 true 2 false) [xa0; x34; x12; x05] = Ok (OImplicitPointer 4660 5, []) /\
  parse_op true (mkEnc 2 false 5 false) [xa0; x34; x12; x00; x00; x05] = Ok (OImplicitPointer 4660 5, []).
Proof. split; vm_compute; reflexivity. Qed.
Example decode_ex_piece_overflow :        (* DW_OP_piece with 2^61 bytes: error, not a wrapped size *)
  parse_op true (mkEnc 8 false 5 false) [x93; x80; x80; x80; x80; x80; x80; x80; x80; x20] = Err EInvalidExpression.
Proof. vm_compute. reflexivity. Qed.

(* ------------------------------------------------------------------------------------------------
   2. Value arithmetic.  `canon sz v` is the value v denotes on a target with sz-byte addresses (a
   generic value is its residue modulo 2^(8 sz); typed values are canonical by construction).
   For address sizes 1, 2, 4, 8 (addr_size), every fops (IEEE arithmetic is a parameter), all
   well-formed operands: the model of Value::op(a, b, addr_mask), canonicalised (cres), is the DWARF
   stack machine's op on the canonical operands — the same value or the same error.  Signedness per
   operation is in Spec/StackSpec.v (div/abs/neg/shra/compare signed, mod/shr unsigned; shifts by
   >= width give 0 or the sign).  agrees1/agrees2 (Proofs/OpValProofs.v) are
     agrees2 sz m s := forall a b, addr_size sz -> wf_value a = true -> wf_value b = true ->
                         cres sz (m a b (amask sz)) = s (canon sz a) (canon sz b).
   Since repair 0858756 (shift_length applies addr_mask) this holds for the shift operations with no
   side condition on the count. *)
Theorem value_ops : forall (F : fops) (sz : N),
  agrees2 sz (vadd F) (sp_add sz F) /\ agrees2 sz (vsub F) (sp_sub sz F) /\ agrees2 sz (vmul F) (sp_mul sz F) /\
  agrees2 sz (vdiv F) (sp_div sz F) /\ agrees2 sz vrem (sp_rem sz) /\
  agrees2 sz (vand F) sp_and /\ agrees2 sz (vor F) sp_or /\ agrees2 sz (vxor F) sp_xor /\
  agrees1 sz (vnot F) (sp_not sz) /\ agrees1 sz vneg (sp_neg sz) /\ agrees1 sz vabs (sp_abs sz) /\
  agrees2 sz veq (sp_eq sz) /\ agrees2 sz vge (sp_ge sz) /\ agrees2 sz vgt (sp_gt sz) /\
  agrees2 sz vle (sp_le sz) /\ agrees2 sz vlt (sp_lt sz) /\ agrees2 sz vne (sp_ne sz) /\
  agrees2 sz vshl (sp_shl sz) /\ agrees2 sz vshr (sp_shr sz) /\ agrees2 sz vshra (sp_shra sz) /\
  (forall a t, addr_size sz -> wf_value a = true -> cres sz (convert F a t (amask sz)) = sp_convert sz F (canon sz a) t) /\
  (forall a t, addr_size sz -> wf_value a = true -> cres sz (reinterpret a t (amask sz)) = sp_reinterpret sz (canon sz a) t).
Proof. exact value_ops_lemma. Qed.

(* "Generic values compared modulo the address size", one operation at a time, for EVERY operation (shift
   counts included): operands denoting the same canonical values give results denoting the same canonical
   value, or the same error. *)
Theorem mask_invariance_partial : forall (F : fops) (sz : N) (a a' b b' : value),
  addr_size sz -> wf_value a = true -> wf_value a' = true -> wf_value b = true -> wf_value b' = true ->
  canon sz a = canon sz a' -> canon sz b = canon sz b' ->
  (forall op, In op [vadd F; vsub F; vmul F; vdiv F; vrem; vand F; vor F; vxor F; veq; vge; vgt; vle; vlt; vne;
                     vshl; vshr; vshra] ->
     cres sz (op a b (amask sz)) = cres sz (op a' b' (amask sz))) /\
  (forall op, In op [vnot F; vneg; vabs] -> cres sz (op a (amask sz)) = cres sz (op a' (amask sz))) /\
  (forall t, cres sz (convert F a t (amask sz)) = cres sz (convert F a' t (amask sz))) /\
  (forall t, cres sz (reinterpret a t (amask sz)) = cres sz (reinterpret a' t (amask sz))).
Proof. exact mask_invariance_ops. Qed.
(* Full statement (DESIGN): stacks related pointwise by "equal modulo 2^(8 sz) on Generic" step to related
   stacks with identical requests/results, for whole evaluations.  Still missing: the lifting of this
   per-operation statement through evaluate_one_operation/evaluate_internal (it needs the closure of
   wf_value under every operation and an assumption on fops); the lifted statement is exercised by stream
   c07.spec, which compares gimli with the normalised machine on whole evaluations. *)

(* the repaired behaviour of the former finding: on a 4-byte target the generic count 2^32+1 denotes 1 *)
Example shift_count_repaired_ex :
  cres 4 (vshl (mkV TGeneric 1) (mkV TGeneric 4294967297) (amask 4)) = Ok (mkV TGeneric 2) /\
  sp_shl 4 (canon 4 (mkV TGeneric 1)) (canon 4 (mkV TGeneric 4294967297)) = Ok (mkV TGeneric 2).
Proof. exact shift_count_repaired. Qed.

(* the hypotheses are satisfiable by non-trivial instances; two boundary computations *)
Example value_ex_hyp : addr_size 2 /\ wf_value (mkV TGeneric 18446744073709551615) = true /\ wf_value (mkV TI8 255) = true.
Proof. repeat split; try (right; left; reflexivity); reflexivity. Qed.
Example value_ex_shra :   (* 2-byte target: 0x8000 shra 20 = -1 (all ones in the 64-bit container), canonically 0xffff *)
  cres 2 (vshra (mkV TGeneric 32768) (mkV TGeneric 20) (amask 2)) = Ok (mkV TGeneric 65535).
Proof. vm_compute. reflexivity. Qed.
Example value_ex_div_min :   (* i8: -128 / -1 wraps to -128 *)
  vdiv no_fops (mkV TI8 128) (mkV TI8 255) (amask 4) = Ok (mkV TI8 128).
Proof. vm_compute. reflexivity. Qed.

(* ------------------------------------------------------------------------------------------------
   3. Evaluation.  inv s := the pc is a suffix of the current bytecode and every saved caller pc is a
   suffix of its bytecode.  It holds initially and is preserved by every step of the evaluator
   (evaluate_one_operation, end_of_expression, every resume_with_*, evaluate_internal); under it
   compute_pc never reaches the out-of-slice case. *)
Theorem pc_in_bounds : forall (F : fops) (dbg : bool) (c : cfg) (mask : N),
  (forall bs, inv (initial_state bs)) /\
  (forall s r s', inv s -> evaluate_one_operation F dbg c mask s = Ok (r, s') -> inv s') /\
  (forall s, inv s -> inv (snd (end_of_expression s))) /\
  (forall w a s s', inv s -> resume_apply F c mask w a s = Ok s' -> inv s') /\
  (forall fuel n s o s', c_max c = Some n -> n <= 4294967295 -> inv s -> s_iter s <= n ->
     evaluate_internal F fuel dbg c mask s = Ok (o, s') -> inv s') /\
  (forall s t, inv s -> compute_pc s t <> Panic).
Proof. exact pc_in_bounds_lemma. Qed.

(* Branch targets: with the pc inside the bytecode (and a bytecode shorter than 2^63 bytes), DW_OP_skip /
   DW_OP_bra with 16-bit offset t land exactly when 0 <= offset_of_next_op + t <= len — the end of the
   expression is a valid target, anything else is BadBranchTarget; no wrap-around is accepted. *)
Theorem branch_target_exact : forall (s : st) (t : Z),
  sfx (s_pc s) (s_bytecode s) -> (- 32768 <= t < 32768)%Z -> N.of_nat (length (s_bytecode s)) < 2 ^ 63 ->
  let off := (Z.of_nat (length (s_bytecode s)) - Z.of_nat (length (s_pc s)))%Z in
  compute_pc s t =
    if ((0 <=? off + t) && (off + t <=? Z.of_nat (length (s_bytecode s))))%Z
    then Ok (skipn (Z.to_nat (off + t)) (s_bytecode s)) else Err EBadBranchTarget.
Proof. exact compute_pc_exact. Qed.

(* Iteration limit.  With max_iterations = Some n for EVERY u32 n (u32::MAX included, since repair 273f60c compares
   before counting), address size <= 8 and fuel n+1, for EVERY program, answer list, configuration and both build
   modes the whole conversation (evaluate + all resumes): never runs out of fuel (so it terminates: a looping
   program ends in Err TooManyIterations), never panics, and on completion at most n operations were evaluated and
   at most 2n decoded (one per iteration plus at most one extra decode after a completing operation).
   bounded_final n f := f <> FOutOfFuel /\ f <> FPanic /\
                        forall ps vr nops nparse, f = FComplete ps vr nops nparse -> nops <= n /\ nparse <= 2 * n *)
Theorem iteration_bound : forall (F : fops) (dbg : bool) (c : cfg) (n : N) (fuel : nat)
    (program : list byte) (answers : list answer),
  c_max c = Some n -> n <= 4294967295 -> e_asz (c_enc c) <= 8 -> (N.to_nat n < fuel)%nat ->
  bounded_final n (snd (run F fuel dbg c program answers)).
Proof. exact run_bound. Qed.

(* Composite locations: what Evaluation::result()/value_result() can be after completion, for every program,
   answer list, configuration, fuel and build mode.  result_shape mask ps vr :=
     ps <> [] /\ ( (vr = None /\ (every piece has a size  \/  ps = [one piece without size and offset]))
                 \/ (exists v a, vr = Some v /\ to_u64 v mask = Ok a /\ ps = [Address a without size]) )
   i.e. a piece without a size is always the only piece ("if None, there must be only one piece"), and a value
   result exists exactly when the expression left its result on the stack, in which case the single piece is the
   implicit Address piece of that value. *)
Theorem pieces : forall (F : fops) (dbg : bool) (c : cfg) (fuel : nat) (program : list byte) (answers : list answer)
    (reqs : list request) (ps : list piece) (vr : option value) (a b mask : N),
  new_mask dbg (e_asz (c_enc c)) = Ok mask ->
  run F fuel dbg c program answers = (reqs, FComplete ps vr a b) -> result_shape mask ps vr.
Proof. exact run_pieces. Qed.

(* The specification oracle of stream c07.spec is the NORMALISED machine: the model evaluator with c_canon = Some bits,
   which reduces every generic value modulo 2^bits when it is pushed.  For every program, configuration and answer list
   every state it hands back to the consumer has a stack whose generic values are canonical (gcanon bits v :=
   vty v = TGeneric -> vbits v < 2^bits) — so it is the DWARF stack machine over Z/2^bits: all its Value operations,
   the shift counts included, act on canonical operands.  gimli is compared with it modulo 2^bits (class n of c07.spec). *)
Theorem normalised_machine_canonical : forall (F : fops) (dbg : bool) (c : cfg) (mask bits : N), c_canon c = Some bits ->
  (forall fuel program o s, evaluate F fuel dbg c mask program = Ok (o, s) -> Forall (gcanon bits) (s_stack s)) /\
  (forall fuel w a s o s', Forall (gcanon bits) (s_stack s) -> resume F fuel dbg c mask w a s = Ok (o, s') ->
     Forall (gcanon bits) (s_stack s')).
Proof. exact normalised_machine_lemma. Qed.

(* No limit set: the iteration counter is not touched at all (so it cannot overflow however long the evaluation
   runs), and evaluate_internal does not panic. *)
Theorem iteration_unlimited : forall (F : fops) (dbg : bool) (c : cfg) (mask : N), c_max c = None ->
  forall fuel s, inv s -> evaluate_internal F fuel dbg c mask s <> Panic /\
  forall o s', evaluate_internal F fuel dbg c mask s = Ok (o, s') -> inv s' /\ s_iter s' = s_iter s.
Proof. exact ei_unlimited. Qed.

(* Panic freedom of the evaluator: every iteration limit that is a u32, or none; every address size up to 8 (larger
   ones overflow the shift in Evaluation::new in debug builds); every program, answer list, fuel, both build modes. *)
Theorem eval_no_panic : forall (F : fops) (dbg : bool) (c : cfg) (fuel : nat) (program : list byte) (answers : list answer),
  lim_cfg c -> e_asz (c_enc c) <= 8 -> snd (run F fuel dbg c program answers) <> FPanic.
Proof. exact run_no_panic. Qed.

(* the repaired behaviour of the former defect: set_max_iterations(u32::MAX) stops the self-loop `DW_OP_skip -3`
   with the limit error after 2^32-1 iterations in both build modes (before: debug panic / release non-termination) *)
Example iteration_limit_u32_max_repaired : forall dbg,
  exists fuel, run no_fops fuel dbg loop_cfg loop_prog [] = ([], FErr ETooManyIterations).
Proof. exact iteration_limit_u32_max_lemma. Qed.

Definition ex_cfg (maxit : option N) : cfg := mkCfg (mkEnc 4 false 4 false) None maxit None None None None None.
Example iteration_ex_loop :     (* `DW_OP_skip -3` jumps to itself: the limit error, not a hang *)
  run no_fops 7 true (ex_cfg (Some 6)) [x2f; xfd; xff] [] = ([], FErr ETooManyIterations).
Proof. vm_compute. reflexivity. Qed.
Example iteration_ex_exact :    (* lit1 lit2 plus stack_value: 4 operations need a limit of 4 *)
  run no_fops 5 true (ex_cfg (Some 4)) [x31; x32; x22; x9f] [] =
    ([], FComplete [mkPiece None None (LValue (mkV TGeneric 3))] None 4 4) /\
  run no_fops 4 true (ex_cfg (Some 3)) [x31; x32; x22; x9f] [] = ([], FErr ETooManyIterations).
Proof. split; vm_compute; reflexivity. Qed.
Example iteration_ex_extra_decode :   (* reg0 piece 4: one iteration, two decodes *)
  run no_fops 3 true (ex_cfg (Some 1)) [x50; x93; x04] [] =
    ([], FComplete [mkPiece (Some 32) None (LRegister 0)] None 1 2).
Proof. vm_compute. reflexivity. Qed.
Example branch_ex_into_operand :      (* Bra/Skip may land inside an instruction: skip -2 re-decodes its own operand bytes *)
  run no_fops 9 true (ex_cfg (Some 8)) [x31; x2f; xfe; xff] [] = ([], FErr EInvalidExpression).
Proof. vm_compute. reflexivity. Qed.

Example pieces_ex_composite :   (* reg0 piece 4; piece 2 (empty); lit5 stack_value bit_piece 3,1 *)
  run no_fops 20 true (ex_cfg None) [x50; x93; x04; x93; x02; x35; x9f; x9d; x03; x01] [] =
    ([], FComplete [mkPiece (Some 32) None (LRegister 0); mkPiece (Some 16) None LEmpty;
                    mkPiece (Some 3) (Some 1) (LValue (mkV TGeneric 5))] None 4 6).
Proof. vm_compute. reflexivity. Qed.
Example pieces_ex_unterminated :   (* a piece followed by an unterminated computation: InvalidPiece *)
  run no_fops 20 true (ex_cfg None) [x50; x93; x04; x35] [] = ([], FErr EInvalidPiece) /\
  run no_fops 20 true (ex_cfg None) [x50; x35] [] = ([], FErr EInvalidExpressionTerminator).
Proof. split; vm_compute; reflexivity. Qed.
Example normalised_ex_shift :   (* lit1; const4u 0x80000001; lit1; shl; shl on a 4-byte target: 4 (0 before repair 0858756) *)
  run no_fops 9 true (ex_cfg (Some 8)) [x31; x0c; x01; x00; x00; x80; x31; x24; x24] [] =
    ([], FComplete [mkPiece None None (LAddress 4)] (Some (mkV TGeneric 4)) 5 5) /\
  run no_fops 9 true (mkCfg (mkEnc 4 false 4 false) None (Some 8) None None None None (Some 32))
      [x31; x0c; x01; x00; x00; x80; x31; x24; x24] [] =
    ([], FComplete [mkPiece None None (LAddress 4)] (Some (mkV TGeneric 4)) 5 5).
Proof. split; vm_compute; reflexivity. Qed.
(* ------------------------------------------------------------------------------------------------
   4. Refinement of the whole evaluator.  Spec/StackMachine.v is the DWARF stack machine over CANONICAL values
   (spec_step: one decoded operation through the value algebra sp_* of Spec/StackSpec.v; spec_run: the whole
   conversation with the consumer).  abs_trace sz reads a model trace canonically: requests and the final error
   variant unchanged, generic values inside pieces (DW_OP_stack_value) and the value result reduced modulo
   2^(8 sz).  For EVERY program (byte list), every configuration whose fields are Rust values (cfg_ok: address
   size sz in {1,2,4,8}, any format/version/byte order, u64 initial value and object address, u32 iteration
   limit or none, any storage capacities, the faithful model c_canon = None), every answer list of Rust values
   (wf_answer), both build modes, every fuel and every float implementation whose results fit their width
   (fops_wf: any IEEE implementation):
       the canonical reading of the model evaluator's trace IS the trace of the stack machine.
   Proof: one-step simulation step_sim (evaluate_one_operation vs spec_one under abs_st = "stack values modulo
   2^(8 sz)", every one of the 59 operations, typed/float operations, calls, entry values and pieces included),
   preservation of the invariant (pc inside the bytecode, counter within the limit, stack of Rust values), then
   induction on the fuel (ei_sim) and on the answer list (drive_sim).  The statement holds for every fuel, so both
   sides run out of fuel together (refines_out_of_fuel); in particular it holds whenever neither does. *)
Theorem eval_refines : forall (F : fops) (sz : N) (dbg : bool) (c : cfg) (fuel : nat) (program : list byte)
    (answers : list answer),
  addr_size sz -> fops_wf F -> cfg_ok sz c -> Forall wf_answer answers ->
  abs_trace sz (run F fuel dbg c program answers) = spec_run sz F fuel c program answers.
Proof. exact eval_refines_lemma. Qed.

Theorem refines_out_of_fuel : forall (F : fops) (sz : N) (dbg : bool) (c : cfg) (fuel : nat) (program : list byte)
    (answers : list answer),
  addr_size sz -> fops_wf F -> cfg_ok sz c -> Forall wf_answer answers ->
  (snd (run F fuel dbg c program answers) = FOutOfFuel <-> snd (spec_run sz F fuel c program answers) = FOutOfFuel).
Proof. exact refines_fuel. Qed.

(* One step, as used by the induction: decoding and executing the operation at the pc in the model, read
   canonically, is decoding it by the operand-layout table and executing it in the stack machine. *)
Theorem step_refines : forall (F : fops) (sz : N) (dbg : bool) (c : cfg) (s : st),
  addr_size sz -> fops_wf F -> cfg_ok sz c -> wf_st s ->
  mapr sz (evaluate_one_operation F dbg c (amask sz) s) = spec_one sz F (abs_cfg sz c) (abs_st sz s).
Proof. intros F sz dbg c s SZ HF. exact (step_sim sz F SZ HF dbg c s). Qed.

(* Whole-evaluation mask invariance ("generic values are compared modulo the address size"): two conversations
   on the same program whose initial value, object address and answers are equal modulo 2^(8 sz) on generic
   payloads (abs_cfg / abs_answer equal; typed values equal) -- possibly in different build modes -- produce the
   same requests, the same error, and the same pieces / value result up to the same reading. *)
Theorem mask_invariance : forall (F : fops) (sz : N) (dbg dbg' : bool) (c c' : cfg) (fuel : nat) (program : list byte)
    (answers answers' : list answer),
  addr_size sz -> fops_wf F -> cfg_ok sz c -> cfg_ok sz c' -> Forall wf_answer answers -> Forall wf_answer answers' ->
  abs_cfg sz c = abs_cfg sz c' -> map (abs_answer sz) answers = map (abs_answer sz) answers' ->
  abs_trace sz (run F fuel dbg c program answers) = abs_trace sz (run F fuel dbg' c' program answers').
Proof. exact mask_invariance_lemma. Qed.

(* the hypotheses are met by a non-trivial instance: 4-byte target, initial value 2^32+2, object address 2^32+5,
   an answer with all 64 bits set; and the two readings of a dirty run *)
Example refines_ex_hyp : addr_size 4 /\ fops_wf wrap_fops /\ cfg_ok 4 refine_ex_cfg /\
  Forall wf_answer [mkAns (mkV TGeneric 18446744073709551615) 4294967297 [] TU8].
Proof. exact refine_ex_hyp. Qed.
Example refines_ex_run :   (* init 2^32+2; push_object_address (2^32+5); minus; neg; stack_value: model keeps 3 in a 64-bit container *)
  run wrap_fops 9 true refine_ex_cfg [x97; x1c; x1f; x9f] [] =
    ([], FComplete [mkPiece None None (LValue (mkV TGeneric 3))] None 4 4) /\
  spec_run 4 wrap_fops 9 refine_ex_cfg [x97; x1c; x1f; x9f] [] =
    ([], FComplete [mkPiece None None (LValue (mkV TGeneric 3))] None 4 4) /\
  run wrap_fops 9 true refine_ex_cfg [x1f; x9f] [] =
    ([], FComplete [mkPiece None None (LValue (mkV TGeneric 18446744073709551614))] None 2 2) /\
  spec_run 4 wrap_fops 9 refine_ex_cfg [x1f; x9f] [] =
    ([], FComplete [mkPiece None None (LValue (mkV TGeneric 4294967294))] None 2 2).
Proof. repeat split; vm_compute; reflexivity. Qed.
Example mask_invariance_ex :   (* initial values 2 and 2^32+2 are the same generic value on a 4-byte target *)
  abs_cfg 4 refine_ex_cfg = abs_cfg 4 (mkCfg (mkEnc 4 false 4 false) (Some 5) (Some 40) (Some 2) None None None None).
Proof. vm_compute. reflexivity. Qed.
Check decode_table : forall (dbg : bool) (e : enc) (opc : byte) (bs : list byte),
  parse_op dbg e (opc :: bs) = generic_decode dbg e opc bs.
Check decode_no_panic : forall (dbg : bool) (e : enc) (bs : list byte),
  parse_op dbg e bs <> Panic /\ parse_op dbg e bs <> OutOfFuel.
Check iteration_bound : forall (F : fops) (dbg : bool) (c : cfg) (n : N) (fuel : nat)
    (program : list byte) (answers : list answer),
  c_max c = Some n -> n <= 4294967295 -> e_asz (c_enc c) <= 8 -> (N.to_nat n < fuel)%nat ->
  bounded_final n (snd (run F fuel dbg c program answers)).
Check eval_refines : forall (F : fops) (sz : N) (dbg : bool) (c : cfg) (fuel : nat) (program : list byte)
    (answers : list answer),
  addr_size sz -> fops_wf F -> cfg_ok sz c -> Forall wf_answer answers ->
  abs_trace sz (run F fuel dbg c program answers) = spec_run sz F fuel c program answers.
Check mask_invariance : forall (F : fops) (sz : N) (dbg dbg' : bool) (c c' : cfg) (fuel : nat) (program : list byte)
    (answers answers' : list answer),
  addr_size sz -> fops_wf F -> cfg_ok sz c -> cfg_ok sz c' -> Forall wf_answer answers -> Forall wf_answer answers' ->
  abs_cfg sz c = abs_cfg sz c' -> map (abs_answer sz) answers = map (abs_answer sz) answers' ->
  abs_trace sz (run F fuel dbg c program answers) = abs_trace sz (run F fuel dbg' c' program answers').
