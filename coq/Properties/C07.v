(* placeholder until Proofs/Op*Proofs.v land: keeps the pipeline end-to-end *)
From Coq Require Import List NArith.
Require Import GV.Model.OpDec GV.Model.OpVal GV.Model.OpEval.
Theorem c07_placeholder : True. Proof. exact I. Qed.
