(* Properties/C04.v — line-number rows equal the DWARF state machine; sequences are consistent.
   Only statements; proofs are in Proofs/LineRd*.v. Model: Model/LineRd.v (mirror of src/read/line.rs),
   spec: Spec/LineSpec.v (DWARF 5 §6.2 over Z). *)
From Coq Require Import List NArith ZArith Bool.
From Coq.Strings Require Import Byte.
Require Import GV.Base.Res GV.Base.Byt GV.Base.Ints GV.Model.Leb GV.Model.Prim GV.Spec.LineSpec GV.Model.LineRd.
Require Import GV.Proofs.LineRdBase GV.Proofs.LineRdMono.
Import ListNotations.
Local Open Scope N_scope.

(* ------------------------------------------------------------------------------------------------
   Clause 3 of the property: "for any input whatsoever, row addresses never decrease within a
   sequence and never exceed the address size".

   hdr_ok h   := line_range >= 1, maximum_operations_per_instruction >= 1, opcode_base <= 255 and
                 1 <= address_size <= 8: what LineProgramHeader::parse establishes (parse_header_hdr_ok)
                 when the caller's address size is a real one. The program bytes (h_program h) are
                 arbitrary.
   rows_ghost := the rows of `rows()` paired with a ghost flag "a tombstoned end_sequence row was dropped
                 since the previous returned row".
   ------------------------------------------------------------------------------------------------ *)

(* FULL STATEMENT (fails on the faithful model, see monotone_any_input_refuted and known_findings.txt):
     forall dbg be h, hdr_ok h -> rows_monotone (fst (rows_model dbg be h))
   where a sequence is what a consumer sees: the rows up to and including an end_sequence row. *)
Theorem monotone_any_input_refuted :
  exists dbg be h, hdr_ok h /\ ~ rows_monotone (fst (rows_model dbg be h)).
Proof. exact monotone_rows_refuted_lemma. Qed.

(* the witness: set_address 0x1000; copy; set_address 0; end_sequence; set_address 0x500; copy; end_sequence *)
Example monotone_witness_rows : forall dbg,
  map (fun r => (r_addr r, r_end r)) (fst (rows_model dbg false witness_header)) =
  [(4096, false); (1280, false); (1280, true)].
Proof. exact witness_rows. Qed.

(* Weakened to inputs outside the known class (no end_sequence row swallowed after a row of its
   sequence): for ALL program bytes and all headers, both build modes. *)
Theorem monotone_any_input : forall dbg be h, hdr_ok h ->
  let l := fst (fst (rows_ghost dbg be h)) in
  fst (rows_model dbg be h) = map fst l /\
  (~ swallowed_end l ->
   rows_monotone (fst (rows_model dbg be h)) /\
   Forall (fun r => r_addr r <= amask h) (fst (rows_model dbg be h))).
Proof. exact monotone_unless_swallowed. Qed.

(* Without any exclusion: between two consecutive returned rows the address does not decrease unless
   the first is an end_sequence row or an end_sequence instruction was executed (and dropped) between
   them — i.e. monotone within every sequence delimited by executed DW_LNE_end_sequence instructions —
   and every returned row is inside the address size and is not a tombstone row. *)
Theorem monotone_between_end_sequences : forall dbg be h, hdr_ok h ->
  let l := fst (fst (rows_ghost dbg be h)) in
  (forall p q, adjacent l p q -> r_end (fst p) = false -> snd q = false -> r_addr (fst p) <= r_addr (fst q)) /\
  Forall (fun r => r_addr r <= amask h /\ r_tomb r = false) (fst (rows_model dbg be h)).
Proof. exact monotone_between_ends. Qed.

(* the same for a whole unit given as bytes: header decode + rows, no well-formedness hypothesis *)
Theorem monotone_any_unit : forall dbg be asz0 bs h, 1 <= asz0 <= 8 ->
  parse_header dbg be asz0 bs = Ok h ->
  let l := fst (fst (rows_ghost dbg be h)) in
  (~ swallowed_end l -> rows_monotone (fst (rows_model dbg be h))) /\
  Forall (fun r => r_addr r <= amask h) (fst (rows_model dbg be h)) /\
  snd (rows_model dbg be h) <> SPanic /\ snd (rows_model dbg be h) <> SFuel.
Proof. exact monotone_any_unit_lemma. Qed.

Theorem parse_header_hdr_ok : forall dbg be asz0 bs h,
  parse_header dbg be asz0 bs = Ok h -> 1 <= asz0 <= 8 -> hdr_ok h.
Proof. exact parse_header_ok. Qed.

(* the hypotheses are satisfiable by non-trivial instances *)
Example hdr_ok_example : hdr_ok sample_header /\ hdr_ok witness_header.
Proof. exact hdr_ok_examples. Qed.
Example not_swallowed_example : forall dbg,
  ~ swallowed_end (fst (fst (rows_ghost dbg false sample_header))) /\
  map (fun p => (r_addr (fst p), r_line (fst p), r_end (fst p), snd p)) (fst (fst (rows_ghost dbg false sample_header))) =
  [(4100, 2, false, false); (4104, 2, false, false); (4104, 2, true, false);
   (2048, 1, false, false); (2048, 1, true, false)].
Proof. exact not_swallowed_sample. Qed.

(* ------------------------------------------------------------------------------------------------
   No panic, and the fuel of the model loops suffices (feeds C01), both build modes.
   ------------------------------------------------------------------------------------------------ *)

(* LineInstruction::parse: every byte string, EVERY header record (no hypothesis at all) *)
Theorem no_panic_parse_insn : forall dbg be h inp,
  parse_insn dbg be h inp <> Panic /\ parse_insn dbg be h inp <> OutOfFuel.
Proof. exact parse_insn_np. Qed.

(* ... and it consumes at least one byte and returns a remainder of its input *)
Theorem parse_insn_consumes : forall dbg be h inp i rest,
  parse_insn dbg be h inp = Ok (i, rest) ->
  (exists p, inp = p ++ rest) /\ (length rest < length inp)%nat /\ insn_ok h i.
Proof. exact parse_insn_consumes_lemma. Qed.

(* LineRow::execute on any decoded instruction, from any row inside the address size *)
Theorem no_panic_execute : forall dbg h r i, hdr_ok h -> insn_ok h i -> r_addr r <= amask h ->
  execute dbg h r i <> Panic /\ execute dbg h r i <> OutOfFuel.
Proof. exact no_panic_execute_lemma. Qed.

(* rows(), a caller that keeps calling next_row after errors, and sequences() *)
Theorem no_panic_rows : forall dbg be h, hdr_ok h ->
  (snd (rows_model dbg be h) <> SPanic /\ snd (rows_model dbg be h) <> SFuel) /\
  (snd (rows_cont dbg be h) <> SPanic /\ snd (rows_cont dbg be h) <> SFuel) /\
  (sequences dbg be h <> Panic /\ sequences dbg be h <> OutOfFuel).
Proof. exact no_panic_all. Qed.

Check monotone_any_input_refuted : exists dbg be h, hdr_ok h /\ ~ rows_monotone (fst (rows_model dbg be h)).
Check no_panic_parse_insn : forall dbg be h inp,
  parse_insn dbg be h inp <> Panic /\ parse_insn dbg be h inp <> OutOfFuel.
