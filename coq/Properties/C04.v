(* placeholder until Proofs/LineRdProofs.v lands: keeps the pipeline end-to-end *)
From Coq Require Import List NArith.
Require Import GV.Spec.LineSpec GV.Model.LineRd.
Theorem c04_placeholder : True. Proof. exact I. Qed.
