(* Properties/C04.v — line-number rows equal the DWARF state machine; sequences are consistent.
   Only statements; proofs are in Proofs/LineRd*.v. Model: Model/LineRd.v (mirror of src/read/line.rs),
   spec: Spec/LineSpec.v (DWARF 5 §6.2 over Z). *)
From Coq Require Import List NArith ZArith Bool.
From Coq.Strings Require Import Byte.
Require Import GV.Base.Res GV.Base.Byt GV.Base.Ints GV.Model.Leb GV.Model.Prim GV.Spec.LineSpec GV.Model.LineRd.
Require Import GV.Proofs.LineRdBase GV.Proofs.LineRdMono GV.Proofs.LineRdCodec GV.Proofs.LineRdRefine GV.Proofs.LineRdInsn GV.Proofs.LineRdSeq
               GV.Proofs.LineRdHdr GV.Proofs.LineRdHdrSafe GV.Proofs.LineRdU16 GV.Proofs.LineRdHdr5.
Import ListNotations.
Local Open Scope N_scope.

(* ------------------------------------------------------------------------------------------------
   Clause 3 of the property: "for any input whatsoever, row addresses never decrease within a
   sequence and never exceed the address size".

   hdr_ok h      := line_range >= 1, maximum_operations_per_instruction >= 1, opcode_base <= 255 and
                    1 <= address_size <= 8: what LineProgramHeader::parse establishes (parse_header_hdr_ok)
                    when the caller's address size is a real one. The program bytes (h_program h) are
                    arbitrary.
   rows_monotone := for consecutive returned rows r1, r2 with r1 not an end_sequence row,
                    address r1 <= address r2   (a sequence is what a consumer sees: the rows up to and
                    including an end_sequence row).
   The model mirrors the code after fix 9872ff0 (LineRows::in_sequence): a tombstoned end_sequence row is
   returned when rows of its sequence were already returned. Before that fix the statement was refuted by
   the program of `repaired_witness_rows` (known_findings.txt, `fixed:` line).
   ------------------------------------------------------------------------------------------------ *)

(* FULL statement: every header, every program byte string, both build modes, no exclusion *)
Theorem monotone_any_input : forall dbg be h, hdr_ok h ->
  rows_monotone (fst (rows_model dbg be h)) /\
  Forall (fun r => r_addr r <= amask h) (fst (rows_model dbg be h)).
Proof. exact monotone_any_input_lemma. Qed.

(* the same for a whole unit given as bytes: header decode + rows, no well-formedness hypothesis *)
Theorem monotone_any_unit : forall dbg be asz0 bs h, 1 <= asz0 <= 8 ->
  parse_header dbg be asz0 bs = Ok h ->
  rows_monotone (fst (rows_model dbg be h)) /\
  Forall (fun r => r_addr r <= amask h) (fst (rows_model dbg be h)) /\
  snd (rows_model dbg be h) <> SPanic /\ snd (rows_model dbg be h) <> SFuel.
Proof. exact monotone_any_unit_lemma. Qed.

Theorem parse_header_hdr_ok : forall dbg be asz0 bs h,
  parse_header dbg be asz0 bs = Ok h -> 1 <= asz0 <= 8 -> hdr_ok h.
Proof. exact parse_header_ok. Qed.

(* the hypotheses are satisfiable by non-trivial instances *)
Example hdr_ok_example : hdr_ok sample_header /\ hdr_ok witness_header.
Proof. exact hdr_ok_examples. Qed.
Example sample_rows_example : forall dbg,
  map (fun r => (r_addr r, r_line r, r_end r)) (fst (rows_model dbg false sample_header)) =
  [(4100, 2, false); (4104, 2, false); (4104, 2, true); (2048, 1, false); (2048, 1, true)].
Proof. exact sample_rows. Qed.
(* set_address 0x1000; copy; set_address 0; end_sequence; set_address 0x500; copy; end_sequence —
   formerly rows 0x1000, 0x500, 0x500(end) in ONE sequence; now two sequences *)
Example repaired_witness_rows : forall dbg,
  map (fun r => (r_addr r, r_end r)) (fst (rows_model dbg false witness_header)) =
  [(4096, false); (4096, true); (1280, false); (1280, true)].
Proof. exact witness_rows. Qed.

(* ------------------------------------------------------------------------------------------------
   No panic, and the fuel of the model loops suffices (feeds C01), both build modes.
   ------------------------------------------------------------------------------------------------ *)

(* LineInstruction::parse: every byte string, EVERY header record (no hypothesis at all) *)
Theorem no_panic_parse_insn : forall dbg be h inp,
  parse_insn dbg be h inp <> Panic /\ parse_insn dbg be h inp <> OutOfFuel.
Proof. exact parse_insn_np. Qed.

(* ... and it consumes at least one byte and returns a remainder of its input *)
Theorem parse_insn_consumes : forall dbg be h inp i rest,
  parse_insn dbg be h inp = Ok (i, rest) ->
  (exists p, inp = p ++ rest) /\ (length rest < length inp)%nat /\ insn_ok h i.
Proof. exact parse_insn_consumes_lemma. Qed.

(* LineRow::execute on any decoded instruction, from any row inside the address size *)
Theorem no_panic_execute : forall dbg h r i, hdr_ok h -> insn_ok h i -> r_addr r <= amask h ->
  execute dbg h r i <> Panic /\ execute dbg h r i <> OutOfFuel.
Proof. exact no_panic_execute_lemma. Qed.

(* rows(), a caller that keeps calling next_row after errors, and sequences() *)
Theorem no_panic_rows : forall dbg be h, hdr_ok h ->
  (snd (rows_model dbg be h) <> SPanic /\ snd (rows_model dbg be h) <> SFuel) /\
  (snd (rows_cont dbg be h) <> SPanic /\ snd (rows_cont dbg be h) <> SFuel) /\
  (sequences dbg be h <> Panic /\ sequences dbg be h <> OutOfFuel).
Proof. exact no_panic_all. Qed.

(* ------------------------------------------------------------------------------------------------
   Clause 1: for every well-formed program the emitted rows are exactly those of the DWARF state
   machine (Spec/LineSpec.v, over unbounded Z).
   pwf h        := the header parameters are in their byte ranges, non-zero where the standard demands
                   it, 1 <= address_size <= 8, |standard_opcode_lengths| = opcode_base - 1
   insn_wf h i  := operands fit their encodings; standard opcode k only if k < opcode_base; unknown
                   standard opcodes carry exactly standard_opcode_lengths[op-1] canonical LEB operands;
                   define_file only for version <= 4
   prog_wf h is := pwf, every insn_wf, and along the SPEC run: 0 <= address <= mask(address_size),
                   0 <= line < 2^64, op_index + advance < 2^64, every set_address >= current address
                   and < min_tombstone.
   ------------------------------------------------------------------------------------------------ *)

(* LineInstruction::parse inverts the reference encoder: all opcodes, opcode_base <> 13, unknown
   standard (0, 1, n operands) and unknown extended opcodes, both byte orders, any trailing bytes *)
Theorem insn_roundtrip : forall dbg be h i rest,
  pwf h -> insn_wf h i = true -> parse_insn dbg be h (enc_insn be h i ++ rest) = Ok (i, rest).
Proof. exact insn_roundtrip_lemma. Qed.

(* the u8 arithmetic of exec_special_opcode is the standard's: adj = op - opcode_base,
   line += line_base + adj mod line_range, operation advance = adj / line_range *)
Theorem special_opcode_arith : forall h op,
  1 <= h_line_range h -> h_opcode_base h <= op ->
  let adj := op - h_opcode_base h in
  (h_line_base h + Z.of_N (adj mod h_line_range h))%Z = sp_line_inc h (Z.of_N op) /\
  Z.of_N (adj / h_line_range h) = sp_op_adv h (Z.of_N op).
Proof. exact special_arith. Qed.

(* apply_operation_advance is §6.2.5.1 incl. the VLIW formulas
     address += min_inst_len * ((op_index + adv) / max_ops);  op_index = (op_index + adv) mod max_ops
   whenever nothing wraps and the new address fits the address size *)
Theorem operation_advance_vliw : forall dbg h r adv,
  pwf h -> inv h r ->
  (Z.of_N (r_opi r) + Z.of_N adv < two64z)%Z ->
  (s_address (s_advance h (Z.of_N adv) (rep r)) <= addr_mask h)%Z ->
  exists r', apply_operation_advance dbg h r adv = Ok (r', None) /\
             rep r' = s_advance h (Z.of_N adv) (rep r) /\ inv h r' /\ r_end r' = r_end r.
Proof. exact aoa_sim. Qed.

(* one instruction of the model = one instruction of the spec *)
Theorem execute_refines_spec : forall dbg h r i,
  pwf h -> inv h r -> r_end r = false -> step_wf h (rep r) i = true -> exec_sim_stmt dbg h r i.
Proof. exact exec_sim. Qed.

(* rows() over the encoded program = rows_spec, run to completion without error, no tombstone rows *)
Theorem rows_refine_spec : forall dbg be h is,
  prog_wf h is = true -> h_program h = enc_prog be h is ->
  exists rs, rows_model dbg be h = (rs, SEnd) /\ map rep rs = rows_spec h is /\
             Forall (fun r => r_tomb r = false) rs.
Proof. exact rows_refine_spec_lemma. Qed.

(* rep is injective on non-tombstone rows, so `map rep rs = rows_spec ..` determines rs *)
Theorem rep_injective : forall r1 r2, r_tomb r1 = r_tomb r2 -> rep r1 = rep r2 -> r1 = r2.
Proof. exact rep_inj. Qed.

Example wf_program_example : forall be,
  prog_wf (vliw_header be) vliw_program = true /\
  h_program (vliw_header be) = enc_prog be (vliw_header be) vliw_program.
Proof. exact vliw_wf. Qed.
Example wf_program_rows : forall be,
  map (fun s => (s_address s, s_op_index s, s_line s, s_end_sequence s)) (rows_spec (vliw_header be) vliw_program) =
  [(4116, 0, 8, false); (4155, 0, 6, false); (4155, 0, 3, false); (4155, 0, 3, true);
   (8192, 0, 1, false); (8192, 0, 1, true)]%Z.
Proof. exact vliw_rows. Qed.
Example insn_wf_example :
  let h := mk_header false 5 8 0 0 1 1 true (-5) 14 17
             [x00; x01; x01; x01; x01; x00; x00; x00; x01; x00; x00; x01; x00; x01; x03; x02] [] [] [] [] [] in
  pwf h /\
  forallb (insn_wf h)
    [ISpecial 17; ISpecial 255; IUnkStd0 13; IUnkStd1 14 18446744073709551615;
     IUnkStdN 15 [x81; x01; x00; xff; x7f]; IUnkExt 3 [x61; x00]; IUnkExt 255 [];
     IAdvanceLine (-9223372036854775808)%Z; ISetAddress 18446744073709551615; IFixedAddPc 65535] = true.
Proof. exact insn_wf_examples. Qed.

(* ------------------------------------------------------------------------------------------------
   Clause 2: "splitting a program into sequences and resuming any sequence yields exactly the rows a
   straight run yields for it, and each sequence's reported address bounds are its first and end
   addresses". No well-formedness hypothesis: any header record, any program bytes, both build modes —
   whenever sequences() returns Ok.
   seq_good s := resume_from(s) runs to the end and its rows are  body ++ [e]  with no end_sequence row in
                 body, e an end_sequence row, s.end = address of e, s.start = address of the first row of
                 body (0 when the sequence consists of the end_sequence row alone).
   ------------------------------------------------------------------------------------------------ *)
Theorem sequences_eq_rows : forall dbg be h files ss,
  sequences dbg be h = Ok (files, ss) ->
  exists tail,
    fst (rows_model dbg be h) = concat (map (fun s => fst (resume_rows dbg be h s)) ss) ++ tail /\
    snd (rows_model dbg be h) = SEnd /\
    Forall (fun r => r_end r = false) tail /\
    Forall (seq_good dbg be h) ss /\
    files = st_added (snd (rows_full dbg be h)).
Proof. exact sequences_eq_rows_lemma. Qed.

(* with a decoded header the reported bounds are ordered and inside the address size, and every resumed
   sequence is monotone (this failed before fix 9872ff0: start 0x1000 > end 0x500 on the witness) *)
Theorem sequence_bounds_ordered : forall dbg be h files ss, hdr_ok h ->
  sequences dbg be h = Ok (files, ss) ->
  Forall (fun s => sq_start s <= sq_end s /\ sq_end s <= amask h /\
                   rows_monotone (fst (resume_rows dbg be h s))) ss.
Proof. exact sequence_bounds_ordered_lemma. Qed.

(* the fact it rests on: the instruction decoder only looks at the bytes it consumes *)
Theorem parse_insn_is_local : forall dbg be h a suf i r,
  parse_insn dbg be h (a ++ suf) = Ok (i, r) -> (length suf <= length r)%nat ->
  exists x, r = x ++ suf /\ parse_insn dbg be h a = Ok (i, x).
Proof. exact parse_insn_local. Qed.

Example sequences_example : forall dbg,
  match sequences dbg false sample_header with
  | Ok (files, ss) => map (fun s => (sq_start s, sq_end s, length (sq_insns s))) ss =
                      [(4100, 4104, 14%nat); (2048, 2048, 11%nat)] /\ files = []
  | _ => False
  end.
Proof. exact sample_sequences. Qed.

(* ------------------------------------------------------------------------------------------------
   The header: "the directory and file tables are exactly those of the DWARF state machine", versions
   2-5, both formats, both byte orders, any bytes after the unit.
   enc_unit r prog    := the unit a producer writes for the raw header r (parameters, formats, raw entries)
   header_of_raw r .. := the header a consumer must see (tables via dir_of_entry / file_of_entry)
   raw_wf4 / raw_wf5  := parameters in range and non-zero, |standard_opcode_lengths| = opcode_base - 1;
                         v2-4: non-empty NUL-free names, u64 fields; v5: format codes below 2^14 / 2^16, at
                         most 255 components with exactly one DW_LNCT_path, every component value in the
                         class of its form (all 24 supported forms), address size 1/2/4/8; total length fits
                         the initial-length field.
   ------------------------------------------------------------------------------------------------ *)
Theorem header_roundtrip_v2_v4 : forall dbg be asz0 r prog tail,
  raw_wf4 be r prog ->
  parse_header dbg be asz0 (enc_unit be r prog ++ tail) = Ok (header_of_raw be asz0 r prog).
Proof. exact header_roundtrip_v4_lemma. Qed.

Theorem header_roundtrip_v5 : forall dbg be asz0 r prog tail,
  raw_wf5 be r prog ->
  parse_header dbg be asz0 (enc_unit be r prog ++ tail) = Ok (header_of_raw be asz0 r prog).
Proof. exact header_roundtrip_v5_lemma. Qed.

(* every component form: parse_attribute inverts enc_val *)
Theorem entry_component_roundtrip : forall dbg be fmt64 form v tail,
  val_ok fmt64 form v ->
  parse_attribute dbg be fmt64 form (enc_val be fmt64 form v ++ tail) = Ok (v, tail).
Proof. exact parse_attribute_enc. Qed.

(* LineProgramHeader::parse on ANY byte string and any caller-supplied address size: no panic (the two
   `path_name.unwrap()`s are unreachable, the u16 LEB accumulation cannot overflow), fuel suffices *)
Theorem no_panic_parse_header : forall dbg be asz0 bs,
  parse_header dbg be asz0 bs <> Panic /\ parse_header dbg be asz0 bs <> OutOfFuel.
Proof. exact parse_header_np. Qed.

Example raw_wf4_example : forall be, raw_wf4 be sample_raw [x01; x02; x03].
Proof. exact sample_raw_wf. Qed.
Example raw_wf4_example_header : forall be,
  let h := header_of_raw be 4 sample_raw [x01; x02; x03] in
  (h_version h, h_addr_size h, h_max_ops h, h_line_base h, length (h_dirs h), length (h_files h),
   h_unit_length h, h_header_length h, h_program h) =
  (3, 4, 1, (-3)%Z, 2%nat, 2%nat, 56, 43, [x01; x02; x03]).
Proof. exact sample_raw_header. Qed.
Example raw_wf5_example : forall be, raw_wf5 be sample_raw5 [x01].
Proof. exact sample_raw5_wf. Qed.
Example raw_wf5_example_tables : forall be,
  h_files (header_of_raw be 4 sample_raw5 [x01]) =
  [mk_file (VString [x61; x2e; x63]) 1 0 65535
           [x00; x01; x02; x03; x04; x05; x06; x07; x08; x09; x0a; x0b; x0c; x0d; x0e; x0f]
           (Some (VString [x69; x6e; x74]))] /\
  h_dirs (header_of_raw be 4 sample_raw5 [x01]) = [VLineStrRef 0; VLineStrRef 4294967295] /\
  h_addr_size (header_of_raw be 4 sample_raw5 [x01]) = 8.
Proof. exact sample_raw5_files. Qed.

Check monotone_any_input : forall dbg be h, hdr_ok h ->
  rows_monotone (fst (rows_model dbg be h)) /\
  Forall (fun r => r_addr r <= amask h) (fst (rows_model dbg be h)).
Check no_panic_parse_insn : forall dbg be h inp,
  parse_insn dbg be h inp <> Panic /\ parse_insn dbg be h inp <> OutOfFuel.
Check insn_roundtrip : forall dbg be h i rest,
  pwf h -> insn_wf h i = true -> parse_insn dbg be h (enc_insn be h i ++ rest) = Ok (i, rest).
Check rows_refine_spec : forall dbg be h is,
  prog_wf h is = true -> h_program h = enc_prog be h is ->
  exists rs, rows_model dbg be h = (rs, SEnd) /\ map rep rs = rows_spec h is /\
             Forall (fun r => r_tomb r = false) rs.
Check header_roundtrip_v5 : forall dbg be asz0 r prog tail,
  raw_wf5 be r prog ->
  parse_header dbg be asz0 (enc_unit be r prog ++ tail) = Ok (header_of_raw be asz0 r prog).
Check sequences_eq_rows : forall dbg be h files ss,
  sequences dbg be h = Ok (files, ss) ->
  exists tail,
    fst (rows_model dbg be h) = concat (map (fun s => fst (resume_rows dbg be h s)) ss) ++ tail /\
    snd (rows_model dbg be h) = SEnd /\
    Forall (fun r => r_end r = false) tail /\
    Forall (seq_good dbg be h) ss /\
    files = st_added (snd (rows_full dbg be h)).
