(* Properties/C01_conv.v — further C01 instances (never panics / terminates / stops) that became theorems when
   the read-to-write line converter (Model/ConvertLine.v), the per-unit glue of read/dwarf.rs (Model/UnitGlue.v),
   the conversion filter's bounds rule (Model/FilterAttrs.v) and the whole-evaluator refinement (Proofs/OpEvalRefine.v)
   entered the model. Same shape as Properties/C01.v: each theorem is the statement of the owning property's
   theorem, closed by it. Companion file: built, audited and listed with Properties/C01.v by ./check. *)
Require GV.Properties.C07 GV.Properties.C12 GV.Properties.C17 GV.Properties.C19.

(* ConvertLineProgram::read_row: no panic, no fuel exhaustion, invariant kept, progress on every event *)
Theorem c01_c12_line_convert_no_panic : ltac:(let t := type of C12.line_convert_no_panic in exact t).
Proof. exact C12.line_convert_no_panic. Qed.

(* driving read_row to the end terminates for any program bytes *)
Theorem c01_c12_line_convert_events_terminate : ltac:(let t := type of C12.line_convert_events_terminate in exact t).
Proof. exact C12.line_convert_events_terminate. Qed.

(* ConvertLineProgram::new establishes the invariant the two theorems above start from *)
Theorem c01_c12_line_convert_new_ok : ltac:(let t := type of C12.line_convert_new_ok in exact t).
Proof. exact C12.line_convert_new_ok. Qed.

(* DW_LNE_define_file entries convert to a file id or a specific error *)
Theorem c01_c12_line_convert_define_file_safe : ltac:(let t := type of C12.line_convert_define_file_safe in exact t).
Proof. exact C12.line_convert_define_file_safe. Qed.

(* expression conversion: input length + 1 steps suffice *)
Theorem c01_c12_expr_fuel_suffices : ltac:(let t := type of C12.expr_fuel_suffices in exact t).
Proof. exact C12.expr_fuel_suffices. Qed.

(* Unit::new, attr_string, attr_address, unit_ranges over any sections and any root attribute list *)
Theorem c01_c17_unit_glue_no_panic : ltac:(let t := type of C17.unit_glue_no_panic in exact t).
Proof. exact C17.unit_glue_no_panic. Qed.

(* the conversion filter's is_in_bounds guard followed by the unchecked usize addition never panics or wraps *)
Theorem c01_c19_bounds_rule_exact : ltac:(let t := type of C19.bounds_rule_exact in exact t).
Proof. exact C19.bounds_rule_exact. Qed.

(* model evaluator and specification machine run out of fuel together (so "does not hang under an iteration
   limit", C07.iteration_bound, transfers between them) *)
Theorem c01_c07_refines_out_of_fuel : ltac:(let t := type of C07.refines_out_of_fuel in exact t).
Proof. exact C07.refines_out_of_fuel. Qed.

Check c01_c12_line_convert_no_panic. Check c01_c12_line_convert_events_terminate. Check c01_c12_line_convert_new_ok.
Check c01_c12_line_convert_define_file_safe. Check c01_c12_expr_fuel_suffices. Check c01_c17_unit_glue_no_panic.
Check c01_c19_bounds_rule_exact. Check c01_c07_refines_out_of_fuel.
