(* Properties/C17.v — placeholder, replaced once the proofs are in. *)
Require Import GV.Model.IndexRd GV.Model.NamesRd GV.Model.ArangesRd GV.Spec.LookupSpec.
