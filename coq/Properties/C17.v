(* Properties/C17.v — Accelerated lookups and section plumbing agree with exhaustive scans.
   Only statements (`exact lemma`), non-vacuity examples and pins live here.

   Theorem clauses (all about the Gallina models of Model/{IndexRd,NamesRd,ArangesRd}.v, tied to gimli by the
   c17.* correspondence streams): unit-index hash probe (termination, panic freedom, = table contents),
   contribution rows, DW_SECT tables, parse of an encoded index, .debug_names bucket/hash iteration = exhaustive
   scan, DJB hash, .debug_aranges padding and tuple iteration, .debug_pubnames/.debug_pubtypes set
   concatenation, and panic freedom of every modelled reader for ALL byte strings in both build modes.
   NOT theorems (impl-side enumeration / corpus only): loader wiring, package unit = standalone unit,
   the non-ASCII case-folding table, get_str_offset/get_address (modelled by C08). *)
From Coq Require Import List NArith ZArith Bool Sorted.
From Coq.Strings Require Import Byte.
Require Import GV.Base.Res GV.Base.Byt GV.Base.Ints GV.Model.Leb GV.Model.Prim.
Require Import GV.Spec.LookupSpec GV.Model.IndexRd GV.Model.NamesRd GV.Model.ArangesRd.
Require Import GV.Proofs.IndexRdProofs GV.Proofs.NamesRdProofs GV.Proofs.ArangesRdProofs.
Import ListNotations.
Local Open Scope N_scope.

(* `post P r`: r is neither Panic nor OutOfFuel, and satisfies P when it is Ok (errors are allowed). *)
Check @post : forall A : Type, (A -> Prop) -> res A -> Prop.

(* ================================================================== unit index (.debug_cu_index / .debug_tu_index) *)

(* (1) For ANY index record — any bytes in the hash tables, any slot count that fits the u32 field (zero and
   non powers of two included) — and any id, `find` returns normally in both build modes after at most
   slot_count probes. (The Rust loop is `for _ in 0..slot_count`; what needs proof is that none of
   `slot_count - 1`, `hash1 * 8`, `hash1 + hash2` can overflow and that no reader failure escapes.) *)
Theorem index_find_terminates : forall (dbg be : bool) (ix : unit_index) (id : N),
  ix_slot_count ix < 2 ^ 32 ->
  exists r probes, index_find_probes dbg be ix id = Ok (r, probes) /\ probes <= ix_slot_count ix.
Proof. exact index_find_probes_total. Qed.

(* ... and the same starting from ANY section bytes: parse never panics, and everything it accepts satisfies
   the bound above and the size invariants used by `sections`. *)
Theorem index_parse_no_panic : forall (dbg be : bool) (bs : list byte),
  post ix_wf (index_parse dbg be bs).
Proof. exact index_parse_post. Qed.

Theorem index_find_no_panic : forall (dbg be : bool) (ix : unit_index) (id : N),
  ix_slot_count ix < 2 ^ 32 -> exists r, index_find dbg be ix id = Ok r.
Proof. exact index_find_total. Qed.

(* (2) For a table built by inserting distinct non-zero ids along the probe sequence
   h1 = id & mask, step h2 = ((id >> 32) & mask) | 1 (any number of insertions: every load factor, the
   completely full table included; colliding hashes allowed), and for EVERY id — 0 included — find returns
   row exactly for the entries (used slots) of the table. Id 0 is the unused-slot marker: it is never an
   entry and never found (gimli 8339644; before that repair find(0) returned Some(0), see known_findings). *)
Theorem index_find_correct : forall (dbg be : bool) (k : N) (t : table) (ix : unit_index) (id row : N),
  k < 32 -> built (2 ^ k) t ->
  ix_slot_count ix = 2 ^ k ->
  ix_hash_ids ix = enc_words 8 be (map fst t) -> ix_hash_rows ix = enc_words 4 be (map snd t) ->
  (index_find dbg be ix id = Ok (Some row) <-> In (id, row) (contents t)).
Proof.
  intros dbg be k t ix id row Hk Hb Hs Hi Hr.
  destruct (built_inv _ _ Hb) as (Hl & Hp & Hrg).
  rewrite contents_spec. cbn [fst].
  destruct (N.eq_dec id 0) as [->|Hid].
  - rewrite index_find_zero. split; [discriminate|]. intros [_ H]. congruence.
  - rewrite (find_correct dbg be k t ix Hk Hl Hrg Hs Hi Hr id row Hp Hid). tauto.
Qed.

Theorem index_find_absent : forall (dbg be : bool) (k : N) (t : table) (ix : unit_index) (id : N),
  k < 32 -> built (2 ^ k) t ->
  ix_slot_count ix = 2 ^ k ->
  ix_hash_ids ix = enc_words 8 be (map fst t) -> ix_hash_rows ix = enc_words 4 be (map snd t) ->
  (forall row, ~ In (id, row) (contents t)) ->
  index_find dbg be ix id = Ok None.
Proof.
  intros dbg be k t ix id Hk Hb Hs Hi Hr Habs.
  destruct (N.eq_dec id 0) as [->|Hid]; [apply index_find_zero|].
  destruct (built_inv _ _ Hb) as (Hl & Hp & Hrg).
  apply (find_absent dbg be k t ix Hk Hl Hrg Hs Hi Hr id Hid).
  intros row Hin. apply (Habs row). apply contents_spec. split; [exact Hin|exact Hid].
Qed.

Theorem index_find_zero_none : forall (dbg be : bool) (ix : unit_index), index_find dbg be ix 0 = Ok None.
Proof. exact index_find_zero. Qed.

(* the executable construction used by the generators produces `built` tables *)
Theorem insert_all_is_built : forall (slots : N) (es : list (N * N)) (t : table),
  Forall (fun e => fst e <> 0 /\ fst e < 2 ^ 64 /\ snd e < 2 ^ 32) es -> NoDup (map fst es) ->
  insert_all slots (empty_table slots) es = Some t -> built slots t.
Proof. exact insert_all_built_empty. Qed.

(* non-vacuity: three ids with the same primary hash (1) and the same step (1) fill a 4-slot table to
   full-minus-one; every present key is found at the row stored with it, a colliding absent key is not *)
Definition ex_entries : list (N * N) := [(5, 1); (9, 2); (13, 3)].
Definition ex_table : table := [(0, 0); (5, 1); (9, 2); (13, 3)].
Example ex_table_built : built (2 ^ 2) ex_table.
Proof.
  apply (insert_all_built_empty 4 ex_entries).
  - repeat constructor; cbn; try discriminate; reflexivity.
  - repeat constructor; cbn; intuition discriminate.
  - reflexivity.
Qed.
Definition ex_index (be : bool) : unit_index :=
  {| ix_version := 5; ix_section_count := 2; ix_unit_count := 3; ix_slot_count := 4;
     ix_hash_ids := enc_words 8 be (map fst ex_table); ix_hash_rows := enc_words 4 be (map snd ex_table);
     ix_sections := [SInfo; SAbbrev; SAbbrev; SAbbrev; SAbbrev; SAbbrev; SAbbrev; SAbbrev];
     ix_offsets := enc_words 4 be [0; 0; 100; 10; 300; 30]; ix_sizes := enc_words 4 be [100; 10; 200; 20; 50; 5] |}.
Example ex_find_13 : index_find_probes true true (ex_index true) 13 = Ok (Some 3, 3).
Proof. vm_compute. reflexivity. Qed.
Example ex_find_17 : index_find_probes true false (ex_index false) 17 = Ok (None, 4).
Proof. vm_compute. reflexivity. Qed.
(* slot counts that are zero or not a power of two (parse rejects the latter; find still terminates) *)
Example ex_find_slot0 : index_find true true {| ix_version := 2; ix_section_count := 0; ix_unit_count := 7;
  ix_slot_count := 0; ix_hash_ids := []; ix_hash_rows := []; ix_sections := []; ix_offsets := []; ix_sizes := [] |} 5
  = Ok None.
Proof. reflexivity. Qed.

(* the repaired behaviour on the example table, whose slot 0 is unused: id 0 is not found (before gimli
   8339644 this call returned Ok (Some 0)) *)
Example ex_find_0 : index_find true true (ex_index true) 0 = Ok None.
Proof. reflexivity. Qed.

(* every load factor is reachable: while a slot of a 2^k-slot table is unused, inserting any id succeeds,
   because the step is odd and so the probe sequence visits every slot *)
Theorem insert_reaches_every_load : forall (k : N) (t : table) (id row : N),
  length t = N.to_nat (2 ^ k) -> (exists s, s < 2 ^ k /\ slot_id t s = Some 0) ->
  exists t', insert (2 ^ k) t id row = Some t' /\ inserted (2 ^ k) t id row t'.
Proof. exact insert_succeeds. Qed.

(* (3) contribution rows: for an index with c <= 8 declared columns and unit_count rows of encoded offsets and
   sizes, `sections row` yields, per declared column kind j, offsets[(row-1)*c + j] and sizes[(row-1)*c + j];
   row 0 and rows beyond unit_count are InvalidIndexRow. *)
Theorem index_sections_rows : forall (dbg be : bool) (ix : unit_index) (offs szs : list N) (row : N),
  ix_section_count ix <= 8 -> length (ix_sections ix) = 8%nat -> ix_unit_count ix < 2 ^ 32 ->
  ix_offsets ix = enc_words 4 be offs -> ix_sizes ix = enc_words 4 be szs ->
  length offs = (N.to_nat (ix_unit_count ix) * N.to_nat (ix_section_count ix))%nat ->
  length szs = (N.to_nat (ix_unit_count ix) * N.to_nat (ix_section_count ix))%nat ->
  Forall (fun v => v < 2 ^ 32) offs -> Forall (fun v => v < 2 ^ 32) szs ->
  index_sections dbg be ix row =
    if (row =? 0) || (ix_unit_count ix <? row) then Err EInvalidIndexRow
    else let c := N.to_nat (ix_section_count ix) in
         let k := (N.to_nat (row - 1) * c)%nat in
         Ok (combine (combine (firstn c (ix_sections ix)) (firstn c (skipn k offs)))
                     (firstn c (skipn k szs))).
Proof. exact sections_spec. Qed.

Example ex_sections_2 : index_sections true true (ex_index true) 2 = Ok [(SInfo, 100, 200); (SAbbrev, 10, 20)].
Proof. vm_compute. reflexivity. Qed.
Example ex_sections_0 : index_sections true true (ex_index true) 0 = Err EInvalidIndexRow.
Proof. reflexivity. Qed.
Example ex_sections_4 : index_sections false false (ex_index false) 4 = Err EInvalidIndexRow.
Proof. reflexivity. Qed.

Theorem index_sections_no_panic : forall (dbg be : bool) (ix : unit_index) (row : N) (seclen : isect -> N),
  ix_wf ix ->
  post (fun _ => True) (index_sections dbg be ix row) /\ post (fun _ => True) (pkg_sections dbg be ix row seclen).
Proof. intros. split; [apply index_sections_post|apply pkg_sections_post]; assumption. Qed.

(* the column-kind tables of both index versions are the DW_SECT tables (DWARF 5 table 7.1 / GNU v2);
   the tie of the numbers to /repo/src/constants.rs is the c17.index stream (every code 0..300) *)
Theorem index_column_kinds : forall n : N,
  sect_v2 n = match assoc n DW_SECT_V2 with Some c => kind_of_code c | None => None end /\
  sect_v5 n = match assoc n DW_SECT_V5 with Some c => kind_of_code c | None => None end.
Proof. intros n. split; [apply sect_v2_table|apply sect_v5_table]. Qed.

(* Section::dwp_range off size = bytes [off, off+size) or an error *)
Theorem dwp_range_spec : forall (o z : N) (bs : list byte),
  post (fun r => r = firstn (N.to_nat z) (skipn (N.to_nat o) bs) /\ o + z <= blen bs) (dwp_range o z bs).
Proof. exact dwp_range_post. Qed.

(* parse of the encoding of a well-formed index description (followed by anything) is that description *)
Theorem index_parse_encoded : forall (dbg be : bool) (d : index_desc) (trailing : list byte),
  desc_wf d -> index_parse dbg be (enc_index be d ++ trailing) = Ok (index_of_desc be d).
Proof. exact IndexRdProofs.index_parse_encoded. Qed.

(* end to end: bytes -> parse -> find = contents of the table that was encoded *)
Theorem index_lookup_encoded : forall (dbg be : bool) (k : N) (d : index_desc) (trailing : list byte) (id row : N),
  desc_wf d -> k < 32 -> N.of_nat (length (d_slots d)) = 2 ^ k -> built (2 ^ k) (d_slots d) ->
  exists ix, index_parse dbg be (enc_index be d ++ trailing) = Ok ix /\
             (index_find dbg be ix id = Ok (Some row) <-> In (id, row) (contents (d_slots d))).
Proof.
  intros dbg be k d trailing id row Hwf Hk Hs Hb. exists (index_of_desc be d).
  split; [apply IndexRdProofs.index_parse_encoded; exact Hwf|].
  apply (index_find_correct dbg be k (d_slots d)); try assumption; reflexivity.
Qed.

Definition ex_desc : index_desc :=
  {| d_v2 := false; d_pad := 0; d_cols := [1; 3]; d_unit_count := 3; d_slots := ex_table;
     d_offsets := [0; 0; 100; 10; 300; 30]; d_sizes := [100; 10; 200; 20; 50; 5] |}.
Example ex_desc_wf : desc_wf ex_desc.
Proof.
  unfold desc_wf, ex_desc. cbn [d_slots d_cols d_unit_count d_pad d_v2 d_offsets d_sizes length].
  split; [discriminate|]. split; [reflexivity|]. split; [reflexivity|]. split; [reflexivity|].
  split; [right; split; [exists 2; reflexivity|reflexivity]|].
  split.
  { intros x Hx. cbn in Hx. intuition (subst; cbn; split; reflexivity). }
  split; [repeat constructor; cbn; discriminate|].
  split; [reflexivity|]. split; [reflexivity|].
  split; repeat constructor.
Qed.

(* ================================================================== .debug_names *)

(* (4) For a name index whose bucket and hash arrays follow DWARF 5 §6.1.1.4.5 (bucket b holds the 1-based
   index of the first name of the bucket, names of one bucket are adjacent), iterating a bucket yields exactly
   the (index, hash) pairs with hash mod bucket_count = b, and find_by_hash h yields exactly the indexes i with
   hash[i] = h, in increasing order; both end with Ok(None). *)
Theorem names_by_bucket : forall (dbg be : bool) (ix : name_index) (hs : list N) (b : N),
  names_wf be ix hs -> b < ni_bucket_count ix ->
  ni_find_by_bucket dbg be ix b =
    Ok (match bucket_members (ni_bucket_count ix) b 0 hs with [] => None | l => Some (l, SDone) end).
Proof. exact find_by_bucket_wf. Qed.

Theorem names_by_hash : forall (dbg be : bool) (ix : name_index) (hs : list N) (h : N),
  names_wf be ix hs -> ni_find_by_hash dbg be ix h = Ok (positions h 0 hs, SDone).
Proof. exact find_by_hash_wf. Qed.

(* `positions` is the exhaustive scan: k is listed iff the k-th hash is h; the list is strictly increasing *)
Theorem positions_is_scan : forall (h : N) (hs : list N) (k : N),
  (In k (positions h 0 hs) <-> nth_error hs (N.to_nat k) = Some h) /\ StronglySorted N.lt (positions h 0 hs).
Proof.
  intros h hs k. split.
  - rewrite (positions_spec h hs 0 k). rewrite N.sub_0_r. split; [tauto|]. intros H. split; [apply N.le_0_l|exact H].
  - apply positions_sorted.
Qed.

(* names_bucket_terminates: for ANY parsed index (any bytes in the bucket and hash arrays, any counts, bucket
   count zero included) bucket iteration and hash lookup end without panic — in particular without the
   division by zero of `hash % bucket_count` — and yield at most name_count items *)
Theorem names_bucket_terminates : forall (dbg be : bool) (ix : name_index) (b : N),
  ni_wf ix -> b < 2 ^ 32 ->
  post (fun o => match o with
                 | None => True
                 | Some (items, st) => st <> SPanic /\ st <> SFuel /\ N.of_nat (length items) <= ni_name_count ix
                 end) (ni_find_by_bucket dbg be ix b).
Proof. exact find_by_bucket_total. Qed.

Theorem names_hash_terminates : forall (dbg be : bool) (ix : name_index) (h : N),
  ni_wf ix -> h < 2 ^ 32 ->
  post (fun p => snd p <> SPanic /\ snd p <> SFuel /\ N.of_nat (length (fst p)) <= ni_name_count ix)
       (ni_find_by_hash dbg be ix h).
Proof. exact find_by_hash_total. Qed.

(* bucket_count = 0 behaves as coded: there is no hash table and the lookups fail with UnexpectedEof *)
Theorem names_no_hash_table : forall (dbg be : bool) (ix : name_index) (h : N),
  ni_bucket_count ix = 0 -> ni_buckets ix = [] ->
  ni_find_by_hash dbg be ix h = Err EUnexpectedEof /\ ni_find_by_bucket dbg be ix 0 = Err EUnexpectedEof.
Proof. exact find_by_hash_no_table. Qed.

(* non-vacuity: four names, three buckets, hashes grouped by bucket but not sorted by it (2,2,2,0) *)
Definition ex_hashes : list N := [2; 5; 8; 3].
Definition ex_names (be : bool) : name_index :=
  {| ni_fmt64 := false; ni_cu_count := 1; ni_ltu_count := 0; ni_ftu_count := 0; ni_bucket_count := 3;
     ni_name_count := 4; ni_cu_list := enc_words 4 be [0]; ni_ltu_list := []; ni_ftu_list := [];
     ni_buckets := enc_words 4 be (build_buckets 3 ex_hashes); ni_hashes := enc_words 4 be ex_hashes;
     ni_names := enc_words 4 be [0; 0; 0; 0]; ni_entry_offsets := enc_words 4 be [0; 0; 0; 0];
     ni_pool := []; ni_abbrevs := [] |}.
Example ex_names_wf : names_wf true (ex_names true) ex_hashes.
Proof.
  unfold names_wf, ex_names. cbn [ni_bucket_count ni_buckets ni_hashes ni_name_count].
  repeat split; try reflexivity.
  - repeat constructor.
  - cbn. intros x [H|[]]. subst. discriminate.
  - cbn. intros x [H|[]]. subst. discriminate.
  - cbn. intros x [H|[]]. subst. discriminate.
  - cbn. tauto.
Qed.
Example ex_names_hash5 : ni_find_by_hash true true (ex_names true) 5 = Ok ([1], SDone).
Proof. vm_compute. reflexivity. Qed.
Example ex_names_bucket2 : ni_find_by_bucket true true (ex_names true) 2 = Ok (Some ([(0, 2); (1, 5); (2, 8)], SDone)).
Proof. vm_compute. reflexivity. Qed.

(* names_layout: NameIndex::new slices CU list / local TU list / foreign TU list / buckets / hashes /
   string offsets / entry offsets / abbreviations / entry pool at the §6.1.1.2 sizes *)
Theorem names_layout : forall (dbg : bool) (h : name_header)
    (cu ltu ftu bk hsh nm eo ab pool : list byte) (abbrevs : list nabbrev),
  nh_wf h ->
  nh_content h = cu ++ ltu ++ ftu ++ bk ++ hsh ++ nm ++ eo ++ ab ++ pool ->
  blen cu = nh_cu_count h * word_size (nh_fmt64 h) ->
  blen ltu = nh_ltu_count h * word_size (nh_fmt64 h) ->
  blen ftu = nh_ftu_count h * 8 ->
  blen bk = nh_bucket_count h * 4 ->
  blen hsh = (if nh_bucket_count h =? 0 then 0 else nh_name_count h * 4) ->
  blen nm = nh_name_count h * word_size (nh_fmt64 h) ->
  blen eo = nh_name_count h * word_size (nh_fmt64 h) ->
  blen ab = nh_abbrev_size h ->
  name_abbrevs dbg ab = Ok abbrevs ->
  name_index_new dbg h =
    Ok {| ni_fmt64 := nh_fmt64 h; ni_cu_count := nh_cu_count h; ni_ltu_count := nh_ltu_count h;
          ni_ftu_count := nh_ftu_count h; ni_bucket_count := nh_bucket_count h;
          ni_name_count := nh_name_count h;
          ni_cu_list := cu; ni_ltu_list := ltu; ni_ftu_list := ftu; ni_buckets := bk; ni_hashes := hsh;
          ni_names := nm; ni_entry_offsets := eo; ni_pool := pool; ni_abbrevs := abbrevs |}.
Proof. exact NamesRdProofs.names_layout. Qed.

(* the header of an encoded name index (augmentation string padded to 4 bytes) *)
Theorem names_header : forall (dbg be : bool) (off : N) (d : names_desc) (rest : list byte),
  names_desc_wf d ->
  blen (enc_names_body be d) < (if n_fmt64 d then 2 ^ 64 else 4294967280) ->
  name_header_parse dbg be off (enc_names be d ++ rest) =
    Ok ({| nh_offset := off; nh_length := blen (enc_names_body be d); nh_fmt64 := n_fmt64 d; nh_version := 5;
           nh_cu_count := N.of_nat (length (n_cus d)); nh_ltu_count := N.of_nat (length (n_ltus d));
           nh_ftu_count := N.of_nat (length (n_ftus d)); nh_bucket_count := N.of_nat (length (n_buckets d));
           nh_name_count := n_name_count d; nh_abbrev_size := N.of_nat (length (n_abbrev d));
           nh_aug := (match n_aug d with [] => None | _ => Some (n_aug d) end);
           nh_content := names_content be d |}, rest).
Proof. exact names_header_encoded. Qed.

(* end to end: the bytes of a name index whose bucket array is built from its grouped hashes parse to an
   index on which find_by_hash is the exhaustive scan of the hash array and find_by_bucket the bucket's names *)
Theorem names_lookup_encoded : forall (dbg be : bool) (off : N) (d : names_desc) (rest : list byte)
    (abbrevs : list nabbrev),
  names_desc_wf d ->
  blen (enc_names_body be d) < (if n_fmt64 d then 2 ^ 64 else 4294967280) ->
  let bc := N.of_nat (length (n_buckets d)) in
  0 < bc -> n_buckets d = build_buckets bc (n_hashes d) -> grouped bc (n_hashes d) ->
  n_name_count d = N.of_nat (length (n_hashes d)) ->
  length (n_stroffs d) = length (n_hashes d) -> length (n_entryoffs d) = length (n_hashes d) ->
  Forall (fun v => v < 2 ^ 32) (n_hashes d) ->
  name_abbrevs dbg (n_abbrev d) = Ok abbrevs ->
  exists h ix,
    name_header_parse dbg be off (enc_names be d ++ rest) = Ok (h, rest) /\
    name_index_new dbg h = Ok ix /\
    (forall hash, ni_find_by_hash dbg be ix hash = Ok (positions hash 0 (n_hashes d), SDone)) /\
    (forall b, b < bc ->
       ni_find_by_bucket dbg be ix b =
         Ok (match bucket_members bc b 0 (n_hashes d) with [] => None | l => Some (l, SDone) end)).
Proof. exact NamesRdProofs.names_lookup_encoded. Qed.

(* names_entry: abbreviation table and entry pool. The table parsed from the encoding of a list of
   abbreviations (ended by its end or by a zero code) is that list; an encoded entry parses to its code, the
   tag and attribute list of its abbreviation (forms data1/2/4/8, udata, ref1/2/4/8, ref_udata, flag,
   flag_present) with its pool offset; a series ends at the zero code *)
Theorem names_abbrevs : forall (dbg : bool) (l : list nabbrev) (tail : list byte),
  (tail = [] \/ exists junk, tail = x00 :: junk) -> Forall abbrev_ok l ->
  name_abbrevs dbg (enc_abbrevs l ++ tail) = Ok l.
Proof. exact name_abbrevs_encoded. Qed.

Theorem names_entry : forall (dbg be : bool) (abbrevs : list nabbrev) (a : nabbrev) (off code : N)
    (attrs : list nattr) (rest : list byte),
  code <> 0 -> code < 2 ^ 64 -> nabbrev_get code abbrevs = Some a ->
  na_attrs a = map spec_of attrs -> Forall (fun x => nval_ok (at_form x) (at_value x)) attrs ->
  nentry_parse dbg be abbrevs off (enc_nentry be code attrs ++ rest) =
    Ok (Some {| ne_offset := off; ne_code := code; ne_tag := na_tag a; ne_attrs := attrs |}, rest).
Proof. exact nentry_parse_encoded. Qed.

Theorem names_entry_series : forall (dbg be : bool) (abbrevs : list nabbrev) (end_offset : N) (junk : list byte)
    (es : list (N * list nattr)) (fuel : nat),
  Forall (entry_ok abbrevs) es -> (length es < fuel)%nat ->
  blen (series_bytes be es ++ x00 :: junk) <= end_offset ->
  nentries_loop dbg be fuel abbrevs end_offset (series_bytes be es ++ x00 :: junk)
  = (series_entries be abbrevs end_offset es (x00 :: junk), SDone).
Proof. intros. apply nentries_encoded; assumption. Qed.

Definition ex_abbrevs : list nabbrev :=
  [ {| na_code := 1; na_tag := 46; na_attrs := [(3, 19); (4, 25)] |};
    {| na_code := 2; na_tag := 19; na_attrs := [(1, 11); (2, 15); (3, 19); (4, 19); (5, 7)] |} ].
Example ex_abbrevs_ok : Forall abbrev_ok ex_abbrevs.
Proof. repeat constructor; cbn; try discriminate; reflexivity. Qed.
Example ex_abbrevs_parse : name_abbrevs true (enc_abbrevs ex_abbrevs ++ [x00]) = Ok ex_abbrevs.
Proof. vm_compute. reflexivity. Qed.
Definition ex_series : list (N * list nattr) :=
  [ (1, [ {| at_name := 3; at_form := 19; at_value := NVOffset 77 |};
          {| at_name := 4; at_form := 25; at_value := NVFlag true |} ]);
    (2, [ {| at_name := 1; at_form := 11; at_value := NVUnsigned 0 |};
          {| at_name := 2; at_form := 15; at_value := NVUnsigned 300 |};
          {| at_name := 3; at_form := 19; at_value := NVOffset 99 |};
          {| at_name := 4; at_form := 19; at_value := NVOffset 0 |};
          {| at_name := 5; at_form := 7; at_value := NVUnsigned 18446744073709551615 |} ]) ].
Ltac nv := first [ reflexivity | split; reflexivity | left; nv | right; nv ].
Example ex_series_ok : Forall (entry_ok ex_abbrevs) ex_series.
Proof.
  constructor; [|constructor; [|constructor]]; unfold entry_ok; cbn [fst snd].
  - split; [discriminate|]. split; [reflexivity|]. split; [eexists; split; reflexivity|].
    repeat (constructor; [cbn; nv|]). constructor.
  - split; [discriminate|]. split; [reflexivity|]. split; [eexists; split; reflexivity|].
    repeat (constructor; [cbn; nv|]). constructor.
Qed.
Example ex_series_parse :
  map ne_offset (fst (nentries_loop true false 5 ex_abbrevs 27 (series_bytes false ex_series ++ [x00; x09])))
  = [0; 5].
Proof. vm_compute. reflexivity. Qed.

(* every reader of the name index, for ALL byte strings and both build modes: the header iterator ends
   without panic; NameIndex::new never panics and slices the sections at the §6.1.1.2 sizes; entry series,
   single entries and the attribute accessors never panic *)
Theorem names_headers_no_panic : forall (dbg be : bool) (bs : list byte),
  let '(hs, st) := name_headers dbg be bs in st <> SPanic /\ st <> SFuel /\ Forall nh_wf hs.
Proof. exact name_headers_total. Qed.

Theorem names_index_new_no_panic : forall (dbg : bool) (h : name_header),
  nh_wf h -> post ni_wf (name_index_new dbg h).
Proof. exact post_name_index_new. Qed.

Theorem names_entries_no_panic : forall (dbg be : bool) (ix : name_index) (i off : N) (e : nentry),
  i < 2 ^ 32 ->
  post (fun p => snd p <> SPanic /\ snd p <> SFuel) (ni_name_entries dbg be ix i) /\
  post (fun _ => True) (ni_name_entry dbg be ix off) /\
  post (fun _ => True) (ne_compile_unit dbg be ix e) /\ post (fun _ => True) (ne_type_unit dbg be ix e) /\
  post (fun _ => True) (ne_die_offset e) /\ post (fun _ => True) (ne_parent e) /\
  post (fun _ => True) (ne_type_hash e).
Proof.
  intros dbg be ix i off e Hi. split; [apply name_entries_total; exact Hi|].
  split; [apply name_entry_total|]. apply entry_accessors_total.
Qed.

(* type-unit index split: indexes below local_type_unit_count select the local list (an offset), the
   following foreign_type_unit_count indexes the foreign list (a signature), anything beyond is an error *)
Theorem names_type_unit_split : forall (dbg be : bool) (ix : name_index) (ltus ftus : list N),
  ni_ltu_list ix = concat (map (enc_word (ni_fmt64 ix) be) ltus) ->
  ni_ftu_list ix = enc_words 8 be ftus ->
  ni_ltu_count ix = N.of_nat (length ltus) -> ni_ftu_count ix = N.of_nat (length ftus) ->
  N.of_nat (length ltus) + N.of_nat (length ftus) < 2 ^ 32 ->
  Forall (fun v => v < (if ni_fmt64 ix then 2 ^ 64 else 2 ^ 32)) ltus -> Forall (fun v => v < 2 ^ 64) ftus ->
  forall i : nat, N.of_nat i < 2 ^ 32 ->
    ni_type_unit dbg be ix (N.of_nat i) =
      match nth_error ltus i with
      | Some off => Ok (inl off)
      | None => match nth_error ftus (i - length ltus) with
                | Some sig => Ok (inr sig)
                | None => Err EUnexpectedEof
                end
      end.
Proof. exact type_unit_split. Qed.

(* type_unit_count = local + foreign (DESIGN §8 suspect S3): the u32 addition cannot overflow unless the two
   type-unit lists together occupy 16 GiB; on the bare record (no such size bound) it does overflow *)
Theorem names_type_unit_count : forall (dbg : bool) (ix : name_index),
  ni_wf ix -> blen (ni_ltu_list ix) + blen (ni_ftu_list ix) < 2 ^ 34 ->
  ni_type_unit_count dbg ix = Ok (ni_ltu_count ix + ni_ftu_count ix).
Proof. exact type_unit_count_no_panic. Qed.
Theorem names_type_unit_count_refuted :
  exists ix, ni_type_unit_count true ix = Panic /\ ni_type_unit_count false ix = Ok 0.
Proof. exact type_unit_count_refuted. Qed.

(* (5) case_folding_djb_hash on ASCII input is the DJB hash of DWARF 5 §7.33 over the lower-cased bytes:
   ((...((5381*33 + b0)*33 + b1)...)*33 + bn) mod 2^32, computed without intermediate truncation *)
Theorem djb_hash : forall s : list byte, djb_hash_ascii s = djb_spec s.
Proof. exact djb_hash_ascii_spec. Qed.
Example djb_empty : djb_hash_ascii [] = 5381. Proof. reflexivity. Qed.
Example djb_main_MAIN : djb_hash_ascii [x6d; x61; x69; x6e] = 2090499946 /\ djb_hash_ascii [x4d; x41; x49; x4e] = 2090499946.
Proof. split; vm_compute; reflexivity. Qed.

(* ================================================================== .debug_aranges *)

(* (6) header padding: the first tuple starts at a multiple of 2*address_size from the start of the set *)
Theorem aranges_padding : forall (f64 : bool) (s : N), valid_asz s ->
  (arange_header_len f64 + arange_padding f64 s) mod (2 * s) = 0 /\ arange_padding f64 s < 2 * s.
Proof. exact arange_padding_spec. Qed.

(* the header of an encoded set parses to its fields and to the tuple bytes after the padding *)
Theorem aranges_header : forall (dbg be : bool) (off : N) (d : arange_desc) (rest : list byte),
  arange_desc_wf d ->
  blen (enc_arange_body be d) < (if a_fmt64 d then 2 ^ 64 else 4294967280) ->
  arange_header_parse dbg be off (enc_arange_set be d ++ rest) =
    Ok ({| ah_offset := off; ah_length := blen (enc_arange_body be d); ah_fmt64 := a_fmt64 d;
           ah_version := a_version d; ah_info_offset := a_info_offset d; ah_addr_size := a_addr_size d;
           ah_entries := concat (map (enc_tuple (a_addr_size d) be) (a_tuples d)) ++ a_tail d |}, rest).
Proof. exact arange_header_encoded. Qed.

(* tuple iteration = the encoded tuples minus (0,0) minus begin >= tombstone (2^(8s) - 2), each with
   end = begin + length; an end beyond the address size stops the iteration with AddressOverflow; a trailing
   fragment shorter than a tuple is ignored *)
Theorem aranges_entries : forall (dbg be : bool) (s : N) (tail : list byte) (ts : list (N * N)) (fuel : nat),
  valid_asz s -> blen tail < 2 * s ->
  Forall (fun t => fst t < 2 ^ (8 * s) /\ snd t < 2 ^ (8 * s)) ts -> (length ts < fuel)%nat ->
  arange_entries_loop dbg be fuel s (concat (map (enc_tuple s be) ts) ++ tail)
  = (fst (arange_meaning s ts), stop_of_err (snd (arange_meaning s ts))).
Proof. intros dbg be s tail ts fuel Hv Ht F Hf. exact (arange_entries_encoded dbg be s tail Hv Ht ts fuel F Hf). Qed.

Example ex_arange_meaning :
  arange_meaning 4 [(16, 4); (0, 0); (4294967295, 0); (4294967294, 1); (0, 8); (4294967000, 1000); (7, 7)]
  = ([(16, 4, 20); (0, 8, 8)], Some EAddressOverflow).
Proof. reflexivity. Qed.
Example ex_arange_entries :
  arange_entries_loop true true 9 4
    (concat (map (enc_tuple 4 true) [(16, 4); (0, 0); (4294967295, 0); (0, 8)]) ++ [x00; x00; x00])
  = ([(16, 4, 20); (0, 8, 8)], SDone).
Proof. vm_compute. reflexivity. Qed.

(* for ANY section bytes (shorter than 2^64): header iteration ends without panic and every set's entry
   iterations (converted and raw) end without panic, both build modes *)
Theorem aranges_no_panic : forall (dbg be : bool) (bs : list byte),
  blen bs < 2 ^ 64 ->
  let '(hs, st) := arange_headers dbg be bs in
  st <> SPanic /\ st <> SFuel /\
  Forall (fun h => snd (arange_entries dbg be h) <> SPanic /\ snd (arange_entries dbg be h) <> SFuel /\
                   snd (arange_raw_entries dbg be h) <> SPanic /\ snd (arange_raw_entries dbg be h) <> SFuel) hs.
Proof. exact arange_headers_total. Qed.

(* ================================================================== .debug_pubnames / .debug_pubtypes *)

(* pubstuff: iterating a section made of several sets yields the concatenation, set by set, of the encoded
   (die_offset, name) pairs, each with its set's unit offset; a set ends at its end or at a zero offset
   (whatever follows the zero inside the set is skipped) *)
Theorem pubstuff : forall (be : bool) (ds : list pub_desc),
  Forall (pub_desc_wf be) ds ->
  pub_items be (concat (map (enc_pub_set be) ds))
  = (concat (map (fun d => map (pub_entry_of d) (p_entries d)) ds), SDone).
Proof. exact pub_items_encoded. Qed.

Theorem pubstuff_no_panic : forall (be : bool) (bs : list byte),
  let '(es, st) := pub_items be bs in st <> SPanic /\ st <> SFuel.
Proof. exact pub_items_total. Qed.

Definition ex_pub1 : pub_desc :=
  {| p_fmt64 := false; p_version := 2; p_unit_offset := 11; p_unit_length := 99;
     p_entries := [(42, [x6d; x61; x69; x6e]); (50, [])];
     p_tail := [x00; x00; x00; x00; x77; x00; x00; x00; x62; x00] |}.   (* zero offset, then junk *)
Definition ex_pub2 : pub_desc :=
  {| p_fmt64 := true; p_version := 2; p_unit_offset := 200; p_unit_length := 5;
     p_entries := [(7, [x66])]; p_tail := [] |}.                         (* no terminator *)
Example ex_pub_wf : Forall (pub_desc_wf false) [ex_pub1; ex_pub2].
Proof.
  constructor; [|constructor; [|constructor]].
  - unfold pub_desc_wf. split; [reflexivity|]. split; [reflexivity|]. split; [reflexivity|].
    split; [repeat constructor; cbn; try discriminate; try reflexivity|].
    split; [right; exists [x77; x00; x00; x00; x62; x00]; reflexivity|]. vm_compute. reflexivity.
  - unfold pub_desc_wf. split; [reflexivity|]. split; [reflexivity|]. split; [reflexivity|].
    split; [repeat constructor; cbn; try discriminate; try reflexivity|].
    split; [left; reflexivity|]. vm_compute. reflexivity.
Qed.
Example ex_pub_items :
  fst (pub_items false (concat (map (enc_pub_set false) [ex_pub1; ex_pub2])))
  = [ {| pe_die_offset := 42; pe_name := [x6d; x61; x69; x6e]; pe_unit_offset := 11 |};
      {| pe_die_offset := 50; pe_name := []; pe_unit_offset := 11 |};
      {| pe_die_offset := 7; pe_name := [x66]; pe_unit_offset := 200 |} ].
Proof. vm_compute. reflexivity. Qed.

(* ================================================================== pins *)
Check index_find_terminates. Check index_parse_no_panic. Check index_find_correct. Check index_find_absent.
Check index_sections_rows. Check index_column_kinds. Check index_parse_encoded. Check index_lookup_encoded.
Check names_by_bucket. Check names_by_hash. Check positions_is_scan. Check names_bucket_terminates.
Check names_no_hash_table. Check names_layout. Check names_header. Check names_lookup_encoded.
Check names_type_unit_split. Check names_abbrevs. Check names_entry. Check names_entry_series. Check index_find_zero_none. Check insert_reaches_every_load. Check names_type_unit_count. Check djb_hash.
Check aranges_padding. Check aranges_header. Check aranges_entries. Check aranges_no_panic.
Check pubstuff. Check pubstuff_no_panic.

(* ================================================================== section plumbing: the glue of src/read/dwarf.rs
   Model/UnitGlue.v (Unit::new_with_abbreviations, attr_string, attr_address, make_dwo, copy_relocated_attributes, ...)
   tied to gimli by the stream c17.unitglue; Spec/UnitGlueSpec.v says what the root DIE denotes. *)
Require Import GV.Spec.FormSpec GV.Model.Attr GV.Spec.Forest GV.Model.AbbrevRd GV.Model.DieRd GV.Spec.ListSpec.
Require Import GV.Spec.UnitGlueSpec GV.Model.UnitGlue GV.Proofs.UnitGlueProofs.
Require GV.Model.ListsRd GV.Proofs.ListsRdProofs GV.Proofs.NavProofs.

(* unit_fields_of_root: for EVERY attribute list of the root entry — any order, duplicates, any forms, any names —
   the loop of Unit::new_with_abbreviations ends with exactly the choice of the specification: name / comp_dir /
   low_pc = the LAST attribute of that name (whatever its class); stmt_list and each base = the LAST attribute with
   a designated name whose value has the right class (an attribute of the right name and wrong class changes
   nothing), else the implicit base of the file type; dwo id = the header's for DWARF 5 skeleton / split units,
   else the FIRST constant DW_AT_GNU_dwo_id. *)
Theorem unit_fields_of_root : forall (d : dwarf) (h : unit_header) (attrs : list rattr),
  fold_left scan_step attrs (scan_init d h) = scan_spec d h attrs.
Proof. exact scan_is_choice. Qed.

(* unit_new_fields: every field of the Unit returned by Unit::new_with_abbreviations. Name, comp_dir and low_pc are
   attr_string / attr_address of the chosen attribute evaluated on the FINISHED unit: an indexed form sees the
   str_offsets_base / addr_base of the unit wherever in the attribute list the base was given (no order
   dependence); a name that does not resolve is None, an address form that is neither Addr nor an index is 0; the
   line program is the one at the chosen offset, parsed with the unit's address size, comp_dir and name. *)
Theorem unit_new_fields : forall dbg d h tbl root u,
  unit_of_root dbg d h tbl root = Ok u ->
  let sp := scan_spec d h (d_attrs root) in
  un_header u = h /\ un_abbrevs u = tbl /\
  un_str_offsets_base u = sc_sob sp /\ un_addr_base u = sc_ab sp /\
  un_loclists_base u = sc_llb sp /\ un_rnglists_base u = sc_rlb sp /\ un_dwo_id u = sc_dwo_id sp /\
  un_name u = match sc_name sp with Some v => opt_of_res (attr_string d u v) | None => None end /\
  un_comp_dir u = match sc_comp_dir sp with Some v => opt_of_res (attr_string d u v) | None => None end /\
  un_low_pc u = match sc_low_pc sp with
                | Some v => match attr_address d u v with Ok (Some a) => a | _ => 0 end
                | None => 0
                end /\
  match sc_stmt sp with
  | None => un_line_program u = None
  | Some off =>
      exists p, line_program dbg d off (address_size (u_enc h)) (un_comp_dir u) (un_name u) = Ok p /\
                un_line_program u = Some p
  end.
Proof. exact unit_of_root_fields. Qed.

(* Unit::new fails (after the root was read) only through the chosen line program or the chosen low_pc index *)
Theorem unit_new_errors : forall dbg d h tbl root e,
  unit_of_root dbg d h tbl root = Err e ->
  let sp := scan_spec d h (d_attrs root) in
  (exists off cd nm, sc_stmt sp = Some off /\ line_program dbg d off (address_size (u_enc h)) cd nm = Err e) \/
  (exists v u0, sc_low_pc sp = Some v /\ un_header u0 = h /\ un_addr_base u0 = sc_ab sp /\ attr_address d u0 v = Err e).
Proof. exact unit_of_root_error. Qed.

(* str_offsets_base_default: all versions x formats x file types. The implicit base is the size of the header of
   a DWARF 5 string offsets table in the unit's format (8 / 16), in a DWARF 5 .dwo only; 0 otherwise. The lists
   bases likewise (12 / 20). *)
Theorem str_offsets_base_default : forall be f len v dwo,
  default_str_offsets_base v f dwo = implicit_str_offsets_base v f dwo /\
  implicit_str_offsets_base v f dwo = (if (5 <=? v) && dwo then nlen (str_offsets_header be f len) else 0) /\
  ListsRd.default_lists_base v f dwo = implicit_lists_base v f dwo.
Proof.
  intros. split; [apply default_sob_implicit|]. split; [apply implicit_sob_header|apply default_lists_implicit].
Qed.

(* attr_string_resolves: each string form resolves to the NUL-terminated bytes at the designated position of the
   designated section, or to the stated error: strp -> .debug_str, line_strp -> .debug_line_str, strp_sup -> the
   supplementary .debug_str (ExpectedStringAttributeValue without one), strx* -> .debug_str at the offset stored in
   entry i of .debug_str_offsets after the unit's base (C08 str_offset_table); anything else is not a string. *)
Theorem attr_string_resolves : forall d u v,
  N.of_nat (length (dw_str_offsets d)) < two64 ->
  attr_string d u v =
  match v with
  | VString s => Ok s
  | VDebugStrRef o => ok_or_eof (cstr_at (dw_str d) o)
  | VDebugStrRefSup o =>
      match dw_sup d with
      | Some s => ok_or_eof (cstr_at s o)
      | None => Err EExpectedStringAttributeValue
      end
  | VDebugLineStrRef o => ok_or_eof (cstr_at (dw_line_str d) o)
  | VDebugStrOffsetsIndex i =>
      match str_offset_table (dw_be d) (fmt64 (u_enc (un_header u))) (dw_str_offsets d)
                             (un_str_offsets_base u) i with
      | Some o => ok_or_eof (cstr_at (dw_str d) o)
      | None => Err EUnexpectedEof
      end
  | _ => Err EExpectedStringAttributeValue
  end.
Proof. exact attr_string_spec. Qed.

Theorem attr_line_string_resolves : forall d u v,
  (forall i, v <> VDebugStrOffsetsIndex i) -> attr_line_string d v = attr_string d u v.
Proof. exact attr_line_string_agrees. Qed.

(* attr_address_resolves: Addr is itself; an index is entry i of .debug_addr after the unit's addr_base at the
   unit's address size (C08 addr_table), UnexpectedEof outside the section; every other variant is None *)
Theorem attr_address_resolves : forall d u v,
  valid_asize (address_size (u_enc (un_header u))) = true -> N.of_nat (length (dw_addr d)) < two64 ->
  attr_address d u v =
  match v with
  | VAddr a => Ok (Some a)
  | VDebugAddrIndex i =>
      match addr_table (dw_be d) (address_size (u_enc (un_header u))) (dw_addr d) (un_addr_base u) i with
      | Some a => Ok (Some a)
      | None => Err EUnexpectedEof
      end
  | _ => Ok None
  end.
Proof. exact attr_address_spec. Qed.

(* make_dwo_inherits: exactly file type, .debug_addr, .debug_ranges and the supplementary file come from the
   parent; every other section is untouched. copy_relocated_attributes: exactly low_pc, addr_base and — before
   DWARF 5 only — rnglists_base come from the skeleton. *)
Theorem make_dwo_inherits : forall self parent,
  let r := make_dwo self parent in
  dw_dwo r = true /\ dw_addr r = dw_addr parent /\ dw_ranges r = dw_ranges parent /\ dw_sup r = dw_sup parent /\
  dw_be r = dw_be self /\ dw_abbrev r = dw_abbrev self /\ dw_aranges r = dw_aranges self /\
  dw_info r = dw_info self /\ dw_line r = dw_line self /\ dw_line_str r = dw_line_str self /\
  dw_macinfo r = dw_macinfo self /\ dw_macro r = dw_macro self /\ dw_names r = dw_names self /\
  dw_str r = dw_str self /\ dw_str_offsets r = dw_str_offsets self /\ dw_types r = dw_types self /\
  dw_loc r = dw_loc self /\ dw_loclists r = dw_loclists self /\ dw_rnglists r = dw_rnglists self.
Proof. exact make_dwo_fields. Qed.

Theorem copy_relocated_inherits : forall self other,
  let r := copy_relocated_attributes self other in
  un_low_pc r = un_low_pc other /\ un_addr_base r = un_addr_base other /\
  un_rnglists_base r = (if version (u_enc (un_header self)) <? 5 then un_rnglists_base other
                        else un_rnglists_base self) /\
  un_header r = un_header self /\ un_abbrevs r = un_abbrevs self /\ un_name r = un_name self /\
  un_comp_dir r = un_comp_dir self /\ un_str_offsets_base r = un_str_offsets_base self /\
  un_loclists_base r = un_loclists_base self /\ un_line_program r = un_line_program self /\
  un_dwo_id r = un_dwo_id self.
Proof. exact copy_relocated_fields. Qed.

(* after make_dwo + Unit::new + copy_relocated_attributes, range resolution of the split unit runs on the parent's
   .debug_addr / .debug_ranges, the dwo's .debug_rnglists, and the skeleton's low_pc / addr_base (and its
   ranges base before DWARF 5) *)
Theorem split_unit_context : forall dbg dwo parent skeleton h d u,
  load_dwo_unit dbg dwo parent skeleton h = Ok (d, u) ->
  let x := uctx_of d u in
  ListsRd.u_dwo x = true /\ ListsRd.u_debug_addr x = dw_addr parent /\
  ListsRd.u_debug_ranges x = dw_ranges parent /\ ListsRd.u_debug_rnglists x = dw_rnglists dwo /\
  ListsRd.u_low_pc x = un_low_pc skeleton /\ ListsRd.u_addr_base x = un_addr_base skeleton /\
  (version (u_enc h) <? 5 = true -> ListsRd.u_rnglists_base x = un_rnglists_base skeleton).
Proof. exact load_dwo_unit_context. Qed.

(* unit_glue_no_panic: both build modes. From the root on: ANY root entry, ANY sections. From the header on: any
   header whose size arithmetic is that of a parsed header (hypotheses; Example below), any sections. *)
Theorem unit_glue_no_panic : forall dbg d h,
  (forall tbl root, ListsRdProofs.good (unit_of_root dbg d h tbl root)) /\
  (forall u v, ListsRdProofs.good (attr_string d u v) /\ ListsRdProofs.good (attr_address d u v)) /\
  (forall off, header_size dbg h = Ok off -> off + nlen (u_entries h) < two63 ->
     ListsRdProofs.good (unit_new dbg d h) /\
     forall u, un_header u = h -> valid_asize (address_size (u_enc h)) = true ->
               ListsRdProofs.good (unit_ranges_all dbg d u)).
Proof.
  intros dbg d h. split; [intros; apply unit_of_root_good|].
  split; [intros; split; [apply attr_string_good|apply attr_address_good]|].
  intros off Hs Hlt. split; [exact (unit_new_good dbg d h off Hs Hlt)|].
  intros u Hu Hv. subst h. exact (unit_ranges_all_good dbg d u off Hs Hlt Hv).
Qed.

(* ---- examples: a DWARF 5 split unit in a .dwo. Root attributes, in this order: DW_AT_low_pc (addrx1 1),
   DW_AT_name (strx1 1), DW_AT_addr_base (sec_offset 8), DW_AT_name again (string "z"), DW_AT_GNU_dwo_id (data1 9,
   ignored: the header has the id), DW_AT_str_offsets_base given as data1 (wrong class: ignored). *)
Definition ex_glue_abbrev : list byte :=
  [x01; x11; x00;  x11; x29;  x03; x25;  x73; x17;  x03; x08;  xb1; x42; x0b;  x72; x0b;  x00; x00; x00]%byte.
Definition ex_glue_info : list byte :=
  [x1b; x00; x00; x00;  x05; x00;  x05; x04;  x00; x00; x00; x00;
   x88; x77; x66; x55; x44; x33; x22; x11;
   x01;  x01;  x01;  x08; x00; x00; x00;  x7a; x00;  x09;  x63]%byte.
Definition ex_glue_dwarf : dwarf :=
  mkDwarf false ex_glue_abbrev
          [x00; x00; x00; x00; x00; x00; x00; x00;  x10; x00; x00; x00;  x20; x00; x00; x00]%byte   (* .debug_addr *)
          [] ex_glue_info [] [] [] [] []
          [x61; x00; x62; x63; x00]%byte                                                              (* "a" "bc" *)
          [x0c; x00; x00; x00; x05; x00; x00; x00;  x00; x00; x00; x00;  x02; x00; x00; x00]%byte     (* v5 table *)
          [] [] [] [] [] true None.

Example ex_glue_unit :
  match first_header ex_glue_dwarf false with
  | Ok (Some h) =>
      match unit_new true ex_glue_dwarf h with
      | Ok u =>
          header_size true h = Ok 20 /\ 20 + nlen (u_entries h) < two63 /\
          (* the second DW_AT_name wins; low_pc (given FIRST) is entry 1 after the addr_base given later; the
             implicit str_offsets_base of a v5 .dwo survives the data1 attribute; the header's id wins *)
          un_name u = Some [x7a]%byte /\ un_low_pc u = 32 /\ un_addr_base u = 8 /\ un_str_offsets_base u = 8 /\
          un_dwo_id u = Some 1234605616436508552 /\
          attr_string ex_glue_dwarf u (VDebugStrOffsetsIndex 1) = Ok [x62; x63]%byte /\
          attr_string ex_glue_dwarf u (VDebugStrRefSup 0) = Err EExpectedStringAttributeValue /\
          attr_address ex_glue_dwarf u (VDebugAddrIndex 2) = Err EUnexpectedEof
      | _ => False
      end
  | _ => False
  end.
Proof. vm_compute. repeat split; reflexivity. Qed.

Example ex_glue_choice :
  let attrs := [(mkSpec DW_AT_name 8 0%Z, VString [x61]%byte); (mkSpec DW_AT_addr_base 23 0%Z, VSecOffset 8);
                (mkSpec DW_AT_GNU_addr_base 11 0%Z, VData1 3); (mkSpec DW_AT_name 8 0%Z, VString [x62]%byte);
                (mkSpec DW_AT_GNU_dwo_id 7 0%Z, VData8 5); (mkSpec DW_AT_GNU_dwo_id 7 0%Z, VData8 6)] in
  ch_name (choose attrs) = Some (VString [x62]%byte) /\ ch_addr_base (choose attrs) = Some 8 /\
  ch_gnu_dwo_id (choose attrs) = Some 5.
Proof. vm_compute. repeat split; reflexivity. Qed.

Example ex_glue_split :
  let parent := mkDwarf false [] [x01]%byte [] [] [] [] [] [] [] [] [] [] [] [] [x02]%byte [] false (Some [x03]%byte) in
  let r := make_dwo ex_glue_dwarf parent in
  dw_addr r = [x01]%byte /\ dw_ranges r = [x02]%byte /\ dw_sup r = Some [x03]%byte /\ dw_str r = dw_str ex_glue_dwarf.
Proof. vm_compute. repeat split; reflexivity. Qed.

Check unit_fields_of_root : forall (d : dwarf) (h : unit_header) (attrs : list rattr),
  fold_left scan_step attrs (scan_init d h) = scan_spec d h attrs.
Check unit_new_fields. Check unit_new_errors. Check str_offsets_base_default. Check attr_string_resolves.
Check attr_line_string_resolves. Check attr_address_resolves. Check make_dwo_inherits. Check copy_relocated_inherits.
Check split_unit_context. Check unit_glue_no_panic.

(* ================================================================== continuation: lookup_offset_id, dwo_name, unit_ranges,
   no panic from the section bytes on *)

(* lookup_offset_id_scan: with every section inside the address space (start + length < 2^64, as for any slice),
   Dwarf::lookup_offset_id never fails and is the exhaustive scan of the searched sections in the coded order,
   main file first: abbrev, addr, aranges, info, line, line_str, str, str_offsets, types, loc, loclists, ranges,
   rnglists; then the same list in the supplementary file. *)
Theorem lookup_offset_id_scan : forall dbg place sup id,
  placed_ok place -> (forall sp, sup = Some sp -> placed_ok sp) ->
  lookup_offset_id dbg place sup id = Ok (lookup_spec place sup id).
Proof. exact lookup_offset_id_spec. Qed.

(* lookup_offset_id_correct: an id that lies inside section S of the main file at offset o (one past the end
   included) is reported as (false, S, o) provided no section coded BEFORE S contains it: on a boundary shared by
   two sections the FIRST in the coded order wins, whatever the order of the sections in memory. *)
Theorem lookup_offset_id_correct : forall dbg place sup id pre S post o,
  placed_ok place -> (forall sp, sup = Some sp -> placed_ok sp) ->
  lookup_order = pre ++ S :: post ->
  id = fst (place S) + o -> o <= snd (place S) ->
  forallb (fun s => negb (inb place id s)) pre = true ->
  lookup_offset_id dbg place sup id = Ok (Some (false, S, o)).
Proof. exact lookup_inside. Qed.

(* ... in the supplementary file when no searched section of the main file contains it *)
Theorem lookup_offset_id_correct_sup : forall dbg place sp id pre S post o,
  placed_ok place -> placed_ok sp ->
  lookup_order = pre ++ S :: post ->
  id = fst (sp S) + o -> o <= snd (sp S) ->
  forallb (fun s => negb (inb place id s)) lookup_order = true ->
  forallb (fun s => negb (inb sp id s)) pre = true ->
  lookup_offset_id dbg place (Some sp) id = Ok (Some (true, S, o)).
Proof. exact lookup_inside_sup. Qed.

(* ... and an id in no searched section of either file is None *)
Theorem lookup_offset_id_none : forall dbg place sup id,
  placed_ok place -> (forall sp, sup = Some sp -> placed_ok sp) ->
  forallb (fun s => negb (inb place id s)) lookup_order = true ->
  (forall sp, sup = Some sp -> forallb (fun s => negb (inb sp id s)) lookup_order = true) ->
  lookup_offset_id dbg place sup id = Ok None.
Proof. exact lookup_none. Qed.

(* lookup_offset_id_unsearched (an observation about the code, confirmed on gimli by c17.lookup; not a property
   violation): exactly .debug_macinfo, .debug_macro and .debug_names are never asked, so an id that lies only
   inside one of them is reported as belonging to no section (format_error then prints no location). *)
Theorem lookup_offset_id_unsearched :
  (forall s, ~ In s lookup_order <-> s = SMacinfo \/ s = SMacro \/ s = SNames) /\
  (forall dbg place sup id s,
     placed_ok place -> (forall sp, sup = Some sp -> placed_ok sp) ->
     s = SMacinfo \/ s = SMacro \/ s = SNames -> inb place id s = true ->
     (forall t, In t lookup_order -> inb place id t = false) ->
     (forall sp t, sup = Some sp -> In t lookup_order -> inb sp id t = false) ->
     lookup_offset_id dbg place sup id = Ok None).
Proof. split; [exact unsearched_sections|exact lookup_unsearched]. Qed.

(* .debug_info at [100,110], .debug_abbrev at [110,120], .debug_macro at [200,210], everything else empty at 0 *)
Definition ex_place (s : sid) : N * N :=
  match s with SInfo => (100, 10) | SAbbrev => (110, 10) | SMacro => (200, 10) | _ => (0, 0) end.
Example ex_lookup :
  placed_ok ex_place /\
  lookup_offset_id true ex_place None 105 = Ok (Some (false, SInfo, 5)) /\
  lookup_offset_id true ex_place None 110 = Ok (Some (false, SAbbrev, 0)) /\   (* shared boundary: abbrev is coded first *)
  lookup_offset_id true ex_place None 205 = Ok None /\                           (* inside .debug_macro *)
  lookup_offset_id true ex_place (Some ex_place) 121 = Ok None /\
  lookup_offset_id true (fun _ => (0, 0)) (Some ex_place) 120 = Ok (Some (true, SAbbrev, 10)).
Proof.
  split; [intros s; destruct s; vm_compute; reflexivity|]. vm_compute. repeat split; reflexivity.
Qed.

(* dwo_name_spec: when the first entry of the unit is a DIE (not a null entry) it is the root Unit::new used, and
   dwo_name is the value of the FIRST DW_AT_dwo_name (DWARF 5) / DW_AT_GNU_dwo_name (before) of that entry, None
   without one; the other name is never consulted. After a leading null entry (which Unit::new skips) it is
   MissingUnitDie. *)
Theorem dwo_name_spec : forall dbg u c c' root,
  entries dbg (un_header u) = Ok c ->
  next_entry dbg (u_enc (un_header u)) (un_abbrevs u) c = Ok (SOk true c') -> current c' = Some root ->
  root_dfs dbg (un_header u) (un_abbrevs u) = Ok root /\
  dwo_name dbg u =
  Ok (option_map val (first_attr (named (dwo_name_attr (version (u_enc (un_header u))))) (d_attrs root))).
Proof. exact dwo_name_root. Qed.

Theorem dwo_name_after_null : forall dbg u c b c',
  entries dbg (un_header u) = Ok c ->
  next_entry dbg (u_enc (un_header u)) (un_abbrevs u) c = Ok (SOk b c') -> current c' = None ->
  dwo_name dbg u = Err EMissingUnitDie.
Proof. exact dwo_name_leading_null. Qed.

(* unit_ranges_spec: unit_ranges is C08's die_ranges of the root entry Unit::new used, in the unit's context
   (uctx_of: the unit's low_pc, addr_base, rnglists_base and the Dwarf's .debug_addr/.debug_ranges/.debug_rnglists) *)
Theorem unit_ranges_spec : forall dbg d u root,
  root_dfs dbg (un_header u) (un_abbrevs u) = Ok root ->
  unit_ranges dbg d u = ListsRd.die_ranges (uctx_of d u) (map die_attr_view (d_attrs root)) /\
  unit_ranges_all dbg d u = ListsRd.die_ranges_all dbg (uctx_of d u) (map die_attr_view (d_attrs root)).
Proof. exact unit_ranges_root. Qed.

(* ... composed with C08 (Properties/C08.v helpers_ranges_attribute / helpers_ranges_index /
   helpers_low_high_constant — the same lemmas of Proofs/ListsRdProofs.v), stated on the attributes as read:
   DW_AT_ranges first among low_pc/high_pc/ranges: C08's resolution (ranges_all, with its theorems
   resolve_refines / nonempty_below_tombstone) of the list it designates, base address = the unit's low_pc *)
Theorem unit_ranges_of_list : forall dbg d u root pre p post o,
  root_dfs dbg (un_header u) (un_abbrevs u) = Ok root ->
  d_attrs root = pre ++ p :: post -> forallb glue_other pre = true ->
  nm p = Attr.DW_AT_ranges -> val p = VRangeListsRef o ->
  let x := uctx_of d u in
  unit_ranges_all dbg d u =
  ListsRd.ranges_all dbg (ListsRd.u_cfg x) (ListsRd.u_lctx x) (dw_ranges d) (dw_rnglists d)
    (if dw_dwo d && (version (u_enc (un_header u)) <? 5) then (o + un_rnglists_base u) mod two64 else o)
    (un_low_pc u).
Proof. exact unit_ranges_list. Qed.

Theorem unit_ranges_of_index : forall dbg d u root pre p post i off,
  root_dfs dbg (un_header u) (un_abbrevs u) = Ok root ->
  d_attrs root = pre ++ p :: post -> forallb glue_other pre = true ->
  nm p = Attr.DW_AT_ranges -> val p = VDebugRngListsIndex i ->
  N.of_nat (length (dw_rnglists d)) < two64 ->
  offset_table (dw_be d) (fmt64 (u_enc (un_header u))) (dw_rnglists d) (un_rnglists_base u) i = Some off ->
  off < two64 ->
  let x := uctx_of d u in
  unit_ranges_all dbg d u =
  ListsRd.ranges_all dbg (ListsRd.u_cfg x) (ListsRd.u_lctx x) (dw_ranges d) (dw_rnglists d) off (un_low_pc u).
Proof. exact unit_ranges_listx. Qed.

(* no DW_AT_ranges: low_pc (address) + high_pc (constant) = [low, low + n), AddressOverflow past 2^64 *)
Theorem unit_ranges_of_low_high : forall dbg d u root pre p1 mid p2 post lo n,
  root_dfs dbg (un_header u) (un_abbrevs u) = Ok root ->
  d_attrs root = pre ++ p1 :: mid ++ p2 :: post ->
  forallb glue_other pre = true -> forallb glue_other mid = true -> forallb glue_other post = true ->
  nm p1 = DW_AT_low_pc -> val p1 = VAddr lo -> nm p2 = DW_AT_high_pc -> val p2 = VUdata n ->
  unit_ranges dbg d u =
  if lo + n <? two64 then Ok (ListsRd.RiSingle (Some (lowhigh_const lo n))) else Err EAddressOverflow.
Proof. exact unit_ranges_low_high. Qed.

(* none of the three attributes: the empty iterator *)
Theorem unit_ranges_of_nothing : forall dbg d u root,
  root_dfs dbg (un_header u) (un_abbrevs u) = Ok root -> forallb glue_other (d_attrs root) = true ->
  unit_ranges dbg d u = Ok (ListsRd.RiSingle None) /\ unit_ranges_all dbg d u = Ok [].
Proof. exact unit_ranges_empty. Qed.

(* parsed_header_arith: for EVERY header the C02 parser model returns, on any bytes: the entries are a part of the
   unit_length bytes, initial length + unit_length fits the section, and the address size is 1, 2, 4 or 8 —
   so header_size / EntriesCursor::new cannot overflow or underflow *)
Theorem parsed_header_arith : forall bigend types uoff bs h after,
  parse_unit_header bigend types uoff bs = Ok (h, after) ->
  nlen (u_entries h) <= u_length h /\
  initial_length_size (fmt64 (u_enc h)) + u_length h + nlen after = nlen bs /\
  valid_asize (address_size (u_enc h)) = true.
Proof. exact parse_unit_header_sizes. Qed.

(* unit_glue_no_panic_bytes: the hypothesis of unit_glue_no_panic discharged. For ALL section contents (unit
   sections shorter than 2^63 bytes, as any slice is), both build modes: reading the first header, Unit::new on it,
   and unit_ranges / dwo_name on any unit with that header neither panic nor run out of fuel. *)
Theorem unit_glue_no_panic_bytes : forall dbg d types,
  nlen (dw_info d) < two63 -> nlen (dw_types d) < two63 ->
  ListsRdProofs.good (first_header d types) /\
  forall h, first_header d types = Ok (Some h) ->
    ListsRdProofs.good (unit_new dbg d h) /\
    forall u, un_header u = h ->
      ListsRdProofs.good (unit_ranges_all dbg d u) /\ ListsRdProofs.good (dwo_name dbg u).
Proof. exact glue_good_bytes. Qed.

(* a DWARF 4 unit whose root has DW_AT_GNU_dwo_name "a", DW_AT_GNU_dwo_name "b", DW_AT_ranges (sec_offset 0) *)
Definition ex_glue4_dwarf : dwarf :=
  mkDwarf false
          [x01; x11; x00;  xb0; x42; x08;  xb0; x42; x08;  x55; x17;  x00; x00; x00]%byte
          [] []
          [x10; x00; x00; x00;  x04; x00;  x00; x00; x00; x00;  x08;  x01;  x61; x00;  x62; x00;  x00; x00; x00; x00]%byte
          [] [] [] [] [] [] [] [] [] []
          [x10; x00; x00; x00; x00; x00; x00; x00;  x20; x00; x00; x00; x00; x00; x00; x00;
           x00; x00; x00; x00; x00; x00; x00; x00;  x00; x00; x00; x00; x00; x00; x00; x00]%byte
          [] false None.
Example ex_glue4 :
  match first_header ex_glue4_dwarf false with
  | Ok (Some h) =>
      match unit_new true ex_glue4_dwarf h with
      | Ok u =>
          (match entries true h with
           | Ok c => match next_entry true (u_enc h) (un_abbrevs u) c with
                     | Ok (SOk true c') => current c' <> None
                     | _ => False
                     end
           | _ => False
           end) /\
          dwo_name true u = Ok (Some (VString [x61]%byte)) /\              (* the first occurrence *)
          unit_ranges_all true ex_glue4_dwarf u = Ok [ListsRd.EvItem (16, 32)]
      | _ => False
      end
  | _ => False
  end.
Proof. vm_compute. repeat split; try reflexivity. discriminate. Qed.

Check lookup_offset_id_scan. Check lookup_offset_id_correct. Check lookup_offset_id_correct_sup. Check lookup_offset_id_none.
Check lookup_offset_id_unsearched. Check dwo_name_spec. Check dwo_name_after_null. Check unit_ranges_spec.
Check unit_ranges_of_list. Check unit_ranges_of_index. Check unit_ranges_of_low_high. Check unit_ranges_of_nothing.
Check parsed_header_arith. Check unit_glue_no_panic_bytes.

(* the usual producer order — DW_AT_low_pc (address) and DW_AT_high_pc before DW_AT_ranges — gives the same: what
   was collected from low_pc / high_pc is irrelevant once DW_AT_ranges designates a list (`glue_benign`: any
   attribute other than ranges, an indexed low_pc or an ill-classed low_pc / high_pc) *)
Theorem unit_ranges_of_list_after_low_pc : forall dbg d u root pre p post o,
  root_dfs dbg (un_header u) (un_abbrevs u) = Ok root ->
  d_attrs root = pre ++ p :: post -> forallb glue_benign pre = true ->
  nm p = Attr.DW_AT_ranges -> val p = VRangeListsRef o ->
  let x := uctx_of d u in
  unit_ranges_all dbg d u =
  ListsRd.ranges_all dbg (ListsRd.u_cfg x) (ListsRd.u_lctx x) (dw_ranges d) (dw_rnglists d)
    (if dw_dwo d && (version (u_enc (un_header u)) <? 5) then (o + un_rnglists_base u) mod two64 else o)
    (un_low_pc u).
Proof. exact unit_ranges_list_after_low_pc. Qed.

Theorem unit_ranges_of_index_after_low_pc : forall dbg d u root pre p post i off,
  root_dfs dbg (un_header u) (un_abbrevs u) = Ok root ->
  d_attrs root = pre ++ p :: post -> forallb glue_benign pre = true ->
  nm p = Attr.DW_AT_ranges -> val p = VDebugRngListsIndex i ->
  N.of_nat (length (dw_rnglists d)) < two64 ->
  offset_table (dw_be d) (fmt64 (u_enc (un_header u))) (dw_rnglists d) (un_rnglists_base u) i = Some off ->
  off < two64 ->
  let x := uctx_of d u in
  unit_ranges_all dbg d u =
  ListsRd.ranges_all dbg (ListsRd.u_cfg x) (ListsRd.u_lctx x) (dw_ranges d) (dw_rnglists d) off (un_low_pc u).
Proof. exact unit_ranges_listx_after_low_pc. Qed.

Example ex_glue_benign :
  forallb glue_benign [(mkSpec DW_AT_name 8 0%Z, VString [x61]%byte); (mkSpec DW_AT_low_pc 1 0%Z, VAddr 4096);
                       (mkSpec DW_AT_high_pc 6 0%Z, VData4 16)] = true /\
  glue_benign (mkSpec DW_AT_low_pc 27 0%Z, VDebugAddrIndex 1) = false.
Proof. vm_compute. split; reflexivity. Qed.

Check unit_ranges_of_list_after_low_pc. Check unit_ranges_of_index_after_low_pc.
