(* Properties/C06.v — "Unwind table rows equal DWARF call-frame semantics".
   Statements only; proofs are in Proofs/CfiRunProofs.v.
   Reading guide:
     fde_rows dbg caps f cx      the model of `fde.rows(section, bases, ctx)` + `next_row` until the end, for an
                                 already-parsed CIE/FDE [f] (Model/CfiRun.v mirrors src/read/cfi.rs);
                                 returns ((rows delivered, how it ended), context left behind)
     spec_unl dbg f              the DWARF call-frame machine without storage limits (Spec/CfaSpec.v run_spec)
                                 on the same decoded instruction streams
     spec_of dbg caps f          the same machine with the storage limits layered on as a guard on ITS OWN
                                 occupancy (remembered states + 1 + 1 if the CIE left > 1 rule; number of
                                 registers with a non-default rule)
     within_limits dbg caps f    that occupancy never exceeds caps along the unlimited run
     row_equiv r sr              same [start,end), cfa, args_size, and the same rule for EVERY register
   All theorems hold for every byte string in the CIE and in the FDE, every alignment factor, address size,
   byte order, vendor, storage capacity, and both build modes ([dbg]). *)
From Coq Require Import List NArith ZArith Bool.
From Coq.Strings Require Import Byte.
Require Import GV.Base.Res GV.Base.Byt GV.Base.Ints GV.Spec.LebSpec GV.Model.Leb GV.Model.Prim.
Require Import GV.Spec.CfaSpec GV.Model.CfiRun GV.Proofs.CfiRunProofs.
Import ListNotations.
Local Open Scope N_scope.

(* ---- (1) decoding: every DW_CFA opcode form, both vendors ---- *)

(* enc_wire: the spec encoder of every wire form (high-2-bit forms, extended forms, GNU args_size,
   AArch64 negate_ra_state); wire_ok: operands in range; decode_expect: the instruction the form denotes,
   except that negate_ra_state is UnknownCallFrameInstruction unless the vendor is AArch64.
   LEB128 operands are written by the spec encoders enc_uleb / enc_sleb and read by the model of
   leb128::read::{unsigned,signed}. *)
Theorem insn_decode : forall dbg be asize aarch64 off w rest,
  valid_asize asize = true -> wire_ok asize w = true ->
  parse_insn dbg be asize aarch64 off (enc_wire be asize w ++ rest) = decode_expect aarch64 off w rest.
Proof. exact insn_decode_thm. Qed.

(* the LEB128 operand codecs used above, for the record *)
Theorem uleb_operand_roundtrip : forall dbg v rest,
  v < two64 -> read_uleb128 dbg (enc_uleb v ++ rest) = Ok (v, rest).
Proof. exact enc_uleb_read. Qed.
Theorem sleb_operand_roundtrip : forall dbg z rest,
  in_i64 z = true -> read_sleb128 dbg (enc_sleb z ++ rest) = Ok (z, rest).
Proof. exact enc_sleb_read. Qed.

(* ---- (2) shape of the rows, for ALL instruction byte strings ---- *)

(* contiguous from the FDE's initial address; every row but the final one has start <= end; when the table
   ends normally its last row ends at the FDE's end address — also for the rows delivered before an error *)
Theorem rows_shape : forall dbg caps f cx,
  shape (f_init f) (end_address f)
        (map mspan (fst (fst (fde_rows dbg caps f cx)))) (snd (fst (fde_rows dbg caps f cx))).
Proof. exact rows_shape_thm. Qed.

Theorem rows_starts_nondecreasing : forall dbg caps f cx,
  nondec (map r_start (fst (fst (fde_rows dbg caps f cx)))).
Proof. exact rows_nondecreasing_thm. Qed.

(* ---- the master statement: the model IS the limit-guarded specification ---- *)

Theorem model_is_guarded_spec : forall dbg caps f cx,
  valid_asize (f_asize f) = true -> cap_full (max_stack caps) 0 = false ->
  Forall2 row_equiv (fst (fst (fde_rows dbg caps f cx))) (fst (spec_of dbg caps f)) /\
  snd (fst (fde_rows dbg caps f cx)) = snd (spec_of dbg caps f).
Proof. exact model_eq_spec. Qed.

(* ---- (3) refinement ---- *)

Theorem refines : forall dbg caps f cx rows,
  fst (fde_rows dbg caps f cx) = (rows, Done) ->
  exists rows', spec_unl dbg f = (rows', Done) /\ Forall2 row_equiv rows rows'.
Proof. exact refines_thm. Qed.

(* ---- (4) an error is the specific one ---- *)

Theorem error_is_specific : forall dbg caps f cx rows e,
  fst (fde_rows dbg caps f cx) = (rows, Fail e) ->
  (* the FDE could not have been parsed with this address size *)
  (valid_asize (f_asize f) = false /\ e = EUnsupportedAddressSize /\ rows = []) \/
  (* the DWARF machine itself fails with this error, after the same rows *)
  (exists rows', spec_unl dbg f = (rows', Fail e) /\ Forall2 row_equiv rows rows') \/
  (* a storage limit, and the spec-side occupancy really exceeds it; the rows so far are right *)
  ((e = EStackFull \/ e = ETooManyRegisterRules) /\ within_limits dbg caps f = false /\
   exists rows', Forall2 row_equiv rows rows' /\ prefix rows' (fst (spec_unl dbg f))).
Proof. exact error_is_specific_thm. Qed.

(* ---- (5) no silent limit ---- *)

Theorem no_silent_limit : forall dbg caps f cx,
  valid_asize (f_asize f) = true -> cap_full (max_stack caps) 0 = false ->
  within_limits dbg caps f = true ->
  Forall2 row_equiv (fst (fst (fde_rows dbg caps f cx))) (fst (spec_unl dbg f)) /\
  snd (fst (fde_rows dbg caps f cx)) = snd (spec_unl dbg f).
Proof. exact no_silent_limit_thm. Qed.

(* ---- no panic (and the model's fuel suffices), every input, both build modes ---- *)

Theorem no_panic : forall dbg caps f cx,
  cap_full (max_stack caps) 0 = false ->
  snd (fst (fde_rows dbg caps f cx)) <> Crash /\ snd (fst (fde_rows dbg caps f cx)) <> Fuel.
Proof. exact no_panic_thm. Qed.

(* the instruction parser alone: an error or a strictly shorter rest, never a panic *)
Theorem parse_insn_total : forall dbg be asize aarch64 off bs,
  tame bs (parse_insn dbg be asize aarch64 off bs).
Proof. exact parse_insn_tame. Qed.

(* impl PartialEq for RegisterRuleMap (used by UnwindTableRow ==): with unique registers, `==` holds exactly
   when every register has the same rule — the order of the entries (swap_remove!) does not matter *)
Theorem rule_map_eq_order_insensitive : forall a b,
  nodup a -> nodup b -> (rm_eq a b = true <-> same_map a b).
Proof. exact rm_eq_same_map. Qed.

(* ------------------------------------------------------------------ examples *)
(* the hypotheses are satisfiable by non-trivial instances, and the limits are hit exactly *)

Definition heap : caps := {| max_stack := Some 4%nat; max_rules := Some 192%nat |}.
Definition enc (l : list wire) : list byte := concat (map (enc_wire false 8) l).
Definition mk (cie fde : list wire) : fde_in :=
  {| f_caf := 1; f_daf := -8; f_asize := 8; f_be := false; f_aarch64 := false; f_init := 4096; f_range := 256;
     f_cie_off := 20; f_cie := enc cie; f_fde_off := 60; f_fde := enc fde |}.
Definition any_ctx : ctx := {| c_stack := []; c_initial_rule := None; c_init := true |}.

Definition ex_cie := [WDefCfa 7 8; WOffset0 16 1; WOffset0 3 2].
Definition ex_fde := [WAdvanceLoc0 4; WRememberState; WDefCfaOffset 16; WAdvanceLoc1 10; WRestoreState;
                      WRestore0 3; WAdvanceLoc0 1; WNop].

Example refines_applies :
  exists rows, fst (fde_rows true heap (mk ex_cie ex_fde) any_ctx) = (rows, Done) /\ length rows = 4%nat.
Proof. eexists. vm_compute. split; reflexivity. Qed.

Example hypotheses_hold :
  valid_asize (f_asize (mk ex_cie ex_fde)) = true /\ cap_full (max_stack heap) 0 = false /\
  within_limits true heap (mk ex_cie ex_fde) = true.
Proof. vm_compute. repeat split. Qed.

(* error_is_specific, second disjunct: restore inside the CIE's initial instructions *)
Example spec_error_case :
  fst (fde_rows true heap (mk [WRestore0 3] []) any_ctx) = ([], Fail ECfiInstructionInInvalidContext) /\
  spec_unl true (mk [WRestore0 3] []) = ([], Fail ECfiInstructionInInvalidContext).
Proof. vm_compute. split; reflexivity. Qed.

(* the stack limit (4 rows on the heap storage) is reached exactly and exceeded by one *)
Example stack_limit_exact :
  within_limits true heap (mk [] [WRememberState; WRememberState; WRememberState]) = true /\
  within_limits true heap (mk [] [WRememberState; WRememberState; WRememberState; WRememberState]) = false /\
  snd (fst (fde_rows true heap (mk [] [WRememberState; WRememberState; WRememberState; WRememberState]) any_ctx))
    = Fail EStackFull /\
  (* with more than one initial rule the saved row takes one of the four *)
  within_limits true heap (mk [WOffset0 1 1; WOffset0 2 1] [WRememberState; WRememberState; WRememberState]) = false.
Proof. vm_compute. repeat split. Qed.

(* the rule limit (192 on the heap storage) is reached exactly and exceeded by one *)
Definition many (k : nat) : list wire := map (fun i => WSameValue (N.of_nat i)) (seq 0 k).
Example rule_limit_exact :
  within_limits true heap (mk [] (many 192)) = true /\
  snd (fst (fde_rows true heap (mk [] (many 192)) any_ctx)) = Done /\
  within_limits true heap (mk [] (many 193)) = false /\
  snd (fst (fde_rows true heap (mk [] (many 193)) any_ctx)) = Fail ETooManyRegisterRules.
Proof. vm_compute. repeat split. Qed.

Example decode_hypotheses_hold :
  wire_ok 8 (WExpression 65535 [x01; x02]) = true /\
  wire_ok 8 (WDefCfaSf 7 (-9223372036854775808)) = true /\
  wire_ok 1 (WSetLoc 255) = true /\ wire_ok 1 (WSetLoc 256) = false.
Proof. repeat split. Qed.

Example rule_map_eq_example :
  nodup [(1, ROffset 8); (2, RSameValue)] /\ nodup [(2, RSameValue); (1, ROffset 8)] /\
  rm_eq [(1, ROffset 8); (2, RSameValue)] [(2, RSameValue); (1, ROffset 8)] = true.
Proof. repeat split; repeat constructor; cbn; intuition discriminate. Qed.

(* statement pins *)
Check insn_decode : forall dbg be asize aarch64 off w rest,
  valid_asize asize = true -> wire_ok asize w = true ->
  parse_insn dbg be asize aarch64 off (enc_wire be asize w ++ rest) = decode_expect aarch64 off w rest.
Check rows_shape : forall dbg caps f cx,
  shape (f_init f) (end_address f)
        (map mspan (fst (fst (fde_rows dbg caps f cx)))) (snd (fst (fde_rows dbg caps f cx))).
Check refines : forall dbg caps f cx rows,
  fst (fde_rows dbg caps f cx) = (rows, Done) ->
  exists rows', spec_unl dbg f = (rows', Done) /\ Forall2 row_equiv rows rows'.
Check no_silent_limit : forall dbg caps f cx,
  valid_asize (f_asize f) = true -> cap_full (max_stack caps) 0 = false ->
  within_limits dbg caps f = true ->
  Forall2 row_equiv (fst (fst (fde_rows dbg caps f cx))) (fst (spec_unl dbg f)) /\
  snd (fst (fde_rows dbg caps f cx)) = snd (spec_unl dbg f).
Check no_panic : forall dbg caps f cx,
  cap_full (max_stack caps) 0 = false ->
  snd (fst (fde_rows dbg caps f cx)) <> Crash /\ snd (fst (fde_rows dbg caps f cx)) <> Fuel.
