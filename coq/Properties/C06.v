(* placeholder until Proofs/CfiRunProofs.v lands: keeps the pipeline end-to-end *)
From Coq Require Import List NArith.
Require Import GV.Spec.CfaSpec GV.Model.CfiRun.
Theorem c06_placeholder : True. Proof. exact I. Qed.
