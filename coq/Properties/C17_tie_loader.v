(* Properties/C17_tie_loader.v — translator tie (DESIGN §1.2 item 2) for the loader-wiring clause of C17: the struct definitions,
   `impl Section` blocks and struct literals of src/read/dwarf.rs, regenerated into coq/Gen/Loader.v from the source
   text on every ./check run.  load_ok / borrow_ok / from_sections_ok / kind_ok are the decidable wiring statements
   defined in Proofs/GenAgreeLoader.v (forallb over the generated lists). *)
From Coq Require Import List NArith Bool String.
Require Import GV.Proofs.GenSweep GV.Proofs.GenAgreeSections GV.Proofs.GenAgreeLoader.
Require GV.Gen.Loader GV.Gen.SectionNames GV.Model.IndexRd.
Import ListNotations.
Local Open Scope string_scope.

(* DwarfSections::load: every field, in declaration order, loaded from the SectionId of its own type, whose ELF name is "." ++ field; no id twice *)
Theorem c17_tie_dwarf_sections_load :
  load_ok Loader.dwarf_sections_fields Loader.dwarf_sections_load = true.
Proof. exact GenAgreeLoader.gen_dwarf_sections_load. Qed.

(* DwarfPackageSections::load: the same (cu_index / tu_index: ".debug_" ++ field) *)
Theorem c17_tie_package_sections_load :
  load_ok Loader.package_sections_fields Loader.package_sections_load = true.
Proof. exact GenAgreeLoader.gen_package_sections_load. Qed.

(* what load_ok says, field by field *)
Theorem c17_tie_load_ok_field :
  forall fields l, load_ok fields l = true ->
  map fst l = map fst fields /\
  forall f, In f (map fst l) ->
    exists n, field_section_name fields f = Some n /\ (n = "." ++ f \/ n = ".debug_" ++ f).
Proof. exact GenAgreeLoader.load_ok_field. Qed.

(* DwarfSections::borrow: every field borrows the field of the same name *)
Theorem c17_tie_dwarf_sections_borrow :
  borrow_ok Loader.dwarf_sections_fields Loader.dwarf_sections_borrow = true.
Proof. exact GenAgreeLoader.gen_dwarf_sections_borrow. Qed.

Theorem c17_tie_package_sections_borrow :
  borrow_ok Loader.package_sections_fields Loader.package_sections_borrow = true.
Proof. exact GenAgreeLoader.gen_package_sections_borrow. Qed.

(* Dwarf::from_sections (hence Dwarf::load, DwarfSections::borrow): every Dwarf field assigned, section fields moved from the field of the same name and type, every loaded section used exactly once *)
Theorem c17_tie_dwarf_from_sections :
  from_sections_ok Loader.dwarf_sections_fields Loader.dwarf_fields Loader.dwarf_from_sections = true /\
  sassoc "locations" Loader.dwarf_from_sections
    = Some ("LocationLists::new(sections.debug_loc,sections.debug_loclists)", ["debug_loc"; "debug_loclists"]) /\
  sassoc "ranges" Loader.dwarf_from_sections
    = Some ("RangeLists::new(sections.debug_ranges,sections.debug_rnglists)", ["debug_ranges"; "debug_rnglists"]).
Proof. exact GenAgreeLoader.gen_dwarf_from_sections. Qed.

(* DwarfPackage::from_sections (hence DwarfPackage::load, DwarfPackageSections::borrow) *)
Theorem c17_tie_package_from_sections :
  from_sections_ok Loader.package_sections_fields Loader.package_fields Loader.package_from_sections = true /\
  sassoc "cu_index" Loader.package_from_sections = Some ("sections.cu_index.index()?", ["cu_index"]) /\
  sassoc "tu_index" Loader.package_from_sections = Some ("sections.tu_index.index()?", ["tu_index"]).
Proof. exact GenAgreeLoader.gen_package_from_sections. Qed.

(* Dwarf::borrow (deprecated) *)
Theorem c17_tie_dwarf_borrow :
  slist_eqb (map fst Loader.dwarf_borrow) (map fst Loader.dwarf_fields) = true /\
  forallb dwarf_borrow_entry_ok Loader.dwarf_borrow = true.
Proof. exact GenAgreeLoader.gen_dwarf_borrow. Qed.

(* DwarfPackage::sections: kind K is cut (dwp_range) from the package section with id section_id(K); an arm and own variables per kind; calls in the order of IndexRd.pkg_order *)
Theorem c17_tie_package_unit_kinds :
  forallb kind_ok Loader.package_kind_vars = true /\
  sperm (map fst Loader.package_kind_vars) SectionNames.index_section_ids = true /\
  snodup (map snd Loader.package_kind_vars) = true /\
  List.length Loader.package_ranges = List.length Loader.package_kind_vars /\
  map range_kind Loader.package_ranges = map isect_name IndexRd.pkg_order.
Proof. exact GenAgreeLoader.gen_package_unit_kinds. Qed.

(* the rest of a package unit (as built, pinned) *)
Theorem c17_tie_package_unit_rest :
  Loader.package_lets =
    [ ("debug_str", "self.debug_str.clone()"); ("debug_addr", "parent.debug_addr.clone()");
      ("debug_ranges", "parent.ranges.debug_ranges().clone()"); ("debug_aranges", "self.empty.clone().into()");
      ("debug_line_str", "self.empty.clone().into()"); ("debug_names", "self.empty.clone().into()") ] /\
  map fst Loader.package_unit_literal = map fst Loader.dwarf_fields /\
  forallb (fun e => match sassoc (fst e) Loader.dwarf_fields with
                    | Some t => if is_section_type t then String.eqb (snd e) (fst e) else true
                    | None => false end) Loader.package_unit_literal = true /\
  sassoc "locations" Loader.package_unit_literal = Some "LocationLists::new(debug_loc,debug_loclists)" /\
  sassoc "ranges" Loader.package_unit_literal = Some "RangeLists::new(debug_ranges,debug_rnglists)" /\
  sassoc "file_type" Loader.package_unit_literal = Some "DwarfFileType::Dwo" /\
  sassoc "sup" Loader.package_unit_literal = Some "parent.sup.clone()".
Proof. exact GenAgreeLoader.gen_package_unit_rest. Qed.

(* statement pins *)
Check c17_tie_dwarf_sections_load :
  load_ok Loader.dwarf_sections_fields Loader.dwarf_sections_load = true.
Check c17_tie_package_sections_load :
  load_ok Loader.package_sections_fields Loader.package_sections_load = true.
Check c17_tie_load_ok_field :
  forall fields l, load_ok fields l = true ->
  map fst l = map fst fields /\
  forall f, In f (map fst l) ->
    exists n, field_section_name fields f = Some n /\ (n = "." ++ f \/ n = ".debug_" ++ f).
Check c17_tie_dwarf_sections_borrow :
  borrow_ok Loader.dwarf_sections_fields Loader.dwarf_sections_borrow = true.
Check c17_tie_package_sections_borrow :
  borrow_ok Loader.package_sections_fields Loader.package_sections_borrow = true.
Check c17_tie_dwarf_from_sections :
  from_sections_ok Loader.dwarf_sections_fields Loader.dwarf_fields Loader.dwarf_from_sections = true /\
  sassoc "locations" Loader.dwarf_from_sections
    = Some ("LocationLists::new(sections.debug_loc,sections.debug_loclists)", ["debug_loc"; "debug_loclists"]) /\
  sassoc "ranges" Loader.dwarf_from_sections
    = Some ("RangeLists::new(sections.debug_ranges,sections.debug_rnglists)", ["debug_ranges"; "debug_rnglists"]).
Check c17_tie_package_from_sections :
  from_sections_ok Loader.package_sections_fields Loader.package_fields Loader.package_from_sections = true /\
  sassoc "cu_index" Loader.package_from_sections = Some ("sections.cu_index.index()?", ["cu_index"]) /\
  sassoc "tu_index" Loader.package_from_sections = Some ("sections.tu_index.index()?", ["tu_index"]).
Check c17_tie_dwarf_borrow :
  slist_eqb (map fst Loader.dwarf_borrow) (map fst Loader.dwarf_fields) = true /\
  forallb dwarf_borrow_entry_ok Loader.dwarf_borrow = true.
Check c17_tie_package_unit_kinds :
  forallb kind_ok Loader.package_kind_vars = true /\
  sperm (map fst Loader.package_kind_vars) SectionNames.index_section_ids = true /\
  snodup (map snd Loader.package_kind_vars) = true /\
  List.length Loader.package_ranges = List.length Loader.package_kind_vars /\
  map range_kind Loader.package_ranges = map isect_name IndexRd.pkg_order.
Check c17_tie_package_unit_rest :
  Loader.package_lets =
    [ ("debug_str", "self.debug_str.clone()"); ("debug_addr", "parent.debug_addr.clone()");
      ("debug_ranges", "parent.ranges.debug_ranges().clone()"); ("debug_aranges", "self.empty.clone().into()");
      ("debug_line_str", "self.empty.clone().into()"); ("debug_names", "self.empty.clone().into()") ] /\
  map fst Loader.package_unit_literal = map fst Loader.dwarf_fields /\
  forallb (fun e => match sassoc (fst e) Loader.dwarf_fields with
                    | Some t => if is_section_type t then String.eqb (snd e) (fst e) else true
                    | None => false end) Loader.package_unit_literal = true /\
  sassoc "locations" Loader.package_unit_literal = Some "LocationLists::new(debug_loc,debug_loclists)" /\
  sassoc "ranges" Loader.package_unit_literal = Some "RangeLists::new(debug_ranges,debug_rnglists)" /\
  sassoc "file_type" Loader.package_unit_literal = Some "DwarfFileType::Dwo" /\
  sassoc "sup" Loader.package_unit_literal = Some "parent.sup.clone()".
