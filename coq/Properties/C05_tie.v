(* Properties/C05_tie.v — translator tie (DESIGN §1.2 item 2) for C05: the DwEhPe functions of /repo/src/constants.rs, regenerated
   into coq/Gen/EhPe.v from the source text on every ./check run, are the ones of Model/CfiRd.v. *)
From Coq Require Import List NArith Bool.
Require Import GV.Base.Res.
Require GV.Gen.EhPe GV.Gen.Constants GV.Model.CfiRd.
Require GV.Proofs.GenAgreeEhPe GV.Proofs.GenAgreeConstants.
Local Open Scope N_scope.

(* DwEhPe::is_valid_encoding regenerated from the source = the model's, all 256 pointer-encoding bytes *)
Theorem c05_tie_pe_is_valid :
  forall e, e < 256 -> EhPe.is_valid_encoding e = CfiRd.pe_is_valid e.
Proof. exact GenAgreeEhPe.gen_pe_is_valid_agree. Qed.

(* the two `match` arms of is_valid_encoding separately *)
Theorem c05_tie_pe_known :
  forall e, e < 256 ->
  EhPe.format_known (EhPe.format e) = CfiRd.pe_format_known (CfiRd.pe_format e) /\
  EhPe.application_known (EhPe.application e) = CfiRd.pe_application_known (CfiRd.pe_application e).
Proof. exact GenAgreeEhPe.gen_pe_known_agree. Qed.

(* format() / application() masks, is_absent, is_indirect: every N *)
Theorem c05_tie_pe_format :
  forall e, EhPe.format e = CfiRd.pe_format e.
Proof. exact GenAgreeEhPe.gen_pe_format_agree. Qed.

Theorem c05_tie_pe_application :
  forall e, EhPe.application e = CfiRd.pe_application e.
Proof. exact GenAgreeEhPe.gen_pe_application_agree. Qed.

Theorem c05_tie_pe_is_absent :
  forall e, EhPe.is_absent e = CfiRd.pe_is_absent e.
Proof. exact GenAgreeEhPe.gen_pe_is_absent_agree. Qed.

Theorem c05_tie_pe_is_indirect :
  forall e, EhPe.is_indirect e = CfiRd.pe_is_indirect e.
Proof. exact GenAgreeEhPe.gen_pe_is_indirect_agree. Qed.

(* every encoding byte the model's parse_pointer_encoding lets through is valid by the regenerated predicate (any input) *)
Theorem c05_tie_parse_pointer_encoding :
  forall r e r', CfiRd.parse_pointer_encoding r = Ok (e, r') -> EhPe.is_valid_encoding e = true.
Proof. exact GenAgreeEhPe.gen_parse_pointer_encoding. Qed.

(* DW_EH_PE_omit of constants.rs *)
Theorem c05_tie_constants :
  Constants.DW_EH_PE_omit = CfiRd.DW_EH_PE_omit.
Proof. exact GenAgreeConstants.gen_constants_CfiRd. Qed.

(* statement pins *)
Check c05_tie_pe_is_valid :
  forall e, e < 256 -> EhPe.is_valid_encoding e = CfiRd.pe_is_valid e.
Check c05_tie_pe_known :
  forall e, e < 256 ->
  EhPe.format_known (EhPe.format e) = CfiRd.pe_format_known (CfiRd.pe_format e) /\
  EhPe.application_known (EhPe.application e) = CfiRd.pe_application_known (CfiRd.pe_application e).
Check c05_tie_pe_format :
  forall e, EhPe.format e = CfiRd.pe_format e.
Check c05_tie_pe_application :
  forall e, EhPe.application e = CfiRd.pe_application e.
Check c05_tie_pe_is_absent :
  forall e, EhPe.is_absent e = CfiRd.pe_is_absent e.
Check c05_tie_pe_is_indirect :
  forall e, EhPe.is_indirect e = CfiRd.pe_is_indirect e.
Check c05_tie_parse_pointer_encoding :
  forall r e r', CfiRd.parse_pointer_encoding r = Ok (e, r') -> EhPe.is_valid_encoding e = true.
Check c05_tie_constants :
  Constants.DW_EH_PE_omit = CfiRd.DW_EH_PE_omit.
