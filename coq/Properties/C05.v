(* placeholder until Proofs/CfiRdProofs.v lands: keeps the pipeline end-to-end *)
From Coq Require Import List NArith.
Require Import GV.Model.CfiRd GV.Spec.CfiSpec.
Theorem c05_placeholder : True. Proof. exact I. Qed.
