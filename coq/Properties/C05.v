(* Properties/C05.v — CIE/FDE decoding and address lookup agree with the section contents.
   Statements only; every proof is `exact <lemma of Proofs/CfiRd*.v>`. Model: Model/CfiRd.v
   (mirrors src/read/cfi.rs + DwEhPe of src/constants.rs), spec: Spec/CfiSpec.v.
   `dbg` ranges over both build modes (true = overflow checks on). *)
From Coq Require Import List NArith ZArith Bool Lia.
From Coq.Strings Require Import Byte.
Require Import GV.Base.Res GV.Base.Byt GV.Base.Ints GV.Model.Leb GV.Model.Prim.
Require Import GV.Spec.CfiSpec GV.Model.CfiRd GV.Proofs.CfiRdProofs.
Require GV.Spec.CfaSpec GV.Model.CfiRun GV.Proofs.CfiRunProofs.
Require Import GV.Model.CfiUwi GV.Proofs.CfiUwiProofs.
Require Import GV.Model.CfiRunSetLoc GV.Proofs.CfiRunSetLocProofs.
Import ListNotations.
Local Open Scope N_scope.

(* ================================================================== 1. pointer-encoding bytes *)

(* all 256 bytes: the accept/reject decision is the LSB table *)
Theorem eh_pe_valid_all : forall e, e < 256 -> pe_is_valid e = valid_spec e.
Proof. exact pe_valid_all_lem. Qed.

Example eh_pe_valid_instance :
  27 < 256 /\ pe_is_valid 27 = true /\ pe_is_valid 255 = true /\ pe_is_valid 85 = false /\ pe_is_valid 96 = false.
Proof. repeat split; vm_compute; reflexivity. Qed.

(* format / application / indirect are the three bit fields of the byte, omit is 0xff *)
Theorem eh_pe_decomposition : forall e, e < 256 ->
  pe_format e = fmt_of e /\ pe_application e = app_of e /\
  pe_is_indirect e = negb (ind_of e =? 0) /\ pe_is_absent e = (e =? 255) /\
  e = fmt_of e + app_of e + ind_of e.
Proof. exact pe_decomp_lem. Qed.

(* the parser of an encoding byte accepts exactly the valid ones, on every input *)
Theorem pointer_encoding_accept : forall o b rest,
  parse_pointer_encoding (mkrd o (b :: rest)) =
  if valid_spec (b2n b) then Ok (b2n b, mkrd (o + 1) rest) else Err EUnknownPointerEncoding.
Proof. exact parse_pointer_encoding_spec. Qed.

(* ================================================================== 2. encoded pointers *)

(* parse_encoded_pointer on EVERY reader state and every encoding byte: invalid byte, omit,
   unusable application / missing base give the stated errors; otherwise the result is
   (base_spec + value) truncated to the address size, marked indirect iff bit 7 is set *)
Theorem pointer_decode_all_inputs : forall dbg be enc pp r,
  enc < 256 -> asz_ok (pp_asz pp) ->
  parse_encoded_pointer dbg be enc pp r =
  if negb (valid_spec enc) then Err EUnknownPointerEncoding
  else if enc =? 255 then Err ECannotParseOmitPointerEncoding
  else match base_spec (app_of enc) (pp_asz pp) (pb_of pp) (off r) with
       | None => Err (base_err (app_of enc))
       | Some base =>
           let* (offset, r1) := parse_encoded_value dbg be enc pp r in
           Ok (mkptr (negb (ind_of enc =? 0)) ((base + offset) mod 2 ^ (8 * pp_asz pp)), r1)
       end.
Proof. exact pep_char. Qed.

(* every value that fits its format (absptr, uleb128, udata2/4/8, sleb128, sdata2/4/8) is read
   back unchanged and exactly its bytes are consumed *)
Theorem encoded_value_roundtrip : forall dbg be enc pp o v rest,
  asz_ok (pp_asz pp) -> fmt_valid (pe_format enc) = true ->
  value_fits (pe_format enc) (pp_asz pp) v = true ->
  parse_encoded_value dbg be enc pp (mkrd o (enc_value (pe_format enc) (pp_asz pp) be v ++ rest))
  = Ok (v, mkrd (o + nlen (enc_value (pe_format enc) (pp_asz pp) be v)) rest).
Proof. exact pev_enc. Qed.

(* round trip for every valid encoding x application x indirect: the reader returns the pointer
   the LSB definition (ptr_spec: pcrel = section base + field offset, wrapping at the address
   size; signed formats sign-extended) assigns to the encoded bytes *)
Theorem pointer_roundtrip : forall dbg be enc pp o v rest ind a,
  enc < 256 -> asz_ok (pp_asz pp) -> valid_spec enc = true -> enc <> 255 ->
  value_fits (fmt_of enc) (pp_asz pp) v = true ->
  ptr_spec enc (pp_asz pp) (pb_of pp) o v = Some (ind, a) ->
  parse_encoded_pointer dbg be enc pp (mkrd o (enc_value (fmt_of enc) (pp_asz pp) be v ++ rest))
  = Ok (mkptr ind a, mkrd (o + nlen (enc_value (fmt_of enc) (pp_asz pp) be v)) rest).
Proof. exact pep_enc. Qed.

Example encoded_value_roundtrip_instance :
  (* sleb128 of -2^63 (ten bytes) *)
  let pp := mkpp (mksb None None None) None 8 in
  asz_ok (pp_asz pp) /\ fmt_valid (pe_format 9) = true /\ value_fits (pe_format 9) 8 (2 ^ 63) = true /\
  length (enc_value (pe_format 9) 8 false (2 ^ 63)) = 10%nat.
Proof. cbv zeta. repeat split; try (vm_compute; reflexivity). right; right; right; reflexivity. Qed.

Example pointer_roundtrip_instance :
  (* DW_EH_PE_pcrel|sdata4 with value -16 at offset 8 of a section loaded at 0x1000 *)
  let pp := mkpp (mksb (Some 4096) None None) None 8 in
  27 < 256 /\ asz_ok (pp_asz pp) /\ valid_spec 27 = true /\ 27 <> 255 /\
  value_fits (fmt_of 27) 8 (2 ^ 64 - 16) = true /\
  ptr_spec 27 8 (pb_of pp) 8 (2 ^ 64 - 16) = Some (false, 4088).
Proof. cbv zeta. repeat split; try (vm_compute; reflexivity); try lia. right; right; right; reflexivity. Qed.

(* ================================================================== 3. binary search table *)

(* EhHdrTable::lookup against its actual loop. For ANY table (sorted or not) whose location
   fields decode, the row returned satisfies the search postcondition ... *)
Theorem bsearch_any_table : forall dbg hb h size a o0 rows locs extra,
  tbl_field_size (h_enc h) = Some size -> wf_rows size rows -> rows <> [] ->
  h_count h = N.of_nat (length rows) -> h_table h = mkrd o0 (flat rows ++ extra) ->
  rows_decode dbg hb h size o0 rows locs ->
  N.of_nat (length rows) * (size * 2) < 2 ^ 64 ->
  exists k r, nth_error rows k = Some r /\ search_post locs a k /\
    hdr_lookup dbg hb h a =
    decode_at dbg (h_be h) (h_enc h) (hdr_pp hb h) (o0 + N.of_nat k * (size * 2) + size) (snd r).
Proof. exact bsearch_any_lem. Qed.

(* ... and for a table strictly sorted by location it is the row of the last location <= a
   (row 0 when there is none): any length, the model's own fuel *)
Theorem bsearch_spec : forall dbg hb h size a o0 rows locs extra,
  tbl_field_size (h_enc h) = Some size -> wf_rows size rows -> rows <> [] ->
  h_count h = N.of_nat (length rows) -> h_table h = mkrd o0 (flat rows ++ extra) ->
  rows_decode dbg hb h size o0 rows locs ->
  N.of_nat (length rows) * (size * 2) < 2 ^ 64 ->
  strictly_sorted locs ->
  exists r, nth_error rows (bs_index locs a) = Some r /\
    hdr_lookup dbg hb h a =
    decode_at dbg (h_be h) (h_enc h) (hdr_pp hb h)
      (o0 + N.of_nat (bs_index locs a) * (size * 2) + size) (snd r).
Proof. exact bsearch_spec_lem. Qed.

(* ex_rows / ex_hdr (Proofs/CfiRdProofs.v): a three-row udata4 table, locations 0x100,0x200,0x300 ->
   addresses 0x1010,0x1040,0x1070 *)
Example bsearch_spec_instance :
  tbl_field_size (h_enc ex_hdr) = Some 4 /\ wf_rows 4 ex_rows /\ ex_rows <> [] /\
  h_count ex_hdr = N.of_nat (length ex_rows) /\ h_table ex_hdr = mkrd 12 (flat ex_rows ++ []) /\
  rows_decode true no_bases ex_hdr 4 12 ex_rows [256; 512; 768] /\
  N.of_nat (length ex_rows) * (4 * 2) < 2 ^ 64 /\ strictly_sorted [256; 512; 768] /\
  bs_index [256; 512; 768] 600 = 1%nat /\
  hdr_lookup true no_bases ex_hdr 600 = Ok (Direct 4160) /\
  (* the header is what EhFrameHdr::parse returns for the encoded section *)
  hdr_parse true false no_bases 8
    (enc_hdr false 8 (mkhdr_rec 3 3 3 4096 3 [(256, 4112); (512, 4160); (768, 4208)])) = Ok ex_hdr.
Proof.
  split; [reflexivity|]. split; [repeat constructor|]. split; [discriminate|].
  split; [reflexivity|]. split; [rewrite app_nil_r; reflexivity|].
  split.
  { split; [reflexivity|]. intros i r H.
    destruct i as [|[|[|i]]]; cbn in H; try (injection H as <-; vm_compute; reflexivity).
    destruct i; discriminate. }
  split; [vm_compute; reflexivity|]. split.
  { intros i j Hij Hj. cbn [length] in Hj.
    destruct j as [|[|[|j]]]; try lia; destruct i as [|[|i]]; try lia; vm_compute; reflexivity. }
  split; [reflexivity|]. split; vm_compute; reflexivity.
Qed.

(* ================================================================== 4. entries *)

(* iterating the section the spec encoder produces for a well-formed entry list (any mix of
   .debug_frame v1/3/4 or .eh_frame CIEs, 32/64-bit, every augmentation item list, FDEs and
   CIEs in any order) reports exactly the expected items, with their offsets and fields;
   .debug_frame zero lengths are skipped, an .eh_frame zero terminator stops the iteration
   (both are built into exp_items) *)
Theorem entries_roundtrip : forall dbg c es items,
  wf_entries c es 0 es -> exp_items c es 0 es = Some items ->
  entries_all dbg c (enc_section (sp_of c) es) = Ok (items, None).
Proof. intros dbg c es items. exact (entries_all_enc c es dbg items). Qed.

(* each FDE is bound to the CIE its pointer designates (shared, interleaved, before or after
   it in .debug_frame) and decodes to the expected addresses, LSDA and instruction window *)
Theorem fde_bound_to_cie : forall dbg c es f cr o aug fd,
  cie_at es (f_cie f) = Some cr ->
  wf_cie c cr -> body_fits (c_fmt64 cr) (cie_body c cr) ->
  let co := co_of c es f in
  exp_aug c cr (cie_dpos c cr (tail_off c (c_fmt64 cr) co)) = Some aug ->
  let ci := exp_cie c cr co (blen (cie_body c cr)) (tail_off c (c_fmt64 cr) co) aug in
  exp_fde c cr ci f o (blen (fde_body c cr co o f)) (tail_off c (f_fmt64 f) o) = Some fd ->
  fde_parse dbg c (enc_section (sp_of c) es) (exp_pfde c es o f) = Ok fd.
Proof. intros dbg c es. exact (fde_parse_enc c es dbg). Qed.

(* ex_cfg / ex_es (Proofs/CfiRdProofs.v): .eh_frame at 0x1000: CIE "zPLR" (personality pcrel|sdata4
   indirect, LSDA funcrel|udata4, addresses pcrel|sdata4), two FDEs (one 64-bit), a zero terminator,
   then an FDE that must not be reported *)
Example entries_roundtrip_instance :
  wf_entries ex_cfg ex_es 0 ex_es /\
  exists c1 p1 p2, exp_items ex_cfg ex_es 0 ex_es = Some [ICie c1; IFde p1; IFde p2] /\
    ci_aug c1 = Some (mkaug (Some 67) (Some (155, Indirect 4051)) (Some 27) false) /\
    pf_cie_off p1 = 0 /\ pf_off p2 = 51 /\ pf_fmt64 p2 = true /\ pf_cie_off p2 = 0.
Proof.
  split.
  - cbn [wf_entries ex_es]. repeat split; try (vm_compute; reflexivity); try (vm_compute; intros; discriminate);
      try (right; right; right; reflexivity); try (left; reflexivity).
  - eexists. eexists. eexists. split; [vm_compute; reflexivity|]. repeat split.
Qed.

Example fde_bound_to_cie_instance :
  exists fd, fde_parse true ex_cfg (enc_section (sp_of ex_cfg) ex_es)
               (exp_pfde ex_cfg ex_es 28 (mkfde_rec false 0%nat 4096 32 5 [] (map n2b [0; 0]))) = Ok fd /\
             fd_init fd = 8228 /\ fd_range fd = 32 /\ fd_aug fd = Some (Some (Direct 8233)) /\ ci_off (fd_cie fd) = 0.
Proof. eexists. split; [vm_compute; reflexivity|]. repeat split. Qed.

(* ================================================================== 5. linear lookup *)

(* fde_for_address IS the exhaustive scan over entries(), for every byte string whose traversal
   returns (which it always does, see entries_total): first FDE in section order that parses and
   covers the address; an earlier failing entry ends the scan with its error *)
Theorem linear_lookup_is_scan : forall dbg c sec a items e,
  entries_all dbg c sec = Ok (items, e) ->
  fde_for_address dbg c sec a = scan_items dbg c sec a items e.
Proof. exact fde_for_address_scan. Qed.

(* for sections all of whose entries and FDEs parse: Ok f iff f is the first FDE in section
   order covering a (end address wrapped at the CIE's address size); NoUnwindInfoForAddress iff none *)
Theorem linear_lookup : forall dbg c sec a items fds,
  asz_ok (sc_asz c) ->
  entries_all dbg c sec = Ok (items, None) ->
  parsed_fdes dbg c sec items = Some fds ->
  fde_for_address dbg c sec a =
  match find (fun f => covers f a) fds with Some f => Ok f | None => Err ENoUnwindInfoForAddress end.
Proof. exact linear_lookup_lem. Qed.

Example linear_lookup_instance :
  let sec := enc_section (sp_of ex_cfg) ex_es in
  asz_ok (sc_asz ex_cfg) /\
  exists items f1 f2, entries_all true ex_cfg sec = Ok (items, None) /\
    parsed_fdes true ex_cfg sec items = Some [f1; f2] /\
    covers f1 8230 = true /\ covers f2 8230 = false /\
    (exists f, fde_for_address true ex_cfg sec 8230 = Ok f /\ fd_off f = 28) /\
    fde_for_address true ex_cfg sec 8260 = Err ENoUnwindInfoForAddress.
Proof.
  cbv zeta. split; [right; right; right; reflexivity|].
  eexists. eexists. eexists. split; [vm_compute; reflexivity|]. split; [vm_compute; reflexivity|].
  split; [vm_compute; reflexivity|]. split; [vm_compute; reflexivity|].
  split; [eexists; split; vm_compute; reflexivity|vm_compute; reflexivity].
Qed.

(* ================================================================== 6. header path *)

(* for a well-formed header (wf_hdr: table strictly sorted by location, one row per FDE holding its
   initial address and eh_frame_ptr + its offset; FDE ranges neither wrap nor overlap) over a
   section whose traversal completes and whose FDEs all parse, the binary-search path returns
   exactly what the linear search returns, for EVERY address: the same FDE, or
   NoUnwindInfoForAddress for both *)
Theorem hdr_lookup_agrees : forall dbg hb h c sec a items fds size o0 rows locs extra tfds e,
  asz_ok (sc_asz c) ->
  entries_all dbg c sec = Ok (items, None) ->
  parsed_fdes dbg c sec items = Some fds ->
  wf_hdr dbg hb h fds size o0 rows locs extra tfds e ->
  hdr_fde_for_address dbg hb h c sec a = fde_for_address dbg c sec a.
Proof. exact hdr_lookup_agrees_lem. Qed.

Example hdr_lookup_agrees_instance :
  asz_ok (sc_asz ex_cfg) /\
  (exists items, entries_all true ex_cfg ex_sec = Ok (items, None) /\
                 parsed_fdes true ex_cfg ex_sec items = Some ex_fds) /\
  wf_hdr true no_bases ex_hdr2 ex_fds 4 12 ex_rows2 [3907; 8228] [] (rev ex_fds) 4096 /\
  (exists f, hdr_fde_for_address true no_bases ex_hdr2 ex_cfg ex_sec 8240 = Ok f /\ fd_off f = 28) /\
  hdr_fde_for_address true no_bases ex_hdr2 ex_cfg ex_sec 5000 = Err ENoUnwindInfoForAddress.
Proof.
  split; [right; right; right; reflexivity|].
  split; [eexists; split; [vm_compute; reflexivity|vm_compute; reflexivity]|].
  split.
  { constructor.
    - reflexivity.
    - repeat constructor.
    - discriminate.
    - reflexivity.
    - rewrite app_nil_r. reflexivity.
    - split; [reflexivity|]. intros i r H.
      destruct i as [|[|i]]; cbn in H; try (injection H as <-; vm_compute; reflexivity).
      destruct i; discriminate.
    - vm_compute. reflexivity.
    - intros i j Hij Hj. cbn [length] in Hj.
      destruct j as [|[|j]]; try lia; destruct i as [|i]; try lia; vm_compute; reflexivity.
    - reflexivity.
    - reflexivity.
    - intros i r f Hr Hf. destruct i as [|[|i]]; cbn in Hr, Hf.
      + injection Hr as <-. injection Hf as <-. split; vm_compute; reflexivity.
      + injection Hr as <-. injection Hf as <-. split; vm_compute; reflexivity.
      + destruct i; discriminate.
    - intros f Hf. apply in_rev. exact Hf.
    - intros f Hf. apply in_rev in Hf. exact Hf.
    - intros f Hf. destruct Hf as [<-|[<-|[]]]; vm_compute; reflexivity.
    - intros i j fi fj Hij Hi Hj.
      destruct j as [|[|j]]; [lia| |destruct j; discriminate].
      destruct i as [|i]; [|lia]. cbn in Hi, Hj. injection Hi as <-. injection Hj as <-.
      vm_compute. discriminate. }
  split; [eexists; split; [vm_compute; reflexivity|reflexivity]|vm_compute; reflexivity].
Qed.

(* soundness of the header path for EVERY header, table and section (no well-formedness): what it
   returns is the FDE found at the offset the chosen row designates, and that FDE covers the address *)
Theorem hdr_path_sound : forall dbg hb h c sec a fd,
  asz_ok (sc_asz c) ->
  hdr_fde_for_address dbg hb h c sec a = Ok fd ->
  exists p o, hdr_lookup dbg hb h a = Ok p /\ pointer_to_offset dbg h p = Ok o /\
              fde_from_offset dbg c sec o = Ok fd /\ covers fd a = true.
Proof. exact hdr_fde_for_address_sound. Qed.

(* ================================================================== 7. no panic, termination *)

(* CfiEntriesIter over ALL byte strings, both build modes: never panics, the stated fuel suffices *)
Theorem entries_total : forall dbg c sec, asz_ok (sc_asz c) ->
  entries_all dbg c sec <> Panic /\ entries_all dbg c sec <> OutOfFuel.
Proof. exact entries_all_safe_lem. Qed.

Theorem fde_parse_total : forall dbg c sec p, asz_ok (sc_asz c) ->
  fde_parse dbg c sec p <> Panic /\ fde_parse dbg c sec p <> OutOfFuel.
Proof. exact fde_parse_safe. Qed.

Theorem fde_for_address_total : forall dbg c sec a, asz_ok (sc_asz c) ->
  fde_for_address dbg c sec a <> Panic /\ fde_for_address dbg c sec a <> OutOfFuel.
Proof. exact fde_for_address_safe_lem. Qed.

Theorem hdr_parse_total : forall dbg be hb asz sec, asz_ok asz ->
  hdr_parse dbg be hb asz sec <> Panic /\ hdr_parse dbg be hb asz sec <> OutOfFuel.
Proof. exact hdr_parse_safe_lem. Qed.

(* EhHdrTableIter (`while let Some(row) = it.next()?`) on any table bytes and any fde_count *)
Theorem table_iter_total : forall dbg hb h, asz_ok (h_asz h) ->
  tbl_all dbg hb h <> Panic /\ tbl_all dbg hb h <> OutOfFuel.
Proof. exact tbl_all_safe_lem. Qed.

(* after a row that fails to parse the iterator is exhausted: the next call returns None *)
Theorem table_iter_stops_after_error : forall dbg hb h st e st',
  tbl_next dbg hb h st = Ok (SErr e, st') -> tbl_next dbg hb h st' = Ok (SNone, st').
Proof. exact tbl_next_stops. Qed.

Example table_iter_stops_after_error_instance :
  (* fde_count 2, but only one byte of table *)
  exists st', tbl_next true no_bases (mkhdr 8 false (Direct 0) 2 3 (mkrd 12 [n2b 7])) (mkrd 12 [n2b 7], 2)
              = Ok (SErr EUnexpectedEof, st').
Proof. eexists. vm_compute. reflexivity. Qed.

Theorem table_nth_total : forall dbg hb h n, asz_ok (h_asz h) ->
  tbl_nth dbg hb h n <> Panic /\ tbl_nth dbg hb h n <> OutOfFuel.
Proof. exact tbl_nth_safe_lem. Qed.

(* EhHdrTable::lookup returns within log2(fde_count)+1 steps on EVERY table (sorted or not,
   any fde_count, any bytes) and never panics *)
Theorem lookup_total : forall dbg hb h a, asz_ok (h_asz h) ->
  hdr_lookup dbg hb h a <> Panic /\ hdr_lookup dbg hb h a <> OutOfFuel.
Proof. exact hdr_lookup_safe_lem. Qed.

(* the whole header path (lookup, pointer_to_offset, fde_from_offset, contains): total on every
   header, table, section and address, both build modes *)
Theorem hdr_fde_for_address_total : forall dbg hb h c sec a,
  asz_ok (h_asz h) -> asz_ok (sc_asz c) ->
  hdr_fde_for_address dbg hb h c sec a <> Panic /\ hdr_fde_for_address dbg hb h c sec a <> OutOfFuel.
Proof. exact hdr_fde_for_address_safe_lem. Qed.

(* the two inputs that used to overflow (fixed in c0bb189 / f378977) are plain errors now:
   fde_count = 2^63 with 16-byte rows, and a table address below eh_frame_ptr *)
Theorem extreme_fde_count_is_an_error : forall dbg,
  exists h, hdr_parse dbg false no_bases 8 mul_witness = Ok h /\ hdr_table h = Some h /\
            hdr_lookup dbg no_bases h 5 = Err EUnexpectedEof.
Proof. exact lookup_mul_overflow_witness. Qed.

Theorem address_below_section_is_an_error : forall dbg,
  exists h p, hdr_parse dbg false no_bases 8 s1_witness = Ok h /\
              hdr_lookup dbg no_bases h 32 = Ok p /\
              pointer_to_offset dbg h p = Err EOffsetOutOfBounds /\
              hdr_fde_for_address dbg no_bases h (mkcfg true false 8 no_bases) [] 32 = Err EOffsetOutOfBounds.
Proof. exact pointer_to_offset_underflow_witness. Qed.

Example total_hypotheses_instance : asz_ok (sc_asz ex_cfg) /\ asz_ok (h_asz ex_hdr).
Proof. split; right; right; right; reflexivity. Qed.

(* ================================================================== 8. unwind information for an address *)
(* Model/CfiUwi.v: UnwindSection::unwind_info_for_address = fde_for_address (this property's lookup
   model) followed by FrameDescriptionEntry::unwind_info_for_address (C06's CfiRun table evaluator),
   linked by the adapter fde_in_of. Rows, contexts, storage limits (caps), spec_of / spec_unl /
   within_limits / row_equiv are C06's (Model/CfiRun.v, Spec/CfaSpec.v, Proofs/CfiRunProofs.v).
   uwi_result_spec a srows o res: if some spec row contains a, res = Ok r with r row_equiv to the FIRST
   such row sr (same [start,end), CFA, args size and the same rule for EVERY register) and
   sr.start <= a < sr.end; otherwise res is how the table ended (Done -> NoUnwindInfoForAddress,
   Fail e -> e). *)

(* for EVERY byte string: the lookup, then the first row of the FDE's table containing the address *)
Theorem unwind_info_is_lookup_then_table : forall dbg cp c aa sec cx a,
  fst (unwind_info_for_address dbg cp c aa sec cx a) =
  match fde_for_address dbg c sec a with
  | Ok fd => let f := fde_in_of (sc_be c) aa fd in
             pick a (fst (fst (CfiRun.fde_rows dbg cp f cx))) (snd (fst (CfiRun.fde_rows dbg cp f cx)))
  | Err e => Err e
  | Panic => Panic
  | OutOfFuel => OutOfFuel
  end.
Proof. exact uwi_compose. Qed.

(* for a section whose traversal completes and whose FDEs all parse: no FDE covers a ->
   NoUnwindInfoForAddress; otherwise the FIRST FDE IN SECTION ORDER that covers a is used (this is
   the statement for overlapping FDEs) and the result is the row of ITS call-frame table (C06 spec,
   storage limits as a guard) containing a, or the specific error that stopped the table before
   reaching a. Scoped to sections where no DW_CFA_set_loc with an encoded operand is reached
   (section_setloc_plain: that is where the adapter is exact; see set_loc_* below). *)
Theorem unwind_info_row_of_spec_table : forall dbg cp c aa sec cx a items fds,
  asz_ok (sc_asz c) -> CfiRun.cap_full (CfaSpec.max_stack cp) 0 = false ->
  entries_all dbg c sec = Ok (items, None) ->
  parsed_fdes dbg c sec items = Some fds ->
  section_setloc_plain dbg c aa fds ->
  match find (fun f => covers f a) fds with
  | None => fst (unwind_info_for_address dbg cp c aa sec cx a) = Err ENoUnwindInfoForAddress
  | Some fd =>
      let f := fde_in_of (sc_be c) aa fd in
      uwi_result_spec a (fst (CfiRunProofs.spec_of dbg cp f)) (snd (CfiRunProofs.spec_of dbg cp f))
                      (fst (unwind_info_for_address dbg cp c aa sec cx a))
  end.
Proof. exact uwi_spec_scoped_lem. Qed.

(* the same against the DWARF machine WITHOUT storage limits, when its occupancy fits the storage *)
Theorem unwind_info_row_of_unlimited_table : forall dbg cp c aa sec cx a items fds fd,
  asz_ok (sc_asz c) -> CfiRun.cap_full (CfaSpec.max_stack cp) 0 = false ->
  entries_all dbg c sec = Ok (items, None) ->
  parsed_fdes dbg c sec items = Some fds ->
  find (fun f => covers f a) fds = Some fd ->
  let f := fde_in_of (sc_be c) aa fd in
  CfiRunProofs.within_limits dbg cp f = true ->
  uwi_result_spec a (fst (CfiRunProofs.spec_unl dbg f)) (snd (CfiRunProofs.spec_unl dbg f))
                  (fst (unwind_info_for_address dbg cp c aa sec cx a)).
Proof. exact uwi_spec_unl_lem. Qed.

(* it succeeds (with a row containing a) iff some FDE covers a — provided the table of the first
   covering FDE evaluates to its end (otherwise the theorem above names the error) *)
Theorem unwind_info_succeeds_iff_covered : forall dbg cp c aa sec cx a items fds,
  asz_ok (sc_asz c) ->
  entries_all dbg c sec = Ok (items, None) ->
  parsed_fdes dbg c sec items = Some fds ->
  (forall fd, find (fun f => covers f a) fds = Some fd ->
              snd (fst (CfiRun.fde_rows dbg cp (fde_in_of (sc_be c) aa fd) cx)) = CfaSpec.Done) ->
  ((exists r, fst (unwind_info_for_address dbg cp c aa sec cx a) = Ok r /\ CfiRun.row_contains r a = true)
   <-> exists fd, In fd fds /\ covers fd a = true).
Proof. exact uwi_succeeds_iff_lem. Qed.

Example unwind_info_instance :
  asz_ok (sc_asz ex_uw_cfg) /\ CfiRun.cap_full (CfaSpec.max_stack ex_heap) 0 = false /\
  (exists items, entries_all true ex_uw_cfg ex_uw_sec = Ok (items, None) /\
                 parsed_fdes true ex_uw_cfg ex_uw_sec items = Some ex_uw_fds) /\
  section_setloc_plain true ex_uw_cfg false ex_uw_fds /\
  (* 0x200d lies in BOTH FDEs: the first in section order is used, third row of its table *)
  map (fun f => covers f 8205) ex_uw_fds = [true; true] /\
  (exists r, fst (unwind_info_for_address true ex_heap ex_uw_cfg false ex_uw_sec ex_ctx 8205) = Ok r /\
             CfiRun.r_start r = 8204 /\ CfiRun.r_end r = 8256 /\ CfiRun.r_cfa r = CfaSpec.CfaRegOff 7 16 /\
             CfiRun.rm_get 3 (CfiRun.r_regs r) = Some (CfaSpec.ROffset (-16))) /\
  (* 0x204e only in the second *)
  (exists r, fst (unwind_info_for_address true ex_heap ex_uw_cfg false ex_uw_sec ex_ctx 8270) = Ok r /\
             CfiRun.r_start r = 8200 /\ CfiRun.r_end r = 8300 /\ CfiRun.r_cfa r = CfaSpec.CfaRegOff 7 99) /\
  fst (unwind_info_for_address true ex_heap ex_uw_cfg false ex_uw_sec ex_ctx 9000) = Err ENoUnwindInfoForAddress /\
  forallb (fun fd => CfiRunProofs.within_limits true ex_heap (fde_in_of false false fd)) ex_uw_fds = true.
Proof.
  split; [right; right; right; reflexivity|]. split; [reflexivity|].
  split; [eexists; split; [vm_compute; reflexivity|reflexivity]|].
  split. { intros fd [<-|[<-|[]]]; vm_compute; reflexivity. }
  split; [vm_compute; reflexivity|].
  split; [eexists; split; [vm_compute; reflexivity|repeat split]|].
  split; [eexists; split; [vm_compute; reflexivity|repeat split]|].
  split; vm_compute; reflexivity.
Qed.

(* the header path uses whatever FDE the chosen table row designates (lookup -> pointer_to_offset ->
   fde_from_offset), for EVERY header, table and section, overlapping FDEs or not: that FDE's table
   when it covers the address, NoUnwindInfoForAddress when it does not *)
Theorem hdr_unwind_info_uses_designated_fde : forall dbg cp hb h c aa sec cx a,
  asz_ok (sc_asz c) ->
  fst (hdr_unwind_info_for_address dbg cp hb h c aa sec cx a) =
  (let* p := hdr_lookup dbg hb h a in
   let* o := pointer_to_offset dbg h p in
   let* fd := fde_from_offset dbg c sec o in
   if covers fd a then
     let f := fde_in_of (sc_be c) aa fd in
     pick a (fst (fst (CfiRun.fde_rows dbg cp f cx))) (snd (fst (CfiRun.fde_rows dbg cp f cx)))
   else Err ENoUnwindInfoForAddress).
Proof. exact hdr_uwi_designated_lem. Qed.

(* well-formed header over disjoint FDEs: both ways of asking give the same row and leave the same context *)
Theorem unwind_info_paths_agree : forall dbg cp hb h c aa sec cx a items fds size o0 rows locs extra tfds e,
  asz_ok (sc_asz c) ->
  entries_all dbg c sec = Ok (items, None) ->
  parsed_fdes dbg c sec items = Some fds ->
  wf_hdr dbg hb h fds size o0 rows locs extra tfds e ->
  hdr_unwind_info_for_address dbg cp hb h c aa sec cx a = unwind_info_for_address dbg cp c aa sec cx a.
Proof. exact uwi_paths_agree_lem. Qed.

(* (instance of the hypotheses: hdr_lookup_agrees_instance above, same wf_hdr) *)

Theorem unwind_info_total : forall dbg cp c aa sec cx a,
  asz_ok (sc_asz c) -> CfiRun.cap_full (CfaSpec.max_stack cp) 0 = false ->
  fst (unwind_info_for_address dbg cp c aa sec cx a) <> Panic /\
  fst (unwind_info_for_address dbg cp c aa sec cx a) <> OutOfFuel.
Proof. exact uwi_total_lem. Qed.

(* ---- DW_CFA_set_loc under the CIE's FDE address encoding ---- *)
(* its target is what pointer_roundtrip assigns to the operand bytes with the section's bases, the
   operand's own offset and no function base; indirect encodings are refused *)
Theorem set_loc_roundtrip : forall dbg c f enc o v rest ind a,
  fde_addr_enc f = Some enc ->
  enc < 256 -> asz_ok (ci_asz (fd_cie f)) -> valid_spec enc = true -> enc <> 255 ->
  value_fits (fmt_of enc) (ci_asz (fd_cie f)) v = true ->
  ptr_spec enc (ci_asz (fd_cie f)) (pb_of (mkpp (sc_bases c) None (ci_asz (fd_cie f)))) o v = Some (ind, a) ->
  parse_set_loc dbg c f
    (mkrd o (enc_value (fmt_of enc) (ci_asz (fd_cie f)) (sc_be c) v ++ rest)) =
  if ind then Err EUnsupportedIndirectPointer
  else Ok (a, mkrd (o + nlen (enc_value (fmt_of enc) (ci_asz (fd_cie f)) (sc_be c) v)) rest).
Proof. exact set_loc_roundtrip_lem. Qed.

Theorem set_loc_all_inputs : forall dbg c f enc r,
  fde_addr_enc f = Some enc -> enc < 256 -> asz_ok (ci_asz (fd_cie f)) ->
  parse_set_loc dbg c f r =
  let pp := mkpp (sc_bases c) None (ci_asz (fd_cie f)) in
  if negb (valid_spec enc) then Err EUnknownPointerEncoding
  else if enc =? 255 then Err ECannotParseOmitPointerEncoding
  else match base_spec (app_of enc) (pp_asz pp) (pb_of pp) (off r) with
       | None => Err (base_err (app_of enc))
       | Some base =>
           let* (offset, r1) := parse_encoded_value dbg (sc_be c) enc pp r in
           if negb (ind_of enc =? 0) then Err EUnsupportedIndirectPointer
           else Ok ((base + offset) mod 2 ^ (8 * pp_asz pp), r1)
       end.
Proof. exact set_loc_all_inputs_lem. Qed.

Theorem set_loc_plain_address : forall dbg c f o v rest,
  fde_addr_enc f = None -> asz_ok (ci_asz (fd_cie f)) -> v < 2 ^ (8 * ci_asz (fd_cie f)) ->
  parse_set_loc dbg c f (mkrd o (un_bytes (N.to_nat (ci_asz (fd_cie f))) (sc_be c) v ++ rest)) =
  Ok (v, mkrd (o + ci_asz (fd_cie f)) rest).
Proof. exact set_loc_plain_lem. Qed.

Example set_loc_instance :
  (* FDE at 0x1000+21.., first instruction DW_CFA_set_loc with pcrel|sdata4 operand 0x200 at section offset 35 *)
  exists items f, entries_all true ex_uw_cfg ex_sl_sec = Ok (items, None) /\
    parsed_fdes true ex_uw_cfg ex_sl_sec items = Some [f] /\
    fde_addr_enc f = Some 27 /\ asz_ok (ci_asz (fd_cie f)) /\ valid_spec 27 = true /\
    value_fits (fmt_of 27) (ci_asz (fd_cie f)) 512 = true /\
    ptr_spec 27 (ci_asz (fd_cie f)) (pb_of (mkpp (sc_bases ex_uw_cfg) None (ci_asz (fd_cie f)))) 35 512 = Some (false, 4643) /\
    exists r1, first_set_loc true ex_uw_cfg f = Ok (Some (4643, r1)).
Proof.
  eexists. eexists. split; [vm_compute; reflexivity|]. split; [vm_compute; reflexivity|].
  split; [reflexivity|]. split; [right; right; right; reflexivity|].
  split; [vm_compute; reflexivity|]. split; [vm_compute; reflexivity|]. split; [vm_compute; reflexivity|].
  eexists. vm_compute. reflexivity.
Qed.


(* ================================================================== 8b. ... THROUGH encoded DW_CFA_set_loc *)
(* Model/CfiRunSetLoc.v extends the table evaluation to FDEs whose CIE gives an FDE address encoding ('R'):
   the FDE's instruction iterator decodes a DW_CFA_set_loc operand with parse_encoded_pointer under that encoding
   (bases.eh_frame, the operand's own offset for pcrel, no function base; indirect refused), everything else as
   C06's CfiRun; the CIE's initial instructions keep a plain address. unwind_info_for_address_sl /
   hdr_unwind_info_for_address_sl / fde_rows_sl / fde_uwi_sl are the extended functions (tied by c05.setloctab);
   fde_items_sl = what the FDE's iterator yields; spec_of_sl = C06's DWARF machine (limits as a guard) on the CIE
   items and those FDE items. The theorems of section 8 hold for them WITHOUT section_setloc_plain. *)

(* the extended evaluator refines the DWARF machine, for EVERY FDE record (any bytes, any encoding byte) *)
Theorem table_through_set_loc_refines : forall dbg cp c aa fd cx,
  CfiRun.valid_asize (ci_asz (fd_cie fd)) = true ->
  CfiRun.cap_full (CfaSpec.max_stack cp) 0 = false ->
  Forall2 CfiRunProofs.row_equiv (fst (fst (fde_rows_sl dbg cp c aa fd cx))) (fst (spec_of_sl dbg cp c aa fd)) /\
  snd (fst (fde_rows_sl dbg cp c aa fd cx)) = snd (spec_of_sl dbg cp c aa fd).
Proof. exact model_eq_spec_sl. Qed.

(* unwind_info_is_lookup_then_table, any encoding, EVERY byte string *)
Theorem unwind_info_is_lookup_then_table_any_encoding : forall dbg cp c aa sec cx a,
  fst (unwind_info_for_address_sl dbg cp c aa sec cx a) =
  match fde_for_address dbg c sec a with
  | Ok fd => pick a (fst (fst (fde_rows_sl dbg cp c aa fd cx))) (snd (fst (fde_rows_sl dbg cp c aa fd cx)))
  | Err e => Err e
  | Panic => Panic
  | OutOfFuel => OutOfFuel
  end.
Proof. exact uwi_sl_compose. Qed.

(* unwind_info_row_of_spec_table WITHOUT section_setloc_plain: first covering FDE in section order, the row of ITS
   call-frame table containing the address, set_loc targets being the pointers the CIE's encoding assigns to the
   operands; a set_loc below the current row's start is InvalidCfiSetLoc (CfaSpec.spec_step), an indirect or
   unknown encoding / missing base the specific pointer error (set_loc_all_inputs) *)
Theorem unwind_info_row_of_spec_table_any_encoding : forall dbg cp c aa sec cx a items fds,
  asz_ok (sc_asz c) -> CfiRun.cap_full (CfaSpec.max_stack cp) 0 = false ->
  entries_all dbg c sec = Ok (items, None) ->
  parsed_fdes dbg c sec items = Some fds ->
  match find (fun f => covers f a) fds with
  | None => fst (unwind_info_for_address_sl dbg cp c aa sec cx a) = Err ENoUnwindInfoForAddress
  | Some fd =>
      uwi_result_spec a (fst (spec_of_sl dbg cp c aa fd)) (snd (spec_of_sl dbg cp c aa fd))
                      (fst (unwind_info_for_address_sl dbg cp c aa sec cx a))
  end.
Proof. exact uwi_sl_spec_lem. Qed.

Theorem hdr_unwind_info_uses_designated_fde_any_encoding : forall dbg cp hb h c aa sec cx a,
  asz_ok (sc_asz c) ->
  fst (hdr_unwind_info_for_address_sl dbg cp hb h c aa sec cx a) =
  (let* p := hdr_lookup dbg hb h a in
   let* o := pointer_to_offset dbg h p in
   let* fd := fde_from_offset dbg c sec o in
   if covers fd a then
     pick a (fst (fst (fde_rows_sl dbg cp c aa fd cx))) (snd (fst (fde_rows_sl dbg cp c aa fd cx)))
   else Err ENoUnwindInfoForAddress).
Proof. exact hdr_uwi_sl_designated_lem. Qed.

Theorem unwind_info_paths_agree_any_encoding : forall dbg cp hb h c aa sec cx a items fds size o0 rows locs extra tfds e,
  asz_ok (sc_asz c) ->
  entries_all dbg c sec = Ok (items, None) ->
  parsed_fdes dbg c sec items = Some fds ->
  wf_hdr dbg hb h fds size o0 rows locs extra tfds e ->
  hdr_unwind_info_for_address_sl dbg cp hb h c aa sec cx a = unwind_info_for_address_sl dbg cp c aa sec cx a.
Proof. exact uwi_sl_paths_agree_lem. Qed.

(* the extension agrees with C06's evaluator / section 8's composition where those are exact: no 'R' encoding
   (every byte string: rows, outcome, context left behind), and — as item lists — FDEs none of whose instructions
   starts with opcode 0x01 *)
Theorem set_loc_extension_agrees_without_encoding : forall dbg cp c aa fd cx a,
  fde_addr_enc fd = None ->
  fde_rows_sl dbg cp c aa fd cx = CfiRun.fde_rows dbg cp (fde_in_of (sc_be c) aa fd) cx /\
  fde_uwi_sl dbg cp c aa fd cx a = CfiRun.unwind_info_for_address dbg cp (fde_in_of (sc_be c) aa fd) cx a.
Proof. intros. split; [apply fde_rows_sl_plain|apply fde_uwi_sl_plain]; assumption. Qed.

Theorem unwind_info_extension_agrees : forall dbg cp c aa sec cx a,
  (forall fd, fde_for_address dbg c sec a = Ok fd -> fde_addr_enc fd = None) ->
  unwind_info_for_address_sl dbg cp c aa sec cx a = unwind_info_for_address dbg cp c aa sec cx a.
Proof. exact uwi_sl_agrees_plain. Qed.

Theorem set_loc_free_same_items : forall dbg c aa fd,
  setloc_free dbg c aa fd = true ->
  fde_items_sl dbg c aa fd =
  CfiRun.decode dbg (CfiRun.f_dparams (fde_in_of (sc_be c) aa fd)) (off (fd_instr fd)) (win (fd_instr fd)).
Proof. exact setloc_free_items. Qed.

(* set_loc inside the table: at any position of the FDE's instruction stream, opcode 0x01 followed by the
   encoding of v yields the instruction SetLoc(a) with a = ptr_spec(enc, bases, offset of the operand, v) — the
   pointer of pointer_roundtrip / set_loc_roundtrip — and the stream continues behind the operand; an indirect
   encoding ends it with UnsupportedIndirectPointer *)
Theorem set_loc_in_table : forall dbg c aa fd enc o v rest ind a,
  fde_addr_enc fd = Some enc ->
  enc < 256 -> asz_ok (ci_asz (fd_cie fd)) -> valid_spec enc = true -> enc <> 255 ->
  value_fits (fmt_of enc) (ci_asz (fd_cie fd)) v = true ->
  ptr_spec enc (ci_asz (fd_cie fd)) (pb_of (mkpp (sc_bases c) None (ci_asz (fd_cie fd)))) (o + 1) v = Some (ind, a) ->
  let ev := enc_value (fmt_of enc) (ci_asz (fd_cie fd)) (sc_be c) v in
  dec_g (parse_insn_sl dbg c aa fd) {| CfiRun.it_off := o; CfiRun.it_bytes := n2b 1 :: ev ++ rest |} =
  if ind then [CfaSpec.Bad EUnsupportedIndirectPointer]
  else CfaSpec.It (CfaSpec.ISetLoc a)
       :: dec_g (parse_insn_sl dbg c aa fd) {| CfiRun.it_off := o + 1 + nlen ev; CfiRun.it_bytes := rest |}.
Proof. exact set_loc_in_table_lem. Qed.

(* unwind_info_row_of_unlimited_table for the extension: against the DWARF machine WITHOUT storage limits on the
   items the FDE's iterator yields (spec_unl_sl), when its occupancy fits the storage (within_limits_sl) *)
Theorem unwind_info_row_of_unlimited_table_any_encoding : forall dbg cp c aa sec cx a items fds fd,
  asz_ok (sc_asz c) -> CfiRun.cap_full (CfaSpec.max_stack cp) 0 = false ->
  entries_all dbg c sec = Ok (items, None) ->
  parsed_fdes dbg c sec items = Some fds ->
  find (fun f => covers f a) fds = Some fd ->
  within_limits_sl dbg cp c aa fd = true ->
  uwi_result_spec a (fst (spec_unl_sl dbg c aa fd)) (snd (spec_unl_sl dbg c aa fd))
                  (fst (unwind_info_for_address_sl dbg cp c aa sec cx a)).
Proof. exact uwi_sl_spec_unl_lem. Qed.

(* unwind_info_succeeds_iff_covered for the extension: success (with a row containing a) iff some FDE covers a,
   provided the table of the first covering FDE — evaluated through its encoded set_loc operands — reaches its end *)
Theorem unwind_info_succeeds_iff_covered_any_encoding : forall dbg cp c aa sec cx a items fds,
  asz_ok (sc_asz c) ->
  entries_all dbg c sec = Ok (items, None) ->
  parsed_fdes dbg c sec items = Some fds ->
  (forall fd, find (fun f => covers f a) fds = Some fd ->
              snd (fst (fde_rows_sl dbg cp c aa fd cx)) = CfaSpec.Done) ->
  ((exists r, fst (unwind_info_for_address_sl dbg cp c aa sec cx a) = Ok r /\ CfiRun.row_contains r a = true)
   <-> exists fd, In fd fds /\ covers fd a = true).
Proof. exact uwi_sl_succeeds_iff_lem. Qed.

(* unwind_info_total for the extension: no panic and the stated fuel suffices, every byte string, both build modes,
   every encoding byte the CIE may carry *)
Theorem unwind_info_total_any_encoding : forall dbg cp c aa sec cx a,
  asz_ok (sc_asz c) -> CfiRun.cap_full (CfaSpec.max_stack cp) 0 = false ->
  fst (unwind_info_for_address_sl dbg cp c aa sec cx a) <> Panic /\
  fst (unwind_info_for_address_sl dbg cp c aa sec cx a) <> OutOfFuel.
Proof. exact uwi_sl_total_lem. Qed.

(* the section of set_loc_instance: one FDE [4377, 4441) whose only instruction is set_loc(pcrel|sdata4 -> 4643).
   gimli (and the extension) deliver the row [4377, 4643); the restricted model of section 8 reads a plain 8-byte
   address from the 4-byte operand and reports UnexpectedEof — and because that failed decode leaves no SetLoc item,
   setloc_plain is TRUE here: the scope predicate of section 8 does not exclude every FDE on which the adapter is
   inexact (it misses set_loc operands whose plain decode fails). The theorems of this section need no such scope. *)
Example unwind_info_through_set_loc_instance :
  asz_ok (sc_asz ex_uw_cfg) /\ CfiRun.cap_full (CfaSpec.max_stack ex_heap) 0 = false /\
  (exists items f, entries_all true ex_uw_cfg ex_sl_sec = Ok (items, None) /\
                   parsed_fdes true ex_uw_cfg ex_sl_sec items = Some [f] /\
                   fde_addr_enc f = Some 27 /\ setloc_plain true false false f = true /\
                   map (fun r => (CfiRun.r_start r, CfiRun.r_end r)) (fst (fst (fde_rows_sl true ex_heap ex_uw_cfg false f ex_ctx)))
                   = [(4377, 4643); (4643, 4441)]) /\
  (exists r, fst (unwind_info_for_address_sl true ex_heap ex_uw_cfg false ex_sl_sec ex_ctx 4400) = Ok r /\
             CfiRun.r_start r = 4377 /\ CfiRun.r_end r = 4643) /\
  fst (unwind_info_for_address true ex_heap ex_uw_cfg false ex_sl_sec ex_ctx 4400) = Err EUnexpectedEof.
Proof.
  split; [right; right; right; reflexivity|]. split; [reflexivity|].
  split. { eexists. eexists. split; [vm_compute; reflexivity|]. split; [vm_compute; reflexivity|].
           split; [reflexivity|]. split; vm_compute; reflexivity. }
  split; [eexists; split; [vm_compute; reflexivity|split; reflexivity]|].
  vm_compute. reflexivity.
Qed.

(* ================================================================== 9. EhHdrTableIter as a state machine *)
(* operations next / nth k / size_hint on ONE iterator, any history. iter_spec row total dec q rem ops
   (Proofs/CfiRdHist.v) is the expected observation list: state q = rows the reader has moved past,
   rem = rows still claimed;  next = row q (None when rem = 0);  nth k: rem := rem -sat k, skip k rows
   (UnsupportedOffset if k*row overflows u64, UnexpectedEof and nothing skipped if fewer than k rows
   of bytes remain before the end of the section), then next = row q+k and q := q+k+1;
   size_hint = (rem, Some rem). *)
Theorem hdr_iter_history : forall dbg hb h size o0 rows pad dec ops,
  tbl_field_size (h_enc h) = Some size -> wf_rows size rows ->
  table_decodes dbg hb h size o0 rows dec ->
  h_count h = N.of_nat (length rows) -> h_table h = mkrd o0 (flat rows ++ pad) ->
  tbl_run dbg hb h (tbl_iter h) ops =
  iter_spec (size * 2) (nlen (flat rows ++ pad)) dec 0 (N.of_nat (length rows)) ops.
Proof. exact hdr_iter_history_thm. Qed.

(* the rows are those of the full scan *)
Theorem hdr_iter_full_scan : forall dbg hb h size o0 rows pad dec,
  tbl_field_size (h_enc h) = Some size -> wf_rows size rows ->
  table_decodes dbg hb h size o0 rows dec ->
  h_count h = N.of_nat (length rows) -> h_table h = mkrd o0 (flat rows ++ pad) ->
  tbl_all dbg hb h = Ok (dec, None).
Proof. exact hdr_full_scan_thm. Qed.

(* a history only ever yields rows of the table (never anything decoded from bytes after it) ... *)
Theorem hdr_iter_yields_only_table_rows : forall row total dec ops q rem x,
  In (BItem (Some x)) (iter_spec row total dec q rem ops) -> In x dec.
Proof. exact iter_spec_in. Qed.

(* ... and once the iterator has ended no operation yields a row again (next: None; nth: None, or
   UnexpectedEof / UnsupportedOffset when the skip itself is impossible) *)
Theorem hdr_iter_ended_stays_ended : forall row total dec ops q,
  Forall (fun o => ~ yields_row o) (iter_spec row total dec q 0 ops).
Proof. exact iter_spec_ended. Qed.

Example hdr_iter_history_instance :
  tbl_field_size (h_enc ex_hdr_pad) = Some 4 /\ wf_rows 4 ex_rows /\
  table_decodes true no_bases ex_hdr_pad 4 12 ex_rows ex_dec /\
  h_count ex_hdr_pad = N.of_nat (length ex_rows) /\
  h_table ex_hdr_pad = mkrd 12 (flat ex_rows ++ map n2b [9; 9; 9; 9; 9; 9; 9; 9]) /\
  (* nth 1 skips row 0 and yields row 1; next yields row 2; the 8 padding bytes are never decoded:
     next -> None, nth 1 (one row of padding can be skipped) -> None, nth 1 again -> UnexpectedEof *)
  tbl_run true no_bases ex_hdr_pad (tbl_iter ex_hdr_pad)
    [OHint; ONth 1; OHint; ONext; OHint; ONext; ONth 1; ONth 1; ONext] =
  [BHint 3 (Some 3); BItem (Some (Direct 512, Direct 4160)); BHint 1 (Some 1);
   BItem (Some (Direct 768, Direct 4208)); BHint 0 (Some 0); BItem None; BItem None;
   BErr EUnexpectedEof; BItem None].
Proof.
  split; [reflexivity|]. split; [repeat constructor|]. split.
  { split; [reflexivity|]. intros j r x Hr Hx.
    destruct j as [|[|[|j]]]; cbn in Hr, Hx; try (injection Hr as <-; injection Hx as <-; split; vm_compute; reflexivity).
    destruct j; discriminate. }
  split; [reflexivity|]. split; [reflexivity|]. vm_compute. reflexivity.
Qed.

(* statement pins *)
Check table_through_set_loc_refines. Check unwind_info_is_lookup_then_table_any_encoding.
Check unwind_info_row_of_spec_table_any_encoding. Check hdr_unwind_info_uses_designated_fde_any_encoding.
Check unwind_info_paths_agree_any_encoding. Check set_loc_extension_agrees_without_encoding. Check unwind_info_extension_agrees.
Check set_loc_free_same_items. Check set_loc_in_table.
Check unwind_info_row_of_unlimited_table_any_encoding. Check unwind_info_succeeds_iff_covered_any_encoding. Check unwind_info_total_any_encoding.
Check eh_pe_valid_all : forall e, e < 256 -> pe_is_valid e = valid_spec e.
Check linear_lookup_is_scan : forall dbg c sec a items e,
  entries_all dbg c sec = Ok (items, e) -> fde_for_address dbg c sec a = scan_items dbg c sec a items e.
Check entries_total : forall dbg c sec, asz_ok (sc_asz c) ->
  entries_all dbg c sec <> Panic /\ entries_all dbg c sec <> OutOfFuel.
Check entries_roundtrip : forall dbg c es items,
  wf_entries c es 0 es -> exp_items c es 0 es = Some items ->
  entries_all dbg c (enc_section (sp_of c) es) = Ok (items, None).
