(* Properties/C12.v — conversion preserves meaning or fails: theorem part (conversion arithmetic).
   Placeholder importing the primitive codec facts the converter relies on; the component theorems of
   DESIGN §5 C12 are added to Proofs/ConvertProofs.v as the reader/writer models are merged. *)
From Coq Require Import List NArith ZArith Bool.
Require Import GV.Base.Res GV.Base.Ints GV.Model.ConvertArith GV.Proofs.ConvertProofs.

(* A CFI offset is carried over exactly or the conversion fails: never truncated. *)
Theorem cfi_offset_exact_or_error : forall (o : N),
  match convert_offset o with
  | Ok v => v = Z.of_N o /\ in_signed 32 v = true
  | Err e => e = CUnsupportedCfiInstruction /\ in_signed 32 (Z.of_N o) = false
  | _ => False
  end.
Proof. exact ConvertProofs.convert_offset_exact. Qed.

(* A factored offset is multiplied back without wrap-around, or the conversion fails. *)
Theorem cfi_factored_offset_exact_or_error : forall (f daf : Z),
  in_signed 64 f = true -> in_signed 64 daf = true ->
  match convert_factored_offset f daf with
  | Ok v => v = (f * daf)%Z /\ in_signed 32 v = true
  | Err e => e = CUnsupportedCfiInstruction /\ in_signed 32 (f * daf)%Z = false
  | _ => False
  end.
Proof. exact ConvertProofs.convert_factored_offset_exact. Qed.

(* Alignment factors survive exactly or the CIE is rejected. *)
Theorem cfi_factors_exact_or_error : forall (caf : N) (daf : Z),
  match convert_factors caf daf with
  | Ok (c, d) => c = caf /\ d = daf /\ (caf < 256)%N /\ in_signed 8 daf = true
  | Err e => e = CUnsupportedCfiInstruction /\ ((256 <= caf)%N \/ in_signed 8 daf = false)
  | _ => False
  end.
Proof. exact ConvertProofs.convert_factors_exact. Qed.

(* The accumulated code offset of advance_loc instructions is exact or the conversion fails. *)
Theorem cfi_advance_exact_or_error : forall (offset delta caf : N),
  (offset < 2 ^ 32)%N -> (delta < 2 ^ 32)%N ->
  match convert_advance offset delta caf with
  | Ok v => v = (offset + delta * caf)%N /\ (v < 2 ^ 32)%N
  | Err e => e = CUnsupportedCfiInstruction /\ (2 ^ 32 <= offset + delta * caf \/ 2 ^ 32 <= caf)%N
  | _ => False
  end.
Proof. exact ConvertProofs.convert_advance_exact. Qed.

Example offset_ok : convert_offset 16 = Ok 16%Z. Proof. reflexivity. Qed.
Example offset_big : convert_offset (2 ^ 31) = Err CUnsupportedCfiInstruction. Proof. reflexivity. Qed.
Example factored_ok : convert_factored_offset (-2) (-8) = Ok 16%Z. Proof. reflexivity. Qed.
