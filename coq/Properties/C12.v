(* Properties/C12.v — Read-to-write conversion preserves meaning or fails; never silently alters.
   Only statements (`exact lemma`), non-vacuity examples and pins live here.

   Converter models (each mirrors the Rust function by function, every narrowing explicit):
     Model/ConvertArith.v  checked integer conversions of write::cfi::convert
     Model/ConvertCfi.v    CallFrameInstruction::from, CommonInformationEntry::from / FrameDescriptionEntry::from loops
     Model/ConvertExpr.v   write::op::convert Expression::from
     Model/ConvertLists.v  RangeList::from, LocationList::from
     Model/ConvertAttr.v   ConvertUnit::convert_attribute_value / convert_file_index (self-contained value kinds)
   Each component theorem COMPOSES the reader-side meaning (C06 CfaSpec, C07 OpDec, C08 ListSpec, C03 Attr) with
   the writer-side read-back theorems (C14 CfaEncSpec / CfiWr, C15 OpEncSpec / OpWr, C16 ListWrSpec, C11 UnitWr):
   Err is always allowed, a silently different meaning never.
   ConvertLineProgram: section (5) — per-call / per-instruction theorems over Model/ConvertLine.v; whole programs stay
   with the oracle streams c12.line / c12.vliw (two known findings). Not theorems here: whole-unit
   conversion (entry ids, string tables; oracle stream c12.corpus), normal form of expressions (oracle). *)
From Coq Require Import List NArith ZArith Bool Sorted.
From Coq.Strings Require Import Byte.
Require Import GV.Base.Res GV.Base.Byt GV.Base.Ints.
Require Import GV.Spec.CfaEncSpec GV.Spec.CfaSpec GV.Model.CfiWr.
Require Import GV.Model.ConvertArith GV.Model.ConvertCfi GV.Proofs.ConvertProofs GV.Proofs.ConvertCfiProofs
               GV.Proofs.ConvertCfiWrProofs.
Import ListNotations.
Local Open Scope N_scope.

(* ============================================================== (0) conversion arithmetic *)

(* A CFI offset is carried over exactly or the conversion fails: never truncated. *)
Theorem cfi_offset_exact_or_error : forall (o : N),
  match convert_offset o with
  | Ok v => v = Z.of_N o /\ in_signed 32 v = true
  | Err e => e = CUnsupportedCfiInstruction /\ in_signed 32 (Z.of_N o) = false
  | _ => False
  end.
Proof. exact ConvertProofs.convert_offset_exact. Qed.

(* A factored offset is multiplied back without wrap-around, or the conversion fails. *)
Theorem cfi_factored_offset_exact_or_error : forall (f daf : Z),
  in_signed 64 f = true -> in_signed 64 daf = true ->
  match convert_factored_offset f daf with
  | Ok v => v = (f * daf)%Z /\ in_signed 32 v = true
  | Err e => e = CUnsupportedCfiInstruction /\ in_signed 32 (f * daf)%Z = false
  | _ => False
  end.
Proof. exact ConvertProofs.convert_factored_offset_exact. Qed.

(* Alignment factors survive exactly or the CIE is rejected. *)
Theorem cfi_factors_exact_or_error : forall (caf : N) (daf : Z),
  match convert_factors caf daf with
  | Ok (c, d) => c = caf /\ d = daf /\ (caf < 256)%N /\ in_signed 8 daf = true
  | Err e => e = CUnsupportedCfiInstruction /\ ((256 <= caf)%N \/ in_signed 8 daf = false)
  | _ => False
  end.
Proof. exact ConvertProofs.convert_factors_exact. Qed.

(* The accumulated code offset of advance_loc instructions is exact or the conversion fails. *)
Theorem cfi_advance_exact_or_error : forall (offset delta caf : N),
  (offset < 2 ^ 32)%N -> (delta < 2 ^ 32)%N ->
  match convert_advance offset delta caf with
  | Ok v => v = (offset + delta * caf)%N /\ (v < 2 ^ 32)%N
  | Err e => e = CUnsupportedCfiInstruction /\ (2 ^ 32 <= offset + delta * caf \/ 2 ^ 32 <= caf)%N
  | _ => False
  end.
Proof. exact ConvertProofs.convert_advance_exact. Qed.

Example offset_ok : convert_offset 16 = Ok 16%Z. Proof. reflexivity. Qed.
Example offset_big : convert_offset (2 ^ 31) = Err CUnsupportedCfiInstruction. Proof. reflexivity. Qed.
Example factored_ok : convert_factored_offset (-2) (-8) = Ok 16%Z. Proof. reflexivity. Qed.

(* ============================================================== (1) call frame instructions *)

(* cfi_insn_convert_sound — for EVERY CIE and FDE instruction stream (every instruction variant, lazily decoded
   with a possible decode error), every alignment factor pair and every address range: if the conversion of both
   programs succeeds and the source programs have an unwind table (CfaSpec run_spec, the C06 machine), then the
   converted programs — write-side instructions with unfactored offsets, placed at the computed code offsets — have
   an unwind table too (under unit factors, ConvertCfi.converted_rows), and for every address of the FDE's range
   both tables hold the same CFA rule, register rules and argument size; an expression operand e of the source
   corresponds to the place plc b of the bytes b = xconv e it was converted to (conv_R).
   Nops and location advances are absorbed into the offsets (rows are compared pointwise, not row by row);
   DW_CFA_set_loc, operands outside the writer's types and offsets beyond u32 make the conversion fail
   (theorems (0) and cfi_unsupported below).  sp_asize <= 8: addresses are u64. *)
Theorem cfi_insn_convert_sound :
  forall (p : sparams) (xconv : uexpr -> res (list byte)) (plc : list byte -> uexpr)
         (cie fde : list item) (cl : list cfi) (fl : list (N * cfi)) (init end_ : N) (rows : list srow),
  sp_asize p <= 8 ->
  conv_cie (sp_caf p) (sp_daf p) xconv cie = Ok cl ->
  conv_fde (sp_caf p) (sp_daf p) xconv fde = Ok fl ->
  run_spec p init end_ cie fde = (rows, Done) ->
  exists rows',
    converted_rows plc (sp_asize p) init end_ cl fl = (rows', Done) /\
    forall a, init <= a -> a < end_ ->
      unw_rel (conv_R xconv plc) (content_at rows a) (content_at rows' a).
Proof. exact cfi_insn_convert_sound_lemma. Qed.

(* per instruction: every arm of CallFrameInstruction::from means (ConvertCfiProofs.means) an advance by exactly
   delta * code_alignment_factor bytes (below 2^32 in total), nothing, or acts on every table state exactly as the
   write instruction it returns *)
Theorem cfi_insn_convert_each : forall caf daf xconv plc p o i o' c,
  sp_caf p = caf -> sp_daf p = daf ->
  conv_step caf daf xconv o i = Ok (o', c) ->
  exists m, means (conv_R xconv plc) plc p i m /\
    match m with
    | MAdvance b => c = None /\ o' = o + b /\ o' < 2 ^ 32
    | MNop => c = None /\ o' = o
    | MInsn x => c = Some x /\ o' = o
    end.
Proof. exact conv_step_means. Qed.

(* convert ∘ write (C14) ∘ decode (C14) ∘ run (C06): the bytes the frame-table writer emits for the converted
   programs decode, and whenever the decoded programs have an unwind table under the ORIGINAL factors it holds,
   for every address of the range, the unwind information of the source programs.  Typing hypotheses: registers
   are u16 (insn_typed), converted expressions have a usize length. *)
Theorem cfi_convert_write_read_sound :
  forall (dbg be : bool) (p : sparams) (xconv : uexpr -> res (list byte)) (plc : list byte -> uexpr)
         (cie fde : list item) (f : N * Z) (cl : list cfi) (fl : list (N * cfi))
         (init end_ : N) (rows : list srow) (cbs fbs : list byte),
  sp_asize p <= 8 ->
  forallb item_typed cie = true -> forallb item_typed fde = true ->
  (forall e b, xconv e = Ok b -> is_blob b = true) ->
  conv_entry (sp_caf p) (sp_daf p) xconv cie fde = Ok (f, cl, fl) ->
  run_spec p init end_ cie fde = (rows, Done) ->
  write_insns dbg (sp_daf p) cl = Ok cbs ->
  write_fde_insns dbg be (sp_caf p) (sp_daf p) 0 fl = Ok fbs ->
  exists dsc dsf,
    decode_all be cbs = Some dsc /\ decode_all be fbs = Some dsf /\
    forall rows2,
      run_spec p init end_ (map It (map (rd_of_dinsn plc) dsc)) (map It (map (rd_of_dinsn plc) dsf)) = (rows2, Done) ->
      forall a, init <= a -> a < end_ ->
        unw_rel (conv_R xconv plc) (content_at rows a) (content_at rows2 a).
Proof. exact cfi_convert_write_read_sound_lemma. Qed.

(* normal_form (CFI): converting what is read back from the written table (decoded programs ds whose meanings are
   the written programs: C14 cie_program_read / fde_program_read) reproduces the write-side programs, provided the
   second expression conversion reproduces the written expressions. *)
Theorem cfi_normal_form_cie : forall caf daf xconv2 plc,
  daf <> 0%Z -> (forall b, xconv2 (plc b) = Ok b) ->
  forall ds cl o, map (sem caf daf) ds = map MInsn cl -> forallb cfi_wf cl = true ->
  conv_cie_from caf daf xconv2 o (map It (map (rd_of_dinsn plc) ds)) = Ok cl.
Proof. exact cie_normal_form_lemma. Qed.

Theorem cfi_normal_form_fde : forall caf daf xconv2 plc,
  daf <> 0%Z -> caf < 2 ^ 32 -> (forall b, xconv2 (plc b) = Ok b) ->
  forall ds o, forallb (dinsn_wf caf daf) ds = true -> o + adv_sum caf ds < 2 ^ 32 ->
  conv_fde_from caf daf xconv2 o (map It (map (rd_of_dinsn plc) ds)) = Ok (locate o (map (sem caf daf) ds)).
Proof. exact fde_normal_form_lemma. Qed.

(* ---- non-vacuity: a CIE + FDE pair with nops, several advances, factored and unfactored offsets, state stack *)
Definition ex_p : sparams := {| sp_caf := 4; sp_daf := (-8)%Z; sp_asize := 8 |}.
Definition ex_cie : list item := [It (IDefCfa 7 8); It (IOffset 16 1)].
Definition ex_fde : list item :=
  [It (IAdvanceLoc 1); It (IDefCfaOffset 16); It INop; It (IAdvanceLoc 2); It (IAdvanceLoc 1);
   It (IOffsetExtendedSf 6 2); It IRememberState; It (IAdvanceLoc 1); It IRestoreState; It (IAdvanceLoc 3)].
Definition ex_x (e : uexpr) : res (list byte) := Err CUnsupportedOperation.
Definition ex_plc (b : list byte) : uexpr := {| ue_off := 0; ue_len := N.of_nat (length b) |}.

Example cfi_convert_ex :
  conv_cie 4 (-8) ex_x ex_cie = Ok [Cfa 7 8; Offset 16 (-8)] /\
  conv_fde 4 (-8) ex_x ex_fde = Ok [(4, CfaOffset 16); (16, Offset 6 (-16)); (16, RememberState); (20, RestoreState)] /\
  snd (run_spec ex_p 4096 4196 ex_cie ex_fde) = Done /\
  length (fst (run_spec ex_p 4096 4196 ex_cie ex_fde)) = 6%nat /\
  snd (converted_rows ex_plc 8 4096 4196 [Cfa 7 8; Offset 16 (-8)]
         [(4, CfaOffset 16); (16, Offset 6 (-16)); (16, RememberState); (20, RestoreState)]) = Done /\
  length (fst (converted_rows ex_plc 8 4096 4196 [Cfa 7 8; Offset 16 (-8)]
         [(4, CfaOffset 16); (16, Offset 6 (-16)); (16, RememberState); (20, RestoreState)])) = 4%nat.
Proof. vm_compute. repeat split. Qed.

(* what is not convertible is an error, never an approximation *)
Example cfi_unsupported :
  conv_fde 4 (-8) ex_x [It (ISetLoc 4100)] = Err CUnsupportedCfiInstruction /\
  conv_fde 4 (-8) ex_x [It (IDefCfa 7 (2 ^ 31))] = Err CUnsupportedCfiInstruction /\
  conv_fde 4 (-8) ex_x [It (IAdvanceLoc (2 ^ 30))] = Err CUnsupportedCfiInstruction /\
  conv_fde 4 (-8) ex_x [It (IOffset 6 (2 ^ 63))] = Err CUnsupportedCfiInstruction /\
  conv_fde 4 (-8) ex_x [It (IArgsSize (2 ^ 32))] = Err CUnsupportedCfiInstruction /\
  conv_fde 4 (-8) ex_x [It (IDefCfaOffset 8); Bad EUnknownCallFrameInstruction] = Err EUnknownCallFrameInstruction /\
  conv_entry 256 (-8) ex_x [] [] = Err CUnsupportedCfiInstruction.
Proof. vm_compute. repeat split. Qed.

Example cfi_typed_ex : forallb item_typed ex_cie = true /\ forallb item_typed ex_fde = true /\
  (forall e b, ex_x e = Ok b -> is_blob b = true) /\
  exists f cl fl cbs fbs, conv_entry 4 (-8) ex_x ex_cie ex_fde = Ok (f, cl, fl) /\
    write_insns true (-8) cl = Ok cbs /\ write_fde_insns true false 4 (-8) 0 fl = Ok fbs.
Proof.
  split; [reflexivity|]. split; [reflexivity|]. split; [discriminate|].
  do 5 eexists. split; [vm_compute; reflexivity|]. split; vm_compute; reflexivity.
Qed.

(* ... and the table read back from the written bytes exists (the inner hypothesis of cfi_convert_write_read_sound) *)
Example cfi_readback_ex :
  match conv_entry 4 (-8) ex_x ex_cie ex_fde with
  | Ok (_, cl, fl) =>
      match write_insns true (-8) cl, write_fde_insns true false 4 (-8) 0 fl with
      | Ok cbs, Ok fbs =>
          match decode_all false cbs, decode_all false fbs with
          | Some dsc, Some dsf =>
              snd (run_spec ex_p 4096 4196 (map It (map (rd_of_dinsn ex_plc) dsc)) (map It (map (rd_of_dinsn ex_plc) dsf))) = Done
          | _, _ => False
          end
      | _, _ => False
      end
  | _ => False
  end.
Proof. vm_compute. reflexivity. Qed.

Example cfi_normal_form_ex :
  forallb (dinsn_wf 4 (-8)) [DAdvance 1; DDefCfaOffset 16; DAdvance 3; DOffsetExtendedSf 6 2; DNop] = true /\
  0 + adv_sum 4 [DAdvance 1; DDefCfaOffset 16; DAdvance 3; DOffsetExtendedSf 6 2; DNop] < 2 ^ 32 /\
  locate 0 (map (sem 4 (-8)) [DAdvance 1; DDefCfaOffset 16; DAdvance 3; DOffsetExtendedSf 6 2; DNop])
    = [(4, CfaOffset 16); (16, Offset 6 (-16))].
Proof. vm_compute. repeat split. Qed.


(* ============================================================== (2) expressions *)
Require Import GV.Model.ConvertExpr GV.Proofs.ConvertExprProofs GV.Proofs.ConvertExprTyped.
Require GV.Spec.OpEncSpec GV.Model.OpWr GV.Model.OpDec GV.Proofs.OpWrProofs GV.Proofs.OpWrDec.

(* expr_convert_sound — for EVERY list of read operations with their end offsets (l; offsets_of l = operation
   starts ++ [length], as Expression::from computes them), every conversion callback (addresses, .debug_addr,
   unit / .debug_info references, nested entry_value blocks): if the second loop of Expression::from succeeds and
   the writer (C15 model OpWr) writes the result, then the written bytes decode (C15's independent opcode table
   OpEncSpec) to exactly one operation per source operation, in order, each being the source operation up to the
   documented normal forms (ConvertExpr.same_op): same operands; typed operations carry the unit offset the writer
   assigned to the entry the source offset was converted to; addresses are the converted constants; addrx / constx
   are resolved through .debug_addr; DW_OP_piece keeps its size; every DW_OP_skip / DW_OP_bra lands (written
   displacement) on the start of the written operation with the index of the source operation its source target
   designated; .debug_info references are written as placeholder + fix-up (C15 ref_fixup); an entry_value block is
   the written conversion of the source block.  Hypotheses on the result: values of the Rust types / decodable
   (C15's wf_op, decodable) — discharged for parsed input by expr_converted_well_typed below. *)
Theorem expr_convert_sound :
  forall (e : OpDec.enc) unit_addr cvt_addr unit_ref info_ref nested
         (l : list (OpDec.operation * N)) (ex : OpWr.wexpr)
         (dbg' : bool) (we : OpWr.enc) (uo : option OpWr.uoffs) (refs : bool) (base : N)
         (wbs : list byte) (fx : list OpWr.fixup),
  conv_ops e unit_addr cvt_addr unit_ref info_ref nested (offsets_of l) l = Ok ex ->
  OpWr.e_asize we = OpDec.e_asz e ->
  forallb OpWr.wf_op ex = true -> OpWr.wf_uoffs uo = true -> forallb OpWrDec.decodable ex = true ->
  base + OpWr.blen wbs < 2 ^ 63 ->
  OpWr.write_expr dbg' we uo refs base ex = Ok (wbs, fx) ->
  exists woffs dl,
    OpWr.expr_offsets dbg' we uo base ex = Ok woffs /\
    OpEncSpec.decode (OpWrProofs.dcfg_of we) wbs = Some dl /\ length dl = length l /\
    forall k o end_, nth_error l k = Some (o, end_) ->
      exists p d, nth_error woffs k = Some p /\ nth_error dl k = Some (p - base, d) /\
        same_op unit_addr cvt_addr unit_ref info_ref (OpWr.entry_offset dbg' uo)
                (nested_written nested dbg' we uo refs) (offsets_of l) woffs p o end_ d.
Proof. exact expr_convert_sound_lemma. Qed.

(* the same from the bytes of the source expression (Expression::from = conv_expr), all hypotheses about the
   converted expression discharged: callbacks return values of their Rust types, the slice is shorter than usize::MAX *)
Theorem expr_convert_sound_bytes :
  forall (dbg : bool) (e : OpDec.enc) unit_addr cvt_addr unit_ref info_ref (bs : list byte) (ex : OpWr.wexpr)
         (dbg' : bool) (we : OpWr.enc) (uo : option OpWr.uoffs) (refs : bool) (base : N)
         (wbs : list byte) (fx : list OpWr.fixup),
  (forall x en, unit_ref x = Ok en -> en < 2 ^ 64) ->
  (forall x r, info_ref x = Ok r -> OpWr.wf_ref r = true) ->
  (forall a w, cvt_addr a = Some w -> OpWr.wf_op (OpWr.WoAddress w) = true) ->
  (forall ua i v, unit_addr = Some ua -> ua i = Ok v -> v < 2 ^ 64) ->
  OpWr.blen bs < 2 ^ 64 - 1 ->
  conv_expr dbg e unit_addr cvt_addr unit_ref info_ref bs = Ok ex ->
  OpWr.e_asize we = OpDec.e_asz e -> OpWr.wf_uoffs uo = true -> base + OpWr.blen wbs < 2 ^ 63 ->
  OpWr.write_expr dbg' we uo refs base ex = Ok (wbs, fx) ->
  exists l woffs dl,
    op_ends dbg e (S (length bs)) bs 0 = Ok l /\
    OpWr.expr_offsets dbg' we uo base ex = Ok woffs /\
    OpEncSpec.decode (OpWrProofs.dcfg_of we) wbs = Some dl /\ length dl = length l /\
    forall k o end_, nth_error l k = Some (o, end_) ->
      exists p d, nth_error woffs k = Some p /\ nth_error dl k = Some (p - base, d) /\
        same_op unit_addr cvt_addr unit_ref info_ref (OpWr.entry_offset dbg' uo)
                (nested_written (conv_expr_fuel dbg e unit_addr cvt_addr unit_ref info_ref (length bs)) dbg' we uo refs)
                (offsets_of l) woffs p o end_ d.
Proof. exact expr_convert_sound_bytes_lemma. Qed.

(* a branch whose target (offset after the operation + displacement, in usize arithmetic) is not the start of an
   operation nor the end of the expression is InvalidBranchTarget — never redirected; a resolved index is the
   index of exactly that offset *)
Theorem expr_branch_target_exact : forall e unit_addr cvt_addr unit_ref info_ref nested offsets end_ target,
  let tgt := wrap64 (end_ + of_i64 target) in
  (~ In tgt offsets ->
     conv_op e unit_addr cvt_addr unit_ref info_ref nested offsets (OpDec.OBra target) end_ = Err CInvalidBranchTarget /\
     conv_op e unit_addr cvt_addr unit_ref info_ref nested offsets (OpDec.OSkip target) end_ = Err CInvalidBranchTarget) /\
  (forall i, conv_op e unit_addr cvt_addr unit_ref info_ref nested offsets (OpDec.OBra target) end_ = Ok (OpWr.WoBranch i) ->
     nth_error offsets (N.to_nat i) = Some tgt) /\
  (forall i, conv_op e unit_addr cvt_addr unit_ref info_ref nested offsets (OpDec.OSkip target) end_ = Ok (OpWr.WoSkip i) ->
     nth_error offsets (N.to_nat i) = Some tgt).
Proof. exact branch_target_exact_lemma. Qed.

(* the offsets vector of the first loop is strictly increasing and ends with the length of the expression:
   `binary_search` (modelled by index_of) finds the unique index *)
Theorem expr_offsets_sorted : forall dbg e fuel bs pos l,
  op_ends dbg e fuel bs pos = Ok l ->
  StronglySorted N.lt (pos :: map snd l) /\ last (pos :: map snd l) 0 = pos + OpWr.blen bs.
Proof. exact op_ends_sorted. Qed.

(* Operation::parse returns values of the Rust field types, so Expression::from returns a well-typed, decodable
   write::Expression (the hypotheses of the C15 theorems), nested blocks included *)
Theorem expr_converted_well_typed : forall dbg e unit_addr cvt_addr unit_ref info_ref,
  (forall x en, unit_ref x = Ok en -> en < 2 ^ 64) ->
  (forall x r, info_ref x = Ok r -> OpWr.wf_ref r = true) ->
  (forall a w, cvt_addr a = Some w -> OpWr.wf_op (OpWr.WoAddress w) = true) ->
  (forall ua i v, unit_addr = Some ua -> ua i = Ok v -> v < 2 ^ 64) ->
  forall fuel bs ex, OpWr.blen bs < 2 ^ 64 - 1 ->
  conv_expr_fuel dbg e unit_addr cvt_addr unit_ref info_ref fuel bs = Ok ex ->
  forallb OpWr.wf_op ex = true /\ forallb OpWrDec.decodable ex = true.
Proof. exact conv_expr_fuel_wf. Qed.

(* the stated fuel suffices (callbacks that terminate) *)
Theorem expr_fuel_suffices : forall dbg e unit_addr cvt_addr unit_ref info_ref,
  (forall x, unit_ref x <> OutOfFuel) -> (forall x, info_ref x <> OutOfFuel) ->
  (forall ua i, unit_addr = Some ua -> ua i <> OutOfFuel) ->
  forall fuel bs, (length bs < fuel)%nat ->
  conv_expr_fuel dbg e unit_addr cvt_addr unit_ref info_ref fuel bs <> OutOfFuel.
Proof. exact conv_expr_fuel_enough. Qed.

(* normal_form (expressions), per operation.
   FULL statement (not proved): conv_expr2 (bytes written for conv_expr bs) = conv_expr bs, i.e. a second
   Expression::from on the written expression reproduces the first result.
   PROVED: for every operation without a .debug_info reference, the operation a reader reports (op_of_dop: the
   read::Operation vocabulary of a decoded operation) for the written form (C15 normal_form) of the converted
   operation converts to the same write operation again — branches resolve to the same operation index (the written
   displacement added in usize arithmetic to the offset after the branch is the start of the target), typed operations
   find the same entry, deref/deref_size/deref_type, pick/dup/over, lit/constu, reg/regx, piece keep their kind.
   MISSING for the full statement: (i) that the written operation starts are strictly increasing (every written
   operation is non-empty) as a consequence of C15 instead of a hypothesis; (ii) the tie between the reader model's
   parse (C07 OpDec.parse_op) and the decode table of C15 on written bytes (a reader∘writer theorem of C15);
   (iii) .debug_info references, whose written value is a placeholder until the fix-ups are applied (C15
   fixup_resolved).  The whole-expression property is exercised by the oracle streams (idempotence-mismatch). *)
Require Import GV.Proofs.ConvertExprNormal.
Theorem expr_normal_form_partial :
  forall (e : OpDec.enc) unit_addr cvt_addr unit_ref info_ref nested
         (dbg' : bool) (we : OpWr.enc) (uo : option OpWr.uoffs) (refs : bool)
         (e2 : OpDec.enc) unit_addr2 cvt_addr2 unit_ref2 info_ref2 nested2,
  OpWr.e_asize we = OpDec.e_asz e -> OpDec.e_asz e2 = OpWr.e_asize we ->
  (forall v, cvt_addr2 v = Some (OpWr.AConst v)) ->
  (forall en off, OpWr.entry_offset dbg' uo en = Ok off -> off <> 0 /\ unit_ref2 off = Ok en) ->
  (forall x inner wb p fx,
     nested x = Ok inner -> OpWr.write_expr dbg' we uo refs p inner = Ok (wb, fx) -> nested2 wb = Ok inner) ->
  forall soffs woffs base wpos o end_ wo bs d,
  conv_op e unit_addr cvt_addr unit_ref info_ref nested soffs o end_ = Ok wo ->
  OpWrDec.normal_form dbg' we uo refs woffs wpos wo bs d ->
  info_ref_free o = true ->
  StronglySorted N.lt (map (fun p => p - base) woffs) -> Forall (fun p => base <= p /\ p < 2 ^ 63) woffs ->
  base <= wpos -> wpos + 3 < 2 ^ 63 ->
  exists o2, op_of_dop d = Some o2 /\
    forall end2, (is_branch o = true -> end2 = wpos + 3 - base) ->
      conv_op e2 unit_addr2 cvt_addr2 unit_ref2 info_ref2 nested2 (map (fun p => p - base) woffs) o2 end2 = Ok wo.
Proof. exact expr_normal_form_op_lemma. Qed.


(* ---- non-vacuity: lit5; skip +3 (over the bregx); bregx 40,-8; bra -9 (back to the skip); addr; entry_value{reg5} *)
Definition ex_enc : OpDec.enc := OpDec.mkEnc 8 false 5 false.
Definition ex_wenc : OpWr.enc := {| OpWr.e_version := 5; OpWr.e_fmt64 := false; OpWr.e_asize := 8; OpWr.e_be := false |}.
Definition ex_cvt (a : N) : option OpWr.waddr := Some (OpWr.AConst a).
Definition ex_uref (o : N) : res N := if o =? 29 then Ok 2 else Err CInvalidUnitRef.
Definition ex_iref (o : N) : res OpWr.dref := Err CInvalidDebugInfoRef.
Definition ex_bytes : list byte :=
  [x35; x2f; x03; x00; x92; x28; x78; x28; xf7; xff; x03; x00; x10; x00; x00; x00; x00; x00; x00; xa3; x01; x55].

Example expr_convert_ex :
  conv_expr true ex_enc None ex_cvt ex_uref ex_iref ex_bytes =
    Ok [OpWr.WoUConst 5; OpWr.WoSkip 3; OpWr.WoRegOffset 40 (-8); OpWr.WoBranch 1; OpWr.WoAddress (OpWr.AConst 4096);
        OpWr.WoEntryValue [OpWr.WoRegister 5]] /\
  OpWr.write_expr true ex_wenc None false 0
    [OpWr.WoUConst 5; OpWr.WoSkip 3; OpWr.WoRegOffset 40 (-8); OpWr.WoBranch 1; OpWr.WoAddress (OpWr.AConst 4096);
     OpWr.WoEntryValue [OpWr.WoRegister 5]] = Ok (ex_bytes, []).
Proof. vm_compute. split; reflexivity. Qed.

Example expr_branch_into_operand :   (* skip +1 lands inside the bregx: rejected *)
  conv_expr true ex_enc None ex_cvt ex_uref ex_iref [x2f; x01; x00; x92; x28; x78] = Err CInvalidBranchTarget /\
  conv_expr true ex_enc None ex_cvt ex_uref ex_iref [x2f; x03; x00; x92; x28; x78] = Ok [OpWr.WoSkip 2; OpWr.WoRegOffset 40 (-8)] /\
  conv_expr true ex_enc None ex_cvt ex_uref ex_iref [xa1; x00] = Err CUnsupportedOperation /\
  conv_expr true ex_enc None ex_cvt ex_uref ex_iref [xa8; x1d] = Ok [OpWr.WoConvert (Some 2)] /\
  conv_expr true ex_enc None ex_cvt ex_uref ex_iref [xa8; x1e] = Err CInvalidUnitRef /\
  conv_expr true ex_enc None ex_cvt ex_uref ex_iref [x93] = Err EUnexpectedEof.
Proof. vm_compute. repeat split. Qed.

Example expr_callbacks_ex :
  (forall x en, ex_uref x = Ok en -> en < 2 ^ 64) /\ (forall x r, ex_iref x = Ok r -> OpWr.wf_ref r = true) /\
  (forall a w, a < 2 ^ 64 -> ex_cvt a = Some w -> OpWr.wf_op (OpWr.WoAddress w) = true).
Proof.
  split; [|split].
  - intros x en. unfold ex_uref. destruct (x =? 29); intros H; inversion H. reflexivity.
  - discriminate.
  - intros a w Ha H. inversion H; subst. cbn. unfold OpWr.is_u64, two64. apply N.ltb_lt. exact Ha.
Qed.

Example expr_normal_form_ex :   (* the branch of expr_convert_ex: written at 7, displacement -9, target = operation 1 at offset 1 *)
  StronglySorted N.lt (map (fun p => p - 0) [0; 1; 4; 7; 10; 19; 22]) /\
  OpWrDec.normal_form true ex_wenc None false [0; 1; 4; 7; 10; 19; 22] 7 (OpWr.WoBranch 1) [x28; xf7; xff] (OpEncSpec.DoBra (-9)) /\
  op_of_dop (OpEncSpec.DoBra (-9)) = Some (OpDec.OBra (-9)) /\
  conv_op ex_enc None ex_cvt ex_uref ex_iref (fun _ => Err EOther) [0; 1; 4; 7; 10; 19; 22] (OpDec.OBra (-9)) 10 = Ok (OpWr.WoBranch 1).
Proof.
  split; [repeat constructor; vm_compute; reflexivity|]. split; [|split; vm_compute; reflexivity].
  cbn. exists 1, (-9)%Z. repeat split.
Qed.

(* ============================================================== (3) range and location lists *)
Require Import GV.Model.ConvertLists GV.Proofs.ConvertListsProofs.
Require GV.Spec.ListSpec GV.Spec.ListWrSpec GV.Model.ListsRd.

(* range_convert_sound — for EVERY raw range list (all entry kinds of .debug_ranges / .debug_rnglists incl. the
   pre-v5 address-or-offset pair and the indexed forms; an iterator error ends the conversion with that error),
   every unit base address, address size >= 1 and .debug_addr: with a non-relocating address conversion, if
   RangeList::from succeeds then the converted list has a meaning (C16 ListWrSpec.meaning_rng: what the written
   list denotes relative to the unit base) and it is exactly the list of address ranges the source list resolves
   to (C08 ListSpec.resolve_rng): base-address bookkeeping agrees, pairs are taken as offsets exactly when a base
   address is in force, empty ranges vanish on both sides.  lent_fits: raw addresses fit the address size. *)
Theorem range_convert_sound : forall (cvt : N -> option ListWrSpec.addr) (uaddr : N -> res N) (asz : N),
  1 <= asz -> (forall a w, cvt a = Some w -> w = ListWrSpec.AConst a) ->
  forall low_pc es l,
  Forall (lent_fits asz) (items es) ->
  conv_range_list cvt uaddr low_pc es = Ok l ->
  exists rs,
    ListWrSpec.meaning_rng asz low_pc l = Some rs /\
    ListSpec.resolve_rng asz (tbl_of uaddr) low_pc (items es) = Some rs.
Proof. exact range_convert_sound_lemma. Qed.

(* loc_convert_sound — the same for location lists (default location included); each resolved range carries the
   converted expression of the source entry (drel: xconv source = Ok converted) *)
Theorem loc_convert_sound : forall (cvt : N -> option ListWrSpec.addr) (uaddr : N -> res N)
    (xconv : list byte -> res (list byte)) (asz : N),
  1 <= asz -> (forall a w, cvt a = Some w -> w = ListWrSpec.AConst a) ->
  forall low_pc xs l,
  Forall (fun x => lent_fits asz (fst x)) (items xs) ->
  conv_loc_list cvt uaddr xconv low_pc xs = Ok l ->
  exists rs rs0,
    ListWrSpec.meaning_loc asz low_pc l = Some rs /\
    ListSpec.resolve_loc asz (tbl_of uaddr) low_pc (items xs) = Some rs0 /\
    Forall2 (drel xconv) rs0 rs.
Proof. exact loc_convert_sound_lemma. Qed.

(* normal_form (lists): the entries a reader finds in the written list (C16: dec5 yields ents_of l, dec4 yields
   pairs_of l) convert to the same list again — DWARF 5 entries unconditionally, pre-v5 pairs for lists in pair
   form (offset pairs exactly while a base address is in force) — given that the second expression conversion
   reproduces the written expressions *)
Theorem list_normal_form_v5 : forall (cvt : N -> option ListWrSpec.addr) uaddr xconv2,
  (forall a, cvt a = Some (ListWrSpec.AConst a)) ->
  forall l ents hb,
  ListWrSpec.ents_of l = Some ents -> forallb keep_loc l = true ->
  Forall (fun y => xconv2 (loc_data y) = Ok (loc_data y)) l ->
  conv_locs cvt uaddr xconv2 hb (map (fun x => ListsRd.EvItem (raw_of_ent x)) ents) = Ok l.
Proof. exact locs_normal_form_v5. Qed.

Theorem list_normal_form_v4 : forall (cvt : N -> option ListWrSpec.addr) uaddr xconv2,
  (forall a, cvt a = Some (ListWrSpec.AConst a)) ->
  forall l ps hb,
  ListWrSpec.pairs_of l = Some ps -> pair_form hb l = true -> forallb keep_loc l = true ->
  Forall (fun y => xconv2 (loc_data y) = Ok (loc_data y)) l ->
  conv_locs cvt uaddr xconv2 hb (map (fun x => ListsRd.EvItem (raw_of_ent x)) ps) = Ok l.
Proof. exact locs_normal_form_v4. Qed.

(* ---- non-vacuity: a DWARF 4 style list (pairs relative to low_pc, base selection, an empty pair) and a v5 one *)
Definition ex_lcvt (a : N) : option ListWrSpec.addr := Some (ListWrSpec.AConst a).
Definition ex_uaddr (i : N) : res N := if i <? 2 then Ok (8192 + 16 * i) else Err EUnexpectedEof.
Example range_convert_ex :
  conv_range_list ex_lcvt ex_uaddr 4096
    [ListsRd.EvItem (ListSpec.LPair 16 32); ListsRd.EvItem (ListSpec.LPair 5 5); ListsRd.EvItem (ListSpec.LBase 65536);
     ListsRd.EvItem (ListSpec.LPair 1 2); ListsRd.EvItem (ListSpec.LStartxLength 1 4)]
  = Ok [ListWrSpec.ROffsetPair 16 32; ListWrSpec.RBase (ListWrSpec.AConst 65536); ListWrSpec.ROffsetPair 1 2;
        ListWrSpec.RStartLength (ListWrSpec.AConst 8208) 4] /\
  conv_range_list ex_lcvt ex_uaddr 0 [ListsRd.EvItem (ListSpec.LPair 16 32)]
  = Ok [ListWrSpec.RStartEnd (ListWrSpec.AConst 16) (ListWrSpec.AConst 32)] /\
  ListSpec.resolve_rng 8 (tbl_of ex_uaddr) 4096
    [ListSpec.LPair 16 32; ListSpec.LPair 5 5; ListSpec.LBase 65536; ListSpec.LPair 1 2; ListSpec.LStartxLength 1 4]
  = Some [(4112, 4128); (65537, 65538); (8208, 8212)] /\
  conv_range_list ex_lcvt ex_uaddr 0 [ListsRd.EvItem (ListSpec.LStartxEndx 0 7)] = Err EUnexpectedEof /\
  conv_range_list (fun _ => None) ex_uaddr 0 [ListsRd.EvItem (ListSpec.LBase 1)] = Err CInvalidAddress /\
  conv_range_list ex_lcvt ex_uaddr 0 [ListsRd.EvItem (ListSpec.LBase 1); ListsRd.EvErr EUnknownRangeListsEntry]
  = Err EUnknownRangeListsEntry.
Proof. vm_compute. repeat split. Qed.

Example range_fits_ex : Forall (lent_fits 8) [ListSpec.LPair 16 32; ListSpec.LBase 65536; ListSpec.LStartxLength 1 4].
Proof. repeat constructor; vm_compute; reflexivity. Qed.

Example list_normal_form_ex :
  pair_form true [ListWrSpec.LOffsetPair 16 32 [x9c]; ListWrSpec.LBase (ListWrSpec.AConst 65536); ListWrSpec.LOffsetPair 1 2 []] = true /\
  ListWrSpec.pairs_of [ListWrSpec.LOffsetPair 16 32 [x9c]; ListWrSpec.LBase (ListWrSpec.AConst 65536); ListWrSpec.LOffsetPair 1 2 []]
    = Some [ListWrSpec.EPair 16 32 [x9c]; ListWrSpec.EBase 65536; ListWrSpec.EPair 1 2 []].
Proof. vm_compute. split; reflexivity. Qed.

(* ============================================================== (4) attribute values *)
Require Import GV.Model.ConvertAttr GV.Proofs.ConvertAttrProofs.
Require GV.Spec.FormSpec GV.Model.Attr GV.Spec.UnitWrSpec GV.Model.UnitWr GV.Proofs.UnitWrProofs.

(* attr_convert_sound — for every attribute whose value kind carries its meaning in the value (constants of every
   width, sdata / udata, flags, blocks, inline strings, addresses direct and through .debug_addr, supplementary /
   macro / type-signature offsets, the class constants): convert_attribute_value, then AttributeValue::write (C11
   model), then the form decoder of C11 under the form the writer chose: the data read back is the data of the
   source value (rd_payload of Attribute::value()).  Non-relocating address conversion; values within their Rust
   widths (rd_value_typed). *)
Theorem attr_convert_sound :
  forall ver files (cvt : N -> option UnitWr.address) uaddr (dbg : bool) (cx : UnitWr.wcx) form name raw av ops rest,
  (forall a w, cvt a = Some w -> w = UnitWr.AConst a) ->
  form <> Attr.DW_FORM_implicit_const -> form <> Attr.DW_FORM_flag_present ->
  is_file_index (Attr.attr_normalise name raw) = false ->
  rd_value_typed (Attr.attr_normalise name raw) ->
  (forall i a, uaddr i = Ok a -> a < 2 ^ 64) ->
  conv_attr ver files cvt uaddr form name raw = Ok (Some av) ->
  UnitWr.av_write dbg cx av = Ok ops -> UnitWrProofs.av_decodable av ->
  exists payload,
    rd_payload uaddr (Attr.attr_normalise name raw) = Some payload /\
    UnitWrSpec.form_decode (UnitWr.wc_enc cx) (UnitWr.wc_be cx) (fst (UnitWr.av_form (UnitWr.wc_enc cx) av))
                (match snd (UnitWr.av_form (UnitWr.wc_enc cx) av) with Some z => z | None => 0%Z end)
                (UnitWr.ops_bytes ops ++ rest) = Some (payload, rest).
Proof. exact attr_convert_write_read_lemma. Qed.

(* the file-index rule (repo fix b755e5a): whether the index is stored in the DIE or in the abbreviation
   (DW_FORM_implicit_const), it is replaced by the id the converted line program gave that file; index 0 of a
   DWARF <= 4 unit is "no file"; an index outside the table is InvalidFileIndex; never copied verbatim *)
Theorem attr_file_index_rule : forall ver files (cvt : N -> option UnitWr.address) uaddr form name raw i,
  Attr.attr_normalise name raw = FormSpec.VFileIndex i ->
  (form = Attr.DW_FORM_implicit_const -> exists z, raw = FormSpec.VSdata z) ->
  conv_attr ver files cvt uaddr form name raw =
    if (i =? 0) && (ver <=? 4) then Ok (Some (UnitWr.AvFileIndex None))
    else match nth_N files i with
         | Some id => Ok (Some (UnitWr.AvFileIndex (Some id)))
         | None => Err CInvalidFileIndex
         end.
Proof. exact conv_attr_file_index. Qed.

(* ... and the written index (1-based up to DWARF 4 line programs) reads back as that id (C11) *)
Theorem attr_file_index_written : forall dbg lpv id r,
  id + 1 < 2 ^ 64 -> UnitWr.file_raw dbg lpv (Some id) = Ok r -> UnitWrProofs.file_of_raw lpv r = Some id.
Proof. exact file_index_written. Qed.

(* other implicit constants keep the constant of the abbreviation; flag_present stays flag_present;
   DwoId is written as Udata, which reads back as DwoId under DW_AT_GNU_dwo_id *)
Theorem attr_implicit_const : forall ver files (cvt : N -> option UnitWr.address) uaddr name z,
  is_file_index (Attr.attr_normalise name (FormSpec.VSdata z)) = false ->
  conv_attr ver files cvt uaddr Attr.DW_FORM_implicit_const name (FormSpec.VSdata z) = Ok (Some (UnitWr.AvImplicitConst z)).
Proof. exact conv_attr_implicit_const. Qed.

Theorem attr_flag_present : forall ver files (cvt : N -> option UnitWr.address) uaddr name raw f,
  Attr.attr_normalise name raw = FormSpec.VFlag f ->
  conv_attr ver files cvt uaddr Attr.DW_FORM_flag_present name raw = Ok (Some UnitWr.AvFlagPresent).
Proof. exact conv_attr_flag_present. Qed.

Theorem attr_dwo_id_normal_form : forall v, Attr.attr_normalise 8497 (FormSpec.VUdata v) = FormSpec.VDwoId v.
Proof. exact dwo_id_normal_form. Qed.

(* ---- non-vacuity: decl_file through implicit_const in a DWARF 5 unit whose files were renumbered *)
Definition ex_acvt (a : N) : option UnitWr.address := Some (UnitWr.AConst a).
Example attr_convert_ex :
  conv_attr 5 [0; 2; 1] ex_acvt ex_uaddr Attr.DW_FORM_implicit_const 58 (FormSpec.VSdata 1) = Ok (Some (UnitWr.AvFileIndex (Some 2))) /\
  conv_attr 5 [0; 2; 1] ex_acvt ex_uaddr Attr.DW_FORM_implicit_const 58 (FormSpec.VSdata 7) = Err CInvalidFileIndex /\
  conv_attr 4 [0; 2; 1] ex_acvt ex_uaddr Attr.DW_FORM_data1 58 (FormSpec.VData1 0) = Ok (Some (UnitWr.AvFileIndex None)) /\
  conv_attr 5 [0; 2; 1] ex_acvt ex_uaddr Attr.DW_FORM_implicit_const 59 (FormSpec.VSdata 7) = Ok (Some (UnitWr.AvImplicitConst 7)) /\
  conv_attr 5 [] ex_acvt ex_uaddr Attr.DW_FORM_data1 62 (FormSpec.VData1 5) = Ok (Some (UnitWr.AvEncoding 5)) /\
  conv_attr 5 [] ex_acvt ex_uaddr Attr.DW_FORM_addrx 17 (FormSpec.VDebugAddrIndex 1) = Ok (Some (UnitWr.AvAddress (UnitWr.AConst 8208))) /\
  conv_attr 5 [] ex_acvt ex_uaddr Attr.DW_FORM_data8 8497 (FormSpec.VData8 77) = Ok (Some (UnitWr.AvUdata 77)) /\
  conv_attr 5 [] ex_acvt ex_uaddr Attr.DW_FORM_sec_offset 1 (FormSpec.VSecOffset 3) = Err CInvalidAttributeValue /\
  conv_attr 5 [] ex_acvt ex_uaddr Attr.DW_FORM_ref4 73 (FormSpec.VUnitRef 12) = Ok None.
Proof. vm_compute. repeat split. Qed.

(* ============================================================== (5) ConvertLineProgram (line programs)
   Model/ConvertLine.v mirrors write::line::convert (new, convert_file, read_row, read_sequence, convert) over the
   line READER model of C04 (Model/LineRd.v) and the line WRITER model of C13 (Model/LineWr.v); it is tied to gimli
   by stream c12.lineconv. Names below are qualified: CL = Model/ConvertLine, CLP = Proofs/ConvertLineProofs.

   FULL statement aimed at (line_convert_sound):  convert p = Ok p' and not KnownClass p ->
       rows (read (write p')) = rows p, sequence by sequence (addresses = sequence base + address_offset).
   PROVED here: the per-call and per-instruction halves of it —
     line_convert_error_or_exact   the address offset and every row register are copied verbatim, the file register
                                   is mapped through the FileId table, or the call returns the specific error
                                   (unaligned offset -> UnsupportedLineInstruction, never a truncated offset);
     line_convert_offset_exact     every instruction except DW_LNE_set_address acts on the converter's private row
                                   (address = offset from the sequence base) exactly as the reader executes it on
                                   the real row: offset' = address' - base; a reader success is a converter success;
     line_convert_set_address_*    DW_LNE_set_address at offset 0 keeps the private row at 0 (so base := operand is
                                   exact); after the row has advanced it TOMBSTONES the private row — the F10 class;
     line_convert_midseq_refuted / line_convert_vliw_refuted   the two known findings, as model witnesses.
     line_convert_sound_script_partial   the whole-program simulation (see below): events = reader rows.
   MISSING for the full statement: tombstone operands and the composition with C13's program_roundtrip_* (see the
   comment at line_convert_sound_script_partial); whole programs are additionally decided by the oracle streams
   c12.line / c12.vliw / c12.line5 and by the model stream c12.lineconv. *)
Require GV.Spec.LineSpec GV.Model.LineRd GV.Model.LineWr GV.Model.ConvertLine GV.Proofs.LineRdMono
        GV.Proofs.ConvertLineProofs GV.Proofs.ConvertLineSafe GV.Proofs.ConvertLineSim.

Theorem line_convert_address_offset_exact : forall c,
  match ConvertLine.convert_address_offset c with
  | Ok a => a = LineRd.r_addr (ConvertLine.cl_row c) /\
            (LineWr.le_min_len (LineWr.p_lenc (ConvertLine.cl_prog c)) <= 1 \/
             a mod LineWr.le_min_len (LineWr.p_lenc (ConvertLine.cl_prog c)) = 0)
  | Err e => e = CUnsupportedLineInstruction /\ 1 < LineWr.le_min_len (LineWr.p_lenc (ConvertLine.cl_prog c)) /\
             LineRd.r_addr (ConvertLine.cl_row c) mod LineWr.le_min_len (LineWr.p_lenc (ConvertLine.cl_prog c)) <> 0
  | _ => False
  end.
Proof. exact ConvertLineProofs.address_offset_exact. Qed.

Theorem line_convert_error_or_exact : forall h c,
  match ConvertLine.convert_row h c with
  | Ok w => ConvertLineProofs.row_fields_verbatim (ConvertLine.cl_row c) w /\
            nth_error (ConvertLine.cl_files c) (N.to_nat (LineRd.r_file (ConvertLine.cl_row c))) = Some (LineWr.w_file w) /\
            (LineSpec.h_version h <= 4 -> LineRd.r_file (ConvertLine.cl_row c) <> 0) /\
            (LineWr.le_min_len (LineWr.p_lenc (ConvertLine.cl_prog c)) <= 1 \/
             LineWr.w_address_offset w mod LineWr.le_min_len (LineWr.p_lenc (ConvertLine.cl_prog c)) = 0)
  | Err e => (e = CUnsupportedLineInstruction /\ 1 < LineWr.le_min_len (LineWr.p_lenc (ConvertLine.cl_prog c)) /\
              LineRd.r_addr (ConvertLine.cl_row c) mod LineWr.le_min_len (LineWr.p_lenc (ConvertLine.cl_prog c)) <> 0) \/
             (e = CInvalidFileIndex /\
              (N.of_nat (length (ConvertLine.cl_files c)) <= LineRd.r_file (ConvertLine.cl_row c) \/
               (LineRd.r_file (ConvertLine.cl_row c) = 0 /\ LineSpec.h_version h <= 4)))
  | _ => False
  end.
Proof. exact ConvertLineProofs.convert_row_exact. Qed.

Theorem line_convert_offset_exact : forall dbg h r i b r' x,
  LineRdMono.hdr_ok h -> LineRd.r_tomb r = false -> b <= LineRd.r_addr r ->
  (forall a, i <> LineSpec.ISetAddress a) ->
  LineRd.execute dbg h r i = Ok (r', x) -> (forall e, x <> LineRd.XErr e) ->
  LineRd.execute dbg h (ConvertLineProofs.rebase b r) i = Ok (ConvertLineProofs.rebase b r', x) /\
  LineRd.r_tomb r' = false /\ b <= LineRd.r_addr r'.
Proof. exact ConvertLineProofs.execute_rebase. Qed.

Theorem line_convert_set_address_first : forall dbg h q,
  LineRdMono.hdr_ok h -> LineRd.r_addr q = 0 ->
  LineRd.execute dbg h q (LineSpec.ISetAddress 0) =
    Ok (LineRd.set_opi (LineRd.set_addr (LineRd.set_tomb q false) 0) 0, LineRd.XNoRow).
Proof. exact ConvertLineProofs.set_address_zero. Qed.

Theorem line_convert_set_address_midseq : forall dbg h q,
  0 < LineRd.r_addr q ->
  LineRd.execute dbg h q (LineSpec.ISetAddress 0) = Ok (LineRd.set_tomb q true, LineRd.XNoRow).
Proof. exact ConvertLineProofs.set_address_midseq. Qed.

(* the hypotheses are met by real rows: C04's sample header, a row at 0x1010 seen from base 0x1000 *)
Example line_convert_offset_exact_hyps :
  LineRdMono.hdr_ok LineRdMono.sample_header /\
  LineRd.execute true LineRdMono.sample_header
    (LineRd.set_addr (LineRd.row_new LineRdMono.sample_header) 4112) (LineSpec.IAdvancePc 3) =
    Ok (LineRd.set_addr (LineRd.row_new LineRdMono.sample_header) 4115, LineRd.XNoRow) /\
  LineRd.execute true LineRdMono.sample_header
    (ConvertLineProofs.rebase 4096 (LineRd.set_addr (LineRd.row_new LineRdMono.sample_header) 4112)) (LineSpec.IAdvancePc 3) =
    Ok (LineRd.set_addr (LineRd.row_new LineRdMono.sample_header) 19, LineRd.XNoRow).
Proof. split; [exact (proj1 LineRdMono.hdr_ok_examples)|]. vm_compute. split; reflexivity. Qed.

(* line_convert_no_panic (both build modes, EVERY byte string as the program, every header that
   LineProgramHeader::parse can return — C04's hdr_ok, see parse_header_hdr_ok —, INCLUDING VLIW headers):
   a read_row call never panics and never runs out of fuel, keeps the private row inside the address size, and
   every returned event strictly decreases the measure 2 * |remaining input| + state weight; hence the
   whole-program iteration `while let Some(row) = convert.read_row()?` terminates within its fuel.
   (The writer half of convert — generate_row / end_sequence — can panic exactly in the VLIW class: see
   line_convert_vliw_refuted and C13's op_advance_overflow_refuted.) *)
Theorem line_convert_no_panic : forall dbg be sx h c,
  LineRdMono.hdr_ok h -> ConvertLineSafe.cl_ok h c ->
  fst (ConvertLine.read_row dbg be sx h c) <> Panic /\
  fst (ConvertLine.read_row dbg be sx h c) <> OutOfFuel /\
  ConvertLineSafe.cl_ok h (snd (ConvertLine.read_row dbg be sx h c)) /\
  (forall ev, fst (ConvertLine.read_row dbg be sx h c) = Ok (Some ev) ->
     (ConvertLineSafe.measure (snd (ConvertLine.read_row dbg be sx h c)) < ConvertLineSafe.measure c)%nat).
Proof. exact ConvertLineSafe.read_row_safe. Qed.

Theorem line_convert_events_terminate : forall dbg be sx h c,
  LineRdMono.hdr_ok h -> ConvertLineSafe.cl_ok h c ->
  snd (fst (ConvertLine.events dbg be sx h c)) <> LineRd.SPanic /\
  snd (fst (ConvertLine.events dbg be sx h c)) <> LineRd.SFuel.
Proof. exact ConvertLineSafe.events_terminate. Qed.

(* the state ConvertLineProgram::new returns satisfies the invariant (private row at offset 0, state ReadRow) *)
Theorem line_convert_new_ok : forall dbg sx s ls c,
  ConvertLine.cl_new dbg sx s ls = Ok c ->
  ConvertLineSafe.cl_ok (ConvertLine.sh_h s) c /\ ConvertLine.cl_st c = ConvertLine.CSReadRow.
Proof. exact ConvertLineSafe.cl_new_ok. Qed.

(* a decoded DW_LNE_define_file entry converts to a new FileId or a specific error, never a panic *)
Theorem line_convert_define_file_safe : forall dbg be h inp f rest sx dirs ls p,
  LineRd.parse_insn dbg be h inp = Ok (LineSpec.IDefineFile f, rest) ->
  match ConvertLine.convert_file sx (LineWr.p_enc p) dirs ls f with
  | Ok (name, d, info, ls') => exists r, LineWr.add_file p name d info = Ok r
  | Err _ => True
  | _ => False
  end.
Proof.
  intros dbg be h inp f rest sx dirs ls p H.
  exact (ConvertLineSafe.define_file_safe sx dirs ls p f (ConvertLineSafe.parse_define_file dbg be h inp f rest H)).
Qed.

Example line_convert_no_panic_hyps : forall dbg,
  LineRdMono.hdr_ok ConvertLineProofs.wit_vliw /\
  exists c, ConvertLine.cl_new dbg ConvertLineProofs.wit_sx (ConvertLine.mk_src ConvertLineProofs.wit_vliw None None) [] = Ok c.
Proof.
  intros dbg. split.
  - unfold LineRdMono.hdr_ok, LineRdMono.asz_ok. cbn. repeat split; discriminate.
  - destruct dbg; vm_compute; eexists; reflexivity.
Qed.

(* line_convert_sound, SCRIPT LEVEL (Proofs/ConvertLineSim.v: a lock-step simulation between C04's
   LineRows::next_row on the real row and ConvertLineProgram::read_row on its private row, every instruction, the
   SetAddress / ConvertRow states, define_file, any bytes as the program).
   For every header LineProgramHeader::parse can return (hdr_ok; VLIW headers included), both build modes, every
   program outside the F10 class (known_midseq = false) none of whose DW_LNE_set_address operands is the value -2
   at the address size (addrs_below: operand <> 2^(8*address_size) - 2; the DWARF tombstone -1 IS inside the class:
   reader and converter both drop such a sequence, rows and end_sequence, and restart — proved as the second mode of
   the simulation, ConvertLineSim.tomb_stmt): IF the reader's rows() runs to the end and the
   converter's `while let Some(row) = read_row()?` runs to the end, THEN the events are exactly the reader's rows
   (ConvertLineSim.ev_match): erasing the SetAddress events, event k is row k; a Row event has
   address = (last SetAddress of the sequence, 0 if none) + address_offset, op_index, line, column, discriminator,
   is_stmt, basic_block, prologue_end, epilogue_begin, isa verbatim and file = files[file register] in the final
   FileId table; an EndSequence event is the reader's end_sequence row at base + offset (for a sequence without any
   row only its end_sequence flag is claimed: the converter swallows the pending address of an empty sequence).
   With C13's meaning of a writer script (address = base + address_offset, other registers verbatim:
   LineWrSeqProofs.meaning) this is "writer script meaning = reader rows".
   _partial because two clauses are missing: (1) a sequence whose DW_LNE_set_address operand is exactly -2
   (gimli's reader treats -2 as a tombstone too, the converter only -1): the reader drops it, the converter KEEPS it
   as a sequence headed by SetAddress(-2) — dropped again by the reader when the converted program is read back — and,
   if it has no row, as a lone EndSequence(offset) whose address was swallowed (line_convert_tombstone_witnesses shows
   all three behaviours on the model; c12.lineconv ties them); the general statement for that class (events = reader
   rows + such ghost sequences) is not proved;
   (2) the last composition step rows(read(write(script))) = meaning(script) is C13's program_roundtrip_v2_v4 / _v5,
   whose hypothesis script_ok (offsets monotone and aligned: provable from line_convert_no_panic's invariant and
   line_convert_error_or_exact; operation advance < 2^64: the VLIW / C13 known findings) is not discharged here. *)
Theorem line_convert_sound_script_partial : forall dbg be sx s ls c0 rs evs cf,
  LineRdMono.hdr_ok (ConvertLine.sh_h s) ->
  ConvertLine.known_midseq dbg be (ConvertLine.sh_h s) = false ->
  ConvertLineSim.addrs_below (ConvertLineSim.mtomb (ConvertLine.sh_h s))
    (fst (LineRd.insns_model dbg be (ConvertLine.sh_h s))) = true ->
  ConvertLine.cl_new dbg sx s ls = Ok c0 ->
  LineRd.rows_model dbg be (ConvertLine.sh_h s) = (rs, LineRd.SEnd) ->
  ConvertLine.events dbg be sx (ConvertLine.sh_h s) c0 = (evs, LineRd.SEnd, cf) ->
  ConvertLineSim.ev_match (ConvertLine.cl_files cf) 0 false evs rs.
Proof. exact ConvertLineSim.convert_events_sound. Qed.

(* the hypotheses are met by a two-sequence program (special opcodes, advance_pc, fixed_advance_pc, set_file; the
   second sequence has no set_address): reader rows at 0x3001 0x3006 0x301b, end 0x301b, then 0, end 3; events
   SetAddress 0x3000, Row +1 +6 +27, EndSequence 27, Row 0, EndSequence 3 *)
Example line_convert_sound_script_hyps : forall dbg,
  LineRdMono.hdr_ok ConvertLineSim.wit_plain /\
  ConvertLine.known_midseq dbg true ConvertLineSim.wit_plain = false /\
  ConvertLineSim.addrs_below (ConvertLineSim.mtomb ConvertLineSim.wit_plain)
    (fst (LineRd.insns_model dbg true ConvertLineSim.wit_plain)) = true /\
  ConvertLineSim.plain_summary dbg =
    Some (LineRd.SEnd, [12289; 12294; 12315; 12315; 0; 3], LineRd.SEnd,
          [(0, 12288); (1, 1); (1, 6); (1, 27); (2, 27); (1, 0); (2, 3)]).
Proof. exact ConvertLineSim.plain_witness. Qed.

(* line_convert_sound, SCRIPT LEVEL, EVERY operand (clause (1) of the _partial theorem above closed): for every
   hdr_ok header, both build modes, EVERY program outside the F10 class — no condition on the set_address operands —
   if rows() and the read_row iteration both run to the end, the events are the reader's rows PLUS ghost sequences
   (ConvertLineSim.ev_match2 = ev_match extended by two clauses):
     * a sequence headed by the event SetAddress(2^(8*address_size) - 2) [the -2 value: gimli's reader treats it as a
       tombstone, the converter does not] with its Row events and its EndSequence corresponds to NO reader row — and
       the reader drops it again when the converted program is read back, because the operand is carried verbatim;
     * a lone EndSequence(offset) with no row before it may correspond to no reader row: the source had an EMPTY -2
       sequence whose pending address the converter swallowed (read back it is an empty sequence [0, offset): a
       silent but row-less difference, invisible to the dump oracle which drops empty sequences; see notes);
     * sequences whose operand is the DWARF tombstone -1 produce no event at all, like no reader row.
   Proof: the simulation has three modes (live / tombstoned on both sides / ghost), Proofs/ConvertLineSim.v sim_both,
   and an outer induction over the converter's calls with the reader's pending next_row loop (sim_rows2).
   Still missing for the full line_convert_sound: the composition with C13 (see notes: the end_sequence row of the
   converted program carries the registers of the previous row, not those of the source's end_sequence row, so the
   end-to-end equality can only be claimed modulo the non-address registers of end_sequence rows). *)
Theorem line_convert_sound_script : forall dbg be sx s ls c0 rs evs cf,
  LineRdMono.hdr_ok (ConvertLine.sh_h s) ->
  ConvertLine.known_midseq dbg be (ConvertLine.sh_h s) = false ->
  ConvertLine.cl_new dbg sx s ls = Ok c0 ->
  LineRd.rows_model dbg be (ConvertLine.sh_h s) = (rs, LineRd.SEnd) ->
  ConvertLine.events dbg be sx (ConvertLine.sh_h s) c0 = (evs, LineRd.SEnd, cf) ->
  ConvertLineSim.ev_match2 (ConvertLine.cl_files cf) (ConvertLineSim.mtomb (ConvertLine.sh_h s)) 0 false false evs rs.
Proof. exact ConvertLineSim.convert_events_sound_all. Qed.

(* ---- clause (2), first half: convert() and C13.
   line_convert_is_replay: ConvertLineProgram::convert = the read_row iteration replayed through the writer API
   (set_address / generate_row / end_sequence) — read_row does not depend on the writer calls made in between
   (Proofs/ConvertLineReplay.v read_loop_reprog); line_convert_replay_is_script: with the identity address conversion
   that replay is C13's apply_rops on the script script_of(events); line_convert_emits_meaning: composed with C13's
   script_correct — for a fresh program, if the iteration ends normally and the script satisfies C13's script_ok (it
   fails exactly in the VLIW / advance-overflow known-finding classes), convert() does not panic, returns Ok or
   MissingLineEndSequence, and the emitted instructions run on the DWARF state machine (Spec/LineAdvSpec) give exactly
   C13's meaning of the event script — which line_convert_sound_script relates to the reader's rows of the source.
   STILL MISSING for the end-to-end line_convert_sound: (a) script_ok is a hypothesis here, not derived from hdr_ok
   and max_ops = 1; (b) the byte level (LineWr.write / parse_header, C13's program_roundtrip_v2_v4/_v5 with its table
   hypotheses and define_file interleaving); (c) the equality can only hold modulo the non-address registers of
   end_sequence rows (end_sequence re-emits the previous row's registers). *)
Require GV.Proofs.ConvertLineReplay GV.Proofs.LineWrSeqProofs.

Theorem line_convert_is_replay : forall dbg be sx h caddr c,
  ConvertLine.convert dbg be sx h caddr c =
  let '(evs, s, cf) := ConvertLine.events dbg be sx h c in
  match ConvertLineReplay.replay dbg caddr (ConvertLine.cl_prog c) evs with
  | Ok q' => match s with
             | LineRd.SEnd => if LineWr.p_in_seq q' then Err CMissingLineEndSequence
                              else Ok (ConvertLineReplay.reprog q' cf)
             | LineRd.SErr e => Err e | LineRd.SPanic => Panic | LineRd.SFuel => OutOfFuel
             end
  | Err e => Err e | Panic => Panic | OutOfFuel => OutOfFuel
  end.
Proof. exact ConvertLineReplay.convert_is_replay. Qed.

Theorem line_convert_replay_is_script : forall dbg evs q,
  ConvertLineReplay.replay dbg (fun a => Some (LineWr.AConst a)) q evs =
  LineWrSeqProofs.apply_rops dbg q (ConvertLineReplay.script_of (LineWr.w_op_index (LineWr.p_row q)) evs).
Proof. exact ConvertLineReplay.replay_is_script. Qed.

Theorem line_convert_emits_meaning : forall dbg be sx h c evs cf,
  let p := ConvertLine.cl_prog c in
  LineWr.p_insns p = [] -> LineWr.p_prev p = LineWr.wrow_initial (LineWr.p_enc p) (LineWr.p_lenc p) ->
  LineWr.p_row p = LineWr.wrow_initial (LineWr.p_enc p) (LineWr.p_lenc p) -> LineWr.p_in_seq p = false ->
  LineWrProofs.enc_ok (LineWr.p_lenc p) -> (LineWr.e_version (LineWr.p_enc p) <= 5)%N ->
  ConvertLine.events dbg be sx h c = (evs, LineRd.SEnd, cf) ->
  LineWrSeqProofs.script_ok (LineWr.p_enc p) (LineWr.p_lenc p)
    (LineWr.wrow_initial (LineWr.p_enc p) (LineWr.p_lenc p)) false (ConvertLineReplay.script_of 0 evs) ->
  exists q',
    ConvertLine.convert dbg be sx h (fun a => Some (LineWr.AConst a)) c =
      (if LineWr.p_in_seq q' then Err CMissingLineEndSequence else Ok (ConvertLineReplay.reprog q' cf)) /\
    Forall LineWrProofs.special_ok (LineWr.p_insns q') /\
    LineAdvSpec.rows_of (LineWr.params_of (LineWr.p_lenc p))
      (map (LineWr.denote (LineWr.e_version (LineWr.p_enc p))) (LineWr.p_insns q')) =
      fst (LineWrSeqProofs.meaning (LineWr.e_version (LineWr.p_enc p)) (LineWr.params_of (LineWr.p_lenc p))
             (LineAdvSpec.init_regs (LineWr.params_of (LineWr.p_lenc p)), 0%N) (ConvertLineReplay.script_of 0 evs)).
Proof. exact ConvertLineReplay.convert_emits_meaning. Qed.

(* every hypothesis of line_convert_emits_meaning holds for the state ConvertLineProgram::new returns on the
   two-sequence witness program (script_ok included) *)
Example line_convert_emits_meaning_hyps : forall dbg,
  match ConvertLineReplay.plain_c0 dbg with
  | Some c0 =>
      let p := ConvertLine.cl_prog c0 in
      LineWr.p_insns p = [] /\ LineWr.p_prev p = LineWr.wrow_initial (LineWr.p_enc p) (LineWr.p_lenc p) /\
      LineWr.p_row p = LineWr.wrow_initial (LineWr.p_enc p) (LineWr.p_lenc p) /\
      LineWr.p_in_seq p = false /\ LineWrProofs.enc_ok (LineWr.p_lenc p) /\ (LineWr.e_version (LineWr.p_enc p) <= 5)%N /\
      snd (fst (ConvertLine.events dbg true ConvertLineProofs.wit_sx ConvertLineSim.wit_plain c0)) = LineRd.SEnd /\
      LineWrSeqProofs.script_ok (LineWr.p_enc p) (LineWr.p_lenc p)
        (LineWr.wrow_initial (LineWr.p_enc p) (LineWr.p_lenc p)) false
        (ConvertLineReplay.script_of 0 (fst (fst (ConvertLine.events dbg true ConvertLineProofs.wit_sx ConvertLineSim.wit_plain c0))))
  | None => False
  end.
Proof. exact ConvertLineReplay.plain_script_ok. Qed.

(* tombstone operands on the model: -1 is dropped by both sides (inside the theorem's class); -2 is dropped by the
   reader and kept by the converter (outside); an empty -2 sequence leaves a lone EndSequence *)
Theorem line_convert_tombstone_witnesses : forall dbg,
  ConvertLineSim.addrs_below (ConvertLineSim.mtomb (ConvertLineSim.wit_tomb xff))
    (fst (LineRd.insns_model dbg true (ConvertLineSim.wit_tomb xff))) = true /\
  ConvertLine.known_midseq dbg true (ConvertLineSim.wit_tomb xff) = false /\
  ConvertLineSim.tomb_summary dbg (ConvertLineSim.wit_tomb xff) =
    Some (LineRd.SEnd, [12288; 12291], LineRd.SEnd, [(0, 12288); (1, 0); (2, 3)]) /\
  ConvertLineSim.addrs_below (ConvertLineSim.mtomb (ConvertLineSim.wit_tomb xfe))
    (fst (LineRd.insns_model dbg true (ConvertLineSim.wit_tomb xfe))) = false /\
  ConvertLineSim.tomb_summary dbg (ConvertLineSim.wit_tomb xfe) =
    Some (LineRd.SEnd, [12288; 12291], LineRd.SEnd,
          [(0, 4294967294); (1, 1); (2, 6); (0, 12288); (1, 0); (2, 3)]) /\
  ConvertLineSim.tomb_summary dbg ConvertLineSim.wit_tomb_empty = Some (LineRd.SEnd, [], LineRd.SEnd, [(2, 4)]).
Proof. exact ConvertLineSim.tombstone_witnesses. Qed.

(* the class predicate is exactly "outside F10 and below the tombstones" *)
Theorem line_convert_plain_class : forall mt is moved,
  ConvertLineSim.plain_scan true mt is moved =
  negb (ConvertLine.midseq_scan is moved) && ConvertLineSim.addrs_below mt is.
Proof. exact (ConvertLineSim.plain_scan_iff true). Qed.

(* the two known-finding classes (Model/ConvertLine.v known_midseq = the class of harness/src/c12.rs
   midseq_set_address; known_vliw = maximum_operations_per_instruction > 1), with model witnesses *)
Theorem line_convert_midseq_refuted : forall dbg,
  ConvertLine.known_midseq dbg true ConvertLineProofs.wit_midseq = true /\
  map LineRd.r_addr (fst (LineRd.rows_model dbg true ConvertLineProofs.wit_midseq)) = [12303; 14338] /\
  snd (LineRd.rows_model dbg true ConvertLineProofs.wit_midseq) = LineRd.SEnd /\
  ConvertLineProofs.wit_events dbg true ConvertLineProofs.wit_midseq =
    Some ([ConvertLine.CRSetAddress 12288;
           ConvertLine.CRRow (LineWr.mkWrow 15 0 0 5 0 0 true false false false 0);
           ConvertLine.CREndSequence 15], LineRd.SEnd) /\
  ConvertLineProofs.wit_convert dbg true ConvertLineProofs.wit_midseq =
    Some (Ok [LineWr.ISetAddress (LineWr.AConst 12288); LineWr.ISpecial 232; LineWr.IEndSequence]).
Proof. exact ConvertLineProofs.midseq_witness. Qed.

Theorem line_convert_vliw_refuted :
  ConvertLine.known_vliw ConvertLineProofs.wit_vliw = true /\
  ConvertLine.known_midseq true false ConvertLineProofs.wit_vliw = false /\
  ConvertLineProofs.wit_convert true false ConvertLineProofs.wit_vliw = Some Panic /\
  ConvertLineProofs.wit_convert false false ConvertLineProofs.wit_vliw =
    Some (Ok [LineWr.ISetAddress (LineWr.AConst 12288); LineWr.ISpecial 32;
              LineWr.IAdvancePc 18446744073709551615; LineWr.ICopy; LineWr.IEndSequence]).
Proof. exact ConvertLineProofs.vliw_witness. Qed.

Check cfi_offset_exact_or_error. Check cfi_factored_offset_exact_or_error. Check cfi_factors_exact_or_error.
Check cfi_advance_exact_or_error. Check cfi_insn_convert_sound. Check cfi_insn_convert_each.
Check cfi_convert_write_read_sound. Check cfi_normal_form_cie. Check cfi_normal_form_fde.
Check expr_convert_sound. Check expr_convert_sound_bytes. Check expr_branch_target_exact. Check expr_offsets_sorted.
Check expr_converted_well_typed. Check expr_fuel_suffices. Check expr_normal_form_partial.
Check range_convert_sound. Check loc_convert_sound. Check list_normal_form_v5. Check list_normal_form_v4.
Check attr_convert_sound. Check attr_file_index_rule. Check attr_file_index_written. Check attr_implicit_const.
Check attr_flag_present. Check attr_dwo_id_normal_form.
Check line_convert_address_offset_exact. Check line_convert_error_or_exact. Check line_convert_offset_exact.
Check line_convert_set_address_first. Check line_convert_set_address_midseq.
Check line_convert_midseq_refuted. Check line_convert_vliw_refuted.
Check line_convert_no_panic. Check line_convert_events_terminate. Check line_convert_new_ok.
Check line_convert_define_file_safe.
Check line_convert_sound_script_partial. Check line_convert_plain_class.
Check line_convert_tombstone_witnesses.
Check line_convert_sound_script.
Check line_convert_is_replay. Check line_convert_replay_is_script. Check line_convert_emits_meaning.

(* ---- follow-up: two conjuncts of C13's script_ok derived for the event script (Proofs/ConvertLineInv.v): the private
   row's line register stays below 2^64 and, for maximum_operations_per_instruction = 1, its op_index stays 0 — an
   invariant of LineRow::execute and reset threaded through read_row; so every Row event of the iteration started
   from ConvertLineProgram::new's state has line < 2^64 and (max_ops = 1) op_index = 0. Any bytes, both build modes. *)
Require GV.Proofs.ConvertLineInv.
Theorem line_convert_events_lines_bounded : forall dbg be sx h c,
  ConvertLine.cl_row c = LineRd.row_new h ->
  Forall (ConvertLineInv.ev_ok h) (fst (fst (ConvertLine.events dbg be sx h c))).
Proof. exact ConvertLineInv.events_rows_bounded. Qed.
Theorem line_convert_events_op_index_zero : forall dbg be sx h c w,
  ConvertLine.cl_row c = LineRd.row_new h -> LineSpec.h_max_ops h = 1 ->
  In (ConvertLine.CRRow w) (fst (fst (ConvertLine.events dbg be sx h c))) ->
  LineWr.w_op_index w = 0 /\ LineWr.w_line w < two64.
Proof.
  intros dbg be sx h c w E M Hin.
  pose proof (ConvertLineInv.events_rows_bounded dbg be sx h c E) as F.
  rewrite Forall_forall in F. destruct (F _ Hin) as [A B]. split; [exact (B M)|exact A].
Qed.
Check line_convert_events_lines_bounded. Check line_convert_events_op_index_zero.

(* a third conjunct of script_ok: every Row / EndSequence offset of the iteration is a multiple of the converted
   program's minimum_instruction_length (or that length is 1) — any bytes, any state, both build modes *)
Theorem line_convert_events_offsets_aligned : forall dbg be sx h c,
  Forall (ConvertLineInv.ev_aligned (LineWr.le_min_len (LineWr.p_lenc (ConvertLine.cl_prog c))))
         (fst (fst (ConvertLine.events dbg be sx h c))).
Proof. exact ConvertLineInv.events_offsets_aligned. Qed.
Check line_convert_events_offsets_aligned.

(* script_ok reduced to a first-order predicate on the event list (Proofs/ConvertLineScript.v evs_ok: offsets
   non-decreasing within a sequence, multiples of minimum_instruction_length, below 2^64; line below 2^64; op_index 0)
   for maximum_operations_per_instruction = 1. Of these, line / op_index (line_convert_events_lines_bounded,
   _op_index_zero) and the alignment (line_convert_events_offsets_aligned) are proved invariants of read_row.
   MISSING for line_convert_emits_meaning_closed: "offsets non-decreasing within a sequence and <= the address mask"
   — it holds only outside the F10 class (after rows, a DW_LNE_set_address -1 followed by end_sequence makes the
   converter restart at offset 0 WITHOUT an EndSequence event: the writer then sees a decreasing offset), so it needs
   the instruction-scan lock-step of ConvertLineSim (not threaded in the 30 minutes). *)
Require GV.Proofs.ConvertLineScript.
Theorem line_convert_script_ok_of_events : forall e l,
  LineWr.le_max_ops l = 1 -> 1 <= LineWr.le_min_len l -> LineWr.le_min_len l <> 0 ->
  forall evs prev b opi,
  opi = 0 -> LineWr.w_op_index prev = 0 -> LineWr.w_line prev < two64 ->
  LineWr.w_address_offset prev mod LineWr.le_min_len l = 0 ->
  ConvertLineScript.evs_ok (LineWr.le_min_len l) (LineWr.w_address_offset prev) evs ->
  LineWrSeqProofs.script_ok e l prev b (ConvertLineReplay.script_of opi evs).
Proof. exact ConvertLineScript.evs_script_ok. Qed.

Theorem line_convert_emits_meaning_evs : forall dbg be sx h c evs cf,
  let p := ConvertLine.cl_prog c in
  LineWr.p_insns p = [] -> LineWr.p_prev p = LineWr.wrow_initial (LineWr.p_enc p) (LineWr.p_lenc p) ->
  LineWr.p_row p = LineWr.wrow_initial (LineWr.p_enc p) (LineWr.p_lenc p) -> LineWr.p_in_seq p = false ->
  LineWrProofs.enc_ok (LineWr.p_lenc p) -> LineWr.le_max_ops (LineWr.p_lenc p) = 1 ->
  (LineWr.e_version (LineWr.p_enc p) <= 5)%N ->
  ConvertLine.events dbg be sx h c = (evs, LineRd.SEnd, cf) ->
  ConvertLineScript.evs_ok (LineWr.le_min_len (LineWr.p_lenc p)) 0 evs ->
  exists q',
    ConvertLine.convert dbg be sx h (fun a => Some (LineWr.AConst a)) c =
      (if LineWr.p_in_seq q' then Err CMissingLineEndSequence else Ok (ConvertLineReplay.reprog q' cf)) /\
    Forall LineWrProofs.special_ok (LineWr.p_insns q') /\
    LineAdvSpec.rows_of (LineWr.params_of (LineWr.p_lenc p))
      (map (LineWr.denote (LineWr.e_version (LineWr.p_enc p))) (LineWr.p_insns q')) =
      fst (LineWrSeqProofs.meaning (LineWr.e_version (LineWr.p_enc p)) (LineWr.params_of (LineWr.p_lenc p))
             (LineAdvSpec.init_regs (LineWr.params_of (LineWr.p_lenc p)), 0%N) (ConvertLineReplay.script_of 0 evs)).
Proof. exact ConvertLineScript.convert_emits_meaning_evs. Qed.
Check line_convert_script_ok_of_events. Check line_convert_emits_meaning_evs.
