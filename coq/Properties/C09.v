(* Properties/C09.v — Primitive codecs: LEB128, sized integers and lengths are exact.
   Only statements (`exact lemma`), non-vacuity examples and pins live here. *)
From Coq Require Import List NArith ZArith Bool.
From Coq.Strings Require Import Byte.
Require Import GV.Base.Res GV.Base.Byt GV.Base.Ints.
Require Import GV.Spec.LebSpec GV.Spec.PrimSpec GV.Model.Leb GV.Model.Prim GV.Proofs.LebProofs GV.Proofs.PrimProofs.
Import ListNotations.
Local Open Scope N_scope.

(* For EVERY byte string and both build modes the unsigned reader returns exactly the mathematical
   value of the unique terminated prefix and the remaining bytes; it accepts exactly the encodings of
   at most 10 bytes whose value fits u64 (zero-padded non-minimal ones included), rejects every other
   terminated encoding with BadUnsignedLeb128, reports ten continuation bytes as BadUnsignedLeb128 and
   a shorter unterminated input as UnexpectedEof. In particular it never panics and never wraps. *)
Theorem uleb_exact : forall (dbg : bool) (bs : list byte),
  read_uleb128 dbg bs =
  match split_leb bs with
  | None => if (10 <=? length bs)%nat then Err EBadUnsignedLeb128 else Err EUnexpectedEof
  | Some (enc, rest) =>
      if (length enc <=? 10)%nat && (uval enc <? 2 ^ 64) then Ok (uval enc, rest)
      else Err EBadUnsignedLeb128
  end.
Proof. exact read_uleb128_exact. Qed.

(* Same for the signed reader: two's complement at 7*|enc| bits, accepted iff it fits i64. *)
Theorem sleb_exact : forall (dbg : bool) (bs : list byte),
  read_sleb128 dbg bs =
  match split_leb bs with
  | None => if (10 <=? length bs)%nat then Err EBadSignedLeb128 else Err EUnexpectedEof
  | Some (enc, rest) =>
      if (length enc <=? 10)%nat && in_i64 (sval enc) then Ok (sval enc, rest)
      else Err EBadSignedLeb128
  end.
Proof. exact read_sleb128_exact. Qed.

(* non-vacuity / sanity: DWARF 4 figure 22/23 examples and the width boundary *)
Example uleb_ex1 : read_uleb128 true [xe5; x8e; x26; xaa] = Ok (624485, [xaa]).
Proof. vm_compute. reflexivity. Qed.
Example sleb_ex1 : read_sleb128 true [xc0; xbb; x78] = Ok ((-123456)%Z, []).
Proof. vm_compute. reflexivity. Qed.
Example uleb_ex_max : read_uleb128 true [xff; xff; xff; xff; xff; xff; xff; xff; xff; x01] = Ok (2 ^ 64 - 1, []).
Proof. vm_compute. reflexivity. Qed.
Example uleb_ex_overflow : read_uleb128 false [xff; xff; xff; xff; xff; xff; xff; xff; xff; x02] = Err EBadUnsignedLeb128.
Proof. vm_compute. reflexivity. Qed.
Example sleb_ex_min : read_sleb128 true [x80; x80; x80; x80; x80; x80; x80; x80; x80; x7f] = Ok ((- 2 ^ 63)%Z, []).
Proof. vm_compute. reflexivity. Qed.

(* ------------------------------------------------------------------------------------------------ *)
(* 1. The 16-bit reader (leb128::read::u16): accepts exactly the encodings of at most three bytes whose
   value fits u16 (so a third byte > 3 — in particular one with the continuation bit — is rejected),
   for EVERY byte string. The right-hand side contains no Panic: the `result += byte << 14` addition
   can never overflow. *)
Theorem uleb16_exact : forall bs : list byte,
  read_uleb128_u16 bs =
  match split_leb bs with
  | None => if (3 <=? length bs)%nat then Err EBadUnsignedLeb128 else Err EUnexpectedEof
  | Some (enc, rest) =>
      if (length enc <=? 3)%nat && (uval enc <? 2 ^ 16) then Ok (uval enc, rest)
      else Err EBadUnsignedLeb128
  end.
Proof. exact read_uleb128_u16_exact. Qed.

Theorem uleb16_never_panics : forall bs : list byte,
  read_uleb128_u16 bs <> Panic /\ read_uleb128_u16 bs <> OutOfFuel.
Proof. exact read_uleb128_u16_no_panic. Qed.

(* 2. Reader::read_uleb128_u32: the 64-bit reader narrowed; the value is never truncated. *)
Theorem uleb_u32_exact : forall (dbg : bool) (bs : list byte),
  read_uleb128_u32 dbg bs =
  match split_leb bs with
  | None => if (10 <=? length bs)%nat then Err EBadUnsignedLeb128 else Err EUnexpectedEof
  | Some (enc, rest) =>
      if (length enc <=? 10)%nat && (uval enc <? 2 ^ 32) then Ok (uval enc, rest)
      else Err EBadUnsignedLeb128
  end.
Proof. exact read_uleb128_u32_exact. Qed.

Theorem uleb_u32_narrows : forall (dbg : bool) (bs : list byte),
  read_uleb128_u32 dbg bs =
  match read_uleb128 dbg bs with
  | Ok (v, rest) => if v <? 2 ^ 32 then Ok (v, rest) else Err EBadUnsignedLeb128
  | Err e => Err e
  | Panic => Panic
  | OutOfFuel => OutOfFuel
  end.
Proof. exact read_uleb128_u32_narrow. Qed.

(* 3. leb128::read::skip consumes exactly the terminated prefix, whatever its length or value. *)
Theorem skip_exact : forall bs : list byte,
  skip_leb bs = match split_leb bs with
                | Some (_, rest) => Ok (tt, rest)
                | None => Err EUnexpectedEof
                end.
Proof. exact skip_leb_exact. Qed.

Example uleb16_ex : read_uleb128_u16 [xff; xff; x03; xaa] = Ok (65535, [xaa]) /\
  read_uleb128_u16 [xff; xff; x04] = Err EBadUnsignedLeb128 /\
  read_uleb128_u16 [x80; x80; x80; x00] = Err EBadUnsignedLeb128 /\
  read_uleb128_u16 [x80; x80] = Err EUnexpectedEof.
Proof. vm_compute. repeat split; reflexivity. Qed.
Example uleb32_ex : read_uleb128_u32 true [xff; xff; xff; xff; x0f] = Ok (4294967295, []) /\
  read_uleb128_u32 true [x80; x80; x80; x80; x10] = Err EBadUnsignedLeb128.
Proof. vm_compute. split; reflexivity. Qed.
Example skip_ex : skip_leb [xff; xff; xff; xff; xff; xff; xff; xff; xff; xff; xff; x7f; x01] = Ok (tt, [x01]) /\
  skip_leb [x80] = Err EUnexpectedEof.
Proof. vm_compute. split; reflexivity. Qed.

(* 4. Writers: for every u64 / i64 value the encoder returns (never indexes past its 10-byte array)
   a terminated encoding of the value whose length is what *_size reports, between 1 and 10, and both
   readers return exactly the value and leave exactly the following bytes. *)
Theorem leb_write_read_unsigned : forall v : N, v < two64 ->
  exists enc, write_uleb128 v = Ok enc /\
    uval enc = v /\
    N.of_nat (length enc) = uleb128_size v /\ (1 <= length enc <= 10)%nat /\
    forall r, split_leb (enc ++ r) = Some (enc, r) /\
              forall dbg, read_uleb128 dbg (enc ++ r) = Ok (v, r).
Proof. exact write_uleb128_read. Qed.

Theorem leb_write_read_signed : forall v : Z, in_i64 v = true ->
  exists enc, write_sleb128 v = Ok enc /\
    sval enc = v /\
    N.of_nat (length enc) = sleb128_size v /\ (1 <= length enc <= 10)%nat /\
    forall r, split_leb (enc ++ r) = Some (enc, r) /\
              forall dbg, read_sleb128 dbg (enc ++ r) = Ok (v, r).
Proof. exact write_sleb128_read. Qed.

Example leb_write_ex1 : write_uleb128 624485 = Ok [xe5; x8e; x26] /\ uleb128_size 624485 = 3.
Proof. vm_compute. split; reflexivity. Qed.
Example leb_write_ex2 : write_sleb128 (-123456)%Z = Ok [xc0; xbb; x78] /\ sleb128_size (-123456)%Z = 3.
Proof. vm_compute. split; reflexivity. Qed.
Example leb_write_ex_max : (two64 - 1 < two64) /\ uleb128_size (two64 - 1) = 10 /\
  in_i64 (- 2 ^ 63)%Z = true /\ sleb128_size (- 2 ^ 63)%Z = 10.
Proof. vm_compute. repeat split; reflexivity. Qed.

(* 5. Fixed-width integers. The model's recursive byte values are the positional sums of the DWARF
   text: Σ bs[i]·256^i (little endian) and Σ bs[i]·256^(|bs|-1-i) (big endian). *)
Theorem le_be_positional : forall bs : list byte,
  le_val bs = le_sum bs /\ be_val bs = be_sum bs.
Proof. exact le_be_positional_l. Qed.

(* read_u8/u16/u32/u64/u128 are `read_un 1/2/4/8/16`; the statement holds for every width n:
   fewer than n bytes -> UnexpectedEof, else the positional value of the first n bytes and the rest. *)
Theorem fixed_le_be : forall (n : nat) (be : bool) (bs : list byte),
  read_un n be bs =
  if (length bs <? n)%nat then Err EUnexpectedEof
  else Ok (val_sum be (firstn n bs), skipn n bs).
Proof. exact read_un_exact. Qed.

Theorem fixed_le_be_app : forall (n : nat) (be : bool) (h t : list byte), length h = n ->
  read_un n be (h ++ t) = Ok (val_sum be h, t) /\ val_sum be h < 256 ^ N.of_nat n.
Proof. exact read_un_app_lt. Qed.

Theorem fixed_eof_iff : forall (n : nat) (be : bool) (bs : list byte),
  read_un n be bs = Err EUnexpectedEof <-> (length bs < n)%nat.
Proof. exact read_un_eof_iff. Qed.

(* write/read identity for every width: the n-byte encoder followed by the n-byte reader is reduction
   modulo 256^n, hence the identity on values that fit; and every n-byte string is the encoding of its
   value (the codec is a bijection between n-byte strings and [0, 256^n)). *)
Theorem fixed_write_read : forall (n : nat) (be : bool) (v : N) (r : list byte),
  length (enc_un n be v) = n /\
  read_un n be (enc_un n be v ++ r) = Ok (v mod 256 ^ N.of_nat n, r) /\
  (v < 256 ^ N.of_nat n -> read_un n be (enc_un n be v ++ r) = Ok (v, r)).
Proof. exact fixed_write_read_l. Qed.

Theorem fixed_read_write : forall (be : bool) (bs : list byte),
  enc_un (length bs) be (val_sum be bs) = bs.
Proof. exact enc_un_val_sum. Qed.

(* read_i8/i16/i32/i64 (`read_in 1/2/4/8`): two's complement of the unsigned value at 8n bits. *)
Theorem fixed_signed : forall (n : nat) (be : bool) (bs : list byte),
  read_in n be bs =
  if (length bs <? n)%nat then Err EUnexpectedEof
  else Ok (signed_at (8 * N.of_nat n) (val_sum be (firstn n bs)), skipn n bs).
Proof. exact read_in_exact. Qed.

(* Reader::read_uint(n): the n-byte value for n <= 8 (zero-extended on the correct side), a slice
   index panic exactly for n > 8. *)
Theorem read_uint_exact : forall (n : nat) (be : bool) (bs : list byte),
  read_uint n be bs =
  if (8 <? n)%nat then Panic
  else if (length bs <? n)%nat then Err EUnexpectedEof
  else Ok (val_sum be (firstn n bs), skipn n bs).
Proof. exact read_uint_full. Qed.

Example fixed_ex1 : read_un 4 false [x78; x56; x34; x12; xaa] = Ok (305419896, [xaa]) /\
                    read_un 4 true [x12; x34; x56; x78; xaa] = Ok (305419896, [xaa]).
Proof. vm_compute. split; reflexivity. Qed.
Example fixed_ex2 : read_in 2 true [xff; xfe] = Ok ((-2)%Z, []) /\ read_un 3 true [x01; x02] = Err EUnexpectedEof.
Proof. vm_compute. split; reflexivity. Qed.
Example fixed_ex3 : be_sum [x01; x02; x03] = 66051 /\ le_sum [x01; x02; x03] = 197121.
Proof. vm_compute. split; reflexivity. Qed.

(* 6. Sized reads: for EVERY size argument (not only u8) and every input, read_address and
   read_sized_offset are the size-byte fixed-width read when size is 1, 2, 4 or 8 and fail with
   UnsupportedAddressSize / UnsupportedOffsetSize otherwise, whatever the bytes. *)
Theorem sized_reads : forall (size : N) (be : bool) (bs : list byte),
  read_address size be bs =
    (if size_ok size then read_un (N.to_nat size) be bs else Err EUnsupportedAddressSize) /\
  read_sized_offset size be bs =
    (if size_ok size then read_un (N.to_nat size) be bs else Err EUnsupportedOffsetSize).
Proof. exact sized_reads_l. Qed.

Theorem sized_reads_ok : forall (size : N) (be : bool) (bs : list byte) (v : N) (rest : list byte),
  read_address size be bs = Ok (v, rest) \/ read_sized_offset size be bs = Ok (v, rest) ->
  (size = 1 \/ size = 2 \/ size = 4 \/ size = 8) /\
  exists h, bs = h ++ rest /\ N.of_nat (length h) = size /\ v = val_sum be h /\ v < 2 ^ (8 * size).
Proof. exact sized_reads_ok_l. Qed.

Theorem address_size_exact : forall bs : list byte,
  read_address_size bs =
  match bs with
  | [] => Err EUnexpectedEof
  | b :: r => if size_ok (b2n b) then Ok (b2n b, r) else Err EUnsupportedAddressSize
  end.
Proof. exact read_address_size_exact. Qed.

Theorem size_ok_iff : forall size : N, size_ok size = true <-> size = 1 \/ size = 2 \/ size = 4 \/ size = 8.
Proof. exact size_ok_cases. Qed.

Example sized_ex : read_address 3 false [x01; x02; x03] = Err EUnsupportedAddressSize /\
                   read_sized_offset 0 true [] = Err EUnsupportedOffsetSize /\
                   read_address 2 true [x01; x02; x03] = Ok (258, [x03]).
Proof. vm_compute. repeat split; reflexivity. Qed.

(* 7. Initial length, for every input: a first word below 0xfffffff0 is a 32-bit length; 0xffffffff
   escapes to the next eight bytes (64-bit format); 0xfffffff0..0xfffffffe are reserved. *)
Theorem initial_len : forall (be : bool) (bs : list byte),
  read_initial_length be bs =
  if (length bs <? 4)%nat then Err EUnexpectedEof else
  let v := val_sum be (firstn 4 bs) in
  let r := skipn 4 bs in
  if v <? 4294967280 then Ok ((v, false), r)
  else if v =? 4294967295 then
    (if (length r <? 8)%nat then Err EUnexpectedEof
     else Ok ((val_sum be (firstn 8 r), true), skipn 8 r))
  else Err EUnknownReservedLength.
Proof. exact read_initial_length_exact. Qed.

(* The writer never emits bytes the reader would misread: it fails exactly for a 32-bit length in the
   reserved range or above, and whatever it writes reads back as the same length and format. *)
Theorem initial_len_write : forall (fmt64 be : bool) (len : N), len < two64 ->
  write_initial_length fmt64 be len =
  if fmt64 then Ok (enc_un 4 be 4294967295 ++ enc_un 8 be len)
  else if len <? 4294967280 then Ok (enc_un 4 be len)
  else if len <=? 4294967295 then Err WInitialLengthOverflow
  else Err WValueTooLarge.
Proof. exact write_initial_length_exact. Qed.

Theorem initial_len_write_read : forall (fmt64 be : bool) (len : N) (bs : list byte), len < two64 ->
  write_initial_length fmt64 be len = Ok bs ->
  length bs = (if fmt64 then 12%nat else 4%nat) /\
  forall r, read_initial_length be (bs ++ r) = Ok ((len, fmt64), r).
Proof. exact write_initial_length_read. Qed.

Example initial_len_ex :
  write_initial_length false true 4294967279 = Ok [xff; xff; xff; xef] /\
  write_initial_length false true 4294967280 = Err WInitialLengthOverflow /\
  write_initial_length false true 4294967296 = Err WValueTooLarge /\
  write_initial_length true false 4294967280 =
    Ok [xff; xff; xff; xff; xf0; xff; xff; xff; x00; x00; x00; x00] /\
  read_initial_length false [xf0; xff; xff; xff; x00] = Err EUnknownReservedLength.
Proof. vm_compute. repeat split; reflexivity. Qed.

(* 8. write_udata / write_sdata, for every u64 / i64 value and EVERY size argument: success exactly
   when the size is 1, 2, 4 or 8 and the value fits; the bytes then carry the value unchanged
   (never a truncation) and every sized reader returns it. *)
Theorem write_udata_exact : forall (be : bool) (v size : N), v < two64 ->
  write_udata be v size =
  if size_ok size then
    (if v <? 2 ^ (8 * size) then Ok (enc_un (N.to_nat size) be v) else Err WValueTooLarge)
  else Err WUnsupportedWordSize.
Proof. exact PrimProofs.write_udata_exact. Qed.

Theorem write_udata_read : forall (be : bool) (v size : N) (bs : list byte), v < two64 ->
  write_udata be v size = Ok bs ->
  size_ok size = true /\ v < 2 ^ (8 * size) /\
  N.of_nat (length bs) = size /\ val_sum be bs = v /\
  forall r, read_un (N.to_nat size) be (bs ++ r) = Ok (v, r) /\
            read_address size be (bs ++ r) = Ok (v, r) /\
            read_sized_offset size be (bs ++ r) = Ok (v, r).
Proof. exact write_udata_ok. Qed.

Theorem write_sdata_exact : forall (be : bool) (v : Z) (size : N), in_i64 v = true ->
  write_sdata be v size =
  if size_ok size then
    (if in_signed (8 * size) v then Ok (enc_un (N.to_nat size) be (of_signed (8 * size) v))
     else Err WValueTooLarge)
  else Err WUnsupportedWordSize.
Proof. exact PrimProofs.write_sdata_exact. Qed.

Theorem write_sdata_read : forall (be : bool) (v : Z) (size : N) (bs : list byte), in_i64 v = true ->
  write_sdata be v size = Ok bs ->
  size_ok size = true /\ in_signed (8 * size) v = true /\
  N.of_nat (length bs) = size /\
  forall r, read_in (N.to_nat size) be (bs ++ r) = Ok (v, r).
Proof. exact write_sdata_ok. Qed.

Theorem in_signed_iff : forall (bits : N) (v : Z),
  in_signed bits v = true <-> (- Z.of_N (2 ^ (bits - 1)) <= v < Z.of_N (2 ^ (bits - 1)))%Z.
Proof. exact in_signed_iff_l. Qed.

Example write_data_ex :
  write_udata true 256 1 = Err WValueTooLarge /\ write_udata true 255 1 = Ok [xff] /\
  write_udata false 258 2 = Ok [x02; x01] /\ write_udata false 1 3 = Err WUnsupportedWordSize /\
  write_sdata true (-129) 1 = Err WValueTooLarge /\ write_sdata true (-128) 1 = Ok [x80] /\
  write_sdata true 128 1 = Err WValueTooLarge /\ write_sdata false (-2) 2 = Ok [xfe; xff].
Proof. vm_compute. repeat split; reflexivity. Qed.

(* 9. ReaderAddress helpers for validated sizes (pub(crate) in gimli: no direct stream; exercised
   through the list/line properties). *)
Theorem add_sized_sound : forall (a len size s : N), add_sized a len size = Ok s ->
  s = a + len /\ s <= mask_of size /\ s < two64.
Proof. exact add_sized_ok. Qed.

Theorem add_sized_exact : forall (a len size : N), size_ok size = true ->
  add_sized a len size =
  if a + len <=? 2 ^ (8 * size) - 1 then Ok (a + len) else Err EAddressOverflow.
Proof. exact PrimProofs.add_sized_exact. Qed.

Theorem wrapping_add_sized_exact : forall (a len size : N), size_ok size = true ->
  wrapping_add_sized a len size = (a + len) mod 2 ^ (8 * size).
Proof. exact PrimProofs.wrapping_add_sized_exact. Qed.

Theorem min_tombstone_exact : forall size : N, size_ok size = true ->
  min_tombstone size = 2 ^ (8 * size) - 2.
Proof. exact PrimProofs.min_tombstone_exact. Qed.

(* the raw u8 shift arithmetic of ones_sized cannot panic on a validated size, in either build *)
Theorem ones_sized_validated : forall (dbg : bool) (size : N), size_ok size = true ->
  ones_sized dbg size = Ok (2 ^ (8 * size) - 1).
Proof. exact ones_sized_ok. Qed.

Example add_sized_ex : add_sized 65535 1 2 = Err EAddressOverflow /\ add_sized 65534 1 2 = Ok 65535 /\
  wrapping_add_sized 65535 1 2 = 0 /\ min_tombstone 4 = 4294967294 /\ size_ok 4 = true.
Proof. vm_compute. repeat split; reflexivity. Qed.
