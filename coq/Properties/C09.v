(* Properties/C09.v — Primitive codecs: LEB128, sized integers and lengths are exact.
   Only statements (`exact lemma`), non-vacuity examples and pins live here. *)
From Coq Require Import List NArith ZArith Bool.
From Coq.Strings Require Import Byte.
Require Import GV.Base.Res GV.Base.Byt GV.Base.Ints.
Require Import GV.Spec.LebSpec GV.Model.Leb GV.Model.Prim GV.Proofs.LebProofs.
Import ListNotations.
Local Open Scope N_scope.

(* For EVERY byte string and both build modes the unsigned reader returns exactly the mathematical
   value of the unique terminated prefix and the remaining bytes; it accepts exactly the encodings of
   at most 10 bytes whose value fits u64 (zero-padded non-minimal ones included), rejects every other
   terminated encoding with BadUnsignedLeb128, reports ten continuation bytes as BadUnsignedLeb128 and
   a shorter unterminated input as UnexpectedEof. In particular it never panics and never wraps. *)
Theorem uleb_exact : forall (dbg : bool) (bs : list byte),
  read_uleb128 dbg bs =
  match split_leb bs with
  | None => if (10 <=? length bs)%nat then Err EBadUnsignedLeb128 else Err EUnexpectedEof
  | Some (enc, rest) =>
      if (length enc <=? 10)%nat && (uval enc <? 2 ^ 64) then Ok (uval enc, rest)
      else Err EBadUnsignedLeb128
  end.
Proof. exact read_uleb128_exact. Qed.

(* Same for the signed reader: two's complement at 7*|enc| bits, accepted iff it fits i64. *)
Theorem sleb_exact : forall (dbg : bool) (bs : list byte),
  read_sleb128 dbg bs =
  match split_leb bs with
  | None => if (10 <=? length bs)%nat then Err EBadSignedLeb128 else Err EUnexpectedEof
  | Some (enc, rest) =>
      if (length enc <=? 10)%nat && in_i64 (sval enc) then Ok (sval enc, rest)
      else Err EBadSignedLeb128
  end.
Proof. exact read_sleb128_exact. Qed.

(* non-vacuity / sanity: DWARF 4 figure 22/23 examples and the width boundary *)
Example uleb_ex1 : read_uleb128 true [xe5; x8e; x26; xaa] = Ok (624485, [xaa]).
Proof. vm_compute. reflexivity. Qed.
Example sleb_ex1 : read_sleb128 true [xc0; xbb; x78] = Ok ((-123456)%Z, []).
Proof. vm_compute. reflexivity. Qed.
Example uleb_ex_max : read_uleb128 true [xff; xff; xff; xff; xff; xff; xff; xff; xff; x01] = Ok (2 ^ 64 - 1, []).
Proof. vm_compute. reflexivity. Qed.
Example uleb_ex_overflow : read_uleb128 false [xff; xff; xff; xff; xff; xff; xff; xff; xff; x02] = Err EBadUnsignedLeb128.
Proof. vm_compute. reflexivity. Qed.
Example sleb_ex_min : read_sleb128 true [x80; x80; x80; x80; x80; x80; x80; x80; x80; x7f] = Ok ((- 2 ^ 63)%Z, []).
Proof. vm_compute. reflexivity. Qed.
