(* placeholder until Proofs/LebProofs.v lands: keeps the pipeline end-to-end *)
From Coq Require Import List NArith.
Require Import GV.Model.Leb GV.Model.Prim GV.Spec.LebSpec.
Theorem c09_placeholder : True. Proof. exact I. Qed.
