(* Properties/C07_tie.v — translator tie (DESIGN §1.2 item 2) for C07: the opcode -> variant / operand-layout table of
   Operation::parse (src/read/op.rs), regenerated into coq/Gen/OpTable.v from the source text on every ./check run,
   against Model/OpDec.v parse_opcode.  opcode_agree (Proofs/GenAgreeOpTable.v) runs the model on the opcode byte
   followed by a benign operand tail (every LEB128/length/register = 1) and compares the constructor name and the
   number of bytes consumed with the arm of the regenerated table; arm_allows: the variant is one the arm builds. *)
From Coq Require Import List NArith Bool String.
From Coq.Strings Require Import Byte.
Require Import GV.Base.Res GV.Base.Byt GV.Proofs.GenSweep GV.Model.OpDec GV.Proofs.GenAgreeOpTable.
Require GV.Gen.OpTable GV.Gen.Constants.
Import ListNotations.
Local Open Scope string_scope.
Local Open Scope N_scope.

(* all 256 opcode bytes (DWARF version 4 and 2 encodings): Model/OpDec.v decodes the byte to a variant that the arm of that opcode in Operation::parse builds and consumes exactly the operands the arm reads; no arm = InvalidExpression in both *)
Theorem c07_tie_op_table :
  forall opc, opc < 256 -> opcode_agree enc4 opc = true /\ opcode_agree enc2 opc = true.
Proof. exact GenAgreeOpTable.gen_op_table_agree. Qed.

(* the DW_OP_WASM_location arm and its four sub-opcodes *)
Theorem c07_tie_op_wasm :
  map (fun sub => match parse_opcode false enc4 xed (sub :: tail) with Ok (op, _) => op_ctor op | _ => "" end)
      [x00; x01; x02; x03] = ["WasmLocal"; "WasmGlobal"; "WasmStack"; "WasmGlobal"] /\
  option_map fst (lookup_op Constants.DW_OP_WASM_location OpTable.op_table) = Some ["WasmLocal"; "WasmGlobal"; "WasmStack"].
Proof. exact GenAgreeOpTable.gen_op_wasm. Qed.

(* every arm is keyed by a DW_OP_* constant of constants.rs, none twice *)
Theorem c07_tie_op_table_keys :
  forallb (fun k => existsb (N.eqb k) Constants.DwOp_values) (map fst OpTable.op_table) = true /\
  nnodup (map fst OpTable.op_table) = true.
Proof. exact GenAgreeOpTable.gen_op_table_keys. Qed.

(* for ALL operand bytes, encodings and both build modes: whenever the model decodes an operation, its variant is one the arm of that opcode in Operation::parse builds *)
Theorem c07_tie_op_table_all_inputs :
  forall dbg e opc r op r', parse_opcode dbg e opc r = Ok (op, r') -> arm_allows opc op = true.
Proof. exact GenAgreeOpTable.gen_op_table_all_inputs. Qed.

(* an opcode without an arm in Operation::parse is InvalidExpression in the model whatever follows *)
Theorem c07_tie_op_table_no_arm :
  forall dbg e opc r,
  lookup_op (b2n opc) OpTable.op_table = None -> parse_opcode dbg e opc r = Err EInvalidExpression.
Proof. exact GenAgreeOpTable.gen_op_table_no_arm. Qed.

(* statement pins *)
Check c07_tie_op_table :
  forall opc, opc < 256 -> opcode_agree enc4 opc = true /\ opcode_agree enc2 opc = true.
Check c07_tie_op_wasm :
  map (fun sub => match parse_opcode false enc4 xed (sub :: tail) with Ok (op, _) => op_ctor op | _ => "" end)
      [x00; x01; x02; x03] = ["WasmLocal"; "WasmGlobal"; "WasmStack"; "WasmGlobal"] /\
  option_map fst (lookup_op Constants.DW_OP_WASM_location OpTable.op_table) = Some ["WasmLocal"; "WasmGlobal"; "WasmStack"].
Check c07_tie_op_table_keys :
  forallb (fun k => existsb (N.eqb k) Constants.DwOp_values) (map fst OpTable.op_table) = true /\
  nnodup (map fst OpTable.op_table) = true.
Check c07_tie_op_table_all_inputs :
  forall dbg e opc r op r', parse_opcode dbg e opc r = Ok (op, r') -> arm_allows opc op = true.
Check c07_tie_op_table_no_arm :
  forall dbg e opc r,
  lookup_op (b2n opc) OpTable.op_table = None -> parse_opcode dbg e opc r = Err EInvalidExpression.
