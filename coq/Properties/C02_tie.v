(* Properties/C02_tie.v — translator tie (DESIGN §1.2 item 2) for C02: every DW_* numeral that Spec/Forest.v defines is the constant of the same
   name in /repo/src/constants.rs, regenerated into coq/Gen/Constants.v from the source text on every ./check run. *)
From Coq Require Import NArith.
Require GV.Gen.Constants GV.Spec.Forest.
Require GV.Proofs.GenAgreeConstants.
Local Open Scope N_scope.

(* the 1 DW_* numerals of Spec/Forest.v *)
Theorem c02_tie_constants :
  Constants.DW_AT_sibling = Forest.DW_AT_sibling.
Proof. exact GenAgreeConstants.gen_constants_Forest. Qed.

(* statement pins *)
Check c02_tie_constants :
  Constants.DW_AT_sibling = Forest.DW_AT_sibling.
