(* Properties/C05_tie_value.v — translator tie (DESIGN §1.2 item 2) for C05: the format -> reader dispatch of parse_encoded_value
   (src/read/cfi.rs), regenerated into coq/Gen/EncodedValue.v from the source text on every ./check run, against
   Model/CfiRd.v.  gen_parse_encoded_value (Proofs/GenAgreeEncodedValue.v) reads the regenerated table: reader_of maps
   the Reader method and u64 conversion named by an arm to the primitive of Model/Leb.v / Model/Prim.v. *)
From Coq Require Import List NArith Bool String.
Require Import GV.Base.Res GV.Proofs.GenSweep GV.Model.CfiRd GV.Proofs.GenAgreeEncodedValue.
Require GV.Gen.EncodedValue GV.Gen.EhPe.
Import ListNotations.
Local Open Scope N_scope.

(* every encoding value, byte order, build mode, parameter block and input: same reader and conversion as the arm of the Rust match; no arm = unreachable!() = Panic in both *)
Theorem c05_tie_parse_encoded_value :
  forall dbg be enc pp r,
  parse_encoded_value dbg be enc pp r = gen_parse_encoded_value dbg be enc pp r.
Proof. exact GenAgreeEncodedValue.gen_parse_encoded_value_agree. Qed.

(* the match has an arm for exactly the formats DwEhPe::is_valid_encoding accepts, and every arm names a known reader/conversion pairing *)
Theorem c05_tie_encoded_value_formats :
  forallb (fun f => Bool.eqb (match lookup_ev f EncodedValue.encoded_value_table with Some _ => true | None => false end)
                             (GV.Gen.EhPe.format_known f)) (count_up 256) = true /\
  forallb (fun p => match reader_of false false 8 (fst (snd p)) (snd (snd p)) with Some _ => true | None => false end)
          EncodedValue.encoded_value_table = true.
Proof. exact GenAgreeEncodedValue.gen_encoded_value_formats. Qed.

(* statement pins *)
Check c05_tie_parse_encoded_value :
  forall dbg be enc pp r,
  parse_encoded_value dbg be enc pp r = gen_parse_encoded_value dbg be enc pp r.
Check c05_tie_encoded_value_formats :
  forallb (fun f => Bool.eqb (match lookup_ev f EncodedValue.encoded_value_table with Some _ => true | None => false end)
                             (GV.Gen.EhPe.format_known f)) (count_up 256) = true /\
  forallb (fun p => match reader_of false false 8 (fst (snd p)) (snd (snd p)) with Some _ => true | None => false end)
          EncodedValue.encoded_value_table = true.
