(* Properties/C17_tie_casefold.v — translator tie (DESIGN §1.2 item 2) for the non-ASCII case folding clause of C17:
   CASE_FOLD_DATA of src/case_fold_data.rs, regenerated into coq/Gen/CaseFold.v from the source text on every ./check
   run.  fold_data = case_fold_data of src/case_fold.rs (table entry, else the character itself). *)
From Coq Require Import List NArith Bool.
Require Import GV.Proofs.GenSweep GV.Proofs.GenAgreeCaseFold.
Require GV.Gen.CaseFold.
Import ListNotations.
Local Open Scope N_scope.

(* CASE_FOLD_DATA: sorted without repetition (the binary search is exact), non-ASCII scalar keys, scalar targets, ASCII targets already lower case, no identity entry, every target a fixed point, the DWARF I-dot extension *)
Theorem c17_tie_case_fold_table :
  strictly_sorted (map fst CaseFold.case_fold_data) = true /\
  forallb (fun p => (127 <? fst p) && is_scalar (fst p) && is_scalar (snd p)
                    && ((127 <? snd p) || ((96 <? snd p) && (snd p <? 123)))) CaseFold.case_fold_data = true /\
  forallb (fun p => negb (fst p =? snd p) && (fold_data (snd p) =? snd p)) CaseFold.case_fold_data = true /\
  fold_data 304 = 105 /\ fold_data 305 = 105.
Proof. exact GenAgreeCaseFold.gen_case_fold_table. Qed.

(* case_fold_data is idempotent on every scalar value *)
Theorem c17_tie_case_fold_idempotent :
  forall c, fold_data (fold_data c) = fold_data c.
Proof. exact GenAgreeCaseFold.gen_case_fold_idempotent. Qed.

(* statement pins *)
Check c17_tie_case_fold_table :
  strictly_sorted (map fst CaseFold.case_fold_data) = true /\
  forallb (fun p => (127 <? fst p) && is_scalar (fst p) && is_scalar (snd p)
                    && ((127 <? snd p) || ((96 <? snd p) && (snd p <? 123)))) CaseFold.case_fold_data = true /\
  forallb (fun p => negb (fst p =? snd p) && (fold_data (snd p) =? snd p)) CaseFold.case_fold_data = true /\
  fold_data 304 = 105 /\ fold_data 305 = 105.
Check c17_tie_case_fold_idempotent :
  forall c, fold_data (fold_data c) = fold_data c.
