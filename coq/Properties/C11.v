(* Properties/C11.v — written units read back as the same forest with every reference intact.
   Statements only (`exact lemma`), non-vacuity examples, pins.  The model is Model/UnitWr.v (mirror of
   src/write/unit.rs, abbrev.rs, str.rs), the meaning of the bytes is Spec/UnitWrSpec.v.
   Two hypotheses recur and are not restrictions of the property:
     * `expr_ok` / the x_size–x_out link: an Expression's predicted size is the number of bytes it writes
       (that is C15's theorem; expressions are opaque here);
     * `... < 2 ^ 64`: the unit fits the address space (usize sums cannot overflow in a running program);
       the model keeps the overflow checks, so this has to be said. *)
From Coq Require Import List NArith ZArith Bool Permutation Lia.
From Coq.Strings Require Import Byte.
Require Import GV.Base.Res GV.Base.Byt GV.Base.Ints GV.Model.Leb GV.Model.Prim.
Require Import GV.Spec.UnitWrSpec GV.Model.UnitWr GV.Proofs.UnitWrProofs GV.Proofs.UnitRoundtrip.
Require GV.Proofs.AttrProofs GV.Proofs.DieRdProofs.
Import ListNotations.
Local Open Scope N_scope.

(* ---------------------------------------------------------------- (1) form / size / write agree *)

(* For EVERY write::AttributeValue variant, encoding (any version, format, address size), byte order
   and build mode: when `write` emits the value, `size` predicted exactly the number of bytes emitted
   (placeholders included). The debug_assert_form! checks inside both functions never fire. *)
Theorem form_size_write_len : forall (dbg : bool) (cx : wcx) (v : aval) (ops : list wop),
  av_write dbg cx v = Ok ops -> expr_ok v -> ops_len ops < 2 ^ 64 ->
  av_size dbg (wc_enc cx) (wc_lpv cx) v = Ok (ops_len ops).
Proof. exact av_write_size. Qed.

(* ... and those bytes are laid out as the DW_FORM chosen by `form` prescribes: decoding them under that
   form (Spec.form_decode, the C03 reading) consumes exactly them and yields the value (placeholders: 0). *)
Theorem form_size_write_decodes : forall (dbg : bool) (cx : wcx) (v : aval) (ops : list wop) (rest : list byte),
  av_write dbg cx v = Ok ops -> av_decodable v ->
  form_decode (wc_enc cx) (wc_be cx) (fst (av_form (wc_enc cx) v))
              (match snd (av_form (wc_enc cx) v) with Some z => z | None => 0%Z end)
              (ops_bytes ops ++ rest) = Some (av_raw cx v, rest).
Proof. exact av_write_decodes. Qed.

Example form_size_write_ex :
  let cx := mkWcx (mkEnc 5 false 8) false 0 0 [] [] None [] [7] [] [] 5 in
  av_write true cx (AvUdata 300) = Ok [WB [xac; x02]] /\ av_size true (wc_enc cx) (wc_lpv cx) (AvUdata 300) = Ok 2 /\
  av_write true cx AvFlagPresent = Ok [] /\ av_size true (wc_enc cx) (wc_lpv cx) AvFlagPresent = Ok 0 /\
  av_write true cx (AvStringRef 0) = Ok [WB [x07; x00; x00; x00]] /\
  av_write true cx (AvUnitRef (mkEid 0 3)) = Ok [WUnitRef (mkEid 0 3) 4].
Proof. vm_compute. repeat split; reflexivity. Qed.

(* ---------------------------------------------------------------- (2) offsets_exact / refs_resolve *)

(* calculate_offsets assigns to every entry of the tree exactly the position at which `write` later emits
   it (WMark = the point of the debug_assert that opens DebuggingInformationEntry::write), the running offset
   ends where the written bytes end, and the entries are visited in the same (pre)order. `cx` carries the
   tables calculate_offsets produced, as in Unit::write. *)
Theorem offsets_exact : forall (dbg : bool) (cx : wcx) (root : die) (st0 st : cst) (ops : list wop),
  calc dbg (wc_enc cx) (wc_lpv cx) root st0 = Ok st ->
  wc_codes cx = cs_codes st ->
  write_die dbg cx root (cs_off st0) = Ok ops ->
  NoDup (die_ids root) -> die_expr_ok root ->
  cs_off st0 + ops_len ops < 2 ^ 64 ->
  cs_off st = cs_off st0 + ops_len ops /\
  map fst (ops_marks (cs_off st0) ops) = die_ids root /\
  (forall i p, In (i, p) (ops_marks (cs_off st0) ops) -> nth_error (cs_entries st) i = Some p).
Proof. exact offsets_exact_lemma. Qed.

(* Hence every UnitRef placeholder — forward or backward — is patched with the unit-relative offset of the
   position where its target was emitted, nothing else in the section changes, and in a build with debug
   assertions the id was issued by this unit. *)
Theorem refs_resolve : forall (dbg : bool) (cx : wcx) (root : die) (st0 st : cst) (ops : list wop)
    (pre post sec' : list byte) (f : eid -> list byte),
  calc dbg (wc_enc cx) (wc_lpv cx) root st0 = Ok st ->
  wc_codes cx = cs_codes st ->
  write_die dbg cx root (cs_off st0) = Ok ops ->
  NoDup (die_ids root) -> die_expr_ok root ->
  cs_off st0 + ops_len ops < 2 ^ 64 ->
  (forall j y, nth_error (cs_entries st0) j = Some y -> y = 0) ->
  UnitWr.blen pre = cs_off st0 -> wc_unit_off cx <= cs_off st0 ->
  (forall id b, ref_value dbg (wc_be cx) (wc_unit cx) (wc_unit_off cx) (cs_entries st) (wsz (wc_enc cx)) id = Some b -> f id = b) ->
  patch_unit_refs dbg (wc_be cx) (wc_unit cx) (wc_unit_off cx) (cs_entries st) (wsz (wc_enc cx))
                  (ops_unit_refs (cs_off st0) ops) (pre ++ ops_bytes ops ++ post) = Ok sec' ->
  sec' = pre ++ ops_resolved f ops ++ post /\
  (forall id w', In (WUnitRef id w') ops ->
     exists p, In (id_idx id, p) (ops_marks (cs_off st0) ops) /\
               write_udata (wc_be cx) (p - wc_unit_off cx) (wsz (wc_enc cx)) = Ok (f id) /\
               (dbg = true -> id_unit id = wc_unit cx)).
Proof. exact refs_resolve_lemma. Qed.

(* a tree with a forward and a backward reference, a sibling pointer and a shared abbreviation *)
Definition ex_enc : encoding := mkEnc 4 false 8.
Definition ex_root : die :=
  Die 0 17 true [(3, AvString [x61]); (73, AvUnitRef (mkEid 0 2))]
      [Die 1 36 false [(11, AvUdata 300)] [];
       Die 2 46 false [(49, AvUnitRef (mkEid 0 1))] [];
       Die 3 36 false [(11, AvUdata 7)] []].
Definition ex_st0 : cst := mkCst 11 [0; 0; 0; 0] [] [0; 0; 0; 0].
Definition ex_st : cst := mkCst 33 [11; 22; 25; 30] [] [1; 2; 3; 2].

Example offsets_exact_ex :
  match calc true ex_enc 4 ex_root ex_st0 with
  | Ok st =>
      cs_entries st = cs_entries ex_st /\ cs_codes st = cs_codes ex_st /\ cs_off st = 33 /\
      match write_die true (mkWcx ex_enc false 0 0 (cs_entries st) (cs_codes st) None [] [] [] [] 4) ex_root 11 with
      | Ok ops =>
          ops_marks 11 ops = [(0%nat, 11); (1%nat, 22); (2%nat, 25); (3%nat, 30)] /\ ops_len ops = 22 /\
          ops_unit_refs 11 ops = [(18, mkEid 0 2); (26, mkEid 0 1)]
      | _ => False
      end
  | _ => False
  end.
Proof. vm_compute. repeat split; reflexivity. Qed.

Example offsets_exact_ex_nodup : NoDup (die_ids ex_root).
Proof.
  change (NoDup [0; 1; 2; 3]%nat).
  repeat (constructor; [cbn; intuition discriminate|]). constructor.
Qed.

(* ---------------------------------------------------------------- roundtrip of a unit's entries *)

(* The bytes of the entries, after the reference fix-ups, read back — with the spec-level DIE reader
   Spec.decode_die and the unit's own abbreviation table — as the tree that was written:
     * `dmatch`: same tags and nesting, every entry at the position `write` emitted it, each attribute list
       = the DW_AT_sibling the writer adds (pointing at the end of the entry's subtree) followed by the entry's
       attributes in order, each with the form chosen by `form` and the value `av_final` (= the value set, with
       string/line/range/location attributes carrying the offset their table assigned);
     * every UnitRef value + unit offset is the position of the entry it was meant to reference, i.e. the `off`
       of that entry's decoded SDie (offsets_exact says that is `cs_entries st` of its id);
     * nothing outside the placeholders changed (`sec' = pre ++ ... ++ post`).
   Remaining distance to gimli's own reader: C02/C03 (its DIE and attribute readers equal Spec.decode_die /
   form_decode) — here that half is the harness oracle (read-back through gimli::read on every case). *)
Theorem roundtrip : forall (dbg : bool) (cx : wcx) (root : die) (st0 st : cst) (ops : list wop)
    (pre post sec' : list byte) (f : eid -> list byte) (fuel : nat) (rest : list byte),
  calc dbg (wc_enc cx) (wc_lpv cx) root st0 = Ok st ->
  wc_codes cx = cs_codes st ->
  write_die dbg cx root (cs_off st0) = Ok ops ->
  NoDup (die_ids root) -> die_expr_ok root -> die_decodable root ->
  cs_off st0 + ops_len ops < 2 ^ 64 ->
  (forall j y, nth_error (cs_entries st0) j = Some y -> y = 0) ->
  UnitWr.blen pre = cs_off st0 -> wc_unit_off cx <= cs_off st0 ->
  (forall id b, ref_value dbg (wc_be cx) (wc_unit cx) (wc_unit_off cx) (cs_entries st) (wsz (wc_enc cx)) id = Some b -> f id = b) ->
  (forall id, UnitWr.blen (f id) = wsz (wc_enc cx)) ->
  patch_unit_refs dbg (wc_be cx) (wc_unit cx) (wc_unit_off cx) (cs_entries st) (wsz (wc_enc cx))
                  (ops_unit_refs (cs_off st0) ops) (pre ++ ops_bytes ops ++ post) = Ok sec' ->
  ops_len ops <= N.of_nat fuel ->
  exists sd,
    sec' = pre ++ ops_resolved f ops ++ post /\
    decode_die fuel (wc_enc cx) (wc_be cx) (cs_abbrevs st) (cs_off st0) (ops_resolved f ops ++ rest) = Some (sd, rest) /\
    dmatch cx f root (cs_off st0) (cs_off st0 + ops_len ops) sd /\
    (forall id w', In (WUnitRef id w') ops ->
       exists p, In (id_idx id, p) (ops_marks (cs_off st0) ops) /\
                 nth_error (cs_entries st) (id_idx id) = Some p /\
                 fixed_num (wc_be cx) (f id) = p - wc_unit_off cx).
Proof. exact roundtrip_lemma. Qed.

(* the example tree, patched and decoded: root at 11 with DW_AT_sibling -> 33 (end), a forward reference to the
   entry at 25 and, inside it, a backward reference to the entry at 22 *)
Example roundtrip_ex :
  match calc true ex_enc 4 ex_root ex_st0 with
  | Ok st =>
      let cx := mkWcx ex_enc false 0 0 (cs_entries st) (cs_codes st) None [] [] [] [] 4 in
      match write_die true cx ex_root 11 with
      | Ok ops =>
          let f := fun id => match ref_value true false 0 0 (cs_entries st) 4 id with Some b => b | None => zeros 4 end in
          (exists sec', patch_unit_refs true false 0 0 (cs_entries st) 4 (ops_unit_refs 11 ops)
                          (repeat x00 11 ++ ops_bytes ops ++ []) = Ok sec') /\
          decode_die 30 ex_enc false (cs_abbrevs st) 11 (ops_resolved f ops ++ []) =
            Some (SDie 11 17 [(1, 19, RU 33); (3, 8, RB [x61]); (73, 19, RU 25)]
                    [SDie 22 36 [(11, 15, RU 300)] [];
                     SDie 25 46 [(49, 19, RU 22)] [];
                     SDie 30 36 [(11, 15, RU 7)] []], [])
      | _ => False
      end
  | _ => False
  end.
Proof. vm_compute. split; [eexists; reflexivity|reflexivity]. Qed.

(* ---------------------------------------------------------------- Unit::write as a whole *)

(* The same for the model of Unit::write itself (header, DW_AT_stmt_list adjustment, reorder_base_types,
   calculate_offsets, write, length patch, reference patches): whenever it returns Ok, the bytes appended to
   .debug_info are a header of the computed length followed by the entries, which decode — with the
   abbreviation table it hands to AbbreviationTable::write — to the tree that was written; the offsets it
   stores for later cross-unit fix-ups (`uo_entries`) are the positions of the entries; every UnitRef
   resolves to its target. The hypotheses after the arrow are about the tree found in the unit (ids unique
   = it is a tree, documented String precondition, expression sizes, address space). *)
Theorem unit_roundtrip : forall (dbg be : bool) (uidx : nat) (u : wunit) (p : uparams) (lstr str : list N)
    (info : list byte) (abbrev_off : N) (out : uout),
  unit_write dbg be uidx u p lstr str info abbrev_off = Ok out ->
  exists ents1 ents2 root st line rng loc hdr,
    reorder_base_types ents1 = Ok ents2 /\ length ents1 = length (u_entries u) /\
    tree_of (S (length ents2)) ents2 0 = Ok root /\
    let e := u_enc u in
    let pos0 := UnitWr.blen info + UnitWr.blen hdr in
    let cx := mkWcx e be uidx (UnitWr.blen info) (cs_entries st) (cs_codes st) line lstr str rng loc (up_lp_version p) in
    calc dbg e (up_lp_version p) root (mkCst pos0 (repeat 0 (length ents2)) [] (repeat 0 (length ents2))) = Ok st /\
    uo_entries out = cs_entries st /\ uo_abbrevs out = cs_abbrevs st /\ uo_unit_off out = UnitWr.blen info /\
    (NoDup (die_ids root) -> die_expr_ok root -> die_decodable root -> UnitWr.blen (uo_info out) < 2 ^ 64 ->
     forall f : eid -> list byte,
       (forall id b, ref_value dbg be uidx (UnitWr.blen info) (cs_entries st) (wsz e) id = Some b -> f id = b) ->
       (forall id, UnitWr.blen (f id) = wsz e) ->
     exists ops hdr' sd,
       write_die dbg cx root pos0 = Ok ops /\
       uo_info out = info ++ hdr' ++ ops_resolved f ops /\ UnitWr.blen hdr' = UnitWr.blen hdr /\
       uo_fixups out = ops_fixups pos0 ops /\
       decode_die (S (length (ops_bytes ops))) e be (cs_abbrevs st) pos0 (ops_resolved f ops) = Some (sd, []) /\
       dmatch cx f root pos0 (pos0 + ops_len ops) sd /\
       (forall i q, In (i, q) (ops_marks pos0 ops) -> nth_error (uo_entries out) i = Some q) /\
       (forall id w', In (WUnitRef id w') ops ->
          exists q, In (id_idx id, q) (ops_marks pos0 ops) /\ fixed_num be (f id) = q - UnitWr.blen info)).
Proof. exact unit_write_roundtrip_lemma. Qed.

(* a unit built through the modelled API: root, a subprogram referencing a base type added after it; the
   base type is written first (offset 13), the reference holds 13 *)
Definition ex_unit : wunit :=
  match unit_add true (unit_new (mkEnc 5 false 8)) 0 46 with
  | Ok (_, u1) =>
    match unit_add true u1 0 36 with
    | Ok (_, u2) =>
      match unit_upd u2 1 (entry_set true 73 (AvUnitRef (mkEid 0 2))) with
      | Ok u3 => match unit_upd u3 2 (entry_set true 3 (AvString [x69])) with Ok u4 => u4 | _ => u3 end
      | _ => u2 end
    | _ => u1 end
  | _ => unit_new (mkEnc 5 false 8) end.

Example unit_roundtrip_ex :
  match unit_write true false 0 ex_unit (mkUparams true false 2 (Ok 0) (Ok []) (Ok [])) [] [] [] 0 with
  | Ok out =>
      uo_info out = [x12; x00; x00; x00; x05; x00; x01; x08; x00; x00; x00; x00;
                     x01; x02; x69; x00; x03; x0d; x00; x00; x00; x00] /\
      uo_entries out = [12; 16; 13]
  | _ => False
  end.
Proof. vm_compute. split; reflexivity. Qed.

(* ---------------------------------------------------------------- composed with the reader models (C02 / C03) *)

(* FS = Spec/FormSpec.v, AT = Model/Attr.v (gimli's attribute reader), FO = Spec/Forest.v,
   AR = Model/AbbrevRd.v, DR = Model/DieRd.v (gimli's abbreviation and raw entry readers).
   `renc cx` is the unit's encoding in the reader's vocabulary; `av_fd cx f v` the DWARF form and data the
   writer emits for v (Proofs/UnitRoundtrip.v); `attr_rd_ok` / `die_rd_ok`: names and tags are non-zero u16,
   the name is not DW_AT_sibling (`set` refuses it), payloads are within their Rust types. *)

(* (a) for EVERY write::AttributeValue variant and encoding: Attr.parse_attribute under the specification the
   writer stores in the abbreviation (name, form chosen by `form`, implicit constant) reads the written bytes
   (unit references patched) back as exactly the value DWARF assigns to the emitted form and data, consumes
   exactly those bytes, and the value means what was set (`payload_of`: the number / bytes / flag; which
   constructor carries it is decided by form and name — e.g. Data4 under a loclistptr-class name is handed
   out as a section offset by gimli's reader, C03 `normalise_payload`). *)
Theorem attr_read_by_reader : forall (dbg dbg' : bool) (cx : wcx) (f : eid -> list byte) (name : N) (v : aval)
    (ops : list wop) (rest : list byte),
  av_write dbg cx v = Ok ops -> av_decodable v -> av_typed cx v -> av_ranges cx v ->
  (forall id, UnitWr.blen (f id) = wsz (wc_enc cx)) -> AttrProofs.addr_size_ok (renc cx) ->
  exists val,
    AT.parse_attribute dbg' (renc cx) (AT.mkSpec name (fst (av_form (wc_enc cx) v)) (ic_of (snd (av_form (wc_enc cx) v))))
                       (ops_resolved f ops ++ rest) = Ok (val, rest) /\
    FS.form_value (renc cx) name (ic_of (snd (av_form (wc_enc cx) v))) (fst (av_fd cx f v)) (snd (av_fd cx f v)) = Some val /\
    FS.payload_of val = av_payload cx f v.
Proof. exact attr_read_by_reader_lemma. Qed.

Example attr_read_by_reader_ex :
  let cx := mkWcx (mkEnc 5 false 8) false 0 0 [] [] None [] [7] [] [] 5 in
  av_write true cx (AvStringRef 0) = Ok [WB [x07; x00; x00; x00]] /\
  av_typed cx (AvStringRef 0) /\ av_ranges cx (AvStringRef 0) /\ AttrProofs.addr_size_ok (renc cx) /\
  AT.parse_attribute true (renc cx) (AT.mkSpec 3 14 0) [x07; x00; x00; x00; xaa] = Ok (FS.VDebugStrRef 7, [xaa]) /\
  av_write true cx (AvImplicitConst (-5)) = Ok [] /\
  AT.parse_attribute true (renc cx) (AT.mkSpec 58 33 (-5)) [xaa] = Ok (FS.VSdata (-5), [xaa]).
Proof.
  cbv zeta. split; [reflexivity|]. split; [exists 7; split; reflexivity|].
  split; [vm_compute; reflexivity|]. repeat split; reflexivity.
Qed.

(* (b) AbbrevRd.parse_abbrevs of the written abbreviation table returns a table whose `get code` is, for every
   code, the declaration written under it (tag, children flag, attribute specifications) — and nothing else *)
Theorem abbrevs_read_by_reader : forall (dbg : bool) (tab : list abbrev) (bytes rest : list byte),
  abbrevs_write tab = Ok bytes -> Forall abbrev_wf tab -> N.of_nat (length tab) < two64 ->
  exists t, AR.parse_abbrevs dbg (bytes ++ rest) = Ok (t, rest) /\
            (forall code a, abbrev_lookup tab code = Some a -> AR.tbl_get t code = Some (rabbrev code a)) /\
            (forall code d, AR.tbl_get t code = Some d ->
               exists a, abbrev_lookup tab code = Some a /\ d = rabbrev code a).
Proof. exact abbrevs_read_by_reader_lemma. Qed.

Example abbrevs_read_by_reader_ex :
  let tab := [mkAbbrev 17 true [mkAspec 3 8 0]; mkAbbrev 36 false [mkAspec 58 33 (-5)]] in
  abbrevs_write tab = Ok [x01; x11; x01; x03; x08; x00; x00; x02; x24; x00; x3a; x21; x7b; x00; x00; x00] /\
  Forall abbrev_wf tab.
Proof.
  cbv zeta. split; [vm_compute; reflexivity|].
  repeat constructor; cbn; try lia; try discriminate; try reflexivity; intros Q; exfalso; apply Q; reflexivity.
Qed.

(* (c) the unit: the entries Unit::write emits (after the reference patches) ARE Forest.enc_forest of the
   written tree (`T`, Proofs/UnitRoundtrip.v) under the code assignment of the unit's abbreviation table, so —
   by C02's raw_is_preorder — DieRd's raw entry reader, with the table AbbrevRd parses from the written
   abbreviations, reports exactly the entries of that tree in preorder (null entries closing child lists in
   between): unit offsets = the offsets calculate_offsets stored minus the unit's offset, depths, tags, children
   flags, attribute specifications and values (`FO.preorder` of `T`: root_die / item_val; a DW_AT_sibling reads
   back as the unit offset just behind the entry's subtree). References then resolve by refs_resolve. *)
Theorem unit_read_by_reader : forall (dbg dbg' : bool) (cx : wcx) (root : die) (st0 st : cst) (ops : list wop)
    (f : eid -> list byte) (abytes rest : list byte) (types : bool) (ruoff aoff : N),
  let e := wc_enc cx in
  let h := FO.mkUH (e_ver e) (e_fmt64 e) (e_asz e) FO.UCompile aoff in
  let codes := codes_of_tab (cs_abbrevs st) in
  let body := ops_resolved f ops in
  calc dbg e (wc_lpv cx) root st0 = Ok st -> cs_abbrevs st0 = [] ->
  wc_codes cx = cs_codes st ->
  write_die dbg cx root (cs_off st0) = Ok ops ->
  abbrevs_write (cs_abbrevs st) = Ok abytes ->
  NoDup (die_ids root) -> die_rd_ok cx root ->
  (forall id, UnitWr.blen (f id) = wsz e) ->
  2 <= e_ver e <= 5 -> AttrProofs.addr_size_ok (renc cx) ->
  wc_unit_off cx <= cs_off st0 -> cs_off st0 - wc_unit_off cx = FO.header_len h ->
  cs_off st0 + ops_len ops < two63 ->
  exists tbl,
    AR.parse_abbrevs dbg' (abytes ++ rest) = Ok (tbl, rest) /\
    body = FO.enc_forest codes (wc_be cx) (FO.header_len h) [T cx f root] 0 /\
    DR.read_all_raw dbg' (DieRdProofs.parsed_header (wc_be cx) types ruoff h body) tbl None =
      Ok (FO.raw_seq codes (FO.header_len h) [T cx f root] 0, None) /\
    filter DieRdProofs.not_null (FO.raw_seq codes (FO.header_len h) [T cx f root] 0) =
      FO.preorder codes (FO.header_len h) 0 [T cx f root] /\
    map FO.d_offset (FO.preorder codes (FO.header_len h) 0 [T cx f root]) =
      map (fun ip => snd ip - wc_unit_off cx) (ops_marks (cs_off st0) ops) /\
    map fst (ops_marks (cs_off st0) ops) = die_ids root /\
    (forall i p, In (i, p) (ops_marks (cs_off st0) ops) -> nth_error (cs_entries st) i = Some p).
Proof. exact unit_read_by_reader_lemma. Qed.

(* the example tree meets the hypotheses of (c); what the raw reader reports for it *)
Definition ex_cx : wcx := mkWcx ex_enc false 0 0 (cs_entries ex_st) (cs_codes ex_st) None [] [] [] [] 4.
Definition ex_f : eid -> list byte :=
  fun id => match ref_value true false 0 0 (cs_entries ex_st) 4 id with Some b => b | None => zeros 4 end.

Example unit_read_by_reader_ex_hyps :
  die_rd_ok ex_cx ex_root /\ AttrProofs.addr_size_ok (renc ex_cx) /\
  FO.header_len (FO.mkUH 4 false 8 FO.UCompile 0) = 11 /\ (forall id, UnitWr.blen (ex_f id) = 4).
Proof.
  assert (A : forall n v, 0 < n < 65536 -> n <> 1 -> av_decodable v -> av_typed ex_cx v -> av_ranges ex_cx v ->
              attr_rd_ok ex_cx (n, v)) by (intros; unfold attr_rd_ok, two16; cbn [fst snd]; tauto).
  split; [|split; [reflexivity|split; [reflexivity|]]].
  - unfold ex_root. rewrite die_rd_ok_unfold. unfold two16. split; [lia|]. split.
    + constructor; [|constructor; [|constructor]].
      * apply A; [lia|discriminate|reflexivity| |exact I]. cbn [av_typed]. unfold UnitWr.blen. cbn [length]. lia.
      * apply A; [lia|discriminate|exact I|exact I|exact I].
    + cbn [dies_rd_ok]. rewrite !die_rd_ok_unfold. unfold two16. cbn [dies_rd_ok].
      repeat split; try lia; try (constructor; [|constructor]; apply A; try lia; try discriminate; try exact I; cbn [av_typed]; lia).
  - intros id. unfold ex_f. destruct (ref_value true false 0 0 (cs_entries ex_st) 4 id) as [b|] eqn:E; [|reflexivity].
    unfold ref_value in E. destruct (unit_offset true 0 0 (cs_entries ex_st) id) as [[v|]| | |]; try discriminate.
    destruct (write_udata false v 4) as [b'| | |] eqn:W; try discriminate. injection E as <-.
    eapply write_udata_len; eassumption.
Qed.

Example unit_read_by_reader_ex :
  match calc true ex_enc 4 ex_root ex_st0 with
  | Ok st =>
      cs_entries st = cs_entries ex_st /\ cs_codes st = cs_codes ex_st /\
      map (fun d => (FO.d_offset d, FO.d_depth d, FO.d_tag d, FO.d_children d, map snd (FO.d_attrs d)))
          (FO.preorder (codes_of_tab (cs_abbrevs st)) 11 0 [T ex_cx ex_f ex_root]) =
        [(11, 0%Z, 17, true, [FS.VUnitRef 33; FS.VString [x61]; FS.VUnitRef 25]);
         (22, 1%Z, 36, false, [FS.VUdata 300]);
         (25, 1%Z, 46, false, [FS.VUnitRef 22]);
         (30, 1%Z, 36, false, [FS.VUdata 7])]
  | _ => False
  end.
Proof. vm_compute. repeat split; reflexivity. Qed.

(* ---------------------------------------------------------------- (3) abbreviation de-duplication *)

(* AbbreviationTable::add returns the 1-based position of the FIRST occurrence of the abbreviation in the
   table that is later written in code order (so the spec-level lookup of that code finds it), a new
   abbreviation gets code n+1 and is appended, a known one leaves the table untouched, and the table never
   holds an abbreviation twice. *)
Theorem abbrev_codes : forall (tab : list abbrev) (a : abbrev) (code : N) (tab' : list abbrev),
  abbrev_add tab a = (code, tab') ->
  abbrev_lookup tab' code = Some a /\
  1 <= code <= N.of_nat (length tab') /\
  (forall c, c < code -> abbrev_lookup tab' c <> Some a) /\
  (In a tab -> tab' = tab) /\ (~ In a tab -> tab' = tab ++ [a] /\ code = N.of_nat (length tab) + 1) /\
  (NoDup tab -> NoDup tab').
Proof. exact abbrev_add_spec. Qed.

(* equal (tag, children flag, attribute specifications) |-> the same code, in every later state of the table *)
Theorem abbrev_dedup : forall (tab : list abbrev) (a : abbrev) (code : N) (tab' ext : list abbrev),
  abbrev_add tab a = (code, tab') -> NoDup (tab' ++ ext) ->
  abbrev_add (tab' ++ ext) a = (code, tab' ++ ext).
Proof. exact abbrev_add_again. Qed.

Example abbrev_dedup_ex :
  let a := mkAbbrev 36 false [mkAspec 11 15 0] in
  let b := mkAbbrev 46 false [mkAspec 49 19 0] in
  abbrev_add [] a = (1, [a]) /\ abbrev_add [a] b = (2, [a; b]) /\ abbrev_add [a; b] a = (1, [a; b]) /\
  NoDup ([a] ++ [b]).
Proof.
  cbv zeta. split; [reflexivity|]. split; [reflexivity|]. split; [reflexivity|].
  cbn [app]. repeat (constructor; [cbn; intuition discriminate|]). constructor.
Qed.

(* ---------------------------------------------------------------- (4) string tables *)

(* StringTable / LineStringTable ::add on a table satisfying the invariant (no duplicates, offsets = start
   positions, len = total): the invariant is kept, the id names a copy of the string, a string already
   present is not stored again, earlier ids and offsets are stable. *)
Theorem strings_add : forall (dbg : bool) (t : strtab) (s : list byte) (i : nat) (t' : strtab),
  strtab_wf t -> strtab_add dbg t s = Ok (i, t') ->
  UnitWr.blen (strs_bytes (st_strings t')) < 2 ^ 64 ->
  strtab_wf t' /\ nth_error (st_strings t') i = Some s /\
  (In s (st_strings t) -> t' = t) /\
  (~ In s (st_strings t) -> st_strings t' = st_strings t ++ [s] /\ i = length (st_strings t)) /\
  (forall j x, nth_error (st_strings t) j = Some x -> nth_error (st_strings t') j = Some x) /\
  (forall j o, nth_error (st_offsets t) j = Some o -> nth_error (st_offsets t') j = Some o).
Proof. exact strtab_add_spec. Qed.

(* equal strings |-> equal ids |-> one copy *)
Theorem strings_shared : forall (dbg : bool) (t : strtab) (s : list byte) (i : nat) (t' : strtab),
  strtab_add dbg t s = Ok (i, t') -> strtab_wf t ->
  UnitWr.blen (strs_bytes (st_strings t')) < 2 ^ 64 ->
  strtab_add dbg t' s = Ok (i, t').
Proof. exact strtab_add_again. Qed.

(* offset(id) is the position of that copy (NUL-terminated) in the bytes `write` produces *)
Theorem strings_offset : forall (t : strtab) (i : nat) (s : list byte) (o : N),
  strtab_wf t -> nth_error (st_strings t) i = Some s -> nth_error (st_offsets t) i = Some o ->
  exists pre post, strtab_write t = pre ++ (s ++ [x00]) ++ post /\ UnitWr.blen pre = o.
Proof. exact strtab_offset_points. Qed.

Example strings_ex :
  strtab_wf strtab_empty /\
  match strtab_add true strtab_empty [x68; x69] with
  | Ok (i1, t1) =>
      match strtab_add true t1 [x61] with
      | Ok (i2, t2) =>
          i1 = 0%nat /\ i2 = 1%nat /\ strtab_add true t2 [x68; x69] = Ok (0%nat, t2) /\ st_offsets t2 = [0; 3] /\
          strtab_write t2 = [x68; x69; x00; x61; x00]
      | _ => False
      end
  | _ => False
  end.
Proof. split; [exact strtab_empty_wf|]. vm_compute. repeat split; reflexivity. Qed.

(* ---------------------------------------------------------------- (5) unencodable requests are errors *)

(* the classified requests (symbolic address / reference without a relocating writer, a value that does not
   fit its field — offsets >= 2^32 in the 32-bit format, addresses wider than the address size —, a field
   width other than 1/2/4/8, DW_AT_stmt_list-style reference without a line program) are refused with the
   stated error in both build modes: never bytes, never a panic *)
Theorem unencodable_is_error : forall (dbg : bool) (cx : wcx) (v : aval) (er : error),
  av_unencodable cx v = Some er -> av_write dbg cx v = Err er.
Proof. exact unencodable_is_error_lemma. Qed.

(* and these are the only ones: every other well-typed value is written *)
Theorem encodable_is_ok : forall (dbg : bool) (cx : wcx) (v : aval),
  av_typed cx v -> av_unencodable cx v = None -> exists ops, av_write dbg cx v = Ok ops.
Proof. exact encodable_is_ok_lemma. Qed.

(* a reference to an entry outside the written tree (deleted child, reserved and never added, orphan)
   never produces output *)
Theorem dangling_ref_is_error : forall (dbg : bool) (e : encoding) (lpv : N) (root : die) (st0 st : cst) (be : bool)
    (unit : nat) (unit_off w : N) (refs : list (N * eid)) (sec : list byte) (off : N) (id : eid),
  calc dbg e lpv root st0 = Ok st ->
  (forall j y, nth_error (cs_entries st0) j = Some y -> y = 0) ->
  In (off, id) refs -> ~ In (id_idx id) (die_ids root) ->
  forall sec', patch_unit_refs dbg be unit unit_off (cs_entries st) w refs sec <> Ok sec'.
Proof. exact dangling_ref_is_error_lemma. Qed.

(* cross-unit fix-ups: success means every fix-up found its unit and a calculated entry offset *)
Theorem fixups_all_resolve : forall (dbg be : bool) (units : list tunit) (fx : list fixup) (info info' : list byte),
  table_fixups dbg be units fx info = Ok info' ->
  forall f, In f fx ->
  exists t o, nth_error units (fx_unit f) = Some t /\
              debug_info_offset dbg (fx_unit f) (tu_entries t) (fx_entry f) = Ok (Some o).
Proof. exact table_fixups_all_resolve. Qed.

Example unencodable_ex :
  let cx := mkWcx (mkEnc 4 false 4) false 0 0 [] [] None [] [] [] [] 4 in
  av_unencodable cx (AvAddress (ASym 1 0)) = Some WInvalidAddress /\
  av_unencodable cx (AvAddress (AConst 4294967296)) = Some WValueTooLarge /\
  av_unencodable cx (AvDebugStrRefSup 4294967296) = Some WValueTooLarge /\
  av_unencodable cx AvLineProgramRef = Some WInvalidAttributeValue /\
  av_unencodable cx (AvDebugInfoRef (DSym 0)) = Some WInvalidReference /\
  av_unencodable (mkWcx (mkEnc 2 false 3) false 0 0 [] [] None [] [] [] [] 4) (AvDebugInfoRef (DEntry 0 (mkEid 0 1)))
    = Some WUnsupportedWordSize /\
  av_typed cx (AvUdata 5) /\ av_unencodable cx (AvUdata 5) = None.
Proof. vm_compute. repeat split; try reflexivity. Qed.

(* ... and (since c42c00d) the request is answered with Err(InvalidReference) — no panic — wherever the id
   lies, including a reserved id beyond the entries vector: the first dangling reference ends the write *)
Theorem dangling_ref_invalid_reference : forall (dbg : bool) (e : encoding) (lpv : N) (root : die) (st0 st : cst)
    (be : bool) (unit : nat) (unit_off w : N) (r : list (N * eid)) (sec : list byte) (off : N) (id : eid),
  calc dbg e lpv root st0 = Ok st ->
  (forall j y, nth_error (cs_entries st0) j = Some y -> y = 0) ->
  ~ In (id_idx id) (die_ids root) -> (dbg = true -> id_unit id = unit) ->
  patch_unit_refs dbg be unit unit_off (cs_entries st) w ((off, id) :: r) sec = Err WInvalidReference.
Proof. exact dangling_ref_invalid_reference_lemma. Qed.

Example dangling_reserved_id_ex :
  unit_offset true 0 0 [0; 12] (mkEid 0 2) = Ok None /\ unit_offset false 0 0 [0; 12] (mkEid 0 2) = Ok None /\
  patch_unit_refs true false 0 0 [0; 12] 4 [(13, mkEid 0 2)] (repeat x00 20) = Err WInvalidReference.
Proof. vm_compute. repeat split; reflexivity. Qed.

(* patching the references of a unit never panics when the ids were issued by that unit (the remaining
   exception is an id of another unit in a build with debug assertions: known finding) *)
Theorem patch_no_panic : forall (dbg be : bool) (unit : nat) (unit_off : N) (entries : list N) (w : N)
    (refs : list (N * eid)) (sec : list byte),
  (forall off id, In (off, id) refs -> dbg = true -> id_unit id = unit) ->
  (forall i x, nth_error entries i = Some x -> x <> 0 -> unit_off <= x) ->
  patch_unit_refs dbg be unit unit_off entries w refs sec <> Panic.
Proof. exact patch_unit_refs_no_panic_lemma. Qed.

(* (since c92c4f4) a file index is written in the numbering of the unit's line program, whatever the unit's
   own version: a reader of that program finds the file that was meant *)
Theorem file_index_roundtrip : forall (dbg : bool) (lpv i r : N),
  i + 1 < 2 ^ 64 -> file_raw dbg lpv (Some i) = Ok r -> file_of_raw lpv r = Some i.
Proof. exact file_index_roundtrip_lemma. Qed.

Example file_index_crossver_ex :
  (* DWARF 5 unit, DWARF 4 line program: file 1 is written as 2 *)
  let cx := mkWcx (mkEnc 5 false 8) false 0 0 [] [] None [] [] [] [] 4 in
  av_write true cx (AvFileIndex (Some 1)) = Ok [WB [x02]] /\ av_size true (wc_enc cx) (wc_lpv cx) (AvFileIndex (Some 1)) = Ok 1 /\
  file_of_raw 4 2 = Some 1.
Proof. vm_compute. repeat split; reflexivity. Qed.

(* ---------------------------------------------------------------- (6) base types first *)

(* reorder_base_types replaces the root's children by the stable partition (base types, then the rest) and
   touches nothing else *)
Theorem base_types_first : forall (ents ents' : list entry),
  reorder_base_types ents = Ok ents' ->
  exists root,
    nth_error ents 0 = Some root /\
    nth_error ents' 0 =
      Some (mkEntry (en_parent root) (en_tag root) (en_sibling root) (en_attrs root)
                    (filter (tag_is_base ents) (en_children root) ++
                     filter (fun c => negb (tag_is_base ents c)) (en_children root))) /\
    (forall j, j <> 0%nat -> nth_error ents' j = nth_error ents j) /\
    length ents' = length ents.
Proof. exact reorder_base_types_spec. Qed.

(* ... which is a permutation of the children *)
Theorem base_types_first_perm : forall (A : Type) (p : A -> bool) (l : list A),
  Permutation (filter p l ++ filter (fun x => negb (p x)) l) l.
Proof. exact @filter_partition_perm. Qed.

Example base_types_first_ex :
  let e t ch := mkEntry None t false [] ch in
  match reorder_base_types [e 17 [1; 2; 3; 4]%nat; e 46 []; e 36 []; e 52 []; e 36 []] with
  | Ok ents' => option_map en_children (nth_error ents' 0) = Some [2; 4; 1; 3]%nat
  | _ => False
  end.
Proof. vm_compute. reflexivity. Qed.

(* ---------------------------------------------------------------- no panic *)

(* AttributeValue::size and ::write do not panic on any well-typed value (payloads within their Rust types,
   ids issued by the tables of this write), for every encoding and both build modes *)
Theorem size_no_panic : forall (dbg : bool) (cx : wcx) (v : aval),
  av_typed cx v -> av_size dbg (wc_enc cx) (wc_lpv cx) v <> Panic.
Proof. exact av_size_no_panic_lemma. Qed.

Theorem write_no_panic : forall (dbg : bool) (cx : wcx) (v : aval),
  av_typed cx v -> av_write dbg cx v <> Panic.
Proof. exact av_write_no_panic_lemma. Qed.

(* calculate_offsets does not panic on any tree of well-typed values whose ids index the offset tables and
   whose size (even with maximal code widths, `dsize_ub`) fits the address space — in either build mode;
   the running offset stays below that bound *)
Theorem calc_no_panic : forall (dbg : bool) (cx : wcx) (d : die) (st : cst),
  die_typed cx d -> ids_in_range (die_ids d) st ->
  cs_off st + dsize_ub (wc_enc cx) d < 2 ^ 64 ->
  calc dbg (wc_enc cx) (wc_lpv cx) d st <> Panic /\
  (forall st', calc dbg (wc_enc cx) (wc_lpv cx) d st = Ok st' -> cs_off st' <= cs_off st + dsize_ub (wc_enc cx) d).
Proof. exact calc_no_panic_lemma. Qed.

(* DebuggingInformationEntry::write, run with the tables calculate_offsets produced, does not panic either:
   in particular its debug_assert_eq!(offsets.debug_info_offset(self.id), Some(w.offset())) holds at every
   entry (that is offsets_exact), every code lookup is in range, the sibling subtraction does not underflow *)
Theorem write_tree_no_panic : forall (dbg : bool) (cx : wcx) (d : die) (st st' : cst),
  calc dbg (wc_enc cx) (wc_lpv cx) d st = Ok st' ->
  agree_on (die_ids d) (wc_entries cx) (cs_entries st') ->
  agree_on (die_ids d) (wc_codes cx) (cs_codes st') ->
  (forall i c, nth_error (wc_codes cx) i = Some c -> c < 2 ^ 64) ->
  die_typed cx d -> die_expr_ok d -> NoDup (die_ids d) ->
  0 < cs_off st -> wc_unit_off cx <= cs_off st ->
  cs_off st + dsize_ub (wc_enc cx) d < 2 ^ 64 ->
  write_die dbg cx d (cs_off st) <> Panic.
Proof. exact write_die_no_panic_lemma. Qed.

Example no_panic_ex :
  let cx := mkWcx ex_enc false 0 0 (cs_entries ex_st) (cs_codes ex_st) None [] [] [] [] 4 in
  die_typed cx ex_root /\ ids_in_range (die_ids ex_root) ex_st0 /\ cs_off ex_st0 + dsize_ub ex_enc ex_root < 2 ^ 64 /\
  die_expr_ok ex_root.
Proof.
  cbv zeta. split.
  { cbn. repeat split; repeat constructor; cbn; try lia. }
  split.
  { intros i Hi. cbn in Hi. cbn. intuition lia. }
  split; [vm_compute; reflexivity|].
  cbn. repeat split; repeat constructor; cbn; auto.
Qed.

Check form_size_write_len : forall dbg cx v ops, av_write dbg cx v = Ok ops -> expr_ok v -> ops_len ops < 2 ^ 64 ->
  av_size dbg (wc_enc cx) (wc_lpv cx) v = Ok (ops_len ops).
Check abbrev_dedup : forall tab a code tab' ext, abbrev_add tab a = (code, tab') -> NoDup (tab' ++ ext) ->
  abbrev_add (tab' ++ ext) a = (code, tab' ++ ext).
Check unencodable_is_error : forall dbg cx v er, av_unencodable cx v = Some er -> av_write dbg cx v = Err er.

(* ================================================================ GLUE with C15 (expressions) — Model/UnitGlueWr.v
   UnitWr keeps a write::Expression opaque (a predicted size + a byte string, linked by the hypothesis `expr_ok`).
   The composed model instantiates it the way unit.rs does: AttributeValue::Exprloc(e).size = uleb + e.size(enc,
   Some(offsets so far)), .write = uleb(e.size(enc, Some(offsets))) ; e.write(w, Some(debug_info_refs), enc,
   Some(offsets)) at w.len().  Tied to gimli by stream c11.glue.  Everything below is a COMPOSITION of C11 and C15
   theorems (Proofs/WriterGlueProofs.v); nothing about units or expressions is re-proved. *)
Require Import GV.Model.UnitGlueWr GV.Proofs.WriterGlueProofs.
Require GV.Model.OpWr GV.Model.OpDec GV.Spec.OpEncSpec GV.Proofs.OpWrProofs GV.Proofs.OpWrDec GV.Proofs.OpWrTotal GV.Proofs.OpRoundtrip.

(* (g1) size() = bytes written for the composed attribute writer: form_size_write_len with the expression hypothesis
   DISCHARGED by C15 expr_size (gexpr_ok only concerns opaque UnitWr Exprloc values mixed in, True for GExpr). *)
Theorem exprloc_attr_size_write : forall (dbg : bool) (cx : wcx) (pos : N) (v : gval) (ops : list wop) (fx : list fixup),
  gav_write dbg cx pos v = Ok (ops, fx) -> gexpr_ok v -> ops_len ops < 2 ^ 64 ->
  gav_size dbg (wc_enc cx) (wc_be cx) (wc_lpv cx) (cx_uo cx) v = Ok (ops_len ops).
Proof. exact exprloc_attr_size_write_lemma. Qed.

(* (g2) AttributeValue::Exprloc(ex) written at position `pos` of .debug_info, for EVERY operation list `ex` of Rust-typed,
   decodable operations (unit-relative references call / typed ops / parameter_ref and .debug_info-relative
   references call_ref / implicit_pointer / variable_value included):
     * C03's attribute reader (Attr.parse_attribute, form exprloc from DWARF 4, block before) consumes exactly the
       written bytes and returns a value whose expression block is `body`, the ULEB prefix being |body|;
     * C07's decoder (OpDec.operations) over `body` ends normally with the reader forms of the normal forms of the
       built operations; by normal_form every unit-relative operand is `entry_offset dbg (Some (cx_uo cx)) en`,
       i.e. (glue_ref_is_mark below) the offsets_exact position of its target minus the unit offset;
     * the operations are laid out from pos + |prefix| (laid) and the fix-ups pushed to debug_info_fixups are exactly
       those of that layout: by C15 ref_fixups_at_operands each sits at (attribute position + prefix length + offset
       of the operation inside the expression + 1). *)
Theorem exprloc_attr_roundtrip : forall (dbg dbg' rdbg : bool) (cx : wcx) (pos name : N) (ex : OpWr.wexpr)
    (ops : list wop) (fx : list fixup) (rest : list byte),
  gav_write dbg cx pos (GExpr ex) = Ok (ops, fx) ->
  forallb OpWr.wf_op ex = true -> OpWr.wf_uoffs (Some (cx_uo cx)) = true -> forallb OpWrDec.decodable ex = true ->
  pos + ops_len ops < 2 ^ 63 -> AttrProofs.addr_size_ok (renc cx) ->
  exists l body fx0 offsets dl ros val,
    ops_bytes ops = l ++ body /\
    OpEncSpec.rd_uleb (l ++ body ++ rest) = Some (UnitWr.blen body, body ++ rest) /\
    AT.parse_attribute dbg' (renc cx)
       (AT.mkSpec name (if 4 <=? e_ver (wc_enc cx) then DW_FORM_exprloc else DW_FORM_block) 0)
       (ops_bytes ops ++ rest) = Ok (val, rest) /\
    AT.exprloc_value val = Some body /\
    OpDec.operations rdbg (OpRoundtrip.renc (OpWrProofs.dcfg_of (cx_oe cx))) body = (ros, None) /\
    map (fun x => OpRoundtrip.tr (snd x)) dl = map Some ros /\
    OpWrDec.decoded (fun p o d => exists b, OpWrDec.normal_form dbg (cx_oe cx) (Some (cx_uo cx)) true offsets p o b d)
                    (pos + UnitWr.blen l) ex offsets dl /\
    OpWrProofs.laid (OpWr.write_op dbg (cx_oe cx) (Some (cx_uo cx)) true offsets) (pos + UnitWr.blen l) ex offsets body fx0 /\
    fx = map gfix fx0.
Proof. exact exprloc_attr_read_lemma. Qed.

(* (g3) the forward-reference error: while calculate_offsets sizes an Exprloc whose expression embeds, ULEB-encoded, the
   unit offset of an entry that has no offset yet in the table built so far (or lies beyond the entries vector),
   AttributeValue::size is
   Err UnsupportedExpressionForwardReference (call / parameter_ref, fixed width, are exempt at this point) *)
Theorem exprloc_forward_ref : forall (dbg : bool) (e : encoding) (be : bool) (lpv : N) (uo : OpWr.uoffs)
    (pre : OpWr.wexpr) (o : OpWr.wop) (post : OpWr.wexpr) (en n : N),
  OpWrDec.uses_entry o = Some en -> OpWr.wf_op o = true ->
  match o with OpWr.WoCall _ | OpWr.WoParameterRef _ => False | _ => True end ->
  (OpWr.nth_N (OpWr.uo_entries uo) en = Some 0 \/ OpWr.nth_N (OpWr.uo_entries uo) en = None) ->
  OpWr.size_expr dbg (oenc e be) (Some uo) pre = Ok n ->
  gav_size dbg e be lpv uo (GExpr (pre ++ o :: post)) = Err WUnsupportedExpressionForwardReference.
Proof. exact exprloc_forward_ref_lemma. Qed.

(* (g4) the unit body: offsets_exact for the composed passes.  gcalc (sizes under the table built so far) followed by
   gwrite_die (under the complete table) ARE UnitWr's calc and write_die on ONE tree d, the composed tree with each
   Expression instantiated under the complete table (xrel) — C15 size_mono bridges the two tables — so every C11
   theorem (roundtrip, unit_read_by_reader, refs_resolve ...) holds of the composed output with its expression
   hypothesis (die_expr_ok d) discharged, and the table the expressions were written under maps every entry of the
   tree to the position of its DIE. *)
Theorem glue_offsets_exact : forall (dbg : bool) (cx : wcx) (g : gdie) (st0 st : cst) (ops : list wop) (fx : list fixup),
  gcalc dbg (wc_enc cx) (wc_be cx) (wc_lpv cx) (wc_unit_off cx) g st0 = Ok st ->
  wc_entries cx = cs_entries st -> wc_codes cx = cs_codes st ->
  gwrite_die dbg cx g (cs_off st0) = Ok (ops, fx) ->
  NoDup (gdie_ids g) -> gdie_ok g ->
  (forall j y, nth_error (cs_entries st0) j = Some y -> y = 0) ->
  cs_off st0 + ops_len ops < 2 ^ 64 ->
  exists d,
    xrel dbg cx g d /\ calc dbg (wc_enc cx) (wc_lpv cx) d st0 = Ok st /\ write_die dbg cx d (cs_off st0) = Ok ops /\
    die_expr_ok d /\ die_ids d = gdie_ids g /\
    cs_off st = cs_off st0 + ops_len ops /\
    map fst (ops_marks (cs_off st0) ops) = gdie_ids g /\
    (forall i p, In (i, p) (ops_marks (cs_off st0) ops) -> nth_error (wc_entries cx) i = Some p).
Proof. exact glue_offsets_exact_lemma. Qed.

(* (g5) hence the operand of a unit-relative reference: the position of the target's DIE minus the unit offset ... *)
Theorem glue_ref_is_mark : forall (dbg : bool) (cx : wcx) (en p : N),
  nth_error (wc_entries cx) (N.to_nat en) = Some p -> p <> 0 -> wc_unit_off cx <= p ->
  OpWr.entry_offset dbg (Some (cx_uo cx)) en = Ok (p - wc_unit_off cx).
Proof. exact entry_offset_mark. Qed.

(* ... and for ANY entry id that is not in the written tree — deleted, orphaned, reserved and never added, inside or
   beyond the entries vector (gimli fix c42c00d, model corrected in the wrglue follow-up) — the forward-reference error
   (C15 refs_need_offset: the operation then fails to write) *)
Theorem glue_ref_orphan : forall (dbg : bool) (e : encoding) (be : bool) (lpv uoff : N) (g : gdie) (st0 st : cst) (en : N),
  gcalc dbg e be lpv uoff g st0 = Ok st ->
  (forall j y, nth_error (cs_entries st0) j = Some y -> y = 0) ->
  ~ In (N.to_nat en) (gdie_ids g) ->
  OpWr.entry_offset dbg (Some (ouo uoff (cs_entries st))) en = Err WUnsupportedExpressionForwardReference.
Proof. exact entry_offset_orphan. Qed.

(* a unit with a base type, a variable whose DW_AT_location is an expression with a typed reference (backward), a
   call_ref (forward), a call (forward) and an implicit_pointer to itself, DW_AT_ranges, and a variable with a
   location list whose expression references the base type *)
Definition gx_enc : encoding := mkEnc 4 false 8.
Definition gx_expr : OpWr.wexpr :=
  [OpWr.WoDerefType false 4 1; OpWr.WoCallRef (OpWr.REntry 0 3); OpWr.WoCall 3; OpWr.WoImplicitPointer (OpWr.REntry 0 2) 5].
Definition gx_root : gdie :=
  GDie 0 17 false [(17, GV (AvAddress (AConst 4096)))]
    [GDie 1 36 false [(11, GV (AvData1 4))] [];
     GDie 2 52 false [(2, GExpr gx_expr); (85, GV (AvRangeListRef 0))] [];
     GDie 3 52 false [(2, GV (AvLocationListRef 0))] []].
Definition gx_unit : gunit :=
  mkGunit gx_enc gx_root 4 [[ListWrSpec.ROffsetPair 1 2]] [[GLOffsetPair 1 2 [OpWr.WoVarValue (OpWr.REntry 0 1)]]].
Definition gx_st0 : cst := mkCst 11 [0; 0; 0; 0] [] [0; 0; 0; 0].
Definition gx_cx : wcx := mkWcx gx_enc false 0 0 [11; 20; 22; 47] [1; 2; 3; 4] None [] [] [0] [0] 2.

Example glue_offsets_exact_ex :
  match gcalc true gx_enc false 2 0 gx_root gx_st0 with
  | Ok st =>
      cs_entries st = [11; 20; 22; 47] /\ cs_codes st = [1; 2; 3; 4] /\ cs_off st = 53 /\
      match gwrite_die true gx_cx gx_root 11 with
      | Ok (ops, fx) =>
          ops_marks 11 ops = [(0%nat, 11); (1%nat, 20); (2%nat, 22); (3%nat, 47)] /\ ops_len ops = 42 /\
          (* call_ref at 27 (fix-up 28 -> entry 3), implicit_pointer at 37 (fix-up 38 -> entry 2): 22 + 1 code + 1 prefix + 3 / + 13 *)
          map (fun f => (fx_offset f, id_idx (fx_entry f))) fx = [(28, 3%nat); (38, 2%nat)]
      | _ => False
      end
  | _ => False
  end /\ NoDup (gdie_ids gx_root) /\ gdie_ok gx_root.
Proof.
  split; [vm_compute; repeat split; reflexivity|]. split.
  - change (NoDup [0; 1; 2; 3]%nat). repeat (constructor; [cbn; intuition discriminate|]). constructor.
  - cbn. repeat split; repeat constructor; cbn; auto.
Qed.

(* the whole table write: .debug_info with the fix-ups resolved (28 -> 47 = DIE 3, 38 -> 22 = DIE 2, the typed reference
   0x14 = 20 = DIE 1), DW_AT_ranges / DW_AT_location = the offsets the list writers returned, and the location list's
   fix-up at 0 + 16 (addresses) + 2 (u16 length) + 1 = 19 registered in the .debug_loc list (DWARF 4) *)
Example glue_table_ex :
  match gtable_write true false [gx_unit] gsec_empty with
  | Ok (o, s) =>
      map go_entries o = [[11; 20; 22; 47]] /\ map go_rng o = [[0]] /\ map go_loc o = [[0]] /\
      firstn 20 (skipn 22 (g_info s)) =
        [x03; x13; xf6; x04; x14; x9a; x2f; x00; x00; x00; x99; x2f; x00; x00; x00; xf2; x16; x00; x00; x00] /\
      map fx_offset (g_info_fx s) = [28; 38] /\ map fx_offset (g_loc_fx s) = [19] /\ g_loclists_fx s = [] /\
      firstn 5 (skipn 18 (g_loc s)) = [xfd; x14; x00; x00; x00]
  | _ => False
  end.
Proof. vm_compute. repeat split; reflexivity. Qed.

Example exprloc_forward_ref_ex :
  gav_size true gx_enc false 2 (ouo 0 [11; 20; 0; 0]) (GExpr [OpWr.WoUConst 1; OpWr.WoDerefType false 4 3]) =
    Err WUnsupportedExpressionForwardReference /\
  gav_size true gx_enc false 2 (ouo 0 [11; 20; 0; 0]) (GExpr [OpWr.WoUConst 1; OpWr.WoDerefType false 4 7]) =
    Err WUnsupportedExpressionForwardReference /\
  gav_size true gx_enc false 2 (ouo 0 [11; 20; 0; 0]) (GExpr [OpWr.WoUConst 1; OpWr.WoCall 3]) = Ok 7.
Proof. vm_compute. repeat split; reflexivity. Qed.

Check exprloc_attr_size_write : forall dbg cx pos v ops fx, gav_write dbg cx pos v = Ok (ops, fx) -> gexpr_ok v ->
  ops_len ops < 2 ^ 64 -> gav_size dbg (wc_enc cx) (wc_be cx) (wc_lpv cx) (cx_uo cx) v = Ok (ops_len ops).
Check glue_ref_is_mark : forall dbg cx en p, nth_error (wc_entries cx) (N.to_nat en) = Some p -> p <> 0 ->
  wc_unit_off cx <= p -> OpWr.entry_offset dbg (Some (cx_uo cx)) en = Ok (p - wc_unit_off cx).

(* (g6) end to end, for the unit body written by the composed passes: the operand a typed operation / call /
   parameter_ref naming entry `en` embeds — `entry_offset` under the table the expressions were written with, which is
   what exprloc_attr_roundtrip's normal_form says the C07 decoder reads back — is the position at which write emitted
   the DIE of `en` (its WMark, = calculate_offsets' offset by offsets_exact) minus the unit's offset. *)
Theorem glue_ref_operand : forall (dbg : bool) (cx : wcx) (g : gdie) (st0 st : cst) (ops : list wop) (fx : list fixup),
  gcalc dbg (wc_enc cx) (wc_be cx) (wc_lpv cx) (wc_unit_off cx) g st0 = Ok st ->
  wc_entries cx = cs_entries st -> wc_codes cx = cs_codes st ->
  gwrite_die dbg cx g (cs_off st0) = Ok (ops, fx) ->
  NoDup (gdie_ids g) -> gdie_ok g ->
  (forall j y, nth_error (cs_entries st0) j = Some y -> y = 0) ->
  cs_off st0 + ops_len ops < 2 ^ 64 ->
  0 < cs_off st0 -> wc_unit_off cx <= cs_off st0 ->
  forall en p, In (N.to_nat en, p) (ops_marks (cs_off st0) ops) ->
    OpWr.entry_offset dbg (Some (cx_uo cx)) en = Ok (p - wc_unit_off cx).
Proof. exact glue_ref_operand_lemma. Qed.

(* in the example unit: deref_type names entry 1 (DIE at 20), call names entry 3 (DIE at 47); unit offset 0 *)
Example glue_ref_operand_ex :
  OpWr.entry_offset true (Some (cx_uo gx_cx)) 1 = Ok 20 /\ OpWr.entry_offset true (Some (cx_uo gx_cx)) 3 = Ok 47.
Proof. vm_compute. split; reflexivity. Qed.
