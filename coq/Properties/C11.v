(* Properties/C11.v — placeholder; replaced by the theorems of DESIGN §5 C11. *)
From Coq Require Import List NArith ZArith Bool.
Require Import GV.Base.Res GV.Model.UnitWr.
