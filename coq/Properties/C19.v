(* Properties/C19.v — Filtered conversion output is dependency-closed, complete and minimal.
   Only statements (`exact lemma`), non-vacuity examples and pins live here.

   Objects (Model/Filter.v, Spec/Graph.v, Spec/FilterSpec.v):
     deps / get_reachable         FilterDependencies and its worklist
     reach V E R                  inductive reachability from R over E among the valid nodes V
     units : list unitd           the .debug_info section as a forest of DIEs with their reference sites
     occurs units u e par         DIE e of unit u has parent par (None = child of the unit root)
     f_valid / f_edge rf          nodes and edges of the dependency graph read off the forest
     filter_refs / conv_refs      the references FilterUnit records / the references the converter resolves
                                  (modelled at /repo 8f64179, where the filter was repaired)
     reserved rf dbg req units    the offsets Dwarf::convert_with_filter reserves when the user requires
                                  exactly the DIEs with req = true
     convert_filtered / convert_all   which DIEs the (un)filtered conversion emits, with their parents.
   `dbg` is the build mode (debug_assert!s are checked when true).  OutOfFuel never occurs (fuel theorem). *)
From Coq Require Import List NArith ZArith Bool.
Require Import GV.Base.Res GV.Spec.Graph GV.Model.Filter GV.Spec.FilterSpec.
Require Import GV.Proofs.FilterProofs GV.Proofs.FilterEdges GV.Proofs.FilterConv GV.Proofs.FilterParents.
Require Import GV.Proofs.FilterTol.
Require Import GV.Base.Ints GV.Model.FilterAttrs GV.Proofs.FilterBounds GV.Proofs.FilterAttrsProofs.
Require Import GV.Proofs.FilterAttrsStruct GV.Proofs.FilterSplit.
Import ListNotations.
Local Open Scope N_scope.

(* ------------------------------------------------------------------------------------------ *)
(* (1) The worklist is reachability.  For EVERY dependency map (any keys, any edge lists, duplicates,
   edges to unknown offsets, cycles) and every required list, get_reachable returns the strictly
   increasing enumeration (hence: sorted, no duplicates) of exactly the nodes reachable from the
   required ones; requirements and edges that name an offset never passed to add_entry are ignored. *)
Theorem worklist_correct : forall d : deps,
  exists l, get_reachable d = Ok l /\ strict_sorted l /\
            forall x, In x l <-> reach (dep_valid d) (dep_edge d) (dep_required d) x.
Proof. exact get_reachable_correct. Qed.

(* that list is the only one with these two properties: "= sort (filter reach nodes)" *)
Theorem worklist_canonical : forall (d : deps) (l l' : list N),
  get_reachable d = Ok l -> strict_sorted l' ->
  (forall x, In x l' <-> reach (dep_valid d) (dep_edge d) (dep_required d) x) -> l' = l.
Proof. exact get_reachable_canonical. Qed.

(* termination: #nodes + 2 iterations of the outer loop always suffice, so does #nodes + #edges + 2 *)
Theorem worklist_fuel : forall (d : deps) (fuel : nat),
  (length (d_edges d) + 2 <= fuel)%nat ->
  gr_loop fuel (d_edges d) [d_required d] [] <> OutOfFuel.
Proof. exact get_reachable_fuel. Qed.

(* ------------------------------------------------------------------------------------------ *)
(* (2) Edge construction.  For every forest whose DIEs start at distinct offsets, every required
   predicate and both build modes, FilterUnit::read_entry (parent stack, add_entry, add_edge,
   require_entry) never panics and builds exactly the graph of the specification: the nodes are the
   non-root DIEs, the edges are DIE->parent, DIE->recorded reference, non-namespace parent->member-like
   child, and the required nodes are the required DIEs. *)
Theorem edge_construction : forall (dbg : bool) (req : N -> bool) (units : list unitd),
  wf_offsets units ->
  exists d, filter_section filter_refs dbg req units deps_empty = Ok d /\
    (forall x, dep_valid d x <-> f_valid units x) /\
    (forall x y, dep_edge d x y <-> f_edge filter_refs units x y) /\
    (forall x, dep_required d x <-> f_valid units x /\ req x = true).
Proof. intros. now apply filter_graph. Qed.

(* (2') Closure and minimality.  The reserved set S is dependency-closed — it contains every required
   DIE, the parent of each of its DIEs, every DIE referenced (as recorded by the filter) from one of its
   DIEs and the member-like children of each of its non-namespace DIEs — it consists of DIEs only, and
   it is contained in every dependency-closed set: it is the LEAST such set.  Children of the unit root
   have no parent edge (DESIGN §5 C19). *)
Theorem closure : forall (dbg : bool) (req : N -> bool) (units : list unitd),
  wf_offsets units ->
  exists S, reserved filter_refs dbg req units = Ok S /\ strict_sorted S /\
    dependency_closed filter_refs req units (fun x => In x S) /\
    (forall x, In x S -> f_valid units x) /\
    (forall T : N -> Prop, dependency_closed filter_refs req units T -> forall x, In x S -> T x).
Proof. intros. now apply reserved_closure. Qed.

(* the same for any other view `rf` of the references, e.g. conv_refs = the repaired filter *)
Theorem closure_any_policy : forall rf (dbg : bool) (req : N -> bool) (units : list unitd),
  wf_offsets units ->
  exists S, reserved rf dbg req units = Ok S /\ strict_sorted S /\
    dependency_closed rf req units (fun x => In x S) /\
    (forall x, In x S -> f_valid units x) /\
    (forall T : N -> Prop, dependency_closed rf req units T -> forall x, In x S -> T x).
Proof. exact reserved_closure. Qed.

(* ------------------------------------------------------------------------------------------ *)
(* (4) Per-unit slices.  ConvertUnitSection::new_with_filter hands reserve_unit, for each unit, exactly
   the reachable offsets lying in that unit (and the debug assertion on the leftover never fires);
   entry_ids then holds the unit roots and the reachable offsets. *)
Theorem per_unit_slices : forall (dbg : bool) (req : N -> bool) (units : list unitd),
  wf_offsets units -> wf_layout units ->
  exists S ids,
    reserved filter_refs dbg req units = Ok S /\
    slices dbg units S = Ok (map (fun u => filter (in_unit u) S) units) /\
    convert_filtered filter_refs dbg req units = convert_units ids units [] /\
    (forall x, In x ids <-> is_root units x \/ In x S).
Proof. exact (slices_of_reserved filter_refs). Qed.

Theorem in_unit_spec : forall u x,
  in_unit u x = true <-> u_off u + u_hdr u <= x /\ x < unit_end u.
Proof. exact in_unit_iff. Qed.

(* ------------------------------------------------------------------------------------------ *)
(* (5) Edge completeness (full statement; /repo 8f64179 repaired the filter).  For EVERY carrier —
   attribute references, every reference-carrying operation at any nesting depth inside
   DW_OP_entry_value, in an exprloc or in any raw location-list entry (live, empty, inverted,
   tombstoned) — the filter records every reference the converter resolves. *)
Theorem edges_complete : forall (u : unitd) (s : site), incl (conv_refs u s) (filter_refs u s).
Proof. exact filter_refs_complete. Qed.

(* and it records nothing the converter does not resolve *)
Theorem edges_sound : forall (u : unitd) (s : site),
  0 < u_hdr u -> incl (filter_refs u s) (conv_refs u s).
Proof. exact filter_refs_sound. Qed.

(* ------------------------------------------------------------------------------------------ *)
(* (3) No dangling reference (full statement).  Whenever the unfiltered conversion of a forest succeeds,
   the filtered conversion succeeds too, for every required predicate and both build modes — no
   InvalidUnitRef / InvalidDebugInfoRef for a DIE that was not reserved — and it emits exactly the
   reserved DIEs (in section order).  (Out-of-bounds or non-DIE references make the unfiltered
   conversion fail and are outside this statement; the filter ignores them.) *)
Theorem no_dangling : forall (dbg : bool) (req : N -> bool) (units : list unitd),
  wf_offsets units -> wf_layout units ->
  (exists out0, convert_all units = Ok out0) ->
  exists S out,
    reserved filter_refs dbg req units = Ok S /\
    convert_filtered filter_refs dbg req units = Ok out /\
    (forall x, In x (map fst out) <-> In x S) /\
    (strict_sorted (section_offsets units) -> map fst out = S).
Proof. exact no_dangling_full. Qed.

(* The same conclusion for ANY filter that records at least what the converter resolves. *)
Theorem no_dangling_if_complete : forall rf (dbg : bool) (req : N -> bool) (units : list unitd),
  wf_offsets units -> wf_layout units ->
  (forall u e par s, occurs units u e par -> In s (e_sites e) -> incl (conv_refs u s) (rf u s)) ->
  (exists out0, convert_all units = Ok out0) ->
  exists S out,
    reserved rf dbg req units = Ok S /\
    convert_filtered rf dbg req units = Ok out /\
    (forall x, In x (map fst out) <-> In x S) /\
    (strict_sorted (section_offsets units) -> map fst out = S).
Proof. exact filtered_conversion_ok. Qed.

(* The filter's view and the converter's view of the references reserve the same DIEs: the reserved set
   is the closure over exactly the references the converter resolves (the property's "everything
   those entries reference, directly or from their expressions and location lists"). *)
Theorem policy_agrees : forall (dbg : bool) (req : N -> bool) (units : list unitd),
  wf_offsets units ->
  (forall u, In u units -> 0 < u_hdr u) ->
  convert_filtered filter_refs dbg req units = convert_filtered conv_refs dbg req units.
Proof. exact policy_eq. Qed.

(* the former counterexample (fixed: 8f64179): a required DIE whose DW_AT_location is
   DW_OP_implicit_pointer(other DIE) now pulls that DIE in *)
Definition ex_a : entry := {| e_off := 21; e_tag := 36; e_decl := false; e_sites := [] |}.
Definition ex_b : entry :=
  {| e_off := 31; e_tag := 19; e_decl := false;
     e_sites := [ {| s_car := CExpr 0 OpImplicitPointer; s_val := 21 |} ] |}.
Definition ex_units : list unitd :=
  [ {| u_off := 0; u_hdr := 11; u_len := 40; u_kids := [Node ex_a []; Node ex_b []] |} ].
Definition ex_req (x : N) : bool := x =? 31.

Example ex_wf : wf_offsets ex_units /\ wf_layout ex_units.
Proof.
  split.
  - unfold wf_offsets. cbn. repeat constructor; cbn; intuition discriminate.
  - split; [cbn; intuition|].
    intros u e par [[<-|[]] Hin]. cbn in Hin.
    destruct Hin as [H|[H|[]]]; inversion H; subst; cbn; split; reflexivity.
Qed.

Example implicit_pointer_ex :
  convert_all ex_units = Ok [(21, 11); (31, 11)] /\
  convert_filtered filter_refs true ex_req ex_units = Ok [(21, 11); (31, 11)] /\
  convert_filtered filter_refs false ex_req ex_units = Ok [(21, 11); (31, 11)].
Proof. repeat split; vm_compute; reflexivity. Qed.

(* ------------------------------------------------------------------------------------------ *)
(* Parent links.  Although unreserved DIEs are skipped, every DIE of the filtered output is attached to
   its own parent DIE (or to the unit root when it is a child of the root). *)
Theorem parents_kept : forall rf (dbg : bool) (req : N -> bool) (units : list unitd) out,
  wf_offsets units -> wf_layout units ->
  convert_filtered rf dbg req units = Ok out ->
  forall x p, In (x, p) out ->
    exists u e par, occurs units u e par /\ x = sec u (e_off e) /\
      p = match par with Some pe => sec u (e_off pe) | None => root_off u end.
Proof. exact filtered_parents. Qed.

(* ------------------------------------------------------------------------------------------ *)
(* Minimality under error tolerance.  With the attribute-by-attribute loop documented on ConvertUnit (an
   attribute whose conversion fails is skipped), for EVERY forest - whatever its reference sites hold:
   out-of-bounds unit-relative offsets, offsets of no DIE, dangling .debug_info offsets - the DIEs that come
   out are exactly the reserved ones, i.e. (closure_any_policy) the least closed set: a malformed reference
   neither adds a DIE nor removes one.  No hypothesis that the unfiltered conversion succeeds. *)
Theorem tolerant_emits_reserved : forall rf (dbg : bool) (req : N -> bool) (units : list unitd),
  wf_offsets units -> wf_layout units ->
  exists S out,
    reserved rf dbg req units = Ok S /\
    convert_filtered_tol rf dbg req units = Ok out /\
    (forall x, In x (map fst out) <-> In x S) /\
    (strict_sorted (section_offsets units) -> map fst out = S).
Proof. exact tolerant_emits_reserved_full. Qed.

(* a required variable of unit 0 whose DW_AT_type is the unit-relative offset 121: past the end of unit 0,
   and exactly where a typedef of unit 1 lives.  The strict conversion reports InvalidUnitRef; the tolerant
   one emits the variable alone - the DIE of the other unit is NOT pulled in. *)
Definition ex3_var : entry :=
  {| e_off := 21; e_tag := 52; e_decl := false; e_sites := [ {| s_car := CAttrUnit; s_val := 121 |} ] |}.
Definition ex3_typedef : entry := {| e_off := 21; e_tag := 22; e_decl := false; e_sites := [] |}.
Definition ex3_u0 : unitd := {| u_off := 0; u_hdr := 11; u_len := 30; u_kids := [ Node ex3_var [] ] |}.
Definition ex3_units : list unitd :=
  [ ex3_u0;
    {| u_off := 100; u_hdr := 11; u_len := 40; u_kids := [ Node ex3_typedef [] ] |} ].
Example oob_ex :
  in_bounds ex3_u0 121 = false /\
  convert_filtered filter_refs true (fun x => x =? 21) ex3_units = Err CInvalidUnitRef /\
  convert_filtered_tol filter_refs true (fun x => x =? 21) ex3_units = Ok [(21, 11)].
Proof. repeat split; vm_compute; reflexivity. Qed.

(* ------------------------------------------------------------------------------------------ *)
(* non-vacuity *)

(* a dependency map with a cycle, an edge to an unknown node, an unreachable node and a required
   unknown node *)
Definition ex_deps : deps :=
  {| d_edges := [(10, [20; 99]); (20, [30; 10]); (30, []); (40, [10])]; d_required := [77; 20] |}.
Example worklist_ex : get_reachable ex_deps = Ok [10; 20; 30].
Proof. vm_compute. reflexivity. Qed.

(* a forest with a namespace, a struct with a member, a variable referencing the struct *)
Definition ex_member : entry := {| e_off := 41; e_tag := 13; e_decl := false; e_sites := [] |}.
Definition ex_struct : entry := {| e_off := 31; e_tag := 19; e_decl := false; e_sites := [] |}.
Definition ex_ns : entry := {| e_off := 21; e_tag := 57; e_decl := false; e_sites := [] |}.
Definition ex_var : entry :=
  {| e_off := 51; e_tag := 52; e_decl := false; e_sites := [ {| s_car := CAttrUnit; s_val := 31 |} ] |}.
Definition ex_other : entry := {| e_off := 61; e_tag := 52; e_decl := false; e_sites := [] |}.
Definition ex_forest : list unitd :=
  [ {| u_off := 100; u_hdr := 11; u_len := 70;
       u_kids := [ Node ex_ns [ Node ex_struct [ Node ex_member [] ]; Node ex_other [] ]; Node ex_var [] ] |} ].

Example ex_forest_wf : wf_offsets ex_forest /\ wf_layout ex_forest.
Proof.
  split.
  - unfold wf_offsets. cbn. repeat constructor; cbn; intuition discriminate.
  - split; [cbn; intuition|].
    intros u e par [[<-|[]] Hin]. cbn in Hin.
    repeat (destruct Hin as [H|Hin]; [inversion H; subst; cbn; split; reflexivity|]). destruct Hin.
Qed.

(* requiring the variable keeps the struct it references, the struct's member and the enclosing
   namespace, but not the namespace's other child *)
Example closure_ex :
  convert_filtered filter_refs true (fun x => x =? 151) ex_forest
  = Ok [(121, 111); (131, 121); (141, 131); (151, 111)].
Proof. vm_compute. reflexivity. Qed.

Example no_dangling_ex : exists out0, convert_all ex_forest = Ok out0.
Proof. eexists. vm_compute. reflexivity. Qed.

Example tags_ex :
  has_die_back_edge 13 false = true /\ has_die_back_edge 19 false = false /\
  has_die_back_edge 46 false = false /\ has_die_back_edge 46 true = true /\ has_die_back_edge 16649 true = true.
Proof. vm_compute. repeat split. Qed.

(* two units, a cross-unit DW_FORM_ref_addr reference into a namespace of the second unit: the slices
   handed to reserve_unit and the DIEs that come out *)
Definition ex2_var : entry :=
  {| e_off := 21; e_tag := 52; e_decl := false; e_sites := [ {| s_car := CAttrInfo; s_val := 131 |} ] |}.
Definition ex2_ns : entry := {| e_off := 21; e_tag := 57; e_decl := false; e_sites := [] |}.
Definition ex2_struct : entry := {| e_off := 31; e_tag := 19; e_decl := false; e_sites := [] |}.
Definition ex2_units : list unitd :=
  [ {| u_off := 0; u_hdr := 11; u_len := 30; u_kids := [ Node ex2_var [] ] |};
    {| u_off := 100; u_hdr := 11; u_len := 40; u_kids := [ Node ex2_ns [ Node ex2_struct [] ] ] |} ].
Example slices_ex :
  reserved filter_refs true (fun x => x =? 21) ex2_units = Ok [21; 121; 131] /\
  slices true ex2_units [21; 121; 131] = Ok [[21]; [121; 131]] /\
  convert_filtered filter_refs true (fun x => x =? 21) ex2_units = Ok [(21, 11); (121, 111); (131, 121)].
Proof. repeat split; vm_compute; reflexivity. Qed.

Definition u_ex : unitd := {| u_off := 0; u_hdr := 11; u_len := 40; u_kids := [] |}.
(* every carrier yields the edge: nested in DW_OP_entry_value, in a skipped location-list entry *)
Example carriers_ex :
  filter_refs u_ex {| s_car := CExpr 2 OpImplicitPointer; s_val := 21 |} = [21] /\
  filter_refs u_ex {| s_car := CLoc LocEmpty 1 OpCall; s_val := 21 |} = [21] /\
  filter_refs u_ex {| s_car := CLoc LocTombstone 0 OpVariableValue; s_val := 21 |} = [21] /\
  filter_refs u_ex {| s_car := CExpr 0 OpConvert; s_val := 0 |} = [].
Proof. repeat split. Qed.

(* ------------------------------------------------------------------------------------------ *)
(* (6) Same attributes, no dangling id (Model/FilterAttrs.v).  A DIE is now its full attribute list
   (name, body, reference sites); `entry_of` is what FilterUnit::read_entry sees of it after
   FilterUnit::filter_attributes.  For every attribute forest, every required predicate and both build modes:
   the map entry_ids built by ConvertUnitSection::new_with_filter has as keys exactly the unit roots and the
   reserved DIEs; for every reserved DIE e, ConvertUnitEntry::filter_attributes + ConvertUnit::convert_attributes
   give under the filter's entry_ids and under the entry_ids of the unfiltered conversion (Dwarf::from) the same
   result once each (UnitId, UnitEntryId) is read back as the source DIE it was reserved for: the same
   attributes in the same order (DW_AT_sibling and the metadata attributes dropped, DW_AT_GNU_locviews skipped),
   the same bodies, references to the same source DIEs - or the same ConvertError.  No hypothesis that any
   conversion succeeds, so the statement also covers the attribute-by-attribute tolerant loop.
   And every id stored in a converted attribute stands for a unit root or a reserved DIE, i.e. (no_dangling /
   tolerant_emits_reserved) for a DIE that is emitted: nothing dangles in the written output. *)
Theorem same_attributes : forall (dbg : bool) (req : N -> bool) (aunits : list aunit),
  wf_offsets (map unit_of aunits) -> wf_layout (map unit_of aunits) ->
  exists S mF,
    reserved filter_refs dbg req (map unit_of aunits) = Ok S /\
    ids_filtered dbg req (map unit_of aunits) = Ok mF /\
    (forall x, In x (map fst mF) <-> is_root (map unit_of aunits) x \/ In x S) /\
    (forall au e, In au aunits -> In e (aunit_entries au) -> In (sec (unit_of au) (ae_off e)) S ->
       decode_attrs mF (cv_entry_attrs (unit_of au) mF e) =
       decode_attrs (ids_all (map unit_of aunits)) (cv_entry_attrs (unit_of au) (ids_all (map unit_of aunits)) e)) /\
    (forall au e out a id, cv_entry_attrs (unit_of au) mF e = Ok out -> In a out -> In id (ca_refs a) ->
       exists y, im_src id mF = Some y /\ (is_root (map unit_of aunits) y \/ In y S)).
Proof. exact same_attributes_full. Qed.

(* the two halves under their DESIGN names *)
Theorem no_dangling_written : forall (dbg : bool) (req : N -> bool) (aunits : list aunit),
  wf_offsets (map unit_of aunits) -> wf_layout (map unit_of aunits) ->
  exists S mF,
    reserved filter_refs dbg req (map unit_of aunits) = Ok S /\
    ids_filtered dbg req (map unit_of aunits) = Ok mF /\
    forall au e out a id, cv_entry_attrs (unit_of au) mF e = Ok out -> In a out -> In id (ca_refs a) ->
      exists y, im_src id mF = Some y /\ (is_root (map unit_of aunits) y \/ In y S).
Proof. exact no_dangling_written_full. Qed.

(* a struct e1 (member e2) referenced by the required variable e4; e3 is dropped, so e4 gets another id than
   in the unfiltered conversion; its DW_AT_sibling (pointing at e3!) and DW_AT_GNU_addr_base are dropped, the
   DW_AT_type reference is kept and denotes the same source DIE *)
Definition exa_e1 : aentry := {| ae_off := 21; ae_tag := 19; ae_attrs := [ {| at_name := 11; at_body := 4; at_sites := [] |} ] |}.
Definition exa_e2 : aentry := {| ae_off := 31; ae_tag := 13; ae_attrs := [] |}.
Definition exa_e3 : aentry := {| ae_off := 41; ae_tag := 36; ae_attrs := [] |}.
Definition exa_e4 : aentry :=
  {| ae_off := 51; ae_tag := 52;
     ae_attrs := [ {| at_name := 1; at_body := 0; at_sites := [ {| s_car := CAttrUnit; s_val := 41 |} ] |};
                   {| at_name := 73; at_body := 0; at_sites := [ {| s_car := CAttrUnit; s_val := 21 |} ] |};
                   {| at_name := 8499; at_body := 0; at_sites := [ {| s_car := CAttrUnit; s_val := 41 |} ] |} ] |}.
Definition exa_units : list aunit :=
  [ {| au_off := 0; au_hdr := 11; au_len := 60;
       au_kids := [ ANode exa_e1 [ ANode exa_e2 [] ]; ANode exa_e3 []; ANode exa_e4 [] ] |} ].
Definition exa_req (x : N) : bool := x =? 51.
Definition exa_u : unitd := unit_of {| au_off := 0; au_hdr := 11; au_len := 60; au_kids := [] |}.

Example exa_wf : wf_offsets (map unit_of exa_units) /\ wf_layout (map unit_of exa_units).
Proof.
  split.
  - unfold wf_offsets. cbn. repeat constructor; cbn; intuition discriminate.
  - split; [cbn; intuition|].
    intros u e par [[<-|[]] Hin]. cbn in Hin.
    repeat (destruct Hin as [H|Hin]; [inversion H; subst; cbn; split; reflexivity|]). destruct Hin.
Qed.

Example same_attributes_ex :
  reserved filter_refs true exa_req (map unit_of exa_units) = Ok [21; 31; 51] /\
  ids_filtered true exa_req (map unit_of exa_units) = Ok [(11, (0, 0)); (21, (0, 1)); (31, (0, 2)); (51, (0, 3))] /\
  ids_all (map unit_of exa_units) = [(11, (0, 0)); (21, (0, 1)); (31, (0, 2)); (41, (0, 3)); (51, (0, 4))] /\
  cv_entry_attrs exa_u [(11, (0, 0)); (21, (0, 1)); (31, (0, 2)); (51, (0, 3))] exa_e4
    = Ok [ {| ca_name := 73; ca_body := 0; ca_refs := [(0, 1)] |} ] /\
  fst (cu_filter_attributes (ae_attrs exa_e4)) = true.
Proof. repeat split; vm_compute; reflexivity. Qed.

(* ------------------------------------------------------------------------------------------ *)
(* (7) The bounds rule as coded.  FilterUnit::add_attribute_refs / add_expression_refs test
   UnitOffset::is_in_bounds and then add with the UNCHECKED usize `+` of UnitOffset::to_unit_section_offset.
   For every unit that ends inside a 2^64-byte section, every list of reference sites and both build modes the
   code neither panics nor wraps and records exactly the targets `filter_refs` that the graph theorems are
   about. *)
Theorem bounds_rule_exact : forall (dbg : bool) (u : unitd) (ss : list site) (deps : list N),
  unit_end u <= 2 ^ 64 ->
  push_sites_refs dbg u ss deps = Ok (deps ++ flat_map (filter_refs u) ss).
Proof. exact push_sites_refs_exact. Qed.

(* An out-of-bounds unit-relative operand records nothing: for every unit (no layout hypothesis), every value
   - in particular one that equals "offset of a DIE of a later unit minus the start of this unit" - in both
   build modes. *)
Theorem oob_ref_no_edge : forall (dbg : bool) (u : unitd) (s : site) (deps : list N),
  site_unit_relative s = true -> in_bounds u (s_val s) = false ->
  push_site_refs dbg u s deps = Ok deps /\ filter_refs u s = [].
Proof. exact push_oob_nothing. Qed.

(* No unit-relative site ever names a DIE of another unit. *)
Theorem unit_relative_stays_home : forall units u u' e' par' s,
  wf_layout units -> In u units -> occurs units u' e' par' ->
  site_unit_relative s = true -> In (sec u' (e_off e')) (filter_refs u s) -> u' = u.
Proof. exact unit_relative_stays_home_full. Qed.

(* Minimality survives numeric coincidences.  `own_refs` reads a unit-relative reference without any byte
   arithmetic: it denotes the DIE of ITS OWN unit that starts at that unit offset, if there is one, and nothing
   otherwise.  On every well laid out forest the filter reserves exactly the set that reading reserves, which
   by closure_any_policy is the least set closed under parents, those references and member-like children: an
   out-of-bounds unit-relative reference whose value coincides with a DIE of a later unit retains nothing. *)
Theorem oob_refs_add_nothing : forall (dbg : bool) (req : N -> bool) (units : list unitd),
  wf_offsets units -> wf_layout units ->
  reserved filter_refs dbg req units = reserved own_refs dbg req units.
Proof. exact oob_refs_add_nothing_full. Qed.

(* the forest of oob_ex: the variable of unit 0 has DW_AT_type = 121, the unit offset at which a typedef of
   unit 1 happens to live in the section *)
Example oob_refs_ex :
  unit_end ex3_u0 <= 2 ^ 64 /\
  push_sites_refs true ex3_u0 (e_sites ex3_var) [] = Ok [] /\
  own_refs ex3_u0 {| s_car := CAttrUnit; s_val := 121 |} = [] /\
  reserved filter_refs true (fun x => x =? 21) ex3_units = Ok [21] /\
  reserved own_refs true (fun x => x =? 21) ex3_units = Ok [21].
Proof. repeat split; vm_compute; try reflexivity; discriminate. Qed.

Example ex3_wf : wf_offsets ex3_units /\ wf_layout ex3_units.
Proof.
  split.
  - unfold wf_offsets. cbn. repeat constructor; cbn; intuition discriminate.
  - split; [cbn; intuition; subst; cbn; discriminate|].
    intros u e par [[<-|[<-|[]]] Hin]; cbn in Hin;
      repeat (destruct Hin as [H|Hin]; [inversion H; subst; cbn; split; reflexivity|]); destruct Hin.
Qed.

(* ------------------------------------------------------------------------------------------ *)
(* (8) Split DWARF.  FilterUnitSection::new_split builds the dependency map with the same FilterUnit::read_entry;
   ConvertSplitUnitSection::new_with_filter converts the first unit of the .dwo section and reserves the
   reachable offsets lying in it.  When the .dwo section holds one unit (the DWARF 5 / GNU split
   layout) the DIEs emitted are those of the ordinary path, so every theorem above applies to it.  NOT modelled:
   a .dwo section with several units, the skeleton's own attributes / line program / copy_relocated_attributes. *)
Theorem split_single_unit : forall rf (dbg : bool) (req : N -> bool) (u : unitd),
  wf_offsets [u] -> wf_layout [u] ->
  convert_split_filtered rf dbg req [u] = convert_filtered rf dbg req [u].
Proof. exact split_single_unit_full. Qed.

Example split_ex :
  convert_split_filtered filter_refs true (fun x => x =? 151) ex_forest
  = Ok [(121, 111); (131, 121); (141, 131); (151, 111)].
Proof. vm_compute. reflexivity. Qed.

(* ------------------------------------------------------------------------------------------ *)
(* (9) ONE model of the conversion.  The attribute-level conversion of Model/FilterAttrs.v (convert_units_attrs:
   read_entry + add_entry + convert_attributes with entry_ids and real attribute lists) and the conversion of
   Model/Filter.v that the closure / minimality / parent theorems are about emit the same DIEs attached to the
   same parents: whenever the attribute-level filtered conversion (strict or tolerant) succeeds, its DIEs and
   parents are those of convert_filtered_tol - hence (tolerant_emits_reserved, parents_kept) exactly the reserved
   set, each DIE under its own parent. *)
Theorem attrs_structure : forall (tol dbg : bool) (req : N -> bool) (aunits : list aunit) m out,
  convert_filtered_attrs tol dbg req aunits = Ok (m, out) ->
  ids_filtered dbg req (map unit_of aunits) = Ok m /\
  convert_filtered_tol filter_refs dbg req (map unit_of aunits) = Ok (map cd_pair out).
Proof. exact attrs_structure_full. Qed.

(* and whenever the strict conversion of Model/Filter.v succeeds, so does the attribute-level one, with the same
   DIEs and parents (the converse needs no DW_AT_GNU_locviews attribute with a malformed reference: the model of
   Filter.v converts every site the filter sees, convert_attributes skips that attribute) *)
Theorem attrs_strict : forall (dbg : bool) (req : N -> bool) (aunits : list aunit) out0,
  convert_filtered filter_refs dbg req (map unit_of aunits) = Ok out0 ->
  exists m out, convert_filtered_attrs false dbg req aunits = Ok (m, out) /\ map cd_pair out = out0.
Proof. exact attrs_strict_full. Qed.

(* (9') Same attributes for the tolerant loop, composed with tolerant_emits_reserved.  For EVERY well-formed
   attribute forest (whatever its reference sites hold), every required predicate and both build modes the
   attribute-by-attribute conversion under the filter succeeds, emits exactly the reserved set with the parents
   of convert_filtered_tol, and every emitted DIE carries exactly the attributes the same loop produces for that
   DIE in the UNFILTERED conversion (same attributes survive, same order, same bodies, references to the same
   source DIEs once ids are read back). *)
Theorem same_attributes_tolerant : forall (dbg : bool) (req : N -> bool) (aunits : list aunit),
  wf_offsets (map unit_of aunits) -> wf_layout (map unit_of aunits) ->
  exists S mF out,
    reserved filter_refs dbg req (map unit_of aunits) = Ok S /\
    convert_filtered_attrs true dbg req aunits = Ok (mF, out) /\
    convert_filtered_tol filter_refs dbg req (map unit_of aunits) = Ok (map cd_pair out) /\
    (forall x, In x (map cd_off out) <-> In x S) /\
    forall c, In c out -> exists au e,
      In au aunits /\ In e (aunit_entries au) /\ cd_off c = sec (unit_of au) (ae_off e) /\
      map (decode_attr mF) (cd_attrs c) =
      map (decode_attr (ids_all (map unit_of aunits)))
          (cv_attributes_tol (unit_of au) (ids_all (map unit_of aunits)) (snd (cu_filter_attributes (ae_attrs e)))).
Proof. exact same_attributes_tolerant_full. Qed.

Example attrs_structure_ex :
  exists m out, convert_filtered_attrs false true exa_req exa_units = Ok (m, out) /\
                map cd_pair out = [(21, 11); (31, 21); (51, 11)] /\
                map cd_sibling out = [false; false; true].
Proof. eexists. eexists. split; [vm_compute; reflexivity|]. split; reflexivity. Qed.

(* DW_AT_GNU_locviews (decision recorded in notes/c19attr.md): the filter records the references of such an
   attribute, convert_attributes skips the attribute.  Here the required variable names the typedef only through a
   reference-form DW_AT_GNU_locviews: the typedef is reserved (it IS connected to the required DIE by a reference
   of the input, which is what the property's minimality clause speaks about) and the variable's converted
   attributes do not mention it - in the filtered and in the unfiltered conversion alike. *)
Definition exl_typedef : aentry := {| ae_off := 21; ae_tag := 22; ae_attrs := [] |}.
Definition exl_var : aentry :=
  {| ae_off := 31; ae_tag := 52;
     ae_attrs := [ {| at_name := DW_AT_GNU_locviews; at_body := 0; at_sites := [ {| s_car := CAttrUnit; s_val := 21 |} ] |} ] |}.
Definition exl_units : list aunit :=
  [ {| au_off := 0; au_hdr := 11; au_len := 40; au_kids := [ ANode exl_typedef []; ANode exl_var [] ] |} ].
Example locviews_ex :
  reserved filter_refs true (fun x => x =? 31) (map unit_of exl_units) = Ok [21; 31] /\
  cv_entry_attrs exa_u [(11, (0, 0)); (21, (0, 1)); (31, (0, 2))] exl_var = Ok [].
Proof. split; vm_compute; reflexivity. Qed.

(* ------------------------------------------------------------------------------------------ *)
(* (10) Split-unit filters on a .dwo section with ANY number of units (DWARF 5 and GNU DWARF 4 split units take
   the same path).  ConvertSplitUnitSection::new_with_filter converts the FIRST unit and (as repaired)
   reserves the reachable offsets lying in it.  For every well-formed section u0 :: us: the tolerant split conversion succeeds and emits exactly the
   reserved DIEs that lie in u0, and a strict split conversion that succeeds emits the same list. *)
Theorem split_units : forall rf (dbg : bool) (req : N -> bool) (u0 : unitd) (us : list unitd),
  wf_offsets (u0 :: us) -> wf_layout (u0 :: us) ->
  exists S out,
    reserved rf dbg req (u0 :: us) = Ok S /\
    convert_split_filtered_tol rf dbg req (u0 :: us) = Ok out /\
    (forall x, In x (map fst out) <-> In x S /\ in_unit u0 x = true) /\
    (forall out', convert_split_filtered rf dbg req (u0 :: us) = Ok out' -> out' = out).
Proof. exact split_units_full. Qed.

(* No dangling reference in the split path (full statement; the split filter was repaired in /repo 7a2e6de:
   only the offsets of the converted unit are reserved).  Every reference the strict split conversion resolves
   for an emitted DIE names the root DIE or an emitted DIE. *)
Theorem split_refs : forall (dbg : bool) (req : N -> bool) (u0 : unitd) (us : list unitd) out,
  wf_offsets (u0 :: us) -> wf_layout (u0 :: us) ->
  convert_split_filtered filter_refs dbg req (u0 :: us) = Ok out ->
  forall e par s y, In (e, par) (unit_pairs u0) -> In (sec u0 (e_off e)) (map fst out) ->
    In s (e_sites e) -> In y (conv_refs u0 s) ->
    y = root_off u0 \/ In y (map fst out).
Proof. exact split_refs_full. Qed.

(* A reference from a reserved DIE of the first unit to a reachable DIE of ANOTHER unit of the .dwo section
   (`split_foreign`) can only be a .debug_info-form reference (DW_FORM_ref_addr, DW_OP_call_ref,
   DW_OP_implicit_pointer, DW_OP_GNU_variable_value); its conversion fails with InvalidDebugInfoRef - the error the
   unfiltered ConvertUnit::convert_split reports for it - and the strict split conversion does not succeed, in
   both build modes: no write::Dwarf holding a reference to a DIE that is never added is produced. *)
Theorem split_foreign_ref_is_error : forall (dbg : bool) (req : N -> bool) (u0 : unitd) (us : list unitd) S,
  wf_offsets (u0 :: us) -> wf_layout (u0 :: us) ->
  reserved filter_refs dbg req (u0 :: us) = Ok S ->
  forall e par s y, In (e, par) (unit_pairs u0) -> In (sec u0 (e_off e)) S ->
    In s (e_sites e) -> In y (conv_refs u0 s) -> split_foreign u0 S y = true ->
    site_unit_relative s = false /\
    conv_site u0 (root_off u0 :: own_offsets u0 S) s = Err CInvalidDebugInfoRef /\
    forall out, convert_split_filtered filter_refs dbg req (u0 :: us) <> Ok out.
Proof. exact split_foreign_ref_is_error_full. Qed.

(* the input of the repaired defect (fixed: 7a2e6de): two units in the .dwo section, a required variable of the
   first whose DW_AT_type is a DW_FORM_ref_addr reference to a struct of the second.  The strict filtered split
   conversion now reports InvalidDebugInfoRef like the unfiltered conversion of the first unit alone; the tolerant
   loop skips the attribute and emits the variable. *)
Example split_foreign_ex :
  wf_offsets sx_units /\ wf_layout sx_units /\
  reserved filter_refs true (fun x => x =? 21) sx_units = Ok [21; 121; 131] /\
  split_foreign sx_u0 [21; 121; 131] 131 = true /\
  convert_split_filtered filter_refs true (fun x => x =? 21) sx_units = Err CInvalidDebugInfoRef /\
  convert_split_filtered filter_refs false (fun x => x =? 21) sx_units = Err CInvalidDebugInfoRef /\
  convert_split_filtered_tol filter_refs true (fun x => x =? 21) sx_units = Ok [(21, 11)] /\
  convert_all [sx_u0] = Err CInvalidDebugInfoRef.
Proof. exact split_foreign_example. Qed.

(* pins *)
Check worklist_correct : forall d : deps,
  exists l, get_reachable d = Ok l /\ strict_sorted l /\
            forall x, In x l <-> reach (dep_valid d) (dep_edge d) (dep_required d) x.
Check closure : forall (dbg : bool) (req : N -> bool) (units : list unitd),
  wf_offsets units ->
  exists S, reserved filter_refs dbg req units = Ok S /\ strict_sorted S /\
    dependency_closed filter_refs req units (fun x => In x S) /\
    (forall x, In x S -> f_valid units x) /\
    (forall T : N -> Prop, dependency_closed filter_refs req units T -> forall x, In x S -> T x).
Check edges_complete : forall (u : unitd) (s : site), incl (conv_refs u s) (filter_refs u s).
Check same_attributes : forall (dbg : bool) (req : N -> bool) (aunits : list aunit),
  wf_offsets (map unit_of aunits) -> wf_layout (map unit_of aunits) ->
  exists S mF,
    reserved filter_refs dbg req (map unit_of aunits) = Ok S /\
    ids_filtered dbg req (map unit_of aunits) = Ok mF /\
    (forall x, In x (map fst mF) <-> is_root (map unit_of aunits) x \/ In x S) /\
    (forall au e, In au aunits -> In e (aunit_entries au) -> In (sec (unit_of au) (ae_off e)) S ->
       decode_attrs mF (cv_entry_attrs (unit_of au) mF e) =
       decode_attrs (ids_all (map unit_of aunits)) (cv_entry_attrs (unit_of au) (ids_all (map unit_of aunits)) e)) /\
    (forall au e out a id, cv_entry_attrs (unit_of au) mF e = Ok out -> In a out -> In id (ca_refs a) ->
       exists y, im_src id mF = Some y /\ (is_root (map unit_of aunits) y \/ In y S)).
Check bounds_rule_exact : forall (dbg : bool) (u : unitd) (ss : list site) (deps : list N),
  unit_end u <= 2 ^ 64 ->
  push_sites_refs dbg u ss deps = Ok (deps ++ flat_map (filter_refs u) ss).
Check oob_refs_add_nothing : forall (dbg : bool) (req : N -> bool) (units : list unitd),
  wf_offsets units -> wf_layout units ->
  reserved filter_refs dbg req units = reserved own_refs dbg req units.
Check split_single_unit : forall rf (dbg : bool) (req : N -> bool) (u : unitd),
  wf_offsets [u] -> wf_layout [u] ->
  convert_split_filtered rf dbg req [u] = convert_filtered rf dbg req [u].
Check attrs_structure : forall (tol dbg : bool) (req : N -> bool) (aunits : list aunit) m out,
  convert_filtered_attrs tol dbg req aunits = Ok (m, out) ->
  ids_filtered dbg req (map unit_of aunits) = Ok m /\
  convert_filtered_tol filter_refs dbg req (map unit_of aunits) = Ok (map cd_pair out).
Check split_units : forall rf (dbg : bool) (req : N -> bool) (u0 : unitd) (us : list unitd),
  wf_offsets (u0 :: us) -> wf_layout (u0 :: us) ->
  exists S out,
    reserved rf dbg req (u0 :: us) = Ok S /\
    convert_split_filtered_tol rf dbg req (u0 :: us) = Ok out /\
    (forall x, In x (map fst out) <-> In x S /\ in_unit u0 x = true) /\
    (forall out', convert_split_filtered rf dbg req (u0 :: us) = Ok out' -> out' = out).
Check split_refs : forall (dbg : bool) (req : N -> bool) (u0 : unitd) (us : list unitd) out,
  wf_offsets (u0 :: us) -> wf_layout (u0 :: us) ->
  convert_split_filtered filter_refs dbg req (u0 :: us) = Ok out ->
  forall e par s y, In (e, par) (unit_pairs u0) -> In (sec u0 (e_off e)) (map fst out) ->
    In s (e_sites e) -> In y (conv_refs u0 s) ->
    y = root_off u0 \/ In y (map fst out).
