(* Properties/C19.v — placeholder, replaced once Proofs/FilterProofs.v exists. *)
Require Import GV.Base.Res GV.Spec.Graph GV.Model.Filter.
