(* Properties/C10.v — "Readers are faithful zero-copy views; all reader kinds behave identically".
   Model: GV.Model.Cursor (EndianReader/SubRange = [cur], EndianSlice = [srd], RelocateReader = [rrd],
   all three instances of one Reader-trait record, run by [gstep]); vocabulary ([Inv], [Sub], [wf_alloc],
   [RInv], [spec_step], [refines_prim], [abs]) in GV.Proofs.CursorProofs; [is_view], [first_occurrence],
   [wf_utf8] in GV.Spec.CursorSpec.
   Theorems only restate lemmas of CursorProofs; Examples show the hypotheses are met by concrete readers. *)
From Coq Require Import List NArith ZArith Bool.
From Coq.Strings Require Import Byte.
Require Import GV.Base.Res GV.Base.Byt GV.Base.Ints GV.Model.Prim GV.Spec.CursorSpec GV.Model.Cursor
               GV.Proofs.CursorProofs.
Import ListNotations.
Local Open Scope N_scope.

(* ---- the model of one Reader call has a closed form: asserts never fire, nothing overflows ---- *)
Theorem step_closed_form : forall dbg be root c op,
  step dbg be root c op = spec_step dbg be root c op.
Proof. exact step_spec. Qed.

(* a call that does not return Ok leaves the reader where it was (every op, every argument) *)
Theorem failure_keeps_state : forall dbg be root c op,
  is_ok (snd (step dbg be root c op)) = false -> fst (step dbg be root c op) = c.
Proof. exact failure_keeps_state_lemma. Qed.

(* inside its section no call panics (no SubRange assert!, no debug_assert!, no overflow, in debug or
   release) except read_uint(n) with n > 8, which indexes an 8-byte array out of range *)
Theorem only_read_uint_panics : forall dbg be root c op,
  Inv root -> wf_alloc root -> Sub root c ->
  (snd (step dbg be root c op) = Panic -> exists n, op = CReadUint n /\ (8 < n)%nat) /\
  snd (step dbg be root c op) <> OutOfFuel.
Proof. exact only_read_uint_panics_lemma. Qed.

(* ---- inv_preserved: ptr+len stays inside the allocation, for the reader and for what it returns ---- *)
Theorem inv_preserved : forall dbg be root c op,
  Inv c ->
  Inv (fst (step dbg be root c op)) /\
  forall r, snd (step dbg be root c op) = Ok (VRd r) -> Inv r.
Proof. exact inv_preserved_lemma. Qed.

(* ---- all_histories: any pool history (calls on any live reader, clone, split results, drop, in any
   order; in-range or not) keeps every live reader and every returned reader inside the section ---- *)
Theorem all_histories : forall dbg be b a (ops : list pop),
  Forall (in_section b a) (fst (prun dbg be (new b a) [new b a] ops)) /\
  Forall (fun o => forall r, o = Some (Ok (VRd r)) -> in_section b a r)
         (snd (prun dbg be (new b a) [new b a] ops)).
Proof. exact all_histories_lemma. Qed.

Theorem one_reader_histories : forall dbg be b a (ops : list cop),
  in_section b a (fst (run dbg be (new b a) (new b a) ops)) /\
  Forall (fun o => forall r, o = Ok (VRd r) -> in_section b a r)
         (snd (run dbg be (new b a) (new b a) ops)).
Proof. exact one_reader_histories_lemma. Qed.

(* ---- view_correct ---- *)
(* the bytes of a reader are the section bytes at its offset, exactly [len] of them *)
Theorem bytes_are_a_view : forall c,
  Inv c -> is_view (buf c) (off c) (bytes c) /\ N.of_nat (length (bytes c)) = len c.
Proof. intros c H. split; [now apply bytes_is_view | now apply bytes_length]. Qed.

(* a view is determined by section, offset and length: nothing copied from elsewhere or reordered *)
Theorem view_unique : forall b o v w,
  is_view b o v -> is_view b o w -> length v = length w -> v = w.
Proof. exact is_view_unique. Qed.

Theorem view_correct : forall dbg be root c op c' r,
  Inv c -> step dbg be root c op = (c', r) ->
  (Sub c c' /\ is_view (buf c) (off c') (bytes c') /\ N.of_nat (length (bytes c')) = len c') /\
  (forall x, r = Ok (VRd x) ->
     Sub c x /\ is_view (buf c) (off x) (bytes x) /\ N.of_nat (length (bytes x)) = len x) /\
  (forall bs, r = Ok (VBytes bs) ->
     exists o, off c <= o /\ o + N.of_nat (length bs) <= off c + len c /\ is_view (buf c) o bs).
Proof. exact view_correct_lemma. Qed.

(* split(n): the two readers are the two halves, at the reported offsets and lengths *)
Theorem split_exact : forall dbg be root c n,
  (n <= len c ->
   exists x c', step dbg be root c (CSplit n) = (c', Ok (VRd x)) /\
     off x = off c /\ len x = n /\ off c' = off c + n /\ len c' = len c - n /\
     bytes c = bytes x ++ bytes c') /\
  (len c < n -> step dbg be root c (CSplit n) = (c, Err EUnexpectedEof)).
Proof. exact split_exact_lemma. Qed.

(* the read_* calls are the list-level codecs of Model/Prim.v run on the reader's bytes, and the
   reader afterwards holds exactly the unconsumed rest *)
Theorem read_un_refines : forall dbg be root c w,
  Inv c -> refines_prim (Prim.read_un w be) (fun a v => v = VNum a) c (step dbg be root c (CReadUn w)).
Proof. exact read_un_refines_lemma. Qed.
Theorem read_in_refines : forall dbg be root c w,
  Inv c -> refines_prim (Prim.read_in w be) (fun a v => v = VInt a) c (step dbg be root c (CReadIn w)).
Proof. exact read_in_refines_lemma. Qed.
Theorem read_uint_refines : forall dbg be root c n,
  Inv c -> refines_prim (Prim.read_uint n be) (fun a v => v = VNum a) c (step dbg be root c (CReadUint n)).
Proof. exact read_uint_refines_lemma. Qed.
Theorem read_address_refines : forall dbg be root c size,
  Inv c ->
  refines_prim (Prim.read_address size be) (fun a v => v = VNum a) c (step dbg be root c (CReadAddress size)).
Proof. exact read_address_refines_lemma. Qed.
Theorem read_sized_offset_refines : forall dbg be root c size,
  Inv c ->
  refines_prim (Prim.read_sized_offset size be) (fun a v => v = VNum a) c
               (step dbg be root c (CReadSizedOffset size)).
Proof. exact read_sized_offset_refines_lemma. Qed.
Theorem read_word_refines : forall dbg be root c f,
  Inv c ->
  refines_prim (Prim.read_word f be) (fun a v => v = VNum a) c (step dbg be root c (CReadOffset f)) /\
  refines_prim (Prim.read_word f be) (fun a v => v = VNum a) c (step dbg be root c (CReadLength f)).
Proof. exact read_word_refines_lemma. Qed.
Theorem read_cstr_refines : forall dbg be root c,
  Inv c ->
  refines_prim Prim.read_cstr (fun s v => exists x, v = VRd x /\ bytes x = s /\ off x = off c) c
               (step dbg be root c CReadCstr).
Proof. exact read_cstr_refines_lemma. Qed.

(* find: index of the first occurrence, or UnexpectedEof exactly when the byte is absent *)
Theorem find_spec : forall dbg be root c b,
  Inv c ->
  match snd (step dbg be root c (CFind b)) with
  | Ok (VNum i) => first_occurrence b (bytes c) i
  | Err EUnexpectedEof => ~ In b (bytes c)
  | _ => False
  end.
Proof. exact find_spec_lemma. Qed.

(* to_string: the bytes themselves, exactly when they are well-formed UTF-8 (Unicode table 3-7) *)
Theorem to_string_spec : forall dbg be root c,
  match snd (step dbg be root c CToString) with
  | Ok (VBytes bs) => bs = bytes c /\ wf_utf8 (bytes c)
  | Err EBadUtf8 => ~ wf_utf8 (bytes c)
  | _ => False
  end.
Proof. exact to_string_spec_lemma. Qed.

(* ---- offset_ids ---- *)
Theorem offset_ids : forall dbg root c,
  Inv root -> wf_alloc root -> Sub root c ->
  er_lookup_offset_id dbg root (er_offset_id c) = Ok (Some (off c - off root)) /\
  er_lookup_offset_id dbg root (er_offset_id c + len c) = Ok (Some (off c + len c - off root)) /\
  (forall id k, er_lookup_offset_id dbg root id = Ok (Some k) ->
                id = er_offset_id root + k /\ k <= len root) /\
  (forall id, id < er_offset_id root \/ er_offset_id root + len root < id ->
              er_lookup_offset_id dbg root id = Ok None).
Proof. exact offset_ids_lemma. Qed.

Theorem offset_from_section : forall dbg root c,
  Inv root -> wf_alloc root -> Sub root c -> er_offset_from dbg c root = Ok (off c - off root).
Proof. exact offset_from_lemma. Qed.

(* every live reader of every history maps back to its own position, in debug and release builds *)
Theorem history_offset_ids : forall dbg be b a (ops : list pop),
  a + N.of_nat (length b) < two64 ->
  Forall (fun c => er_lookup_offset_id dbg (new b a) (er_offset_id c) = Ok (Some (off c)) /\
                   er_offset_from dbg c (new b a) = Ok (off c))
         (fst (prun dbg be (new b a) [new b a] ops)).
Proof. exact history_offset_ids_lemma. Qed.

(* ---- reloc_identity: RelocateReader<EndianReader, identity> = the inner reader, for every call
   (its split is clone+truncate+skip; its address/offset reads ask offset_from(section) first) ---- *)
Theorem reloc_identity : forall dbg be root rc op,
  RInv rc ->
  rstep dbg be root rc op = lift_out rc (step dbg be (rreader root) (rreader rc) op).
Proof. exact reloc_identity_lemma. Qed.

Theorem reloc_identity_histories : forall dbg be b a (ops : list cop),
  a + N.of_nat (length b) < two64 ->
  let s := new b a in
  rrun dbg be (rr_new s) (rr_new s) ops =
  (set_reader (rr_new s) (fst (run dbg be s s ops)),
   map (rmap (lift_val (rr_new s))) (snd (run dbg be s s ops))).
Proof.
  intros dbg be b a ops H s.
  exact (reloc_identity_histories_lemma dbg be (rr_new s) ops (rr_new s) (RInv_new b a H)).
Qed.

(* ---- kinds_agree: the EndianSlice model run on the same window gives the same reader and the same
   results as the EndianReader model, for EVERY call (including `empty`, since gimli fd639ac keeps the
   position of an emptied EndianSlice) and hence for every history ---- *)
Theorem kinds_agree : forall dbg be root c op,
  Inv c -> Inv root ->
  sstep dbg be (abs root) (abs c) op = abs_out (step dbg be root c op).
Proof. exact kinds_agree_lemma. Qed.

Theorem kinds_agree_histories : forall dbg be root ops c,
  Inv c -> Inv root ->
  srun dbg be (abs root) (abs c) ops =
  (abs (fst (run dbg be root c ops)), map (rmap abs_val) (snd (run dbg be root c ops))).
Proof. exact kinds_agree_histories_lemma. Qed.

(* ---- the hypotheses are satisfiable by non-trivial readers ---- *)
Definition ex_buf : list byte := [x41; x00; xc3; xa9; x00; x10; x20].
Definition ex_root : cur := new ex_buf 65536.
Definition ex_cur : cur := mkCur ex_buf 65536 2 3.

Example ex_inv : Inv ex_root /\ Inv ex_cur.
Proof. split; vm_compute; discriminate. Qed.
Example ex_wf_alloc : wf_alloc ex_root.
Proof. vm_compute. reflexivity. Qed.
Example ex_sub : Sub ex_root ex_cur.
Proof. repeat split; vm_compute; discriminate. Qed.
Example ex_rinv : RInv (mkRR ex_root ex_cur).
Proof. split; [|split]; [exact (proj1 ex_inv) | exact ex_wf_alloc | exact ex_sub]. Qed.
(* a history that splits, reads a C string, clones, drops the root and reads from the clone *)
Example ex_history :
  snd (prun true false ex_root [ex_root]
         [POp 0 (CSplit 2); POp 0 CReadCstr; PClone 0; PDrop 0; POp 1 (CReadUn 2); PLookup 0 2]) =
  [Some (Ok (VRd (mkCur ex_buf 65536 0 2))); Some (Ok (VRd (mkCur ex_buf 65536 2 2)));
   Some (Ok (VRd (mkCur ex_buf 65536 5 2))); Some (Ok VUnit); Some (Ok (VNum 43459));
   Some (Ok (VOpt None))].
Proof. vm_compute. reflexivity. Qed.
(* after `empty` both models still know where the reader is *)
Example ex_empty_agrees :
  snd (srun true false (abs ex_root) (abs ex_cur) [CEmpty; COffsetFromRoot; CRootLookupSelf]) =
    [Ok VUnit; Ok (VNum 2); Ok (VOpt (Some 2))] /\
  snd (run true false ex_root ex_cur [CEmpty; COffsetFromRoot; CRootLookupSelf]) =
    [Ok VUnit; Ok (VNum 2); Ok (VOpt (Some 2))].
Proof. vm_compute. split; reflexivity. Qed.

(* ---- pins ---- *)
Check (inv_preserved : forall dbg be root c op, Inv c ->
  Inv (fst (step dbg be root c op)) /\ forall r, snd (step dbg be root c op) = Ok (VRd r) -> Inv r).
Check (all_histories : forall dbg be b a (ops : list pop),
  Forall (in_section b a) (fst (prun dbg be (new b a) [new b a] ops)) /\
  Forall (fun o => forall r, o = Some (Ok (VRd r)) -> in_section b a r)
         (snd (prun dbg be (new b a) [new b a] ops))).
Check (reloc_identity : forall dbg be root rc op, RInv rc ->
  rstep dbg be root rc op = lift_out rc (step dbg be (rreader root) (rreader rc) op)).
Check (history_offset_ids : forall dbg be b a (ops : list pop),
  a + N.of_nat (length b) < two64 ->
  Forall (fun c => er_lookup_offset_id dbg (new b a) (er_offset_id c) = Ok (Some (off c)) /\
                   er_offset_from dbg c (new b a) = Ok (off c))
         (fst (prun dbg be (new b a) [new b a] ops))).
Check (kinds_agree : forall dbg be root c op, Inv c -> Inv root ->
  sstep dbg be (abs root) (abs c) op = abs_out (step dbg be root c op)).
Check (kinds_agree_histories : forall dbg be root ops c, Inv c -> Inv root ->
  srun dbg be (abs root) (abs c) ops =
  (abs (fst (run dbg be root c ops)), map (rmap abs_val) (snd (run dbg be root c ops)))).
