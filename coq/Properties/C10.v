(* placeholder until Proofs/CursorProofs.v lands: keeps the pipeline end-to-end *)
From Coq Require Import List NArith.
Require Import GV.Model.Cursor GV.Spec.CursorSpec.
Theorem c10_placeholder : True. Proof. exact I. Qed.
