(* Properties/C08.v — range and location lists resolve to the standard's address ranges.
   Only `Theorem … exact lemma`, `Example`s (hypotheses are satisfiable, non-trivially) and `Check` pins.

   Model: GV.Model.ListsRd (mirrors read/rnglists.rs, read/loclists.rs, read/addr.rs get_address,
   read/str.rs get_str_offset, read/dwarf.rs range helpers). Spec: GV.Spec.ListSpec.
   `ranges_all` / `locations_all` / `raw_*_all` = the entry point followed by calling next() until Ok(None),
   recording every yielded item (EvItem) and every error (EvErr): what a caller of the iterator observes.
   `dbg` = build mode (true: overflow checks). usize = u64. *)
From Coq Require Import List NArith Bool.
From Coq.Strings Require Import Byte.
Require Import GV.Base.Res GV.Base.Byt GV.Base.Ints GV.Model.Prim GV.Spec.ListSpec GV.Model.ListsRd
               GV.Proofs.ListsRdProofs.
Import ListNotations.
Local Open Scope N_scope.

(* ================================================================== 1. universal clause
   "For any input whatsoever every yielded range is non-empty and begins below the tombstone addresses."
   No hypothesis at all: any bytes in any section, any offset, base, address table, version, address size
   (validated or not), both build modes. `t` is the value gimli's min_tombstone computes for the configured
   address size; for the four real address sizes it is 2^(8*size) - 2 (next theorem). *)
Theorem nonempty_below_tombstone_ranges :
  forall dbg c x debug_ranges debug_rnglists offset base l r,
    ranges_all dbg c x debug_ranges debug_rnglists offset base = Ok l -> In (EvItem r) l ->
    fst r < snd r /\ exists t, min_tombstone_raw dbg (c_asize c) = Ok t /\ fst r < t.
Proof. exact ranges_all_yield. Qed.

Theorem nonempty_below_tombstone_locations :
  forall dbg c dwo x debug_loc debug_loclists offset base l r d,
    locations_all dbg c dwo x debug_loc debug_loclists offset base = Ok l -> In (EvItem (r, d)) l ->
    fst r < snd r /\ exists t, min_tombstone_raw dbg (c_asize c) = Ok t /\ fst r < t.
Proof. exact locations_all_yield. Qed.

(* the threshold is -2 at the address size, and equals Prim.min_tombstone used by the other models *)
Theorem tombstone_threshold :
  forall dbg sz, valid_asize sz = true ->
    min_tombstone_raw dbg sz = Ok (2 ^ (8 * sz) - 2) /\ min_tombstone sz = 2 ^ (8 * sz) - 2.
Proof. exact c08_tombstone_threshold. Qed.

(* also for one call of next() from any iterator state with any amount of fuel *)
Theorem nonempty_below_tombstone_next :
  forall fuel dbg c bare x s r s',
    rng_next fuel dbg c bare x s = (Ok (Some r), s') ->
    fst r < snd r /\ exists t, min_tombstone_raw dbg (c_asize c) = Ok t /\ fst r < t.
Proof. exact c08_nonempty_below_tombstone_next. Qed.

(* non-vacuity: a list in which tombstoned, empty, reversed and wrapping entries are dropped and two survive *)
Example nonempty_below_tombstone_example :
  ranges_all true {| c_be := false; c_asize := 1; c_version := 5 |} {| x_addr := [xfe; x10]; x_addr_base := 0 |} []
    [x04; x01; x05;            (* offset_pair 1 5   from base 0x20              -> [0x21,0x25) *)
     x05; xff; x04; x00; x03;  (* base_address 0xff ; offset_pair 0 3           -> deleted base: dropped *)
     x06; x30; x30;            (* start_end 0x30 0x30                           -> empty: dropped *)
     x06; x40; x30;            (* start_end 0x40 0x30                           -> reversed: dropped *)
     x02; x00; x01;            (* startx_endx [0]=0xfe [1]=0x10                 -> tombstone: dropped *)
     x07; xf0; x20;            (* start_length 0xf0 0x20 = [0xf0, 0x10) wraps   -> dropped *)
     x07; x50; x08;            (* start_length 0x50 8                           -> [0x50,0x58) *)
     x00] 0 32
  = Ok [EvItem (33, 37); EvItem (80, 88)].
Proof. vm_compute. reflexivity. Qed.

(* ================================================================== 2. raw iteration
   "Raw iteration exposes every encoded entry unchanged": for every list of well-formed abstract entries,
   in the encoding the unit version selects (pairs up to v4, DW_RLE / DW_LLE from v5, DW_LLE inside .debug_loc
   for a pre-v5 .dwo), placed after any prefix and followed by any bytes, with anything in the other section. *)
Theorem raw_roundtrip_ranges :
  forall dbg c es pre rest other,
    valid_asize (c_asize c) = true -> forallb (wf_rng c) es = true ->
    raw_ranges_all dbg c (if rng_bare c then pre ++ enc_rng_list c es ++ rest else other)
                         (if rng_bare c then other else pre ++ enc_rng_list c es ++ rest)
                         (N.of_nat (length pre))
    = Ok (map EvItem es).
Proof. exact raw_ranges_all_enc. Qed.

Theorem raw_roundtrip_locations :
  forall dbg c dwo xs pre rest other,
    valid_asize (c_asize c) = true -> forallb (wf_loc c dwo) xs = true ->
    raw_locations_all dbg c dwo (if c_version c <=? 4 then pre ++ enc_loc_list c dwo xs ++ rest else other)
                                (if c_version c <=? 4 then other else pre ++ enc_loc_list c dwo xs ++ rest)
                                (N.of_nat (length pre))
    = Ok (map EvItem xs).
Proof. exact raw_locations_all_enc. Qed.

Example raw_roundtrip_example_wf :
  forallb (wf_rng {| c_be := true; c_asize := 4; c_version := 5 |})
    [LBasex 3; LStartxEndx 0 18446744073709551615; LStartxLength 2 18446744073709551615; LOffsetPair 0 4294967296;
     LBase 4294967295; LStartEnd 4294967294 0; LStartLength 1 2] = true
  /\ forallb (wf_loc {| c_be := false; c_asize := 8; c_version := 4 |} true)
    [(LStartxLength 1 4294967295, [x91; x00]); (LDefault, []); (LBase 5, []); (LOffsetPair 1 2, [x50])] = true
  /\ forallb (wf_loc {| c_be := false; c_asize := 2; c_version := 3 |} false)
    [(LPair 65534 1, [x01; x02; x03]); (LBase 0, []); (LPair 0 1, [])] = true.
Proof. vm_compute. auto. Qed.

(* ================================================================== 3. resolution
   For well-formed lists the iterators yield exactly ListSpec.resolve_rng / resolve_loc: running base address
   (DW_*_base_address, base_addressx, pre-v5 selection entries), startx/addrx through the address table at
   addr_base, start_length and offset pairs wrapping at the address size, default_location = [0, 2^64-1),
   empty / reversed / tombstoned entries dropped. Hypothesis `resolve_* = Some rs` says that every address
   index used lies inside .debug_addr (otherwise the iterator reports an error for that entry and goes on;
   covered by the correspondence streams, not by a theorem). *)
Theorem resolve_refines_ranges :
  forall dbg c x es pre rest other base rs,
    valid_asize (c_asize c) = true -> N.of_nat (length (x_addr x)) < two64 ->
    forallb (wf_rng c) es = true ->
    resolve_rng (c_asize c) (addr_table (c_be c) (c_asize c) (x_addr x) (x_addr_base x)) base es = Some rs ->
    ranges_all dbg c x (if rng_bare c then pre ++ enc_rng_list c es ++ rest else other)
                       (if rng_bare c then other else pre ++ enc_rng_list c es ++ rest)
                       (N.of_nat (length pre)) base
    = Ok (map EvItem rs).
Proof. exact ranges_all_enc. Qed.

Theorem resolve_refines_locations :
  forall dbg c dwo x xs pre rest other base rs,
    valid_asize (c_asize c) = true -> N.of_nat (length (x_addr x)) < two64 ->
    forallb (wf_loc c dwo) xs = true ->
    resolve_loc (c_asize c) (addr_table (c_be c) (c_asize c) (x_addr x) (x_addr_base x)) base xs = Some rs ->
    locations_all dbg c dwo x (if c_version c <=? 4 then pre ++ enc_loc_list c dwo xs ++ rest else other)
                              (if c_version c <=? 4 then other else pre ++ enc_loc_list c dwo xs ++ rest)
                              (N.of_nat (length pre)) base
    = Ok (map EvItem rs).
Proof. exact locations_all_enc. Qed.

Example resolve_refines_example :
  let c := {| c_be := false; c_asize := 2; c_version := 5 |} in
  let tbl := addr_table false 2 [xaa; x00; x10; x34; x12] 1 in
  forallb (wf_loc c false)
    [(LOffsetPair 1 5, [x50]); (LBasex 1, []); (LOffsetPair 65535 2, [x51]); (LStartxLength 0 65535, [x52]);
     (LDefault, [x53]); (LBase 65534, []); (LOffsetPair 0 1, [x54])] = true
  /\ resolve_loc 2 tbl 256
    [(LOffsetPair 1 5, [x50]); (LBasex 1, []); (LOffsetPair 65535 2, [x51]); (LStartxLength 0 65535, [x52]);
     (LDefault, [x53]); (LBase 65534, []); (LOffsetPair 0 1, [x54])]
     = Some [((257, 261), [x50]); ((4659, 4662), [x51]); ((0, 18446744073709551615), [x53])].
Proof. vm_compute. auto. Qed.

(* ================================================================== 4. indexed tables
   entry i of the table = the word at base + i * width, computed in unbounded arithmetic; out of the section
   (including every overflow of the index arithmetic) = UnexpectedEof; a sum outside u64 = UnsupportedOffset. *)
Theorem offset_table_get_offset :
  forall be fmt64 sect base index,
    N.of_nat (length sect) < two64 ->
    get_offset be fmt64 sect base index =
    match offset_table be fmt64 sect base index with
    | Some o => if o <? two64 then Ok o else Err EUnsupportedOffset
    | None => Err EUnexpectedEof
    end.
Proof. exact get_offset_spec. Qed.

Theorem offset_table_get_address :
  forall be sect asize base index,
    valid_asize asize = true -> N.of_nat (length sect) < two64 ->
    get_address be sect asize base index =
    match addr_table be asize sect base index with Some v => Ok v | None => Err EUnexpectedEof end.
Proof. exact get_address_spec. Qed.

Theorem offset_table_get_str_offset :
  forall be fmt64 sect base index,
    N.of_nat (length sect) < two64 ->
    get_str_offset be fmt64 sect base index =
    match str_offset_table be fmt64 sect base index with Some o => Ok o | None => Err EUnexpectedEof end.
Proof. exact get_str_offset_spec. Qed.

(* an address size other than 1, 2, 4, 8 never yields an address *)
Theorem get_address_rejects_invalid_size :
  forall be sect asize base index a,
    valid_asize asize = false -> get_address be sect asize base index <> Ok a.
Proof. exact get_address_invalid. Qed.

Example offset_table_example :
  offset_table true false [x00; x00; x00; x00; x00; x00; x10; x00; x00; x00; x20] 3 1 = Some 35
  /\ get_offset true false [x00; x00; x00; x00; x00; x00; x10; x00; x00; x00; x20] 3 1 = Ok 35
  /\ get_offset true false [x00; x00; x00; x00; x00; x00; x10; x00; x00; x00; x20] 3 4611686018427387904 = Err EUnexpectedEof
  /\ get_offset false true [xff; xff; xff; xff; xff; xff; xff; xff] 0 0 = Ok 18446744073709551615
  /\ get_offset false true [x00; xff; xff; xff; xff; xff; xff; xff; xff] 1 0 = Err EUnsupportedOffset.
Proof. vm_compute. auto. Qed.

(* ================================================================== 5. DIE-level helpers
   On entries whose other attributes are irrelevant (`other_attr`): *)
Theorem helpers_low_high_address :
  forall u pre mid post lo hi,
    forallb other_attr pre = true -> forallb other_attr mid = true -> forallb other_attr post = true ->
    die_ranges u (pre ++ (AtLowPc, AvAddr lo) :: mid ++ (AtHighPc, AvAddr hi) :: post)
    = Ok (RiSingle (Some (lowhigh_addr lo hi))).
Proof. exact die_lowhigh_addr. Qed.

(* high_pc of class constant: [low, low + n); since /repo 3fe3498 a sum outside u64 is AddressOverflow
   (before: a panic in checked builds and a wrapped, reversed range otherwise — DESIGN §8 S2) *)
Theorem helpers_low_high_constant :
  forall u pre mid post lo n,
    forallb other_attr pre = true -> forallb other_attr mid = true -> forallb other_attr post = true ->
    die_ranges u (pre ++ (AtLowPc, AvAddr lo) :: mid ++ (AtHighPc, AvUdata n) :: post)
    = if lo + n <? two64 then Ok (RiSingle (Some (lowhigh_const lo n))) else Err EAddressOverflow.
Proof. exact die_lowhigh_const. Qed.

Theorem helpers_high_low_constant :
  forall u pre mid post lo n,
    forallb other_attr pre = true -> forallb other_attr mid = true -> forallb other_attr post = true ->
    die_ranges u (pre ++ (AtHighPc, AvUdata n) :: mid ++ (AtLowPc, AvAddr lo) :: post)
    = if lo + n <? two64 then Ok (RiSingle (Some (lowhigh_const lo n))) else Err EAddressOverflow.
Proof. exact die_highlow_const. Qed.

Theorem helpers_low_addrx_high_constant :
  forall u pre mid post i lo n,
    forallb other_attr pre = true -> forallb other_attr mid = true -> forallb other_attr post = true ->
    valid_asize (c_asize (u_cfg u)) = true -> N.of_nat (length (u_debug_addr u)) < two64 ->
    addr_table (c_be (u_cfg u)) (c_asize (u_cfg u)) (u_debug_addr u) (u_addr_base u) i = Some lo ->
    die_ranges u (pre ++ (AtLowPc, AvAddrx i) :: mid ++ (AtHighPc, AvUdata n) :: post)
    = if lo + n <? two64 then Ok (RiSingle (Some (lowhigh_const lo n))) else Err EAddressOverflow.
Proof. exact die_lowx_high_const. Qed.

(* DW_AT_ranges (sec_offset): the list at that offset — plus rnglists_base, wrapping, in a pre-v5 .dwo
   (DW_AT_GNU_ranges_base) — resolved against the unit's low_pc; it takes precedence over low/high_pc *)
Theorem helpers_ranges_attribute :
  forall dbg u pre post o,
    forallb other_attr pre = true ->
    die_ranges_all dbg u (pre ++ (AtRanges, AvRangesRef o) :: post)
    = ranges_all dbg (u_cfg u) (u_lctx u) (u_debug_ranges u) (u_debug_rnglists u)
                 (if u_dwo u && (c_version (u_cfg u) <? 5) then (o + u_rnglists_base u) mod two64 else o)
                 (u_low_pc u).
Proof. exact die_ranges_list. Qed.

(* DW_AT_ranges (rnglistx): through the offset table at rnglists_base *)
Theorem helpers_ranges_index :
  forall dbg u pre post i off,
    forallb other_attr pre = true -> N.of_nat (length (u_debug_rnglists u)) < two64 ->
    offset_table (c_be (u_cfg u)) (u_fmt64 u) (u_debug_rnglists u) (u_rnglists_base u) i = Some off ->
    off < two64 ->
    die_ranges_all dbg u (pre ++ (AtRanges, AvRnglistx i) :: post)
    = ranges_all dbg (u_cfg u) (u_lctx u) (u_debug_ranges u) (u_debug_rnglists u) off (u_low_pc u).
Proof. exact die_ranges_listx. Qed.

Theorem helpers_locations_index :
  forall u i,
    N.of_nat (length (u_debug_loclists u)) < two64 ->
    attr_locations_offset u (AvLoclistx i) =
    match offset_table (c_be (u_cfg u)) (u_fmt64 u) (u_debug_loclists u) (u_loclists_base u) i with
    | Some o => if o <? two64 then Ok (Some o) else Err EUnsupportedOffset
    | None => Err EUnexpectedEof
    end.
Proof. exact attr_locations_offset_x. Qed.

Example helpers_example :
  let u := {| u_cfg := {| c_be := false; c_asize := 4; c_version := 4 |}; u_fmt64 := false; u_dwo := true;
              u_low_pc := 4096; u_addr_base := 0; u_rnglists_base := 2; u_loclists_base := 0;
              u_debug_addr := []; u_debug_ranges := [xee; xee; x10; x00; x00; x00; x20; x00; x00; x00;
                                                     x00; x00; x00; x00; x00; x00; x00; x00];
              u_debug_rnglists := []; u_debug_loclists := [] |} in
  forallb other_attr [(AtOther, AvOther)] = true
  /\ die_ranges_all true u [(AtOther, AvOther); (AtRanges, AvRangesRef 0); (AtLowPc, AvAddr 7)]
     = Ok [EvItem (4112, 4128)]
  /\ die_ranges u [(AtLowPc, AvAddr 18446744073709551615); (AtHighPc, AvUdata 1)] = Err EAddressOverflow
  /\ die_ranges u [(AtLowPc, AvAddr 18446744073709551614); (AtHighPc, AvUdata 1)]
     = Ok (RiSingle (Some (18446744073709551614, 18446744073709551615))).
Proof. vm_compute. auto. Qed.

(* ================================================================== 6. no panic, termination (feeds C01)
   `good r` := r <> Panic /\ r <> OutOfFuel. *)

(* the raw iterators and die_ranges: every input, every configuration, both build modes *)
Theorem no_panic_raw_ranges :
  forall dbg c debug_ranges debug_rnglists offset, good (raw_ranges_all dbg c debug_ranges debug_rnglists offset).
Proof. exact raw_ranges_all_good. Qed.

Theorem no_panic_raw_locations :
  forall dbg c dwo debug_loc debug_loclists offset, good (raw_locations_all dbg c dwo debug_loc debug_loclists offset).
Proof. exact raw_locations_all_good. Qed.

Theorem no_panic_die_ranges : forall u attrs, good (die_ranges u attrs).
Proof. exact die_ranges_good. Qed.

Theorem no_panic_tables :
  forall be f sect asize base index,
    good (get_address be sect asize base index) /\ good (get_offset be f sect base index) /\
    good (get_str_offset be f sect base index).
Proof. exact c08_no_panic_tables. Qed.

(* the resolving iterators: every input, both build modes, address size one of 1, 2, 4, 8 *)
Theorem no_panic_ranges :
  forall dbg c x debug_ranges debug_rnglists offset base,
    valid_asize (c_asize c) = true -> good (ranges_all dbg c x debug_ranges debug_rnglists offset base).
Proof. exact ranges_all_good. Qed.

Theorem no_panic_locations :
  forall dbg c dwo x debug_loc debug_loclists offset base,
    valid_asize (c_asize c) = true -> good (locations_all dbg c dwo x debug_loc debug_loclists offset base).
Proof. exact locations_all_good. Qed.

Theorem no_panic_die_ranges_all :
  forall dbg u attrs, valid_asize (c_asize (u_cfg u)) = true -> good (die_ranges_all dbg u attrs).
Proof. exact die_ranges_all_good. Qed.

(* full statement `forall c, good (ranges_all dbg c …)` is FALSE for the faithful model: an Encoding built by
   hand with address_size 0 (or 9..255) reaches `u64::ones_sized` = `!0 >> (64 - size * 8)` through
   min_tombstone before any read_address validated the size: a shift/subtract overflow panic in checked
   builds. Unit headers parsed by gimli always carry a validated size, so this needs a caller-made Encoding. *)
Theorem no_panic_ranges_unvalidated_size_refuted :
  exists c x sect, ranges_all true c x [] sect 0 0 = Panic /\ valid_asize (c_asize c) = false.
Proof. exact c08_no_panic_ranges_unvalidated_size_refuted. Qed.

(* fuel: the stated bounds always suffice, for every configuration *)
Theorem fuel_suffices :
  forall dbg c dwo x s1 s2 offset base,
    ranges_all dbg c x s1 s2 offset base <> OutOfFuel /\
    locations_all dbg c dwo x s1 s2 offset base <> OutOfFuel.
Proof. exact c08_fuel_suffices. Qed.

(* termination: at most |section| items and errors before Ok(None) *)
Theorem iter_terminates :
  forall dbg c dwo x s1 s2 offset base,
    (forall l, ranges_all dbg c x s1 s2 offset base = Ok l -> (length l <= Nat.max (length s1) (length s2))%nat) /\
    (forall l, locations_all dbg c dwo x s1 s2 offset base = Ok l -> (length l <= Nat.max (length s1) (length s2))%nat).
Proof. exact c08_iter_terminates. Qed.

(* every call of next() either reports the end, leaving nothing to read, or strictly shrinks the remaining
   input (items, convert errors and parse errors alike); once empty it reports the end forever *)
Theorem iter_progress :
  forall fuel dbg c bare x s r s',
    rng_next fuel dbg c bare x s = (r, s') ->
    (length (s_inp s') <= length (s_inp s))%nat /\
    (r = Ok None -> s_inp s' = []) /\
    ((exists b, r = Ok (Some b)) \/ (exists e, r = Err e) -> (length (s_inp s') < length (s_inp s))%nat).
Proof. exact c08_iter_progress. Qed.

(* the raw iterators stop after an error: `input.empty()` *)
Theorem raw_iter_stops_after_error :
  forall dbg c bare inp e inp',
    (rng_raw_next dbg c bare inp = (Err e, inp') -> inp' = [] /\ rng_raw_next dbg c bare inp' = (Ok None, [])) /\
    (loc_raw_next dbg c bare inp = (Err e, inp') -> inp' = [] /\ loc_raw_next dbg c bare inp' = (Ok None, [])).
Proof. exact c08_raw_iter_stops_after_error. Qed.

Check nonempty_below_tombstone_ranges :
  forall dbg c x debug_ranges debug_rnglists offset base l r,
    ranges_all dbg c x debug_ranges debug_rnglists offset base = Ok l -> In (EvItem r) l ->
    fst r < snd r /\ exists t, min_tombstone_raw dbg (c_asize c) = Ok t /\ fst r < t.
Check nonempty_below_tombstone_locations :
  forall dbg c dwo x debug_loc debug_loclists offset base l r d,
    locations_all dbg c dwo x debug_loc debug_loclists offset base = Ok l -> In (EvItem (r, d)) l ->
    fst r < snd r /\ exists t, min_tombstone_raw dbg (c_asize c) = Ok t /\ fst r < t.
Check resolve_refines_ranges :
  forall dbg c x es pre rest other base rs,
    valid_asize (c_asize c) = true -> N.of_nat (length (x_addr x)) < two64 ->
    forallb (wf_rng c) es = true ->
    resolve_rng (c_asize c) (addr_table (c_be c) (c_asize c) (x_addr x) (x_addr_base x)) base es = Some rs ->
    ranges_all dbg c x (if rng_bare c then pre ++ enc_rng_list c es ++ rest else other)
                       (if rng_bare c then other else pre ++ enc_rng_list c es ++ rest)
                       (N.of_nat (length pre)) base
    = Ok (map EvItem rs).
Check raw_roundtrip_ranges :
  forall dbg c es pre rest other,
    valid_asize (c_asize c) = true -> forallb (wf_rng c) es = true ->
    raw_ranges_all dbg c (if rng_bare c then pre ++ enc_rng_list c es ++ rest else other)
                         (if rng_bare c then other else pre ++ enc_rng_list c es ++ rest)
                         (N.of_nat (length pre))
    = Ok (map EvItem es).
Check offset_table_get_address :
  forall be sect asize base index,
    valid_asize asize = true -> N.of_nat (length sect) < two64 ->
    get_address be sect asize base index =
    match addr_table be asize sect base index with Some v => Ok v | None => Err EUnexpectedEof end.
Check no_panic_ranges :
  forall dbg c x debug_ranges debug_rnglists offset base,
    valid_asize (c_asize c) = true -> good (ranges_all dbg c x debug_ranges debug_rnglists offset base).
