(* placeholder until Proofs/ListsRdProofs.v lands: keeps the pipeline end-to-end *)
From Coq Require Import List NArith.
Require Import GV.Model.ListsRd GV.Spec.ListSpec.
Theorem c08_placeholder : True. Proof. exact I. Qed.
