(* Properties/C01Macro.v — C01 for src/read/macros.rs (model: Model/MacroRd.v, spec: Spec/MacroSpec.v).
   "Untrusted DWARF never panics ... every lazy iterator finishes within a number of steps bounded by the
   input size even when the caller ignores errors, iterators documented as stopping after an error yield
   nothing further" — for DebugMacinfo::get_macinfo, DebugMacro::get_macros (MacroUnitHeader::parse) and
   MacroIter::next, over ALL section bytes, offsets, byte orders, formats, both values of is_macro and both
   build modes.  Each theorem is an `exact` of a lemma of Proofs/MacroRdProofs.v; each is re-exported (and
   audited by ./check C01) from Properties/C01.v. *)
From Coq Require Import List NArith ZArith Bool.
From Coq.Strings Require Import Byte.
Require Import GV.Base.Res GV.Base.Byt GV.Base.Ints GV.Spec.MacroSpec GV.Model.MacroRd GV.Proofs.MacroRdProofs.
Import ListNotations.
Local Open Scope N_scope.

(* (a) Header parsing, every single call of next() from ANY iterator state (any remaining bytes, format,
   is_macro), and the whole "loop until Ok(None), ignoring errors" never Panic; the loop needs no more fuel
   than |section| + 1 calls of next() (macinfo_all / macros_all are defined with exactly that fuel). *)
Theorem macro_no_panic : forall (dbg be : bool) (section : list byte) (offset : N),
  (get_macinfo section offset <> Panic /\ get_macinfo section offset <> OutOfFuel) /\
  (get_macros be section offset <> Panic /\ get_macros be section offset <> OutOfFuel) /\
  (forall it, fst (macro_next dbg be it) <> Panic /\ fst (macro_next dbg be it) <> OutOfFuel) /\
  (macinfo_all dbg be section offset <> Panic /\ macinfo_all dbg be section offset <> OutOfFuel) /\
  (macros_all dbg be section offset <> Panic /\ macros_all dbg be section offset <> OutOfFuel).
Proof. exact macro_no_panic_lemma. Qed.

(* (b) From any iterator state, a caller that ignores errors sees at most |remaining input| entries-or-errors
   (l lists them in order: the j-th call of next() reported the j-th element), and from then on every call
   returns Ok(None).  macro_after j = the state after j calls whatever they returned. *)
Theorem macro_iter_terminates : forall (dbg be : bool) (it : miter),
  exists l : list mev,
    macro_run (S (length (mi_input it))) dbg be it = Ok l /\
    (length l <= length (mi_input it))%nat /\
    (forall j, (j < length l)%nat ->
       ev_of (fst (macro_next dbg be (macro_after j dbg be it))) = nth_error l j) /\
    (forall j, (length l <= j)%nat -> fst (macro_next dbg be (macro_after j dbg be it)) = Ok None).
Proof. exact macro_iter_terminates_lemma. Qed.

(* ... hence from either entry point: after at most |section| calls every call returns Ok(None) *)
Theorem macro_section_terminates : forall (dbg be : bool) (section : list byte) (offset : N) (it : miter),
  get_macinfo section offset = Ok it \/ get_macros be section offset = Ok it ->
  exists k, (k <= length section)%nat /\
    forall j, (k <= j)%nat -> fst (macro_next dbg be (macro_after j dbg be it)) = Ok None.
Proof. exact macro_section_terminates_lemma. Qed.

(* (c) After ANY error the input is empty and every later call returns Ok(None) and changes nothing;
   in a run with errors ignored an error is therefore the last thing reported. *)
Theorem macro_stops_after_error : forall (dbg be : bool) (it it' : miter) (e : error),
  macro_next dbg be it = (Err e, it') ->
  mi_input it' = [] /\
  forall j, macro_next dbg be (macro_after j dbg be it') = (Ok None, it').
Proof. exact macro_stops_after_error_lemma. Qed.

Theorem macro_error_is_last : forall (dbg be : bool) (it : miter) (l : list mev) (j : nat) (e : error),
  macro_run (S (length (mi_input it))) dbg be it = Ok l -> nth_error l j = Some (EvErr e) -> S j = length l.
Proof. exact macro_error_is_last_lemma. Qed.

(* (d) One call: format and is_macro are unchanged; the new input is a SUFFIX of the old one (the iterator
   never leaves its section); an entry or an error consumed at least one byte; an error and Ok(None) leave
   the input empty. *)
Theorem macro_progress : forall (dbg be : bool) (it it' : miter) (r : res (option mentry)),
  macro_next dbg be it = (r, it') ->
  mi_fmt64 it' = mi_fmt64 it /\ mi_is_macro it' = mi_is_macro it /\
  (exists c, mi_input it = c ++ mi_input it' /\
     ((exists e, r = Ok (Some e)) -> (1 <= length c)%nat) /\
     ((exists e, r = Err e) -> (1 <= length c)%nat /\ mi_input it' = []) /\
     (r = Ok None -> mi_input it' = [])).
Proof. exact macro_progress_lemma. Qed.

(* (e) Round trip.  For every well-formed header without an operands table (any version, any other flag
   bits, with or without debug_line_offset, 32/64-bit) and every well-formed entry list (all DW_MACRO kinds;
   all DW_MACINFO kinds incl. vendor_ext for .debug_macinfo), placed at any offset of a section and ended by
   the end of the section or by a zero byte followed by anything: the iterator returns exactly those entries,
   call by call, then Ok(None) for ever.  Both build modes, both byte orders. *)
Theorem macro_roundtrip :
  (forall (dbg be : bool) (h : mheader) (es : list mentry) (pre tail : list byte),
     wf_header h = true -> mh_has_table h = false ->
     forallb (wf_entry true (mh_fmt64 h)) es = true -> ends_list tail ->
     let section := pre ++ enc_header be h ++ enc_entries (mh_fmt64 h) be es ++ tail in
     macros_all dbg be section (N.of_nat (length pre)) = Ok (map EvEntry es) /\
     exists it, get_macros be section (N.of_nat (length pre)) = Ok it /\
       (forall j e, nth_error es j = Some e -> fst (macro_next dbg be (macro_after j dbg be it)) = Ok (Some e)) /\
       (forall j, (length es <= j)%nat -> fst (macro_next dbg be (macro_after j dbg be it)) = Ok None)) /\
  (forall (dbg be : bool) (es : list mentry) (pre tail : list byte),
     forallb (wf_entry false false) es = true -> ends_list tail ->
     let section := pre ++ enc_entries false be es ++ tail in
     macinfo_all dbg be section (N.of_nat (length pre)) = Ok (map EvEntry es) /\
     exists it, get_macinfo section (N.of_nat (length pre)) = Ok it /\
       (forall j e, nth_error es j = Some e -> fst (macro_next dbg be (macro_after j dbg be it)) = Ok (Some e)) /\
       (forall j, (length es <= j)%nat -> fst (macro_next dbg be (macro_after j dbg be it)) = Ok None)).
Proof. exact macro_roundtrip_lemma. Qed.

(* complete units / lists (with their zero terminator) followed by ANY trailing bytes *)
Theorem macro_roundtrip_unit :
  (forall (dbg be : bool) (h : mheader) (es : list mentry) (pre trailing : list byte),
     wf_header h = true -> mh_has_table h = false -> forallb (wf_entry true (mh_fmt64 h)) es = true ->
     macros_all dbg be (pre ++ enc_unit be h es ++ trailing) (N.of_nat (length pre)) = Ok (map EvEntry es)) /\
  (forall (dbg be : bool) (es : list mentry) (pre trailing : list byte),
     forallb (wf_entry false false) es = true ->
     macinfo_all dbg be (pre ++ enc_macinfo be es ++ trailing) (N.of_nat (length pre)) = Ok (map EvEntry es)).
Proof. exact macro_roundtrip_unit_lemma. Qed.

(* (f) The opcode operands table is NOT parsed by gimli (the code wins over the plan): every well-formed
   header announcing one is rejected with UnsupportedOpcodeOperandsTable, and no header that parse_header
   accepts has the flag — so the iterator never runs over a unit with vendor-defined operand forms. *)
Theorem macro_operands_table_unsupported :
  (forall (be : bool) (h : mheader) (pre rest : list byte),
     wf_header h = true -> mh_has_table h = true ->
     get_macros be (pre ++ enc_header be h ++ rest) (N.of_nat (length pre)) = Err EUnsupportedOpcodeOperandsTable) /\
  (forall (be : bool) (bs : list byte) (h : mheader) (r : list byte),
     parse_header be bs = Ok (h, r) -> mh_has_table h = false).
Proof. exact macro_operands_table_unsupported_lemma. Qed.

(* ------------------------------------------------------------------ non-vacuity *)

(* a 64-bit unit with debug_line_offset and unknown flag bits, every DW_MACRO kind, extreme values *)
Definition ex_header : mheader := {| mh_version := 5; mh_flags := 0xfb; mh_line_offset := 18446744073709551615 |}.
Definition ex_entries : list mentry :=
  [ MStartFile 0 1; MDefine 18446744073709551615 (MDirect [x41; xff]); MUndef 128 (MDirect []);
    MDefine 1 (MStrp 18446744073709551615); MUndef 2 (MStrp 0); MImport 4294967296;
    MDefine 3 (MSup 7); MUndef 4 (MSup 8); MImportSup 9;
    MDefine 5 (MStrx 18446744073709551615); MUndef 6 (MStrx 16384); MEndFile ].

Example ex_roundtrip_hyps :
  wf_header ex_header = true /\ mh_has_table ex_header = false /\ mh_fmt64 ex_header = true /\
  forallb (wf_entry true (mh_fmt64 ex_header)) ex_entries = true /\ ends_list [x00; x05; xff].
Proof. repeat split; try (vm_compute; reflexivity). right. eexists. reflexivity. Qed.

Example ex_roundtrip_run :
  macros_all true true ([xee; xee] ++ enc_unit true ex_header ex_entries ++ [x05; xff]) 2 = Ok (map EvEntry ex_entries).
Proof. vm_compute. reflexivity. Qed.

(* 32-bit, little-endian, no debug_line_offset; the list ends with the section *)
Example ex_roundtrip_32 :
  let h := {| mh_version := 5; mh_flags := 0; mh_line_offset := 0 |} in
  wf_header h = true /\
  macros_all false false (enc_header false h ++ enc_entries false false [MImport 4294967295; MEndFile]) 0
  = Ok [EvEntry (MImport 4294967295); EvEntry MEndFile].
Proof. split; vm_compute; reflexivity. Qed.

Definition ex_macinfo : list mentry :=
  [ MDefine 0 (MDirect [x41]); MUndef 18446744073709551615 (MDirect []); MStartFile 3 4; MEndFile;
    MVendorExt 5 [x66; x6f; x6f] ].
Example ex_macinfo_hyps : forallb (wf_entry false false) ex_macinfo = true.
Proof. vm_compute. reflexivity. Qed.
Example ex_macinfo_run :
  macinfo_all true false ([x01] ++ enc_macinfo false ex_macinfo ++ [x07]) 1 = Ok (map EvEntry ex_macinfo).
Proof. vm_compute. reflexivity. Qed.

(* errors do occur, are reported once, and end the iteration: DW_MACRO_define_strp in .debug_macinfo
   (the witness of the repaired defect was `.debug_macinfo = [04]` / an invalid type followed by entries) *)
Example ex_error_then_none :
  macinfo_all true false [x04; x05; x04; x04] 0 = Ok [EvEntry MEndFile; EvErr EInvalidMacinfoType] /\
  macros_all true false [x05; x00; x00; x04; x0d; x04] 0 = Ok [EvEntry MEndFile; EvErr EInvalidMacroType] /\
  macros_all false false [x05; x00; x00; x01; x80] 0 = Ok [EvErr EUnexpectedEof] /\
  macinfo_all true false [x03; xff; xff; xff; xff; xff; xff; xff; xff; xff; x02; x00; x04] 0 = Ok [EvErr EBadUnsignedLeb128].
Proof. repeat split; vm_compute; reflexivity. Qed.

Example ex_stops_after_error_hyp :
  macro_next true false {| mi_input := [x05; x04; x04]; mi_fmt64 := false; mi_is_macro := false |}
  = (Err EInvalidMacinfoType, {| mi_input := []; mi_fmt64 := false; mi_is_macro := false |}).
Proof. vm_compute. reflexivity. Qed.

Example ex_progress_hyp :
  macro_next false true {| mi_input := [x07; x00; x00; x01; x02; x04]; mi_fmt64 := false; mi_is_macro := true |}
  = (Ok (Some (MImport 258)), {| mi_input := [x04]; mi_fmt64 := false; mi_is_macro := true |}).
Proof. vm_compute. reflexivity. Qed.

Example ex_operands_table :
  let h := {| mh_version := 5; mh_flags := 6; mh_line_offset := 16 |} in
  wf_header h = true /\ mh_has_table h = true /\
  get_macros false (enc_header false h ++ [x01; xe0; x01; x0b; x00]) 0 = Err EUnsupportedOpcodeOperandsTable.
Proof. repeat split; vm_compute; reflexivity. Qed.

Example ex_offset_past_end :
  get_macinfo [x04] 2 = Err EUnexpectedEof /\ macinfo_all true false [x04] 1 = Ok [] /\
  get_macros false [x05; x00] 0 = Err EUnexpectedEof.
Proof. repeat split; vm_compute; reflexivity. Qed.
