(* Properties/C03.v — "Every attribute form decodes to its DWARF value; skipping equals reading".
   Model: Model/Attr.v (mirrors src/read/unit.rs parse_attribute / skip_attributes /
   allow_section_offset / Attribute::value and helpers, src/read/abbrev.rs get_attribute_size).
   Specification: Spec/FormSpec.v (form table, layouts, values, encoders).
   Every statement quantifies over ALL byte lists / specifications / encodings and both build modes
   (dbg = overflow checks on). The only side conditions are the ones written in the statements:
     - `N.of_nat (length bs) < two64` in skip_eq_read: a Rust slice never exceeds isize::MAX bytes;
     - `value_in_range v`: the numbers fit the field types of gimli's AttributeValue
       (parsed_values_in_range shows that everything the reader returns satisfies it). *)
From Coq Require Import List NArith ZArith Bool.
From Coq.Strings Require Import Byte.
Require Import GV.Base.Res GV.Base.Byt GV.Base.Ints GV.Model.Leb GV.Model.Prim
               GV.Spec.LebSpec GV.Spec.FormSpec GV.Model.Attr GV.Proofs.AttrProofs GV.Proofs.GenAgree.
Require GV.Gen.FormCodes GV.Gen.FormSize GV.Gen.AllowSecOffset GV.Gen.AttrValueTable.
Import ListNotations.
Local Open Scope N_scope.

(* ------------------------------------------------------------------ *)
(* (1) the advertised fixed size of a form is what reading consumes, and it is the size of the
       form's DWARF layout *)

Theorem fixed_size_is_consumed : forall dbg e spec bs v r n,
  get_attribute_size (at_form spec) e = Some n ->
  parse_attribute dbg e spec bs = Ok (v, r) ->
  N.of_nat (length bs) = N.of_nat (length r) + n.
Proof. exact AttrProofs.fixed_size_is_consumed. Qed.

Example fixed_size_is_consumed_ex :
  let e := mkEnc 2 false 8 true in
  let spec := mkSpec 17 DW_FORM_ref_addr 0 in     (* DWARF 2: ref_addr is address sized *)
  get_attribute_size (at_form spec) e = Some 8 /\
  parse_attribute true e spec [x00;x00;x00;x00;x00;x00;x01;x02;xaa]%byte = Ok (VDebugInfoRef 258, [xaa]%byte).
Proof. split; reflexivity. Qed.

Theorem fixed_size_is_layout : forall c e,
  get_attribute_size c e =
  match form_of_code c with Some f => layout_fixed_size (form_layout f e) | None => None end.
Proof. exact AttrProofs.get_attribute_size_spec. Qed.

(* ------------------------------------------------------------------ *)
(* (2) skipping consumes exactly the bytes that reading consumes — any specification list, so the
       accumulated fixed skip crosses variable forms, indirect forms and the checked addition *)

Theorem skip_eq_read : forall dbg e specs bs vs r,
  N.of_nat (length bs) < two64 ->
  read_attributes dbg e specs bs = Ok (vs, r) ->
  skip_attributes dbg e specs bs = Ok r.
Proof. exact AttrProofs.skip_eq_read. Qed.

Example skip_eq_read_ex :
  let e := mkEnc 4 false 4 false in
  let specs := [mkSpec 3 DW_FORM_data2 0; mkSpec 2 DW_FORM_block1 0; mkSpec 11 DW_FORM_data1 0;
                mkSpec 73 DW_FORM_indirect 0; mkSpec 58 DW_FORM_implicit_const 7; mkSpec 3 DW_FORM_string 0] in
  let bs := [x01;x02; x02;xaa;xbb; x05; x0f;x80;x01; x61;x00; xee]%byte in
  read_attributes true e specs bs =
    Ok ([VData2 513; VBlock [xaa;xbb]%byte; VData1 5; VUdata 128; VSdata 7; VString [x61]%byte], [xee]%byte)
  /\ skip_attributes true e specs bs = Ok [xee]%byte.
Proof. split; reflexivity. Qed.

(* the side condition is the only reason skipping can fail where reading succeeds: reading never
   returns more input than it was given *)
Theorem read_consumes_prefix : forall dbg e spec bs v r,
  parse_attribute dbg e spec bs = Ok (v, r) -> (length r <= length bs)%nat.
Proof. exact AttrProofs.parse_attribute_length. Qed.

(* ------------------------------------------------------------------ *)
(* (3) every form decodes to its DWARF value: parse (encode v) = v, for every form, any depth of
       DW_FORM_indirect, implicit constants from the abbreviation, 3-byte indices, DWARF 2 ref_addr,
       legacy data4/data8 section offsets (all inside form_layout / form_value of the spec) *)

Theorem attr_roundtrip : forall dbg e name implicit depth f d payload v rest,
  f <> F_indirect ->
  addr_size_ok e ->
  (f = F_implicit_const -> depth = O) ->
  raw_fits (form_layout f e) d ->
  enc_layout (form_layout f e) (be e) d = Some payload ->
  form_value e name implicit f d = Some v ->
  parse_attribute dbg e (mkSpec name (spec_form depth f) implicit) (enc_hops depth f ++ payload ++ rest)
  = Ok (v, rest).
Proof. exact AttrProofs.attr_roundtrip. Qed.

Example attr_roundtrip_ex :     (* DW_AT_stmt_list as DW_FORM_data4 in 32-bit DWARF 3, two indirect hops *)
  let e := mkEnc 3 false 4 true in
  F_data4 <> F_indirect /\ addr_size_ok e /\ (F_data4 = F_implicit_const -> 2%nat = O) /\
  raw_fits (form_layout F_data4 e) (RNum 66051) /\
  enc_layout (form_layout F_data4 e) (be e) (RNum 66051) = Some [x00;x01;x02;x03]%byte /\
  form_value e 16 0 F_data4 (RNum 66051) = Some (VSecOffset 66051) /\
  enc_hops 2 F_data4 = [x16;x06]%byte.
Proof. repeat split; try reflexivity; discriminate. Qed.

Example attr_roundtrip_ex_strx3 :
  let e := mkEnc 5 true 8 false in
  enc_layout (form_layout F_strx3 e) (be e) (RNum 197121) = Some [x01;x02;x03]%byte /\
  form_value e 3 0 F_strx3 (RNum 197121) = Some (VDebugStrOffsetsIndex 197121).
Proof. split; reflexivity. Qed.

(* the converse direction: whatever the reader returns for a (non-indirect) form is the spec value
   of the data read according to the spec layout, or the guard error; unknown codes are rejected *)
Theorem parse_is_spec : forall dbg e spec bs,
  at_form spec <> DW_FORM_indirect ->
  parse_attribute dbg e spec bs =
  match form_of_code (at_form spec) with
  | Some f => decode_by_layout dbg e spec f bs
  | None => Err EUnknownForm
  end.
Proof. exact AttrProofs.parse_attribute_direct. Qed.

Example parse_is_spec_ex :    (* a guard error: DW_FORM_addr with an address size the reader refuses *)
  parse_attribute false (mkEnc 4 false 3 false) (mkSpec 17 DW_FORM_addr 0) [x01;x02;x03]%byte
  = Err EUnsupportedAddressSize.
Proof. reflexivity. Qed.

Example parse_indirect_ex :   (* indirect -> indirect -> data1; indirect -> implicit_const is refused *)
  parse_attribute true (mkEnc 4 false 4 false) (mkSpec 3 DW_FORM_indirect 9) [x16;x0b;x2a;xee]%byte
  = Ok (VData1 42, [xee]%byte) /\
  parse_attribute true (mkEnc 5 false 4 false) (mkSpec 3 DW_FORM_indirect 9) [x21;xee]%byte
  = Err EInvalidImplicitConst.
Proof. split; reflexivity. Qed.

Theorem parse_indirect : forall dbg e spec bs,
  at_form spec = DW_FORM_indirect ->
  parse_attribute dbg e spec bs =
  let* (c, r) := read_uleb128_u16 bs in
  if c =? DW_FORM_implicit_const then Err EInvalidImplicitConst
  else parse_attribute dbg e (mkSpec (at_name spec) c (at_implicit spec)) r.
Proof. exact AttrProofs.parse_attribute_indirect. Qed.

Theorem unknown_form_rejected : forall dbg e spec bs,
  form_of_code (at_form spec) = None ->
  parse_attribute dbg e spec bs = Err EUnknownForm /\
  skip_attributes dbg e [spec] bs = Err EUnknownForm.
Proof. exact AttrProofs.unknown_form_rejected. Qed.

Example unknown_form_ex : form_of_code 2 = None /\ form_of_code 45 = None /\ form_of_code 65535 = None.
Proof. repeat split; reflexivity. Qed.

Theorem allow_section_offset_is_legacy_list : forall name ver,
  allow_section_offset name ver = legacy_section_offset name ver.
Proof. exact AttrProofs.allow_section_offset_spec. Qed.

(* ------------------------------------------------------------------ *)
(* (4) normalisation by attribute name never changes the numeric payload / target — every name
       (not only the 65 536 that fit DwAt), every raw value *)

Theorem normalise_payload : forall name v,
  value_in_range v ->
  payload_of (attr_normalise name v) = payload_of v /\ value_in_range (attr_normalise name v).
Proof. exact AttrProofs.normalise_payload. Qed.

Example normalise_payload_ex :
  value_in_range (VData2 300) /\
  attr_normalise 19 (VData2 300) = VLanguage 300 /\       (* DW_AT_language *)
  attr_normalise 62 (VData2 300) = VData2 300 /\          (* DW_AT_encoding: does not fit u8, unchanged *)
  attr_normalise 56 (VSdata (-1)) = VSdata (-1) /\        (* data_member_location: negative, unchanged *)
  attr_normalise 16 (VSecOffset 9) = VDebugLineRef 9.
Proof. repeat split; reflexivity. Qed.

Example parsed_values_in_range_ex :
  let spec := mkSpec 58 DW_FORM_implicit_const (-5) in
  (-9223372036854775808 <= at_implicit spec < 9223372036854775808)%Z /\
  parse_attribute true (mkEnc 5 false 8 false) spec [x01]%byte = Ok (VSdata (-5), [x01]%byte).
Proof. cbn [at_implicit]. split; [split; [discriminate|reflexivity]|reflexivity]. Qed.

Theorem parsed_values_in_range : forall dbg e spec bs v r,
  (-9223372036854775808 <= at_implicit spec < 9223372036854775808)%Z ->
  parse_attribute dbg e spec bs = Ok (v, r) -> value_in_range v.
Proof. exact AttrProofs.parse_attribute_in_range. Qed.

(* ------------------------------------------------------------------ *)
(* (5) sign rules of udata_value / sdata_value: DW_FORM_data<n> zero-extends for the unsigned and
       sign-extends from its own width for the signed reading; sdata -> unsigned only when >= 0;
       udata -> signed only when <= i64::MAX *)

Theorem udata_sdata : forall v,
  value_in_range v ->
  udata_value v = unsigned_reading v /\ sdata_value v = signed_reading v.
Proof. exact AttrProofs.udata_sdata. Qed.

Example udata_sdata_ex :
  sdata_value (VData1 255) = Some (-1)%Z /\ udata_value (VData1 255) = Some 255 /\
  sdata_value (VData2 32768) = Some (-32768)%Z /\ sdata_value (VData4 2147483647) = Some 2147483647%Z /\
  udata_value (VSdata (-1)) = None /\ sdata_value (VUdata 9223372036854775808) = None /\
  sdata_value (VUdata 9223372036854775807) = Some 9223372036854775807%Z.
Proof. repeat split; reflexivity. Qed.

Example udata_sdata_agree_ex :
  value_in_range (VData1 127) /\ udata_value (VData1 127) = Some 127 /\
  sdata_value (VData1 127) = Some 127%Z /\ (0 <= 127)%Z.
Proof. repeat split; try reflexivity; discriminate. Qed.

Theorem udata_sdata_agree : forall v u s,
  value_in_range v -> udata_value v = Some u -> sdata_value v = Some s -> (0 <= s)%Z -> Z.of_N u = s.
Proof. exact AttrProofs.udata_sdata_agree. Qed.

(* ------------------------------------------------------------------ *)
(* no_panic: no input makes reading or skipping panic (both build modes), the model's fuel always
   suffices, and the build mode does not influence any result *)

Theorem no_panic : forall dbg e spec specs bs,
  (parse_attribute dbg e spec bs <> Panic /\ parse_attribute dbg e spec bs <> OutOfFuel) /\
  (read_attributes dbg e specs bs <> Panic /\ read_attributes dbg e specs bs <> OutOfFuel) /\
  (skip_attributes dbg e specs bs <> Panic /\ skip_attributes dbg e specs bs <> OutOfFuel).
Proof. exact AttrProofs.no_panic. Qed.

Theorem build_mode_irrelevant : forall dbg e spec specs bs,
  parse_attribute dbg e spec bs = parse_attribute false e spec bs /\
  skip_attributes dbg e specs bs = skip_attributes false e specs bs.
Proof. exact AttrProofs.build_mode_irrelevant. Qed.

(* ------------------------------------------------------------------ *)
(* the line-table variant (src/read/line.rs parse_attribute): on the forms it shares with the DIE
   reader it returns the same value and the same rest as reading a nameless attribute; data16 is
   handed out as its 16 bytes; every other code is UnknownForm; it cannot panic *)

Theorem line_parse_is_die_parse : forall dbg e f bs, In f line_forms ->
  line_parse_attribute dbg e (form_code f) bs = parse_attribute dbg e (mkSpec 0 (form_code f) 0) bs.
Proof. exact AttrProofs.line_parse_is_die_parse. Qed.

Example line_forms_ex : In F_strx3 line_forms /\ In F_data4 line_forms /\ ~ In F_addr line_forms.
Proof. cbn. intuition discriminate. Qed.

Theorem line_parse_other : forall dbg e c bs, existsb (N.eqb c) line_codes = false ->
  line_parse_attribute dbg e c bs = Err EUnknownForm.
Proof. exact AttrProofs.line_parse_other. Qed.

Example line_parse_other_ex : existsb (N.eqb 1) line_codes = false /\ existsb (N.eqb 22) line_codes = false.
Proof. split; reflexivity. Qed.

Theorem line_parse_no_panic : forall dbg e c bs,
  line_parse_attribute dbg e c bs <> Panic /\ line_parse_attribute dbg e c bs <> OutOfFuel.
Proof. exact AttrProofs.line_parse_res. Qed.

(* ------------------------------------------------------------------ *)
(* translator tie: the tables regenerated from the Rust source text on every run (coq/Gen/*.v,
   translate/tables.py) are the tables of the model the theorems above are about *)

Theorem translator_tie :
  (forall f, FormCodes.rust_form_code f = form_code f) /\
  (forall c e, FormSize.get_attribute_size c e = Attr.get_attribute_size c e) /\
  (forall name ver, AllowSecOffset.allow_section_offset name ver = Attr.allow_section_offset name ver) /\
  (forall name, name < 65536 -> AttrValueTable.name_convs name = Attr.name_convs name).
Proof. exact GenAgree.translator_tie. Qed.

(* statement pins *)
Check fixed_size_is_consumed : forall dbg e spec bs v r n,
  get_attribute_size (at_form spec) e = Some n -> parse_attribute dbg e spec bs = Ok (v, r) ->
  N.of_nat (length bs) = N.of_nat (length r) + n.
Check skip_eq_read : forall dbg e specs bs vs r,
  N.of_nat (length bs) < two64 -> read_attributes dbg e specs bs = Ok (vs, r) ->
  skip_attributes dbg e specs bs = Ok r.
Check normalise_payload : forall name v, value_in_range v ->
  payload_of (attr_normalise name v) = payload_of v /\ value_in_range (attr_normalise name v).
