(* placeholder until Proofs/AttrProofs.v lands *)
Require Import GV.Model.Attr GV.Spec.FormSpec.
Theorem c03_placeholder : True. Proof. exact I. Qed.
