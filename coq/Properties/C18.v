(* Properties/C18.v — placeholder until the proofs land. *)
Require Import GV.Model.Reloc.
