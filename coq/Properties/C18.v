(* Properties/C18.v — Relocation is transparent on both the reading and the writing side.
   Only statements (`exact lemma`), non-vacuity examples and pins live here.

   Models (Model/Reloc.v): a gimli writer is a `list wop` (the Writer-trait calls it makes), interpreted
   on an EndianVec (`run_plain`) and on a RelocateWriter that pushes every Relocation to a Vec
   (`run_reloc`); `apply_relocs env` stores S+A (minus the place for pc-relative eh pointers) in the low
   `size` bytes of every recorded site.  A parser is a `prog` (the Reader-trait calls it makes),
   interpreted on an EndianSlice (`run_plain_rd`) and on RelocateReader<EndianSlice, _> (`run_reloc_rd`,
   which also returns the ghost trace of what was read how); `map_relocator R` is
   object::read::RelocationMap::relocate; `apply_rrels R` is the section with R already applied. *)
From Coq Require Import List NArith ZArith Bool Lia.
From Coq.Strings Require Import Byte.
Require Import GV.Base.Res GV.Base.Byt GV.Base.Ints GV.Model.Prim.
Require Import GV.Spec.FormSpec GV.Model.Attr.
Require Import GV.Model.Reloc GV.Proofs.RelocProofs GV.Model.RelocPar GV.Proofs.RelocParProofs.
Import ListNotations.
Local Open Scope N_scope.

(* ---------------------------------------------------------------- writing side *)

(* (1) For EVERY writer (list of Writer-trait calls), both byte orders, every assignment `env` of final
   addresses to symbols and sections: if the recording writer and the direct writer (symbols and section
   offsets resolved with the same `env`) both accept, then applying the recorded relocations to the
   recorded bytes gives the directly written bytes, and the recorded list is exactly one entry per
   relocatable call — symbolic write_address, EVERY write_offset / write_offset_at (constant or not),
   symbolic write_eh_pointer; nothing for constant addresses, write_udata, write_at — at the position it
   was written, with its size, target and addend.
   Side condition `no_clobber`: no write_at / write_udata_at / write_offset_at lands on a relocation site
   recorded earlier (false without it: see clobber_breaks_transparency). *)
Theorem reloc_write_transparent : forall (be : bool) (env : target -> N) (ws : list wop) b rs bp,
  no_clobber be ws ([], []) = true ->
  run_reloc be ws ([], []) = Ok (b, rs) ->
  run_plain be (map (resolve env) ws) [] = Ok bp ->
  apply_relocs env be rs b = bp /\ rs = spec_relocs be 0 ws.
Proof. exact reloc_write_transparent_lemma. Qed.

(* neither writer panics on well-typed calls (the u64 of a constant eh pointer is < 2^64) *)
Theorem writer_no_panic : forall (be : bool) (env : target -> N) (ws : list wop),
  Forall wop_u64 ws ->
  run_reloc be ws ([], []) <> Panic /\ run_plain be (map (resolve env) ws) [] <> Panic.
Proof. exact writer_no_panic_lemma. Qed.

(* a unit-like script: version, abbrev offset (relocated), address size, a symbolic low_pc, a
   DW_FORM_ref_addr placeholder patched later by write_offset_at, a pc-relative symbolic eh pointer,
   and the initial length patched by write_udata_at *)
Definition ex_env (t : target) : N :=
  match t with TSym s => 4198400 + 256 * s | TSect id => 65536 * id end.
Definition ex_script : list wop :=
  [ WUdata 0 4; WUdata 4 2; WOffset 52 0 4; WUdata 8 1;
    WAddr (ASym 1 16) 8; WUdata 0 4; WBytes [x01; x02];
    WEhPtr (ASym 2 (-8)) 27 8; WOffsetAt 19 300 7 4; WUdataAt 0 25 4 ].
Example ex_script_hyps :
  no_clobber false ex_script ([], []) = true /\
  is_ok (run_reloc false ex_script ([], [])) = true /\
  is_ok (run_plain false (map (resolve ex_env) ex_script) []) = true /\
  (match run_reloc false ex_script ([], []) with Ok (_, rs) => length rs | _ => O end) = 4%nat.
Proof. vm_compute. repeat split; reflexivity. Qed.

Example ex_script_u64 : Forall wop_u64 ex_script.
Proof. repeat constructor. Qed.

(* the side condition is needed: a write_at over a recorded site makes direct and relocated output differ *)
Example clobber_breaks_transparency :
  let ws := [WOffset 7 0 4; WAt 0 [xaa; xbb; xcc; xdd]] in
  no_clobber false ws ([], []) = false /\
  match run_reloc false ws ([], []), run_plain false (map (resolve (fun _ => 0)) ws) [] with
  | Ok (b, rs), Ok bp => apply_relocs (fun _ => 0) false rs b <> bp
  | _, _ => False
  end.
Proof. vm_compute. split; [reflexivity|discriminate]. Qed.

(* ---------------------------------------------------------------- reading side *)

(* (2) One relocatable read (read_address, read_sized_offset or read_offset) at window [o, o+l) of the
   section: if the read is acceptable for R (`trace_ok`: it avoids every site of R, or sits exactly on a
   site of its own width whose relocated value fits the field), then through RelocateReader it yields
   what the same plain method yields on the pre-applied section — value, new position and remaining
   length; errors are equal too. *)
Theorem prim_reloc : forall (be dbg : bool) (R : list rrel) (bs : list byte) (base : N) (o l : nat) (w : N) f,
  sites_disjointb R = true -> reloc_method be w f -> (o + l <= length bs)%nat ->
  let x := mkRrd (mkRd base bs) (mkRd (base + N.of_nat o) (slice bs o l)) in
  let P := apply_rrels be R bs in
  let t := rr_rel dbg w f (fun pos v => Ok (relocate R pos v)) x in
  trace_ok R (fst t) ->
  out_reloc (snd t) = out_plain (mkRd base P) (rd_lift f (mkRd (base + N.of_nat o) (slice P o l))).
Proof. exact prim_reloc_lemma. Qed.

(* explicit form: R has (pos, w, addend) and the bytes have v at pos: both readings return
   v (+) addend := wrapping v + addend for an implicit addend, addend itself for an explicit one *)
Theorem prim_reloc_value : forall (be dbg : bool) (R : list rrel) (bs : list byte) (base : N) (r : rrel) (l : nat) f,
  sites_disjointb R = true -> (forall r', In r' R -> 1 <= rr_w r') -> In r R ->
  reloc_method be (rr_w r) f ->
  (rr_w r = 1 \/ rr_w r = 2 \/ rr_w r = 4 \/ rr_w r = 8) ->
  let o := N.to_nat (rr_pos r) in
  let k := N.to_nat (rr_w r) in
  (k <= l)%nat -> (o + l <= length bs)%nat ->
  let v := dec_un be (slice bs o k) in
  rrel_value r v < 2 ^ (8 * rr_w r) ->
  let x := mkRrd (mkRd base bs) (mkRd (base + rr_pos r) (slice bs o l)) in
  let P := apply_rrels be R bs in
  snd (rr_rel dbg (rr_w r) f (fun pos v => Ok (relocate R pos v)) x) =
    Ok (rrel_value r v, mkRrd (mkRd base bs) (mkRd (base + rr_pos r + rr_w r) (slice bs (o + k) (l - k)))) /\
  rd_lift f (mkRd (base + rr_pos r) (slice P o l)) =
    Ok (rrel_value r v, mkRd (base + rr_pos r + rr_w r) (slice P (o + k) (l - k))).
Proof. exact prim_reloc_value_lemma. Qed.

(* (3) EVERY parser written against the reader monad (plain reads of any width, LEB128s, skip, len,
   split into sub-readers, and the three relocatable methods), every byte string, every set R of
   relocations with pairwise disjoint sites: if the run through RelocateReader is acceptable for R
   (plain reads avoid the sites of R; relocatable reads avoid them or hit one exactly, value fitting),
   then it returns exactly what the plain run on the pre-applied section returns: same value or same
   error, same final position and remaining length.  A parser that reads a relocated field with a plain
   method fails the side condition — and then the two runs really differ (plain_read_of_site_differs). *)
Theorem parser_reloc : forall (A : Type) (be dbg : bool) (R : list rrel) (p : prog A) (bs : list byte) (base : N),
  sites_disjointb R = true ->
  trace_ok R (fst (run_reloc_rd be dbg (map_relocator R) p (rrd_new (mkRd base bs)))) ->
  out_reloc (snd (run_reloc_rd be dbg (map_relocator R) p (rrd_new (mkRd base bs)))) =
  out_plain (mkRd base (apply_rrels be R bs))
            (run_plain_rd be dbg p (mkRd base (apply_rrels be R bs))).
Proof. exact parser_reloc_lemma. Qed.

(* the side condition is decidable: the streams evaluate this boolean on every case *)
Theorem trace_okb_sound : forall R t, trace_okb R t = true -> trace_ok R t.
Proof. exact trace_okb_ok. Qed.

(* instances: the mirror of parse_unit_header (src/read/unit.rs) and of the .debug_ranges/.debug_loc
   raw pair iteration (RawRange::parse + RawRngListIter::next, src/read/rnglists.rs) *)
Theorem parser_reloc_unit_header : forall (be dbg types : bool) (R : list rrel) (bs : list byte) (base : N),
  sites_disjointb R = true ->
  trace_okb R (fst (run_reloc_rd be dbg (map_relocator R) (p_unit_header types) (rrd_new (mkRd base bs)))) = true ->
  out_reloc (snd (run_reloc_rd be dbg (map_relocator R) (p_unit_header types) (rrd_new (mkRd base bs)))) =
  out_plain (mkRd base (apply_rrels be R bs))
            (run_plain_rd be dbg (p_unit_header types) (mkRd base (apply_rrels be R bs))).
Proof. exact parser_reloc_unit_header_lemma. Qed.

Theorem parser_reloc_raw_ranges : forall (be dbg : bool) (fuel : nat) (asz : N) (R : list rrel) (bs : list byte) (base : N),
  sites_disjointb R = true ->
  trace_okb R (fst (run_reloc_rd be dbg (map_relocator R) (p_raw_ranges fuel asz []) (rrd_new (mkRd base bs)))) = true ->
  out_reloc (snd (run_reloc_rd be dbg (map_relocator R) (p_raw_ranges fuel asz []) (rrd_new (mkRd base bs)))) =
  out_plain (mkRd base (apply_rrels be R bs))
            (run_plain_rd be dbg (p_raw_ranges fuel asz []) (mkRd base (apply_rrels be R bs))).
Proof. exact parser_reloc_raw_ranges_lemma. Qed.

(* the same with a STATIC side condition, as the design states it ("relocs within the relocatable
   fields"): in a .debug_ranges/.debug_loc pair list every field is a relocatable address field, so ANY
   set of explicit-addend (RELA) relocations of the address width at multiples of it, with addends that
   fit, is transparent — for every byte string, whatever it parses to *)
Theorem parser_reloc_raw_ranges_static :
  forall (be dbg : bool) (fuel : nat) (asz : N) (R : list rrel) (bs : list byte) (base : N),
  valid_asz asz -> sites_disjointb R = true ->
  (forall r, In r R -> rr_w r = asz /\ rr_pos r mod asz = 0 /\ rr_impl r = false /\ rr_add r < 2 ^ (8 * asz)) ->
  out_reloc (snd (run_reloc_rd be dbg (map_relocator R) (p_raw_ranges fuel asz []) (rrd_new (mkRd base bs)))) =
  out_plain (mkRd base (apply_rrels be R bs))
            (run_plain_rd be dbg (p_raw_ranges fuel asz []) (mkRd base (apply_rrels be R bs))).
Proof. exact parser_reloc_raw_ranges_static_lemma. Qed.

Example ex_static_hyps :
  let R := [mkRrel 0 4 false 4112; mkRrel 4 4 false 4128; mkRrel 12 4 false 8192] in
  valid_asz 4 /\ sites_disjointb R = true /\
  forallb (fun r => (rr_w r =? 4) && (rr_pos r mod 4 =? 0) && negb (rr_impl r) && (rr_add r <? 2 ^ 32)) R = true.
Proof. vm_compute. repeat split; auto. Qed.

(* a DWARF 4 unit header whose debug_abbrev_offset (offset 6, 4 bytes) carries an implicit-addend
   relocation: the hypotheses hold and both runs see abbrev offset 0x1000 + 0x34 *)
Definition ex_hdr : list byte :=
  [x0b; x00; x00; x00; x04; x00; x34; x00; x00; x00; x08; x11; x01; x00; x00].
Definition ex_R : list rrel := [mkRrel 6 4 true 4096].
Example ex_hdr_hyps :
  sites_disjointb ex_R = true /\
  trace_okb ex_R (fst (run_reloc_rd false true (map_relocator ex_R) (p_unit_header false) (rrd_new (mkRd 0 ex_hdr)))) = true /\
  out_reloc (snd (run_reloc_rd false true (map_relocator ex_R) (p_unit_header false) (rrd_new (mkRd 0 ex_hdr)))) =
    Ok ([4; 4; 8; 1; 4148; 0; 0; 11; 4], 15, 0).
Proof. vm_compute. repeat split; reflexivity. Qed.

(* the same header and relocation as an instance of prim_reloc / prim_reloc_value: read_offset(Dwarf32) at
   offset 6 with 9 bytes left returns 0x34 + 0x1000 on both sides *)
Example ex_prim_hyps :
  let r := mkRrel 6 4 true 4096 in
  sites_disjointb ex_R = true /\ (forall r', In r' ex_R -> 1 <= rr_w r') /\ In r ex_R /\
  reloc_method false (rr_w r) (read_word false false) /\
  (N.to_nat (rr_w r) <= 9)%nat /\ (N.to_nat (rr_pos r) + 9 <= length ex_hdr)%nat /\
  rrel_value r (dec_un false (slice ex_hdr 6 4)) = 4148 /\
  trace_okb ex_R (fst (rr_rel true 4 (read_word false false) (fun pos v => Ok (relocate ex_R pos v))
                         (mkRrd (mkRd 0 ex_hdr) (mkRd 6 (slice ex_hdr 6 9))))) = true.
Proof.
  cbv zeta. split; [reflexivity|]. split.
  { intros r' [<-|[]]. vm_compute. discriminate. }
  split; [now left|]. split.
  { right. right. exists false. split; reflexivity. }
  split; [vm_compute; lia|]. split; [vm_compute; lia|].
  split; reflexivity.
Qed.

(* two address pairs, a base-address selector and the terminator, every address relocated *)
Definition ex_ranges : list byte :=
  [x10; x00; x00; x00; x20; x00; x00; x00;  xff; xff; xff; xff; x00; x00; x00; x00;
   x00; x00; x00; x00; x00; x00; x00; x00].
Definition ex_R2 : list rrel := [mkRrel 0 4 true 4096; mkRrel 4 4 true 4096; mkRrel 12 4 false 8192].
Example ex_ranges_hyps :
  sites_disjointb ex_R2 = true /\
  trace_okb ex_R2 (fst (run_reloc_rd false true (map_relocator ex_R2) (p_raw_ranges 10 4 []) (rrd_new (mkRd 0 ex_ranges)))) = true /\
  out_reloc (snd (run_reloc_rd false true (map_relocator ex_R2) (p_raw_ranges 10 4 []) (rrd_new (mkRd 0 ex_ranges)))) =
    Ok ([2; 4112; 4128; 1; 8192], 24, 0).
Proof. vm_compute. repeat split; reflexivity. Qed.

(* the last sentence of the property: a field that carries a relocation but is read with a plain
   primitive (read_word instead of read_offset) is NOT transparent *)
Example plain_read_of_site_differs :
  let p := PSkip 6 (PWord false (fun v => PRet v)) in
  trace_okb ex_R (fst (run_reloc_rd false true (map_relocator ex_R) p (rrd_new (mkRd 0 ex_hdr)))) = false /\
  out_reloc (snd (run_reloc_rd false true (map_relocator ex_R) p (rrd_new (mkRd 0 ex_hdr)))) = Ok (52, 10, 5) /\
  out_plain (mkRd 0 (apply_rrels false ex_R ex_hdr))
            (run_plain_rd false true p (mkRd 0 (apply_rrels false ex_R ex_hdr))) = Ok (4148, 10, 5).
Proof. vm_compute. repeat split; reflexivity. Qed.

(* the legacy DWARF 2/3 rule of parse_attribute (src/read/unit.rs allow_section_offset): every attribute
   whose classes include a section-offset class — DW_AT_data_member_location in version 3 included — is read
   with the RELOCATABLE method when given as DW_FORM_data4 / DW_FORM_data8 of the unit's format, and
   DW_FORM_sec_offset always is; so by parser_reloc a relocation on that field is transparent.
   (`p_attr_word` is tied to gimli over the whole name x version x format x form grid by stream c18.secoff.) *)
Theorem attr_legacy_secoff_relocatable : forall (name ver : N),
  In name dwarf3_secoff_names -> ver = 2 \/ ver = 3 ->
  p_attr_word false ver name 6 = POffset false (fun v => PRet [1; v]) /\
  p_attr_word true ver name 7 = POffset true (fun v => PRet [1; v]).
Proof. exact attr_legacy_secoff_relocatable_lemma. Qed.

Theorem attr_sec_offset_relocatable : forall (fmt64 : bool) (name ver : N),
  p_attr_word fmt64 ver name 23 = POffset fmt64 (fun v => PRet [1; v]).
Proof. exact attr_sec_offset_relocatable_lemma. Qed.

Theorem parser_reloc_attr_word :
  forall (be dbg fmt64 : bool) (ver name form field : N) (R : list rrel) (bs : list byte) (base : N),
  let p := PSkip field (p_attr_word fmt64 ver name form) in
  sites_disjointb R = true ->
  trace_okb R (fst (run_reloc_rd be dbg (map_relocator R) p (rrd_new (mkRd base bs)))) = true ->
  out_reloc (snd (run_reloc_rd be dbg (map_relocator R) p (rrd_new (mkRd base bs)))) =
  out_plain (mkRd base (apply_rrels be R bs))
            (run_plain_rd be dbg p (mkRd base (apply_rrels be R bs))).
Proof. exact parser_reloc_attr_word_lemma. Qed.

(* DWARF 3, 32-bit: DW_AT_data_member_location (0x38) as DW_FORM_data4 at offset 12 with a relocation *)
Example ex_attr_word_hyps :
  let bs := [x0c; x00; x00; x00; x03; x00; x00; x00; x00; x00; x08; x01; x10; x00; x00; x00] in
  let R := [mkRrel 12 4 true 8192] in
  let p := PSkip 12 (p_attr_word false 3 56 6) in
  In 56 dwarf3_secoff_names /\ sites_disjointb R = true /\
  trace_okb R (fst (run_reloc_rd false true (map_relocator R) p (rrd_new (mkRd 0 bs)))) = true /\
  out_reloc (snd (run_reloc_rd false true (map_relocator R) p (rrd_new (mkRd 0 bs)))) = Ok ([1; 8208], 16, 0).
Proof. vm_compute. repeat split; auto 20. Qed.

(* (4) RelocateReader with the identity Relocate behaves as the inner reader for every parser *)
Theorem identity_reloc : forall (A : Type) (be dbg : bool) (p : prog A) (bs : list byte) (base : N),
  out_reloc (snd (run_reloc_rd be dbg id_relocator p (rrd_new (mkRd base bs)))) =
  out_plain (mkRd base bs) (run_plain_rd be dbg p (mkRd base bs)).
Proof. exact identity_reloc_lemma. Qed.

(* RelocateReader never panics (in particular the debug assertions and the pointer subtraction of
   EndianSlice::offset_from are unreachable), whatever the parser, bytes and Relocate implementation,
   as long as the Relocate callbacks themselves do not panic; both build modes *)
Theorem reader_no_panic : forall (A : Type) (be dbg : bool) (rl : relocator) (p : prog A) (bs : list byte) (base : N),
  (forall pos v, rl_addr rl pos v <> Panic) -> (forall pos v, rl_off rl pos v <> Panic) ->
  snd (run_reloc_rd be dbg rl p (rrd_new (mkRd base bs))) <> Panic.
Proof. exact reloc_rd_no_panic_lemma. Qed.

Example ex_map_relocator_total : forall R pos v,
  rl_addr (map_relocator R) pos v <> Panic /\ rl_off (map_relocator R) pos v <> Panic.
Proof. intros. split; discriminate. Qed.

(* ---------------------------------------------------------------- both sides composed *)

(* What a recording writer produced, read back through RelocateReader with the recorded relocations
   (explicit addends, as in ELF RELA), is what a plain reader sees in the directly written section. *)
Theorem write_read_transparent :
  forall (A : Type) (be dbg : bool) (env : target -> N) (ws : list wop) b rs bp (p : prog A) (base : N),
  no_clobber be ws ([], []) = true ->
  run_reloc be ws ([], []) = Ok (b, rs) ->
  run_plain be (map (resolve env) ws) [] = Ok bp ->
  let R := map (rrel_of env) rs in
  sites_disjointb R = true ->
  trace_ok R (fst (run_reloc_rd be dbg (map_relocator R) p (rrd_new (mkRd base b)))) ->
  out_reloc (snd (run_reloc_rd be dbg (map_relocator R) p (rrd_new (mkRd base b)))) =
  out_plain (mkRd base bp) (run_plain_rd be dbg p (mkRd base bp)).
Proof. exact write_read_transparent_lemma. Qed.

(* the unit-like script above, read back by a parser that uses the relocatable methods for the three
   relocated fields it visits *)
Definition ex_reader : prog (list N) :=
  PU 4 (fun len => PU 2 (fun ver => POffset false (fun abbrev => PU 1 (fun asz =>
  PAddr 8 (fun low_pc => PSized 4 (fun r => PRet [len; ver; abbrev; asz; low_pc; r])))))).
Example ex_write_read_hyps :
  match run_reloc false ex_script ([], []) with
  | Ok (b, rs) =>
      let R := map (rrel_of ex_env) rs in
      sites_disjointb R = true /\
      trace_okb R (fst (run_reloc_rd false true (map_relocator R) ex_reader (rrd_new (mkRd 0 b)))) = true /\
      out_reloc (snd (run_reloc_rd false true (map_relocator R) ex_reader (rrd_new (mkRd 0 b)))) =
        Ok ([25; 4; 52; 8; 4198672; 459052], 23, 6)
  | _ => False
  end.
Proof. vm_compute. repeat split; reflexivity. Qed.

Check reloc_write_transparent : forall (be : bool) (env : target -> N) (ws : list wop) b rs bp,
  no_clobber be ws ([], []) = true -> run_reloc be ws ([], []) = Ok (b, rs) ->
  run_plain be (map (resolve env) ws) [] = Ok bp ->
  apply_relocs env be rs b = bp /\ rs = spec_relocs be 0 ws.
Check parser_reloc : forall (A : Type) (be dbg : bool) (R : list rrel) (p : prog A) (bs : list byte) (base : N),
  sites_disjointb R = true ->
  trace_ok R (fst (run_reloc_rd be dbg (map_relocator R) p (rrd_new (mkRd base bs)))) ->
  out_reloc (snd (run_reloc_rd be dbg (map_relocator R) p (rrd_new (mkRd base bs)))) =
  out_plain (mkRd base (apply_rrels be R bs)) (run_plain_rd be dbg p (mkRd base (apply_rrels be R bs))).
Check identity_reloc : forall (A : Type) (be dbg : bool) (p : prog A) (bs : list byte) (base : N),
  out_reloc (snd (run_reloc_rd be dbg id_relocator p (rrd_new (mkRd base bs)))) =
  out_plain (mkRd base bs) (run_plain_rd be dbg p (mkRd base bs)).

(* ================================================================ the real parsers (extension c18par) *)
(* Model/RelocPar.v writes the gimli parsers in the reader monad, field by field in the order of the Rust, each
   field with the Reader method the Rust uses; stream c18.parsers runs every one of them against gimli through
   RelocateReader (values, errors and the (offset, value) pairs handed to Relocate), debug and release.

   (5) STATIC form of (3), for EVERY parser of the monad.  `field_trace p P` is the field map of parser p on the
   section P as a plain reader sees it AFTER relocation: every span read, tagged plain or relocatable(width) —
   `run_plain_tr` is the plain interpreter with that trace and nothing else (run_plain_tr_is_plain).  If
     * the sites of R are pairwise disjoint,
     * every relocated value fits its field (`fitsb`: explicit addend, or raw field value + implicit addend),
     * R respects the field map (`shape_okb`: no site touches a plainly read span; a site touching a relocatable
       field is exactly that field: same position, same width),
   then reading the raw section through RelocateReader = reading the applied section plainly.  No run of the
   relocating reader appears in the hypotheses. *)
Theorem parser_reloc_static :
  forall (A : Type) (be dbg : bool) (R : list rrel) (p : prog A) (bs : list byte) (base : N),
  sites_disjointb R = true -> fitsb be R bs = true ->
  forallb (shape_okb R) (field_trace be dbg base p (apply_rrels be R bs)) = true ->
  out_reloc (snd (run_reloc_rd be dbg (map_relocator R) p (rrd_new (mkRd base bs)))) =
  out_plain (mkRd base (apply_rrels be R bs))
            (run_plain_rd be dbg p (mkRd base (apply_rrels be R bs))).
Proof. exact parser_reloc_static_lemma. Qed.

(* the static condition implies the dynamic one of parser_reloc (the streams evaluate both on every case) *)
Theorem static_implies_trace_ok :
  forall (A : Type) (be dbg : bool) (R : list rrel) (p : prog A) (bs : list byte) (base : N),
  static_okb be dbg base R p bs = true ->
  trace_ok R (fst (run_reloc_rd be dbg (map_relocator R) p (rrd_new (mkRd base bs)))).
Proof. exact static_okb_sound. Qed.

Theorem run_plain_tr_is_plain : forall (A : Type) (be dbg : bool) (base : N) (p : prog A) (r : rd),
  snd (run_plain_tr be dbg base p r) = run_plain_rd be dbg p r.
Proof. intros. apply run_plain_tr_snd. Qed.

(* ---- instances: one per gimli parser; the hypothesis is the decidable static condition ---- *)

(* src/read/line.rs: LineProgramHeader::parse (DWARF 2..5; unit_length and header_length are read_length — plain;
   version 5 directory/file entries through the line variant of parse_attribute: DW_FORM_line_strp / strp /
   strp_sup / GNU_strp_alt / sec_offset are read_offset, data*/udata/block/string plain) followed by every
   LineInstruction::parse of the program (DW_LNE_set_address operand = read_address; every other operand plain) *)
Theorem parser_reloc_line : forall (be dbg : bool) (fuel : nat) (asz0 : N) (R : list rrel) (bs : list byte) (base : N),
  let p := p_line fuel asz0 in
  static_okb be dbg base R p bs = true ->
  out_reloc (snd (run_reloc_rd be dbg (map_relocator R) p (rrd_new (mkRd base bs)))) =
  out_plain (mkRd base (apply_rrels be R bs))
            (run_plain_rd be dbg p (mkRd base (apply_rrels be R bs))).
Proof. intros. now apply parser_reloc_static_b_lemma. Qed.

(* src/read/unit.rs parse_attribute over the whole form table (DW_FORM_indirect included), at offset `field` *)
Theorem parser_reloc_attr : forall (be dbg : bool) (fuel : nat) (e : enc) (spec : aspec) (field : N) (R : list rrel) (bs : list byte) (base : N),
  let p := PSkip field (p_attr fuel e spec) in
  static_okb be dbg base R p bs = true ->
  out_reloc (snd (run_reloc_rd be dbg (map_relocator R) p (rrd_new (mkRd base bs)))) =
  out_plain (mkRd base (apply_rrels be R bs))
            (run_plain_rd be dbg p (mkRd base (apply_rrels be R bs))).
Proof. intros. now apply parser_reloc_static_b_lemma. Qed.

(* src/read/rnglists.rs: .debug_rnglists entries (RawRngListEntry::parse, Rle) iterated by RawRngListIter *)
Theorem parser_reloc_rnglist : forall (be dbg : bool) (fuel : nat) (asz : N) (R : list rrel) (bs : list byte) (base : N),
  let p := p_rnglist fuel asz [] in
  static_okb be dbg base R p bs = true ->
  out_reloc (snd (run_reloc_rd be dbg (map_relocator R) p (rrd_new (mkRd base bs)))) =
  out_plain (mkRd base (apply_rrels be R bs))
            (run_plain_rd be dbg p (mkRd base (apply_rrels be R bs))).
Proof. intros. now apply parser_reloc_static_b_lemma. Qed.

(* src/read/loclists.rs: .debug_loclists / GNU .debug_loc.dwo entries (Lle) and legacy .debug_loc (Bare) *)
Theorem parser_reloc_loclist : forall (be dbg : bool) (fuel : nat) (ver asz : N) (R : list rrel) (bs : list byte) (base : N),
  let p := p_loclist fuel ver asz [] in
  static_okb be dbg base R p bs = true ->
  out_reloc (snd (run_reloc_rd be dbg (map_relocator R) p (rrd_new (mkRd base bs)))) =
  out_plain (mkRd base (apply_rrels be R bs))
            (run_plain_rd be dbg p (mkRd base (apply_rrels be R bs))).
Proof. intros. now apply parser_reloc_static_b_lemma. Qed.

Theorem parser_reloc_loc_bare : forall (be dbg : bool) (fuel : nat) (asz : N) (R : list rrel) (bs : list byte) (base : N),
  let p := p_loc_bare fuel asz [] in
  static_okb be dbg base R p bs = true ->
  out_reloc (snd (run_reloc_rd be dbg (map_relocator R) p (rrd_new (mkRd base bs)))) =
  out_plain (mkRd base (apply_rrels be R bs))
            (run_plain_rd be dbg p (mkRd base (apply_rrels be R bs))).
Proof. intros. now apply parser_reloc_static_b_lemma. Qed.

(* src/read/aranges.rs: ArangeHeader::parse (debug_info_offset = read_offset) + tuples (read_address) *)
Theorem parser_reloc_aranges : forall (be dbg : bool) (fuel : nat) (R : list rrel) (bs : list byte) (base : N),
  let p := p_aranges fuel in
  static_okb be dbg base R p bs = true ->
  out_reloc (snd (run_reloc_rd be dbg (map_relocator R) p (rrd_new (mkRd base bs)))) =
  out_plain (mkRd base (apply_rrels be R bs))
            (run_plain_rd be dbg p (mkRd base (apply_rrels be R bs))).
Proof. intros. now apply parser_reloc_static_b_lemma. Qed.

(* src/read/lookup.rs: .debug_pubnames/.debug_pubtypes sets (unit_offset and DIE offsets = read_offset;
   unit_length = read_length, plain) *)
Theorem parser_reloc_pubnames : forall (be dbg : bool) (fuel sfuel : nat) (R : list rrel) (bs : list byte) (base : N),
  let p := p_pubnames fuel sfuel [] in
  static_okb be dbg base R p bs = true ->
  out_reloc (snd (run_reloc_rd be dbg (map_relocator R) p (rrd_new (mkRd base bs)))) =
  out_plain (mkRd base (apply_rrels be R bs))
            (run_plain_rd be dbg p (mkRd base (apply_rrels be R bs))).
Proof. intros. now apply parser_reloc_static_b_lemma. Qed.

(* ---- which primitive: the content of the attribute instance, stated on the form table ---- *)

Theorem attr_offset_forms : forall (A : Type) (k : list N -> prog A) (fuel : nat) (e : enc) (spec : aspec) (form : N),
  In form [DW_FORM_strp; DW_FORM_sec_offset; DW_FORM_strp_sup; DW_FORM_line_strp; DW_FORM_GNU_ref_alt; DW_FORM_GNU_strp_alt] ->
  exists tag, p_attr_direct k fuel e spec form = POffset (fmt64 e) (fun v => k [tag; v]).
Proof. exact attr_offset_forms_lemma. Qed.

Theorem attr_addr_form : forall (A : Type) (k : list N -> prog A) (fuel : nat) (e : enc) (spec : aspec),
  p_attr_direct k fuel e spec DW_FORM_addr = PAddr (address_size e) (fun v => k [T_Addr; v]).
Proof. exact attr_addr_form_lemma. Qed.

Theorem attr_ref_addr_form : forall (A : Type) (k : list N -> prog A) (fuel : nat) (e : enc) (spec : aspec),
  p_attr_direct k fuel e spec DW_FORM_ref_addr =
  if version e =? 2 then PSized (address_size e) (fun v => k [T_DebugInfoRef; v])
  else POffset (fmt64 e) (fun v => k [T_DebugInfoRef; v]).
Proof. exact attr_ref_addr_form_lemma. Qed.

Theorem attr_plain_forms : forall (A : Type) (k : list N -> prog A) (fuel : nat) (e : enc) (spec : aspec) (form : N),
  In form [DW_FORM_data1; DW_FORM_data2; DW_FORM_data16; DW_FORM_ref1; DW_FORM_ref2; DW_FORM_ref4; DW_FORM_ref8;
           DW_FORM_ref_sig8; DW_FORM_ref_sup4; DW_FORM_ref_sup8; DW_FORM_strx1; DW_FORM_strx2; DW_FORM_strx3;
           DW_FORM_strx4; DW_FORM_addrx1; DW_FORM_addrx2; DW_FORM_addrx3; DW_FORM_addrx4] ->
  exists n tag, p_attr_direct k fuel e spec form = PU n (fun v => k [tag; v]).
Proof. exact attr_plain_forms_lemma. Qed.

Theorem attr_leb_forms : forall (A : Type) (k : list N -> prog A) (fuel : nat) (e : enc) (spec : aspec) (form : N),
  In form [DW_FORM_udata; DW_FORM_ref_udata; DW_FORM_strx; DW_FORM_addrx; DW_FORM_loclistx; DW_FORM_rnglistx;
           DW_FORM_GNU_str_index; DW_FORM_GNU_addr_index] ->
  exists tag, p_attr_direct k fuel e spec form = PUleb (fun v => k [tag; v]).
Proof. exact attr_leb_forms_lemma. Qed.

Theorem line_attr_offset_forms : forall (A : Type) (sfuel : nat) (fmt md5 : bool) (k : list N -> prog A) (form : N),
  In form [DW_FORM_strp; DW_FORM_sec_offset; DW_FORM_strp_sup; DW_FORM_line_strp; DW_FORM_GNU_strp_alt] ->
  exists tag, p_line_attr sfuel fmt md5 form k = POffset fmt (fun v => k [tag; v]).
Proof. exact line_attr_offset_forms_lemma. Qed.

(* ---- non-vacuity and the NEGATIVE half: a relocation on a plainly read field is not transparent ---- *)

(* observation of one case: (static condition, relocating run, plain run on applied bytes, relocatable fields) *)
Definition both_runs {A} (R : list rrel) (p : prog A) (bs : list byte) :=
  (static_okb false true 0 R p bs,
   out_reloc (snd (run_reloc_rd false true (map_relocator R) p (rrd_new (mkRd 0 bs)))),
   out_plain (mkRd 0 (apply_rrels false R bs)) (run_plain_rd false true p (mkRd 0 (apply_rrels false R bs))),
   field_sites (field_trace false true 0 p (apply_rrels false R bs))).

(* a DWARF 4 line program: one file, DW_LNE_set_address 0x10, a special opcode, end_sequence *)
Definition ex_line_bytes : list byte := [x2e; x00; x00; x00; x04; x00; x19; x00; x00; x00; x01; x01; x01; xfb; x0e; x0d; x00; x01; x01; x01; x01; x00; x00; x00; x01; x00; x00; x01; x00; x61; x00; x00; x00; x00; x00; x00; x09; x02; x10; x00; x00; x00; x00; x00; x00; x00; x20; x00; x01; x01].
(* its only relocatable field is the set_address operand (offset 38, 8 bytes); relocated: address 0x1010 both ways *)
Example ex_line_set_address :
  both_runs [mkRrel 38 8 true 4096] (p_line 60 8) ex_line_bytes =
  (true,
   Ok ([46; 4; 4; 8; 25; 1; 1; 1; 251; 14; 13; 111; 222; 17; 1; 0; 0; 0; 0; 0; 0; 333; 0; 2; 4112; 32; 0; 1], 50, 0),
   Ok ([46; 4; 4; 8; 25; 1; 1; 1; 251; 14; 13; 111; 222; 17; 1; 0; 0; 0; 0; 0; 0; 333; 0; 2; 4112; 32; 0; 1], 50, 0),
   [(38, 8)]).
Proof. vm_compute. reflexivity. Qed.
(* header_length (offset 6) is read_length: a relocation there is outside the field map, and the two readings differ *)
Example ex_line_header_length_not_transparent :
  match both_runs [mkRrel 6 4 true 1] (p_line 60 8) ex_line_bytes with
  | (ok, r, p, _) => ok = false /\ r <> p
  end.
Proof. vm_compute. split; [reflexivity|discriminate]. Qed.
Example ex_line_unit_length_not_transparent :
  match both_runs [mkRrel 0 4 false 45] (p_line 60 8) ex_line_bytes with
  | (ok, r, p, _) => ok = false /\ r <> p
  end.
Proof. vm_compute. split; [reflexivity|discriminate]. Qed.

(* one DIE attribute at offset 12 of a DWARF 4 unit holding 0x34, relocation +0x1000 on it *)
Definition ex_attr_bytes : list byte := [x0c; x00; x00; x00; x04; x00; x00; x00; x00; x00; x08; x01; x34; x00; x00; x00].
Definition ex_e4 : enc := mkEnc 4 false 8 false.
Example ex_attr_strp_transparent :
  both_runs [mkRrel 12 4 true 4096] (PSkip 12 (p_attr 20 ex_e4 (mkSpec 3 DW_FORM_strp 0))) ex_attr_bytes =
  (true, Ok ([T_DebugStrRef; 4148], 16, 0), Ok ([T_DebugStrRef; 4148], 16, 0), [(12, 4)]).
Proof. vm_compute. reflexivity. Qed.
(* the same bytes as DW_FORM_data4 of DW_AT_decl_line, or as DW_FORM_ref4: plain reads, not transparent *)
Example ex_attr_data4_not_transparent :
  both_runs [mkRrel 12 4 true 4096] (PSkip 12 (p_attr 20 ex_e4 (mkSpec 59 DW_FORM_data4 0))) ex_attr_bytes =
  (false, Ok ([T_Data4; 52], 16, 0), Ok ([T_Data4; 4148], 16, 0), []).
Proof. vm_compute. reflexivity. Qed.
Example ex_attr_ref4_not_transparent :
  both_runs [mkRrel 12 4 true 4096] (PSkip 12 (p_attr 20 ex_e4 (mkSpec 73 DW_FORM_ref4 0))) ex_attr_bytes =
  (false, Ok ([T_UnitRef; 52], 16, 0), Ok ([T_UnitRef; 4148], 16, 0), []).
Proof. vm_compute. reflexivity. Qed.

(* .debug_rnglists: DW_RLE_start_length 0x10 +5, DW_RLE_offset_pair 1 2, end *)
Definition ex_rle_bytes : list byte := [x07; x10; x00; x00; x00; x00; x00; x00; x00; x05; x04; x01; x02; x00].
Example ex_rle_start_length_transparent :
  both_runs [mkRrel 1 8 true 4096] (p_rnglist 20 8 []) ex_rle_bytes =
  (true, Ok ([7; 4112; 5; 4; 1; 2], 14, 0), Ok ([7; 4112; 5; 4; 1; 2], 14, 0), [(1, 8)]).
Proof. vm_compute. reflexivity. Qed.
(* the operands of DW_RLE_offset_pair are ULEB128s: not relocatable *)
Example ex_rle_offset_pair_not_transparent :
  both_runs [mkRrel 11 1 true 3] (p_rnglist 20 8 []) ex_rle_bytes =
  (false, Ok ([7; 16; 5; 4; 1; 2], 14, 0), Ok ([7; 16; 5; 4; 4; 2], 14, 0), [(1, 8)]).
Proof. vm_compute. reflexivity. Qed.

(* .debug_aranges: one set, debug_info_offset 0x40, one tuple (0x1000, 0x20), terminator *)
Definition ex_aranges_bytes : list byte := [x2c; x00; x00; x00; x02; x00; x40; x00; x00; x00; x08; x00; x00; x00; x00; x00; x00; x10; x00; x00; x00; x00; x00; x00; x20; x00; x00; x00; x00; x00; x00; x00; x00; x00; x00; x00; x00; x00; x00; x00; x00; x00; x00; x00; x00; x00; x00; x00].
Example ex_aranges_transparent :
  both_runs [mkRrel 6 4 true 256; mkRrel 16 8 false 8192] (p_aranges 60) ex_aranges_bytes =
  (true, Ok ([44; 4; 2; 320; 8; 8192; 32], 48, 0), Ok ([44; 4; 2; 320; 8; 8192; 32], 48, 0),
   [(6, 4); (16, 8); (24, 8); (32, 8); (40, 8)]).
Proof. vm_compute. reflexivity. Qed.
Example ex_aranges_length_not_transparent :
  match both_runs [mkRrel 0 4 false 28] (p_aranges 60) ex_aranges_bytes with
  | (ok, r, p, _) => ok = false /\ r <> p
  end.
Proof. vm_compute. split; [reflexivity|discriminate]. Qed.

(* .debug_pubnames: one set (unit offset 0x40, unit_length 0x100), entry (0x2a, "foo"), terminator: the unit offset,
   the DIE offset and the terminator word are the relocatable fields *)
Definition ex_pub_bytes : list byte := [x16; x00; x00; x00; x02; x00; x40; x00; x00; x00; x00; x01; x00; x00; x2a; x00; x00; x00; x66; x6f; x6f; x00; x00; x00; x00; x00].
Example ex_pubnames_transparent :
  both_runs [mkRrel 6 4 true 256; mkRrel 14 4 true 16] (p_pubnames 40 40 []) ex_pub_bytes =
  (true, Ok ([320; 58; 3], 26, 0), Ok ([320; 58; 3], 26, 0), [(6, 4); (14, 4); (22, 4)]).
Proof. vm_compute. reflexivity. Qed.

Check parser_reloc_static :
  forall (A : Type) (be dbg : bool) (R : list rrel) (p : prog A) (bs : list byte) (base : N),
  sites_disjointb R = true -> fitsb be R bs = true ->
  forallb (shape_okb R) (field_trace be dbg base p (apply_rrels be R bs)) = true ->
  out_reloc (snd (run_reloc_rd be dbg (map_relocator R) p (rrd_new (mkRd base bs)))) =
  out_plain (mkRd base (apply_rrels be R bs)) (run_plain_rd be dbg p (mkRd base (apply_rrels be R bs))).
