(* Properties/C04_tie_numerals.v — translator tie (DESIGN §1.2 item 2) for C04: the DW_LNCT_* content-type codes of Spec/LineSpec.v
   (used by Model/LineRd.v for the version 5 directory/file tables) are the constants of /repo/src/constants.rs.
   (DW_LNS_* / DW_LNE_*: Properties/C04_tie.v, c04_tie_line_table_keys and the opcode sweeps.) *)
From Coq Require Import List NArith Bool String.
Require Import GV.Base.Res GV.Proofs.GenSweep GV.Proofs.GenAgreeNumerals.
Require GV.Gen.Constants GV.Model.ListsRd GV.Model.MacroRd GV.Model.NamesRd GV.Spec.LineSpec.
Import ListNotations.
Local Open Scope string_scope.
Local Open Scope N_scope.

Theorem c04_tie_lnct_numerals :
  Constants.DW_LNCT_path = LineSpec.LNCT_path /\
  Constants.DW_LNCT_directory_index = LineSpec.LNCT_directory_index /\
  Constants.DW_LNCT_timestamp = LineSpec.LNCT_timestamp /\
  Constants.DW_LNCT_size = LineSpec.LNCT_size /\
  Constants.DW_LNCT_MD5 = LineSpec.LNCT_MD5 /\
  Constants.DW_LNCT_LLVM_source = LineSpec.LNCT_LLVM_source.
Proof. exact GenAgreeNumerals.gen_lnct_numerals. Qed.

(* statement pins *)
Check c04_tie_lnct_numerals :
  Constants.DW_LNCT_path = LineSpec.LNCT_path /\
  Constants.DW_LNCT_directory_index = LineSpec.LNCT_directory_index /\
  Constants.DW_LNCT_timestamp = LineSpec.LNCT_timestamp /\
  Constants.DW_LNCT_size = LineSpec.LNCT_size /\
  Constants.DW_LNCT_MD5 = LineSpec.LNCT_MD5 /\
  Constants.DW_LNCT_LLVM_source = LineSpec.LNCT_LLVM_source.
