(* Properties/C01.v — untrusted DWARF never panics / overflows / hangs: theorem part (modelled parsers).
   Each theorem says: for EVERY byte string and BOTH build modes the model of the decoder never returns
   Panic (no overflow-checked operation, index or unwrap can fail) and — being a structurally recursive
   Gallina function — terminates. More instances are added as models land (see props/C01.py). *)
From Coq Require Import List NArith ZArith Bool.
From Coq.Strings Require Import Byte.
Require Import GV.Base.Res GV.Base.Byt GV.Base.Ints.
Require Import GV.Spec.LebSpec GV.Model.Leb GV.Proofs.LebProofs.
Import ListNotations.

Theorem uleb_no_panic : forall (dbg : bool) (bs : list byte), read_uleb128 dbg bs <> Panic /\ read_uleb128 dbg bs <> OutOfFuel.
Proof. exact LebProofs.read_uleb128_total. Qed.

Theorem sleb_no_panic : forall (dbg : bool) (bs : list byte), read_sleb128 dbg bs <> Panic /\ read_sleb128 dbg bs <> OutOfFuel.
Proof. exact LebProofs.read_sleb128_total. Qed.
