(* Properties/C01.v — untrusted DWARF never panics / overflows / hangs: theorem part (modelled parsers).
   Each theorem says: for EVERY byte string and BOTH build modes the model of the decoder never returns
   Panic (no overflow-checked operation, index or unwrap can fail) and — being a structurally recursive
   Gallina function — terminates. More instances are added as models land (see props/C01.py). *)
From Coq Require Import List NArith ZArith Bool.
From Coq.Strings Require Import Byte.
Require Import GV.Base.Res GV.Base.Byt GV.Base.Ints.
Require Import GV.Spec.LebSpec GV.Model.Leb GV.Proofs.LebProofs.
Import ListNotations.

Theorem uleb_no_panic : forall (dbg : bool) (bs : list byte), read_uleb128 dbg bs <> Panic /\ read_uleb128 dbg bs <> OutOfFuel.
Proof. exact LebProofs.read_uleb128_total. Qed.

Theorem sleb_no_panic : forall (dbg : bool) (bs : list byte), read_sleb128 dbg bs <> Panic /\ read_sleb128 dbg bs <> OutOfFuel.
Proof. exact LebProofs.read_sleb128_total. Qed.

(* ---- instances imported from the per-property developments (each is an `exact` of a theorem proved there) ---- *)
Require Import GV.Properties.C09 GV.Properties.C10.
Require Import GV.Model.Cursor GV.Spec.CursorSpec GV.Proofs.CursorProofs.

(* the 16-bit LEB reader: its `result += byte << 14` can never overflow *)
Theorem uleb16_no_panic : forall bs, read_uleb128_u16 bs <> Panic /\ read_uleb128_u16 bs <> OutOfFuel.
Proof. exact C09.uleb16_never_panics. Qed.

(* every Reader operation of the slice/shared-buffer readers, for every reader inside its section, every
   argument (in range or not), both build modes: no SubRange assert, no debug_assert, no overflow — the only
   panic is the documented out-of-range `read_uint(n > 8)`, and none of the parsers calls it with n > 8 *)
Theorem reader_ops_no_panic : forall dbg be root c op,
  Inv root -> wf_alloc root -> Sub root c ->
  (snd (step dbg be root c op) = Panic -> exists n, op = CReadUint n /\ (8 < n)%nat) /\
  snd (step dbg be root c op) <> OutOfFuel.
Proof. exact C10.only_read_uint_panics. Qed.
