(* Properties/C01.v — untrusted DWARF never panics / overflows / hangs: theorem part (modelled parsers).
   Each theorem says: for EVERY byte string and BOTH build modes the model of the decoder never returns
   Panic (no overflow-checked operation, index or unwrap can fail) and — being a structurally recursive
   Gallina function — terminates. More instances are added as models land (see props/C01.py). *)
From Coq Require Import List NArith ZArith Bool.
From Coq.Strings Require Import Byte.
Require Import GV.Base.Res GV.Base.Byt GV.Base.Ints.
Require Import GV.Spec.LebSpec GV.Model.Leb GV.Proofs.LebProofs.
Import ListNotations.

Theorem uleb_no_panic : forall (dbg : bool) (bs : list byte), read_uleb128 dbg bs <> Panic /\ read_uleb128 dbg bs <> OutOfFuel.
Proof. exact LebProofs.read_uleb128_total. Qed.

Theorem sleb_no_panic : forall (dbg : bool) (bs : list byte), read_sleb128 dbg bs <> Panic /\ read_sleb128 dbg bs <> OutOfFuel.
Proof. exact LebProofs.read_sleb128_total. Qed.

(* ---- instances imported from the per-property developments (each is an `exact` of a theorem proved there) ---- *)
Require Import GV.Properties.C09 GV.Properties.C10.
Require Import GV.Model.Cursor GV.Spec.CursorSpec GV.Proofs.CursorProofs.

(* the 16-bit LEB reader: its `result += byte << 14` can never overflow *)
Theorem uleb16_no_panic : forall bs, read_uleb128_u16 bs <> Panic /\ read_uleb128_u16 bs <> OutOfFuel.
Proof. exact C09.uleb16_never_panics. Qed.

(* every Reader operation of the slice/shared-buffer readers, for every reader inside its section, every
   argument (in range or not), both build modes: no SubRange assert, no debug_assert, no overflow — the only
   panic is the documented out-of-range `read_uint(n > 8)`, and none of the parsers calls it with n > 8 *)
Theorem reader_ops_no_panic : forall dbg be root c op,
  Inv root -> wf_alloc root -> Sub root c ->
  (snd (step dbg be root c op) = Panic -> exists n, op = CReadUint n /\ (8 < n)%nat) /\
  snd (step dbg be root c op) <> OutOfFuel.
Proof. exact C10.only_read_uint_panics. Qed.

(* ---- instances proved in the other property developments ------------------------------------------
   Each theorem below IS the theorem named in its comment (the statement is taken from it with
   `type of`, the proof is `exact`); they are collected here so that "never panics, always terminates"
   for every modelled parser and iterator is audited (Print Assumptions) under C01 as well.
   `Check` prints each full statement in the build log. *)
Require GV.Properties.C02 GV.Properties.C03 GV.Properties.C04 GV.Properties.C05 GV.Properties.C06 GV.Properties.C07 GV.Properties.C08 GV.Properties.C17 GV.Properties.C18 GV.Properties.C19.
(* C02.no_panic — abbreviation parsing, unit-header parsing, next_entry / next_dfs / next_sibling / EntriesTree steps: never Panic, always terminate, from any state satisfying the reader invariant *)
Theorem c01_c02_no_panic : ltac:(let t := type of C02.no_panic in exact t).
Proof. exact C02.no_panic. Qed.
Check c01_c02_no_panic.
(* C03.no_panic — parse_attribute / read_attributes / skip_attributes for every spec list and byte string *)
Theorem c01_c03_no_panic : ltac:(let t := type of C03.no_panic in exact t).
Proof. exact C03.no_panic. Qed.
Check c01_c03_no_panic.
(* C03.line_parse_no_panic — the line-program attribute parser *)
Theorem c01_c03_line_parse_no_panic : ltac:(let t := type of C03.line_parse_no_panic in exact t).
Proof. exact C03.line_parse_no_panic. Qed.
Check c01_c03_line_parse_no_panic.
(* C04.no_panic_parse_insn — LineInstruction::parse on any bytes *)
Theorem c01_c04_no_panic_parse_insn : ltac:(let t := type of C04.no_panic_parse_insn in exact t).
Proof. exact C04.no_panic_parse_insn. Qed.
Check c01_c04_no_panic_parse_insn.
(* C04.no_panic_rows — LineRows (rows, continue-after-error, sequences): no Panic and the loop fuel suffices *)
Theorem c01_c04_no_panic_rows : ltac:(let t := type of C04.no_panic_rows in exact t).
Proof. exact C04.no_panic_rows. Qed.
Check c01_c04_no_panic_rows.
(* C04.no_panic_parse_header — LineProgramHeader::parse v2-5 on any bytes *)
Theorem c01_c04_no_panic_parse_header : ltac:(let t := type of C04.no_panic_parse_header in exact t).
Proof. exact C04.no_panic_parse_header. Qed.
Check c01_c04_no_panic_parse_header.
(* C05.entries_total — CfiEntriesIter over any section bytes *)
Theorem c01_c05_entries_total : ltac:(let t := type of C05.entries_total in exact t).
Proof. exact C05.entries_total. Qed.
Check c01_c05_entries_total.
(* C05.fde_parse_total — FDE parsing against its CIE *)
Theorem c01_c05_fde_parse_total : ltac:(let t := type of C05.fde_parse_total in exact t).
Proof. exact C05.fde_parse_total. Qed.
Check c01_c05_fde_parse_total.
(* C05.fde_for_address_total — linear FDE lookup *)
Theorem c01_c05_fde_for_address_total : ltac:(let t := type of C05.fde_for_address_total in exact t).
Proof. exact C05.fde_for_address_total. Qed.
Check c01_c05_fde_for_address_total.
(* C05.hdr_parse_total — EhFrameHdr::parse *)
Theorem c01_c05_hdr_parse_total : ltac:(let t := type of C05.hdr_parse_total in exact t).
Proof. exact C05.hdr_parse_total. Qed.
Check c01_c05_hdr_parse_total.
(* C05.table_iter_total — EhHdrTableIter *)
Theorem c01_c05_table_iter_total : ltac:(let t := type of C05.table_iter_total in exact t).
Proof. exact C05.table_iter_total. Qed.
Check c01_c05_table_iter_total.
(* C05.table_iter_stops_after_error — EhHdrTableIter yields nothing after an error *)
Theorem c01_c05_table_iter_stops_after_error : ltac:(let t := type of C05.table_iter_stops_after_error in exact t).
Proof. exact C05.table_iter_stops_after_error. Qed.
Check c01_c05_table_iter_stops_after_error.
(* C05.table_nth_total — EhHdrTableIter::nth for every n *)
Theorem c01_c05_table_nth_total : ltac:(let t := type of C05.table_nth_total in exact t).
Proof. exact C05.table_nth_total. Qed.
Check c01_c05_table_nth_total.
(* C05.lookup_total — EhHdrTable::lookup (binary search) terminates without Panic on any table *)
Theorem c01_c05_lookup_total : ltac:(let t := type of C05.lookup_total in exact t).
Proof. exact C05.lookup_total. Qed.
Check c01_c05_lookup_total.
(* C05.hdr_fde_for_address_total — EhHdrTable::fde_for_address *)
Theorem c01_c05_hdr_fde_for_address_total : ltac:(let t := type of C05.hdr_fde_for_address_total in exact t).
Proof. exact C05.hdr_fde_for_address_total. Qed.
Check c01_c05_hdr_fde_for_address_total.
(* C06.no_panic — UnwindTable evaluation for every CIE/FDE instruction string, storage capacity and context *)
Theorem c01_c06_no_panic : ltac:(let t := type of C06.no_panic in exact t).
Proof. exact C06.no_panic. Qed.
Check c01_c06_no_panic.
(* C06.parse_insn_total — CallFrameInstruction::parse *)
Theorem c01_c06_parse_insn_total : ltac:(let t := type of C06.parse_insn_total in exact t).
Proof. exact C06.parse_insn_total. Qed.
Check c01_c06_parse_insn_total.
(* C07.decode_no_panic — Operation::parse on any bytes *)
Theorem c01_c07_decode_no_panic : ltac:(let t := type of C07.decode_no_panic in exact t).
Proof. exact C07.decode_no_panic. Qed.
Check c01_c07_decode_no_panic.
(* C07.operations_terminate — OperationIter terminates *)
Theorem c01_c07_operations_terminate : ltac:(let t := type of C07.operations_terminate in exact t).
Proof. exact C07.operations_terminate. Qed.
Check c01_c07_operations_terminate.
(* C07.eval_no_panic — Evaluation with any program, answer list, iteration limit (or none), fuel *)
Theorem c01_c07_eval_no_panic : ltac:(let t := type of C07.eval_no_panic in exact t).
Proof. exact C07.eval_no_panic. Qed.
Check c01_c07_eval_no_panic.
(* C08.no_panic_raw_ranges — RawRngListIter *)
Theorem c01_c08_no_panic_raw_ranges : ltac:(let t := type of C08.no_panic_raw_ranges in exact t).
Proof. exact C08.no_panic_raw_ranges. Qed.
Check c01_c08_no_panic_raw_ranges.
(* C08.no_panic_raw_locations — RawLocListIter *)
Theorem c01_c08_no_panic_raw_locations : ltac:(let t := type of C08.no_panic_raw_locations in exact t).
Proof. exact C08.no_panic_raw_locations. Qed.
Check c01_c08_no_panic_raw_locations.
(* C08.no_panic_tables — get_offset / get_address / get_str_offset for every index and base *)
Theorem c01_c08_no_panic_tables : ltac:(let t := type of C08.no_panic_tables in exact t).
Proof. exact C08.no_panic_tables. Qed.
Check c01_c08_no_panic_tables.
(* C08.no_panic_ranges — RngListIter (address sizes 1,2,4,8) *)
Theorem c01_c08_no_panic_ranges : ltac:(let t := type of C08.no_panic_ranges in exact t).
Proof. exact C08.no_panic_ranges. Qed.
Check c01_c08_no_panic_ranges.
(* C08.no_panic_locations — LocListIter (address sizes 1,2,4,8) *)
Theorem c01_c08_no_panic_locations : ltac:(let t := type of C08.no_panic_locations in exact t).
Proof. exact C08.no_panic_locations. Qed.
Check c01_c08_no_panic_locations.
(* C08.no_panic_die_ranges_all — Dwarf::die_ranges *)
Theorem c01_c08_no_panic_die_ranges_all : ltac:(let t := type of C08.no_panic_die_ranges_all in exact t).
Proof. exact C08.no_panic_die_ranges_all. Qed.
Check c01_c08_no_panic_die_ranges_all.
(* C08.iter_terminates — list iterators finish within |section| items plus errors *)
Theorem c01_c08_iter_terminates : ltac:(let t := type of C08.iter_terminates in exact t).
Proof. exact C08.iter_terminates. Qed.
Check c01_c08_iter_terminates.
(* C08.raw_iter_stops_after_error — raw list iterators yield nothing after an error *)
Theorem c01_c08_raw_iter_stops_after_error : ltac:(let t := type of C08.raw_iter_stops_after_error in exact t).
Proof. exact C08.raw_iter_stops_after_error. Qed.
Check c01_c08_raw_iter_stops_after_error.
(* C17.index_find_terminates — UnitIndex::find makes at most slot_count probes *)
Theorem c01_c17_index_find_terminates : ltac:(let t := type of C17.index_find_terminates in exact t).
Proof. exact C17.index_find_terminates. Qed.
Check c01_c17_index_find_terminates.
(* C17.index_parse_no_panic — UnitIndex::parse *)
Theorem c01_c17_index_parse_no_panic : ltac:(let t := type of C17.index_parse_no_panic in exact t).
Proof. exact C17.index_parse_no_panic. Qed.
Check c01_c17_index_parse_no_panic.
(* C17.index_find_no_panic — UnitIndex::find *)
Theorem c01_c17_index_find_no_panic : ltac:(let t := type of C17.index_find_no_panic in exact t).
Proof. exact C17.index_find_no_panic. Qed.
Check c01_c17_index_find_no_panic.
(* C17.index_sections_no_panic — UnitIndex::sections *)
Theorem c01_c17_index_sections_no_panic : ltac:(let t := type of C17.index_sections_no_panic in exact t).
Proof. exact C17.index_sections_no_panic. Qed.
Check c01_c17_index_sections_no_panic.
(* C17.names_bucket_terminates — NameBucketIter *)
Theorem c01_c17_names_bucket_terminates : ltac:(let t := type of C17.names_bucket_terminates in exact t).
Proof. exact C17.names_bucket_terminates. Qed.
Check c01_c17_names_bucket_terminates.
(* C17.names_hash_terminates — NameHashIter *)
Theorem c01_c17_names_hash_terminates : ltac:(let t := type of C17.names_hash_terminates in exact t).
Proof. exact C17.names_hash_terminates. Qed.
Check c01_c17_names_hash_terminates.
(* C17.names_headers_no_panic — NameIndexHeaderIter *)
Theorem c01_c17_names_headers_no_panic : ltac:(let t := type of C17.names_headers_no_panic in exact t).
Proof. exact C17.names_headers_no_panic. Qed.
Check c01_c17_names_headers_no_panic.
(* C17.names_index_new_no_panic — NameIndex::new *)
Theorem c01_c17_names_index_new_no_panic : ltac:(let t := type of C17.names_index_new_no_panic in exact t).
Proof. exact C17.names_index_new_no_panic. Qed.
Check c01_c17_names_index_new_no_panic.
(* C17.names_entries_no_panic — NameEntryIter *)
Theorem c01_c17_names_entries_no_panic : ltac:(let t := type of C17.names_entries_no_panic in exact t).
Proof. exact C17.names_entries_no_panic. Qed.
Check c01_c17_names_entries_no_panic.
(* C17.aranges_no_panic — ArangeHeaderIter / ArangeEntryIter *)
Theorem c01_c17_aranges_no_panic : ltac:(let t := type of C17.aranges_no_panic in exact t).
Proof. exact C17.aranges_no_panic. Qed.
Check c01_c17_aranges_no_panic.
(* C17.pubstuff_no_panic — pubnames / pubtypes LookupEntryIter *)
Theorem c01_c17_pubstuff_no_panic : ltac:(let t := type of C17.pubstuff_no_panic in exact t).
Proof. exact C17.pubstuff_no_panic. Qed.
Check c01_c17_pubstuff_no_panic.
(* C18.reader_no_panic — RelocateReader: every parser program in the reader monad *)
Theorem c01_c18_reader_no_panic : ltac:(let t := type of C18.reader_no_panic in exact t).
Proof. exact C18.reader_no_panic. Qed.
Check c01_c18_reader_no_panic.
(* C19.worklist_fuel — FilterDependencies::get_reachable terminates within #nodes+2 iterations *)
Theorem c01_c19_worklist_fuel : ltac:(let t := type of C19.worklist_fuel in exact t).
Proof. exact C19.worklist_fuel. Qed.
Check c01_c19_worklist_fuel.
(* ---- src/read/macros.rs (Model/MacroRd.v; theorems and non-vacuity examples in Properties/C01Macro.v) ---- *)
Require GV.Properties.C01Macro.
(* C01Macro.macro_no_panic — get_macinfo / get_macros (unit header) / every MacroIter::next from any state / the whole ignore-errors loop within |section|+1 calls: never Panic, fuel suffices *)
Theorem c01_c01m_macro_no_panic : ltac:(let t := type of C01Macro.macro_no_panic in exact t).
Proof. exact C01Macro.macro_no_panic. Qed.
Check c01_c01m_macro_no_panic.
(* C01Macro.macro_iter_terminates — MacroIter with errors ignored: at most |remaining input| entries-or-errors, then Ok(None) for ever *)
Theorem c01_c01m_macro_iter_terminates : ltac:(let t := type of C01Macro.macro_iter_terminates in exact t).
Proof. exact C01Macro.macro_iter_terminates. Qed.
Check c01_c01m_macro_iter_terminates.
(* C01Macro.macro_section_terminates — from get_macinfo / get_macros: Ok(None) for ever after at most |section| calls *)
Theorem c01_c01m_macro_section_terminates : ltac:(let t := type of C01Macro.macro_section_terminates in exact t).
Proof. exact C01Macro.macro_section_terminates. Qed.
Check c01_c01m_macro_section_terminates.
(* C01Macro.macro_stops_after_error — after any Err the input is empty and every later next() is Ok(None) *)
Theorem c01_c01m_macro_stops_after_error : ltac:(let t := type of C01Macro.macro_stops_after_error in exact t).
Proof. exact C01Macro.macro_stops_after_error. Qed.
Check c01_c01m_macro_stops_after_error.
(* C01Macro.macro_error_is_last — with errors ignored an error is the last thing MacroIter reports *)
Theorem c01_c01m_macro_error_is_last : ltac:(let t := type of C01Macro.macro_error_is_last in exact t).
Proof. exact C01Macro.macro_error_is_last. Qed.
Check c01_c01m_macro_error_is_last.
(* C01Macro.macro_progress — every entry or error consumed >= 1 byte; the remaining input is a suffix of the previous one *)
Theorem c01_c01m_macro_progress : ltac:(let t := type of C01Macro.macro_progress in exact t).
Proof. exact C01Macro.macro_progress. Qed.
Check c01_c01m_macro_progress.
(* C01Macro.macro_roundtrip — every well-formed .debug_macro unit / .debug_macinfo list reads back entry by entry, then Ok(None) *)
Theorem c01_c01m_macro_roundtrip : ltac:(let t := type of C01Macro.macro_roundtrip in exact t).
Proof. exact C01Macro.macro_roundtrip. Qed.
Check c01_c01m_macro_roundtrip.
(* C01Macro.macro_roundtrip_unit — the same for zero-terminated units followed by any trailing bytes *)
Theorem c01_c01m_macro_roundtrip_unit : ltac:(let t := type of C01Macro.macro_roundtrip_unit in exact t).
Proof. exact C01Macro.macro_roundtrip_unit. Qed.
Check c01_c01m_macro_roundtrip_unit.
(* C01Macro.macro_operands_table_unsupported — a unit header announcing an opcode operands table is always rejected *)
Theorem c01_c01m_macro_operands_table_unsupported : ltac:(let t := type of C01Macro.macro_operands_table_unsupported in exact t).
Proof. exact C01Macro.macro_operands_table_unsupported. Qed.
Check c01_c01m_macro_operands_table_unsupported.
