(* Properties/C06_tie.v — translator tie (DESIGN §1.2 item 2) for C06: the opcode -> variant table of CallFrameInstruction::parse
   (src/read/cfi.rs), regenerated into coq/Gen/CfiTable.v from the source text on every ./check run, against
   Model/CfiRun.v parse_insn.  insn_agree (Proofs/GenAgreeCfiTable.v) runs the model on the byte followed by a benign
   operand tail and compares the constructor name with gen_cfi_variant, the reading of the regenerated tables. *)
From Coq Require Import List NArith Bool String.
From Coq.Strings Require Import Byte.
Require Import GV.Base.Res GV.Base.Byt GV.Proofs.GenSweep GV.Model.CfiRun GV.Proofs.GenAgreeCfiTable.
Require GV.Gen.CfiTable GV.Gen.Constants.
Import ListNotations.
Local Open Scope N_scope.

(* all 256 instruction bytes x {AArch64, other vendors}: Model/CfiRun.v parse_insn builds the variant that CallFrameInstruction::parse builds for that byte (high-bits tests, then the DW_CFA match with its vendor guard); no arm = UnknownCallFrameInstruction in both *)
Theorem c06_tie_cfi_table :
  forall aarch64 b, b < 256 -> insn_agree aarch64 b = true.
Proof. exact GenAgreeCfiTable.gen_cfi_table_agree. Qed.

(* keys are DW_CFA_* constants; the low-table keys have zero high bits *)
Theorem c06_tie_cfi_table_keys :
  lookup_hi 0 CfiTable.high_table = None /\
  forallb (fun k => existsb (N.eqb k) Constants.DwCfa_values) (map fst CfiTable.high_table ++ map fst CfiTable.low_table) = true /\
  forallb (fun k => N.land k CfiTable.high_bits_mask =? 0) (map fst CfiTable.low_table) = true.
Proof. exact GenAgreeCfiTable.gen_cfi_table_keys. Qed.

(* for ALL operand bytes, byte orders, address sizes, offsets, vendors and both build modes: whenever the model decodes an instruction, its variant is the one CallFrameInstruction::parse builds for that byte *)
Theorem c06_tie_cfi_table_all_inputs :
  forall dbg be asize aarch64 off b t i r',
  parse_insn dbg be asize aarch64 off (b :: t) = Ok (i, r') ->
  gen_cfi_variant aarch64 (b2n b) = Some (insn_ctor i).
Proof. exact GenAgreeCfiTable.gen_cfi_table_all_inputs. Qed.

(* statement pins *)
Check c06_tie_cfi_table :
  forall aarch64 b, b < 256 -> insn_agree aarch64 b = true.
Check c06_tie_cfi_table_keys :
  lookup_hi 0 CfiTable.high_table = None /\
  forallb (fun k => existsb (N.eqb k) Constants.DwCfa_values) (map fst CfiTable.high_table ++ map fst CfiTable.low_table) = true /\
  forallb (fun k => N.land k CfiTable.high_bits_mask =? 0) (map fst CfiTable.low_table) = true.
Check c06_tie_cfi_table_all_inputs :
  forall dbg be asize aarch64 off b t i r',
  parse_insn dbg be asize aarch64 off (b :: t) = Ok (i, r') ->
  gen_cfi_variant aarch64 (b2n b) = Some (insn_ctor i).
