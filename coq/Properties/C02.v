(* Properties/C02.v — "DIE forest is reported exactly as encoded, by every navigation API".
   Models: Model/AbbrevRd.v (src/read/abbrev.rs Abbreviations::{parse,insert,get}, Abbreviation::parse),
           Model/DieRd.v (src/read/unit.rs parse_unit_header, UnitHeader::*, EntriesRaw, EntriesCursor,
           EntriesTree), Model/Attr.v (attributes; property C03).
   Specification: Spec/Forest.v (abbreviation tables, unit headers, trees, enc_forest, preorder, raw_seq).
   Statements quantify over all forests / declarations / headers / byte lists and both build modes
   (dbg = overflow checks and debug assertions on). Side conditions are the ones written out:
     - abbrev_ok / uheader_ok / forest_ok / sibs_fit: the values fit the fields of the format
       (codes < 2^64, tags and names < 2^16, sibling offsets fit their form, ...);
     - header_len h + nlen body < two63: a Rust slice has at most isize::MAX bytes. *)
From Coq Require Import List NArith ZArith Bool.
From Coq.Strings Require Import Byte.
Require Import GV.Base.Res GV.Base.Byt GV.Base.Ints GV.Model.Leb GV.Model.Prim
               GV.Spec.LebSpec GV.Spec.FormSpec GV.Model.Attr GV.Spec.Forest GV.Model.AbbrevRd
               GV.Model.DieRd GV.Proofs.AttrProofs GV.Proofs.AbbrevRdProofs GV.Proofs.DieRdProofs GV.Proofs.NavProofs
               GV.Spec.ForestSel GV.Model.TreeWalk GV.Proofs.TreeWalkProofs GV.Proofs.CursorWalkProofs
               GV.Proofs.SibBadProofs GV.Proofs.SibOvProofs GV.Proofs.SibOvTreeProofs
               GV.Proofs.SibOvSibProofs.
Import ListNotations.
Local Open Scope N_scope.

(* ------------------------------------------------------------------ *)
(* (1) abbreviation tables: the Vec / BTreeMap split is invisible *)

(* a duplicate-free table (any codes, any declaration order, terminated by a null abbreviation or by
   the end of the section) parses, and lookup IS the declared finite map: every declared code
   returns its declaration, and whatever a lookup returns was declared under that code *)
Theorem abbrev_get : forall dbg ds tail rest,
  Forall abbrev_ok ds -> NoDup (map ab_code ds) ->
  (tail = [] /\ rest = [] \/ tail = x00 :: rest) ->
  exists t, parse_abbrevs dbg (enc_decls ds ++ tail) = Ok (t, rest) /\
            (forall c, tbl_get t c = find (fun a => ab_code a =? c) ds) /\
            (forall a, In a ds -> tbl_get t (ab_code a) = Some a) /\
            (forall c a, tbl_get t c = Some a -> In a ds /\ ab_code a = c).
Proof. exact AbbrevRdProofs.abbrev_get_full. Qed.

Definition ex_decls : list abbrev :=
  [ mkAbbrev 3 17 true [mkSpec 3 8 0; mkSpec 37 33 (-5)];      (* code 3 first: goes to the map *)
    mkAbbrev 1 46 false [];                                     (* then 1, 2: the Vec *)
    mkAbbrev 2 52 true [mkSpec 1 19 0];
    mkAbbrev 4294967301 36 false [mkSpec 11 11 0];              (* 2^32 + 5 *)
    mkAbbrev 9223372036854775808 15 false [] ].                 (* 2^63 *)

Example abbrev_get_ex :
  Forall abbrev_ok ex_decls /\ NoDup (map ab_code ex_decls) /\
  exists t, parse_abbrevs true (enc_abbrevs ex_decls) = Ok (t, []) /\
            length (t_vec t) = 2%nat /\ length (t_map t) = 3%nat /\
            tbl_get t 3 = nth_error ex_decls 0 /\ tbl_get t 9223372036854775808 = nth_error ex_decls 4 /\
            tbl_get t 4 = None.
Proof.
  split; [|split].
  - unfold ex_decls, abbrev_ok, spec_ok, two64, two16. cbn [ab_code ab_tag ab_specs at_name at_form at_implicit].
    repeat constructor; try discriminate; try reflexivity; intros H; exfalso; apply H; reflexivity.
  - cbn. repeat constructor; cbn; intuition discriminate.
  - eexists. split; [vm_compute; reflexivity|]. repeat split; reflexivity.
Qed.

Theorem abbrev_dup_rejected : forall dbg ds rest,
  Forall abbrev_ok ds -> ~ NoDup (map ab_code ds) ->
  parse_abbrevs dbg (enc_decls ds ++ rest) = Err EDuplicateAbbreviationCode.
Proof. exact AbbrevRdProofs.abbrev_dup_rejected. Qed.

Example abbrev_dup_ex :
  let ds := [mkAbbrev 7 17 false []; mkAbbrev 1 46 false []; mkAbbrev 7 52 true []] in
  Forall abbrev_ok ds /\ ~ NoDup (map ab_code ds) /\
  parse_abbrevs true (enc_abbrevs ds) = Err EDuplicateAbbreviationCode.
Proof.
  split; [|split].
  - unfold abbrev_ok, two64, two16. cbn [ab_code ab_tag ab_specs]. repeat constructor.
  - cbn. intros H. inversion H as [|? ? Hn _]; subst. apply Hn. right. left. reflexivity.
  - reflexivity.
Qed.

(* the format rules, for EVERY input: whatever a parsed table returns has a non-zero code, a non-zero
   tag and non-zero attribute names and forms *)
Theorem abbrev_rules : forall dbg bs t r c a,
  parse_abbrevs dbg bs = Ok (t, r) -> tbl_get t c = Some a ->
  0 < ab_code a < two64 /\ ab_tag a <> 0 /\ Forall (fun s => at_name s <> 0 /\ at_form s <> 0) (ab_specs a).
Proof. exact AbbrevRdProofs.parsed_table_rules. Qed.

Theorem abbrev_rejections : forall dbg,
  (forall code rest, 0 < code < two64 ->
     parse_abbrev dbg (enc_uleb code ++ x00 :: rest) = Err EAbbreviationTagZero) /\
  (forall code tag b rest, 0 < code < two64 -> 0 < tag < two16 -> b <> x00 -> b <> x01 ->
     parse_abbrev dbg (enc_uleb code ++ enc_uleb tag ++ b :: rest) = Err EInvalidAbbreviationChildren) /\
  (forall form rest, 0 < form < two16 ->
     parse_attr_spec dbg (x00 :: enc_uleb form ++ rest) = Err EAttributeNameZero) /\
  (forall name rest, 0 < name < two16 ->
     parse_attr_spec dbg (enc_uleb name ++ x00 :: rest) = Err EAttributeFormZero).
Proof.
  intros dbg. split; [|split; [|split]].
  - exact (AbbrevRdProofs.abbrev_tag_zero dbg).
  - exact (AbbrevRdProofs.abbrev_children_invalid dbg).
  - exact (AbbrevRdProofs.spec_name_zero dbg).
  - exact (AbbrevRdProofs.spec_form_zero dbg).
Qed.

(* ------------------------------------------------------------------ *)
(* (2) unit headers: every version 2-5, unit kind, format, address size, byte order *)

Theorem header_roundtrip : forall dbg bigend types uoff h body rest,
  uheader_ok types h (nlen body) ->
  parse_unit_header bigend types uoff (enc_unit bigend h body ++ rest) =
    Ok (mkUnit (mkEnc (uh_version h) (uh_fmt64 h) (uh_asize h) bigend)
               (unit_length_of bigend h (nlen body)) (uh_type h) (uh_abbrev_off h) types uoff body, rest)
  /\ (unit_length_of false h (nlen body) + 12 < two64 ->
      header_size dbg (mkUnit (mkEnc (uh_version h) (uh_fmt64 h) (uh_asize h) bigend)
               (unit_length_of bigend h (nlen body)) (uh_type h) (uh_abbrev_off h) types uoff body)
      = Ok (nlen (enc_header bigend h (nlen body)))).
Proof.
  intros dbg bigend types uoff h body rest H. split.
  - exact (DieRdProofs.header_roundtrip bigend types uoff h body rest H).
  - intros Hl. rewrite DieRdProofs.header_len_eq.
    exact (DieRdProofs.header_size_parsed dbg bigend types uoff h body Hl).
Qed.

Example header_roundtrip_ex :
  let h := mkUH 5 true 8 (USplitType 18446744073709551615 4294967296) 7 in
  uheader_ok false h 3 /\
  enc_unit true h [x01; x02; x03] =
    [xff;xff;xff;xff; x00;x00;x00;x00;x00;x00;x00;x1f;  x00;x05; x06; x08; x00;x00;x00;x00;x00;x00;x00;x07;
     xff;xff;xff;xff;xff;xff;xff;xff; x00;x00;x00;x01;x00;x00;x00;x00; x01; x02; x03]%byte.
Proof.
  split; [|reflexivity].
  unfold uheader_ok, utype_ok. cbn [uh_version uh_asize uh_abbrev_off uh_type uh_fmt64 word].
  repeat split; try (vm_compute; reflexivity); try (vm_compute; discriminate). right. right. right. reflexivity.
Qed.

(* ------------------------------------------------------------------ *)
(* (3) raw entry reading reports exactly the encoded forest: entries in preorder with their unit
       offsets, depths (null / has_children bookkeeping), tags, children flags and attribute values,
       and the null entries closing each child list and padding the unit *)

Theorem raw_is_preorder : forall dbg bigend types uoff h codes f pad tbl,
  let e := mkEnc (uh_version h) (uh_fmt64 h) (uh_asize h) bigend in
  let body := enc_forest codes bigend (header_len h) f pad in
  addr_size_ok e -> header_len h + nlen body < two63 -> body <> [] ->
  Forall (fun t => tbl_get tbl (t_code codes t) = Some (t_abbrev codes t)) (forest_nodes f) ->
  forest_ok codes e f -> sibs_fit codes (header_len h) f ->
  read_all_raw dbg (mkUnit e (unit_length_of bigend h (nlen body)) (uh_type h) (uh_abbrev_off h) types uoff body)
               tbl None
  = Ok (raw_seq codes (header_len h) f pad, None)
  /\ filter (fun d => negb (d_tag d =? 0)) (raw_seq codes (header_len h) f pad) = preorder codes (header_len h) 0 f.
Proof.
  intros dbg bigend types uoff h codes f pad tbl e body He Hlen Hb Hc Hok Hfit. split.
  - exact (DieRdProofs.raw_is_preorder dbg bigend types uoff h codes f pad tbl He Hlen Hb Hc Hok Hfit).
  - exact (DieRdProofs.raw_seq_preorder codes e (header_len h) f pad Hok).
Qed.

(* the table hypothesis of (3)-(6) is what (1) delivers for the forest's own abbreviation table,
   for any injective code assignment *)
Theorem forest_table : forall dbg codes e f tail rest,
  forest_ok codes e f -> codes_injective codes f ->
  (tail = [] /\ rest = [] \/ tail = x00 :: rest) ->
  exists tbl, parse_abbrevs dbg (enc_decls (forest_abbrevs codes f) ++ tail) = Ok (tbl, rest) /\
              Forall (fun t => tbl_get tbl (t_code codes t) = Some (t_abbrev codes t)) (forest_nodes f).
Proof. exact DieRdProofs.forest_table. Qed.

(* ------------------------------------------------------------------ *)
(* (4) the depth-first cursor: next_dfs reports the preorder (null entries skipped), next_entry the
       raw sequence *)

Theorem dfs_is_preorder : forall dbg bigend types uoff h codes f pad tbl,
  let e := mkEnc (uh_version h) (uh_fmt64 h) (uh_asize h) bigend in
  let body := enc_forest codes bigend (header_len h) f pad in
  addr_size_ok e -> header_len h + nlen body < two63 ->
  Forall (fun t => tbl_get tbl (t_code codes t) = Some (t_abbrev codes t)) (forest_nodes f) ->
  forest_ok codes e f -> sibs_fit codes (header_len h) f ->
  exists c,
    entries dbg (mkUnit e (unit_length_of bigend h (nlen body)) (uh_type h) (uh_abbrev_off h) types uoff body) = Ok c /\
    dfs_all (cursor_fuel c) dbg e tbl c = Ok (preorder codes (header_len h) 0 f, None) /\
    entries_all (cursor_fuel c) dbg e tbl c = Ok (raw_seq codes (header_len h) f pad, None).
Proof. exact DieRdProofs.dfs_is_preorder. Qed.

(* a concrete unit meeting every hypothesis of (3) and (4): sparse codes, a DW_AT_sibling, an empty
   child list, padding *)
Definition ex_attr : attr := mkAttr (mkSpec 3 11 0) [x2a] (VData1 42).
Definition ex_k1 : tree := Node 46 false [IAttr ex_attr] [].
Definition ex_k2 : tree := Node 52 true [] [].
Definition ex_root : tree := Node 17 false [ISib W1; IAttr ex_attr] [ex_k1; ex_k2; ex_k1].
Definition ex_forest : list tree := [ex_root].
Definition ex_codes : coding := fun tag hc specs => if tag =? 17 then 1000 else if tag =? 46 then 3 else 4294967301.
Definition ex_header : uheader := mkUH 4 false 8 UCompile 0.
Definition ex_enc : enc := mkEnc 4 false 8 false.

Example forest_ex :
  addr_size_ok ex_enc /\ forest_ok ex_codes ex_enc ex_forest /\ sibs_fit ex_codes (header_len ex_header) ex_forest /\
  codes_injective ex_codes ex_forest /\
  enc_forest ex_codes false (header_len ex_header) ex_forest 1 =
    [xe8;x07; x1a; x2a;  x03; x2a;  x85;x80;x80;x80;x10; x00;  x03; x2a;  x00;  x00]%byte /\
  map (fun d => (d_offset d, d_depth d, d_tag d)) (preorder ex_codes (header_len ex_header) 0 ex_forest) =
    [(11, 0%Z, 17); (15, 1%Z, 46); (17, 1%Z, 52); (23, 1%Z, 46)].
Proof.
  assert (Ha : attr_ok ex_enc ex_attr).
  { exists (mkUAttr 3 0 0 F_data1 (RNum 42)). split; [|reflexivity].
    unfold uattr_ok. cbn [u_form u_hops u_data u_name]. repeat split; discriminate. }
  split; [reflexivity|]. split; [|split; [|split; [|split]]].
  - unfold forest_ok. cbn [ex_forest ex_root ex_k1 ex_k2 forest_nodes flat_map nodes app].
    assert (Hab : forall tag hc specs code, 0 < code < two64 -> 0 < tag < two16 -> Forall spec_ok specs ->
                  abbrev_ok (mkAbbrev code tag hc specs)).
    { intros; repeat split; tauto. }
    assert (Hs3 : spec_ok (mkSpec 3 11 0)) by (repeat split; (reflexivity || discriminate)).
    assert (Hs1 : spec_ok (sib_spec W1)) by (repeat split; (reflexivity || discriminate)).
    repeat (apply Forall_cons); try apply Forall_nil; (split; [apply Hab|]);
      repeat (apply Forall_cons); try apply Forall_nil; try exact Ha; try exact Hs3; try exact Hs1; try exact I;
      split; reflexivity.
  - unfold sibs_fit.
    replace (on_list (placed ex_codes) (tree_size ex_codes) (header_len ex_header) ex_forest)
      with [(11, ex_root); (15, ex_k1); (17, ex_k2); (23, ex_k1)] by (vm_compute; reflexivity).
    repeat (apply Forall_cons); try apply Forall_nil; unfold node_fits; cbn [fst snd t_items ex_root ex_k1 ex_k2];
      repeat (apply Forall_cons); try apply Forall_nil; try exact I.
    vm_compute. reflexivity.
  - intros t1 t2 H1 H2. cbn [ex_forest ex_root ex_k1 ex_k2 forest_nodes flat_map nodes app In] in H1, H2.
    destruct H1 as [<-|[<-|[<-|[<-|[]]]]]; destruct H2 as [<-|[<-|[<-|[<-|[]]]]];
      vm_compute; intros H; (reflexivity || discriminate H).
  - vm_compute. reflexivity.
  - vm_compute. reflexivity.
Qed.

(* ------------------------------------------------------------------ *)
(* (5) next_sibling: from any entry, iterating next_sibling yields exactly its following siblings —
       whether the entries skipped on the way carry a DW_AT_sibling (fast path: seek_forward to the
       pointer, depth kept) or not (slow path: read through the subtree), in any mixture: the trees
       are arbitrary, ISib items may sit on any subset of entries at any attribute position.
       The cursor is about to read [t]; its following siblings are [ts]; after the list comes the end
       of the input or the null entry closing the list. Any depth d (relative start), any offset. *)

Theorem sibling_correct : forall dbg e tbl codes t ts after off d E c,
  addr_size_ok e ->
  Forall (fun t => tbl_get tbl (t_code codes t) = Some (t_abbrev codes t)) (forest_nodes (t :: ts)) ->
  forest_ok codes e (t :: ts) -> sibs_fit codes off (t :: ts) ->
  (after = [] \/ exists more, after = x00 :: more) ->
  let input := on_list (enc_tree codes (be e)) (tree_size codes) off (t :: ts) ++ after in
  c_raw c = mkRaw input E d -> E = off + nlen input -> E < two64 ->
  (- 9223372036854775808 + Z.of_N (nlen input) <= d /\ d + Z.of_N (nlen input) < 9223372036854775808)%Z ->
  exists c1, next_entry dbg e tbl c = Ok (SOk true c1) /\ c_cur c1 = root_die codes off d t /\
             siblings_all (cursor_fuel c1) dbg e tbl c1 = Ok (roots codes (off + tree_size codes t) d ts, None).
Proof. exact NavProofs.sibling_correct. Qed.

(* the children of ex_root: ex_k1 (no sibling pointer), ex_k2 (children flag, empty list), ex_k1; the
   list is closed by a null entry *)
Example sibling_correct_ex :
  let kids := [ex_k1; ex_k2; ex_k1] in
  let input := on_list (enc_tree ex_codes false) (tree_size ex_codes) 15 kids ++ [x00; x00] in
  forest_ok ex_codes ex_enc kids /\ sibs_fit ex_codes 15 kids /\
  input = [x03; x2a;  x85;x80;x80;x80;x10; x00;  x03; x2a;  x00; x00]%byte /\
  map d_offset (roots ex_codes (15 + tree_size ex_codes ex_k1) 1 [ex_k2; ex_k1]) = [17; 23].
Proof.
  destruct forest_ex as (_ & Hok & _). unfold forest_ok in *. cbn [ex_forest forest_nodes flat_map] in Hok.
  rewrite app_nil_r in Hok. change (nodes ex_root) with (ex_root :: forest_nodes [ex_k1; ex_k2; ex_k1]) in Hok.
  apply Forall_cons_iff in Hok. destruct Hok as [_ Hok].
  split; [exact Hok|]. split; [|split; vm_compute; reflexivity].
  unfold sibs_fit.
  replace (on_list (placed ex_codes) (tree_size ex_codes) 15 [ex_k1; ex_k2; ex_k1])
    with [(15, ex_k1); (17, ex_k2); (23, ex_k1)] by (vm_compute; reflexivity).
  repeat (apply Forall_cons); try apply Forall_nil; unfold node_fits; cbn [fst snd t_items ex_k1 ex_k2];
    repeat (apply Forall_cons); try apply Forall_nil; exact I.
Qed.

(* ------------------------------------------------------------------ *)
(* (6) positioned reads and the tree iterator, for EVERY entry (o, t) of the unit:
       UnitHeader::entry(o) is that entry (depth 0); a cursor created by entries_at_offset(o) reports
       the entry and everything after it in preorder with depths relative to the entry; the tree
       created by entries_tree(Some o) rebuilds exactly the entry's subtree (children lists in order) *)

Theorem entry_at_offset : forall dbg bigend types uoff h codes f pad tbl o t,
  let e := mkEnc (uh_version h) (uh_fmt64 h) (uh_asize h) bigend in
  let body := enc_forest codes bigend (header_len h) f pad in
  let hdr := mkUnit e (unit_length_of bigend h (nlen body)) (uh_type h) (uh_abbrev_off h) types uoff body in
  addr_size_ok e -> header_len h + nlen body < two63 ->
  Forall (fun t => tbl_get tbl (t_code codes t) = Some (t_abbrev codes t)) (forest_nodes f) ->
  forest_ok codes e f -> sibs_fit codes (header_len h) f ->
  In (o, t) (on_list (placed codes) (tree_size codes) (header_len h) f) ->
  entry_at dbg hdr tbl o = Ok (root_die codes o 0 t) /\
  (exists p1 p2 dd c,
      preorder codes (header_len h) 0 f = p1 ++ root_die codes o dd t :: p2 /\
      entries_at_offset dbg hdr o = Ok c /\
      dfs_all (cursor_fuel c) dbg e tbl c =
        Ok (map (fun d => mkDie (d_offset d) (d_depth d - dd) (d_tag d) (d_children d) (d_attrs d))
                (root_die codes o dd t :: p2), None)) /\
  (exists ts, entries_tree dbg hdr (Some o) = Ok ts /\
              walk_tree dbg e tbl ts = Ok (Some (dtree_of codes 0 o t), None)).
Proof.
  intros dbg bigend types uoff h codes f pad tbl o t e body hdr He Hlen Hc Hok Hfit Hin. split; [|split].
  - exact (NavProofs.entry_at_offset dbg bigend types uoff h codes f pad tbl He Hlen Hc Hok Hfit o t Hin).
  - exact (NavProofs.dfs_from_offset dbg bigend types uoff h codes f pad tbl He Hlen Hc Hok Hfit o t Hin).
  - exact (NavProofs.tree_is_forest dbg bigend types uoff h codes f pad tbl He Hlen Hc Hok Hfit o t Hin).
Qed.

(* tree_is_forest at the root: entries_tree(None) = entries_tree(Some root_offset) by definition *)
Theorem tree_is_forest : forall dbg bigend types uoff h codes t f pad tbl,
  let e := mkEnc (uh_version h) (uh_fmt64 h) (uh_asize h) bigend in
  let body := enc_forest codes bigend (header_len h) (t :: f) pad in
  let hdr := mkUnit e (unit_length_of bigend h (nlen body)) (uh_type h) (uh_abbrev_off h) types uoff body in
  addr_size_ok e -> header_len h + nlen body < two63 ->
  Forall (fun t => tbl_get tbl (t_code codes t) = Some (t_abbrev codes t)) (forest_nodes (t :: f)) ->
  forest_ok codes e (t :: f) -> sibs_fit codes (header_len h) (t :: f) ->
  exists ts, entries_tree dbg hdr (Some (header_len h)) = Ok ts /\
             walk_tree dbg e tbl ts = Ok (Some (dtree_of codes 0 (header_len h) t), None).
Proof.
  intros dbg bigend types uoff h codes t f pad tbl e body hdr He Hlen Hc Hok Hfit.
  apply (NavProofs.tree_is_forest dbg bigend types uoff h codes (t :: f) pad tbl He Hlen Hc Hok Hfit).
  rewrite DieRdProofs.on_list_cons. apply in_or_app. left. rewrite DieRdProofs.placed_unfold. left. reflexivity.
Qed.

Example entry_at_offset_ex :
  In (17, ex_k2) (on_list (placed ex_codes) (tree_size ex_codes) (header_len ex_header) ex_forest) /\
  root_die ex_codes 17 0 ex_k2 = mkDie 17 0 52 true [].
Proof. split; [vm_compute; tauto|reflexivity]. Qed.

(* ------------------------------------------------------------------ *)
(* (6b) PARTIAL traversals with the tree iterator. A selection strategy `sel` (Spec/ForestSel.v) is
        asked at every entry the caller visits: None = children() is not called; Some n = the caller
        calls EntriesTreeIter::next until n children have been returned (or the list ends) and then
        goes back to the enclosing list. For EVERY strategy, from EVERY entry (o, t) of the unit, the
        recursion of Model/TreeWalk.v reports exactly the selected sub-forest of Spec/ForestSel.v —
        offsets, depths, tags, attribute values: children()/next() at any node return that node's
        children in order whatever subtrees were skipped (DW_AT_sibling fast path or scanning) or left
        half-visited before. Same hypotheses as tree_is_forest: any code assignment, DW_AT_sibling on
        any subset of the entries, null padding. Key lemma: TreeWalkProofs.loop_skip. *)

Theorem tree_any_walk : forall dbg bigend types uoff h codes f pad tbl (sel : strategy) o t,
  let e := mkEnc (uh_version h) (uh_fmt64 h) (uh_asize h) bigend in
  let body := enc_forest codes bigend (header_len h) f pad in
  let hdr := mkUnit e (unit_length_of bigend h (nlen body)) (uh_type h) (uh_abbrev_off h) types uoff body in
  addr_size_ok e -> header_len h + nlen body < two63 ->
  Forall (fun t => tbl_get tbl (t_code codes t) = Some (t_abbrev codes t)) (forest_nodes f) ->
  forest_ok codes e f -> sibs_fit codes (header_len h) f ->
  In (o, t) (on_list (placed codes) (tree_size codes) (header_len h) f) ->
  exists ts, entries_tree dbg hdr (Some o) = Ok ts /\
             walk_tree_plan dbg e tbl sel ts = Ok (sel_tree codes sel 0 o t, None).
Proof.
  intros dbg bigend types uoff h codes f pad tbl sel o t e body hdr He Hlen Hc Hok Hfit Hin.
  exact (TreeWalkProofs.tree_any_walk dbg bigend types uoff h codes f pad tbl He Hlen Hc Hok Hfit sel o t Hin).
Qed.

(* the unit of forest_ex meets the hypotheses (forest_ex); a strategy that visits two of the three
   children of the root and does not descend into them; selecting everything is the preorder *)
Example tree_any_walk_ex :
  let sel : strategy := fun d => if d_offset d =? 11 then Some 2%nat else None in
  In (11, ex_root) (on_list (placed ex_codes) (tree_size ex_codes) (header_len ex_header) ex_forest) /\
  map (fun d => (d_offset d, d_depth d, d_tag d)) (sel_tree ex_codes sel 0 11 ex_root) =
    [(11, 0%Z, 17); (15, 1%Z, 46); (17, 1%Z, 52)] /\
  sel_tree ex_codes (fun _ => Some 3%nat) 0 11 ex_root = preorder ex_codes (header_len ex_header) 0 ex_forest.
Proof. split; [vm_compute; tauto|]. split; vm_compute; reflexivity. Qed.

(* at the root, as the streams call it: entries_tree(None) walks the first top-level entry *)
Theorem tree_any_walk_root : forall dbg bigend types uoff h codes t f pad tbl (sel : strategy),
  let e := mkEnc (uh_version h) (uh_fmt64 h) (uh_asize h) bigend in
  let body := enc_forest codes bigend (header_len h) (t :: f) pad in
  let hdr := mkUnit e (unit_length_of bigend h (nlen body)) (uh_type h) (uh_abbrev_off h) types uoff body in
  addr_size_ok e -> header_len h + nlen body < two63 ->
  Forall (fun t => tbl_get tbl (t_code codes t) = Some (t_abbrev codes t)) (forest_nodes (t :: f)) ->
  forest_ok codes e (t :: f) -> sibs_fit codes (header_len h) (t :: f) ->
  exists ts, entries_tree dbg hdr None = Ok ts /\
             walk_tree_plan dbg e tbl sel ts = Ok (sel_tree codes sel 0 (header_len h) t, None).
Proof.
  intros dbg bigend types uoff h codes t f pad tbl sel e body hdr He Hlen Hc Hok Hfit.
  exact (CursorWalkProofs.tree_any_walk_root dbg bigend types uoff h codes (t :: f) pad tbl He Hlen Hc Hok Hfit sel t f eq_refl).
Qed.

(* the shape on which a wrong depth after the fast path shows, run through the MODEL: the root (offset 11)
   has the children A (12: children, no sibling pointer) and a leaf (18); A's child X (13) has a child and a
   DW_AT_sibling (= 17). The strategy does not descend into A, so EntriesTree::next(1) scans A's subtree,
   jumps from X to 17 — keeping X's depth 2 — reads A's terminator at depth 2, and finds the leaf. (With the
   caller's depth 1 instead, the terminator at 17 would be taken for the end of the root's list.) *)
Definition trap_leaf : tree := Node 52 false [] [].
Definition trap_x : tree := Node 46 false [ISib W1] [trap_leaf].
Definition trap_a : tree := Node 11 false [] [trap_x].
Definition trap_root : tree := Node 17 false [] [trap_a; trap_leaf].
Definition trap_codes : coding := fun tag hc specs => tag.
Definition trap_sel : strategy := fun d => if d_tag d =? 11 then None else Some 5%nat.
Definition trap_body : list byte := enc_forest trap_codes false (header_len ex_header) [trap_root] 0.

Example tree_any_walk_trap :
  trap_body = [x11; x0b; x2e; x11; x34; x00; x00; x34; x00]%byte /\
  exists tbl ts,
    parse_abbrevs true (enc_abbrevs (forest_abbrevs trap_codes [trap_root])) = Ok (tbl, []) /\
    entries_tree true (mkUnit ex_enc (unit_length_of false ex_header (nlen trap_body)) UCompile 0 false 0 trap_body)
                 (Some 11) = Ok ts /\
    walk_tree_plan true ex_enc tbl trap_sel ts = Ok (sel_tree trap_codes trap_sel 0 11 trap_root, None) /\
    map (fun d => (d_offset d, d_depth d, d_tag d)) (sel_tree trap_codes trap_sel 0 11 trap_root) =
      [(11, 0%Z, 17); (12, 1%Z, 11); (18, 1%Z, 52)].
Proof.
  split; [vm_compute; reflexivity|]. eexists. eexists.
  split; [vm_compute; reflexivity|]. split; [vm_compute; reflexivity|]. split; vm_compute; reflexivity.
Qed.

(* (6c) the same for the cloned-cursor recursion (clone the cursor on an entry, next_entry to its
        first child, next_sibling along the child list — Model/TreeWalk.v cwalk_list): for EVERY strategy
        and every budget n of top-level entries the entries visited are the selected sub-forest of the
        unit's forest. Every next_sibling in it starts on an entry whose subtree holds any mixture of
        entries with and without DW_AT_sibling and lands on the root entry of the following sibling, or
        returns None at the list terminator / the end of the unit (CursorWalkProofs.next_sibling_next /
        next_sibling_end over NavProofs.skip_tree). *)
Theorem cursor_walk : forall dbg bigend types uoff h codes f pad tbl (sel : strategy) n,
  let e := mkEnc (uh_version h) (uh_fmt64 h) (uh_asize h) bigend in
  let body := enc_forest codes bigend (header_len h) f pad in
  let hdr := mkUnit e (unit_length_of bigend h (nlen body)) (uh_type h) (uh_abbrev_off h) types uoff body in
  addr_size_ok e -> header_len h + nlen body < two63 ->
  Forall (fun t => tbl_get tbl (t_code codes t) = Some (t_abbrev codes t)) (forest_nodes f) ->
  forest_ok codes e f -> sibs_fit codes (header_len h) f ->
  exists c, entries dbg hdr = Ok c /\
            walk_cursor dbg e tbl sel n c = Ok (sel_list codes sel 0 (header_len h) n f, None).
Proof.
  intros dbg bigend types uoff h codes f pad tbl sel n e body hdr He Hlen Hc Hok Hfit.
  exact (CursorWalkProofs.cursor_walk dbg bigend types uoff h codes f pad tbl He Hlen Hc Hok Hfit sel n).
Qed.

Example cursor_walk_ex :
  let sel : strategy := fun d => if d_offset d =? 11 then Some 2%nat else None in
  map (fun d => (d_offset d, d_depth d, d_tag d)) (sel_list ex_codes sel 0 (header_len ex_header) 5 ex_forest) =
    [(11, 0%Z, 17); (15, 1%Z, 46); (17, 1%Z, 52)] /\
  sel_list ex_codes (fun _ => Some 3%nat) 0 (header_len ex_header) 1 ex_forest =
    preorder ex_codes (header_len ex_header) 0 ex_forest.
Proof. split; vm_compute; reflexivity. Qed.

(* (6d) malformed DW_AT_sibling values, for EVERY reader state and EVERY entry (no well-formedness):
        the attribute is consulted only by the fast path DieRd.sibling_jump at the top of the loops of
        next_sibling and EntriesTree::next. It is IGNORED (the reader is left untouched, so the
        iteration is the scanning one: tree_loop_ignored / sibling_loop_ignored) when the entry has no
        children, the attribute is missing, its normalised value is not a unit reference (DW_FORM_data*,
        udata, ref_addr, sec_offset, ...), the reference is backward or the entry's own offset, it points
        before the reader (into the entry's own bytes), or beyond the end of the unit. EVERY other value
        — a unit reference after the entry, at or after the reader, up to and including the end of the
        unit — is BELIEVED: the reader moves there with the entry's depth (a forward offset into the
        middle of the subtree, into the middle of an entry, past the true sibling, or exactly the end of
        the unit changes what the traversal reports; only the value enc_forest writes is correct). The two
        classes are complementary. Lifting the ignored class to whole traversals of an encoder that
        writes wrong values is not done (correspondence: c02.nav). *)
Theorem bad_sibling_ignored : forall dbg r cur,
  nlen (r_in r) <= r_end r ->
  (SibBadProofs.sib_ignored r cur -> sibling_jump dbg r cur = Ok r) /\
  (forall o, d_children cur = true -> die_attr_value cur DW_AT_sibling = Some (VUnitRef o) -> d_offset cur < o ->
     r_end r - nlen (r_in r) <= o <= r_end r ->
     sibling_jump dbg r cur =
     Ok (mkRaw (skipn (N.to_nat (o - (r_end r - nlen (r_in r)))) (r_in r)) (r_end r) (d_depth cur))) /\
  (SibBadProofs.sib_ignored r cur \/
   exists o, d_children cur = true /\ die_attr_value cur DW_AT_sibling = Some (VUnitRef o) /\ d_offset cur < o /\
             r_end r - nlen (r_in r) <= o <= r_end r).
Proof.
  intros dbg r cur Hle. split; [exact (SibBadProofs.bad_sibling_ignored dbg r cur Hle)|].
  split; [intros o; exact (SibBadProofs.sibling_believed dbg r cur o Hle)|exact (SibBadProofs.sibling_classes r cur Hle)].
Qed.

Theorem bad_sibling_loops : forall k dbg e tbl,
  (forall depth t, nlen (r_in (tr_raw t)) <= r_end (tr_raw t) -> SibBadProofs.sib_ignored (tr_raw t) (tr_entry t) ->
     tree_next_loop (S k) dbg e tbl depth t =
     if raw_is_empty (tr_raw t) then Ok (TOk false (mkTree (tr_root t) (tr_raw t) (set_null (tr_entry t)))) else
     match read_entry dbg e tbl (tr_raw t) with
     | Ok (ok, d, r2) =>
         if (d_depth d =? depth)%Z then Ok (TOk ok (mkTree (tr_root t) r2 d))
         else tree_next_loop k dbg e tbl depth (mkTree (tr_root t) r2 d)
     | Err x => tree_fail dbg (mkTree (tr_root t) (tr_raw t) (tr_entry t)) x
     | Panic => Panic
     | OutOfFuel => OutOfFuel
     end) /\
  (forall T c, nlen (r_in (c_raw c)) <= r_end (c_raw c) -> SibBadProofs.sib_ignored (c_raw c) (c_cur c) ->
     sibling_loop (S k) dbg e tbl T c =
     let* s := next_entry dbg e tbl c in
     match s with
     | SErr x c' => Ok (SErr x c')
     | SOk false c' => Ok (SOk None c')
     | SOk true c' =>
         if (d_depth (c_cur c') =? T)%Z then Ok (SOk (current c') c') else sibling_loop k dbg e tbl T c'
     end).
Proof.
  intros k dbg e tbl. split.
  - intros depth t. exact (SibBadProofs.tree_loop_ignored k dbg e tbl depth t).
  - intros T c. exact (SibBadProofs.sibling_loop_ignored k dbg e tbl T c).
Qed.

(* an entry at offset 20 with children, the reader at offset 24 of a unit ending at 40: a DW_FORM_ref4
   sibling value 20 (self), 22 (inside the entry), 41 (out of range) and a DW_FORM_data4 value are
   ignored; 30 is believed *)
Example bad_sibling_ex :
  let r := mkRaw (repeat x00 16) 40 3 in
  let ent v := mkDie 20 2 17 true [(mkSpec 1 19 0, v)] in
  SibBadProofs.sib_ignored r (ent (VUnitRef 20)) /\ SibBadProofs.sib_ignored r (ent (VUnitRef 22)) /\
  SibBadProofs.sib_ignored r (ent (VUnitRef 41)) /\ SibBadProofs.sib_ignored r (ent (VData4 30)) /\
  sibling_jump true r (ent (VUnitRef 30)) = Ok (mkRaw (repeat x00 10) 40 2).
Proof.
  cbv zeta. unfold SibBadProofs.sib_ignored.
  split; [right; vm_compute; left; discriminate|].
  split; [right; vm_compute; right; left; reflexivity|].
  split; [right; vm_compute; right; right; reflexivity|].
  split; [right; vm_compute; exact I|].
  vm_compute. reflexivity.
Qed.

(* (6e) WHOLE traversals of units with wrong DW_AT_sibling values — PARTIAL.
        SibOvProofs.enc_forest_ov = the encoder enc_forest with a per-entry override `ov : offset -> option N`
        of the value written into the entry's DW_AT_sibling slots (same form and width: DW_FORM_ref1/2/4/8;
        sibs_fit_ov: the value fits the width), so no length and no offset changes (first conjunct; with
        ov = none it is enc_forest: SibOvProofs.enc_tree_ov_none). The full depth-first cursor walk of
        dfs_is_preorder (next_dfs loop) reports preorder_ov = preorder f with the overridden value shown in
        those slots — every offset, depth, tag, children flag and every other attribute as in preorder f.
        next_dfs never consults the attribute, so this half holds for EVERY override value, in particular for
        all of the ignored class (backward, self, inside the entry, beyond the unit end).
        The tree walk and the next_sibling walk follow below (bad_sibling_full_walk_tree_partial,
        bad_sibling_full_walk). *)
Theorem bad_sibling_full_walk_partial : forall dbg bigend types uoff h codes (ov : N -> option N) f pad tbl,
  let e := mkEnc (uh_version h) (uh_fmt64 h) (uh_asize h) bigend in
  let body := SibOvProofs.enc_forest_ov codes ov bigend (header_len h) f pad in
  let hdr := mkUnit e (unit_length_of bigend h (nlen body)) (uh_type h) (uh_abbrev_off h) types uoff body in
  addr_size_ok e -> header_len h + nlen body < two63 ->
  Forall (fun t => tbl_get tbl (t_code codes t) = Some (t_abbrev codes t)) (forest_nodes f) ->
  forest_ok codes e f -> SibOvProofs.sibs_fit_ov codes ov (header_len h) f ->
  nlen body = nlen (enc_forest codes bigend (header_len h) f pad) /\
  exists c, entries dbg hdr = Ok c /\
            dfs_all (cursor_fuel c) dbg e tbl c = Ok (SibOvProofs.preorder_ov codes ov (header_len h) 0 f, None).
Proof.
  intros dbg bigend types uoff h codes ov f pad tbl e body hdr He Hlen Hc Hok Hfit. split.
  - exact (SibOvProofs.enc_forest_ov_len codes ov bigend (header_len h) f pad).
  - exact (SibOvProofs.dfs_ov dbg bigend types uoff h codes ov f pad tbl He Hlen Hc Hok Hfit).
Qed.

(* the tree walk of tree_is_forest (children() of every node, entries_tree(None)) over the same units: it
   rebuilds the tree with the overridden value shown in the DW_AT_sibling slots (dtree_ov). A walk that
   iterates every child list calls EntriesTree::next only on entries without children or on list
   terminators, so the fast path never runs: EVERY override value, the ignored class included.
   The next_sibling walk, which consults the attribute, is bad_sibling_full_walk below. *)
Theorem bad_sibling_full_walk_tree_partial : forall dbg bigend types uoff h codes (ov : N -> option N) t f pad tbl,
  let e := mkEnc (uh_version h) (uh_fmt64 h) (uh_asize h) bigend in
  let body := SibOvProofs.enc_forest_ov codes ov bigend (header_len h) (t :: f) pad in
  let hdr := mkUnit e (unit_length_of bigend h (nlen body)) (uh_type h) (uh_abbrev_off h) types uoff body in
  addr_size_ok e -> header_len h + nlen body < two63 ->
  Forall (fun t => tbl_get tbl (t_code codes t) = Some (t_abbrev codes t)) (forest_nodes (t :: f)) ->
  forest_ok codes e (t :: f) -> SibOvProofs.sibs_fit_ov codes ov (header_len h) (t :: f) ->
  exists ts, entries_tree dbg hdr None = Ok ts /\
             walk_tree dbg e tbl ts = Ok (Some (SibOvTreeProofs.dtree_ov codes ov 0 (header_len h) t), None).
Proof.
  intros dbg bigend types uoff h codes ov t f pad tbl e body hdr He Hlen Hc Hok Hfit.
  exact (SibOvTreeProofs.tree_ov dbg bigend types uoff h codes ov t f pad tbl He Hlen Hc Hok Hfit).
Qed.

(* the walk that CONSULTS the attribute: next_entry to the first top-level entry, then next_sibling until
   None. The DW_AT_sibling values of ANY subset of the entries (at any depth: every subtree the walk passes
   over) are replaced by values of the IGNORED class — SibOvSibProofs.ig: backward or the entry itself
   (w <= offset), inside the entry's own bytes (w < offset of its first child / end of its attributes), or
   beyond the end of the unit (header_len + |body| < w); the remaining entries keep the correct value. The
   walk still returns exactly the root entries of the following top-level siblings (roots_ov = roots f with
   the overridden value shown in the slots), then None: overridden entries are scanned
   (bad_sibling_ignored), correct ones may jump, both reach the state behind the subtree
   (SibOvSibProofs.skip_tree_ov). Not covered: a non-reference FORM in the slot (the override keeps
   DW_FORM_ref1/2/4/8, so lengths are unchanged), next_sibling started from an inner entry's list and the
   cloned-cursor recursion over overridden units (the step lemmas skip_tree_ov / siblings_iter_ov are stated
   for any depth and offset). *)
Theorem bad_sibling_full_walk : forall dbg bigend types uoff h codes (ov : N -> option N) t f pad tbl,
  let e := mkEnc (uh_version h) (uh_fmt64 h) (uh_asize h) bigend in
  let body := SibOvProofs.enc_forest_ov codes ov bigend (header_len h) (t :: f) pad in
  let hdr := mkUnit e (unit_length_of bigend h (nlen body)) (uh_type h) (uh_abbrev_off h) types uoff body in
  addr_size_ok e -> header_len h + nlen body < two63 ->
  Forall (fun t => tbl_get tbl (t_code codes t) = Some (t_abbrev codes t)) (forest_nodes (t :: f)) ->
  forest_ok codes e (t :: f) -> SibOvProofs.sibs_fit_ov codes ov (header_len h) (t :: f) ->
  Forall (SibOvSibProofs.ig codes ov (header_len h + nlen body))
         (on_list (placed codes) (tree_size codes) (header_len h) (t :: f)) ->
  exists c c1, entries dbg hdr = Ok c /\ next_entry dbg e tbl c = Ok (SOk true c1) /\
               c_cur c1 = SibOvProofs.root_die_ov codes ov (header_len h) 0 t /\
               siblings_all (cursor_fuel c1) dbg e tbl c1 =
                 Ok (SibOvSibProofs.roots_ov codes ov (header_len h + tree_size codes t) 0 f, None).
Proof.
  intros dbg bigend types uoff h codes ov t f pad tbl e body hdr He Hlen Hc Hok Hfit Hig.
  exact (SibOvSibProofs.siblings_ov dbg bigend types uoff h codes ov t f pad tbl He Hlen Hc Hok Hfit Hig).
Qed.

(* ex_root (offset 11) carries a DW_FORM_ref1 DW_AT_sibling; overridden by 11 (the entry itself) only the
   byte of that slot changes (0x1a -> 0x0b) and the reported entry shows the overridden value *)
Example bad_sibling_full_walk_ex :
  let ov := fun o => if o =? 11 then Some 11 else None in
  SibOvProofs.enc_forest_ov ex_codes ov false (header_len ex_header) ex_forest 1 =
    [xe8;x07; x0b; x2a;  x03; x2a;  x85;x80;x80;x80;x10; x00;  x03; x2a;  x00;  x00]%byte /\
  SibOvProofs.sibs_fit_ov ex_codes ov (header_len ex_header) ex_forest /\
  SibOvSibProofs.ig ex_codes ov 27 (11, ex_root) /\
  map d_offset (SibOvProofs.preorder_ov ex_codes ov (header_len ex_header) 0 ex_forest) = [11; 15; 17; 23] /\
  SibOvProofs.preorder_ov ex_codes (fun _ => None) (header_len ex_header) 0 ex_forest =
    preorder ex_codes (header_len ex_header) 0 ex_forest.
Proof.
  split; [vm_compute; reflexivity|]. split; [|split; [left; vm_compute; discriminate|split; vm_compute; reflexivity]].
  unfold SibOvProofs.sibs_fit_ov.
  replace (on_list (placed ex_codes) (tree_size ex_codes) (header_len ex_header) ex_forest)
    with [(11, ex_root); (15, ex_k1); (17, ex_k2); (23, ex_k1)] by (vm_compute; reflexivity).
  repeat (apply Forall_cons); try apply Forall_nil; unfold SibOvProofs.fits_ov; cbn [fst snd t_items ex_root ex_k1 ex_k2];
    repeat (apply Forall_cons); try apply Forall_nil; try exact I.
  vm_compute. reflexivity.
Qed.

(* ------------------------------------------------------------------ *)
(* (7) no step panics or exhausts the model's fuel, on ANY input, in both build modes (feeds C01).
       NavProofs.cursor_ok / tree_ok is the reader invariant "remaining input <= end offset, and
       |depth| + remaining input < 2^63"; every cursor the API creates over a slice shorter than
       2^63 bytes satisfies it (cursor_invariant_holds) and every step preserves it. *)

Theorem no_panic : forall dbg e tbl,
  (forall bs, parse_abbrevs dbg bs <> Panic /\ parse_abbrevs dbg bs <> OutOfFuel) /\
  (forall sec off, abbreviations_at dbg sec off <> Panic /\ abbreviations_at dbg sec off <> OutOfFuel) /\
  (forall bigend types uoff bs,
     parse_unit_header bigend types uoff bs <> Panic /\ parse_unit_header bigend types uoff bs <> OutOfFuel) /\
  (forall bigend types sec, nlen sec < two64 ->
     units dbg bigend types sec <> Panic /\ units dbg bigend types sec <> OutOfFuel) /\
  (forall c, NavProofs.cursor_ok c ->
     match next_entry dbg e tbl c with
     | Ok (SOk _ c') | Ok (SErr _ c') => NavProofs.cursor_ok c' | _ => False end /\
     match next_dfs (cursor_fuel c) dbg e tbl c with
     | Ok (SOk _ c') | Ok (SErr _ c') => NavProofs.cursor_ok c' | _ => False end /\
     match next_sibling (cursor_fuel c) dbg e tbl c with
     | Ok (SOk _ c') | Ok (SErr _ c') => NavProofs.cursor_ok c' | _ => False end) /\
  (forall t, NavProofs.tree_ok t ->
     match tree_root dbg e tbl t with Ok t' => NavProofs.tree_ok t' | Err _ => True | _ => False end /\
     forall depth, ((d_depth (tr_entry t) < depth)%Z -> (d_depth (tr_entry t) + 1 = depth)%Z) ->
       match tree_next (tree_fuel t) dbg e tbl depth t with
       | Ok (TOk _ t') | Ok (TErr _ t') => NavProofs.tree_ok t' | _ => False end).
Proof.
  intros dbg e tbl. split; [exact (AbbrevRdProofs.parse_abbrevs_res dbg)|].
  split; [exact (AbbrevRdProofs.abbreviations_at_res dbg)|].
  split; [exact NavProofs.parse_unit_header_res|].
  split; [exact (NavProofs.units_total dbg)|]. split.
  - intros c Hc. split; [|split].
    + pose proof (NavProofs.next_entry_inv dbg e tbl c Hc) as H.
      destruct (next_entry dbg e tbl c) as [[[|] c'|x c']| | |]; tauto.
    + pose proof (NavProofs.next_dfs_inv dbg e tbl (cursor_fuel c) c Hc ltac:(unfold cursor_fuel; apply le_n)) as H.
      destruct (next_dfs (cursor_fuel c) dbg e tbl c) as [[o c'|x c']| | |]; tauto.
    + unfold next_sibling. destruct (current c); [|exact Hc].
      exact (NavProofs.sibling_loop_inv dbg e tbl (d_depth d) (cursor_fuel c) c Hc ltac:(unfold cursor_fuel; apply le_n)).
  - intros t Ht. split; [exact (NavProofs.tree_root_total dbg e tbl t Ht)|].
    intros depth Hreq. exact (NavProofs.tree_next_total dbg e tbl depth t Ht Hreq).
Qed.

Theorem cursor_invariant_holds : forall dbg input offset c,
  offset + nlen input < two63 -> cursor_new dbg input offset = Ok c -> NavProofs.cursor_ok c.
Proof. exact NavProofs.cursor_new_ok. Qed.

Example no_panic_ex :
  NavProofs.cursor_ok (mkCur (mkRaw [xff; x00; x01]%byte 100 (-7)) null_die) /\
  parse_abbrevs true [x80]%byte = Err EUnexpectedEof.
Proof.
  split; [|reflexivity]. unfold NavProofs.cursor_ok, NavProofs.state_ok, DieRdProofs.depth_ok.
  cbn [c_raw c_cur r_in r_end r_depth null_die d_depth]. vm_compute. intuition discriminate.
Qed.

(* statement pins *)
Check cursor_walk : forall dbg bigend types uoff h codes f pad tbl (sel : die -> option nat) n,
  let e := mkEnc (uh_version h) (uh_fmt64 h) (uh_asize h) bigend in
  let body := enc_forest codes bigend (header_len h) f pad in
  let hdr := mkUnit e (unit_length_of bigend h (nlen body)) (uh_type h) (uh_abbrev_off h) types uoff body in
  addr_size_ok e -> header_len h + nlen body < two63 ->
  Forall (fun t => tbl_get tbl (t_code codes t) = Some (t_abbrev codes t)) (forest_nodes f) ->
  forest_ok codes e f -> sibs_fit codes (header_len h) f ->
  exists c, entries dbg hdr = Ok c /\
            walk_cursor dbg e tbl sel n c = Ok (sel_list codes sel 0 (header_len h) n f, None).
Check tree_any_walk : forall dbg bigend types uoff h codes f pad tbl (sel : die -> option nat) o t,
  let e := mkEnc (uh_version h) (uh_fmt64 h) (uh_asize h) bigend in
  let body := enc_forest codes bigend (header_len h) f pad in
  let hdr := mkUnit e (unit_length_of bigend h (nlen body)) (uh_type h) (uh_abbrev_off h) types uoff body in
  addr_size_ok e -> header_len h + nlen body < two63 ->
  Forall (fun t => tbl_get tbl (t_code codes t) = Some (t_abbrev codes t)) (forest_nodes f) ->
  forest_ok codes e f -> sibs_fit codes (header_len h) f ->
  In (o, t) (on_list (placed codes) (tree_size codes) (header_len h) f) ->
  exists ts, entries_tree dbg hdr (Some o) = Ok ts /\
             walk_tree_plan dbg e tbl sel ts = Ok (sel_tree codes sel 0 o t, None).
Check abbrev_dup_rejected : forall dbg ds rest,
  Forall abbrev_ok ds -> ~ NoDup (map ab_code ds) ->
  parse_abbrevs dbg (enc_decls ds ++ rest) = Err EDuplicateAbbreviationCode.
Check raw_is_preorder : forall dbg bigend types uoff h codes f pad tbl,
  let e := mkEnc (uh_version h) (uh_fmt64 h) (uh_asize h) bigend in
  let body := enc_forest codes bigend (header_len h) f pad in
  addr_size_ok e -> header_len h + nlen body < two63 -> body <> [] ->
  Forall (fun t => tbl_get tbl (t_code codes t) = Some (t_abbrev codes t)) (forest_nodes f) ->
  forest_ok codes e f -> sibs_fit codes (header_len h) f ->
  read_all_raw dbg (mkUnit e (unit_length_of bigend h (nlen body)) (uh_type h) (uh_abbrev_off h) types uoff body)
               tbl None
  = Ok (raw_seq codes (header_len h) f pad, None)
  /\ filter (fun d => negb (d_tag d =? 0)) (raw_seq codes (header_len h) f pad) = preorder codes (header_len h) 0 f.
Check abbrev_get : forall dbg ds tail rest,
  Forall abbrev_ok ds -> NoDup (map ab_code ds) ->
  (tail = [] /\ rest = [] \/ tail = x00 :: rest) ->
  exists t, parse_abbrevs dbg (enc_decls ds ++ tail) = Ok (t, rest) /\
            (forall c, tbl_get t c = find (fun a => ab_code a =? c) ds) /\
            (forall a, In a ds -> tbl_get t (ab_code a) = Some a) /\
            (forall c a, tbl_get t c = Some a -> In a ds /\ ab_code a = c).
