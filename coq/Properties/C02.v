(* placeholder until Proofs/DieRdProofs.v lands: keeps the pipeline end-to-end *)
From Coq Require Import List NArith.
Require Import GV.Spec.Forest GV.Model.AbbrevRd GV.Model.DieRd.
Theorem c02_placeholder : True. Proof. exact I. Qed.
