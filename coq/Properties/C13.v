(* placeholder until Proofs/LineWrProofs.v lands: keeps the pipeline end-to-end *)
Require Import GV.Model.LineWr GV.Spec.LineAdvSpec.
Theorem c13_placeholder : True. Proof. exact I. Qed.
