(* Properties/C13.v — "Written line programs read back to exactly the rows that were generated".
   Model: Model/LineWr.v (write::LineProgram), yardstick: Spec/LineAdvSpec.v (DWARF line state machine over Z).
   Every theorem below is `exact` a lemma of Proofs/LineWrProofs.v or Proofs/LineWrSeqProofs.v. *)
From Coq Require Import List NArith ZArith Bool Lia.
From Coq.Strings Require Import Byte.
Require Import GV.Base.Res GV.Base.Byt GV.Base.Ints.
Require Import GV.Spec.LineAdvSpec GV.Model.LineWr GV.Proofs.LineWrProofs GV.Proofs.LineWrSeqProofs.
Require GV.Spec.LineSpec GV.Model.LineRd GV.Proofs.LineRdRefine GV.Proofs.LineRtBytes GV.Proofs.LineRtRows
        GV.Proofs.LineRtScript GV.Proofs.LineRoundtrip GV.Proofs.LineRoundtrip5.
Import ListNotations.

(* ---------------------------------------------------------------------------------------------
   1. advance_correct — the opcode selection of generate_row (code as of /repo a8af08f, i.e. after
   fix eea5f40 of F9 and of the special opcode > 255 for line_range >= 244, and fix c8c5891 of the
   overflowing `special + op_advance * line_range` fit test, all of which this check reproduced on the
   earlier trees).
   For EVERY LineEncoding with the documented precondition line_base <= 0 < line_base + line_range
   (enc_ok: line_base in -128..0, line_range in 1..255, min_inst_len >= 1, max_ops >= 1), both build
   modes, every i64 line advance and EVERY u64 operation advance (no arithmetic-range hypothesis left),
   the instructions emitted (special only / advance_line + special / const_add_pc + special /
   advance_pc + special or copy) never panic — in particular `op_advance - op_range` never underflows
   and no debug assertion fails —, contain only special opcodes in 13..255, and executed on the DWARF
   state machine from any registers advance the line by exactly line_adv, apply exactly the operation
   advance op_adv (address/op_index incl. VLIW), and append exactly one row. *)
Theorem advance_correct : forall (dbg : bool) (l : lenc) (ladv : Z) (oadv : N),
  enc_ok l -> i64 ladv ->
  exists insns,
    advance_insns dbg l ladv oadv = Ok insns /\
    Forall special_ok insns /\
    forall ver r, regs_ok (params_of l) r ->
      run (params_of l) (map (denote ver) insns) r =
      ([op_adv (params_of l) (Z.of_N oadv) (line_adv ladv r)],
       after_row (params_of l) (op_adv (params_of l) (Z.of_N oadv) (line_adv ladv r))).
Proof. exact LineWrProofs.advance_correct. Qed.

(* the hypotheses are satisfiable by non-trivial instances: gimli's default encoding, and the extreme
   encodings (line_range 255, line_base -128, VLIW) *)
Example advance_correct_hyps_default :
  enc_ok (mkLenc 1 1 true (-5) 14) /\ i64 (-300) /\
  regs_ok (params_of (mkLenc 1 1 true (-5) 14)) (init_regs (params_of (mkLenc 1 1 true (-5) 14))).
Proof. unfold enc_ok, i64, regs_ok; cbn; lia. Qed.
Example advance_correct_hyps_extreme :
  enc_ok (mkLenc 4 4 false (-128) 255) /\ enc_ok (mkLenc 2 4 true 0 1) /\ enc_ok (mkLenc 1 1 true (-128) 129).
Proof. unfold enc_ok; cbn; lia. Qed.
(* and the theorem computes: line advance -7, operation advance 20 under the default encoding is
   DW_LNS_advance_line(-7), DW_LNS_const_add_pc, special; with line_range 250 the line advance 115 (which
   would need special opcode 256) falls back to DW_LNS_advance_line *)
Example advance_insns_sample :
  advance_insns true (mkLenc 1 1 true (-5) 14) (-7) 20 = Ok [IAdvanceLine (-7); IConstAddPc; ISpecial 60].
Proof. vm_compute. reflexivity. Qed.
Example advance_insns_sample_250 :
  advance_insns false (mkLenc 1 1 true (-128) 250) 115 0 = Ok [IAdvanceLine 115; ICopy].
Proof. vm_compute. reflexivity. Qed.

(* the former overflow witness (operation advance 2^64/100 + 1 with line_range 100) now takes DW_LNS_advance_pc *)
Example advance_insns_sample_huge :
  forall dbg, advance_insns dbg (mkLenc 1 1 true (-1) 100) 0 184467440737095517
              = Ok [IAdvancePc 184467440737095517; ICopy].
Proof. intros []; vm_compute; reflexivity. Qed.

(* ---------------------------------------------------------------------------------------------
   2. LineProgram::new accepts exactly its documented precondition (F9 repaired by eea5f40). *)
Theorem new_accepts_documented : forall l, enc_ok l ->
  (le_line_base l <=? 0)%Z = true /\ (0 <? le_line_base l + Z.of_N (le_line_range l))%Z = true.
Proof. exact new_asserts_pass. Qed.

Theorem new_panics_outside_documented : forall dbg e l wd sd sf info,
  (0 < le_line_base l \/ le_line_base l + Z.of_N (le_line_range l) <= 0)%Z ->
  lp_new dbg e l wd sd sf info = Panic.
Proof. exact new_panics_outside_precondition. Qed.

Theorem new_fresh_program : forall dbg l, enc_ok l ->
  lp_new dbg enc_v4 l (LStr [x64]) None (LStr [x66]) None = Ok (fresh l).
Proof. exact fresh_is_new. Qed.

(* ---------------------------------------------------------------------------------------------
   3. row_fields — discriminator / basic_block / prologue_end / epilogue_begin are set for the row
   (and cleared afterwards: see generate_row_correct), negate_stmt has the right parity, file (raw per
   version), column and isa end up as the row's; each of the persistent ones is emitted iff it differs. *)
Theorem row_fields : forall ver p row prev r,
  synced ver prev r ->
  run p (map (denote ver) (field_insns row prev)) r = ([], fields_set ver row r).
Proof. exact LineWrProofs.row_fields. Qed.

Theorem row_fields_file_iff : forall row prev f,
  In (ISetFile f) (field_insns row prev) <-> (f = w_file row /\ w_file row <> w_file prev).
Proof. exact field_insns_set_file. Qed.
Theorem row_fields_column_iff : forall row prev c,
  In (ISetColumn c) (field_insns row prev) <-> (c = w_column row /\ w_column row <> w_column prev).
Proof. exact field_insns_set_column. Qed.
Theorem row_fields_isa_iff : forall row prev c,
  In (ISetIsa c) (field_insns row prev) <-> (c = w_isa row /\ w_isa row <> w_isa prev).
Proof. exact field_insns_set_isa. Qed.
Theorem row_fields_negate_iff : forall row prev,
  In INegateStatement (field_insns row prev) <-> w_is_statement row <> w_is_statement prev.
Proof. exact field_insns_negate. Qed.

Example synced_initial : synced 4 (wrow_initial enc_v4 lenc_default) (init_regs (params_of lenc_default)).
Proof. unfold synced; cbn; repeat split; reflexivity. Qed.

(* ---------------------------------------------------------------------------------------------
   4. op_advance_vliw — the operation advance computed by op_advance is turned back by the reader
   into exactly (address + (offset - previous offset), the row's op_index). *)
Theorem op_advance_value_computed : forall dbg l row prev,
  enc_ok l ->
  step_ok l (w_address_offset prev) (w_op_index prev) (w_address_offset row) (w_op_index row) ->
  ((w_address_offset row - w_address_offset prev) / le_min_len l * le_max_ops l + w_op_index row
     < 18446744073709551616)%N ->
  op_advance dbg l row prev =
    Ok (op_advance_value l (w_address_offset prev) (w_op_index prev) (w_address_offset row) (w_op_index row)).
Proof. exact op_advance_ok. Qed.

Theorem op_advance_vliw : forall l pao popi ao opi r,
  enc_ok l -> step_ok l pao popi ao opi -> r_op_index r = Z.of_N popi ->
  op_adv (params_of l) (Z.of_N (op_advance_value l pao popi ao opi)) r =
  mkRegs (r_address r + (Z.of_N ao - Z.of_N pao)) (Z.of_N opi) (r_file r) (r_line r) (r_column r)
         (r_is_stmt r) (r_basic_block r) (r_end_sequence r) (r_prologue_end r) (r_epilogue_begin r)
         (r_isa r) (r_discriminator r).
Proof. exact LineWrSeqProofs.op_advance_vliw. Qed.

Example step_ok_vliw : step_ok (mkLenc 4 4 true (-5) 14) 8 3 16 1.
Proof. unfold step_ok; cbn. repeat split; try reflexivity; try lia. Qed.

(* ---------------------------------------------------------------------------------------------
   5. one generate_row / end_sequence call, and seq_reset. *)
Theorem generate_row_correct : forall dbg p row ver r,
  enc_ok (p_lenc p) ->
  synced ver (p_prev p) r -> row_ok (p_lenc p) (p_prev p) row ->
  exists new,
    generate_row dbg (set_row row p) =
      Ok (set_prev (clear_row_flags row) (set_row (clear_row_flags row)
            (push_insns new (set_in_seq true (set_row row p))))) /\
    Forall special_ok new /\
    run (params_of (p_lenc p)) (map (denote ver) new) r =
      ([row_regs ver r (w_address_offset (p_prev p)) row],
       after_row (params_of (p_lenc p)) (row_regs ver r (w_address_offset (p_prev p)) row)) /\
    synced ver (clear_row_flags row)
           (after_row (params_of (p_lenc p)) (row_regs ver r (w_address_offset (p_prev p)) row)).
Proof. exact LineWrSeqProofs.generate_row_correct. Qed.

Theorem end_sequence_correct : forall dbg p off opi ver r,
  enc_ok (p_lenc p) -> synced ver (p_prev p) r -> end_ok (p_lenc p) (p_prev p) off opi ->
  exists new,
    end_sequence dbg (set_row (with_op_index (p_row p) opi) p) off =
      Ok (set_prev (wrow_initial (p_enc p) (p_lenc p)) (set_row (wrow_initial (p_enc p) (p_lenc p))
            (push_insns new (set_in_seq false (set_row (with_op_index (p_row p) opi) p))))) /\
    Forall special_ok new /\
    run (params_of (p_lenc p)) (map (denote ver) new) r =
      ([end_regs r (w_address_offset (p_prev p)) off opi], init_regs (params_of (p_lenc p))).
Proof. exact LineWrSeqProofs.end_sequence_correct. Qed.

(* after end_sequence the writer's prev_row and the reader's registers are both initial, and agree *)
Theorem seq_reset : forall e l, (e_version e <= 5)%N ->
  synced (e_version e) (wrow_initial e l) (init_regs (params_of l)).
Proof. exact LineWrSeqProofs.seq_reset. Qed.

(* ---------------------------------------------------------------------------------------------
   6. program_roundtrip.
   FULL statement of the design (not proved as one theorem):
       rows (LineRd.read (LineWr.write script)) = meaning script, and files/dirs (name, dir, timestamp,
       size, md5, source) read back, v2-5, both formats, all three string forms in v5.
   PROVED (program_roundtrip_partial): the instruction-level half — for every program created by
   LineProgram::new with a documented encoding, and every script of begin_sequence /
   set_address / row+generate_row / end_sequence calls that respects script_ok (offsets do not decrease
   and are multiples of min_inst_len, op_index < max_ops, the operation pointer does not go back, and the
   operation advance `address_advance * max_ops + op_index` fits a u64 — the one remaining known finding;
   ANY u64 line numbers, set_address at any op_index), the writer succeeds, emits only
   special opcodes 13..255, and the emitted instruction list executed on the DWARF state machine yields
   exactly the rows the script means (address = previous address + offset difference, i.e. sequence base
   + offset since the base; all other registers verbatim; end_sequence rows; registers reset).
   MISSING for the full statement: that gimli's byte encoding of the header, the file/directory tables
   and each instruction (LineInstruction::write, LEB128, write_udata) is decoded back to the same
   instruction list by the reader model of property C04 — decided by correspondence only: streams
   c13.grid / c13.prog compare bytes(gimli) = bytes(model) and let gimli's own reader read them back. *)
Theorem program_roundtrip_partial : forall dbg e l wd sd sf info p ops,
  enc_ok l -> (e_version e <= 5)%N ->
  lp_new dbg e l wd sd sf info = Ok p ->
  script_ok e l (wrow_initial e l) false ops ->
  exists p',
    apply_rops dbg p ops = Ok p' /\
    Forall special_ok (p_insns p') /\
    rows_of (params_of l) (map (denote (e_version e)) (p_insns p')) =
      fst (meaning (e_version e) (params_of l) (init_regs (params_of l), 0%N) ops).
Proof. exact program_rows_correct. Qed.

(* the hypotheses are met by a non-trivial script: two sequences, VLIW, mid-sequence set_address *)
Example program_roundtrip_hyps :
  enc_ok lenc_vliw /\ (e_version enc_v4 <= 5)%N /\
  lp_new false enc_v4 lenc_vliw (LStr [x64]) None (LStr [x66]) None = Ok (fresh lenc_vliw) /\
  script_ok enc_v4 lenc_vliw (wrow_initial enc_v4 lenc_vliw) false ops_example.
Proof.
  split; [unfold enc_ok, lenc_vliw; cbn; lia|].
  split; [cbn; lia|]. split; [vm_compute; reflexivity | exact ops_example_ok].
Qed.

(* the harness operations (Model.LineWr.run_op) are exactly these writer calls *)
Theorem harness_end_is_end_sequence : forall dbg st off opi,
  run_op dbg st (OEnd off opi) =
  (let* p' := apply_rop dbg (st_prog st) (REnd off opi) in
   Ok (mkSstate p' (st_ls st) (st_ss st) (st_dids st) (st_fids st))).
Proof. exact run_op_end. Qed.

(* directories / files / flags never touch the row machinery *)
Theorem add_file_keeps_rows : forall p f dir info p' id,
  add_file p f dir info = Ok (p', id) -> same_rows p p'.
Proof. exact add_file_same_rows. Qed.
Theorem add_directory_keeps_rows : forall p d p' id,
  add_directory p d = Ok (p', id) -> same_rows p p'.
Proof. exact add_directory_same_rows. Qed.

(* the inputs that were refutation witnesses before fixes 4a025e8 and 64c2c71 now read back:
   line 20 -> 2^64-1 -> 3, and set_address in the middle of a VLIW instruction *)
Example repaired_witnesses_read_back :
  (exists p', apply_rops true (fresh lenc_default)
                [RBegin (Some 4096%N); RRow (prow 0 0 20); RRow (prow 4 0 18446744073709551615);
                 RRow (prow 5 0 3); REnd 8 0] = Ok p' /\
     rows_of (params_of lenc_default) (map (denote 4) (p_insns p')) =
     fst (meaning 4 (params_of lenc_default) (init_regs (params_of lenc_default), 0%N)
            [RBegin (Some 4096%N); RRow (prow 0 0 20); RRow (prow 4 0 18446744073709551615);
             RRow (prow 5 0 3); REnd 8 0])) /\
  (exists p', apply_rops true (fresh lenc_vliw)
                [RBegin (Some 4096%N); RRow (prow 0 1 7); RSetAddr 8192; RRow (prow 1 0 8); REnd 2 0] = Ok p' /\
     rows_of (params_of lenc_vliw) (map (denote 4) (p_insns p')) =
     fst (meaning 4 (params_of lenc_vliw) (init_regs (params_of lenc_vliw), 0%N)
            [RBegin (Some 4096%N); RRow (prow 0 1 7); RSetAddr 8192; RRow (prow 1 0 8); REnd 2 0])).
Proof. split; (eexists; split; [vm_compute; reflexivity | vm_compute; reflexivity]). Qed.

(* the remaining known finding, outside script_ok: address_advance * max_ops overflows u64 in op_advance *)
Theorem op_advance_overflow_refuted :
  op_advance true lenc_vliw (prow 9223372036854775808 0 7) (prow 0 0 7) = Panic /\
  op_advance false lenc_vliw (prow 9223372036854775808 0 7) (prow 0 0 7) = Ok 0%N.
Proof. split; vm_compute; reflexivity. Qed.

(* ---------------------------------------------------------------------------------------------
   7. program_roundtrip against the line READER model of property C04 (Model/LineRd.v, Spec/LineSpec.v).
   Vocabulary (module paths spelled out; `tr` translates writer instructions into C04's `insn`, `r2s`
   the registers of Spec/LineAdvSpec.v into C04's `sregs`, `rep` is C04's abstraction of a reader row):
     hdr_matches e l h    the header carries the writer's parameters (opcode_base 13, gimli's
                          standard_opcode_lengths, the address size, version, line encoding)
     enc_params_ok e l    address size 1/2/4/8, byte-sized parameters
     script_enc_ok ..     addresses fit the address size, set_address does not go backwards and stays
                          below the tombstone values (documented / reader convention), u64 row fields
   --------------------------------------------------------------------------------------------- *)

(* 7a. every instruction LineInstruction::write emits is decoded by LineInstruction::parse to its translation
       (uses C04's insn_roundtrip through the byte equality insn_write = enc_insn o tr) *)
Theorem insn_bytes_roundtrip : forall dbg be e l h i bytes rest,
  LineRtBytes.hdr_matches e l h -> LineRtBytes.enc_params_ok e l -> LineRtBytes.insn_enc_ok e i ->
  (match i with ISpecial v => (13 <= v)%N | _ => True end) ->
  insn_write dbg be e i = Ok bytes ->
  LineRd.parse_insn dbg be h (bytes ++ rest) = Ok (LineRtBytes.tr (e_version e) i, rest).
Proof. exact LineRtBytes.insn_bytes_roundtrip. Qed.

(* 7b. rows, all versions: for ANY header that carries the writer's parameters and whose program bytes are
       the written instructions, the reader's rows() runs to the end and returns exactly the meaning of
       the script (uses C04's rows_refine_spec; the emitted program is shown prog_wf for the reader's spec) *)
Theorem program_rows_readback : forall dbg be e l h wd sd sf info p ops,
  LineRtBytes.hdr_matches e l h -> LineRtBytes.enc_params_ok e l -> enc_ok l -> (e_version e <= 5)%N ->
  lp_new dbg e l wd sd sf info = Ok p ->
  script_ok e l (wrow_initial e l) false ops ->
  LineRtScript.script_enc_ok h (e_version e) (params_of l) (init_regs (params_of l), 0%N) ops ->
  exists p' bytes,
    apply_rops dbg p ops = Ok p' /\
    insns_write dbg be e (p_insns p') = Ok bytes /\
    (LineSpec.h_program h = bytes ->
     exists rs, LineRd.rows_model dbg be h = (rs, LineRd.SEnd) /\
       map LineRdRefine.rep rs =
         map LineRtRows.r2s (fst (meaning (e_version e) (params_of l) (init_regs (params_of l), 0%N) ops)) /\
       Forall (fun r => LineRd.r_tomb r = false) rs).
Proof. exact LineRoundtrip.program_rows_readback. Qed.

(* 7c. program_roundtrip, FULL for versions 2-4 (both formats, both byte orders, address sizes 1/2/4/8):
       LineProgram::write of a program with any inline directory/file tables and any admissible script is
       decoded by LineProgramHeader::parse (C04's header_roundtrip_v2_v4), rows() = meaning of the script,
       and the directory and file tables (name, directory index, timestamp, size) read back.
       The side condition on the unit length is the initial-length limit of the format. *)
Theorem program_roundtrip_v2_v4 : forall dbg be e l p0 ops unit_enc ls ss,
  p_insns p0 = [] -> p_prev p0 = wrow_initial e l -> p_in_seq p0 = false ->
  p_enc p0 = e -> p_lenc p0 = l ->
  (2 <= e_version e <= 4)%N -> ((e_version e < 4)%N -> le_max_ops l = 1%N) ->
  LineRtBytes.enc_params_ok e l -> enc_ok l -> e_addr_size unit_enc = e_addr_size e ->
  Forall LineRoundtrip.dir4_ok (tl (p_dirs p0)) -> Forall LineRoundtrip.file4_ok (p_files p0) ->
  script_ok e l (wrow_initial e l) false ops ->
  LineRtScript.script_enc_ok (LineRoundtrip.hdr_of_asz (e_addr_size e)) (e_version e) (params_of l)
                (init_regs (params_of l), 0%N) ops ->
  (forall p' prog, apply_rops dbg p0 ops = Ok p' -> insns_write dbg be e (p_insns p') = Ok prog ->
     (LineSpec.len_n (LineSpec.enc_after_len be (LineRoundtrip.raw4 p') prog)
        < (if e_fmt64 e then two64 else 4294967280))%N) ->
  exists p' bytes h rs,
    apply_rops dbg p0 ops = Ok p' /\
    write dbg be p' unit_enc ls ss = Ok (bytes, ls, ss) /\
    LineRd.parse_header dbg be (e_addr_size e) bytes = Ok h /\
    LineRd.rows_model dbg be h = (rs, LineRd.SEnd) /\
    map LineRdRefine.rep rs =
      map LineRtRows.r2s (fst (meaning (e_version e) (params_of l) (init_regs (params_of l), 0%N) ops)) /\
    Forall (fun r => LineRd.r_tomb r = false) rs /\
    LineSpec.h_dirs h = map LineRoundtrip.lstr_val (tl (p_dirs p0)) /\
    LineSpec.h_files h = map LineRoundtrip.file4_entry (p_files p0) /\
    LineRtBytes.hdr_matches e l h.
Proof. exact LineRoundtrip.program_roundtrip_v2_v4. Qed.

(* the hypotheses are met by a program built with the writer API (new, add_directory, add_file x2) and a
   script with two sequences, VLIW, a line number 2^64-1 and a set_address inside a VLIW instruction *)
Example program_roundtrip_hyps_v4 : exists p0, LineRoundtrip.ex_prog = Ok p0 /\
  p_insns p0 = [] /\ p_prev p0 = wrow_initial LineRoundtrip.ex_enc LineRoundtrip.ex_lenc /\ p_in_seq p0 = false /\
  p_enc p0 = LineRoundtrip.ex_enc /\ p_lenc p0 = LineRoundtrip.ex_lenc /\
  Forall LineRoundtrip.dir4_ok (tl (p_dirs p0)) /\ Forall LineRoundtrip.file4_ok (p_files p0) /\
  length (p_files p0) = 2%nat.
Proof. exact LineRoundtrip.ex_prog_ok. Qed.
Example program_roundtrip_hyps_script :
  LineRtScript.script_enc_ok (LineRoundtrip.hdr_of_asz 8) 4 (params_of LineRoundtrip.ex_lenc)
    (init_regs (params_of LineRoundtrip.ex_lenc), 0%N) LineRoundtrip.ex_ops.
Proof. exact LineRoundtrip.ex_script_enc_ok. Qed.

(* 7d. program_roundtrip, FULL for version 5 (both formats, both byte orders, address sizes 1/2/4/8): the
       directory and file tables may use any of the three string forms (inline, .debug_str, .debug_line_str:
       one form per table, offsets into the given string tables), with the optional timestamp / size / MD5 /
       LLVM-source columns selected by the file_has_* flags; uses C04's header_roundtrip_v5.
       file5_entry is the entry a reader must see: name, directory index, timestamp, size, md5, source
       (0 / zero digest / None for the columns that are switched off). *)
Theorem program_roundtrip_v5 : forall dbg be e l p0 ops unit_enc ls ss d0 ds f0 fs,
  p_insns p0 = [] -> p_prev p0 = wrow_initial e l -> p_in_seq p0 = false ->
  p_enc p0 = e -> p_lenc p0 = l ->
  e_version e = 5%N -> (5 <= e_version unit_enc)%N ->
  LineRtBytes.enc_params_ok e l -> enc_ok l -> e_addr_size unit_enc = e_addr_size e ->
  p_dirs p0 = d0 :: ds -> p_files p0 = f0 :: fs ->
  Forall (LineRoundtrip5.dir5_ok (e_fmt64 e) ls ss (LineRoundtrip5.dform_of p0)) (p_dirs p0) ->
  Forall (LineRoundtrip5.file5_ok p0 ls ss (LineRoundtrip5.fform_of p0) (source_form (p_files p0))) (p_files p0) ->
  (LineSpec.len_n (p_dirs p0) < two64)%N -> (LineSpec.len_n (p_files p0) < two64)%N ->
  script_ok e l (wrow_initial e l) false ops ->
  LineRtScript.script_enc_ok (LineRoundtrip.hdr_of_asz (e_addr_size e)) (e_version e) (params_of l)
                (init_regs (params_of l), 0%N) ops ->
  (forall p' prog, apply_rops dbg p0 ops = Ok p' -> insns_write dbg be e (p_insns p') = Ok prog ->
     (LineSpec.len_n (LineSpec.enc_after_len be (LineRoundtrip5.raw5 p' ls ss) prog)
        < (if e_fmt64 e then two64 else 4294967280))%N) ->
  exists p' bytes h rs,
    apply_rops dbg p0 ops = Ok p' /\
    write dbg be p' unit_enc ls ss = Ok (bytes, ls, ss) /\
    LineRd.parse_header dbg be (e_addr_size e) bytes = Ok h /\
    LineRd.rows_model dbg be h = (rs, LineRd.SEnd) /\
    map LineRdRefine.rep rs =
      map LineRtRows.r2s (fst (meaning (e_version e) (params_of l) (init_regs (params_of l), 0%N) ops)) /\
    Forall (fun r => LineRd.r_tomb r = false) rs /\
    LineSpec.h_dirs h = map (LineRoundtrip5.lstr_val5 ls ss) (p_dirs p0) /\
    LineSpec.h_files h = map (LineRoundtrip5.file5_entry p0 ls ss) (p_files p0) /\
    LineRtBytes.hdr_matches e l h.
Proof. exact LineRoundtrip5.program_roundtrip_v5. Qed.

(* hypotheses met by a DWARF64 / address-size-4 program with .debug_line_str names, all four optional
   columns, two directories and two files with MD5 and embedded source *)
Example program_roundtrip_hyps_v5 : LineRoundtrip5.ex5_prog = Ok LineRoundtrip5.ex5_p0 /\
  p_insns LineRoundtrip5.ex5_p0 = [] /\
  p_prev LineRoundtrip5.ex5_p0 = wrow_initial LineRoundtrip5.ex5_enc LineRoundtrip.ex_lenc /\
  p_in_seq LineRoundtrip5.ex5_p0 = false /\
  p_enc LineRoundtrip5.ex5_p0 = LineRoundtrip5.ex5_enc /\ p_lenc LineRoundtrip5.ex5_p0 = LineRoundtrip.ex_lenc /\
  (exists d0 ds f0 fs, p_dirs LineRoundtrip5.ex5_p0 = d0 :: ds /\ p_files LineRoundtrip5.ex5_p0 = f0 :: fs) /\
  length (p_dirs LineRoundtrip5.ex5_p0) = 2%nat /\ length (p_files LineRoundtrip5.ex5_p0) = 2%nat /\
  Forall (LineRoundtrip5.dir5_ok (e_fmt64 LineRoundtrip5.ex5_enc) LineRoundtrip5.ex5_ls []
            (LineRoundtrip5.dform_of LineRoundtrip5.ex5_p0)) (p_dirs LineRoundtrip5.ex5_p0) /\
  Forall (LineRoundtrip5.file5_ok LineRoundtrip5.ex5_p0 LineRoundtrip5.ex5_ls []
            (LineRoundtrip5.fform_of LineRoundtrip5.ex5_p0) (source_form (p_files LineRoundtrip5.ex5_p0)))
         (p_files LineRoundtrip5.ex5_p0).
Proof. exact LineRoundtrip5.ex5_prog_ok. Qed.

(* WHAT REMAINS outside a theorem for the design's program_roundtrip:
   (i) version 5 with file_has_source = true and a file WITHOUT source: LineProgram::write then adds an empty
       string to a string table while writing (the theorems assume every file has a source in that case);
   (ii) scripts that interleave add_file / add_directory / flag changes with rows: the tables are fixed before
       the rows here (add_file_keeps_rows / add_directory_keeps_rows show the two parts are independent);
   (iii) that the string-table offsets resolve to the strings (the .debug_str / .debug_line_str sections
       themselves) and file/directory de-duplication;
   (iv) Address::Symbol (relocatable) addresses.  These are covered by correspondence: stream c13.prog compares
       all three sections byte for byte with gimli and reads them back with gimli::read. *)

(* statement pins *)
Check (advance_correct : forall (dbg : bool) (l : lenc) (ladv : Z) (oadv : N),
  enc_ok l -> i64 ladv ->
  exists insns,
    advance_insns dbg l ladv oadv = Ok insns /\ Forall special_ok insns /\
    forall ver r, regs_ok (params_of l) r ->
      run (params_of l) (map (denote ver) insns) r =
      ([op_adv (params_of l) (Z.of_N oadv) (line_adv ladv r)],
       after_row (params_of l) (op_adv (params_of l) (Z.of_N oadv) (line_adv ladv r)))).
Check (program_roundtrip_partial : forall dbg e l wd sd sf info p ops,
  enc_ok l -> (e_version e <= 5)%N ->
  lp_new dbg e l wd sd sf info = Ok p -> script_ok e l (wrow_initial e l) false ops ->
  exists p', apply_rops dbg p ops = Ok p' /\ Forall special_ok (p_insns p') /\
    rows_of (params_of l) (map (denote (e_version e)) (p_insns p')) =
      fst (meaning (e_version e) (params_of l) (init_regs (params_of l), 0%N) ops)).
