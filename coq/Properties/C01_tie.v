(* Properties/C01_tie.v — translator tie (DESIGN §1.2 item 2) for C01: every DW_* numeral that Spec/MacroSpec.v defines is the constant of the same
   name in /repo/src/constants.rs, regenerated into coq/Gen/Constants.v from the source text on every ./check run. *)
From Coq Require Import NArith.
Require GV.Gen.Constants GV.Spec.MacroSpec.
Require GV.Proofs.GenAgreeConstants.
Local Open Scope N_scope.

(* the 13 DW_* numerals of Spec/MacroSpec.v *)
Theorem c01_tie_constants :
  Constants.DW_MACRO_define = MacroSpec.DW_MACRO_define /\
  Constants.DW_MACRO_undef = MacroSpec.DW_MACRO_undef /\
  Constants.DW_MACRO_start_file = MacroSpec.DW_MACRO_start_file /\
  Constants.DW_MACRO_end_file = MacroSpec.DW_MACRO_end_file /\
  Constants.DW_MACRO_define_strp = MacroSpec.DW_MACRO_define_strp /\
  Constants.DW_MACRO_undef_strp = MacroSpec.DW_MACRO_undef_strp /\
  Constants.DW_MACRO_import = MacroSpec.DW_MACRO_import /\
  Constants.DW_MACRO_define_sup = MacroSpec.DW_MACRO_define_sup /\
  Constants.DW_MACRO_undef_sup = MacroSpec.DW_MACRO_undef_sup /\
  Constants.DW_MACRO_import_sup = MacroSpec.DW_MACRO_import_sup /\
  Constants.DW_MACRO_define_strx = MacroSpec.DW_MACRO_define_strx /\
  Constants.DW_MACRO_undef_strx = MacroSpec.DW_MACRO_undef_strx /\
  Constants.DW_MACINFO_vendor_ext = MacroSpec.DW_MACINFO_vendor_ext.
Proof. exact GenAgreeConstants.gen_constants_MacroSpec. Qed.

(* statement pins *)
Check c01_tie_constants :
  Constants.DW_MACRO_define = MacroSpec.DW_MACRO_define /\
  Constants.DW_MACRO_undef = MacroSpec.DW_MACRO_undef /\
  Constants.DW_MACRO_start_file = MacroSpec.DW_MACRO_start_file /\
  Constants.DW_MACRO_end_file = MacroSpec.DW_MACRO_end_file /\
  Constants.DW_MACRO_define_strp = MacroSpec.DW_MACRO_define_strp /\
  Constants.DW_MACRO_undef_strp = MacroSpec.DW_MACRO_undef_strp /\
  Constants.DW_MACRO_import = MacroSpec.DW_MACRO_import /\
  Constants.DW_MACRO_define_sup = MacroSpec.DW_MACRO_define_sup /\
  Constants.DW_MACRO_undef_sup = MacroSpec.DW_MACRO_undef_sup /\
  Constants.DW_MACRO_import_sup = MacroSpec.DW_MACRO_import_sup /\
  Constants.DW_MACRO_define_strx = MacroSpec.DW_MACRO_define_strx /\
  Constants.DW_MACRO_undef_strx = MacroSpec.DW_MACRO_undef_strx /\
  Constants.DW_MACINFO_vendor_ext = MacroSpec.DW_MACINFO_vendor_ext.
