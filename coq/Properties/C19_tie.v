(* Properties/C19_tie.v — translator tie (DESIGN §1.2 item 2) for C19: FilterUnitEntry::has_die_back_edge of /repo/src/write/unit.rs,
   regenerated into coq/Gen/BackEdge.v from the source text on every ./check run, is the function of Model/Filter.v. *)
From Coq Require Import List NArith Bool.
Require GV.Gen.BackEdge GV.Gen.Constants GV.Model.Filter.
Require GV.Proofs.GenAgreeBackEdge.
Import ListNotations.
Local Open Scope N_scope.

(* has_die_back_edge regenerated from src/write/unit.rs = the model's, all 65 536 tags x has_attr(DW_AT_declaration) *)
Theorem c19_tie_has_die_back_edge :
  forall tag decl, tag < 65536 -> BackEdge.has_die_back_edge tag decl = Filter.has_die_back_edge tag decl.
Proof. exact GenAgreeBackEdge.gen_has_die_back_edge_agree. Qed.

(* the attribute consulted is DW_AT_declaration, on DW_TAG_subprogram only; the `=> false` tag list is the model's, in source order *)
Theorem c19_tie_back_edge_shape :
  BackEdge.attr_name = Constants.DW_AT_declaration /\
  BackEdge.attr_tags = [Filter.DW_TAG_subprogram] /\
  BackEdge.no_back_edge_tags = Filter.no_back_edge_tags.
Proof. exact GenAgreeBackEdge.gen_back_edge_shape. Qed.

(* the two tags the filter model names *)
Theorem c19_tie_constants :
  Constants.DW_TAG_namespace = Filter.DW_TAG_namespace /\
  Constants.DW_TAG_subprogram = Filter.DW_TAG_subprogram.
Proof. exact GenAgreeBackEdge.gen_filter_tags. Qed.

(* statement pins *)
Check c19_tie_has_die_back_edge :
  forall tag decl, tag < 65536 -> BackEdge.has_die_back_edge tag decl = Filter.has_die_back_edge tag decl.
Check c19_tie_back_edge_shape :
  BackEdge.attr_name = Constants.DW_AT_declaration /\
  BackEdge.attr_tags = [Filter.DW_TAG_subprogram] /\
  BackEdge.no_back_edge_tags = Filter.no_back_edge_tags.
Check c19_tie_constants :
  Constants.DW_TAG_namespace = Filter.DW_TAG_namespace /\
  Constants.DW_TAG_subprogram = Filter.DW_TAG_subprogram.
