(* Properties/C08_tie.v — translator tie (DESIGN §1.2 item 2) for C08: the DW_RLE_* / DW_LLE_* kind numerals that Model/ListsRd.v
   matches on.  rle_kind / lle_kind (Proofs/GenAgreeNumerals.v) run rng_parse / loc_parse on the one-byte kind
   [Constants.DW_x] followed by minimal operands and name the constructor obtained; Constants = coq/Gen/Constants.v,
   regenerated from /repo/src/constants.rs on every ./check run. *)
From Coq Require Import List NArith Bool String.
Require Import GV.Base.Res GV.Proofs.GenSweep GV.Proofs.GenAgreeNumerals.
Require GV.Gen.Constants GV.Model.ListsRd GV.Model.MacroRd GV.Model.NamesRd GV.Spec.LineSpec.
Import ListNotations.
Local Open Scope string_scope.
Local Open Scope N_scope.

(* every DW_RLE_* constant decodes to the entry kind of its name; these are all the DW_RLE_* of constants.rs; every other byte is UnknownRangeListsEntry *)
Theorem c08_tie_rle_numerals :
  map rle_kind rle_decoded =
    ["end_of_list"; "base_addressx"; "startx_endx"; "startx_length"; "offset_pair"; "base_address"; "start_end";
     "start_length"] /\
  rle_decoded = Constants.DwRle_values /\
  forallb (fun k => mem k rle_decoded || String.eqb (rle_kind k) "unknown") (count_up 256) = true.
Proof. exact GenAgreeNumerals.gen_rle_numerals. Qed.

(* the same for DW_LLE_* (DWARF 5 .debug_loclists and the version 4 GNU split-DWARF encoding); DW_LLE_GNU_view_pair is the only constant not decoded *)
Theorem c08_tie_lle_numerals :
  map (lle_kind cfg5) lle_decoded =
    ["end_of_list"; "base_addressx"; "startx_endx"; "startx_length"; "offset_pair"; "default_location";
     "base_address"; "start_end"; "start_length"] /\
  map (lle_kind cfg4) lle_decoded = map (lle_kind cfg5) lle_decoded /\
  (lle_decoded ++ [Constants.DW_LLE_GNU_view_pair])%list = Constants.DwLle_values /\
  forallb (fun k => mem k lle_decoded || (String.eqb (lle_kind cfg5 k) "unknown" && String.eqb (lle_kind cfg4 k) "unknown"))
          (count_up 256) = true.
Proof. exact GenAgreeNumerals.gen_lle_numerals. Qed.

(* statement pins *)
Check c08_tie_rle_numerals :
  map rle_kind rle_decoded =
    ["end_of_list"; "base_addressx"; "startx_endx"; "startx_length"; "offset_pair"; "base_address"; "start_end";
     "start_length"] /\
  rle_decoded = Constants.DwRle_values /\
  forallb (fun k => mem k rle_decoded || String.eqb (rle_kind k) "unknown") (count_up 256) = true.
Check c08_tie_lle_numerals :
  map (lle_kind cfg5) lle_decoded =
    ["end_of_list"; "base_addressx"; "startx_endx"; "startx_length"; "offset_pair"; "default_location";
     "base_address"; "start_end"; "start_length"] /\
  map (lle_kind cfg4) lle_decoded = map (lle_kind cfg5) lle_decoded /\
  (lle_decoded ++ [Constants.DW_LLE_GNU_view_pair])%list = Constants.DwLle_values /\
  forallb (fun k => mem k lle_decoded || (String.eqb (lle_kind cfg5 k) "unknown" && String.eqb (lle_kind cfg4 k) "unknown"))
          (count_up 256) = true.
