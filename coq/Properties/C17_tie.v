(* Properties/C17_tie.v — translator tie (DESIGN §1.2 item 2) for C17: the section-identifier tables of src/common.rs and
   src/read/index.rs, regenerated into coq/Gen/SectionNames.v from the source text on every ./check run, against
   Model/IndexRd.v and Spec/LookupSpec.v.  isect_name : the Rust name of each IndexRd.isect constructor. *)
From Coq Require Import List NArith Bool String.
Require Import GV.Proofs.GenSweep GV.Model.IndexRd GV.Proofs.GenAgreeSections.
Require GV.Gen.SectionNames GV.Gen.Constants GV.Spec.LookupSpec.
Import ListNotations.
Local Open Scope string_scope.
Local Open Scope N_scope.

(* the DW_SECT_V2 column match of UnitIndex::parse regenerated from the source = IndexRd.sect_v2, EVERY column code *)
Theorem c17_tie_sect_v2 :
  forall n, option_map isect_name (sect_v2 n) = lookupN n SectionNames.sect_v2_table.
Proof. exact GenAgreeSections.gen_sect_v2_agree. Qed.

(* the DW_SECT (version 5) column match = IndexRd.sect_v5, every column code *)
Theorem c17_tie_sect_v5 :
  forall n, option_map isect_name (sect_v5 n) = lookupN n SectionNames.sect_v5_table.
Proof. exact GenAgreeSections.gen_sect_v5_agree. Qed.

(* ... and they are the specification's DW_SECT tables *)
Theorem c17_tie_sect_spec_tables :
  map (fun p => (fst p, code_name (snd p))) LookupSpec.DW_SECT_V2 = SectionNames.sect_v2_table /\
  map (fun p => (fst p, code_name (snd p))) LookupSpec.DW_SECT_V5 = SectionNames.sect_v5_table.
Proof. exact GenAgreeSections.gen_sect_spec_tables. Qed.

(* every DW_SECT_V2_* / DW_SECT_* constant of constants.rs has an arm, in order *)
Theorem c17_tie_sect_values :
  map fst SectionNames.sect_v2_table = Constants.DwSectV2_values /\
  map fst SectionNames.sect_v5_table = Constants.DwSect_values.
Proof. exact GenAgreeSections.gen_sect_values. Qed.

(* enum IndexSectionId has exactly the constructors of IndexRd.isect, in order *)
Theorem c17_tie_index_section_ids :
  SectionNames.index_section_ids = map isect_name all_isect.
Proof. exact GenAgreeSections.gen_index_section_ids. Qed.

Theorem c17_tie_section_count_max :
  SectionNames.SECTION_COUNT_MAX = IndexRd.SECTION_COUNT_MAX.
Proof. exact GenAgreeSections.gen_section_count_max. Qed.

(* IndexSectionId::section_id: one arm per variant, each to the SectionId of the same name *)
Theorem c17_tie_section_id_identity :
  forallb (fun v => match sassoc v SectionNames.section_id_table with Some id => String.eqb id v && smem id SectionNames.section_ids | None => false end)
          SectionNames.index_section_ids = true /\
  sperm (map fst SectionNames.section_id_table) SectionNames.index_section_ids = true.
Proof. exact GenAgreeSections.gen_section_id_identity. Qed.

(* IndexSectionId::dwo_name (= section_id().dwo_name().unwrap()) cannot panic *)
Theorem c17_tie_index_dwo_name_total :
  forall s, index_dwo_name (isect_name s) <> None.
Proof. exact GenAgreeSections.gen_index_dwo_name_total. Qed.

(* SectionId::name/dwo_name/xcoff_name: total resp. partial maps on the 23 ids, injective, `.dwo` suffix rule *)
Theorem c17_tie_section_names :
  map fst SectionNames.name_table = SectionNames.section_ids /\
  snodup SectionNames.section_ids = true /\
  snodup (map snd SectionNames.name_table) = true /\
  snodup (map snd SectionNames.dwo_name_table) = true /\
  snodup (map snd SectionNames.xcoff_name_table) = true /\
  snodup (map fst SectionNames.dwo_name_table) = true /\
  snodup (map fst SectionNames.xcoff_name_table) = true /\
  forallb (fun p => smem (fst p) SectionNames.section_ids) (SectionNames.dwo_name_table ++ SectionNames.xcoff_name_table) = true /\
  forallb dwo_ok SectionNames.dwo_name_table = true.
Proof. exact GenAgreeSections.gen_section_names. Qed.

(* statement pins *)
Check c17_tie_sect_v2 :
  forall n, option_map isect_name (sect_v2 n) = lookupN n SectionNames.sect_v2_table.
Check c17_tie_sect_v5 :
  forall n, option_map isect_name (sect_v5 n) = lookupN n SectionNames.sect_v5_table.
Check c17_tie_sect_spec_tables :
  map (fun p => (fst p, code_name (snd p))) LookupSpec.DW_SECT_V2 = SectionNames.sect_v2_table /\
  map (fun p => (fst p, code_name (snd p))) LookupSpec.DW_SECT_V5 = SectionNames.sect_v5_table.
Check c17_tie_sect_values :
  map fst SectionNames.sect_v2_table = Constants.DwSectV2_values /\
  map fst SectionNames.sect_v5_table = Constants.DwSect_values.
Check c17_tie_index_section_ids :
  SectionNames.index_section_ids = map isect_name all_isect.
Check c17_tie_section_count_max :
  SectionNames.SECTION_COUNT_MAX = IndexRd.SECTION_COUNT_MAX.
Check c17_tie_section_id_identity :
  forallb (fun v => match sassoc v SectionNames.section_id_table with Some id => String.eqb id v && smem id SectionNames.section_ids | None => false end)
          SectionNames.index_section_ids = true /\
  sperm (map fst SectionNames.section_id_table) SectionNames.index_section_ids = true.
Check c17_tie_index_dwo_name_total :
  forall s, index_dwo_name (isect_name s) <> None.
Check c17_tie_section_names :
  map fst SectionNames.name_table = SectionNames.section_ids /\
  snodup SectionNames.section_ids = true /\
  snodup (map snd SectionNames.name_table) = true /\
  snodup (map snd SectionNames.dwo_name_table) = true /\
  snodup (map snd SectionNames.xcoff_name_table) = true /\
  snodup (map fst SectionNames.dwo_name_table) = true /\
  snodup (map fst SectionNames.xcoff_name_table) = true /\
  forallb (fun p => smem (fst p) SectionNames.section_ids) (SectionNames.dwo_name_table ++ SectionNames.xcoff_name_table) = true /\
  forallb dwo_ok SectionNames.dwo_name_table = true.
