(* Properties/C03_tie.v — translator tie (DESIGN §1.2 item 2) for C03: every DW_FORM_* / DW_AT_* numeral of Model/Attr.v is the
   constant of the same name in /repo/src/constants.rs, regenerated into coq/Gen/Constants.v on every ./check run.
   (The table-shaped functions of C03 are tied by Properties/C03.v translator_tie.) *)
From Coq Require Import List NArith.
Require GV.Gen.Constants GV.Model.Attr.
Require GV.Proofs.GenAgreeConstants.
Local Open Scope N_scope.

(* the 47 form codes and 14 attribute names the attribute model names *)
Theorem c03_tie_constants :
  Constants.DW_FORM_addr = Attr.DW_FORM_addr /\
  Constants.DW_FORM_block2 = Attr.DW_FORM_block2 /\
  Constants.DW_FORM_block4 = Attr.DW_FORM_block4 /\
  Constants.DW_FORM_data2 = Attr.DW_FORM_data2 /\
  Constants.DW_FORM_data4 = Attr.DW_FORM_data4 /\
  Constants.DW_FORM_data8 = Attr.DW_FORM_data8 /\
  Constants.DW_FORM_string = Attr.DW_FORM_string /\
  Constants.DW_FORM_block = Attr.DW_FORM_block /\
  Constants.DW_FORM_block1 = Attr.DW_FORM_block1 /\
  Constants.DW_FORM_data1 = Attr.DW_FORM_data1 /\
  Constants.DW_FORM_flag = Attr.DW_FORM_flag /\
  Constants.DW_FORM_sdata = Attr.DW_FORM_sdata /\
  Constants.DW_FORM_strp = Attr.DW_FORM_strp /\
  Constants.DW_FORM_udata = Attr.DW_FORM_udata /\
  Constants.DW_FORM_ref_addr = Attr.DW_FORM_ref_addr /\
  Constants.DW_FORM_ref1 = Attr.DW_FORM_ref1 /\
  Constants.DW_FORM_ref2 = Attr.DW_FORM_ref2 /\
  Constants.DW_FORM_ref4 = Attr.DW_FORM_ref4 /\
  Constants.DW_FORM_ref8 = Attr.DW_FORM_ref8 /\
  Constants.DW_FORM_ref_udata = Attr.DW_FORM_ref_udata /\
  Constants.DW_FORM_indirect = Attr.DW_FORM_indirect /\
  Constants.DW_FORM_sec_offset = Attr.DW_FORM_sec_offset /\
  Constants.DW_FORM_exprloc = Attr.DW_FORM_exprloc /\
  Constants.DW_FORM_flag_present = Attr.DW_FORM_flag_present /\
  Constants.DW_FORM_strx = Attr.DW_FORM_strx /\
  Constants.DW_FORM_addrx = Attr.DW_FORM_addrx /\
  Constants.DW_FORM_ref_sup4 = Attr.DW_FORM_ref_sup4 /\
  Constants.DW_FORM_strp_sup = Attr.DW_FORM_strp_sup /\
  Constants.DW_FORM_data16 = Attr.DW_FORM_data16 /\
  Constants.DW_FORM_line_strp = Attr.DW_FORM_line_strp /\
  Constants.DW_FORM_ref_sig8 = Attr.DW_FORM_ref_sig8 /\
  Constants.DW_FORM_implicit_const = Attr.DW_FORM_implicit_const /\
  Constants.DW_FORM_loclistx = Attr.DW_FORM_loclistx /\
  Constants.DW_FORM_rnglistx = Attr.DW_FORM_rnglistx /\
  Constants.DW_FORM_ref_sup8 = Attr.DW_FORM_ref_sup8 /\
  Constants.DW_FORM_strx1 = Attr.DW_FORM_strx1 /\
  Constants.DW_FORM_strx2 = Attr.DW_FORM_strx2 /\
  Constants.DW_FORM_strx3 = Attr.DW_FORM_strx3 /\
  Constants.DW_FORM_strx4 = Attr.DW_FORM_strx4 /\
  Constants.DW_FORM_addrx1 = Attr.DW_FORM_addrx1 /\
  Constants.DW_FORM_addrx2 = Attr.DW_FORM_addrx2 /\
  Constants.DW_FORM_addrx3 = Attr.DW_FORM_addrx3 /\
  Constants.DW_FORM_addrx4 = Attr.DW_FORM_addrx4 /\
  Constants.DW_FORM_GNU_addr_index = Attr.DW_FORM_GNU_addr_index /\
  Constants.DW_FORM_GNU_str_index = Attr.DW_FORM_GNU_str_index /\
  Constants.DW_FORM_GNU_ref_alt = Attr.DW_FORM_GNU_ref_alt /\
  Constants.DW_FORM_GNU_strp_alt = Attr.DW_FORM_GNU_strp_alt /\
  Constants.DW_AT_location = Attr.DW_AT_location /\
  Constants.DW_AT_stmt_list = Attr.DW_AT_stmt_list /\
  Constants.DW_AT_string_length = Attr.DW_AT_string_length /\
  Constants.DW_AT_return_addr = Attr.DW_AT_return_addr /\
  Constants.DW_AT_start_scope = Attr.DW_AT_start_scope /\
  Constants.DW_AT_frame_base = Attr.DW_AT_frame_base /\
  Constants.DW_AT_macro_info = Attr.DW_AT_macro_info /\
  Constants.DW_AT_macros = Attr.DW_AT_macros /\
  Constants.DW_AT_segment = Attr.DW_AT_segment /\
  Constants.DW_AT_static_link = Attr.DW_AT_static_link /\
  Constants.DW_AT_use_location = Attr.DW_AT_use_location /\
  Constants.DW_AT_vtable_elem_location = Attr.DW_AT_vtable_elem_location /\
  Constants.DW_AT_ranges = Attr.DW_AT_ranges /\
  Constants.DW_AT_data_member_location = Attr.DW_AT_data_member_location.
Proof. exact GenAgreeConstants.gen_constants_Attr. Qed.

(* statement pins *)
Check c03_tie_constants :
  Constants.DW_FORM_addr = Attr.DW_FORM_addr /\
  Constants.DW_FORM_block2 = Attr.DW_FORM_block2 /\
  Constants.DW_FORM_block4 = Attr.DW_FORM_block4 /\
  Constants.DW_FORM_data2 = Attr.DW_FORM_data2 /\
  Constants.DW_FORM_data4 = Attr.DW_FORM_data4 /\
  Constants.DW_FORM_data8 = Attr.DW_FORM_data8 /\
  Constants.DW_FORM_string = Attr.DW_FORM_string /\
  Constants.DW_FORM_block = Attr.DW_FORM_block /\
  Constants.DW_FORM_block1 = Attr.DW_FORM_block1 /\
  Constants.DW_FORM_data1 = Attr.DW_FORM_data1 /\
  Constants.DW_FORM_flag = Attr.DW_FORM_flag /\
  Constants.DW_FORM_sdata = Attr.DW_FORM_sdata /\
  Constants.DW_FORM_strp = Attr.DW_FORM_strp /\
  Constants.DW_FORM_udata = Attr.DW_FORM_udata /\
  Constants.DW_FORM_ref_addr = Attr.DW_FORM_ref_addr /\
  Constants.DW_FORM_ref1 = Attr.DW_FORM_ref1 /\
  Constants.DW_FORM_ref2 = Attr.DW_FORM_ref2 /\
  Constants.DW_FORM_ref4 = Attr.DW_FORM_ref4 /\
  Constants.DW_FORM_ref8 = Attr.DW_FORM_ref8 /\
  Constants.DW_FORM_ref_udata = Attr.DW_FORM_ref_udata /\
  Constants.DW_FORM_indirect = Attr.DW_FORM_indirect /\
  Constants.DW_FORM_sec_offset = Attr.DW_FORM_sec_offset /\
  Constants.DW_FORM_exprloc = Attr.DW_FORM_exprloc /\
  Constants.DW_FORM_flag_present = Attr.DW_FORM_flag_present /\
  Constants.DW_FORM_strx = Attr.DW_FORM_strx /\
  Constants.DW_FORM_addrx = Attr.DW_FORM_addrx /\
  Constants.DW_FORM_ref_sup4 = Attr.DW_FORM_ref_sup4 /\
  Constants.DW_FORM_strp_sup = Attr.DW_FORM_strp_sup /\
  Constants.DW_FORM_data16 = Attr.DW_FORM_data16 /\
  Constants.DW_FORM_line_strp = Attr.DW_FORM_line_strp /\
  Constants.DW_FORM_ref_sig8 = Attr.DW_FORM_ref_sig8 /\
  Constants.DW_FORM_implicit_const = Attr.DW_FORM_implicit_const /\
  Constants.DW_FORM_loclistx = Attr.DW_FORM_loclistx /\
  Constants.DW_FORM_rnglistx = Attr.DW_FORM_rnglistx /\
  Constants.DW_FORM_ref_sup8 = Attr.DW_FORM_ref_sup8 /\
  Constants.DW_FORM_strx1 = Attr.DW_FORM_strx1 /\
  Constants.DW_FORM_strx2 = Attr.DW_FORM_strx2 /\
  Constants.DW_FORM_strx3 = Attr.DW_FORM_strx3 /\
  Constants.DW_FORM_strx4 = Attr.DW_FORM_strx4 /\
  Constants.DW_FORM_addrx1 = Attr.DW_FORM_addrx1 /\
  Constants.DW_FORM_addrx2 = Attr.DW_FORM_addrx2 /\
  Constants.DW_FORM_addrx3 = Attr.DW_FORM_addrx3 /\
  Constants.DW_FORM_addrx4 = Attr.DW_FORM_addrx4 /\
  Constants.DW_FORM_GNU_addr_index = Attr.DW_FORM_GNU_addr_index /\
  Constants.DW_FORM_GNU_str_index = Attr.DW_FORM_GNU_str_index /\
  Constants.DW_FORM_GNU_ref_alt = Attr.DW_FORM_GNU_ref_alt /\
  Constants.DW_FORM_GNU_strp_alt = Attr.DW_FORM_GNU_strp_alt /\
  Constants.DW_AT_location = Attr.DW_AT_location /\
  Constants.DW_AT_stmt_list = Attr.DW_AT_stmt_list /\
  Constants.DW_AT_string_length = Attr.DW_AT_string_length /\
  Constants.DW_AT_return_addr = Attr.DW_AT_return_addr /\
  Constants.DW_AT_start_scope = Attr.DW_AT_start_scope /\
  Constants.DW_AT_frame_base = Attr.DW_AT_frame_base /\
  Constants.DW_AT_macro_info = Attr.DW_AT_macro_info /\
  Constants.DW_AT_macros = Attr.DW_AT_macros /\
  Constants.DW_AT_segment = Attr.DW_AT_segment /\
  Constants.DW_AT_static_link = Attr.DW_AT_static_link /\
  Constants.DW_AT_use_location = Attr.DW_AT_use_location /\
  Constants.DW_AT_vtable_elem_location = Attr.DW_AT_vtable_elem_location /\
  Constants.DW_AT_ranges = Attr.DW_AT_ranges /\
  Constants.DW_AT_data_member_location = Attr.DW_AT_data_member_location.
