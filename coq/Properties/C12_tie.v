(* Properties/C12_tie.v — translator tie (DESIGN §1.2 item 2) for C12: every DW_* numeral that Model/ConvertExpr.v defines is the constant of the same
   name in /repo/src/constants.rs, regenerated into coq/Gen/Constants.v from the source text on every ./check run. *)
From Coq Require Import NArith.
Require GV.Gen.Constants GV.Model.ConvertExpr.
Require GV.Proofs.GenAgreeConstants.
Local Open Scope N_scope.

(* the 29 DW_* numerals of Model/ConvertExpr.v *)
Theorem c12_tie_constants :
  Constants.DW_OP_drop = ConvertExpr.DW_OP_drop /\
  Constants.DW_OP_swap = ConvertExpr.DW_OP_swap /\
  Constants.DW_OP_rot = ConvertExpr.DW_OP_rot /\
  Constants.DW_OP_abs = ConvertExpr.DW_OP_abs /\
  Constants.DW_OP_and = ConvertExpr.DW_OP_and /\
  Constants.DW_OP_div = ConvertExpr.DW_OP_div /\
  Constants.DW_OP_minus = ConvertExpr.DW_OP_minus /\
  Constants.DW_OP_mod = ConvertExpr.DW_OP_mod /\
  Constants.DW_OP_mul = ConvertExpr.DW_OP_mul /\
  Constants.DW_OP_neg = ConvertExpr.DW_OP_neg /\
  Constants.DW_OP_not = ConvertExpr.DW_OP_not /\
  Constants.DW_OP_or = ConvertExpr.DW_OP_or /\
  Constants.DW_OP_plus = ConvertExpr.DW_OP_plus /\
  Constants.DW_OP_shl = ConvertExpr.DW_OP_shl /\
  Constants.DW_OP_shr = ConvertExpr.DW_OP_shr /\
  Constants.DW_OP_shra = ConvertExpr.DW_OP_shra /\
  Constants.DW_OP_xor = ConvertExpr.DW_OP_xor /\
  Constants.DW_OP_eq = ConvertExpr.DW_OP_eq /\
  Constants.DW_OP_ge = ConvertExpr.DW_OP_ge /\
  Constants.DW_OP_gt = ConvertExpr.DW_OP_gt /\
  Constants.DW_OP_le = ConvertExpr.DW_OP_le /\
  Constants.DW_OP_lt = ConvertExpr.DW_OP_lt /\
  Constants.DW_OP_ne = ConvertExpr.DW_OP_ne /\
  Constants.DW_OP_nop = ConvertExpr.DW_OP_nop /\
  Constants.DW_OP_push_object_address = ConvertExpr.DW_OP_push_object_address /\
  Constants.DW_OP_form_tls_address = ConvertExpr.DW_OP_form_tls_address /\
  Constants.DW_OP_call_frame_cfa = ConvertExpr.DW_OP_call_frame_cfa /\
  Constants.DW_OP_stack_value = ConvertExpr.DW_OP_stack_value /\
  Constants.DW_OP_GNU_uninit = ConvertExpr.DW_OP_GNU_uninit.
Proof. exact GenAgreeConstants.gen_constants_ConvertExpr. Qed.

(* statement pins *)
Check c12_tie_constants :
  Constants.DW_OP_drop = ConvertExpr.DW_OP_drop /\
  Constants.DW_OP_swap = ConvertExpr.DW_OP_swap /\
  Constants.DW_OP_rot = ConvertExpr.DW_OP_rot /\
  Constants.DW_OP_abs = ConvertExpr.DW_OP_abs /\
  Constants.DW_OP_and = ConvertExpr.DW_OP_and /\
  Constants.DW_OP_div = ConvertExpr.DW_OP_div /\
  Constants.DW_OP_minus = ConvertExpr.DW_OP_minus /\
  Constants.DW_OP_mod = ConvertExpr.DW_OP_mod /\
  Constants.DW_OP_mul = ConvertExpr.DW_OP_mul /\
  Constants.DW_OP_neg = ConvertExpr.DW_OP_neg /\
  Constants.DW_OP_not = ConvertExpr.DW_OP_not /\
  Constants.DW_OP_or = ConvertExpr.DW_OP_or /\
  Constants.DW_OP_plus = ConvertExpr.DW_OP_plus /\
  Constants.DW_OP_shl = ConvertExpr.DW_OP_shl /\
  Constants.DW_OP_shr = ConvertExpr.DW_OP_shr /\
  Constants.DW_OP_shra = ConvertExpr.DW_OP_shra /\
  Constants.DW_OP_xor = ConvertExpr.DW_OP_xor /\
  Constants.DW_OP_eq = ConvertExpr.DW_OP_eq /\
  Constants.DW_OP_ge = ConvertExpr.DW_OP_ge /\
  Constants.DW_OP_gt = ConvertExpr.DW_OP_gt /\
  Constants.DW_OP_le = ConvertExpr.DW_OP_le /\
  Constants.DW_OP_lt = ConvertExpr.DW_OP_lt /\
  Constants.DW_OP_ne = ConvertExpr.DW_OP_ne /\
  Constants.DW_OP_nop = ConvertExpr.DW_OP_nop /\
  Constants.DW_OP_push_object_address = ConvertExpr.DW_OP_push_object_address /\
  Constants.DW_OP_form_tls_address = ConvertExpr.DW_OP_form_tls_address /\
  Constants.DW_OP_call_frame_cfa = ConvertExpr.DW_OP_call_frame_cfa /\
  Constants.DW_OP_stack_value = ConvertExpr.DW_OP_stack_value /\
  Constants.DW_OP_GNU_uninit = ConvertExpr.DW_OP_GNU_uninit.
