(* Properties/C17_tie_names.v — translator tie (DESIGN §1.2 item 2) for the .debug_names entry pool of C17: the DW_FORM_* numerals
   of NamesRd.read_nform (read_debug_names_form_value).  nform_kind f (Proofs/GenAgreeNumerals.v) = (class, bytes consumed)
   of read_nform on form f over operands that are all the byte 1.  (The model carries DW_IDX_* values uninterpreted.) *)
From Coq Require Import List NArith Bool String.
Require Import GV.Base.Res GV.Proofs.GenSweep GV.Proofs.GenAgreeNumerals.
Require GV.Gen.Constants GV.Model.ListsRd GV.Model.MacroRd GV.Model.NamesRd GV.Spec.LineSpec.
Import ListNotations.
Local Open Scope string_scope.
Local Open Scope N_scope.

(* the twelve forms decode to the class and size of the DW_FORM_* constant of their name; all 65 536 other form codes are UnknownForm *)
Theorem c17_tie_names_form_numerals :
  map nform_kind nforms_decoded =
    [("flag", 1); ("flag", 0); ("unsigned", 1); ("unsigned", 2); ("unsigned", 4); ("unsigned", 8); ("unsigned", 1);
     ("offset", 1); ("offset", 2); ("offset", 4); ("offset", 8); ("offset", 1)] /\
  forallb (fun f => mem f nforms_decoded || String.eqb (fst (nform_kind f)) "unknown") (count_up 65536) = true.
Proof. exact GenAgreeNumerals.gen_names_form_numerals. Qed.

Theorem c17_tie_names_form_unknown :
  forall f, f < 65536 -> mem f nforms_decoded = false ->
  NamesRd.read_nform false false f tail = Err EUnknownForm.
Proof. exact GenAgreeNumerals.gen_names_form_unknown. Qed.

(* statement pins *)
Check c17_tie_names_form_numerals :
  map nform_kind nforms_decoded =
    [("flag", 1); ("flag", 0); ("unsigned", 1); ("unsigned", 2); ("unsigned", 4); ("unsigned", 8); ("unsigned", 1);
     ("offset", 1); ("offset", 2); ("offset", 4); ("offset", 8); ("offset", 1)] /\
  forallb (fun f => mem f nforms_decoded || String.eqb (fst (nform_kind f)) "unknown") (count_up 65536) = true.
Check c17_tie_names_form_unknown :
  forall f, f < 65536 -> mem f nforms_decoded = false ->
  NamesRd.read_nform false false f tail = Err EUnknownForm.
