(* Properties/C01_tie_macro.v — translator tie (DESIGN §1.2 item 2) for the macro reader of C01: the DW_MACRO_* / DW_MACINFO_*
   type codes Model/MacroRd.v decodes.  macro_kind is_macro k (Proofs/GenAgreeNumerals.v) runs parse_next on the
   one-byte type [k] followed by minimal operands and names the entry obtained. *)
From Coq Require Import List NArith Bool String.
Require Import GV.Base.Res GV.Proofs.GenSweep GV.Proofs.GenAgreeNumerals.
Require GV.Gen.Constants GV.Model.ListsRd GV.Model.MacroRd GV.Model.NamesRd GV.Spec.LineSpec.
Import ListNotations.
Local Open Scope string_scope.
Local Open Scope N_scope.

(* .debug_macro: every DW_MACRO_* constant (all of constants.rs but lo_user/hi_user) decodes to the entry of its name; 0 ends the list; every other byte is InvalidMacroType *)
Theorem c01_tie_macro_numerals :
  map (macro_kind true) macro_decoded =
    ["define"; "undef"; "start_file"; "end_file"; "define_strp"; "undef_strp"; "import"; "define_sup"; "undef_sup";
     "import_sup"; "define_strx"; "undef_strx"] /\
  (macro_decoded ++ [Constants.DW_MACRO_lo_user; Constants.DW_MACRO_hi_user])%list = Constants.DwMacro_values /\
  forallb (fun k => (k =? 0) || mem k macro_decoded || String.eqb (macro_kind true k) "invalid_macro") (count_up 256) = true /\
  macro_kind true 0 = "end".
Proof. exact GenAgreeNumerals.gen_macro_numerals. Qed.

(* .debug_macinfo: all five DW_MACINFO_* constants; every other byte is InvalidMacinfoType *)
Theorem c01_tie_macinfo_numerals :
  map (macro_kind false) macinfo_decoded = ["define"; "undef"; "start_file"; "end_file"; "vendor_ext"] /\
  macinfo_decoded = Constants.DwMacinfo_values /\
  forallb (fun k => (k =? 0) || mem k macinfo_decoded || String.eqb (macro_kind false k) "invalid_macinfo") (count_up 256) = true /\
  macro_kind false 0 = "end".
Proof. exact GenAgreeNumerals.gen_macinfo_numerals. Qed.

(* statement pins *)
Check c01_tie_macro_numerals :
  map (macro_kind true) macro_decoded =
    ["define"; "undef"; "start_file"; "end_file"; "define_strp"; "undef_strp"; "import"; "define_sup"; "undef_sup";
     "import_sup"; "define_strx"; "undef_strx"] /\
  (macro_decoded ++ [Constants.DW_MACRO_lo_user; Constants.DW_MACRO_hi_user])%list = Constants.DwMacro_values /\
  forallb (fun k => (k =? 0) || mem k macro_decoded || String.eqb (macro_kind true k) "invalid_macro") (count_up 256) = true /\
  macro_kind true 0 = "end".
Check c01_tie_macinfo_numerals :
  map (macro_kind false) macinfo_decoded = ["define"; "undef"; "start_file"; "end_file"; "vendor_ext"] /\
  macinfo_decoded = Constants.DwMacinfo_values /\
  forallb (fun k => (k =? 0) || mem k macinfo_decoded || String.eqb (macro_kind false k) "invalid_macinfo") (count_up 256) = true /\
  macro_kind false 0 = "end".
