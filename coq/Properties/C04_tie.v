(* Properties/C04_tie.v — translator tie (DESIGN §1.2 item 2) for C04: the opcode -> variant tables of LineInstruction::parse
   (src/read/line.rs), regenerated into coq/Gen/LineTable.v from the source text on every ./check run, against
   Model/LineRd.v parse_insn.  standard_agree / extended_agree (Proofs/GenAgreeLineTable.v) run the model on the opcode
   followed by benign operands and compare the constructor name with the arm of the regenerated table. *)
From Coq Require Import List NArith Bool String.
From Coq.Strings Require Import Byte.
Require Import GV.Base.Res GV.Proofs.GenSweep GV.Model.LineRd GV.Proofs.GenAgreeLineTable.
Require GV.Gen.LineTable GV.Gen.Constants.
Import ListNotations.
Local Open Scope string_scope.
Local Open Scope N_scope.

(* all 256 opcode bytes, DWARF 4 and 5, opcode_base 1/10/13/14/40/255: Model/LineRd.v parse_insn builds a variant that the arm of LineInstruction::parse for that opcode builds (Special from opcode_base on; UnknownStandard0/1/N for unlisted standard opcodes) *)
Theorem c04_tie_line_standard :
  forall version ob opcode,
  In version [4; 5] -> In ob [1; 10; 13; 14; 40; 255] -> opcode < 256 -> standard_agree version ob opcode = true.
Proof. exact GenAgreeLineTable.gen_line_standard_agree. Qed.

(* all 256 extended opcodes *)
Theorem c04_tie_line_extended :
  forall version sub, In version [4; 5] -> sub < 256 -> extended_agree version sub = true.
Proof. exact GenAgreeLineTable.gen_line_extended_agree. Qed.

(* DW_LNE_define_file: DefineFile up to version 4, UnknownExtended in version 5 *)
Theorem c04_tie_line_define_file :
  lookup_l Constants.DW_LNE_define_file LineTable.extended_table = Some ["DefineFile"; "UnknownExtended"] /\
  map (fun v => match parse_insn false false (hdr v 13) (x00 :: x0c :: x03 :: removelast tail) with
                | Ok (i, _) => insn_ctor i | _ => "" end) [2; 3; 4; 5] =
    ["DefineFile"; "DefineFile"; "DefineFile"; "UnknownExtended"].
Proof. exact GenAgreeLineTable.gen_line_define_file. Qed.

(* every DW_LNS_* constant of constants.rs has an arm, in order; the extended keys are DW_LNE_* constants *)
Theorem c04_tie_line_table_keys :
  map fst LineTable.standard_table = Constants.DwLns_values /\
  forallb (fun k => existsb (N.eqb k) Constants.DwLne_values) (map fst LineTable.extended_table) = true.
Proof. exact GenAgreeLineTable.gen_line_table_keys. Qed.

(* statement pins *)
Check c04_tie_line_standard :
  forall version ob opcode,
  In version [4; 5] -> In ob [1; 10; 13; 14; 40; 255] -> opcode < 256 -> standard_agree version ob opcode = true.
Check c04_tie_line_extended :
  forall version sub, In version [4; 5] -> sub < 256 -> extended_agree version sub = true.
Check c04_tie_line_define_file :
  lookup_l Constants.DW_LNE_define_file LineTable.extended_table = Some ["DefineFile"; "UnknownExtended"] /\
  map (fun v => match parse_insn false false (hdr v 13) (x00 :: x0c :: x03 :: removelast tail) with
                | Ok (i, _) => insn_ctor i | _ => "" end) [2; 3; 4; 5] =
    ["DefineFile"; "DefineFile"; "DefineFile"; "UnknownExtended"].
Check c04_tie_line_table_keys :
  map fst LineTable.standard_table = Constants.DwLns_values /\
  forallb (fun k => existsb (N.eqb k) Constants.DwLne_values) (map fst LineTable.extended_table) = true.
