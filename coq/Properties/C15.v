(* Properties/C15.v — placeholder, replaced when the proofs land. *)
Require Import GV.Model.OpWr GV.Spec.OpEncSpec.
