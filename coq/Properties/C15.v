(* Properties/C15.v — Written expressions decode to the same operations, branches and references.
   Only statements (`exact lemma`), non-vacuity examples and pins live here.

   Objects: Model/OpWr.v mirrors src/write/op.rs (Operation::{size,write}, Expression::{size,write}, the op_*
   builders), the UnitOffsets look-ups and fix-ups of src/write/unit.rs and the three length-prefixed embeddings
   (unit.rs Exprloc, loc.rs write_expression, cfi.rs *Expression). Spec/OpEncSpec.v is an independent table
   opcode -> operand layout -> meaning, used for the decode direction. Every statement is for both build modes
   (dbg = debug assertions + overflow checks on / off) and for every encoding (any version, format, address size,
   byte order), every unit-offset table and every operation list unless a hypothesis says otherwise.

   Hypotheses that recur:
     blen bs < 2^64 / base + blen bs < 2^63   the emitted bytes fit the address space (usize / i64 arithmetic);
     wf_op                                     operands are values of the Rust types (u64, i64, u16, u8, u32);
     decodable                                 no Raw bytecode, Expression::op only with operand-less opcodes,
                                               DW_OP_piece sizes whose bit count fits u64 (the reader's limit).
   Not a theorem here: `eval_same` of DESIGN §5 (evaluation of written = evaluation of built) needs the evaluator
   model of C07; the stack-depth behaviour of the recursion (known finding, stream c15.nest). *)
From Coq Require Import List NArith ZArith Bool.
From Coq.Strings Require Import Byte.
Require Import GV.Base.Res GV.Base.Byt GV.Base.Ints GV.Model.Leb GV.Model.Prim.
Require Import GV.Spec.OpEncSpec GV.Model.OpWr.
Require Import GV.Proofs.OpWrProofs GV.Proofs.OpWrDec GV.Proofs.OpWrTotal.
Require GV.Model.OpDec GV.Model.OpVal GV.Model.OpEval GV.Spec.StackSpec GV.Proofs.OpRoundtrip GV.Proofs.OpEvalSim GV.Proofs.OpParseWf GV.Proofs.OpEvalSame.
Import ListNotations.
Local Open Scope N_scope.

(* ------------------------------------------------------------------ (1) size() and write() agree *)

(* For EVERY Operation variant: whatever Operation::write emits, Operation::size predicted exactly that many
   bytes (the two parallel `match`es agree; ULEB/SLEB sizes are the lengths of the emitted LEBs; nested
   entry_value and Raw included). *)
Theorem op_size_write : forall dbg e uo refs (o : wop) offsets pos bs fx,
  write_op dbg e uo refs offsets pos o = Ok (bs, fx) ->
  blen bs < 2 ^ 64 ->
  size_op dbg e uo o = Ok (blen bs).
Proof. exact op_size_write_all. Qed.

(* (2) Expression::size = number of bytes Expression::write emits. *)
Theorem expr_size : forall dbg e uo refs base (ex : wexpr) bs fx,
  write_expr dbg e uo refs base ex = Ok (bs, fx) ->
  blen bs < 2 ^ 64 ->
  size_expr dbg e uo ex = Ok (blen bs).
Proof. exact expr_size_write. Qed.

(* The offsets vector Expression::write computes from the sizes is exactly the list of positions at which the
   operations then start (so its debug_assert_eq!s hold), ending with the end position. *)
Theorem offsets_exact : forall dbg e uo refs base ex bs fx,
  write_expr dbg e uo refs base ex = Ok (bs, fx) ->
  base + blen bs < 2 ^ 64 ->
  exists offsets,
    expr_offsets dbg e uo base ex = Ok offsets /\
    laid (write_op dbg e uo refs offsets) base ex offsets bs fx.
Proof. exact write_expr_laid. Qed.

(* The size computed while DIE offsets are still being assigned (calculate_offsets sees only the entries laid
   out so far) is the size seen when writing with the complete table. *)
Theorem size_mono : forall dbg e u1 u2 ex n,
  extends u1 u2 -> size_expr dbg e (Some u1) ex = Ok n -> size_expr dbg e (Some u2) ex = Ok n.
Proof. exact size_expr_mono. Qed.

(* The three embeddings: the length prefix, read back (ULEB; u16 in .debug_loc), is the emitted length. *)
Theorem exprloc_prefix : forall dbg e uo base ex bs fx rest,
  write_exprloc dbg e uo base ex = Ok (bs, fx) -> blen bs < 2 ^ 64 ->
  exists p body,
    bs = p ++ body /\
    write_expr dbg e uo true (base + blen p) ex = Ok (body, fx) /\
    rd_uleb (p ++ rest) = Some (blen body, rest) /\
    exprloc_size dbg e uo ex = Ok (blen bs).
Proof. exact exprloc_prefix_exact. Qed.

Theorem loc_prefix : forall dbg e uo base ex bs fx rest,
  write_loc_expression dbg e uo base ex = Ok (bs, fx) -> blen bs < 2 ^ 64 ->
  exists p body,
    bs = p ++ body /\
    write_expr dbg e uo true (base + blen p) ex = Ok (body, fx) /\
    (if e_version e <=? 4 then rd_fixed (e_be e) 2 (p ++ rest) = Some (blen body, rest) /\ blen body < 65536
     else rd_uleb (p ++ rest) = Some (blen body, rest)).
Proof. exact loc_prefix_exact. Qed.

Theorem cfi_prefix : forall dbg e base ex bs fx rest,
  write_cfi_expression dbg e base ex = Ok (bs, fx) -> blen bs < 2 ^ 64 ->
  exists p body,
    bs = p ++ body /\
    write_expr dbg e None false (base + blen p) ex = Ok (body, fx) /\
    rd_uleb (p ++ rest) = Some (blen body, rest).
Proof. exact cfi_prefix_exact. Qed.

(* ------------------------------------------------------------------ (3) what was written decodes to what was built *)

(* One operation: its bytes, followed by anything, decode (by the independent table) to one operation in the
   normal form of the operation built — lit0..31 for small constu, reg0..31 / breg0..31 for small registers,
   dup / over for pick 0 / 1, DW_OP_* for version >= 5 and DW_OP_GNU_* below, address-sized implicit_pointer
   reference in version 2, address-size deref, the unit offset of the entry for typed operations — consuming
   exactly those bytes. *)
Theorem decode_written_one : forall dbg e uo refs offsets pos o bs fx rest,
  wf_op o = true -> wf_uoffs uo = true -> decodable o = true ->
  pos + blen bs < 2 ^ 63 -> Forall (fun x => x < 2 ^ 63) offsets ->
  write_op dbg e uo refs offsets pos o = Ok (bs, fx) ->
  exists d, decode_one (dcfg_of e) (bs ++ rest) = Some (d, rest) /\
            normal_form dbg e uo refs offsets pos o bs d.
Proof. exact decode_written_op. Qed.

(* The whole expression decodes to as many operations as were built, the k-th at the offset the k-th was
   written at and in the normal form of the k-th. (normal_form of an entry_value says its block is the written
   inner expression, to which this theorem applies again.) *)
Theorem decode_written : forall dbg e uo refs base ex bs fx,
  forallb wf_op ex = true -> wf_uoffs uo = true -> forallb decodable ex = true ->
  base + blen bs < 2 ^ 63 ->
  write_expr dbg e uo refs base ex = Ok (bs, fx) ->
  exists offsets dl,
    expr_offsets dbg e uo base ex = Ok offsets /\
    decode (dcfg_of e) bs = Some dl /\
    decoded (fun p o d => exists b, normal_form dbg e uo refs offsets p o b d) base ex offsets dl.
Proof. exact decode_written_expr. Qed.

(* ------------------------------------------------------------------ (4) branches *)

(* Every DW_OP_skip / DW_OP_bra decodes with a displacement that, added to the offset just after the 3-byte
   operation, gives the offset at which the target operation starts (the end of the expression for target =
   number of operations). *)
Theorem branches_land : forall dbg e uo refs base ex bs fx,
  forallb wf_op ex = true -> wf_uoffs uo = true -> forallb decodable ex = true ->
  base + blen bs < 2 ^ 63 ->
  write_expr dbg e uo refs base ex = Ok (bs, fx) ->
  exists dl,
    decode (dcfg_of e) bs = Some dl /\ length dl = length ex /\
    (forall k t, nth_error ex k = Some (WoSkip t) ->
       exists off disp tgt, nth_error dl k = Some (off, DoSkip disp) /\
                            nth_error (starts dl bs) (N.to_nat t) = Some tgt /\
                            (Z.of_N off + 3 + disp = Z.of_N tgt)%Z) /\
    (forall k t, nth_error ex k = Some (WoBranch t) ->
       exists off disp tgt, nth_error dl k = Some (off, DoBra disp) /\
                            nth_error (starts dl bs) (N.to_nat t) = Some tgt /\
                            (Z.of_N off + 3 + disp = Z.of_N tgt)%Z).
Proof. exact branches_land_expr. Qed.

(* Exact behaviour of the two branch arms: the displacement is target position minus the position after the
   operation; if it does not fit i16 the result is Err ValueTooLarge (never a wrapped displacement); a target
   index beyond the offsets vector is a panic (`offsets[target]`; see unset_target_panics). *)
Theorem branch_write_exact : forall dbg e uo refs offsets pos t,
  pos + 3 < 2 ^ 63 -> Forall (fun x => x < 2 ^ 63) offsets ->
  let result (opc : N) :=
    match nth_N offsets t with
    | None => Panic
    | Some tv =>
        let d := (Z.of_N tv - (Z.of_N pos + 3))%Z in
        if in_signed 16 d then Ok (n2b opc :: enc_un 2 (e_be e) (of_signed 16 d), [])
        else Err WValueTooLarge
    end in
  write_op dbg e uo refs offsets pos (WoSkip t) = result 47 /\
  write_op dbg e uo refs offsets pos (WoBranch t) = result 40.
Proof. exact branch_write_spec. Qed.

(* ------------------------------------------------------------------ (5) references to entries *)

(* Where a unit offset comes from: no table (CFI) and a not-yet-assigned entry are the two specific errors.
   (wrglue follow-up) An id beyond the entries vector — reserved and never added — is "not assigned" too: since /repo
   fix c42c00d UnitOffsets::debug_info_offset answers None for it (`self.entries.get(index)?`), so it is the
   forward-reference error, not a panic; the model had kept the index panic and is corrected. For ids inside the
   vector the statement is unchanged. *)
Theorem entry_offset_exact : forall dbg uo en,
  entry_offset dbg uo en =
  match uo with
  | None => Err WUnsupportedCfiExpressionReference
  | Some u =>
      match nth_N (uo_entries u) en with
      | None => Err WUnsupportedExpressionForwardReference
      | Some off =>
          if off =? 0 then Err WUnsupportedExpressionForwardReference
          else chk_sub 64 dbg off (uo_unit u)
      end
  end.
Proof. exact entry_offset_cases. Qed.

(* Typed operations, call and parameter_ref embed the target's unit offset (normal_form above); without it both
   passes fail with that error — except that size() of call/parameter_ref does not look (fixed 4 bytes). *)
Theorem refs_need_offset : forall dbg e uo refs offsets pos o en er,
  uses_entry o = Some en -> wf_op o = true ->
  entry_offset dbg uo en = Err er ->
  write_op dbg e uo refs offsets pos o = Err er /\
  match o with
  | WoCall _ | WoParameterRef _ => True
  | _ => size_op dbg e uo o = Err er
  end.
Proof. exact typed_ref_needs_offset. Qed.

(* call_ref / variable_value / implicit_pointer write a zero placeholder of the reference size and push exactly
   one fix-up pointing at it; symbols (plain writer) and a missing fix-up list (CFI) are InvalidReference. *)
Theorem ref_fixup : forall dbg e uo refs offsets pos o r size,
  ref_operand e o = Some (r, size) ->
  match r with
  | RSym _ => write_op dbg e uo refs offsets pos o = Err WInvalidReference
  | REntry u en =>
      if refs then
        forall bs fx, write_op dbg e uo refs offsets pos o = Ok (bs, fx) ->
          fx = [{| fx_offset := pos + 1; fx_size := size; fx_unit := u; fx_entry := en |}] /\
          exists opc z tail, bs = opc :: z ++ tail /\ write_udata (e_be e) 0 size = Ok z
      else write_op dbg e uo refs offsets pos o = Err WInvalidReference
  end.
Proof. exact ref_write_spec. Qed.

(* Applying a fix-up puts the target's .debug_info offset, in the reference size, at the placeholder and
   changes nothing before it or after it. *)
Theorem fixup_resolved : forall be units sec_base buf f buf' u off,
  apply_fixups be units sec_base buf [f] = Ok buf' ->
  nth_N units (fx_unit f) = Some u -> debug_info_offset u (fx_entry f) = Ok (Some off) -> off < 2 ^ 64 ->
  let at_ := N.to_nat (fx_offset f - sec_base) in
  length buf' = length buf /\
  firstn at_ buf' = firstn at_ buf /\
  exists tail, skipn at_ buf' = tail /\
    rd_sized be (fx_size f) tail = Some (off, skipn (at_ + N.to_nat (fx_size f)) buf).
Proof. exact fixup_resolves. Qed.

(* ------------------------------------------------------------------ (6) no panic *)

(* On values of the Rust types, with every branch target naming an operation of its own (sub)expression or its
   end, every looked-up entry inside the unit-offset table, and an expression smaller than 2^63 bytes by the
   crude count `weights` (300 per operation + blobs + nested), neither Expression::size nor Expression::write
   panics, in either build mode: no usize/i64 overflow, no index out of range, and the three debug_assert_eq!s
   of Expression::write hold. (Real stack depth is outside the model: known finding, stream c15.nest.) *)
Theorem no_panic : forall dbg e uo refs base ex,
  wf_enc e = true -> wf_uoffs uo = true ->
  forallb wf_op ex = true -> targets_ok ex = true -> lookups_ok dbg uo (flat_map op_entries ex) ->
  base + weights ex < 2 ^ 63 ->
  np (size_expr dbg e uo ex) /\ np (write_expr dbg e uo refs base ex).
Proof. exact write_expr_no_panic. Qed.

(* The target hypothesis is needed: a branch whose target index is not in the offsets vector — in particular
   one whose set_target was never called (target = usize::MAX) — panics in write, in both build modes. *)
Theorem unset_target_panics : forall dbg e uo refs offsets pos t,
  N.of_nat (length offsets) <= t ->
  write_op dbg e uo refs offsets pos (WoSkip t) = Panic /\ write_op dbg e uo refs offsets pos (WoBranch t) = Panic.
Proof. exact bad_target_panics. Qed.

(* ------------------------------------------------------------------ non-vacuity *)

Definition enc4 : enc := {| e_version := 4; e_fmt64 := false; e_asize := 8; e_be := false |}.
Definition enc5 : enc := {| e_version := 5; e_fmt64 := true; e_asize := 4; e_be := true |}.
(* entries 0 (root), 1, 2 have offsets, entry 3 has none yet; the unit starts at section offset 17 *)
Definition tbl : uoffs := {| uo_unit := 17; uo_entries := [28; 29; 31; 0] |}.

(* constu 5 (lit5); skip -> op 4; bregx 40,-8; entry_value { reg5; bra -> its op 0 }; pick 2; deref_type 4, entry 2 *)
Definition ex1 : wexpr :=
  [WoUConst 5; WoSkip 4; WoRegOffset 40 (-8); WoEntryValue [WoRegister 5; WoBranch 0]; WoPick 2; WoDerefType false 4 2].

Example ex1_written :
  write_expr true enc4 (Some tbl) true 100 ex1 =
  Ok ([x35; x2f; x09; x00; x92; x28; x78; xf3; x04; x55; x28; xfc; xff; x15; x02; xf6; x04; x0e], []).
Proof. vm_compute. reflexivity. Qed.

Example ex1_size : size_expr true enc4 (Some tbl) ex1 = Ok 18.
Proof. vm_compute. reflexivity. Qed.

Example ex1_hyps :
  forallb wf_op ex1 = true /\ forallb decodable ex1 = true /\ wf_uoffs (Some tbl) = true /\ wf_enc enc4 = true /\
  targets_ok ex1 = true /\ 100 + weights ex1 < 2 ^ 63.
Proof. vm_compute. repeat split; reflexivity. Qed.

Example ex1_lookups : lookups_ok true (Some tbl) (flat_map op_entries ex1).
Proof. apply lookups_ok_table. intros en [<-|[]]. exists 31. split; [reflexivity|right; vm_compute; discriminate]. Qed.

(* the table's view of those bytes: skip +9 from offset 4 (the end of the skip) lands on offset 13 = start of the fifth operation *)
Example ex1_decoded :
  decode (dcfg_of enc4) [x35; x2f; x09; x00; x92; x28; x78; xf3; x04; x55; x28; xfc; xff; x15; x02; xf6; x04; x0e] =
  Some [(0, DoUConst 5); (1, DoSkip 9); (4, DoRegOffset 40 (-8) 0); (7, DoEntryValue [x55; x28; xfc; xff]);
        (13, DoPick 2); (15, DoDeref 14 4 false)].
Proof. vm_compute. reflexivity. Qed.

(* version 5, big endian, 64-bit format: DW_OP_ forms, 8-byte call_ref placeholder with its fix-up *)
Example ex2_written :
  write_expr false enc5 (Some tbl) true 0 [WoCallRef (REntry 0 2); WoConstType 1 [x01; x02]] =
  Ok ([x9a; x00; x00; x00; x00; x00; x00; x00; x00; xa4; x0c; x02; x01; x02],
      [{| fx_offset := 1; fx_size := 8; fx_unit := 0; fx_entry := 2 |}]).
Proof. vm_compute. reflexivity. Qed.

(* the errors of (5) and (4) are reachable *)
Example forward_ref : write_expr true enc4 (Some tbl) true 0 [WoDerefType false 4 3] = Err WUnsupportedExpressionForwardReference.
Proof. vm_compute. reflexivity. Qed.
Example forward_ref_size : size_expr true enc4 (Some tbl) [WoDerefType false 4 3] = Err WUnsupportedExpressionForwardReference.
Proof. vm_compute. reflexivity. Qed.
Example beyond_vector_ref :
  write_expr true enc4 (Some tbl) true 0 [WoDerefType false 4 9] = Err WUnsupportedExpressionForwardReference /\
  size_expr false enc4 (Some tbl) [WoDerefType false 4 9] = Err WUnsupportedExpressionForwardReference /\
  write_expr false enc4 (Some tbl) true 0 [WoCall 9] = Err WUnsupportedExpressionForwardReference /\
  apply_fixups false [tbl] 0 [x00; x00; x00; x00] [{| fx_offset := 0; fx_size := 4; fx_unit := 0; fx_entry := 9 |}] = Err WInvalidReference.
Proof. vm_compute. repeat split; reflexivity. Qed.
Example cfi_ref : write_expr true enc4 None false 0 [WoCall 1] = Err WUnsupportedCfiExpressionReference.
Proof. vm_compute. reflexivity. Qed.
Example sym_ref : write_expr true enc4 (Some tbl) true 0 [WoVarValue (RSym 1)] = Err WInvalidReference.
Proof. vm_compute. reflexivity. Qed.
Example unset_target : write_expr false enc4 None false 0 [WoSkip usize_max; WoUConst 1] = Panic.
Proof. vm_compute. reflexivity. Qed.
Example tbl_extends : extends tbl {| uo_unit := 17; uo_entries := [28; 29; 31; 40] |}.
Proof.
  split; [reflexivity|]. intros en off H Hne. rewrite nth_N_nth_error in *. cbn [uo_entries] in *.
  destruct (N.to_nat en) as [|[|[|[|k]]]]; cbn [nth_error] in *;
    try (inversion H; subst; reflexivity); try (inversion H; subst; congruence).
  all: try (destruct k; discriminate).
Qed.

(* the embeddings succeed on ex1 and their hypotheses are met *)
Example ex1_exprloc : exists bs fx, write_exprloc true enc4 (Some tbl) 100 ex1 = Ok (bs, fx) /\ blen bs = 19.
Proof. eexists. eexists. split; vm_compute; reflexivity. Qed.
Example ex1_loc : exists bs fx, write_loc_expression true enc4 (Some tbl) 18 ex1 = Ok (bs, fx) /\ blen bs = 20.
Proof. eexists. eexists. split; vm_compute; reflexivity. Qed.
Example ex1_cfi : exists bs fx,
  write_cfi_expression false enc4 64 [WoRegOffset 7 8; WoDeref false; WoSkip 3] = Ok (bs, fx) /\ blen bs = 7.
Proof. eexists. eexists. split; vm_compute; reflexivity. Qed.

(* the fix-up of ex2 resolved against a table in which entry 2 of unit 0 sits at .debug_info offset 31 *)
Example ex2_fixed_up :
  apply_fixups true [tbl] 0 [x9a; x00; x00; x00; x00; x00; x00; x00; x00; xa4; x0c; x02; x01; x02]
               [{| fx_offset := 1; fx_size := 8; fx_unit := 0; fx_entry := 2 |}] =
  Ok [x9a; x00; x00; x00; x00; x00; x00; x00; x1f; xa4; x0c; x02; x01; x02].
Proof. vm_compute. reflexivity. Qed.

(* a displacement that does not fit i16 *)
Example far_branch :
  write_op true enc4 None false [0; 3; 40003] 0 (WoSkip 2) = Err WValueTooLarge.
Proof. vm_compute. reflexivity. Qed.

(* ------------------------------------------------------------------ composition with the reader / evaluator models (C07) *)

(* The independent table of Spec/OpEncSpec.v and the reader model OpDec.parse_op (mirror of read::Operation::parse)
   agree on every opcode and every operand byte string: whatever the table decodes, the reader decodes to the
   corresponding operation (OpRoundtrip.tr) and leaves the same rest, in either build mode. *)
Theorem table_agrees_with_reader : forall (rdbg : bool) (c : dcfg) (bs : list byte) (d : dop) (rest : list byte),
  decode_one c bs = Some (d, rest) ->
  exists o, OpRoundtrip.tr d = Some o /\ OpDec.parse_op rdbg (OpRoundtrip.renc c) bs = Ok (o, rest).
Proof. exact OpRoundtrip.table_agrees_with_reader. Qed.

(* (a) Iterating the reader over what write::Expression emitted ends normally (no error, no leftover) and yields,
   in order, exactly the reader's forms of the normal forms of the built operations. *)
Theorem decode_written_by_reader : forall dbg rdbg e uo refs base ex bs fx,
  forallb wf_op ex = true -> wf_uoffs uo = true -> forallb decodable ex = true ->
  base + blen bs < 2 ^ 63 ->
  write_expr dbg e uo refs base ex = Ok (bs, fx) ->
  exists offsets dl ros,
    expr_offsets dbg e uo base ex = Ok offsets /\
    decoded (fun p o d => exists b, normal_form dbg e uo refs offsets p o b d) base ex offsets dl /\
    OpDec.operations rdbg (OpRoundtrip.renc (dcfg_of e)) bs = (ros, None) /\
    map (fun x => OpRoundtrip.tr (snd x)) dl = map Some ros.
Proof. exact OpRoundtrip.decode_written_by_reader_lemma. Qed.

(* (b) Every written DW_OP_skip (is_skip = true) / DW_OP_bra: the reader parses its three bytes to Skip/Bra disp, and
   the evaluator's compute_pc, standing just after them in the written bytecode, moves the pc to post_t: the
   written bytes minus pre_t, where pre_t is exactly the emission of the first t operations. The branch lands on
   the first byte of operation t (or on the end for t = number of operations). *)
Theorem branches_land_reader : forall (is_skip : bool) dbg rdbg e uo refs base ex bs fx,
  base + blen bs < 2 ^ 63 ->
  write_expr dbg e uo refs base ex = Ok (bs, fx) ->
  forall k t, nth_error ex k = Some (if is_skip then WoSkip t else WoBranch t) ->
  exists pre_k b post_k disp pre_t post_t offsets offs' fx',
    bs = pre_k ++ b ++ post_k /\ length b = 3%nat /\
    OpDec.parse_op rdbg (OpRoundtrip.renc (dcfg_of e)) (b ++ post_k) =
      Ok ((if is_skip then OpDec.OSkip disp else OpDec.OBra disp), post_k) /\
    bs = pre_t ++ post_t /\
    expr_offsets dbg e uo base ex = Ok offsets /\
    laid (write_op dbg e uo refs offsets) base (firstn (N.to_nat t) ex) offs' pre_t fx' /\
    forall s, OpEval.s_bytecode s = bs -> OpEval.s_pc s = post_k -> OpEval.compute_pc s disp = Ok post_t.
Proof. exact OpRoundtrip.branch_lands. Qed.

Example ex1_by_reader :
  OpDec.operations true (OpRoundtrip.renc (dcfg_of enc4))
    [x35; x2f; x09; x00; x92; x28; x78; xf3; x04; x55; x28; xfc; xff; x15; x02; xf6; x04; x0e] =
  ([OpDec.OUnsignedConstant 5; OpDec.OSkip 9; OpDec.ORegisterOffset 40 (-8) 0; OpDec.OEntryValue [x55; x28; xfc; xff];
    OpDec.OPick 2; OpDec.ODeref 14 4 false], None).
Proof. vm_compute. reflexivity. Qed.

(* The evaluator model does not see the layout of a program: two bytecodes P1, P2 that decode, at corresponding
   boundaries `pts`, to the same operations with Skip/Bra displacements reaching corresponding boundaries
   (OpEvalSim.layout_ok) give the same conversation: same requests, same final pieces / value / counters or the
   same error, for every fops, fuel, build mode, configuration (with that encoding) and answer list. *)
Theorem eval_layout_independent : forall (F : OpVal.fops) (e' : OpDec.enc) (P1 P2 : list byte) (pts : list (nat * nat)),
  OpEvalSim.layout_ok e' P1 P2 pts ->
  forall fuel dbg c answers, OpEval.c_enc c = e' ->
    OpEval.run F fuel dbg c P1 answers = OpEval.run F fuel dbg c P2 answers.
Proof. exact OpEvalSim.run_layout_independent. Qed.

(* (c) eval_same: for every expression decode_written covers, evaluating the bytes write::Expression emitted gives
   the same conversation as evaluating the canonical encoding (StackSpec.enc_op: DWARF 5 opcodes, constu/regx/bregx/
   pick/deref_size instead of the short forms, minimal LEB128) of the operations the reader sees in them, with every
   branch re-aimed at the canonical encoding's own boundary of the same target operation (OpEvalSame.canon_ops).
   The only side conditions left concern the canonical program and are decidable per instance: canon_ops succeeds
   (every branch reaches a boundary — true by branches_land — and the re-computed displacements still fit i16, which
   the longer canonical forms can break) and it is shorter than 2^63 bytes. Its operations are automatically values
   of gimli's Operation type (OpParseWf.parse_wf: whatever the reader decodes is StackSpec.wf_op, every opcode). *)
Theorem eval_same : forall dbg0 e uo refs base ex bs fx,
  wf_enc e = true ->
  forallb wf_op ex = true -> wf_uoffs uo = true -> forallb decodable ex = true ->
  base + blen bs < 2 ^ 63 ->
  write_expr dbg0 e uo refs base ex = Ok (bs, fx) ->
  exists dl ros1,
    decode (dcfg_of e) bs = Some dl /\
    OpDec.operations true (OpRoundtrip.renc (dcfg_of e)) bs = (ros1, None) /\
    map (fun x => OpRoundtrip.tr (snd x)) dl = map Some ros1 /\
    forall ops2,
      OpEvalSame.canon_ops (OpRoundtrip.renc (dcfg_of e)) dl bs ros1 = Some ops2 ->
      N.of_nat (length (OpEvalSame.canon_bytes (OpRoundtrip.renc (dcfg_of e)) ops2)) < 2 ^ 63 ->
      forall F fuel dbg c answers, OpEval.c_enc c = OpRoundtrip.renc (dcfg_of e) ->
        OpEval.run F fuel dbg c bs answers =
        OpEval.run F fuel dbg c (OpEvalSame.canon_bytes (OpRoundtrip.renc (dcfg_of e)) ops2) answers.
Proof. exact OpEvalSame.eval_same_final. Qed.

(* Whatever the reader model decodes is a value of gimli's Operation type (field widths, registers below 2^16, piece
   sizes whole bytes, ...) — every opcode; so StackSpec.decode_roundtrip applies to every decoded operation. *)
Theorem reader_output_wf : forall dbg e' bs o r,
  OpDec.e_asz e' < 256 -> OpDec.parse_op dbg e' bs = Ok (o, r) -> StackSpec.wf_op e' o.
Proof. exact OpParseWf.parse_wf. Qed.

(* ex1: its canonical re-encoding exists (skip +9 stays +9: 5+9 = 14 = canonical start of pick), is well-formed,
   and is a different byte string *)
Definition ex1_bytes : list byte := [x35; x2f; x09; x00; x92; x28; x78; xf3; x04; x55; x28; xfc; xff; x15; x02; xf6; x04; x0e].
Definition ex1_ros : list OpDec.operation :=
  [OpDec.OUnsignedConstant 5; OpDec.OSkip 9; OpDec.ORegisterOffset 40 (-8) 0; OpDec.OEntryValue [x55; x28; xfc; xff];
   OpDec.OPick 2; OpDec.ODeref 14 4 false].
Example ex1_canon :
  OpEvalSame.canon_ops (OpRoundtrip.renc (dcfg_of enc4))
    [(0, DoUConst 5); (1, DoSkip 9); (4, DoRegOffset 40 (-8) 0); (7, DoEntryValue [x55; x28; xfc; xff]);
     (13, DoPick 2); (15, DoDeref 14 4 false)] ex1_bytes ex1_ros = Some ex1_ros /\
  OpEvalSame.canon_bytes (OpRoundtrip.renc (dcfg_of enc4)) ex1_ros =
    [x10; x05; x2f; x09; x00; x92; x28; x78; xa3; x04; x55; x28; xfc; xff; x15; x02; xa6; x04; x0e] /\
  Forall (StackSpec.wf_op (OpRoundtrip.renc (dcfg_of enc4))) ex1_ros.
Proof.
  split; [vm_compute; reflexivity|]. split; [vm_compute; reflexivity|].
  repeat constructor; try (vm_compute; reflexivity); try (intros H; now elim H).
Qed.

(* ================================================================ GLUE with C11 / C16 (Model/UnitGlueWr.v, stream c11.glue)
   Where the fix-ups of an expression end up once the expression is embedded by the unit writer (DW_FORM_exprloc
   attribute) or by the location-list writer (loc.rs write_expression).  Compositions of the theorems above with C11 /
   C16 (Proofs/WriterGlueProofs.v); the unit-level statements are in Properties/C11.v (exprloc_attr_roundtrip,
   glue_offsets_exact), the list-level ones in Properties/C16.v. *)
Require GV.Spec.UnitWrSpec GV.Model.UnitWr GV.Model.UnitGlueWr GV.Model.ListsWr GV.Spec.ListWrSpec GV.Proofs.WriterGlueProofs.

(* ref_fixup along a laid-out expression: the k-th operation, if it is call_ref / variable_value / implicit_pointer
   naming entry (u, en), starts at offsets[k] and ITS fix-up — unit u, entry en, the reference size of that operation —
   points at offsets[k] + 1, the first byte of the operand.  With `laid` started at (attribute position + prefix
   length) resp. (list offset + entry offset + entry head + prefix length) this is the position inside the section. *)
Theorem ref_fixups_at_operands : forall dbg e uo offsets ex pos offs bs fx,
  laid (write_op dbg e uo true offsets) pos ex offs bs fx ->
  forall k o u en size, nth_error ex k = Some o -> ref_operand e o = Some (REntry u en, size) ->
  exists p, nth_error offs k = Some p /\
            In {| fx_offset := p + 1; fx_size := size; fx_unit := u; fx_entry := en |} fx.
Proof. exact WriterGlueProofs.laid_ref_fixups. Qed.

(* loc.rs write_expression inside a list entry that starts at section position `pos` with the bytes `h` (kind byte,
   addresses / offsets) before the expression: it appends exactly what C16's raw model appends for the byte string
   `d` the expression is written as (u16 / ULEB length prefix p, then d), and the operations — hence the fix-ups, which
   go to the list handed in: debug_loc_fixups (v <= 4) or debug_loclists_fixups (v = 5) — are laid out from
   pos + |h| + |p| *)
Theorem loc_expression_in_entry : forall dbg oe uo pos h ex bs fx,
  UnitGlueWr.gentry_tail dbg oe uo pos h ex = Ok (bs, fx) -> pos + blen bs < 2 ^ 64 ->
  exists p d offsets,
    bs = h ++ p ++ d /\
    ListsWr.opt_expression true (e_be oe) (e_version oe) d = Ok (p ++ d) /\
    write_expr dbg oe (Some uo) true (pos + blen h + blen p) ex = Ok (d, fx) /\
    laid (write_op dbg oe (Some uo) true offsets) (pos + blen h + blen p) ex offsets d fx.
Proof. exact WriterGlueProofs.gentry_tail_raw. Qed.

(* a whole DWARF 5 location list written at `pos`: its bytes are C16's write_list_v5 on the raw view of the list
   (each expression replaced by the bytes it is written as), and they split into consecutive entries, each with its
   expression laid out (entry_laid) and contributing exactly its fix-ups, in order *)
Theorem loclist_v5_fixups : forall dbg oe uo asz l pos bs fx,
  UnitGlueWr.gwrite_list_v5 dbg oe uo asz pos l = Ok (bs, fx) -> pos + blen bs < 2 ^ 64 ->
  exists raws chunks,
    Forall2 (WriterGlueProofs.raw_rel dbg oe uo) l raws /\
    ListsWr.write_list_v5 true (e_be oe) (e_version oe) asz raws = Ok bs /\
    bs = concat chunks ++ [n2b 0] /\ WriterGlueProofs.list_laid dbg oe uo pos l chunks fx.
Proof. exact WriterGlueProofs.gwrite_list_v5_raw. Qed.

Example loc_expression_in_entry_ex :
  UnitGlueWr.gentry_tail true enc4 tbl 100 [x01; x02] [WoCallRef (REntry 0 1); WoUConst 5] =
    Ok ([x01; x02; x06; x00; x9a; x00; x00; x00; x00; x35], [{| fx_offset := 105; fx_size := 4; fx_unit := 0; fx_entry := 1 |}]) /\
  UnitGlueWr.gwrite_list_v5 true enc5 tbl 4 20 [UnitGlueWr.GLDefault [WoVarValue (REntry 1 2)]] =
    Ok ([x05; x09; xfd; x00; x00; x00; x00; x00; x00; x00; x00; x00], [{| fx_offset := 23; fx_size := 8; fx_unit := 1; fx_entry := 2 |}]).
Proof. vm_compute. split; reflexivity. Qed.

Check ref_fixups_at_operands : forall dbg e uo offsets ex pos offs bs fx,
  laid (write_op dbg e uo true offsets) pos ex offs bs fx ->
  forall k o u en size, nth_error ex k = Some o -> ref_operand e o = Some (REntry u en, size) ->
  exists p, nth_error offs k = Some p /\ In {| fx_offset := p + 1; fx_size := size; fx_unit := u; fx_entry := en |} fx.

(* the DWARF 2-4 list (LocationListTable::write_loc, one list, have_base_address threaded): same statement as
   loclist_v5_fixups with C16's write_list_v4; `tail` is the (0,0) terminator *)
Theorem loclist_v4_fixups : forall dbg oe uo asz mk l hb pos bs fx,
  UnitGlueWr.gwrite_list_v4 dbg oe uo asz mk hb pos l = Ok (bs, fx) -> pos + blen bs < 2 ^ 64 ->
  exists raws chunks tail,
    Forall2 (WriterGlueProofs.raw_rel dbg oe uo) l raws /\
    ListsWr.write_list_v4 true (e_be oe) (e_version oe) asz mk hb raws = Ok bs /\
    bs = concat chunks ++ tail /\ WriterGlueProofs.list_laid dbg oe uo pos l chunks fx.
Proof. exact WriterGlueProofs.gwrite_list_v4_raw. Qed.

Example loclist_v4_fixups_ex :
  UnitGlueWr.gwrite_list_v4 true enc4 tbl 8 (2 ^ 64 - 1) false 64 [UnitGlueWr.GLStartEnd (ListWrSpec.AConst 1) (ListWrSpec.AConst 2) [WoCallRef (REntry 0 1)]] =
    Ok ([x01; x00; x00; x00; x00; x00; x00; x00; x02; x00; x00; x00; x00; x00; x00; x00; x05; x00; x9a; x00; x00; x00; x00;
         x00; x00; x00; x00; x00; x00; x00; x00; x00; x00; x00; x00; x00; x00; x00; x00],
        [{| fx_offset := 83; fx_size := 4; fx_unit := 0; fx_entry := 1 |}]).
Proof. vm_compute. reflexivity. Qed.
