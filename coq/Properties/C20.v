(* Properties/C20.v — "Reused contexts, buffers, iterators and caches behave like fresh ones".
   Clause 1 (this section): the unwind context. Statements only; proofs in Proofs/CfiRunProofs.v.
   These are easy IN THE MODEL because the model's `initialize` starts with `reset` — mirroring
   src/read/cfi.rs. That the Rust really resets is what the impl-side oracle of stream c20.hist checks
   (every history up to length 3/4 over a pool of failing and succeeding FDEs, reused vs fresh).
   Other clauses (entry buffers, EntriesTree re-rooting, iterator clones, abbreviation caches) are to be
   appended below by their owners. *)
From Coq Require Import List NArith ZArith Bool.
Require Import GV.Base.Res GV.Spec.CfaSpec GV.Model.CfiRun GV.Proofs.CfiRunProofs.
Import ListNotations.
Local Open Scope N_scope.

(* ------------------------------------------------------------ unwind context *)

(* any context at all — reachable or not, after a failure or mid-table — resets to the fresh one *)
Theorem reset_is_fresh : forall caps cx, reset caps cx = new_ctx caps.
Proof. exact reset_is_fresh_thm. Qed.

Theorem initialize_history_free : forall dbg caps f cx cx',
  initialize dbg caps f cx = initialize dbg caps f cx'.
Proof. exact initialize_history_free_thm. Qed.

(* a history of uses (iterate all rows / abandon the table after k rows / look an address up) of FDEs
   that may fail in the CIE's initial instructions, mid-FDE, by StackFull or TooManyRegisterRules, for
   every storage capacity: the results on ONE context are the results each use gives on any other
   context [cx0] ... *)
Theorem history_independent : forall dbg caps (h : list use) (cx cx0 : ctx),
  run_history dbg caps h cx = map (fun u => fst (use_ctx dbg caps u cx0)) h.
Proof. exact history_independent_thm. Qed.

(* ... in particular a fresh one per use *)
Theorem history_equals_fresh : forall dbg caps (h : list use) (cx cx0 : ctx),
  new_ctx caps = Ok cx0 -> run_history dbg caps h cx = run_fresh dbg caps h.
Proof. exact history_fresh_thm. Qed.

(* example: a failing CIE (restore in the initial instructions, after dirtying the row and pushing state),
   a StackFull FDE, then a clean FDE with one initial rule, all on a context that starts in an
   unreachable state *)
Definition heap : caps := {| max_stack := Some 4%nat; max_rules := Some 192%nat |}.
Definition enc (l : list wire) := concat (map (enc_wire false 8) l).
Definition mk (cie fde : list wire) : fde_in :=
  {| f_caf := 1; f_daf := -8; f_asize := 8; f_be := false; f_aarch64 := false; f_init := 4096; f_range := 64;
     f_cie_off := 20; f_cie := enc cie; f_fde_off := 60; f_fde := enc fde |}.
Definition junk : ctx := {| c_stack := []; c_initial_rule := Some None; c_init := true |}.
Definition ex_history : list use :=
  [ (mk [WDefCfaExpression []; WOffset0 1 1; WRememberState; WRestore0 1] [WAdvanceLoc0 1], Rows None);
    (mk [WOffset0 5 1] [WRememberState; WRememberState; WRememberState; WRememberState], Rows (Some 2%nat));
    (mk [WOffset0 16 1] [WAdvanceLoc0 2; WUndefined 16; WAdvanceLoc0 2; WRestore0 16], At 4098) ].

Example history_example :
  new_ctx heap <> Panic /\
  map snd (run_history true heap ex_history junk) =
    [Fail ECfiInstructionInInvalidContext; Fail EStackFull; Done] /\
  run_history true heap ex_history junk = run_fresh true heap ex_history.
Proof. vm_compute. repeat split. discriminate. Qed.

Check history_independent : forall dbg caps (h : list use) (cx cx0 : ctx),
  run_history dbg caps h cx = map (fun u => fst (use_ctx dbg caps u cx0)) h.

(* ------------------------------------------------------------------------------------------
   Abbreviation caches: whatever the strategy (Duplicates keeps the offsets seen at least twice, All keeps
   all) and whatever units were scanned, a lookup through the cache returns exactly what parsing the
   offset returns — `parse` is DebugAbbrev::abbreviations on the immutable section, Ok or Err alike. *)
Require Import GV.Model.AbbrevCache GV.Proofs.AbbrevCacheProofs.

Theorem cache_transparent : forall (A : Type) (parse : N -> A) (s : strategy) (unit_offsets : list N) (o : N),
  get parse (populate parse s unit_offsets) o = parse o.
Proof. intros A parse. exact (cache_transparent_lemma parse). Qed.

Theorem cache_repopulate : forall (A : Type) (parse : N -> A) s1 offs1 s2 offs2 (o : N),
  get parse (populate parse s2 offs2) o = get parse (populate parse s1 offs1) o.
Proof. intros A parse. exact (cache_repopulate_lemma parse). Qed.

Example cache_duplicates_keeps_repeated : cached_offsets Duplicates [8; 0; 8; 3; 0; 8]%N = [0; 8]%N.
Proof. vm_compute. reflexivity. Qed.
Example cache_all_keeps_each_once : cached_offsets All [8; 0; 8; 3; 0; 8]%N = [0; 3; 8]%N.
Proof. vm_compute. reflexivity. Qed.
