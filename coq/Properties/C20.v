(* Properties/C20.v — "Reused contexts, buffers, iterators and caches behave like fresh ones".
   Clause 1 (this section): the unwind context. Statements only; proofs in Proofs/CfiRunProofs.v.
   These are easy IN THE MODEL because the model's `initialize` starts with `reset` — mirroring
   src/read/cfi.rs. That the Rust really resets is what the impl-side oracle of stream c20.hist checks
   (every history up to length 3/4 over a pool of failing and succeeding FDEs, reused vs fresh).
   Other clauses (entry buffers, EntriesTree re-rooting, iterator clones, abbreviation caches) are to be
   appended below by their owners. *)
From Coq Require Import List NArith ZArith Bool.
Require Import GV.Base.Res GV.Spec.CfaSpec GV.Model.CfiRun GV.Proofs.CfiRunProofs.
Import ListNotations.
Local Open Scope N_scope.

(* ------------------------------------------------------------ unwind context *)

(* any context at all — reachable or not, after a failure or mid-table — resets to the fresh one *)
Theorem reset_is_fresh : forall caps cx, reset caps cx = new_ctx caps.
Proof. exact reset_is_fresh_thm. Qed.

Theorem initialize_history_free : forall dbg caps f cx cx',
  initialize dbg caps f cx = initialize dbg caps f cx'.
Proof. exact initialize_history_free_thm. Qed.

(* a history of uses (iterate all rows / abandon the table after k rows / look an address up) of FDEs
   that may fail in the CIE's initial instructions, mid-FDE, by StackFull or TooManyRegisterRules, for
   every storage capacity: the results on ONE context are the results each use gives on any other
   context [cx0] ... *)
Theorem history_independent : forall dbg caps (h : list use) (cx cx0 : ctx),
  run_history dbg caps h cx = map (fun u => fst (use_ctx dbg caps u cx0)) h.
Proof. exact history_independent_thm. Qed.

(* ... in particular a fresh one per use *)
Theorem history_equals_fresh : forall dbg caps (h : list use) (cx cx0 : ctx),
  new_ctx caps = Ok cx0 -> run_history dbg caps h cx = run_fresh dbg caps h.
Proof. exact history_fresh_thm. Qed.

(* example: a failing CIE (restore in the initial instructions, after dirtying the row and pushing state),
   a StackFull FDE, then a clean FDE with one initial rule, all on a context that starts in an
   unreachable state *)
Definition heap : caps := {| max_stack := Some 4%nat; max_rules := Some 192%nat |}.
Definition enc (l : list wire) := concat (map (enc_wire false 8) l).
Definition mk (cie fde : list wire) : fde_in :=
  {| f_caf := 1; f_daf := -8; f_asize := 8; f_be := false; f_aarch64 := false; f_init := 4096; f_range := 64;
     f_cie_off := 20; f_cie := enc cie; f_fde_off := 60; f_fde := enc fde |}.
Definition junk : ctx := {| c_stack := []; c_initial_rule := Some None; c_init := true |}.
Definition ex_history : list use :=
  [ (mk [WDefCfaExpression []; WOffset0 1 1; WRememberState; WRestore0 1] [WAdvanceLoc0 1], Rows None);
    (mk [WOffset0 5 1] [WRememberState; WRememberState; WRememberState; WRememberState], Rows (Some 2%nat));
    (mk [WOffset0 16 1] [WAdvanceLoc0 2; WUndefined 16; WAdvanceLoc0 2; WRestore0 16], At 4098) ].

Example history_example :
  new_ctx heap <> Panic /\
  map snd (run_history true heap ex_history junk) =
    [Fail ECfiInstructionInInvalidContext; Fail EStackFull; Done] /\
  run_history true heap ex_history junk = run_fresh true heap ex_history.
Proof. vm_compute. repeat split. discriminate. Qed.

Check history_independent : forall dbg caps (h : list use) (cx cx0 : ctx),
  run_history dbg caps h cx = map (fun u => fst (use_ctx dbg caps u cx0)) h.

(* ------------------------------------------------------------------------------------------
   Abbreviation caches: whatever the strategy (Duplicates keeps the offsets seen at least twice, All keeps
   all) and whatever units were scanned, a lookup through the cache returns exactly what parsing the
   offset returns — `parse` is DebugAbbrev::abbreviations on the immutable section, Ok or Err alike. *)
Require Import GV.Model.AbbrevCache GV.Proofs.AbbrevCacheProofs.

Theorem cache_transparent : forall (A : Type) (parse : N -> A) (s : strategy) (unit_offsets : list N) (o : N),
  get parse (populate parse s unit_offsets) o = parse o.
Proof. intros A parse. exact (cache_transparent_lemma parse). Qed.

Theorem cache_repopulate : forall (A : Type) (parse : N -> A) s1 offs1 s2 offs2 (o : N),
  get parse (populate parse s2 offs2) o = get parse (populate parse s1 offs1) o.
Proof. intros A parse. exact (cache_repopulate_lemma parse). Qed.

Example cache_duplicates_keeps_repeated : cached_offsets Duplicates [8; 0; 8; 3; 0; 8]%N = [0; 8]%N.
Proof. vm_compute. reflexivity. Qed.
Example cache_all_keeps_each_once : cached_offsets All [8; 0; 8; 3; 0; 8]%N = [0; 3; 8]%N.
Proof. vm_compute. reflexivity. Qed.

(* ------------------------------------------------------------------------------------------
   Entry buffers, the cursor's cached entry, EntriesTree re-rooting, clones.
   Model/EntryBuf.v threads the caller's DebuggingInformationEntry through EntriesRaw::read_entry exactly
   as src/read/unit.rs does (depth/offset first, attrs cleared and refilled one at a time, set_null for a
   null entry, partial contents left behind by an Err), makes cached_current / EntriesTree::entry that
   buffer, and restarts EntriesTree from `root`. The pure parsers are those of Model/DieRd.v (C02).
   Streams c20.bufm / c20.curm / c20.treem tie it to gimli step by step — including the dirty buffer
   after failed reads. *)
From Coq.Strings Require Import Byte.
Require Import GV.Spec.FormSpec GV.Model.Attr GV.Spec.Forest GV.Model.AbbrevRd GV.Model.DieRd.
Require Import GV.Model.EntryBuf GV.Proofs.EntryBufProofs.

(* the buffer-threading read is the pure read of the C02 model: same result, same entry, same reader *)
Theorem read_entry_buf_is_read_entry : forall dbg e tbl r b,
  match read_entry_buf dbg e tbl r b with
  | RdOk k b' r' => read_entry dbg e tbl r = Ok (k, b', r')
  | RdErr x _ _ _ => read_entry dbg e tbl r = Err x
  | RdPanic => read_entry dbg e tbl r = Panic
  | RdFuel => read_entry dbg e tbl r = OutOfFuel
  end.
Proof. exact read_entry_buf_agrees. Qed.

(* a successful read leaves the same buffer whatever the buffer held before *)
Theorem read_ok_overwrites_buffer : forall dbg e tbl r b1 b2 k c r',
  read_entry_buf dbg e tbl r b1 = RdOk k c r' -> read_entry_buf dbg e tbl r b2 = RdOk k c r'.
Proof. exact read_ok_overwrites. Qed.

(* ANY prior buffer contents, ANY history of operations on the reader (reads, skips, re-opening at any
   offset; successful or failed): every result, every entry delivered by a successful read and every
   reader position are the same for two starting buffers ... *)
Theorem buf_history_independent : forall dbg h tbl (ops : list rop) (s1 s2 : rstate),
  rs_rd s1 = rs_rd s2 ->
  map clean (rrun dbg h tbl ops s1) = map clean (rrun dbg h tbl ops s2).
Proof. exact buf_history_independent_thm. Qed.

(* ... and the same as when every read is given a fresh DebuggingInformationEntry::null().
   [clean] erases only the buffer contents after a FAILED read, which the API leaves unspecified ("some
   fields in the entry may be modified") and which do depend on the previous contents: see
   dirty_buffer_depends_on_history below. *)
Theorem buf_equals_fresh : forall dbg h tbl (ops : list rop) (s1 s2 : rstate),
  rs_rd s1 = rs_rd s2 ->
  map clean (rrun dbg h tbl ops s1) = map clean (rrun_fresh dbg h tbl ops s2).
Proof. exact buf_equals_fresh_thm. Qed.

(* EntriesCursor: what next_entry / next_dfs return, current() and the reader position do not depend on
   the cached entry the cursor started with (next_sibling does, by design: it is relative to current()) *)
Theorem cursor_cache_irrelevant : forall dbg e tbl (ops : list cop) (c1 c2 : cursor),
  c_raw c1 = c_raw c2 -> forallb no_sibling ops = true ->
  map cview (crun dbg e tbl ops c1) = map cview (crun dbg e tbl ops c2).
Proof. exact cursor_cache_irrelevant_thm. Qed.

(* EntriesTree: a history of walks (each = root() + a traversal abandoned after `budget` entries that skips
   the subtrees of entries whose offset is a multiple of k; complete, abandoned or failing) on ONE tree
   that is in ANY state with the same root bytes and end offset — in particular the state any earlier
   walks left — yields what each walk yields on a tree fresh from UnitHeader::entries_tree *)
Theorem reroot_is_fresh : forall dbg e tbl (h : list (nat * N)) (t t0 : btree),
  bt_key t = bt_key t0 ->
  walks dbg e tbl h t = walks_fresh dbg e tbl h t0.
Proof. exact reroot_is_fresh_thm. Qed.

(* Clones. In a functional model a clone is the same value, so independence of an original and its clone
   under any interleaving of operations is immediate — stated for the record, for any step machine and
   for the two iterators modelled here. What it cannot express is ALIASING in the Rust (a derive(Clone)
   that shares mutable state): that is decided only by the impl-side oracle of stream c20.clone and by
   the cloned cursors of c20.curm. *)
Theorem clone_independent : forall (S Op Out : Type) (step : S -> Op -> S * Out) (ops : list (bool * Op)) (a b : S),
  side false (run2 step ops a b) = run1 step (side false ops) a /\
  side true (run2 step ops a b) = run1 step (side true ops) b.
Proof. exact two_copies_independent. Qed.

Theorem cursor_clone_independent : forall dbg e tbl (c : cursor) (ops : list (bool * cop)),
  side false (run2 (cstep dbg e tbl) ops c c) = crun dbg e tbl (side false ops) c /\
  side true (run2 (cstep dbg e tbl) ops c c) = crun dbg e tbl (side true ops) c.
Proof. exact cursor_clone_independent_thm. Qed.

Theorem raw_clone_independent : forall dbg h tbl (s : rstate) (ops : list (bool * rop)),
  side false (run2 (rstep dbg h tbl) ops s s) = rrun dbg h tbl (side false ops) s /\
  side true (run2 (rstep dbg h tbl) ops s s) = rrun dbg h tbl (side true ops) s.
Proof. exact raw_clone_independent_thm. Qed.

(* ---- examples: a unit with DIE(code 1, children, data1 7) { DIE(code 2, data1 9) } ---- *)
Definition ex_abbrev_bytes : list byte :=
  [x01; x11; x01; x03; x0b; x00; x00;  x02; x34; x00; x3e; x0b; x00; x00;  x00].
Definition ex_tbl : abbrevs :=
  match abbreviations_at true ex_abbrev_bytes 0 with Ok t => t | _ => tbl_empty end.
Definition ex_enc : enc := mkEnc 4 false 8 false.
Definition ex_unit (body : list byte) : unit_header :=
  mkUnit ex_enc (7 + N.of_nat (length body)) UCompile 0 false 0 body.
Definition ex_body : list byte := [x01; x07; x02; x09; x00].
Definition ex_start (body : list byte) (b : die) : rstate :=
  mkRS (match entries_raw true (ex_unit body) None with Ok r => Live r | _ => Broken 0 0 end) b.
Definition stale : die := mkDie 99 5 52 true [(mkSpec 62 11 0, VData1 200); (mkSpec 3 11 0, VData1 1)].

(* the hypotheses are met by a non-trivial instance: three reads (entry, child, null) then a failing read
   at the end, a re-open inside the unit, a skip — starting from a stale buffer *)
Example buf_history_example :
  map clean (rrun true (ex_unit ex_body) ex_tbl [ORead; ORead; ORead; ORead; OReopen 13; OSkip; ORead]
                  (ex_start ex_body stale)) =
  [ OutRead (Ok true) (mkDie 11 0 17 true [(mkSpec 3 11 0, VData1 7)]) (Some (Ok 13, 1%Z, false));
    OutRead (Ok true) (mkDie 13 1 52 false [(mkSpec 62 11 0, VData1 9)]) (Some (Ok 15, 1%Z, false));
    OutRead (Ok false) (mkDie 15 1 0 false []) (Some (Ok 16, 0%Z, true));
    OutRead (Err EUnexpectedEof) null_die None;
    OutReopen (Ok tt) (Some (Ok 13, 0%Z, false));
    OutSkip (Ok (Some 52)) (Some (Ok 15, 0%Z, false));
    OutRead (Ok false) (mkDie 15 0 0 false []) (Some (Ok 16, (-1)%Z, true)) ] /\
  rs_rd (ex_start ex_body stale) = rs_rd (ex_start ex_body null_die).
Proof. vm_compute. split; reflexivity. Qed.

(* why [clean] is there: after a read that fails before the tag is stored (here: abbreviation code 5 is
   not in the table) the buffer keeps its OLD tag and attributes under the NEW offset and depth *)
Example dirty_buffer_depends_on_history :
  rrun true (ex_unit [x05]) ex_tbl [ORead] (ex_start [x05] stale) =
    [OutRead (Err EInvalidAbbreviationCode) (mkDie 11 0 52 true (d_attrs stale)) None] /\
  rrun true (ex_unit [x05]) ex_tbl [ORead] (ex_start [x05] null_die) =
    [OutRead (Err EInvalidAbbreviationCode) (mkDie 11 0 0 false []) None] /\
  (* ... and a failure inside the attributes leaves the new tag and the attributes parsed so far *)
  rrun true (ex_unit [x01]) ex_tbl [ORead] (ex_start [x01] stale) =
    [OutRead (Err EUnexpectedEof) (mkDie 11 0 17 true []) None].
Proof. vm_compute. repeat split. Qed.

Definition ex_tree (b : die) : btree :=
  match entries_tree_buf true (ex_unit ex_body) None with
  | Ok t => mkBT (bt_root t) (bt_rd t) b
  | _ => mkBT [] (Broken 0 0) b
  end.

(* an abandoned walk, a complete walk, a walk that does not descend — on one tree, starting with a stale entry *)
Example reroot_example :
  bt_key (ex_tree stale) = bt_key (ex_tree null_die) /\
  map (@length wev) (walks true ex_enc ex_tbl [(1%nat, 0); (9%nat, 0); (9%nat, 11)] (ex_tree stale)) = [1; 2; 1]%nat /\
  walks true ex_enc ex_tbl [(1%nat, 0); (9%nat, 0); (9%nat, 11)] (ex_tree stale) =
  walks_fresh true ex_enc ex_tbl [(1%nat, 0); (9%nat, 0); (9%nat, 11)] (ex_tree null_die).
Proof. vm_compute. repeat split. Qed.

Definition ex_cursor (b : die) : cursor :=
  match entries true (ex_unit ex_body) with Ok c => mkCur (c_raw c) b | _ => mkCur (mkRaw [] 0 0) b end.

Example cursor_cache_example :
  c_raw (ex_cursor stale) = c_raw (ex_cursor null_die) /\
  map co_res (crun true ex_enc ex_tbl [CDfs; CEntry; CEntry; CDfs] (ex_cursor stale)) =
    [Ok true; Ok true; Ok true; Ok false].
Proof. vm_compute. split; reflexivity. Qed.

Check buf_equals_fresh : forall dbg h tbl (ops : list rop) (s1 s2 : rstate),
  rs_rd s1 = rs_rd s2 ->
  map clean (rrun dbg h tbl ops s1) = map clean (rrun_fresh dbg h tbl ops s2).
Check reroot_is_fresh : forall dbg e tbl (h : list (nat * N)) (t t0 : btree),
  bt_key t = bt_key t0 -> walks dbg e tbl h t = walks_fresh dbg e tbl h t0.

(* LineRows (state machine of Model/LineRd.v, property C04) and its clone: next_row on either copy in any
   order gives each copy what it gives alone; in particular a clone taken after k rows yields the same
   remaining rows as the original. Immediate in the model (see the remark on aliasing above); the tie to
   gimli is stream c20.linem (clone after k calls, both copies drained, errors included). *)
Require Import GV.Spec.LineSpec GV.Model.LineRd GV.Model.LineClone.
Theorem line_rows_clone_independent : forall dbg be resumed h (st : lr_state) (ops : list (bool * unit)),
  side false (run2 (line_step dbg be resumed h) ops st st) = run1 (line_step dbg be resumed h) (side false ops) st /\
  side true (run2 (line_step dbg be resumed h) ops st st) = run1 (line_step dbg be resumed h) (side true ops) st.
Proof. exact line_rows_clone_independent_thm. Qed.

Theorem line_clone_same_tail : forall dbg be h k,
  let '(_, _, tail_clone, tail_orig) := line_clone dbg be h k in tail_clone = tail_orig.
Proof. exact line_clone_same_tail_thm. Qed.

(* set_address 0x1000; special 0x4b; advance_pc 3; special 0x20; end_sequence; set_address 0x800; copy;
   end_sequence  (the sample program of Proofs/LineRdMono.v, repeated here to keep this file's cone small) *)
Definition ex_line_header : header :=
  mk_header false 4 4 0 0 1 1 true (-5) 14 13
    [x00; x01; x01; x01; x01; x00; x00; x00; x01; x00; x00; x01] [] [] [] []
    [x00; x05; x02; x00; x10; x00; x00;  x4b;  x02; x03;  x20;  x00; x01; x01;
     x00; x05; x02; x00; x08; x00; x00;  x01;  x00; x01; x01].
Example line_clone_example :
  let '(head, early, tail_clone, tail_orig) := line_clone true false ex_line_header 1 in
  length head = 1%nat /\ early = None /\ Nat.leb 1 (length (fst tail_clone)) = true /\ tail_clone = tail_orig.
Proof. vm_compute. repeat split. Qed.
