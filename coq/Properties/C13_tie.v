(* Properties/C13_tie.v — translator tie (DESIGN §1.2 item 2) for C13: every DW_* numeral that Model/LineWr.v defines is the constant of the same
   name in /repo/src/constants.rs, regenerated into coq/Gen/Constants.v from the source text on every ./check run. *)
From Coq Require Import NArith.
Require GV.Gen.Constants GV.Model.LineWr.
Require GV.Proofs.GenAgreeConstants.
Local Open Scope N_scope.

(* the 5 DW_* numerals of Model/LineWr.v *)
Theorem c13_tie_constants :
  Constants.DW_FORM_string = LineWr.DW_FORM_string /\
  Constants.DW_FORM_strp = LineWr.DW_FORM_strp /\
  Constants.DW_FORM_udata = LineWr.DW_FORM_udata /\
  Constants.DW_FORM_data16 = LineWr.DW_FORM_data16 /\
  Constants.DW_FORM_line_strp = LineWr.DW_FORM_line_strp.
Proof. exact GenAgreeConstants.gen_constants_LineWr. Qed.

(* statement pins *)
Check c13_tie_constants :
  Constants.DW_FORM_string = LineWr.DW_FORM_string /\
  Constants.DW_FORM_strp = LineWr.DW_FORM_strp /\
  Constants.DW_FORM_udata = LineWr.DW_FORM_udata /\
  Constants.DW_FORM_data16 = LineWr.DW_FORM_data16 /\
  Constants.DW_FORM_line_strp = LineWr.DW_FORM_line_strp.
