(* Properties/C16_tie.v — translator tie (DESIGN §1.2 item 2) for C16: every DW_* numeral that Spec/ListWrSpec.v defines is the constant of the same
   name in /repo/src/constants.rs, regenerated into coq/Gen/Constants.v from the source text on every ./check run. *)
From Coq Require Import NArith.
Require GV.Gen.Constants GV.Spec.ListWrSpec.
Require GV.Proofs.GenAgreeConstants.
Local Open Scope N_scope.

(* the 1 DW_* numerals of Spec/ListWrSpec.v *)
Theorem c16_tie_constants :
  Constants.DW_AT_low_pc = ListWrSpec.DW_AT_low_pc.
Proof. exact GenAgreeConstants.gen_constants_ListWrSpec. Qed.

(* statement pins *)
Check c16_tie_constants :
  Constants.DW_AT_low_pc = ListWrSpec.DW_AT_low_pc.
