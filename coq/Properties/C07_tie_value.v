(* Properties/C07_tie_value.v — translator tie (DESIGN §1.2 item 2) for C07: the tables of src/read/value.rs (ValueType::bit_size,
   ValueType::from_encoding, Value::value_type), regenerated into coq/Gen/ValueType.v from the source text on every
   ./check run, against Model/OpVal.v.  vtype_name : the Rust name of each OpVal.vtype constructor. *)
From Coq Require Import List NArith Bool String.
Require Import GV.Proofs.GenSweep GV.Model.OpVal GV.Proofs.GenAgreeValueType.
Require GV.Gen.ValueType.
Import ListNotations.
Local Open Scope N_scope.

(* enum ValueType / enum Value of src/read/value.rs have exactly the constructors of OpVal.vtype, in the same order *)
Theorem c07_tie_value_type_variants :
  ValueType.value_type_variants = map vtype_name all_vtypes /\
  ValueType.value_variants = map vtype_name all_vtypes.
Proof. exact GenAgreeValueType.gen_value_type_variants. Qed.

(* Value::value_type: every variant yields the ValueType of the same name *)
Theorem c07_tie_value_type_identity :
  ValueType.value_type_table = map (fun t => (vtype_name t, vtype_name t)) all_vtypes.
Proof. exact GenAgreeValueType.gen_value_type_identity. Qed.

(* ValueType::bit_size regenerated from the source = OpVal.bit_size, every type and address mask *)
Theorem c07_tie_bit_size :
  forall t mask, gen_bit_size t mask = Some (bit_size t mask).
Proof. exact GenAgreeValueType.gen_bit_size_agree. Qed.

(* one arm per variant *)
Theorem c07_tie_bit_size_arms :
  sperm (map fst ValueType.bit_size_table) ValueType.value_type_variants = true.
Proof. exact GenAgreeValueType.gen_bit_size_arms. Qed.

(* ValueType::from_encoding: each arm yields the model type of that DW_ATE class and byte size *)
Theorem c07_tie_from_encoding_arm :
  forall enc sz name, In ((enc, sz), name) ValueType.from_encoding_table ->
  exists t c, vtype_of_name name = Some t /\ ate_class enc = Some c /\ width t = 8 * sz /\ tclass_of t = c.
Proof. exact GenAgreeValueType.gen_from_encoding_arm. Qed.

(* exactly one arm per typed value type, none for Generic *)
Theorem c07_tie_from_encoding_complete :
  forallb (fun t => Nat.eqb (List.length (from_encoding_arms_of t)) (if vtype_eqb t TGeneric then 0 else 1)) all_vtypes = true.
Proof. exact GenAgreeValueType.gen_from_encoding_complete. Qed.

(* a type obtained from (encoding, byte_size) has 8 * byte_size bits *)
Theorem c07_tie_from_encoding_bit_size :
  forall enc sz name t mask,
  In ((enc, sz), name) ValueType.from_encoding_table -> vtype_of_name name = Some t -> bit_size t mask = 8 * sz.
Proof. exact GenAgreeValueType.gen_from_encoding_bit_size. Qed.

(* statement pins *)
Check c07_tie_value_type_variants :
  ValueType.value_type_variants = map vtype_name all_vtypes /\
  ValueType.value_variants = map vtype_name all_vtypes.
Check c07_tie_value_type_identity :
  ValueType.value_type_table = map (fun t => (vtype_name t, vtype_name t)) all_vtypes.
Check c07_tie_bit_size :
  forall t mask, gen_bit_size t mask = Some (bit_size t mask).
Check c07_tie_bit_size_arms :
  sperm (map fst ValueType.bit_size_table) ValueType.value_type_variants = true.
Check c07_tie_from_encoding_arm :
  forall enc sz name, In ((enc, sz), name) ValueType.from_encoding_table ->
  exists t c, vtype_of_name name = Some t /\ ate_class enc = Some c /\ width t = 8 * sz /\ tclass_of t = c.
Check c07_tie_from_encoding_complete :
  forallb (fun t => Nat.eqb (List.length (from_encoding_arms_of t)) (if vtype_eqb t TGeneric then 0 else 1)) all_vtypes = true.
Check c07_tie_from_encoding_bit_size :
  forall enc sz name t mask,
  In ((enc, sz), name) ValueType.from_encoding_table -> vtype_of_name name = Some t -> bit_size t mask = 8 * sz.
