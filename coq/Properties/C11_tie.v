(* Properties/C11_tie.v — translator tie (DESIGN §1.2 item 2) for C11: every DW_* numeral that Spec/UnitWrSpec.v defines is the constant of the same
   name in /repo/src/constants.rs, regenerated into coq/Gen/Constants.v from the source text on every ./check run. *)
From Coq Require Import NArith.
Require GV.Gen.Constants GV.Spec.UnitWrSpec.
Require GV.Proofs.GenAgreeConstants.
Local Open Scope N_scope.

(* the 30 DW_* numerals of Spec/UnitWrSpec.v *)
Theorem c11_tie_constants :
  Constants.DW_FORM_addr = UnitWrSpec.DW_FORM_addr /\
  Constants.DW_FORM_data2 = UnitWrSpec.DW_FORM_data2 /\
  Constants.DW_FORM_data4 = UnitWrSpec.DW_FORM_data4 /\
  Constants.DW_FORM_data8 = UnitWrSpec.DW_FORM_data8 /\
  Constants.DW_FORM_string = UnitWrSpec.DW_FORM_string /\
  Constants.DW_FORM_block = UnitWrSpec.DW_FORM_block /\
  Constants.DW_FORM_data1 = UnitWrSpec.DW_FORM_data1 /\
  Constants.DW_FORM_flag = UnitWrSpec.DW_FORM_flag /\
  Constants.DW_FORM_sdata = UnitWrSpec.DW_FORM_sdata /\
  Constants.DW_FORM_strp = UnitWrSpec.DW_FORM_strp /\
  Constants.DW_FORM_udata = UnitWrSpec.DW_FORM_udata /\
  Constants.DW_FORM_ref_addr = UnitWrSpec.DW_FORM_ref_addr /\
  Constants.DW_FORM_ref4 = UnitWrSpec.DW_FORM_ref4 /\
  Constants.DW_FORM_ref8 = UnitWrSpec.DW_FORM_ref8 /\
  Constants.DW_FORM_sec_offset = UnitWrSpec.DW_FORM_sec_offset /\
  Constants.DW_FORM_exprloc = UnitWrSpec.DW_FORM_exprloc /\
  Constants.DW_FORM_flag_present = UnitWrSpec.DW_FORM_flag_present /\
  Constants.DW_FORM_ref_sup4 = UnitWrSpec.DW_FORM_ref_sup4 /\
  Constants.DW_FORM_strp_sup = UnitWrSpec.DW_FORM_strp_sup /\
  Constants.DW_FORM_data16 = UnitWrSpec.DW_FORM_data16 /\
  Constants.DW_FORM_line_strp = UnitWrSpec.DW_FORM_line_strp /\
  Constants.DW_FORM_ref_sig8 = UnitWrSpec.DW_FORM_ref_sig8 /\
  Constants.DW_FORM_implicit_const = UnitWrSpec.DW_FORM_implicit_const /\
  Constants.DW_FORM_ref_sup8 = UnitWrSpec.DW_FORM_ref_sup8 /\
  Constants.DW_AT_sibling = UnitWrSpec.DW_AT_sibling /\
  Constants.DW_AT_stmt_list = UnitWrSpec.DW_AT_stmt_list /\
  Constants.DW_AT_low_pc = UnitWrSpec.DW_AT_low_pc /\
  Constants.DW_TAG_compile_unit = UnitWrSpec.DW_TAG_compile_unit /\
  Constants.DW_TAG_base_type = UnitWrSpec.DW_TAG_base_type /\
  Constants.DW_UT_compile = UnitWrSpec.DW_UT_compile.
Proof. exact GenAgreeConstants.gen_constants_UnitWrSpec. Qed.

(* statement pins *)
Check c11_tie_constants :
  Constants.DW_FORM_addr = UnitWrSpec.DW_FORM_addr /\
  Constants.DW_FORM_data2 = UnitWrSpec.DW_FORM_data2 /\
  Constants.DW_FORM_data4 = UnitWrSpec.DW_FORM_data4 /\
  Constants.DW_FORM_data8 = UnitWrSpec.DW_FORM_data8 /\
  Constants.DW_FORM_string = UnitWrSpec.DW_FORM_string /\
  Constants.DW_FORM_block = UnitWrSpec.DW_FORM_block /\
  Constants.DW_FORM_data1 = UnitWrSpec.DW_FORM_data1 /\
  Constants.DW_FORM_flag = UnitWrSpec.DW_FORM_flag /\
  Constants.DW_FORM_sdata = UnitWrSpec.DW_FORM_sdata /\
  Constants.DW_FORM_strp = UnitWrSpec.DW_FORM_strp /\
  Constants.DW_FORM_udata = UnitWrSpec.DW_FORM_udata /\
  Constants.DW_FORM_ref_addr = UnitWrSpec.DW_FORM_ref_addr /\
  Constants.DW_FORM_ref4 = UnitWrSpec.DW_FORM_ref4 /\
  Constants.DW_FORM_ref8 = UnitWrSpec.DW_FORM_ref8 /\
  Constants.DW_FORM_sec_offset = UnitWrSpec.DW_FORM_sec_offset /\
  Constants.DW_FORM_exprloc = UnitWrSpec.DW_FORM_exprloc /\
  Constants.DW_FORM_flag_present = UnitWrSpec.DW_FORM_flag_present /\
  Constants.DW_FORM_ref_sup4 = UnitWrSpec.DW_FORM_ref_sup4 /\
  Constants.DW_FORM_strp_sup = UnitWrSpec.DW_FORM_strp_sup /\
  Constants.DW_FORM_data16 = UnitWrSpec.DW_FORM_data16 /\
  Constants.DW_FORM_line_strp = UnitWrSpec.DW_FORM_line_strp /\
  Constants.DW_FORM_ref_sig8 = UnitWrSpec.DW_FORM_ref_sig8 /\
  Constants.DW_FORM_implicit_const = UnitWrSpec.DW_FORM_implicit_const /\
  Constants.DW_FORM_ref_sup8 = UnitWrSpec.DW_FORM_ref_sup8 /\
  Constants.DW_AT_sibling = UnitWrSpec.DW_AT_sibling /\
  Constants.DW_AT_stmt_list = UnitWrSpec.DW_AT_stmt_list /\
  Constants.DW_AT_low_pc = UnitWrSpec.DW_AT_low_pc /\
  Constants.DW_TAG_compile_unit = UnitWrSpec.DW_TAG_compile_unit /\
  Constants.DW_TAG_base_type = UnitWrSpec.DW_TAG_base_type /\
  Constants.DW_UT_compile = UnitWrSpec.DW_UT_compile.
