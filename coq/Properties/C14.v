(* Properties/C14.v — Written frame tables read back with the same CIEs, FDEs and unwind rows.
   Only statements (`exact lemma`), non-vacuity examples and pins live here.
   Model: GV.Model.CfiWr (write/cfi.rs + the pointer writers of write/writer.rs); read-back spec:
   GV.Spec.CfaEncSpec (decoder of the emitted CFA opcodes, meaning under the CIE factors, emission plan).
   Operand typing hypotheses (is_u8/is_u16/is_u32/is_i8/is_i32, cfi_wf, cie_wf, fde_wf) are the Rust types. *)
From Coq Require Import List NArith ZArith Bool.
From Coq.Strings Require Import Byte.
Require Import GV.Base.Res GV.Base.Byt GV.Base.Ints.
Require GV.Spec.CfaSpec GV.Model.CfiRun GV.Proofs.CfiRunProofs GV.Spec.CfiSpec GV.Model.CfiRd.
Require Import GV.Spec.LebSpec GV.Spec.CfaEncSpec GV.Model.Leb GV.Model.Prim GV.Model.CfiWr GV.Proofs.CfiWrProofs GV.Proofs.CfiRoundtrip.
Require GV.Model.CfiUwi.
Require Import GV.Spec.CfaScriptSpec GV.Proofs.CfaScriptProofs.
Import ListNotations.
Local Open Scope N_scope.

(* ---------------------------------------------------------------------------------------------- *)
(* (1) factoring_exact — for ALL i32 offsets and i8 factors (incl. 0 and (i32::MIN, -1)), both build
   modes: Ok q exactly when the factor is non-zero, q*f = o and q is an i32; otherwise the error
   InvalidFrameDataOffset; never a panic. Likewise for code deltas with a u8 factor incl. 0;
   decreasing offsets are InvalidFrameCodeOffset. *)
Theorem factoring_exact : forall (dbg : bool) (o f : Z),
  is_i32 o = true -> is_i8 f = true ->
  (forall q, factored_data_offset dbg o f = Ok q <-> (f <> 0 /\ q * f = o /\ is_i32 q = true)%Z) /\
  (factored_data_offset dbg o f = Err WInvalidFrameDataOffset \/
   exists q, factored_data_offset dbg o f = Ok q).
Proof. exact factoring_exact_data. Qed.

Theorem factoring_exact_code : forall (dbg : bool) (prev off factor : N),
  is_u32 prev = true -> is_u32 off = true -> is_u8 factor = true ->
  (forall q, factored_code_delta dbg prev off factor = Ok q <->
             prev <= off /\ factor <> 0 /\ q * factor = off - prev) /\
  (factored_code_delta dbg prev off factor = Err WInvalidFrameCodeOffset \/
   exists q, factored_code_delta dbg prev off factor = Ok q) /\
  (off < prev -> factored_code_delta dbg prev off factor = Err WInvalidFrameCodeOffset).
Proof. exact factoring_exact_code_pack. Qed.

Example factoring_ex_ok : factored_data_offset true (-24) (-8) = Ok 3%Z.
Proof. vm_compute. reflexivity. Qed.
Example factoring_ex_zero : factored_data_offset true 16 0 = Err WInvalidFrameDataOffset.
Proof. vm_compute. reflexivity. Qed.
Example factoring_ex_min : factored_data_offset true (-2147483648) (-1) = Err WInvalidFrameDataOffset.
Proof. vm_compute. reflexivity. Qed.
Example factoring_ex_inexact : factored_data_offset false 12 8 = Err WInvalidFrameDataOffset.
Proof. vm_compute. reflexivity. Qed.
Example factoring_ex_code : factored_code_delta true 4 12 4 = Ok 2 /\ factored_code_delta true 4 12 0 = Err WInvalidFrameCodeOffset
                            /\ factored_code_delta true 12 4 1 = Err WInvalidFrameCodeOffset.
Proof. vm_compute. repeat split. Qed.

(* ---------------------------------------------------------------------------------------------- *)
(* (2) advance_loc_forms — the writer emits nothing for an unchanged offset, otherwise exactly
   adv_enc of the factored delta; adv_enc is DW_CFA_advance_loc|delta below 0x40, advance_loc1 below
   0x100, advance_loc2 below 0x10000, advance_loc4 otherwise (in the section's byte order) and each
   decodes back to the delta; never a panic; a decreasing offset is InvalidFrameCodeOffset. *)
Theorem advance_loc_forms : forall (dbg be : bool) (caf prev off : N),
  is_u8 caf = true -> is_u32 prev = true -> is_u32 off = true ->
  (write_advance_loc dbg be caf prev off = Err WInvalidFrameCodeOffset \/
   exists bs, write_advance_loc dbg be caf prev off = Ok bs) /\
  (forall bs, write_advance_loc dbg be caf prev off = Ok bs ->
     (off = prev /\ bs = []) \/
     (exists delta, prev < off /\ delta * caf = off - prev /\ bs = adv_enc be delta /\
                    forall rest, decode1 be (bs ++ rest) = Some (DAdvance delta, rest))) /\
  (off < prev -> write_advance_loc dbg be caf prev off = Err WInvalidFrameCodeOffset).
Proof. exact advance_loc_forms_pack. Qed.

Theorem advance_loc_encodings : forall (be : bool) (delta : N),
  (delta < 64 -> adv_enc be delta = [n2b (64 + delta)]) /\
  (64 <= delta < 256 -> adv_enc be delta = [x02; n2b delta]) /\
  (256 <= delta < 65536 -> adv_enc be delta = x03 :: enc_num 2 be delta) /\
  (65536 <= delta -> adv_enc be delta = x04 :: enc_num 4 be delta).
Proof. exact adv_enc_forms. Qed.

Example advance_ex : write_advance_loc true false 4 0 252 = Ok [x7f]
                     /\ write_advance_loc true false 4 0 256 = Ok [x02; x40]
                     /\ write_advance_loc true true 1 16 272 = Ok [x03; x01; x00]
                     /\ write_advance_loc true false 1 0 65536 = Ok [x04; x00; x00; x01; x00]
                     /\ write_advance_loc true false 4 0 6 = Err WInvalidFrameCodeOffset.
Proof. vm_compute. repeat split. Qed.

(* ---------------------------------------------------------------------------------------------- *)
(* (3) insn_write_read — every CallFrameInstruction variant that is written decodes (completely: the
   bytes are exactly one instruction, and any following bytes are left untouched) to an instruction
   whose meaning under the CIE's factors is the instruction that was supplied; the only way to fail is
   InvalidFrameDataOffset, exactly when the offset operand that has to be factored (negative CFA
   offsets, every Offset/ValOffset) is not an i32 multiple of a non-zero factor; never a panic. *)
Theorem insn_write_read : forall (dbg be : bool) (caf : N) (daf : Z) (i : cfi),
  cfi_wf i = true -> is_i8 daf = true ->
  (forall bs, write_insn dbg daf i = Ok bs ->
     exists d, decode_all be bs = Some [d] /\
               (forall rest, decode1 be (bs ++ rest) = Some (d, rest)) /\
               sem caf daf d = MInsn i) /\
  ((exists bs, write_insn dbg daf i = Ok bs) \/
   (write_insn dbg daf i = Err WInvalidFrameDataOffset /\
    exists o, factored_operand i = Some o /\ ~ factorable daf o)) /\
  (forall bs o, write_insn dbg daf i = Ok bs -> factored_operand i = Some o -> factorable daf o).
Proof. exact insn_write_read_pack. Qed.

Example insn_ex_offset_short : write_insn true (-8) (Offset 6 (-16)) = Ok [x86; x02].
Proof. vm_compute. reflexivity. Qed.
Example insn_ex_offset_sf : write_insn true (-8) (Offset 6 16) = Ok [x11; x06; x7e].
Proof. vm_compute. reflexivity. Qed.
Example insn_ex_offset_ext : write_insn true 8 (Offset 64 16) = Ok [x05; x40; x02].
Proof. vm_compute. reflexivity. Qed.
Example insn_ex_cfa_sf : write_insn true (-8) (Cfa 7 (-16)) = Ok [x12; x07; x02]
                         /\ write_insn true (-8) (Cfa 7 16) = Ok [x0c; x07; x10].
Proof. vm_compute. split; reflexivity. Qed.
Example insn_ex_restore : write_insn true 1 (Restore 63) = Ok [xff] /\ write_insn true 1 (Restore 64) = Ok [x06; x40].
Proof. vm_compute. split; reflexivity. Qed.
Example insn_ex_unencodable : write_insn true 8 (ValOffset 5 12) = Err WInvalidFrameDataOffset.
Proof. vm_compute. reflexivity. Qed.
Example insn_ex_decode : decode_all false [x86; x02] = Some [DOffset 6 2]
                         /\ sem 1 (-8) (DOffset 6 2) = MInsn (Offset 6 (-16)).
Proof. vm_compute. split; reflexivity. Qed.

(* the instruction area of an FDE decodes to the supplied instructions at their code offsets, and the
   initial instructions of a CIE to the supplied list *)
Theorem fde_program_read : forall (dbg be : bool) (caf : N) (daf : Z) (l : list (N * cfi)) bs,
  forallb fde_insn_wf l = true -> is_u8 caf = true -> is_i8 daf = true ->
  write_fde_insns dbg be caf daf 0 l = Ok bs ->
  exists ds, decode_all be bs = Some ds /\ locate 0 (map (sem caf daf) ds) = l.
Proof. exact fde_program_read_pack. Qed.

Theorem cie_program_read : forall (dbg be : bool) (caf : N) (daf : Z) (l : list cfi) bs,
  forallb cfi_wf l = true -> is_i8 daf = true ->
  write_insns dbg daf l = Ok bs ->
  exists ds, decode_all be bs = Some ds /\ map (sem caf daf) ds = map MInsn l.
Proof. exact cie_program_read_pack. Qed.

Example fde_program_ex :
  write_fde_insns true false 2 (-8) 0 [(0, Cfa 7 16); (4, Offset 6 (-16)); (4, RememberState); (600, RestoreState)]
  = Ok [x0c; x07; x10; x42; x86; x02; x0a; x03; x2a; x01; x0b].
Proof. vm_compute. reflexivity. Qed.

(* ---------------------------------------------------------------------------------------------- *)
(* (4) entry_layout — an entry is only written for an address size of 1, 2, 4 or 8 (anything else is
   UnsupportedWordSize, see unsupported_address_size_is_error); every written CIE/FDE, in both formats
   (4- or 12-byte initial length), has |entry| = (4 or 12) + length a multiple of the address size; the length field holds the
   size of the rest; the area after the header decodes to exactly the supplied instructions followed by
   fewer than address_size DW_CFA_nop and nothing else. (The 64-bit format was padded relative to 8
   instead of 12 until repo d2e46aa; see known_findings.txt.) *)
Theorem entry_layout_cie : forall (dbg be eh : bool) (pos : N) (c : cie) bs,
  cie_wf c = true ->
  cie_write dbg be eh pos c = Ok bs ->
  asz_ok (c_asize c) /\
  exists il hdr area,
    bs = il ++ hdr ++ area /\
    write_initial_length (c_fmt64 c) be (len (hdr ++ area)) = Ok il /\ len il = ilen_size (c_fmt64 c) /\
    len bs mod c_asize c = 0 /\
    exists ds n, decode_all be area = Some (ds ++ repeat DNop n) /\ N.of_nat n < c_asize c /\
                 map (sem (c_caf c) (c_daf c)) ds = map MInsn (c_insns c).
Proof. exact entry_layout_cie_pack. Qed.

Theorem entry_layout_fde : forall (dbg be eh : bool) (pos coff : N) (c : cie) (f : fde) bs,
  cie_wf c = true -> fde_wf f = true ->
  fde_write dbg be eh pos coff c f = Ok bs ->
  asz_ok (c_asize c) /\
  exists il hdr area,
    bs = il ++ hdr ++ area /\
    write_initial_length (c_fmt64 c) be (len (hdr ++ area)) = Ok il /\ len il = ilen_size (c_fmt64 c) /\
    len bs mod c_asize c = 0 /\
    exists ds n, decode_all be area = Some (ds ++ repeat DNop n) /\ N.of_nat n < c_asize c /\
                 locate 0 (map (sem (c_caf c) (c_daf c)) (ds ++ repeat DNop n)) = f_insns f.
Proof. exact entry_layout_fde_pack. Qed.

Definition cie64_ex : cie := mkCie true 4 8 1 (-8) 16 None None 0 false [].
Example entry_layout_dwarf64_ex :
  exists bs, cie_write true false false 0 cie64_ex = Ok bs /\ len bs = 32 /\ len bs mod c_asize cie64_ex = 0.
Proof. eexists. vm_compute. repeat split. Qed.

Definition cie_ex : cie := mkCie false 1 8 1 (-8) 16 (Some (27, AConst 4660)) (Some 27) 27 true [Cfa 7 8; Offset 16 (-8)].
Example entry_layout_ex :
  cie_wf cie_ex = true /\
  cie_write true false true 0 cie_ex =
    Ok [x1c; x00; x00; x00; x00; x00; x00; x00; x01; x7a; x4c; x50; x52; x53; x00; x01; x78; x10; x07; x1b; x1b;
        x1f; x12; x00; x00; x1b; x0c; x07; x08; x90; x01; x00].
Proof. vm_compute. repeat split. Qed.

(* ---------------------------------------------------------------------------------------------- *)
(* (5) cie_dedup — ids returned by add_cie are equal exactly for equal CIEs (cie_eqb is Leibniz
   equality); a written table is the concatenation of tiles in plan order: each referenced CIE once,
   immediately before the first FDE that refers to it, FDEs in insertion order, unreferenced CIEs not at
   all; every CIE tile is that CIE written at its own offset and every FDE tile is that FDE written at
   its own offset with the offset of its CIE's tile as CIE pointer. *)
Theorem cie_eqb_eq : forall a b : cie, cie_eqb a b = true <-> a = b.
Proof. exact cie_eqb_iff. Qed.

Theorem cie_dedup_ids : forall (dbg : bool) (ops : list bop) t ids j k cj ck idj idk,
  build dbg empty_table [] ops = Ok (t, ids) ->
  nth_error (cies_of ops) j = Some cj -> nth_error (cies_of ops) k = Some ck ->
  nth_error ids j = Some idj -> nth_error ids k = Some idk ->
  (idj = idk <-> cj = ck).
Proof. exact build_ids_equal_iff. Qed.

Theorem cie_dedup_emission : forall (dbg be eh : bool) (pos : N) (t : ftable) bs,
  write_table dbg be eh pos t = Ok bs ->
  exists chunks,
    map fst chunks = plan [] 0 (map fst (t_fdes t)) /\
    bs = concat (map snd chunks) /\
    well_tiled dbg be eh (t_cies t) (t_fdes t) pos [] chunks.
Proof. exact write_table_tiled. Qed.

(* what the plan is: all FDEs in order; every referenced CIE exactly once and no other; each FDE after
   its CIE *)
Theorem plan_spec : forall (refs : list nat),
  fde_items (plan [] 0 refs) = seq 0 (length refs) /\
  NoDup (cie_items (plan [] 0 refs)) /\
  (forall idx, In idx (cie_items (plan [] 0 refs)) <-> In idx refs) /\
  (forall a j b idx, plan [] 0 refs = a ++ IFde j :: b -> nth_error refs j = Some idx -> In (ICie idx) a).
Proof. exact plan_properties. Qed.

Example plan_ex : plan [] 0 [1; 1; 0; 1; 0]%nat = [ICie 1; IFde 0; IFde 1; ICie 0; IFde 2; IFde 3; IFde 4]%nat.
Proof. reflexivity. Qed.

Definition cie_a : cie := mkCie false 1 4 1 (-4) 8 None None 0 false [Cfa 4 4].
Definition cie_b : cie := mkCie false 1 4 1 (-4) 8 None None 0 true [Cfa 4 4].
Definition fde_a (a : N) : fde := mkFde (AConst a) 16 None [(4, CfaOffset 8)].
Example dedup_ex :
  build_and_write true false false 0
    [BAddCie cie_a; BAddCie cie_b; BAddCie cie_a; BAddFde 2 (fde_a 4096); BAddFde 0 (fde_a 8192)] =
  Ok ([x0c; x00; x00; x00; xff; xff; xff; xff; x01; x00; x01; x7c; x08; x0c; x04; x04;
       x10; x00; x00; x00; x00; x00; x00; x00; x00; x10; x00; x00; x10; x00; x00; x00; x44; x0e; x08; x00;
       x10; x00; x00; x00; x00; x00; x00; x00; x00; x20; x00; x00; x10; x00; x00; x00; x44; x0e; x08; x00],
      [0; 1; 0]%nat, 2%nat).
Proof. vm_compute. reflexivity. Qed.

(* ---------------------------------------------------------------------------------------------- *)
(* (6) table_roundtrip — reading the written section back, against the header-parser spec of
   CfaEncSpec (parse_cie_body / parse_fde_body: CIE id, version, augmentation string, address size,
   factors, return register, z-augmentation data with L/P/R/S; FDE CIE pointer, pointer-encoded address
   and range, LSDA) and the instruction decoder:
   the section is the plan-ordered sequence of tiles (5); every CIE tile parses to exactly the CIE's
   parameters (personality reduced to the address size, absolute or pc-relative) and its instruction
   area decodes to the initial instructions plus nop padding; every FDE tile parses to the offset of
   its CIE's tile, its address range and LSDA, and its instruction area decodes to the supplied
   instructions at their code offsets plus nop padding.
   Hypotheses: operand typing, section below 2^64 (a table with another address size than 1/2/4/8 is
   not written: unsupported_address_size_is_error). (An FDE whose LSDA presence
   disagrees with its CIE's lsda_encoding is not written at all: lsda_mismatch_is_error.)
   NOT part of the theorem: the evaluated unwind rows themselves — they are the image of the two decoded
   programs under the CFA machine, whose model (CfiRun, C06) and the reader's own parser model (CfiRd,
   C05) live on other branches; on the implementation the rows are compared by the oracle stream c14.rows. *)
Theorem pointer_read_back : forall (be : bool) (pos a enc asz : N) bs rest,
  a < 18446744073709551616 -> pos < 18446744073709551616 ->
  (asz = 1 \/ asz = 2 \/ asz = 4 \/ asz = 8) ->
  write_eh_pointer be pos (AConst a) enc asz = Ok bs ->
  pe_pointer be asz enc pos (bs ++ rest) = Some (a mod 2 ^ (8 * asz), rest).
Proof. exact write_eh_pointer_reads. Qed.

Theorem cie_header_read : forall (dbg be eh : bool) (pos : N) (c : cie) bs,
  cie_wf c = true ->
  pos + len bs < 18446744073709551616 ->
  cie_write dbg be eh pos c = Ok bs ->
  exists il body insns pad,
    bs = il ++ body /\ len il = ilen_size (c_fmt64 c) /\
    write_initial_length (c_fmt64 c) be (len body) = Ok il /\
    write_insns dbg (c_daf c) (c_insns c) = Ok insns /\ all_nop pad = true /\ len pad < c_asize c /\
    parse_cie_body be eh (c_fmt64 c) (c_asize c) (pos + ilen_size (c_fmt64 c)) body
      = Some (cie_fields_of c, insns ++ pad).
Proof. exact cie_header_reads. Qed.

Theorem fde_header_read : forall (dbg be eh : bool) (pos coff : N) (c : cie) (f : fde) bs,
  cie_wf c = true -> fde_wf f = true ->
  pos + len bs < 18446744073709551616 -> coff <= pos ->
  fde_write dbg be eh pos coff c f = Ok bs ->
  exists il body insns pad,
    bs = il ++ body /\ len il = ilen_size (c_fmt64 c) /\
    write_initial_length (c_fmt64 c) be (len body) = Ok il /\
    write_fde_insns dbg be (c_caf c) (c_daf c) 0 (f_insns f) = Ok insns /\ all_nop pad = true /\ len pad < c_asize c /\
    parse_fde_body be eh (c_fmt64 c) (c_asize c) (cf_fde_enc (cie_fields_of c)) (c_lsda_enc c) (has_augmentation c)
                   (pos + ilen_size (c_fmt64 c)) body
      = Some (fde_fields_of c f coff, insns ++ pad).
Proof. exact fde_header_reads. Qed.

Theorem table_roundtrip : forall (dbg be eh : bool) (pos : N) (t : ftable) bs,
  Forall (fun c => cie_wf c = true) (t_cies t) ->
  Forall (fun p => fde_wf (snd p) = true) (t_fdes t) ->
  pos + len bs < 18446744073709551616 ->
  write_table dbg be eh pos t = Ok bs ->
  exists chunks,
    map fst chunks = plan [] 0 (map fst (t_fdes t)) /\
    bs = concat (map snd chunks) /\
    reads_back be eh (t_cies t) (t_fdes t) pos [] chunks.
Proof. exact table_roundtrip_pack. Qed.

(* the weaker form without the bound on the section size: tiles in plan order whose instruction areas
   decode to the supplied programs *)
Theorem table_roundtrip_partial : forall (dbg be eh : bool) (pos : N) (t : ftable) bs,
  Forall (fun c => cie_wf c = true) (t_cies t) ->
  Forall (fun p => fde_wf (snd p) = true) (t_fdes t) ->
  write_table dbg be eh pos t = Ok bs ->
  exists chunks,
    map fst chunks = plan [] 0 (map fst (t_fdes t)) /\
    bs = concat (map snd chunks) /\
    well_tiled dbg be eh (t_cies t) (t_fdes t) pos [] chunks /\
    Forall (tile_reads_back be (t_cies t) (t_fdes t)) chunks.
Proof. exact table_roundtrip_partial_pack. Qed.

Example pointer_ex :
  write_eh_pointer false 100 (AConst 40) 27 8 = Ok [xc4; xff; xff; xff]
  /\ pe_pointer false 8 27 100 [xc4; xff; xff; xff; x55] = Some (40, [x55]).
Proof. vm_compute. split; reflexivity. Qed.

Example cie_header_ex :
  parse_cie_body false true false 8 4
    [x00; x00; x00; x00; x01; x7a; x4c; x50; x52; x53; x00; x01; x78; x10; x07; x1b; x1b;
     x1f; x12; x00; x00; x1b; x0c; x07; x08; x90; x01; x00]
  = Some (cie_fields_of cie_ex, [x0c; x07; x08; x90; x01; x00])
  /\ cie_fields_of cie_ex = mkFields 1 [x7a; x4c; x50; x52; x53] None 1 (-8) 16 (Some 27) (Some (27, 4660)) (Some 27) true.
Proof. vm_compute. split; reflexivity. Qed.

Definition table_ex : ftable := mkTable [cie_a; cie_b] [(0%nat, fde_a 4096); (1%nat, fde_a 8192); (0%nat, fde_a 12288)].
Example table_hyps_ex :
  Forall (fun c => cie_wf c = true) (t_cies table_ex) /\
  Forall (fun p => fde_wf (snd p) = true /\ exists c, nth_error (t_cies table_ex) (fst p) = Some c) (t_fdes table_ex) /\
  exists bs, write_table true false true 0 table_ex = Ok bs /\ length bs = 96%nat.
Proof.
  split; [repeat constructor|]. split.
  - repeat constructor; eexists; reflexivity.
  - eexists. split; [vm_compute; reflexivity|reflexivity].
Qed.

(* ---------------------------------------------------------------------------------------------- *)
(* no_panic — the table writer never panics on well-typed tables whose FDEs name CIEs of the table, for
   EVERY address size (u8) and both build modes; building a table panics only in a checked build on
   decreasing instruction offsets (debug_assert in add_instruction; a release build reports
   InvalidFrameCodeOffset when writing). *)
Theorem no_panic_write : forall (dbg be eh : bool) (pos : N) (t : ftable),
  Forall (fun c => cie_wf c = true) (t_cies t) ->
  Forall (fun p => fde_wf (snd p) = true /\ exists c, nth_error (t_cies t) (fst p) = Some c) (t_fdes t) ->
  write_table dbg be eh pos t <> Panic.
Proof. exact write_table_np. Qed.

(* an address size other than 1, 2, 4 or 8 (0 included) is UnsupportedWordSize when the entry is padded:
   no CIE or FDE with such a size is ever written, and nothing panics or loops *)
Theorem unsupported_address_size_is_error : forall (dbg be eh : bool) (pos coff : N) (c : cie) (f : fde),
  ~ asz_ok (c_asize c) ->
  (forall body, close_entry dbg be (c_fmt64 c) (c_asize c) body = Err WUnsupportedWordSize) /\
  (forall bs, cie_write dbg be eh pos c <> Ok bs) /\
  (forall bs, fde_write dbg be eh pos coff c f <> Ok bs) /\
  (cie_wf c = true -> cie_write dbg be eh pos c <> Panic) /\
  (cie_wf c = true -> fde_wf f = true -> coff <= pos -> fde_write dbg be eh pos coff c f <> Panic).
Proof. exact unsupported_address_size_pack. Qed.

Example unsupported_address_size_ex :
  build_and_write true false false 0 [BAddCie (mkCie false 1 0 1 1 8 None None 0 false []); BAddFde 0 (fde_a 0)] = Err WUnsupportedWordSize
  /\ build_and_write false false false 0 [BAddCie (mkCie false 1 0 1 1 8 None None 0 false []); BAddFde 0 (fde_a 0)] = Err WUnsupportedWordSize
  /\ build_and_write true false true 0 [BAddCie (mkCie true 1 16 1 1 8 None None 27 false []); BAddFde 0 (fde_a 0)] = Err WUnsupportedWordSize.
Proof. vm_compute. repeat split. Qed.

(* an FDE whose LSDA presence disagrees with its CIE's lsda_encoding is never written and never panics:
   once the CIE pointer and the address range have been written the result is InvalidAddress *)
Theorem lsda_mismatch_is_error : forall (dbg be eh : bool) (pos coff : N) (c : cie) (f : fde),
  cie_wf c = true -> fde_wf f = true -> coff <= pos ->
  lsda_ok c f = false ->
  (forall bs, fde_write dbg be eh pos coff c f <> Ok bs) /\
  fde_write dbg be eh pos coff c f <> Panic /\
  (forall ptr addrs,
     (if eh then let* d := chk_sub 64 dbg (pos + ilen_size (c_fmt64 c)) coff in write_udata be d 4
      else write_udata be coff (word_size (c_fmt64 c))) = Ok ptr ->
     (if negb (c_fde_enc c =? 0)
      then let* a := write_eh_pointer be (pos + ilen_size (c_fmt64 c) + len ptr) (f_addr f) (c_fde_enc c) (c_asize c) in
           let* l := write_eh_pointer_data be (f_len f) (pe_format (c_fde_enc c)) (c_asize c) in Ok (a ++ l)
      else let* a := write_address be (f_addr f) (c_asize c) in
           let* l := write_udata be (f_len f) (c_asize c) in Ok (a ++ l)) = Ok addrs ->
     fde_write dbg be eh pos coff c f = Err WInvalidAddress).
Proof. exact lsda_mismatch_is_error_pack. Qed.

Theorem no_panic_build : forall (dbg : bool) (ops : list bop) t ids,
  (dbg = true -> ops_sorted ops = true) -> build dbg t ids ops <> Panic.
Proof. exact build_np. Qed.

(* the excluded case does panic in the model, as it does in gimli *)
Example panic_ex_decreasing :
  build_and_write true false false 0 [BAddCie cie_a; BAddFde 0 (mkFde (AConst 0) 8 None [(4, RememberState); (0, RestoreState)])] = Panic
  /\ build_and_write false false false 0 [BAddCie cie_a; BAddFde 0 (mkFde (AConst 0) 8 None [(4, RememberState); (0, RestoreState)])]
     = Err WInvalidFrameCodeOffset.
Proof. vm_compute. split; reflexivity. Qed.
Example lsda_mismatch_ex :
  build_and_write true false false 0 [BAddCie cie_b; BAddFde 0 (mkFde (AConst 0) 8 (Some (AConst 9)) [])] = Err WInvalidAddress
  /\ build_and_write false false false 0 [BAddCie cie_a; BAddFde 0 (mkFde (AConst 0) 8 (Some (AConst 9)) [])] = Err WInvalidAddress
  /\ build_and_write false false false 0
       [BAddCie (mkCie false 1 4 1 1 8 None (Some 0) 0 false []); BAddFde 0 (fde_a 0)] = Err WInvalidAddress.
Proof. vm_compute. repeat split. Qed.

(* ---------------------------------------------------------------------------------------------- *)
(* (7) composition with the READER models of main (CfiRun = C06, CfiRd = C05; proofs in
   Proofs/CfiRoundtrip.v; nothing of C05/C06 is changed, their theorems are used as they are).

   insn_read_by_reader — for every CallFrameInstruction variant the reader's instruction parser
   (CfiRun.parse_insn, any build mode, any address size, at any section offset, with any following bytes)
   returns, on the written bytes, the reader's form [to_insn] of the very instruction d that the C14
   decoder spec assigns to them and whose meaning is the instruction supplied: same operands, expression
   operands as (offset, length) references to the blob at the end of the instruction's bytes.
   DW_CFA_AARCH64_negate_ra_state is UnknownCallFrameInstruction unless the reader's vendor is AArch64. *)
Theorem insn_read_by_reader : forall (dbg be : bool) (caf : N) (daf : Z) (i : cfi) bs,
  cfi_wf i = true -> is_i8 daf = true -> write_insn dbg daf i = Ok bs ->
  exists d,
    (forall rest, decode1 be (bs ++ rest) = Some (d, rest)) /\ sem caf daf d = MInsn i /\
    (forall e, expr_of d = Some e -> exists p, bs = p ++ e) /\
    forall dbg' asz aa off rest,
      CfiRun.parse_insn dbg' be asz aa off (bs ++ rest) =
      if negb aa && (match i with NegateRaState => true | _ => false end)
      then Err EUnknownCallFrameInstruction
      else Ok (to_insn off (len bs) d, rest).
Proof. exact insn_read_by_reader_lem. Qed.

Example insn_read_by_reader_ex :
  write_insn true (-8) (Offset 6 (-16)) = Ok [x86; x02] /\
  CfiRun.parse_insn false false 8 false 100 [x86; x02; x55] = Ok (CfaSpec.IOffset 6 2, [x55]) /\
  write_insn true 1 (ValExpression 300 [x11; x22]) = Ok [x16; xac; x02; x02; x11; x22] /\
  CfiRun.parse_insn true true 4 false 100 [x16; xac; x02; x02; x11; x22]
  = Ok (CfaSpec.IValExpression 300 {| CfaSpec.ue_off := 104; CfaSpec.ue_len := 2 |}, []).
Proof. vm_compute. repeat split. Qed.

(* entries_read_by_reader — the reader's entry iterator (CfiRd.entries_all, any build mode) over a written
   .debug_frame or .eh_frame section (section loaded at address 0; every CIE of the table has the section's
   address size; section smaller than 4 GiB) terminates without error and returns, in plan order, one item
   per tile: for a CIE tile the CIE record with the offset, format, version, address size, factors, return
   register, augmentation (LSDA encoding, personality pointer reduced to the address size and marked
   indirect iff bit 7 is set, FDE encoding, signal flag) of that CIE and the window of its instruction
   area; for an FDE tile a partial FDE at that offset pointing at the offset of its CIE's tile, for which
   CfiRd.fde_parse returns the FDE bound to exactly that CIE record, with the initial address (reduced to the
   address size), the range and the LSDA of the FDE and the window of its instruction area. All pointer
   encodings the writer supports (absptr/pcrel x the nine formats x indirect) are covered; the proof goes
   through C05's entry lemmas (parse_cfi_entry_cie/_fde, cie_from_offset_enc, fde_body_enc) after showing
   that every written entry IS CfiSpec.enc_cie / enc_fde of its translation (cie_rec_of / fde_rec_of). *)
Theorem entries_read_by_reader : forall (dbg dbg' be eh : bool) (asz : N) (t : ftable) bs,
  Forall (fun c => cie_wf c = true /\ c_asize c = asz) (t_cies t) ->
  Forall (fun p => fde_wf (snd p) = true) (t_fdes t) ->
  len bs + 16 < 4294967295 ->
  write_table dbg be eh 0 t = Ok bs ->
  exists chunks items,
    map fst chunks = plan [] 0 (map fst (t_fdes t)) /\
    bs = concat (map snd chunks) /\
    CfiRd.entries_all dbg' (rd_cfg eh be asz) bs = Ok (items, None) /\
    reader_sees dbg dbg' be eh asz (t_cies t) (t_fdes t) bs 0 [] chunks items.
Proof. exact entries_read_by_reader_lem. Qed.

Example entries_read_by_reader_ex :
  Forall (fun c => cie_wf c = true /\ c_asize c = 4) (t_cies table_ex) /\
  Forall (fun p => fde_wf (snd p) = true) (t_fdes table_ex) /\
  exists bs items,
    write_table true false true 0 table_ex = Ok bs /\ len bs + 16 < 4294967295 /\
    CfiRd.entries_all true (rd_cfg true false 4) bs = Ok (items, None) /\ length items = 5%nat.
Proof.
  split; [repeat constructor|]. split; [repeat constructor|].
  eexists. eexists. split; [vm_compute; reflexivity|]. split; [vm_compute; reflexivity|].
  split; [vm_compute; reflexivity|reflexivity].
Qed.

(* rows_read_by_reader (PARTIAL) — theorem form of the c14.rows oracle. For a written CIE and a written FDE
   of it, the unwind rows that gimli's table model (CfiRun.fde_rows, C06) produces from the two written
   instruction areas are, whenever the storage limits of the context are not hit (within_limits, C06), exactly
   the rows of the DWARF call-frame machine CfaSpec.run_spec on the reader's form of the two programs
   (ic ++ nops, ifd ++ nops), where ic/ifd match (imatch) the decoded instructions dsc/dsf whose meanings are
   the supplied CIE instructions and the supplied FDE instructions at their code offsets; and without any
   limit hypothesis the unlimited spec run of the written areas IS that run (first conjunct).
   MISSING for the full statement: (1) a CfaSpec-level semantics of the abstract write::CallFrameInstruction
   list itself — the theorem is stated on the reader's instruction form of the written program, not on a
   machine defined directly over the (offset, instruction) script; that the effect of a reader instruction
   depends only on its C14 meaning is not proved; (2) the link from entries_read_by_reader's FDE record
   (fd_init, fd_range, instruction windows) to the fde_in handed to CfiRun is by construction of fde_in_of,
   not through a common record type (CfiRun takes an already-parsed FDE: C06 and C05 share no type);
   (3) CfiRun models `.debug_frame` without augmentation for DW_CFA_set_loc only, which the writer never emits.
   CLOSED in section (8) below: items (1) and (2) are now theorems (reader_insn_effect_is_meaning,
   rows_by_script_areas, rows_read_by_reader, table_rows_read_by_reader); this weaker statement is kept as it was. *)
Theorem rows_read_by_reader_partial :
  forall (dbg be eh aa : bool) (cpos fpos coff : N) (c : CfiWr.cie) (f : CfiWr.fde) cb fb,
  cie_wf c = true -> fde_wf f = true ->
  forallb (vendor_ok aa) (c_insns c) = true -> forallb (fun p => vendor_ok aa (snd p)) (f_insns f) = true ->
  cie_write dbg be eh cpos c = Ok cb -> fde_write dbg be eh fpos coff c f = Ok fb ->
  exists cil chdr carea fil fhdr farea dsc dsf ic ifd n1 n2,
    cb = cil ++ chdr ++ carea /\ fb = fil ++ fhdr ++ farea /\
    map (sem (c_caf c) (c_daf c)) dsc = map MInsn (c_insns c) /\
    locate 0 (map (sem (c_caf c) (c_daf c)) dsf) = f_insns f /\
    Forall2 (imatch (cpos + len cil + len chdr) carea) dsc ic /\
    Forall2 (imatch (fpos + len fil + len fhdr) farea) dsf ifd /\
    forall dbg' caps cx init range,
      let fi := fde_in_of be aa c init range (cpos + len cil + len chdr) carea (fpos + len fil + len fhdr) farea in
      let spec := CfaSpec.run_spec (CfiRunProofs.sparams_of fi) init (CfaSpec.spec_end (c_asize c) init range)
                           (map CfaSpec.It (ic ++ repeat CfaSpec.INop n1)) (map CfaSpec.It (ifd ++ repeat CfaSpec.INop n2)) in
      CfiRunProofs.spec_unl dbg' fi = spec /\
      (CfiRun.cap_full (CfaSpec.max_stack caps) 0 = false -> CfiRunProofs.within_limits dbg' caps fi = true ->
       Forall2 CfiRunProofs.row_equiv (fst (fst (CfiRun.fde_rows dbg' caps fi cx))) (fst spec) /\
       snd (fst (CfiRun.fde_rows dbg' caps fi cx)) = snd spec).
Proof. exact rows_read_by_reader_lem. Qed.

Definition heap_caps : CfaSpec.caps := {| CfaSpec.max_stack := Some 4%nat; CfaSpec.max_rules := Some 192%nat |}.
Example rows_read_by_reader_ex :
  cie_wf cie_a = true /\ fde_wf (fde_a 4096) = true /\
  forallb (vendor_ok false) (c_insns cie_a) = true /\
  forallb (fun p => vendor_ok false (snd p)) (f_insns (fde_a 4096)) = true /\
  exists cb fb rows cx',
    cie_write true false false 0 cie_a = Ok cb /\ fde_write true false false 16 0 cie_a (fde_a 4096) = Ok fb /\
    CfiRun.fde_rows true heap_caps (fde_in_of false false cie_a 4096 16 13 (skipn 13 cb) 32 (skipn 16 fb))
                    {| CfiRun.c_stack := []; CfiRun.c_initial_rule := None; CfiRun.c_init := true |}
    = ((rows, CfaSpec.Done), cx') /\
    map CfiRun.r_start rows = [4096; 4100] /\ map CfiRun.r_cfa rows = [CfaSpec.CfaRegOff 4 4; CfaSpec.CfaRegOff 4 8].
Proof.
  repeat split; try reflexivity.
  eexists. eexists. eexists. eexists. split; [vm_compute; reflexivity|]. split; [vm_compute; reflexivity|].
  split; [vm_compute; reflexivity|]. split; reflexivity.
Qed.


(* ---------------------------------------------------------------------------------------------- *)
(* (8) rows_read_by_reader — the three MISSING items above, closed (Spec/CfaScriptSpec.v, Proofs/CfaScriptProofs.v).
   The call-frame machine is now defined DIRECTLY over the writer's script: [script_step] gives the meaning of
   every write::CallFrameInstruction variant on (cfa, rules, args_size, remembered states) with offsets in
   bytes and expressions as their bytes; [script_fde] completes a row exactly where the script's code offset
   grows; [script_rows_lim caps aa asz init range cie fde] is the table, with a reader context's storage limits
   layered on (rows needed = remembered + current + 1 for the saved initial rules when the CIE leaves >= 2;
   rules = registers with a non-default rule) and [aa] = the reader's vendor knows negate_ra_state.

   reader_insn_effect_is_meaning — (missing item 1) the effect of a reader instruction on the call-frame state
   depends only on its C14 meaning: if the reader instruction is the reader form of a decoded instruction whose
   meaning (CfaEncSpec.sem under the CIE's factors) is the abstract instruction i, and its expression operand
   designates (X) the bytes of i's expression, then CfaSpec.spec_step on it and script_step on i agree: same
   error, or related successor states (same registers in the same order with related rules, same CFA, args
   size and remembered states). *)
Theorem reader_insn_effect_is_meaning :
  forall (X : CfaSpec.uexpr -> list byte -> Prop) (p : CfaSpec.sparams) (aa : bool)
         (ini : option CfaSpec.rmap) (xini : option xmap) (s : CfaSpec.sstate) (xs : xstate) (ri : CfaSpec.insn) (i : cfi),
  state_rel X s xs -> omap_rel X ini xini ->
  insn_rel X (CfaSpec.sp_caf p) (CfaSpec.sp_daf p) ri i -> vendor_ok aa i = true ->
  step_agrees X (CfaSpec.s_loc s) (CfaSpec.spec_step p ini s ri) (script_step aa xini xs i).
Proof. exact step_by_meaning. Qed.

(* rows_by_script_areas — for ANY abstract CIE program lc and FDE script lf (operands of the Rust types), the two
   instruction areas the writer produces (write_insns / write_fde_insns, each followed by any nop padding), placed
   at ANY section offsets coff / foff, evaluated by gimli's table model (CfiRun.fde_rows, C06: UnwindContext with
   capacities caps, any build mode dbg', any vendor aa, any previous context cx) give exactly
   script_rows_lim caps aa ... lc lf: row by row the same [start, end), args size, CFA, and for EVERY register the
   same rule (row_sees), an expression operand being a section reference to the bytes of the script's expression
   inside the CIE's or the FDE's area (in2); and the evaluation ends the same way (Done, or the same read::Error —
   incl. StackFull / TooManyRegisterRules exactly when the script machine's occupancy exceeds caps, and
   UnknownCallFrameInstruction for negate_ra_state under a non-AArch64 reader). No within_limits and no vendor
   hypothesis: what happens when the limits are hit is part of the statement. *)
Theorem rows_by_script_areas :
  forall (dbg be aa : bool) (asz caf : N) (daf : Z) (lc : list cfi) (lf : list (N * cfi)) ci fi pad1 pad2,
  forallb cfi_wf lc = true -> forallb fde_insn_wf lf = true -> is_u8 caf = true -> is_i8 daf = true ->
  asz_ok asz ->
  write_insns dbg daf lc = Ok ci -> write_fde_insns dbg be caf daf 0 lf = Ok fi ->
  all_nop pad1 = true -> all_nop pad2 = true ->
  forall dbg' caps cx init range coff foff,
    CfiRun.cap_full (CfaSpec.max_stack caps) 0 = false ->
    let fin := mk_fde_in be aa asz caf daf init range coff (ci ++ pad1) foff (fi ++ pad2) in
    let scr := script_rows_lim caps aa asz init range lc lf in
    Forall2 (row_sees (in2 coff (ci ++ pad1) foff (fi ++ pad2))) (fst (fst (CfiRun.fde_rows dbg' caps fin cx))) (fst scr) /\
    snd (fst (CfiRun.fde_rows dbg' caps fin cx)) = snd scr.
Proof. exact CfaScriptProofs.rows_by_script_areas. Qed.

(* rows_read_by_reader — the full form of rows_read_by_reader_partial: a written CIE and a written FDE of it *)
Theorem rows_read_by_reader :
  forall (dbg be eh aa : bool) (cpos fpos coff : N) (c : CfiWr.cie) (f : CfiWr.fde) cb fb,
  cie_wf c = true -> fde_wf f = true ->
  cie_write dbg be eh cpos c = Ok cb -> fde_write dbg be eh fpos coff c f = Ok fb ->
  exists cil chdr carea fil fhdr farea,
    cb = cil ++ chdr ++ carea /\ fb = fil ++ fhdr ++ farea /\
    len cil = ilen_size (c_fmt64 c) /\ len fil = ilen_size (c_fmt64 c) /\
    forall dbg' caps cx init range,
      CfiRun.cap_full (CfaSpec.max_stack caps) 0 = false ->
      let cbase := cpos + len cil + len chdr in
      let fbase := fpos + len fil + len fhdr in
      let fi := fde_in_of be aa c init range cbase carea fbase farea in
      let scr := script_rows_lim caps aa (c_asize c) init range (c_insns c) (f_insns f) in
      Forall2 (row_sees (in2 cbase carea fbase farea)) (fst (fst (CfiRun.fde_rows dbg' caps fi cx))) (fst scr) /\
      snd (fst (CfiRun.fde_rows dbg' caps fi cx)) = snd scr.
Proof. exact rows_read_by_reader_full. Qed.

(* table_rows_read_by_reader — (missing item 2) the whole written table through BOTH reader models: the entry
   iterator (C05, CfiRd.entries_all) returns the tiles as in entries_read_by_reader, and for the k-th FDE tile the
   FDE record fd that CfiRd.fde_parse returns — handed to the table evaluator through CfiUwi.fde_in_of, the very
   adapter UnwindSection::unwind_info_for_address uses (C05 composition) — has the FDE's initial address and
   range and evaluates (C06, any vendor, build mode, capacities, previous context) to the script machine's table
   of the k-th FDE's script under its CIE's initial instructions. Expression references are resolved in the
   instruction windows of the reader's own records (ci_instr / fd_instr). *)
Theorem table_rows_read_by_reader : forall (dbg dbg' be eh : bool) (asz : N) (t : ftable) bs,
  Forall (fun c => cie_wf c = true /\ c_asize c = asz) (t_cies t) ->
  Forall (fun p => fde_wf (snd p) = true) (t_fdes t) ->
  len bs + 16 < 4294967295 ->
  write_table dbg be eh 0 t = Ok bs ->
  exists chunks items,
    map fst chunks = plan [] 0 (map fst (t_fdes t)) /\
    bs = concat (map snd chunks) /\
    CfiRd.entries_all dbg' (rd_cfg eh be asz) bs = Ok (items, None) /\
    reader_sees dbg dbg' be eh asz (t_cies t) (t_fdes t) bs 0 [] chunks items /\
    rows_seen dbg' be eh asz (t_cies t) (t_fdes t) bs chunks items.
Proof. exact table_rows_read_by_reader_lem. Qed.

(* what rows_seen says for one FDE tile *)
Example rows_seen_unfold : forall dbg' be eh asz cies fdes sec k b r p its,
  rows_seen dbg' be eh asz cies fdes sec ((CfaEncSpec.IFde k, b) :: r) (CfiRd.IFde p :: its) =
  ((exists idx f c fd,
      nth_error fdes k = Some (idx, f) /\ nth_error cies idx = Some c /\
      CfiRd.fde_parse dbg' (rd_cfg eh be asz) sec p = Ok fd /\
      (CfiRd.fd_init fd = addr_val (f_addr f) mod 2 ^ (8 * c_asize c) /\ CfiRd.fd_range fd = f_len f /\
       forall aa dbg2 caps cx,
         CfiRun.cap_full (CfaSpec.max_stack caps) 0 = false ->
         let fi := CfiUwi.fde_in_of be aa fd in
         let scr := script_rows_lim caps aa (c_asize c) (CfiRd.fd_init fd) (CfiRd.fd_range fd) (c_insns c) (f_insns f) in
         Forall2 (row_sees (in2 (CfiRd.off (CfiRd.ci_instr (CfiRd.fd_cie fd))) (CfiRd.win (CfiRd.ci_instr (CfiRd.fd_cie fd)))
                                (CfiRd.off (CfiRd.fd_instr fd)) (CfiRd.win (CfiRd.fd_instr fd))))
                 (fst (fst (CfiRun.fde_rows dbg2 caps fi cx))) (fst scr) /\
         snd (fst (CfiRun.fde_rows dbg2 caps fi cx)) = snd scr))
   /\ rows_seen dbg' be eh asz cies fdes sec r its).
Proof. reflexivity. Qed.

(* the script machine on the running example, and a script that hits the row-stack limit of StoreOnHeap (4 rows):
   the CIE leaves two rules (one row for the saved initial rules), two remember_state fit, the third is StackFull *)
Example script_rows_ex :
  script_rows false 4 4096 16 (c_insns cie_a) (f_insns (fde_a 4096)) =
  ([ {| xr_start := 4096; xr_end := 4100; xr_cfa := XCfaRegOff 4 4; xr_args := 0; xr_rules := [] |};
     {| xr_start := 4100; xr_end := 4112; xr_cfa := XCfaRegOff 4 8; xr_args := 0; xr_rules := [] |} ], CfaSpec.Done).
Proof. vm_compute. reflexivity. Qed.
Example script_rows_limit_ex :
  snd (script_rows_lim heap_caps false 8 0 64 [Cfa 7 8; Offset 16 (-8); Offset 6 (-16)]
                       [(0, RememberState); (4, RememberState); (8, RememberState)]) = CfaSpec.Fail EStackFull /\
  length (fst (script_rows_lim heap_caps false 8 0 64 [Cfa 7 8; Offset 16 (-8); Offset 6 (-16)]
                       [(0, RememberState); (4, RememberState); (8, RememberState)])) = 2%nat /\
  snd (script_rows false 8 0 64 [Cfa 7 8; Offset 16 (-8); Offset 6 (-16)]
                       [(0, RememberState); (4, RememberState); (8, RememberState)]) = CfaSpec.Done /\
  snd (script_rows false 8 0 64 [] [(0, NegateRaState)]) = CfaSpec.Fail EUnknownCallFrameInstruction /\
  snd (script_rows true 4 4294967000 400 [] [(4, Undefined 1); (300, Undefined 2)]) = CfaSpec.Fail EAddressOverflow.
Proof. vm_compute. repeat split. Qed.
(* the hypotheses of rows_by_script_areas on an instance with an expression and a vendor instruction *)
Example rows_by_script_areas_ex :
  forallb cfi_wf [Cfa 7 8; ValExpression 3 [x11; x22]] = true /\
  forallb fde_insn_wf [(0, NegateRaState); (8, Expression 5 [x9c])] = true /\
  exists ci fi,
    write_insns true (-8) [Cfa 7 8; ValExpression 3 [x11; x22]] = Ok ci /\
    write_fde_insns true false 4 (-8) 0 [(0, NegateRaState); (8, Expression 5 [x9c])] = Ok fi /\
    map CfiRun.r_start (fst (fst (CfiRun.fde_rows true heap_caps (mk_fde_in false true 8 4 (-8) 4096 32 100 (ci ++ [x00]) 200 (fi ++ [x00; x00]))
                              {| CfiRun.c_stack := []; CfiRun.c_initial_rule := None; CfiRun.c_init := true |}))) = [4096; 4104].
Proof.
  split; [reflexivity|]. split; [reflexivity|]. eexists. eexists.
  split; [vm_compute; reflexivity|]. split; [vm_compute; reflexivity|]. vm_compute. reflexivity.
Qed.


(* script_fits_unlimited — "when the context's storage limits are not hit": if along the unlimited evaluation of
   the script the occupancy never exceeds the capacities (script_fits, computed on the script alone), the limited
   table IS the DWARF table (script_rows); otherwise rows_by_script_areas says where StackFull /
   TooManyRegisterRules is reported. *)
Theorem script_fits_unlimited : forall (c : CfaSpec.caps) (aa : bool) (asz init range : N) (cie : list cfi) (fde : list (N * cfi)),
  script_fits c aa cie fde = true ->
  script_rows_lim c aa asz init range cie fde = script_rows aa asz init range cie fde.
Proof. exact CfaScriptProofs.script_fits_unlimited. Qed.
Example script_fits_ex :
  script_fits heap_caps false (c_insns cie_a) (f_insns (fde_a 4096)) = true /\
  script_fits heap_caps false [Cfa 7 8; Offset 16 (-8); Offset 6 (-16)] [(0, RememberState); (4, RememberState); (8, RememberState)] = false /\
  script_fits heap_caps false [Cfa 7 8; Offset 16 (-8); Offset 6 (-16)] [(0, RememberState); (4, RememberState)] = true.
Proof. vm_compute. repeat split. Qed.

(* pins *)
Check factoring_exact. Check factoring_exact_code. Check advance_loc_forms. Check advance_loc_encodings.
Check insn_write_read. Check fde_program_read. Check cie_program_read.
Check entry_layout_cie. Check entry_layout_fde.
Check cie_eqb_eq. Check cie_dedup_ids. Check cie_dedup_emission. Check plan_spec.
Check pointer_read_back. Check cie_header_read. Check fde_header_read. Check table_roundtrip.
Check table_roundtrip_partial. Check insn_read_by_reader. Check entries_read_by_reader. Check rows_read_by_reader_partial.
Check no_panic_write. Check unsupported_address_size_is_error. Check lsda_mismatch_is_error. Check no_panic_build.
Check reader_insn_effect_is_meaning. Check rows_by_script_areas. Check rows_read_by_reader. Check table_rows_read_by_reader.
Check script_fits_unlimited.
