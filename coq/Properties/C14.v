(* Properties/C14.v — placeholder, replaced by the real theorems. *)
From Coq Require Import List NArith ZArith Bool.
Require Import GV.Base.Res GV.Spec.CfaEncSpec GV.Model.CfiWr.
