(* Proofs/CfiRdHist.v — EhHdrTableIter as a state machine: every history of next / nth k /
   size_hint on a well-formed table returns exactly the corresponding rows of the full scan
   (C05 clause hdr_iter_history). *)
From Coq Require Import List NArith ZArith Bool Lia ZifyBool ZifyN ZifyNat.
From Coq.Strings Require Import Byte.
Require Import GV.Base.Res GV.Base.Byt GV.Base.Ints GV.Model.Leb GV.Model.Prim GV.Spec.LebSpec.
Require Import GV.Spec.CfiSpec GV.Model.CfiRd GV.Proofs.CfiRdBase GV.Proofs.CfiRdBs GV.Proofs.CfiRdHdr.
Import ListNotations.
Local Open Scope N_scope.

Local Arguments N.add : simpl never.
Local Arguments N.sub : simpl never.
Local Arguments N.mul : simpl never.
Local Arguments N.pow : simpl never.
Local Arguments N.div : simpl never.
Local Arguments N.modulo : simpl never.

(* ------------------------------------------------------------------ what a history must observe *)
(* dec = the rows of the table in order; row = bytes per row; total = bytes available from the
   start of the table (rows and whatever follows them in the section); state: q = rows the reader
   has moved past, rem = rows the iterator still claims.
     next            : None when rem = 0, else row q
     nth k           : rem := rem -sat k first; k rows are skipped — UnsupportedOffset if k*row does not
                       fit u64, UnexpectedEof (nothing skipped) if fewer than k rows of bytes are left —
                       then next
     size_hint       : (rem, Some rem) *)
Fixpoint iter_spec (row total : N) (dec : list (pointer * pointer)) (q rem : N) (ops : list iop) : list iobs :=
  match ops with
  | [] => []
  | OHint :: r => BHint rem (Some rem) :: iter_spec row total dec q rem r
  | ONext :: r =>
      if rem =? 0 then BItem None :: iter_spec row total dec q rem r
      else match nth_error dec (N.to_nat q) with
           | Some x => BItem (Some x) :: iter_spec row total dec (q + 1) (rem - 1) r
           | None => [BFuel]     (* excluded by the invariant q + rem <= length dec *)
           end
  | ONth k :: r =>
      let rem' := (if k <=? rem then rem - k else 0) in
      if 2 ^ 64 <=? k * row then BErr EUnsupportedOffset :: iter_spec row total dec q rem' r
      else if total <? (q + k) * row then BErr EUnexpectedEof :: iter_spec row total dec q rem' r
      else if rem' =? 0 then BItem None :: iter_spec row total dec (q + k) rem' r
      else match nth_error dec (N.to_nat (q + k)) with
           | Some x => BItem (Some x) :: iter_spec row total dec (q + k + 1) (rem' - 1) r
           | None => [BFuel]
           end
  end.

Definition yields_row (o : iobs) : Prop := exists x, o = BItem (Some x).

(* once the iterator has ended (rem = 0) no operation ever yields a row again *)
Lemma iter_spec_ended : forall row total dec ops q,
  Forall (fun o => ~ yields_row o) (iter_spec row total dec q 0 ops).
Proof.
  intros row total dec. induction ops as [|op r IH]; intros q; [constructor|].
  destruct op as [|k|]; cbn [iter_spec].
  - change (0 =? 0) with true. cbv iota. constructor; [intros (x & Hx); discriminate|apply IH].
  - assert (Hr : (if k <=? 0 then 0 - k else 0) = 0) by (destruct (k <=? 0) eqn:E; lia). rewrite Hr.
    destruct (2 ^ 64 <=? k * row); [constructor; [intros (x & Hx); discriminate|apply IH]|].
    destruct (total <? (q + k) * row); [constructor; [intros (x & Hx); discriminate|apply IH]|].
    change (0 =? 0) with true. cbv iota. constructor; [intros (x & Hx); discriminate|apply IH].
  - constructor; [intros (x & Hx); discriminate|apply IH].
Qed.

(* every row a history yields is a row of the table (index below the row count), in increasing order
   of index: stated as "the q-th row, q strictly growing" by the spec itself; here: membership *)
Lemma iter_spec_in : forall row total dec ops q rem x,
  In (BItem (Some x)) (iter_spec row total dec q rem ops) -> In x dec.
Proof.
  intros row total dec. induction ops as [|op r IH]; intros q rem x H; [destruct H|].
  destruct op as [|k|]; cbn [iter_spec] in H.
  - destruct (rem =? 0).
    + destruct H as [H|H]; [discriminate|eapply IH; exact H].
    + destruct (nth_error dec (N.to_nat q)) as [y|] eqn:E; [|destruct H as [H|[]]; discriminate].
      destruct H as [H|H]; [injection H as ->; eapply nth_error_In; exact E|eapply IH; exact H].
  - destruct (2 ^ 64 <=? k * row); [destruct H as [H|H]; [discriminate|eapply IH; exact H]|].
    destruct (total <? (q + k) * row); [destruct H as [H|H]; [discriminate|eapply IH; exact H]|].
    destruct (_ =? 0); [destruct H as [H|H]; [discriminate|eapply IH; exact H]|].
    destruct (nth_error dec (N.to_nat (q + k))) as [y|] eqn:E; [|destruct H as [H|[]]; discriminate].
    destruct H as [H|H]; [injection H as ->; eapply nth_error_In; exact E|eapply IH; exact H].
  - destruct H as [H|H]; [discriminate|eapply IH; exact H].
Qed.

(* ------------------------------------------------------------------ the model on a well-formed table *)
Lemma skipn_flat : forall size rows pad j, wf_rows size rows -> (j <= length rows)%nat ->
  skipn (N.to_nat (N.of_nat j * (size * 2))) (flat rows ++ pad) = flat (skipn j rows) ++ pad.
Proof.
  intros size rows pad j Hwf. revert j. induction Hwf as [|r rs [H1 H2] _ IH]; intros j Hj.
  - cbn [length] in Hj. assert (j = 0%nat) by lia. subst j. reflexivity.
  - destruct j as [|j]; [reflexivity|]. cbn [length] in Hj. cbn [skipn].
    rewrite flat_cons, <- !app_assoc.
    replace (N.to_nat (N.of_nat (S j) * (size * 2)))
      with (N.to_nat (nlen (fst r)) + (N.to_nat (nlen (snd r)) + N.to_nat (N.of_nat j * (size * 2))))%nat by lia.
    rewrite <- skipn_skipn_add, skipn_nlen_app, <- skipn_skipn_add, skipn_nlen_app. apply IH. lia.
Qed.

Lemma skipn_nth_cons : forall A (l : list A) j r, nth_error l j = Some r -> skipn j l = r :: skipn (S j) l.
Proof.
  induction l as [|y l IH]; intros j r H; [destruct j; discriminate|].
  destruct j as [|j]; [injection H as ->; reflexivity|]. cbn [nth_error] in H. cbn [skipn]. apply IH. exact H.
Qed.

Lemma size_pos_of : forall enc size, tbl_field_size enc = Some size -> 0 < size.
Proof.
  intros enc size H. unfold tbl_field_size in H. cbv zeta in H.
  destruct (_ || _) in H; [injection H; lia|].
  destruct (_ || _) in H; [injection H; lia|].
  destruct (_ || _) in H; [injection H; lia|discriminate].
Qed.

Section History.
  Variables (dbg : bool) (hb : sbases) (h : hdr) (size o0 : N).
  Variable rows : list (list byte * list byte).
  Variable pad : list byte.
  Variable dec : list (pointer * pointer).
  Hypothesis Hsize : tbl_field_size (h_enc h) = Some size.
  Hypothesis Hwf : wf_rows size rows.
  Hypothesis Hlen : length dec = length rows.
  Let row := size * 2.
  Let pep := decode_at dbg (h_be h) (h_enc h) (hdr_pp hb h).
  (* row j of the table decodes to the j-th pair *)
  Hypothesis Hdec : forall j r x, nth_error rows j = Some r -> nth_error dec j = Some x ->
    pep (o0 + N.of_nat j * row) (fst r) = Ok (fst x) /\
    pep (o0 + N.of_nat j * row + size) (snd r) = Ok (snd x).
  Let tb := flat rows ++ pad.
  Let n := N.of_nat (length rows).

  Definition st_of (q rem : N) : rd * N := (mkrd (o0 + q * row) (skipn (N.to_nat (q * row)) tb), rem).

  Lemma nlen_tb : nlen tb = n * row + nlen pad.
  Proof. unfold tb. rewrite nlen_app, (nlen_flat _ _ Hwf). reflexivity. Qed.

  Lemma step_next : forall q rem, 0 < rem -> q + rem <= n ->
    exists x, nth_error dec (N.to_nat q) = Some x /\
      tbl_next dbg hb h (st_of q rem) = Ok (SSome x, st_of (q + 1) (rem - 1)).
  Proof.
    intros q rem Hrem Hq.
    set (j := N.to_nat q). assert (Hj : (j < length rows)%nat) by (unfold n in Hq; lia).
    destruct (nth_error rows j) as [r|] eqn:Er; [|apply nth_error_None in Er; lia].
    destruct (nth_error dec j) as [x|] eqn:Ex; [|apply nth_error_None in Ex; lia].
    exists x. split; [reflexivity|].
    destruct (Hdec j r x Er Ex) as [H1 H2].
    assert (Hr : nlen (fst r) = size /\ nlen (snd r) = size).
    { unfold wf_rows in Hwf. rewrite Forall_forall in Hwf. apply Hwf. eapply nth_error_In. exact Er. }
    destruct Hr as [Hr1 Hr2].
    assert (Hq' : q = N.of_nat j) by (unfold j; lia).
    assert (Hw : skipn (N.to_nat (q * row)) tb = fst r ++ snd r ++ skipn (N.to_nat ((q + 1) * row)) tb).
    { unfold tb, row. rewrite Hq'. rewrite skipn_flat by (try exact Hwf; lia).
      replace (N.of_nat j + 1) with (N.of_nat (S j)) by lia. rewrite skipn_flat by (try exact Hwf; lia).
      assert (Hs : skipn j rows = r :: skipn (S j) rows) by (apply skipn_nth_cons; exact Er).
      rewrite Hs, flat_cons, <- !app_assoc. reflexivity. }
    unfold st_of, tbl_next. destruct (rem =? 0) eqn:E0; [lia|].
    rewrite Hw.
    rewrite (pep_frame _ _ _ _ size) by (rewrite ?nlen_app; try exact Hsize; lia).
    assert (Hf1 : forall t, firstn (N.to_nat size) (fst r ++ t) = fst r) by (intros t; rewrite <- Hr1; apply firstn_nlen_app).
    assert (Hk1 : forall t, skipn (N.to_nat size) (fst r ++ t) = t) by (intros t; rewrite <- Hr1; apply skipn_nlen_app).
    assert (Hf2 : forall t, firstn (N.to_nat size) (snd r ++ t) = snd r) by (intros t; rewrite <- Hr2; apply firstn_nlen_app).
    assert (Hk2 : forall t, skipn (N.to_nat size) (snd r ++ t) = t) by (intros t; rewrite <- Hr2; apply skipn_nlen_app).
    rewrite Hf1, Hk1. fold pep. rewrite Hq'. fold row in H1, H2. rewrite H1. cbn [bind].
    rewrite (pep_frame _ _ _ _ size) by (rewrite ?nlen_app; try exact Hsize; lia).
    rewrite Hf2, Hk2. fold pep. rewrite H2. cbn [bind].
    destruct x as [xa xb]. cbn [fst snd]. do 3 f_equal. f_equal. unfold row. lia.
  Qed.

  Lemma step_nth : forall q rem k, q * row <= nlen tb ->
    let rem' := (if k <=? rem then rem - k else 0) in
    tbl_nth_st dbg hb h (st_of q rem) k =
    if 2 ^ 64 <=? k * row then Ok (SErr EUnsupportedOffset, st_of q rem')
    else if nlen tb <? (q + k) * row then Ok (SErr EUnexpectedEof, st_of q rem')
    else tbl_next dbg hb h (st_of (q + k) rem').
  Proof.
    intros q rem k Hq rem'. unfold tbl_nth_st, st_of. rewrite Hsize. fold row. fold rem'.
    change two64 with (2 ^ 64).
    destruct (2 ^ 64 <=? k * row); [reflexivity|].
    unfold rd_skip. cbn [win off].
    assert (Hl : nlen (skipn (N.to_nat (q * row)) tb) = nlen tb - q * row).
    { unfold nlen. rewrite skipn_length. unfold nlen in Hq. lia. }
    rewrite Hl.
    destruct (nlen tb <? (q + k) * row) eqn:E.
    - destruct (nlen tb - q * row <? k * row) eqn:E2; [reflexivity|lia].
    - destruct (nlen tb - q * row <? k * row) eqn:E2; [lia|].
      rewrite skipn_skipn_add.
      replace (o0 + q * row + k * row) with (o0 + (q + k) * row) by lia.
      replace (N.to_nat (q * row) + N.to_nat (k * row))%nat with (N.to_nat ((q + k) * row)) by lia.
      reflexivity.
  Qed.

  (* the theorem: every history *)
  Lemma hdr_iter_history_gen : forall ops q rem,
    q * row <= nlen tb -> (0 < rem -> q + rem <= n) ->
    tbl_run dbg hb h (st_of q rem) ops = iter_spec row (nlen tb) dec q rem ops.
  Proof.
    induction ops as [|op r IH]; intros q rem Hq Hinv; [reflexivity|].
    destruct op as [|k|]; cbn [tbl_run iter_spec].
    - (* next *)
      destruct (rem =? 0) eqn:E0.
      + unfold st_of at 1, tbl_next. rewrite E0. cbn [obs_of_step]. f_equal. apply IH; assumption.
      + destruct (step_next q rem) as (x & Hx & Hs); [lia|apply Hinv; lia|].
        rewrite Hx, Hs. cbn [obs_of_step]. f_equal. apply IH.
        * rewrite nlen_tb. assert (q + 1 <= n) by (specialize (Hinv ltac:(lia)); lia). nia.
        * intros _. specialize (Hinv ltac:(lia)). lia.
    - (* nth k *)
      rewrite step_nth by exact Hq. cbv zeta.
      set (rem' := if k <=? rem then rem - k else 0).
      destruct (2 ^ 64 <=? k * row); [cbn [obs_of_step]; f_equal; apply IH; [exact Hq|intros; subst rem'; destruct (k <=? rem) eqn:E; [specialize (Hinv ltac:(lia)); lia|lia]]|].
      destruct (nlen tb <? (q + k) * row) eqn:Eeof; [cbn [obs_of_step]; f_equal; apply IH; [exact Hq|intros; subst rem'; destruct (k <=? rem) eqn:E; [specialize (Hinv ltac:(lia)); lia|lia]]|].
      destruct (rem' =? 0) eqn:E0.
      + unfold st_of at 1, tbl_next. rewrite E0. cbn [obs_of_step]. f_equal. apply IH; [lia|lia].
      + assert (Hk : k <= rem /\ rem' = rem - k) by (subst rem'; destruct (k <=? rem) eqn:E; lia).
        destruct Hk as [Hk1 Hk2].
        assert (Hinv' : q + rem <= n) by (apply Hinv; lia).
        destruct (step_next (q + k) rem') as (x & Hx & Hs); [lia|lia|].
        rewrite Hx, Hs. cbn [obs_of_step]. f_equal. apply IH.
        * rewrite nlen_tb. assert (q + k + 1 <= n) by lia. nia.
        * intros _. lia.
    - (* size_hint *)
      unfold tbl_size_hint at 1 2. cbn [st_of fst snd]. f_equal. apply IH; assumption.
  Qed.

  Hypothesis Hcount : h_count h = n.
  Hypothesis Htable : h_table h = mkrd o0 tb.

  Lemma hdr_iter_history_lem : forall ops,
    tbl_run dbg hb h (tbl_iter h) ops = iter_spec row (nlen tb) dec 0 n ops.
  Proof.
    intros ops. unfold tbl_iter. rewrite Hcount, Htable.
    replace (mkrd o0 tb, n) with (st_of 0 n).
    - apply hdr_iter_history_gen; lia.
    - unfold st_of. rewrite N.mul_0_l, N.add_0_r. reflexivity.
  Qed.

  (* the full scan (`while let Some(row) = it.next()?`) returns exactly the rows *)
  Lemma tbl_all_loop_dec : forall fuel q, (N.to_nat (n - q) < fuel)%nat -> q <= n ->
    tbl_all_loop fuel dbg hb h (st_of q (n - q)) = Ok (skipn (N.to_nat q) dec, None).
  Proof.
    induction fuel as [|f IH]; intros q Hf Hq; [lia|]. cbn [tbl_all_loop].
    destruct (N.eq_dec q n) as [->|Hne].
    - unfold st_of at 1, tbl_next. rewrite N.sub_diag. change (0 =? 0) with true. cbn [bind].
      rewrite skipn_all2 by (rewrite Hlen; unfold n; lia). reflexivity.
    - destruct (step_next q (n - q)) as (x & Hx & Hs); [lia|lia|]. rewrite Hs. cbn [bind].
      replace (n - q - 1) with (n - (q + 1)) by lia. rewrite IH by lia. cbn [bind].
      do 2 f_equal. f_equal.
      replace (N.to_nat (q + 1)) with (S (N.to_nat q)) by lia. symmetry. apply skipn_nth_cons. exact Hx.
  Qed.

  Lemma tbl_all_dec : tbl_all dbg hb h = Ok (dec, None).
  Proof.
    unfold tbl_all, tbl_iter. rewrite Hcount, Htable. cbn [win].
    replace (mkrd o0 tb, n) with (st_of 0 (n - 0)).
    - rewrite tbl_all_loop_dec; [reflexivity| |lia].
      pose proof nlen_tb as Hl. unfold nlen in Hl. pose proof size_pos_of as Hsp.
      assert (0 < size) by (apply (Hsp (h_enc h)); exact Hsize). unfold row in Hl. nia.
    - unfold st_of. rewrite N.mul_0_l, N.add_0_r, N.sub_0_r. reflexivity.
  Qed.
End History.

(* ------------------------------------------------------------------ statements for Properties/C05.v *)
(* rows = the table as (location bytes, address bytes) pairs; dec = what they decode to *)
Definition table_decodes (dbg : bool) (hb : sbases) (h : hdr) (size o0 : N)
           (rows : list (list byte * list byte)) (dec : list (pointer * pointer)) : Prop :=
  length dec = length rows /\
  forall j r x, nth_error rows j = Some r -> nth_error dec j = Some x ->
    decode_at dbg (h_be h) (h_enc h) (hdr_pp hb h) (o0 + N.of_nat j * (size * 2)) (fst r) = Ok (fst x) /\
    decode_at dbg (h_be h) (h_enc h) (hdr_pp hb h) (o0 + N.of_nat j * (size * 2) + size) (snd r) = Ok (snd x).

Lemma hdr_iter_history_thm : forall dbg hb h size o0 rows pad dec ops,
  tbl_field_size (h_enc h) = Some size -> wf_rows size rows ->
  table_decodes dbg hb h size o0 rows dec ->
  h_count h = N.of_nat (length rows) -> h_table h = mkrd o0 (flat rows ++ pad) ->
  tbl_run dbg hb h (tbl_iter h) ops =
  iter_spec (size * 2) (nlen (flat rows ++ pad)) dec 0 (N.of_nat (length rows)) ops.
Proof.
  intros dbg hb h size o0 rows pad dec ops Hs Hwf [Hl Hd] Hc Ht.
  apply (hdr_iter_history_lem dbg hb h size o0 rows pad dec Hs Hwf Hl Hd Hc Ht).
Qed.

Lemma hdr_full_scan_thm : forall dbg hb h size o0 rows pad dec,
  tbl_field_size (h_enc h) = Some size -> wf_rows size rows ->
  table_decodes dbg hb h size o0 rows dec ->
  h_count h = N.of_nat (length rows) -> h_table h = mkrd o0 (flat rows ++ pad) ->
  tbl_all dbg hb h = Ok (dec, None).
Proof.
  intros dbg hb h size o0 rows pad dec Hs Hwf [Hl Hd] Hc Ht.
  apply (tbl_all_dec dbg hb h size o0 rows pad dec Hs Hwf Hl Hd Hc Ht).
Qed.
