(* Proofs/ConvertLineScript.v — property C12: C13's script_ok for the converter's event script reduced to a
   first-order predicate on the event list (maximum_operations_per_instruction = 1): offsets non-decreasing within a
   sequence, multiples of minimum_instruction_length and below 2^64, lines below 2^64, op_index 0. *)
From Coq Require Import List NArith ZArith Bool Lia.
Require Import GV.Base.Res GV.Base.Ints GV.Model.LineWr GV.Model.ConvertLine GV.Proofs.LineWrProofs
               GV.Proofs.LineWrSeqProofs GV.Proofs.ConvertLineReplay.
Import ListNotations.
Local Open Scope N_scope.

Fixpoint evs_ok (mil pao : N) (evs : list clrow) : Prop :=
  match evs with
  | [] => True
  | CRSetAddress _ :: r => evs_ok mil pao r
  | CRRow w :: r =>
      pao <= w_address_offset w /\ w_address_offset w mod mil = 0 /\ w_address_offset w < two64 /\
      w_line w < two64 /\ w_op_index w = 0 /\ evs_ok mil (w_address_offset w) r
  | CREndSequence n :: r => pao <= n /\ n mod mil = 0 /\ n < two64 /\ evs_ok mil 0 r
  end.

Lemma div_small a mil : 1 <= mil -> a < two64 -> a / mil * 1 + 0 < 18446744073709551616.
Proof.
  intros Hm Ha. unfold two64 in Ha.
  assert (a / mil <= a) by (apply N.div_le_upper_bound; [lia|nia]). lia.
Qed.

Lemma evs_script_ok e l : le_max_ops l = 1 -> 1 <= le_min_len l -> le_min_len l <> 0 ->
  forall evs prev b opi,
  opi = 0 -> w_op_index prev = 0 -> w_line prev < two64 -> w_address_offset prev mod le_min_len l = 0 ->
  evs_ok (le_min_len l) (w_address_offset prev) evs ->
  script_ok e l prev b (script_of opi evs).
Proof.
  intros Hmo Hmil Hnz. induction evs as [|ev evs IH]; intros prev b opi Eo Po Pl Pa H; [exact I|].
  destruct ev as [a|w|n]; cbn [script_of script_ok evs_ok] in *.
  - apply IH; auto.
  - destruct H as (H1 & H2 & H3 & H4 & H5 & H6). split.
    + unfold row_ok, step_ok. rewrite Hmo, Po, H5. unfold two64 in *.
      repeat split; try assumption; try lia; try (apply div_small; [exact Hmil|unfold two64; lia]).
    + apply IH; cbn; auto.
  - destruct H as (H1 & H2 & H3 & H4). subst opi. split.
    + unfold end_ok, step_ok. rewrite Hmo, Po. unfold two64 in *.
      repeat split; try assumption; try lia; try (apply div_small; [exact Hmil|unfold two64; lia]).
    + apply IH; cbn; auto; try (unfold two64; lia); try (apply N.mod_0_l; exact Hnz).
Qed.

(* line_convert_emits_meaning with script_ok replaced by the event-list predicate *)
Lemma convert_emits_meaning_evs dbg be sx h c evs cf :
  let p := cl_prog c in
  p_insns p = [] -> p_prev p = wrow_initial (p_enc p) (p_lenc p) -> p_row p = wrow_initial (p_enc p) (p_lenc p) ->
  p_in_seq p = false ->
  enc_ok (p_lenc p) -> le_max_ops (p_lenc p) = 1 -> (e_version (p_enc p) <= 5)%N ->
  events dbg be sx h c = (evs, LineRd.SEnd, cf) ->
  evs_ok (le_min_len (p_lenc p)) 0 evs ->
  exists q',
    convert dbg be sx h (fun a => Some (AConst a)) c =
      (if p_in_seq q' then Err CMissingLineEndSequence else Ok (reprog q' cf)) /\
    Forall special_ok (p_insns q') /\
    LineAdvSpec.rows_of (params_of (p_lenc p)) (map (denote (e_version (p_enc p))) (p_insns q')) =
      fst (meaning (e_version (p_enc p)) (params_of (p_lenc p))
             (LineAdvSpec.init_regs (params_of (p_lenc p)), 0%N) (script_of 0 evs)).
Proof.
  intros p Hins Hprev Hrow Hseq Hok Hmo Hver Hev Hevs.
  apply (convert_emits_meaning dbg be sx h c evs cf Hins Hprev Hrow Hseq Hok Hver Hev).
  destruct Hok as (_ & _ & _ & Hmil & _).
  apply evs_script_ok; auto; try lia; cbn; try reflexivity; try (unfold two64; lia); try (apply N.mod_0_l; lia).
  fold p. lia.
Qed.
