(* Proofs/CfiRdHdr.v — the .eh_frame_hdr path agrees with the linear search (C05 clause 6). *)
From Coq Require Import List NArith ZArith Bool Lia ZifyBool ZifyN ZifyNat.
From Coq.Strings Require Import Byte.
Require Import GV.Base.Res GV.Base.Byt GV.Base.Ints GV.Model.Leb GV.Model.Prim GV.Spec.LebSpec.
Require Import GV.Spec.CfiSpec GV.Model.CfiRd GV.Proofs.CfiRdBase GV.Proofs.CfiRdBs GV.Proofs.CfiRdIter
               GV.Proofs.CfiRdSafe.
Import ListNotations.
Local Open Scope N_scope.

Local Arguments N.add : simpl never.
Local Arguments N.sub : simpl never.
Local Arguments N.mul : simpl never.
Local Arguments N.pow : simpl never.
Local Arguments N.div : simpl never.
Local Arguments N.modulo : simpl never.

(* ------------------------------------------------------------------ readers of the iterator are suffixes of the section *)
Definition suffix_rd (sec : list byte) (r : rd) : Prop :=
  off r <= nlen sec /\ win r = skipn (N.to_nat (off r)) sec.

Lemma skipn_skipn_add : forall (b a : nat) (l : list byte), skipn a (skipn b l) = skipn (b + a) l.
Proof.
  induction b as [|b IH]; intros a l; [reflexivity|].
  destruct l as [|x l]; [rewrite !skipn_nil; reflexivity|]. cbn [skipn Nat.add]. apply IH.
Qed.

Lemma suffix_advance : forall sec r e rest,
  suffix_rd sec r -> win r = e ++ rest -> suffix_rd sec (mkrd (off r + nlen e) rest).
Proof.
  intros sec r e rest [H1 H2] Hw. unfold suffix_rd. cbn [off win].
  assert (Hl : nlen (win r) = nlen sec - off r).
  { rewrite H2. unfold nlen. rewrite skipn_length. lia. }
  rewrite Hw, nlen_app in Hl. split; [lia|].
  rewrite N2Nat.inj_add. rewrite <- skipn_skipn_add, <- H2, Hw.
  symmetry. apply skipn_nlen_app.
Qed.

Lemma read_un_prefix : forall n be bs v r, read_un n be bs = Ok (v, r) -> exists e, bs = e ++ r.
Proof.
  intros n be bs v r H. unfold read_un, read_bytes in H.
  destruct (take n bs) as [[h t]|] eqn:E; cbn [bind] in H; [|discriminate].
  injection H as _ <-. apply take_some_len in E as [-> _]. eauto.
Qed.

Lemma read_initial_length_prefix : forall be bs x r, read_initial_length be bs = Ok (x, r) -> exists e, bs = e ++ r.
Proof.
  intros be bs x r H. unfold read_initial_length in H.
  apply bind_ok in H as ([v r0] & Hv & H). apply read_un_prefix in Hv as (e0 & ->).
  destruct (v <? 4294967280); [injection H as _ <-; eauto|].
  destruct (v =? 4294967295); [|discriminate].
  apply bind_ok in H as ([v8 r8] & Hv8 & H). apply read_un_prefix in Hv8 as (e8 & ->).
  injection H as _ <-. exists (e0 ++ e8). rewrite app_assoc. reflexivity.
Qed.

Lemma lift_suffix : forall A (f : list byte -> res (A * list byte)) sec r a r',
  (forall bs x t, f bs = Ok (x, t) -> exists e, bs = e ++ t) ->
  lift f r = Ok (a, r') -> suffix_rd sec r -> suffix_rd sec r'.
Proof.
  intros A f sec r a r' Hpre H Hs. unfold lift in H.
  destruct (f (win r)) as [[a0 rest]| | |] eqn:E; cbn [bind] in H; try discriminate.
  injection H as _ <-. destruct (Hpre _ _ _ E) as (e & Hw).
  replace (nlen (win r) - nlen rest) with (nlen e) by (rewrite Hw, nlen_app; lia).
  apply suffix_advance; assumption.
Qed.

Lemma rd_split_suffix : forall sec n r h t, rd_split n r = Ok (h, t) -> suffix_rd sec r -> suffix_rd sec t.
Proof.
  intros sec n r h t H Hs. unfold rd_split in H. destruct (nlen (win r) <? n) eqn:E; [discriminate|].
  injection H as _ <-.
  pose proof (suffix_advance sec r (firstn (N.to_nat n) (win r)) (skipn (N.to_nat n) (win r)) Hs) as Ha.
  rewrite firstn_skipn in Ha. specialize (Ha eq_refl).
  replace (nlen (firstn (N.to_nat n) (win r))) with n in Ha; [exact Ha|].
  unfold nlen in *. rewrite firstn_length. lia.
Qed.

Lemma parse_prefix_suffix : forall sec c input opx in',
  parse_prefix c input = Ok (opx, in') -> suffix_rd sec input -> suffix_rd sec in'.
Proof.
  intros sec c input opx in' H Hs. unfold parse_prefix in H.
  apply bind_ok in H as ([[len fmt64] in1] & Hl & H).
  apply (lift_suffix _ _ sec) in Hl; [|apply read_initial_length_prefix|exact Hs].
  destruct (len =? 0); [injection H as _ <-; exact Hl|].
  apply bind_ok in H as ([rest in2] & Hsp & H). apply (rd_split_suffix sec) in Hsp; [|exact Hl].
  apply bind_ok in H as ([id rest1] & _ & H). injection H as _ <-. exact Hsp.
Qed.

Lemma parse_cfi_entry_suffix : forall sec dbg c input o in',
  parse_cfi_entry dbg c input = Ok (o, in') -> suffix_rd sec input -> suffix_rd sec in'.
Proof.
  intros sec dbg c input o in' H Hs. unfold parse_cfi_entry in H.
  apply bind_ok in H as ([opx in1] & Hp & H). apply (parse_prefix_suffix sec) in Hp; [|exact Hs].
  destruct opx as [px|]; [|injection H as _ <-; exact Hp].
  destruct (is_cie _ _ _).
  - apply bind_ok in H as (ci & _ & H). injection H as _ <-. exact Hp.
  - apply bind_ok in H as (p & _ & H). injection H as _ <-. exact Hp.
Qed.

(* an FDE item reported while standing on a suffix of the section is what
   partial_fde_from_offset reads at that offset *)
Lemma parse_cfi_entry_fde_offset : forall sec dbg c input p in',
  parse_cfi_entry dbg c input = Ok (Some (IFde p), in') -> suffix_rd sec input ->
  pfde_from_offset c sec (pf_off p) = Ok p.
Proof.
  intros sec dbg c input p in' H [Hs1 Hs2]. unfold parse_cfi_entry in H.
  apply bind_ok in H as ([opx in1] & Hp & H).
  destruct opx as [px|]; [|discriminate].
  destruct (is_cie (sc_eh c) (px_fmt64 px) (px_id px)) eqn:Ecie.
  { apply bind_ok in H as (ci & _ & H). discriminate. }
  apply bind_ok in H as (p0 & Hp0 & H). injection H as -> _.
  assert (Hoff : pf_off p = off input).
  { unfold pfde_from_prefix in Hp0. destruct (resolve_cie_offset _ _ _); [|discriminate]. injection Hp0 as <-.
    cbn [pf_off]. unfold parse_prefix in Hp.
    apply bind_ok in Hp as ([[len fmt64] in2] & _ & Hp). destruct (len =? 0); [discriminate|].
    apply bind_ok in Hp as ([rest in3] & _ & Hp). apply bind_ok in Hp as ([id rest1] & _ & Hp).
    injection Hp as <- _. reflexivity. }
  unfold pfde_from_offset. rewrite Hoff. unfold rd_skip. cbn [win off].
  destruct (nlen sec <? off input) eqn:E; [lia|]. cbn [bind]. rewrite N.add_0_l, <- Hs2.
  destruct input as [o w]. cbn [off win] in *. rewrite Hp. cbn [bind]. rewrite Ecie. exact Hp0.
Qed.

Lemma iter_next_fde_offset : forall sec fuel dbg c input p in1,
  iter_next fuel dbg c input = Ok (SSome (IFde p), in1) -> suffix_rd sec input ->
  pfde_from_offset c sec (pf_off p) = Ok p.
Proof.
  induction fuel as [|f IH]; intros dbg c input p in1 H Hs; [discriminate|].
  rewrite iter_next_S in H. destruct (rd_is_empty input); [discriminate|].
  destruct (parse_cfi_entry dbg c input) as [[o in']|e| |] eqn:E; try discriminate.
  destruct o as [it|].
  - injection H as -> _. eapply parse_cfi_entry_fde_offset; eassumption.
  - destruct (sc_eh c); [discriminate|].
    eapply IH; [exact H|]. eapply parse_cfi_entry_suffix; eassumption.
Qed.

Lemma iter_next_suffix : forall sec fuel dbg c input it in1,
  iter_next fuel dbg c input = Ok (SSome it, in1) -> suffix_rd sec input -> suffix_rd sec in1.
Proof.
  induction fuel as [|f IH]; intros dbg c input it in1 H Hs; [discriminate|].
  rewrite iter_next_S in H. destruct (rd_is_empty input); [discriminate|].
  destruct (parse_cfi_entry dbg c input) as [[o in']|e| |] eqn:E; try discriminate.
  destruct o as [it'|].
  - injection H as _ <-. eapply parse_cfi_entry_suffix; eassumption.
  - destruct (sc_eh c); [discriminate|].
    eapply IH; [exact H|]. eapply parse_cfi_entry_suffix; eassumption.
Qed.

Lemma entries_loop_fde_offset : forall sec fuel dbg c input items e p,
  entries_loop fuel dbg c input = Ok (items, e) -> suffix_rd sec input ->
  In (IFde p) items -> pfde_from_offset c sec (pf_off p) = Ok p.
Proof.
  induction fuel as [|f IH]; intros dbg c input items e p H Hs Hin; [discriminate|].
  rewrite entries_loop_S in H.
  destruct (iter_next (iter_fuel input) dbg c input) as [[st in1]| | |] eqn:En; cbn [bind] in H; try discriminate.
  destruct st as [|it|e1].
  - injection H as <- _. destruct Hin.
  - destruct (entries_loop f dbg c in1) as [[l e2]| | |] eqn:El; cbn [bind] in H; try discriminate.
    injection H as <- _. destruct Hin as [Hit|Hin].
    + subst it. eapply iter_next_fde_offset; eassumption.
    + eapply IH; [exact El| |exact Hin]. eapply iter_next_suffix; eassumption.
  - injection H as <- _. destruct Hin.
Qed.

Lemma suffix_start : forall sec, suffix_rd sec (mkrd 0 sec).
Proof. intros. split; cbn [off win]; [lia|reflexivity]. Qed.

(* every FDE the traversal reports is re-read identically by fde_from_offset at its offset *)
Lemma parsed_fdes_from_offset : forall dbg c sec items0 e items fds f,
  entries_all dbg c sec = Ok (items0, e) -> (forall it, In it items -> In it items0) ->
  parsed_fdes dbg c sec items = Some fds -> In f fds ->
  fde_from_offset dbg c sec (fd_off f) = Ok f.
Proof.
  intros dbg c sec items0 e items. induction items as [|it r IH]; intros fds f Hall Hsub Hp Hin.
  - injection Hp as <-. destruct Hin.
  - destruct it as [ci|p]; cbn [parsed_fdes] in Hp.
    + eapply IH; eauto. intros it Hit. apply Hsub. right. exact Hit.
    + destruct (fde_parse dbg c sec p) as [fd| | |] eqn:Efd; try discriminate.
      destruct (parsed_fdes dbg c sec r) as [l|] eqn:El; [|discriminate]. injection Hp as <-.
      destruct Hin as [Hf|Hin].
      * subst fd. unfold fde_from_offset.
        assert (Hoff : fd_off f = pf_off p).
        { unfold fde_parse in Efd. apply bind_ok in Efd as (ci & _ & Efd).
          apply bind_ok in Efd as ([[ia range] r1] & _ & Efd). apply bind_ok in Efd as ([ad r2] & _ & Efd).
          injection Efd as <-. reflexivity. }
        rewrite Hoff.
        rewrite (entries_loop_fde_offset sec _ dbg c _ items0 e p Hall (suffix_start sec)).
        -- cbn [bind]. exact Efd.
        -- apply Hsub. left. reflexivity.
      * eapply IH; eauto. intros it Hit. apply Hsub. right. exact Hit.
Qed.

(* ------------------------------------------------------------------ agreement of the header path *)
Definition nowrap (f : fde) : Prop := fd_init f + fd_range f < 2 ^ (8 * ci_asz (fd_cie f)).

(* a well-formed header for the section: a table strictly sorted by location with one row per FDE
   (tfds = the FDEs in table order), each row holding the FDE's initial address and the address
   eh_frame_ptr + offset of that FDE; FDE ranges do not wrap and do not overlap *)
Record wf_hdr (dbg : bool) (hb : sbases) (h : hdr) (fds : list fde) (size o0 : N)
       (rows : list (list byte * list byte)) (locs : list N) (extra : list byte)
       (tfds : list fde) (e : N) : Prop := {
  wh_size : tbl_field_size (h_enc h) = Some size;
  wh_rows : wf_rows size rows;
  wh_ne : rows <> [];
  wh_count : h_count h = N.of_nat (length rows);
  wh_table : h_table h = mkrd o0 (flat rows ++ extra);
  wh_dec : rows_decode dbg hb h size o0 rows locs;
  wh_mul : N.of_nat (length rows) * (size * 2) < 2 ^ 64;
  wh_sorted : strictly_sorted locs;
  wh_ptr : h_ptr h = Direct e;
  wh_len : length tfds = length rows;
  wh_row : forall i r f, nth_error rows i = Some r -> nth_error tfds i = Some f ->
             nth i locs 0 = fd_init f /\
             decode_at dbg (h_be h) (h_enc h) (hdr_pp hb h) (o0 + N.of_nat i * (size * 2) + size) (snd r)
             = Ok (Direct (e + fd_off f));
  wh_in : forall f, In f tfds -> In f fds;
  wh_all : forall f, In f fds -> In f tfds;
  wh_nowrap : forall f, In f fds -> nowrap f;
  wh_disj : forall i j fi fj, (i < j)%nat -> nth_error tfds i = Some fi -> nth_error tfds j = Some fj ->
              fd_init fi + fd_range fi <= fd_init fj }.

Lemma covers_nowrap : forall f a, nowrap f -> covers f a = (fd_init f <=? a) && (a <? fd_init f + fd_range f).
Proof. intros f a H. unfold covers, nowrap in *. rewrite N.mod_small by exact H. reflexivity. Qed.

Lemma bs_index_last : forall locs a j, (j < length locs)%nat -> nth j locs 0 <= a ->
  (j <= bs_index locs a)%nat /\ (bs_index locs a < length locs)%nat /\ nth (bs_index locs a) locs 0 <= a.
Proof.
  intros locs a j Hj Hle. unfold bs_index.
  destruct (last_le_from_spec locs a 0 0) as [[Hk Hall]|(k & Hk1 & Hk2 & Hk3 & Hall)].
  - specialize (Hall j Hj). lia.
  - rewrite Hk2. cbn [Nat.add]. split; [|split; assumption].
    destruct (Nat.le_gt_cases j k) as [H|H]; [exact H|]. specialize (Hall j H Hj). lia.
Qed.

Lemma hdr_lookup_agrees_lem : forall dbg hb h c sec a items fds size o0 rows locs extra tfds e,
  asz_ok (sc_asz c) ->
  entries_all dbg c sec = Ok (items, None) ->
  parsed_fdes dbg c sec items = Some fds ->
  wf_hdr dbg hb h fds size o0 rows locs extra tfds e ->
  hdr_fde_for_address dbg hb h c sec a = fde_for_address dbg c sec a.
Proof.
  intros dbg hb h c sec a items fds size o0 rows locs extra tfds e Hc Hall Hp W.
  destruct W as [Hsize Hwf Hne Hcount Htable Hdec Hmul Hsorted Hptr Hlen Hrow Hin Hall' Hnw Hdisj].
  rewrite (linear_lookup_lem dbg c sec a items fds Hc Hall Hp).
  destruct (bsearch_spec_lem dbg hb h size a o0 rows locs extra Hsize Hwf Hne Hcount Htable Hdec Hmul Hsorted)
    as (r & Hr & Hlk).
  set (k := bs_index locs a) in *.
  assert (Hk : (k < length rows)%nat) by (apply nth_error_Some; congruence).
  destruct (nth_error tfds k) as [fk|] eqn:Efk; [|apply nth_error_None in Efk; lia].
  destruct (Hrow k r fk Hr Efk) as [Hloc Hptrk].
  assert (Hfk : In fk fds) by (apply Hin; eapply nth_error_In; exact Efk).
  assert (Hoffk : fde_from_offset dbg c sec (fd_off fk) = Ok fk).
  { eapply parsed_fdes_from_offset; eauto. }
  assert (Haszk : asz_ok (ci_asz (fd_cie fk))).
  { pose proof (parsed_fdes_asz dbg c sec items fds Hp Hc) as Hf. rewrite Forall_forall in Hf. apply Hf. exact Hfk. }
  (* the header path *)
  unfold hdr_fde_for_address. rewrite Hlk, Hptrk. cbn [bind].
  unfold pointer_to_offset. rewrite Hptr. cbn [pointer_direct bind].
  destruct (e <=? e + fd_off fk) eqn:Ele; [|lia].
  replace (e + fd_off fk - e) with (fd_off fk) by lia. cbn [bind].
  rewrite Hoffk. cbn [bind]. rewrite fde_contains_covers by exact Haszk. cbn [bind].
  destruct (proj1 Hdec) as [].
  assert (Hlenl : length locs = length rows) by apply Hdec.
  (* every FDE of the section sits at some table index *)
  assert (Hidx : forall f, In f fds -> exists j, nth_error tfds j = Some f /\ (j < length rows)%nat /\ nth j locs 0 = fd_init f).
  { intros f Hf. apply Hall' in Hf. apply In_nth_error in Hf as (j & Hj). exists j. split; [exact Hj|].
    assert (Hjl : (j < length tfds)%nat) by (apply nth_error_Some; congruence).
    split; [lia|].
    destruct (nth_error rows j) as [rj|] eqn:Erj; [|apply nth_error_None in Erj; lia].
    apply (Hrow j rj f Erj Hj). }
  destruct (covers fk a) eqn:Ecov.
  - (* the chosen FDE covers a: the linear search finds the same one *)
    destruct (find (fun f => covers f a) fds) as [f'|] eqn:Ef.
    + apply find_some in Ef as [Hf' Hcov']. f_equal.
      destruct (Hidx f' Hf') as (j & Hj & Hjl & Hjloc).
      rewrite covers_nowrap in Ecov, Hcov' by (apply Hnw; assumption).
      destruct (Nat.lt_trichotomy j k) as [Hlt|[Heq|Hgt]].
      * specialize (Hdisj j k f' fk Hlt Hj Efk). lia.
      * subst j. congruence.
      * specialize (Hdisj k j fk f' Hgt Efk Hj). lia.
    + exfalso. eapply find_none in Ef; [|exact Hfk]. cbv beta in Ef. congruence.
  - (* it does not: no FDE covers a *)
    destruct (find (fun f => covers f a) fds) as [f'|] eqn:Ef; [|reflexivity].
    exfalso. apply find_some in Ef as [Hf' Hcov'].
    destruct (Hidx f' Hf') as (j & Hj & Hjl & Hjloc).
    rewrite covers_nowrap in Hcov' by (apply Hnw; assumption).
    rewrite covers_nowrap in Ecov by (apply Hnw; assumption).
    assert (Hja : nth j locs 0 <= a) by lia.
    destruct (bs_index_last locs a j) as (Hjk & _ & Hka); [lia|exact Hja|].
    fold k in Hjk, Hka.
    destruct (Nat.eq_dec j k) as [Heq|Hneq].
    + subst j. assert (f' = fk) by congruence. subst f'. lia.
    + assert (Hlt : (j < k)%nat) by lia. specialize (Hdisj j k f' fk Hlt Hj Efk). lia.
Qed.
