(* Proofs/GenAgreeBackEdge.v — translator tie for FilterUnitEntry::has_die_back_edge (src/write/unit.rs):
   the function regenerated from the source text (coq/Gen/BackEdge.v) equals Model/Filter.v's on all
   65 536 tags and both values of has_attr(DW_AT_declaration). *)
From Coq Require Import List NArith Bool Lia.
Require Import GV.Proofs.GenSweep.
Require GV.Gen.BackEdge GV.Gen.Constants GV.Model.Filter.
Import ListNotations.
Local Open Scope N_scope.

Definition back_edge_agree (tag : N) : bool :=
  Bool.eqb (BackEdge.has_die_back_edge tag true) (Filter.has_die_back_edge tag true)
  && Bool.eqb (BackEdge.has_die_back_edge tag false) (Filter.has_die_back_edge tag false).

Lemma gen_back_edge_sweep : forallb back_edge_agree (count_up 65536) = true.
Proof. vm_compute. reflexivity. Qed.

Lemma gen_has_die_back_edge_agree : forall tag decl, tag < 65536 ->
  BackEdge.has_die_back_edge tag decl = Filter.has_die_back_edge tag decl.
Proof.
  intros tag decl H. pose proof (sweep_lt _ _ gen_back_edge_sweep tag H) as S. unfold back_edge_agree in S.
  apply andb_prop in S. destruct S as [S1 S2].
  destruct decl; apply Bool.eqb_prop; assumption.
Qed.

(* the attribute consulted by the `DW_TAG_subprogram` arm is DW_AT_declaration, the only tag of that arm is
   DW_TAG_subprogram, and the tag list is the model's, in source order *)
Lemma gen_back_edge_shape :
  BackEdge.attr_name = Constants.DW_AT_declaration /\
  BackEdge.attr_tags = [Filter.DW_TAG_subprogram] /\
  BackEdge.no_back_edge_tags = Filter.no_back_edge_tags.
Proof. repeat split; reflexivity. Qed.

(* the tags named by the filter are the constants of constants.rs *)
Lemma gen_filter_tags :
  Constants.DW_TAG_namespace = Filter.DW_TAG_namespace /\
  Constants.DW_TAG_subprogram = Filter.DW_TAG_subprogram.
Proof. split; reflexivity. Qed.
