(* Proofs/AttrProofs.v — lemmas about Model/Attr.v (C03). *)
From Coq Require Import List NArith ZArith Bool Lia ZifyBool ZifyN ZifyNat.
From Coq.Strings Require Import Byte.
Require Import GV.Base.Res GV.Base.Byt GV.Base.Ints GV.Model.Leb GV.Model.Prim
               GV.Spec.LebSpec GV.Spec.FormSpec GV.Model.Attr.
Import ListNotations.
Local Open Scope N_scope.
Local Arguments N.add : simpl never.
Local Arguments N.sub : simpl never.
Local Arguments N.mul : simpl never.
Local Arguments N.shiftl : simpl never.
Local Arguments N.shiftr : simpl never.
Local Arguments N.land : simpl never.
Local Arguments N.lor : simpl never.
Local Arguments N.pow : simpl never.
Local Arguments N.div : simpl never.
Local Arguments N.modulo : simpl never.

(* ------------------------------------------------------------------ *)
(** * Primitive readers: what they consume *)

Lemma take_spec n : forall bs h t, take n bs = Some (h, t) -> bs = h ++ t /\ length h = n.
Proof.
  induction n as [|n IH]; intros bs h t H; cbn in H.
  - inversion H; subst; auto.
  - destruct bs as [|b r]; [discriminate|].
    destruct (take n r) as [[h' t']|] eqn:E; [|discriminate].
    inversion H; subst. destruct (IH _ _ _ E) as [-> <-]. auto.
Qed.

Lemma take_app n : forall h t, length h = n -> take n (h ++ t) = Some (h, t).
Proof.
  induction n as [|n IH]; intros h t L; destruct h; cbn in *; try discriminate; auto.
  rewrite IH by lia. reflexivity.
Qed.

Lemma read_bytes_spec n bs h t : read_bytes n bs = Ok (h, t) -> bs = h ++ t /\ length h = n.
Proof.
  unfold read_bytes. destruct (take n bs) as [[h' t']|] eqn:E; intros H; inversion H; subst.
  eapply take_spec; eauto.
Qed.

Lemma read_un_spec n bigend bs v r :
  read_un n bigend bs = Ok (v, r) ->
  exists h, bs = h ++ r /\ length h = n /\ v = (if bigend then be_val h else le_val h).
Proof.
  unfold read_un. destruct (read_bytes n bs) as [[h t]| | |] eqn:E; cbn; intros H; inversion H; subst.
  apply read_bytes_spec in E. destruct E. eauto.
Qed.

Lemma read_un_length n bigend bs v r :
  read_un n bigend bs = Ok (v, r) -> length bs = (n + length r)%nat.
Proof.
  intros H. apply read_un_spec in H. destruct H as (h & -> & L & _). rewrite app_length. lia.
Qed.

Lemma read_u8_spec bs v r : read_u8 bs = Ok (v, r) -> exists b, bs = b :: r /\ v = b2n b.
Proof. destruct bs; cbn; intros H; inversion H; eauto. Qed.

Lemma read_un_not_panic n bigend bs : read_un n bigend bs <> Panic /\ read_un n bigend bs <> OutOfFuel.
Proof.
  unfold read_un, read_bytes. destruct (take n bs) as [[? ?]|]; cbn; split; discriminate.
Qed.

(* split_n / skip_n *)
Lemma split_n_spec : forall bs n h t, split_n n bs = Ok (h, t) -> bs = h ++ t /\ N.of_nat (length h) = n.
Proof.
  induction bs as [|b r IH]; intros n h t H; cbn in H.
  - destruct (N.eqb_spec n 0); inversion H; subst; auto.
  - destruct (N.eqb_spec n 0).
    + inversion H; subst; auto.
    + destruct (split_n (N.pred n) r) as [[h' t']| | |] eqn:E; cbn in H; inversion H; subst.
      apply IH in E. destruct E as [-> E]. split; [reflexivity|]. cbn [length]. lia.
Qed.

Lemma split_n_app : forall h t, split_n (N.of_nat (length h)) (h ++ t) = Ok (h, t).
Proof.
  induction h as [|b h IH]; intros t.
  - cbn. destruct t; reflexivity.
  - cbn [length app split_n]. destruct (N.eqb_spec (N.of_nat (S (length h))) 0); [lia|].
    replace (N.pred (N.of_nat (S (length h)))) with (N.of_nat (length h)) by lia.
    rewrite IH. reflexivity.
Qed.

Lemma split_n_res : forall bs n, split_n n bs <> Panic /\ split_n n bs <> OutOfFuel.
Proof.
  induction bs as [|b r IH]; intros n; cbn; destruct (n =? 0); try (split; discriminate).
  destruct (IH (N.pred n)). destruct (split_n (N.pred n) r) as [[? ?]| | |]; cbn; split; congruence.
Qed.

Lemma skip_n_spec bs n t : skip_n n bs = Ok t -> exists h, bs = h ++ t /\ N.of_nat (length h) = n.
Proof.
  unfold skip_n. destruct (split_n n bs) as [[h t']| | |] eqn:E; cbn; intros H; inversion H; subst.
  apply split_n_spec in E. destruct E; eauto.
Qed.

Lemma skip_n_app h t : skip_n (N.of_nat (length h)) (h ++ t) = Ok t.
Proof. unfold skip_n. rewrite split_n_app. reflexivity. Qed.

(* read_cstr *)
Lemma read_cstr_spec : forall bs s t, read_cstr bs = Ok (s, t) ->
  bs = s ++ x00 :: t /\ Forall (fun b => b <> x00) s.
Proof.
  induction bs as [|b r IH]; intros s t H; cbn in H; [discriminate|].
  destruct (N.eqb_spec (b2n b) 0) as [E|E].
  - inversion H; subst. replace b with x00 by (apply b2n_inj; rewrite E; reflexivity). auto.
  - destruct (read_cstr r) as [[s' t']| | |] eqn:R; cbn in H; inversion H; subst.
    destruct (IH _ _ eq_refl) as [-> F]. split; [reflexivity|]. constructor; auto.
    intros ->. apply E. reflexivity.
Qed.

Lemma read_cstr_app : forall s t, Forall (fun b => b <> x00) s -> read_cstr (s ++ x00 :: t) = Ok (s, t).
Proof.
  induction s as [|b s IH]; intros t F; cbn.
  - reflexivity.
  - inversion F; subst. destruct (N.eqb_spec (b2n b) 0) as [E|E].
    + exfalso. apply H1. apply b2n_inj. rewrite E. reflexivity.
    + rewrite IH by assumption. reflexivity.
Qed.

Lemma read_cstr_res : forall bs, read_cstr bs <> Panic /\ read_cstr bs <> OutOfFuel.
Proof.
  induction bs as [|b r [IH1 IH2]]; cbn; [split; discriminate|].
  destruct (b2n b =? 0); [split; discriminate|].
  destruct (read_cstr r) as [[? ?]| | |]; cbn; split; congruence.
Qed.

(* ------------------------------------------------------------------ *)
(** * LEB128 readers: they stop where skip_leb stops, never panic, and do not depend on the build mode *)

Definition leb_shift (s : N) : Prop := s <= 63 /\ s mod 7 = 0.

Lemma leb_shift_next s : leb_shift s -> s <> 63 -> leb_shift (s + 7).
Proof.
  unfold leb_shift. intros [H1 H2] H3.
  assert (s mod 7 = 0 -> (s + 7) mod 7 = 0).
  { intros. rewrite <- N.add_mod_idemp_r by discriminate. change (7 mod 7) with 0. rewrite N.add_0_r. assumption. }
  split; [|auto].
  assert (s = 7 * (s / 7)) by (rewrite (N.div_mod' s 7) at 1; lia).
  assert (s / 7 <= 9) by (apply N.div_le_upper_bound; lia).
  assert (s / 7 <> 9) by lia. lia.
Qed.

Lemma shl64_small dbg x s : s < 64 -> shl64 dbg x s = Ok (wrap64 (N.shiftl x s)).
Proof. intros H. unfold shl64. destruct (N.leb_spec 64 s); [lia|reflexivity]. Qed.

Lemma has_cont_01 : has_cont 0 = false /\ has_cont 1 = false /\ has_cont 127 = false.
Proof. repeat split; reflexivity. Qed.

Lemma uleb_loop_skip : forall bs dbg result shift v r,
  uleb_loop dbg result shift bs = Ok (v, r) -> skip_leb bs = Ok (tt, r).
Proof.
  induction bs as [|b t IH]; intros dbg result shift v r H; cbn in H; [discriminate|].
  cbn [skip_leb].
  destruct ((shift =? 63) && negb (b2n b =? 0) && negb (b2n b =? 1)); [discriminate|].
  destruct (shl64 dbg (low7 (b2n b)) shift) as [sh| | |]; cbn in H; try discriminate.
  destruct (has_cont (b2n b)).
  - eapply IH; eauto.
  - inversion H; reflexivity.
Qed.

Lemma read_uleb128_skip dbg bs v r : read_uleb128 dbg bs = Ok (v, r) -> skip_leb bs = Ok (tt, r).
Proof.
  destruct bs as [|b t]; cbn; [discriminate|].
  destruct (has_cont (b2n b)).
  - apply uleb_loop_skip.
  - intros H; inversion H; reflexivity.
Qed.

Lemma sleb_loop_skip : forall bs dbg result shift v r,
  sleb_loop dbg result shift bs = Ok (v, r) -> skip_leb bs = Ok (tt, r).
Proof.
  induction bs as [|b t IH]; intros dbg result shift v r H; cbn in H; [discriminate|].
  cbn [skip_leb].
  destruct ((shift =? 63) && negb (b2n b =? 0) && negb (b2n b =? 127)); [discriminate|].
  destruct (shl64 dbg (low7 (b2n b)) shift) as [sh| | |]; cbn in H; try discriminate.
  destruct (has_cont (b2n b)).
  - eapply IH; eauto.
  - destruct ((shift + 7 <? 64) && (N.land (b2n b) 64 =? 64)).
    + destruct (shl64 dbg (two64 - 1) (shift + 7)); cbn in H; inversion H; reflexivity.
    + inversion H; reflexivity.
Qed.

Lemma read_sleb128_skip dbg bs v r : read_sleb128 dbg bs = Ok (v, r) -> skip_leb bs = Ok (tt, r).
Proof. apply sleb_loop_skip. Qed.

Lemma skip_leb_shrinks : forall bs r, skip_leb bs = Ok (tt, r) -> (length r < length bs)%nat.
Proof.
  induction bs as [|b t IH]; intros r H; cbn in H; [discriminate|].
  destruct (has_cont (b2n b)).
  - apply IH in H. cbn. lia.
  - inversion H; subst. cbn. lia.
Qed.

(* build-mode independence and absence of panics: the shift stays in {0,7,..,63} *)
Lemma uleb_loop_dbg : forall bs dbg result shift, leb_shift shift ->
  uleb_loop dbg result shift bs = uleb_loop false result shift bs.
Proof.
  induction bs as [|b t IH]; intros dbg result shift L; cbn; [reflexivity|].
  destruct (N.eqb_spec shift 63) as [E|E]; cbn [andb].
  - destruct (N.eqb_spec (b2n b) 0) as [E0|E0]; cbn [negb andb].
    + rewrite !shl64_small by (destruct L; lia). cbn [bind]. rewrite E0. reflexivity.
    + destruct (N.eqb_spec (b2n b) 1) as [E1|E1]; cbn [negb]; [|reflexivity].
      rewrite !shl64_small by (destruct L; lia). cbn [bind]. rewrite E1. reflexivity.
  - rewrite !shl64_small by (destruct L; lia). cbn [bind].
    destruct (has_cont (b2n b)); [|reflexivity]. apply IH. apply leb_shift_next; assumption.
Qed.

Lemma leb_shift_0 : leb_shift 0. Proof. split; [lia|reflexivity]. Qed.
Lemma leb_shift_7 : leb_shift 7. Proof. split; [lia|reflexivity]. Qed.

Lemma read_uleb128_dbg dbg bs : read_uleb128 dbg bs = read_uleb128 false bs.
Proof.
  destruct bs as [|b t]; cbn; [reflexivity|].
  destruct (has_cont (b2n b)); [|reflexivity]. apply uleb_loop_dbg, leb_shift_7.
Qed.

Lemma uleb_loop_release_res : forall bs result shift,
  uleb_loop false result shift bs <> Panic /\ uleb_loop false result shift bs <> OutOfFuel.
Proof.
  induction bs as [|b t IH]; intros result shift; cbn; [split; discriminate|].
  destruct ((shift =? 63) && negb (b2n b =? 0) && negb (b2n b =? 1)); [split; discriminate|].
  unfold shl64. destruct (64 <=? shift); cbn [bind];
    (destruct (has_cont (b2n b)); [apply IH|split; discriminate]).
Qed.

Lemma read_uleb128_res dbg bs : read_uleb128 dbg bs <> Panic /\ read_uleb128 dbg bs <> OutOfFuel.
Proof.
  rewrite read_uleb128_dbg. destruct bs as [|b t]; cbn; [split; discriminate|].
  destruct (has_cont (b2n b)); [apply uleb_loop_release_res|split; discriminate].
Qed.

Lemma sleb_loop_dbg : forall bs dbg result shift, leb_shift shift ->
  sleb_loop dbg result shift bs = sleb_loop false result shift bs.
Proof.
  induction bs as [|b t IH]; intros dbg result shift L; cbn; [reflexivity|].
  assert (S1 : shl64 dbg (low7 (b2n b)) shift = shl64 false (low7 (b2n b)) shift)
    by (rewrite !shl64_small by (destruct L; lia); reflexivity).
  rewrite S1.
  destruct ((shift =? 63) && negb (b2n b =? 0) && negb (b2n b =? 127)) eqn:C; [reflexivity|].
  destruct (shl64 false (low7 (b2n b)) shift); cbn [bind]; try reflexivity.
  destruct (has_cont (b2n b)) eqn:HC.
  - apply IH. apply leb_shift_next; [assumption|].
    intros ->. cbn in C. destruct (N.eqb_spec (b2n b) 0) as [E0|E0]; [rewrite E0 in HC; discriminate|].
    destruct (N.eqb_spec (b2n b) 127) as [E1|E1]; [rewrite E1 in HC; discriminate|]. discriminate.
  - destruct (N.ltb_spec (shift + 7) 64) as [E|E]; cbn [andb]; [|reflexivity].
    destruct (N.land (b2n b) 64 =? 64); [|reflexivity].
    rewrite !shl64_small by assumption. reflexivity.
Qed.

Lemma read_sleb128_dbg dbg bs : read_sleb128 dbg bs = read_sleb128 false bs.
Proof. apply sleb_loop_dbg, leb_shift_0. Qed.

Lemma sleb_loop_release_res : forall bs result shift,
  sleb_loop false result shift bs <> Panic /\ sleb_loop false result shift bs <> OutOfFuel.
Proof.
  induction bs as [|b t IH]; intros result shift; cbn; [split; discriminate|].
  destruct ((shift =? 63) && negb (b2n b =? 0) && negb (b2n b =? 127)); [split; discriminate|].
  unfold shl64. destruct (64 <=? shift); cbn [bind];
    (destruct (has_cont (b2n b)); [apply IH|]);
    (destruct ((shift + 7 <? 64) && (N.land (b2n b) 64 =? 64)); [|split; discriminate]);
    (destruct (64 <=? shift + 7); cbn [bind]; split; discriminate).
Qed.

Lemma read_sleb128_res dbg bs : read_sleb128 dbg bs <> Panic /\ read_sleb128 dbg bs <> OutOfFuel.
Proof. rewrite read_sleb128_dbg. apply sleb_loop_release_res. Qed.

(* ------------------------------------------------------------------ *)
(** * Bit facts *)

Lemma lor_shiftl_add a b k : a < 2 ^ k -> N.lor a (N.shiftl b k) = a + N.shiftl b k.
Proof.
  intros H.
  assert (D : N.land a (N.shiftl b k) = 0).
  { apply N.bits_inj_0; intros i. rewrite N.land_spec. destruct (N.ltb_spec i k) as [L|L].
    - rewrite N.shiftl_spec_low by assumption. apply andb_false_r.
    - replace (N.testbit a i) with false; [reflexivity|]. symmetry.
      destruct (N.eq_dec a 0) as [->|Ha]; [apply N.bits_0|].
      apply N.bits_above_log2. apply N.log2_lt_pow2; [lia|].
      eapply N.lt_le_trans; [exact H|]. apply N.pow_le_mono_r; lia. }
  rewrite <- N.lxor_lor by assumption. symmetry. apply N.add_nocarry_lxor. assumption.
Qed.

Lemma lor_mul_add a b k : a < 2 ^ k -> N.lor a (b * 2 ^ k) = a + b * 2 ^ k.
Proof. intros. rewrite <- N.shiftl_mul_pow2. apply lor_shiftl_add. assumption. Qed.

Lemma low7_mod x : low7 x = x mod 128.
Proof. unfold low7. change 127 with (N.ones 7). rewrite N.land_ones. reflexivity. Qed.

Lemma low7_lt x : low7 x < 128.
Proof. rewrite low7_mod. apply N.mod_lt. discriminate. Qed.

(* finite sweeps over byte values *)
Definition nrange (n : nat) : list N := map N.of_nat (seq 0 n).
Lemma nrange_in n x : x < N.of_nat n -> In x (nrange n).
Proof.
  intros H. unfold nrange. apply in_map_iff. exists (N.to_nat x). split; [lia|].
  apply in_seq. lia.
Qed.
Lemma sweep (P : N -> bool) n : forallb P (nrange n) = true -> forall x, x < N.of_nat n -> P x = true.
Proof. intros H x L. rewrite forallb_forall in H. apply H, nrange_in, L. Qed.

Lemma has_cont_byte x : x < 256 -> has_cont x = (128 <=? x).
Proof.
  intros H.
  pose proof (sweep (fun x => Bool.eqb (has_cont x) (128 <=? x)) 256 eq_refl x H) as S.
  cbv beta in S. apply Bool.eqb_prop in S. exact S.
Qed.

Lemma sign_bit_byte x : x < 128 -> (N.land x 64 =? 64) = (64 <=? x).
Proof.
  intros H.
  assert (H' : x < N.of_nat 128) by lia.
  pose proof (sweep (fun x => Bool.eqb (N.land x 64 =? 64) (64 <=? x)) 128 eq_refl x H') as S.
  cbv beta in S. apply Bool.eqb_prop in S. exact S.
Qed.

(* ------------------------------------------------------------------ *)
(** * leb128::read::u16 *)

Lemma read_u16leb_shrinks bs v r : read_uleb128_u16 bs = Ok (v, r) -> (length r < length bs)%nat.
Proof.
  unfold read_uleb128_u16.
  destruct bs as [|b0 r0]; cbn [read_u8 bind]; [discriminate|].
  destruct (has_cont (b2n b0)); cbn [negb]; [|intros H; inversion H; subst; cbn; lia].
  destruct r0 as [|b1 r1]; cbn [read_u8 bind]; [discriminate|].
  destruct (has_cont (b2n b1)); cbn [negb]; [|intros H; inversion H; subst; cbn; lia].
  destruct r1 as [|b2 r2]; cbn [read_u8 bind]; [discriminate|].
  destruct (3 <? b2n b2); [discriminate|].
  match goal with |- (if ?c then _ else _) = _ -> _ => destruct c end; intros H; inversion H; subst; cbn; lia.
Qed.

Lemma read_u16leb_res bs : read_uleb128_u16 bs <> Panic /\ read_uleb128_u16 bs <> OutOfFuel.
Proof.
  unfold read_uleb128_u16.
  destruct bs as [|b0 r0]; cbn [read_u8 bind]; [split; discriminate|].
  destruct (has_cont (b2n b0)); cbn [negb]; [|split; discriminate].
  destruct r0 as [|b1 r1]; cbn [read_u8 bind]; [split; discriminate|].
  destruct (has_cont (b2n b1)); cbn [negb]; [|split; discriminate].
  destruct r1 as [|b2 r2]; cbn [read_u8 bind]; [split; discriminate|].
  destruct (N.ltb_spec 3 (b2n b2)) as [L|L]; [split; discriminate|].
  match goal with |- (if ?c then _ else _) <> _ /\ _ => destruct c eqn:C end; [split; discriminate|].
  exfalso. apply N.ltb_ge in C.
  pose proof (low7_lt (b2n b0)). pose proof (low7_lt (b2n b1)).
  assert (E1 : wrap16 (N.shiftl (low7 (b2n b1)) 7) = low7 (b2n b1) * 2 ^ 7).
  { unfold wrap16. rewrite N.shiftl_mul_pow2. apply N.mod_small.
    change (2 ^ 7) with 128. unfold two16. lia. }
  rewrite E1 in C. rewrite lor_mul_add in C by (change (2 ^ 7) with 128; lia).
  assert (E2 : wrap16 (N.shiftl (b2n b2) 14) <= 3 * 16384).
  { unfold wrap16. rewrite N.shiftl_mul_pow2. change (2 ^ 14) with 16384.
    etransitivity; [apply N.mod_le; discriminate|]. lia. }
  change (2 ^ 7) with 128 in C. unfold two16 in C. lia.
Qed.

(* a successful parse is not affected by what follows the bytes it consumed *)
Lemma read_u16leb_app bs v r rest :
  read_uleb128_u16 bs = Ok (v, r) -> read_uleb128_u16 (bs ++ rest) = Ok (v, r ++ rest).
Proof.
  unfold read_uleb128_u16.
  destruct bs as [|b0 r0]; cbn [read_u8 bind app]; [discriminate|].
  destruct (has_cont (b2n b0)); cbn [negb]; [|intros H; inversion H; subst; reflexivity].
  destruct r0 as [|b1 r1]; cbn [read_u8 bind app]; [discriminate|].
  destruct (has_cont (b2n b1)); cbn [negb]; [|intros H; inversion H; subst; reflexivity].
  destruct r1 as [|b2 r2]; cbn [read_u8 bind app]; [discriminate|].
  destruct (3 <? b2n b2); [discriminate|].
  match goal with |- (if ?c then _ else _) = _ -> _ => destruct c end; intros H; inversion H; subst; reflexivity.
Qed.

(* ------------------------------------------------------------------ *)
(** * Form codes: known (a constructor of [form]) or unknown *)

Definition known_codes : list N := map form_code all_forms.

Lemma form_of_code_some c f : form_of_code c = Some f -> c = form_code f.
Proof.
  unfold form_of_code. intros H. apply find_some in H. destruct H as [_ H].
  apply N.eqb_eq in H. auto.
Qed.

Lemma form_of_code_code f : form_of_code (form_code f) = Some f.
Proof. destruct f; reflexivity. Qed.

Lemma form_of_code_none c : form_of_code c = None ->
  forall k, existsb (N.eqb k) known_codes = true -> (c =? k) = false.
Proof.
  unfold form_of_code. intros H k Hk.
  apply existsb_exists in Hk. destruct Hk as (k' & Hin & Hk'). apply N.eqb_eq in Hk'. subst k'.
  unfold known_codes in Hin. apply in_map_iff in Hin. destruct Hin as (f & <- & Hf).
  rewrite N.eqb_sym. eapply find_none in H; eauto.
Qed.

(* rewrite every test [c =? K] of the goal to false, for an unknown code c *)
Ltac kill_eqbs Hnone c :=
  repeat match goal with
         | |- context [N.eqb c ?k] => rewrite (form_of_code_none c Hnone k eq_refl)
         end.

Lemma code_lt_u16 f : form_code f < 65536.
Proof. destruct f; reflexivity. Qed.

(* ------------------------------------------------------------------ *)
(** * The model tables against the specification tables *)

(* get_attribute_size is the fixed size of the form's layout *)
Lemma get_attribute_size_known f e :
  get_attribute_size (form_code f) e = layout_fixed_size (form_layout f e).
Proof. destruct f; reflexivity. Qed.

Lemma get_attribute_size_unknown c e : form_of_code c = None -> get_attribute_size c e = None.
Proof.
  intros Hn. unfold get_attribute_size.
  kill_eqbs Hn c. reflexivity.
Qed.

Lemma get_attribute_size_spec c e :
  get_attribute_size c e =
  match form_of_code c with Some f => layout_fixed_size (form_layout f e) | None => None end.
Proof.
  destruct (form_of_code c) as [f|] eqn:E.
  - apply form_of_code_some in E. subst. apply get_attribute_size_known.
  - apply get_attribute_size_unknown; assumption.
Qed.

Lemma allow_section_offset_spec name ver : allow_section_offset name ver = legacy_section_offset name ver.
Proof.
  unfold allow_section_offset, legacy_section_offset, legacy_pointer_names.
  cbn [existsb].
  unfold DW_AT_location, DW_AT_stmt_list, DW_AT_string_length, DW_AT_return_addr, DW_AT_start_scope,
    DW_AT_frame_base, DW_AT_macro_info, DW_AT_macros, DW_AT_segment, DW_AT_static_link, DW_AT_use_location,
    DW_AT_vtable_elem_location, DW_AT_ranges, DW_AT_data_member_location.
  repeat match goal with |- context [N.eqb name ?k] => destruct (N.eqb_spec name k); [subst; reflexivity|] end.
  reflexivity.
Qed.

(* ------------------------------------------------------------------ *)
(** * Reading by layout *)

Definition read_prefix (dbg bigend : bool) (p : prefix_kind) (bs : list byte) : res (N * list byte) :=
  match p with
  | P1 => read_u8 bs
  | P2 => read_u16 bigend bs
  | P4 => read_u32 bigend bs
  | PUleb => read_uleb128 dbg bs
  end.

(* the data of one attribute, read as its layout says *)
Definition read_layout (dbg bigend : bool) (l : layout) (bs : list byte) : res (raw * list byte) :=
  match l with
  | LFixed n => let* (v, r) := read_un (N.to_nat n) bigend bs in Ok (RNum v, r)
  | LUleb => let* (v, r) := read_uleb128 dbg bs in Ok (RNum v, r)
  | LSleb => let* (z, r) := read_sleb128 dbg bs in Ok (RInt z, r)
  | LBlock p => let* (b, r) := read_block (read_prefix dbg bigend p bs) in Ok (RBytes b, r)
  | LCstring => let* (s, r) := read_cstr bs in Ok (RBytes s, r)
  | LNone => Ok (RNone, bs)
  | LIndirect => Err EUnknownForm
  end.

Definition valid_size (n : N) : bool := (n =? 1) || (n =? 2) || (n =? 4) || (n =? 8).

(* conditions under which a known form is refused before any byte is read *)
Definition form_guard (e : enc) (spec : aspec) (f : form) : option error :=
  match f with
  | F_addr => if valid_size (address_size e) then None else Some EUnsupportedAddressSize
  | F_ref_addr =>
      if (version e =? 2) && negb (valid_size (address_size e)) then Some EUnsupportedOffsetSize else None
  | F_implicit_const => if at_form spec =? DW_FORM_implicit_const then None else Some EInvalidImplicitConst
  | _ => None
  end.

Definition decode_by_layout (dbg : bool) (e : enc) (spec : aspec) (f : form) (bs : list byte)
  : res (attr_value * list byte) :=
  match form_guard e spec f with
  | Some err => Err err
  | None =>
      let* (data, r) := read_layout dbg (be e) (form_layout f e) bs in
      match form_value e (at_name spec) (at_implicit spec) f data with
      | Some v => Ok (v, r)
      | None => Err EOther
      end
  end.

Lemma read_u8_un bs : read_u8 bs = read_un 1 false bs /\ read_u8 bs = read_un 1 true bs.
Proof.
  destruct bs as [|b r]; cbn; [split; reflexivity|].
  unfold read_un, read_bytes. cbn. unfold be_val. cbn. split; f_equal; f_equal; lia.
Qed.

Lemma read_u8_un_be bigend bs : read_u8 bs = read_un 1 bigend bs.
Proof. destruct bigend; apply read_u8_un. Qed.

Lemma read_address_valid n bigend bs : valid_size n = true ->
  read_address n bigend bs = read_un (N.to_nat n) bigend bs.
Proof.
  unfold valid_size, read_address. intros H.
  destruct (N.eqb_spec n 1); [subst; reflexivity|].
  destruct (N.eqb_spec n 2); [subst; reflexivity|].
  destruct (N.eqb_spec n 4); [subst; reflexivity|].
  destruct (N.eqb_spec n 8); [subst; reflexivity|]. discriminate.
Qed.
Lemma read_address_invalid n bigend bs : valid_size n = false ->
  read_address n bigend bs = Err EUnsupportedAddressSize.
Proof.
  unfold valid_size, read_address. intros H.
  destruct (n =? 1); [discriminate|]. destruct (n =? 2); [discriminate|].
  destruct (n =? 4); [discriminate|]. destruct (n =? 8); [discriminate|]. reflexivity.
Qed.
Lemma read_sized_offset_valid n bigend bs : valid_size n = true ->
  read_sized_offset n bigend bs = read_un (N.to_nat n) bigend bs.
Proof.
  unfold valid_size, read_sized_offset. intros H.
  destruct (N.eqb_spec n 1); [subst; reflexivity|].
  destruct (N.eqb_spec n 2); [subst; reflexivity|].
  destruct (N.eqb_spec n 4); [subst; reflexivity|].
  destruct (N.eqb_spec n 8); [subst; reflexivity|]. discriminate.
Qed.
Lemma read_sized_offset_invalid n bigend bs : valid_size n = false ->
  read_sized_offset n bigend bs = Err EUnsupportedOffsetSize.
Proof.
  unfold valid_size, read_sized_offset. intros H.
  destruct (n =? 1); [discriminate|]. destruct (n =? 2); [discriminate|].
  destruct (n =? 4); [discriminate|]. destruct (n =? 8); [discriminate|]. reflexivity.
Qed.

Lemma read_word_un f64 bigend bs :
  read_word f64 bigend bs = read_un (N.to_nat (if f64 then 8 else 4)) bigend bs.
Proof. destruct f64; reflexivity. Qed.

Ltac unfold_forms :=
  unfold DW_FORM_addr, DW_FORM_block2, DW_FORM_block4, DW_FORM_data2, DW_FORM_data4, DW_FORM_data8,
    DW_FORM_string, DW_FORM_block, DW_FORM_block1, DW_FORM_data1, DW_FORM_flag, DW_FORM_sdata,
    DW_FORM_strp, DW_FORM_udata, DW_FORM_ref_addr, DW_FORM_ref1, DW_FORM_ref2, DW_FORM_ref4,
    DW_FORM_ref8, DW_FORM_ref_udata, DW_FORM_indirect, DW_FORM_sec_offset, DW_FORM_exprloc,
    DW_FORM_flag_present, DW_FORM_strx, DW_FORM_addrx, DW_FORM_ref_sup4, DW_FORM_strp_sup,
    DW_FORM_data16, DW_FORM_line_strp, DW_FORM_ref_sig8, DW_FORM_implicit_const, DW_FORM_loclistx,
    DW_FORM_rnglistx, DW_FORM_ref_sup8, DW_FORM_strx1, DW_FORM_strx2, DW_FORM_strx3, DW_FORM_strx4,
    DW_FORM_addrx1, DW_FORM_addrx2, DW_FORM_addrx3, DW_FORM_addrx4, DW_FORM_GNU_addr_index,
    DW_FORM_GNU_str_index, DW_FORM_GNU_ref_alt, DW_FORM_GNU_strp_alt in *.

Ltac to_nat_lits :=
  change (N.to_nat 0) with 0%nat in *; change (N.to_nat 1) with 1%nat in *;
  change (N.to_nat 2) with 2%nat in *; change (N.to_nat 3) with 3%nat in *;
  change (N.to_nat 4) with 4%nat in *; change (N.to_nat 8) with 8%nat in *;
  change (N.to_nat 16) with 16%nat in *.

(* parse_attribute's arm for a known form other than DW_FORM_indirect:
   guard, then the form's layout, then the form's value *)
Lemma parse_direct_known dbg e spec f bs : f <> F_indirect ->
  parse_direct dbg e spec (form_code f) bs = decode_by_layout dbg e spec f bs.
Proof.
  intros Hni. unfold decode_by_layout.
  destruct e as [ver f64 asz bigend].
  destruct f; try congruence; clear Hni;
    cbn [form_guard form_layout read_layout read_prefix form_code form_value
         version fmt64 address_size be word_bytes];
    unfold parse_direct; unfold_forms;
    cbn [N.eqb Pos.eqb orb andb version fmt64 address_size be];
    unfold read_u16, read_u32, read_u64, read_u128, read_offset, read_word, read_uint, read_block, word_bytes;
    cbn [version fmt64 address_size be Nat.ltb Nat.leb];
    rewrite ?allow_section_offset_spec;
    rewrite ?(read_u8_un_be bigend).
  all: try (destruct f64; to_nat_lits;
    repeat match goal with
           | |- context [if ?c then _ else _] => destruct c eqn:?
           end;
    repeat match goal with
           | |- context [bind ?r _] =>
               match r with
               | bind _ _ => fail 1
               | _ => destruct r as [[? ?]| | |] eqn:?; cbn [bind]
               end
           end;
    reflexivity).
  - (* addr *)
    destruct (valid_size asz) eqn:V.
    + rewrite read_address_valid by assumption.
      destruct (read_un (N.to_nat asz) bigend bs) as [[? ?]| | |]; reflexivity.
    + rewrite read_address_invalid by assumption. reflexivity.
  - (* ref_addr *)
    destruct (ver =? 2); cbn [andb].
    + destruct (valid_size asz) eqn:V; cbn [negb].
      * rewrite read_sized_offset_valid by assumption.
        destruct (read_un (N.to_nat asz) bigend bs) as [[? ?]| | |]; reflexivity.
      * rewrite read_sized_offset_invalid by assumption. reflexivity.
    + destruct f64; to_nat_lits;
        match goal with |- context [bind ?r _] => destruct r as [[? ?]| | |] end; reflexivity.
  - reflexivity.
  - unfold implicit_const_value. unfold_forms. destruct (at_form spec =? 33); reflexivity.
Qed.

Lemma parse_direct_unknown dbg e spec c bs : form_of_code c = None ->
  parse_direct dbg e spec c bs = Err EUnknownForm.
Proof.
  intros Hn. unfold parse_direct. kill_eqbs Hn c. reflexivity.
Qed.

(* ------------------------------------------------------------------ *)
(** * parse_attribute: the DW_FORM_indirect loop *)

Lemma parse_form_direct fuel dbg e spec c bs : c <> DW_FORM_indirect ->
  parse_form fuel dbg e spec c bs = parse_direct dbg e spec c bs.
Proof.
  intros H. destruct fuel; cbn [parse_form]; destruct (N.eqb_spec c DW_FORM_indirect); congruence.
Qed.

Lemma parse_form_indirect fuel dbg e spec bs :
  parse_form (S fuel) dbg e spec DW_FORM_indirect bs =
  let* (c, r) := read_uleb128_u16 bs in parse_form fuel dbg e spec c r.
Proof. reflexivity. Qed.

(* any fuel above the input length gives the same answer, and that answer is not OutOfFuel *)
Lemma parse_form_fuel : forall f1 f2 dbg e spec c bs,
  (length bs < f1)%nat -> (length bs < f2)%nat ->
  parse_form f1 dbg e spec c bs = parse_form f2 dbg e spec c bs.
Proof.
  induction f1 as [|f1 IH]; intros f2 dbg e spec c bs L1 L2; [lia|].
  destruct f2 as [|f2]; [lia|].
  destruct (N.eq_dec c DW_FORM_indirect) as [->|Hc].
  - rewrite !parse_form_indirect.
    destruct (read_uleb128_u16 bs) as [[c' r]| | |] eqn:R; cbn [bind]; try reflexivity.
    apply read_u16leb_shrinks in R. apply IH; lia.
  - rewrite !parse_form_direct by assumption. reflexivity.
Qed.

Lemma form_code_indirect f : form_code f = DW_FORM_indirect -> f = F_indirect.
Proof. destruct f; intros H; try reflexivity; discriminate H. Qed.

Lemma parse_direct_indirect dbg e spec bs : parse_direct dbg e spec DW_FORM_indirect bs = Err EUnknownForm.
Proof. reflexivity. Qed.

Ltac res_step :=
  match goal with
  | |- context [bind ?r _] =>
      match r with
      | bind _ _ => fail 1
      | _ => let H1 := fresh in let H2 := fresh in
             assert (H1 : r <> Panic /\ r <> OutOfFuel);
             [ first [ apply read_un_not_panic | apply read_uleb128_res | apply read_sleb128_res
                     | apply split_n_res | apply read_cstr_res | apply read_u16leb_res ]
             | destruct H1 as [H1 H2]; destruct r as [[? ?]| | |]; cbn [bind]; try congruence;
               try (split; discriminate) ]
      end
  end.

Lemma read_layout_res dbg bigend l bs :
  read_layout dbg bigend l bs <> Panic /\ read_layout dbg bigend l bs <> OutOfFuel.
Proof.
  destruct l as [n| | |p| | |]; cbn [read_layout]; try (split; discriminate).
  - res_step.
  - res_step.
  - res_step.
  - unfold read_block.
    destruct p; cbn [read_prefix]; rewrite ?(read_u8_un_be bigend); unfold read_u16, read_u32;
      res_step; res_step.
  - res_step.
Qed.

Lemma decode_by_layout_res dbg e spec f bs :
  decode_by_layout dbg e spec f bs <> Panic /\ decode_by_layout dbg e spec f bs <> OutOfFuel.
Proof.
  unfold decode_by_layout. destruct (form_guard e spec f); [split; discriminate|].
  destruct (read_layout_res dbg (be e) (form_layout f e) bs) as [H1 H2].
  destruct (read_layout dbg (be e) (form_layout f e) bs) as [[d r]| | |]; cbn [bind]; try congruence;
    try (split; discriminate).
  destruct (form_value e (at_name spec) (at_implicit spec) f d); split; discriminate.
Qed.

Lemma parse_direct_res dbg e spec c bs :
  parse_direct dbg e spec c bs <> Panic /\ parse_direct dbg e spec c bs <> OutOfFuel.
Proof.
  destruct (form_of_code c) as [f|] eqn:E.
  2:{ rewrite parse_direct_unknown by assumption. split; discriminate. }
  apply form_of_code_some in E. subst c.
  destruct (N.eq_dec (form_code f) DW_FORM_indirect) as [Hi|Hi].
  - rewrite Hi, parse_direct_indirect. split; discriminate.
  - rewrite parse_direct_known by (intros ->; apply Hi; reflexivity). apply decode_by_layout_res.
Qed.

Lemma parse_form_res : forall fuel dbg e spec c bs, (length bs < fuel)%nat ->
  parse_form fuel dbg e spec c bs <> Panic /\ parse_form fuel dbg e spec c bs <> OutOfFuel.
Proof.
  induction fuel as [|fuel IH]; intros dbg e spec c bs L; [lia|].
  destruct (N.eq_dec c DW_FORM_indirect) as [->|Hc].
  - rewrite parse_form_indirect.
    destruct (read_u16leb_res bs) as [H1 H2].
    destruct (read_uleb128_u16 bs) as [[c' r]| | |] eqn:R; cbn [bind]; try congruence;
      try (split; discriminate).
    apply read_u16leb_shrinks in R. apply IH. lia.
  - rewrite parse_form_direct by assumption. apply parse_direct_res.
Qed.

(* no_panic / fuel for parse_attribute *)
Lemma parse_attribute_res dbg e spec bs :
  parse_attribute dbg e spec bs <> Panic /\ parse_attribute dbg e spec bs <> OutOfFuel.
Proof. unfold parse_attribute. apply parse_form_res. lia. Qed.

(* ------------------------------------------------------------------ *)
(** * What a layout consumes *)

Lemma read_layout_fixed dbg bigend l bs d r n :
  read_layout dbg bigend l bs = Ok (d, r) -> layout_fixed_size l = Some n ->
  N.of_nat (length bs) = N.of_nat (length r) + n.
Proof.
  destruct l as [m| | |p| | |]; cbn [read_layout layout_fixed_size]; intros H S; inversion S; subst.
  - destruct (read_un (N.to_nat n) bigend bs) as [[v t]| | |] eqn:R; cbn [bind] in H; inversion H; subst.
    apply read_un_length in R. lia.
  - inversion H; subst. lia.
Qed.

Lemma read_layout_suffix dbg bigend l bs d r :
  read_layout dbg bigend l bs = Ok (d, r) -> exists used, bs = used ++ r.
Proof.
  destruct l as [m| | |p| | |]; cbn [read_layout]; intros H.
  - destruct (read_un (N.to_nat m) bigend bs) as [[v t]| | |] eqn:R; cbn [bind] in H; inversion H; subst.
    apply read_un_spec in R. destruct R as (h & -> & _). eauto.
  - destruct (read_uleb128 dbg bs) as [[v t]| | |] eqn:R; cbn [bind] in H; inversion H; subst.
    apply read_uleb128_skip in R. revert R. clear. revert r.
    induction bs as [|b t IH]; intros r R; cbn in R; [discriminate|].
    destruct (has_cont (b2n b)).
    + destruct (IH _ R) as [u ->]. exists (b :: u). reflexivity.
    + inversion R; subst. exists [b]. reflexivity.
  - destruct (read_sleb128 dbg bs) as [[v t]| | |] eqn:R; cbn [bind] in H; inversion H; subst.
    apply read_sleb128_skip in R. revert R. clear. revert r.
    induction bs as [|b t IH]; intros r R; cbn in R; [discriminate|].
    destruct (has_cont (b2n b)).
    + destruct (IH _ R) as [u ->]. exists (b :: u). reflexivity.
    + inversion R; subst. exists [b]. reflexivity.
  - unfold read_block in H.
    destruct (read_prefix dbg bigend p bs) as [[len t]| | |] eqn:R; cbn [bind] in H; try discriminate.
    destruct (split_n len t) as [[b t']| | |] eqn:S; cbn [bind] in H; inversion H; subst.
    apply split_n_spec in S. destruct S as [-> _].
    assert (exists u, bs = u ++ (b ++ r)) as [u ->].
    { destruct p; cbn [read_prefix] in R.
      - apply read_u8_spec in R. destruct R as (x & -> & _). exists [x]. reflexivity.
      - apply read_un_spec in R. destruct R as (h & -> & _). eauto.
      - apply read_un_spec in R. destruct R as (h & -> & _). eauto.
      - apply read_uleb128_skip in R. revert R. generalize (b ++ r). clear.
        induction bs as [|x t IH]; intros r R; cbn in R; [discriminate|].
        destruct (has_cont (b2n x)).
        + destruct (IH _ R) as [u ->]. exists (x :: u). reflexivity.
        + inversion R; subst. exists [x]. reflexivity. }
    exists (u ++ b). rewrite app_assoc. reflexivity.
  - destruct (read_cstr bs) as [[v t]| | |] eqn:R; cbn [bind] in H; inversion H; subst.
    apply read_cstr_spec in R. destruct R as [-> _]. exists (v ++ [x00]). rewrite <- app_assoc. reflexivity.
  - inversion H; subst. exists []. reflexivity.
  - discriminate.
Qed.

(* ------------------------------------------------------------------ *)
(** * Theorem 1: the advertised fixed size of a form is what reading consumes *)

Lemma decode_by_layout_ok dbg e spec f bs v r :
  decode_by_layout dbg e spec f bs = Ok (v, r) ->
  form_guard e spec f = None /\
  exists d, read_layout dbg (be e) (form_layout f e) bs = Ok (d, r) /\
            form_value e (at_name spec) (at_implicit spec) f d = Some v.
Proof.
  unfold decode_by_layout. destruct (form_guard e spec f); [discriminate|].
  destruct (read_layout dbg (be e) (form_layout f e) bs) as [[d t]| | |]; cbn [bind]; try discriminate.
  destruct (form_value e (at_name spec) (at_implicit spec) f d) eqn:V; intros H; inversion H; subst.
  eauto.
Qed.

Lemma fixed_size_is_consumed dbg e spec bs v r n :
  get_attribute_size (at_form spec) e = Some n ->
  parse_attribute dbg e spec bs = Ok (v, r) ->
  N.of_nat (length bs) = N.of_nat (length r) + n.
Proof.
  intros S P. unfold parse_attribute in P.
  destruct (form_of_code (at_form spec)) as [f|] eqn:E.
  2:{ rewrite get_attribute_size_unknown in S by assumption. discriminate. }
  apply form_of_code_some in E. rewrite E in *.
  rewrite get_attribute_size_known in S.
  assert (Hf : f <> F_indirect) by (intros ->; discriminate S).
  rewrite parse_form_direct in P by (intros C; apply form_code_indirect in C; congruence).
  rewrite parse_direct_known in P by assumption.
  apply decode_by_layout_ok in P. destruct P as (_ & d & R & _).
  eapply read_layout_fixed; eauto.
Qed.

(* ------------------------------------------------------------------ *)
(** * Theorem 2: skipping consumes exactly what reading consumes *)

Definition skip_layout (dbg bigend : bool) (l : layout) (bs : list byte) : res (N * list byte) :=
  match l with
  | LBlock p => read_prefix dbg bigend p bs
  | LCstring => let* (_, t) := read_cstr bs in Ok (0, t)
  | LUleb | LSleb => let* (_, t) := skip_leb bs in Ok (0, t)
  | _ => Err EUnknownForm
  end.

Lemma skip_var_known dbg e f bs : f <> F_indirect -> layout_fixed_size (form_layout f e) = None ->
  skip_var dbg e (form_code f) bs = skip_layout dbg (be e) (form_layout f e) bs.
Proof.
  intros Hi Hv. destruct f; try congruence; try discriminate Hv; reflexivity.
Qed.

Lemma skip_n_0 bs : skip_n 0 bs = Ok bs.
Proof. destruct bs; reflexivity. Qed.

Lemma flush_is_skip_n sb bs : (if sb =? 0 then Ok bs else skip_n sb bs) = skip_n sb bs.
Proof. destruct (N.eqb_spec sb 0) as [->|]; [rewrite skip_n_0|]; reflexivity. Qed.

Lemma skip_n_compose sb r p n u p' :
  skip_n sb r = Ok p -> p = u ++ p' -> N.of_nat (length u) = n ->
  skip_n (sb + n) r = Ok p' /\ sb + n <= N.of_nat (length r).
Proof.
  intros H -> <-. apply skip_n_spec in H. destruct H as (h & -> & <-).
  rewrite app_assoc. replace (N.of_nat (length h) + N.of_nat (length u)) with (N.of_nat (length (h ++ u)))
    by (rewrite app_length; lia).
  split; [apply skip_n_app|]. rewrite !app_length. lia.
Qed.

Lemma skip_leb_length bs r : skip_leb bs = Ok (tt, r) -> (length r <= length bs)%nat.
Proof. intros H. apply skip_leb_shrinks in H. lia. Qed.

Lemma read_prefix_length dbg bigend p bs len t :
  read_prefix dbg bigend p bs = Ok (len, t) -> (length t <= length bs)%nat.
Proof.
  destruct p; cbn [read_prefix]; intros H.
  - apply read_u8_spec in H. destruct H as (x & -> & _). cbn. lia.
  - apply read_un_length in H. lia.
  - apply read_un_length in H. lia.
  - apply read_uleb128_skip, skip_leb_length in H. assumption.
Qed.

Lemma skip_layout_read dbg bigend l p d p' :
  read_layout dbg bigend l p = Ok (d, p') -> layout_fixed_size l = None ->
  exists sb' r', skip_layout dbg bigend l p = Ok (sb', r') /\ skip_n sb' r' = Ok p' /\
                 (length r' <= length p)%nat.
Proof.
  destruct l as [m| | |pk| | |]; cbn [read_layout layout_fixed_size skip_layout]; intros H S; try discriminate.
  - destruct (read_uleb128 dbg p) as [[v t]| | |] eqn:R; cbn [bind] in H; inversion H; subst.
    apply read_uleb128_skip in R. rewrite R. cbn [bind]. exists 0, p'.
    split; [reflexivity|]. split; [apply skip_n_0|]. eapply skip_leb_length; eauto.
  - destruct (read_sleb128 dbg p) as [[v t]| | |] eqn:R; cbn [bind] in H; inversion H; subst.
    apply read_sleb128_skip in R. rewrite R. cbn [bind]. exists 0, p'.
    split; [reflexivity|]. split; [apply skip_n_0|]. eapply skip_leb_length; eauto.
  - unfold read_block in H.
    destruct (read_prefix dbg bigend pk p) as [[len t]| | |] eqn:R; cbn [bind] in H; try discriminate.
    destruct (split_n len t) as [[b t']| | |] eqn:Sp; cbn [bind] in H; inversion H; subst.
    exists len, t. split; [reflexivity|]. split.
    + unfold skip_n. rewrite Sp. reflexivity.
    + eapply read_prefix_length; eauto.
  - destruct (read_cstr p) as [[s t]| | |] eqn:R; cbn [bind] in *; inversion H; subst.
    exists 0, p'. split; [reflexivity|]. split; [apply skip_n_0|].
    apply read_cstr_spec in R. destruct R as [-> _]. rewrite app_length. cbn. lia.
Qed.

Lemma skip_form_follows_read : forall fuel dbg e spec c p v p' sb r fuel2,
  parse_form fuel dbg e spec c p = Ok (v, p') ->
  skip_n sb r = Ok p -> N.of_nat (length r) < two64 -> (length r < fuel2)%nat ->
  exists sb' r', skip_form fuel2 dbg e sb c r = Ok (sb', r') /\ skip_n sb' r' = Ok p' /\
                 (length r' <= length r)%nat.
Proof.
  induction fuel as [|fuel IH]; intros dbg e spec c p v p' sb r fuel2 P K B F.
  - (* no fuel: only a direct form can have succeeded *)
    destruct (N.eq_dec c DW_FORM_indirect) as [->|Hc]; [discriminate P|].
    rewrite parse_form_direct in P by assumption.
    destruct fuel2 as [|k]; [lia|].
    destruct (form_of_code c) as [f|] eqn:E; [|rewrite parse_direct_unknown in P by assumption; discriminate].
    apply form_of_code_some in E. subst c.
    assert (Hf : f <> F_indirect) by (intros ->; apply Hc; reflexivity).
    rewrite parse_direct_known in P by assumption.
    apply decode_by_layout_ok in P. destruct P as (_ & d & R & _).
    cbn [skip_form]. rewrite get_attribute_size_known.
    destruct (layout_fixed_size (form_layout f e)) as [n|] eqn:S.
    + pose proof (read_layout_fixed _ _ _ _ _ _ _ R S) as L.
      destruct (read_layout_suffix _ _ _ _ _ _ R) as [u ->].
      destruct (skip_n_compose sb r (u ++ p') n u p' K eq_refl) as [K' Le].
      { rewrite app_length in L. lia. }
      destruct (N.ltb_spec (sb + n) two64); [|lia].
      exists (sb + n), r. auto.
    + rewrite flush_is_skip_n, K. cbn [bind].
      destruct (N.eqb_spec (form_code f) DW_FORM_indirect) as [C|_]; [congruence|].
      rewrite skip_var_known by assumption.
      destruct (skip_layout_read _ _ _ _ _ _ R S) as (sb' & r' & A & A' & A'').
      exists sb', r'. split; [assumption|]. split; [assumption|].
      apply skip_n_spec in K. destruct K as (h & -> & _). rewrite app_length. lia.
  - destruct (N.eq_dec c DW_FORM_indirect) as [->|Hc].
    + rewrite parse_form_indirect in P.
      destruct (read_uleb128_u16 p) as [[c' p1]| | |] eqn:R; cbn [bind] in P; try discriminate.
      destruct fuel2 as [|k]; [lia|].
      cbn [skip_form]. change (get_attribute_size DW_FORM_indirect e) with (@None N).
      rewrite flush_is_skip_n, K. cbn [bind]. rewrite N.eqb_refl, R. cbn [bind].
      pose proof (read_u16leb_shrinks _ _ _ R) as Sh.
      assert (Lp : (length p <= length r)%nat).
      { apply skip_n_spec in K. destruct K as (h & -> & _). rewrite app_length. lia. }
      destruct (IH dbg e spec c' p1 v p' 0 p1 k P (skip_n_0 p1)) as (sb' & r' & A & A' & A''); [lia|lia|].
      exists sb', r'. split; [assumption|]. split; [assumption|]. lia.
    + rewrite parse_form_direct in P by assumption.
      apply (IH dbg e spec c p v p' sb r fuel2); auto.
      rewrite parse_form_direct by assumption. assumption.
Qed.

Lemma parse_attribute_length dbg e spec bs v r :
  parse_attribute dbg e spec bs = Ok (v, r) -> (length r <= length bs)%nat.
Proof.
  unfold parse_attribute. generalize (S (length bs)) as fuel. generalize (at_form spec) as c.
  intros c fuel. revert c bs.
  induction fuel as [|fuel IH]; intros c bs P.
  - destruct (N.eq_dec c DW_FORM_indirect) as [->|Hc]; [discriminate P|].
    rewrite parse_form_direct in P by assumption.
    destruct (form_of_code c) as [f|] eqn:E; [|rewrite parse_direct_unknown in P by assumption; discriminate].
    apply form_of_code_some in E. subst c.
    rewrite parse_direct_known in P by (intros ->; apply Hc; reflexivity).
    apply decode_by_layout_ok in P. destruct P as (_ & d & R & _).
    apply read_layout_suffix in R. destruct R as [u ->]. rewrite app_length. lia.
  - destruct (N.eq_dec c DW_FORM_indirect) as [->|Hc].
    + rewrite parse_form_indirect in P.
      destruct (read_uleb128_u16 bs) as [[c' p1]| | |] eqn:R; cbn [bind] in P; try discriminate.
      apply read_u16leb_shrinks in R. apply IH in P. lia.
    + apply (IH c bs). rewrite parse_form_direct in * by assumption. assumption.
Qed.

Lemma skip_specs_follow_read : forall specs dbg e p vs pf sb r,
  read_attributes dbg e specs p = Ok (vs, pf) ->
  skip_n sb r = Ok p -> N.of_nat (length r) < two64 ->
  exists sb' r', skip_specs dbg e sb specs r = Ok (sb', r') /\ skip_n sb' r' = Ok pf.
Proof.
  induction specs as [|s t IH]; intros dbg e p vs pf sb r R K B; cbn [read_attributes skip_specs] in *.
  - inversion R; subst. eauto.
  - destruct (parse_attribute dbg e s p) as [[v p1]| | |] eqn:P; cbn [bind] in R; try discriminate.
    destruct (read_attributes dbg e t p1) as [[vs' pf']| | |] eqn:R'; cbn [bind] in R; inversion R; subst.
    unfold parse_attribute in P.
    destruct (skip_form_follows_read _ _ _ _ _ _ _ _ sb r (S (length r)) P K B) as (sb1 & r1 & A & A' & A''); [lia|].
    rewrite A. cbn [bind]. eapply IH; eauto. lia.
Qed.

Lemma skip_eq_read dbg e specs bs vs r :
  N.of_nat (length bs) < two64 ->
  read_attributes dbg e specs bs = Ok (vs, r) ->
  skip_attributes dbg e specs bs = Ok r.
Proof.
  intros B R. unfold skip_attributes.
  destruct (skip_specs_follow_read specs dbg e bs vs r 0 bs R (skip_n_0 bs) B) as (sb & r' & A & A').
  rewrite A. cbn [bind]. rewrite flush_is_skip_n. assumption.
Qed.

(* ------------------------------------------------------------------ *)
(** * no_panic: neither reading nor skipping can panic or run out of fuel *)

Lemma skip_leb_res : forall bs, skip_leb bs <> Panic /\ skip_leb bs <> OutOfFuel.
Proof.
  induction bs as [|b t IH]; cbn; [split; discriminate|].
  destruct (has_cont (b2n b)); [assumption|split; discriminate].
Qed.

Lemma skip_n_res n bs : skip_n n bs <> Panic /\ skip_n n bs <> OutOfFuel.
Proof.
  unfold skip_n. destruct (split_n_res bs n) as [H1 H2].
  destruct (split_n n bs) as [[? ?]| | |]; cbn [bind]; split; congruence.
Qed.

Lemma skip_var_res dbg e c bs : skip_var dbg e c bs <> Panic /\ skip_var dbg e c bs <> OutOfFuel.
Proof.
  unfold skip_var.
  repeat match goal with |- context [if ?c then _ else _] => destruct c end;
    rewrite ?(read_u8_un_be (be e)); unfold read_u16, read_u32;
    try (split; discriminate);
    try apply read_un_not_panic; try apply read_uleb128_res.
  - res_step.
  - destruct (skip_leb_res bs) as [H1 H2].
    destruct (skip_leb bs) as [[? ?]| | |]; cbn [bind]; split; congruence.
Qed.

Lemma skip_form_res : forall fuel dbg e sb c r, (length r < fuel)%nat ->
  skip_form fuel dbg e sb c r <> Panic /\ skip_form fuel dbg e sb c r <> OutOfFuel.
Proof.
  induction fuel as [|fuel IH]; intros dbg e sb c r L; [lia|].
  cbn [skip_form].
  destruct (get_attribute_size c e) as [len|].
  - destruct (sb + len <? two64); split; discriminate.
  - rewrite flush_is_skip_n.
    destruct (skip_n_res sb r) as [H1 H2].
    destruct (skip_n sb r) as [p| | |] eqn:K; cbn [bind]; try congruence; try (split; discriminate).
    destruct (c =? DW_FORM_indirect); [|apply skip_var_res].
    destruct (read_u16leb_res p) as [H3 H4].
    destruct (read_uleb128_u16 p) as [[c' p1]| | |] eqn:R; cbn [bind]; try congruence; try (split; discriminate).
    apply IH. apply read_u16leb_shrinks in R.
    apply skip_n_spec in K. destruct K as (h & -> & _). rewrite app_length in L. lia.
Qed.

Lemma skip_specs_res : forall specs dbg e sb r,
  skip_specs dbg e sb specs r <> Panic /\ skip_specs dbg e sb specs r <> OutOfFuel.
Proof.
  induction specs as [|s t IH]; intros dbg e sb r; cbn [skip_specs]; [split; discriminate|].
  destruct (skip_form_res (S (length r)) dbg e sb (at_form s) r) as [H1 H2]; [lia|].
  destruct (skip_form (S (length r)) dbg e sb (at_form s) r) as [[sb' r']| | |]; cbn [bind];
    try congruence; try (split; discriminate). apply IH.
Qed.

Lemma skip_attributes_res dbg e specs bs :
  skip_attributes dbg e specs bs <> Panic /\ skip_attributes dbg e specs bs <> OutOfFuel.
Proof.
  unfold skip_attributes. destruct (skip_specs_res specs dbg e 0 bs) as [H1 H2].
  destruct (skip_specs dbg e 0 specs bs) as [[sb r]| | |]; cbn [bind]; try congruence; try (split; discriminate).
  rewrite flush_is_skip_n. apply skip_n_res.
Qed.

Lemma read_attributes_res : forall specs dbg e bs,
  read_attributes dbg e specs bs <> Panic /\ read_attributes dbg e specs bs <> OutOfFuel.
Proof.
  induction specs as [|s t IH]; intros dbg e bs; cbn [read_attributes]; [split; discriminate|].
  destruct (parse_attribute_res dbg e s bs) as [H1 H2].
  destruct (parse_attribute dbg e s bs) as [[v r]| | |]; cbn [bind]; try congruence; try (split; discriminate).
  destruct (IH dbg e r) as [H3 H4].
  destruct (read_attributes dbg e t r) as [[vs r']| | |]; cbn [bind]; try congruence; split; discriminate.
Qed.

(* the build mode is irrelevant *)
Lemma parse_direct_dbg dbg e spec c bs : parse_direct dbg e spec c bs = parse_direct false e spec c bs.
Proof.
  unfold parse_direct. rewrite (read_uleb128_dbg dbg), (read_sleb128_dbg dbg). reflexivity.
Qed.

Lemma parse_form_dbg : forall fuel dbg e spec c bs,
  parse_form fuel dbg e spec c bs = parse_form fuel false e spec c bs.
Proof.
  induction fuel as [|fuel IH]; intros; cbn [parse_form].
  - destruct (c =? DW_FORM_indirect); [reflexivity|apply parse_direct_dbg].
  - destruct (c =? DW_FORM_indirect); [|apply parse_direct_dbg].
    destruct (read_uleb128_u16 bs) as [[c' r]| | |]; cbn [bind]; try reflexivity. apply IH.
Qed.

Lemma parse_attribute_dbg dbg e spec bs : parse_attribute dbg e spec bs = parse_attribute false e spec bs.
Proof. apply parse_form_dbg. Qed.

Lemma skip_form_dbg : forall fuel dbg e sb c r, skip_form fuel dbg e sb c r = skip_form fuel false e sb c r.
Proof.
  induction fuel as [|fuel IH]; intros; cbn [skip_form];
    destruct (get_attribute_size c e); try reflexivity;
    destruct (if sb =? 0 then Ok r else skip_n sb r); cbn [bind]; try reflexivity;
    destruct (c =? DW_FORM_indirect);
    try (unfold skip_var; rewrite (read_uleb128_dbg dbg); reflexivity); try reflexivity.
  destruct (read_uleb128_u16 a) as [[c' r']| | |]; cbn [bind]; try reflexivity. apply IH.
Qed.

Lemma skip_attributes_dbg dbg e specs bs : skip_attributes dbg e specs bs = skip_attributes false e specs bs.
Proof.
  unfold skip_attributes. f_equal. generalize 0 as sb. revert bs.
  induction specs as [|s t IH]; intros bs sb; cbn [skip_specs]; [reflexivity|].
  rewrite skip_form_dbg. destruct (skip_form (S (length bs)) false e sb (at_form s) bs) as [[sb' r]| | |];
    cbn [bind]; try reflexivity. apply IH.
Qed.

(* ------------------------------------------------------------------ *)
(** * LEB128 round trips (spec encoder, model reader) *)

Lemma pow2_shift_lt w s : 1 <= w -> w * 2 ^ s < two64 -> s < 64.
Proof.
  intros H1 H2. apply (N.pow_lt_mono_r_iff 2); [lia|].
  change (2 ^ 64) with two64. nia.
Qed.

Lemma uleb_loop_enc : forall f w result shift rest dbg,
  1 <= w -> w < 2 ^ (7 * N.of_nat f) -> w * 2 ^ shift < two64 -> result < 2 ^ shift ->
  uleb_loop dbg result shift (enc_uleb_fuel f w ++ rest) = Ok (result + w * 2 ^ shift, rest).
Proof.
  induction f as [|f IH]; intros w result shift rest dbg W1 Wf Wb Rb.
  - change (2 ^ (7 * N.of_nat 0)) with 1 in Wf. lia.
  - pose proof (pow2_shift_lt _ _ W1 Wb) as S64.
    set (P := 2 ^ shift) in *.
    assert (P63 : shift = 63 -> w < 2).
    { intros E. unfold P in Wb. rewrite E in Wb. change (2 ^ 63) with 9223372036854775808 in Wb.
      unfold two64 in Wb. lia. }
    cbn [enc_uleb_fuel]. destruct (N.ltb_spec w 128) as [Lw|Lw].
    + cbn [app uleb_loop]. rewrite b2n_n2b_small by lia.
      replace ((shift =? 63) && negb (w =? 0) && negb (w =? 1)) with false.
      2:{ destruct (N.eqb_spec shift 63) as [E|E]; [|reflexivity]. specialize (P63 E).
          replace w with 1 by lia. reflexivity. }
      rewrite shl64_small by assumption. cbn [bind].
      rewrite low7_mod, (N.mod_small w 128) by assumption.
      rewrite N.shiftl_mul_pow2. fold P. rewrite wrap64_small by assumption.
      unfold P. rewrite lor_mul_add by assumption.
      rewrite has_cont_byte by lia. destruct (N.leb_spec 128 w); [lia|]. reflexivity.
    + cbn [app uleb_loop].
      pose proof (N.mod_lt w 128 ltac:(discriminate)) as Mlt.
      pose proof (N.div_mod' w 128) as DM.
      set (q := w / 128) in *. set (m := w mod 128) in *.
      rewrite b2n_n2b_small by lia.
      replace (shift =? 63) with false by (symmetry; apply N.eqb_neq; intros E; specialize (P63 E); lia).
      cbn [andb].
      rewrite shl64_small by assumption. cbn [bind].
      assert (L7 : low7 (128 + m) = m).
      { rewrite low7_mod. replace (128 + m) with (m + 1 * 128) by lia.
        rewrite N.mod_add by discriminate. apply N.mod_small. assumption. }
      rewrite L7. rewrite N.shiftl_mul_pow2. fold P.
      rewrite wrap64_small by nia.
      unfold P at 1. rewrite lor_mul_add by assumption. fold P.
      rewrite has_cont_byte by lia. destruct (N.leb_spec 128 (128 + m)); [|lia].
      assert (P7 : 2 ^ (shift + 7) = P * 128).
      { rewrite N.pow_add_r. reflexivity. }
      rewrite IH.
      * rewrite P7. f_equal. f_equal. nia.
      * nia.
      * replace (7 * N.of_nat (S f)) with (7 * N.of_nat f + 7) in Wf by lia.
        rewrite N.pow_add_r in Wf. change (2 ^ 7) with 128 in Wf. nia.
      * rewrite P7. nia.
      * rewrite P7. nia.
Qed.

Lemma read_uleb128_enc dbg v rest : v < two64 -> read_uleb128 dbg (enc_uleb v ++ rest) = Ok (v, rest).
Proof.
  intros H. unfold enc_uleb.
  change (enc_uleb_fuel 19 v)
    with (if v <? 128 then [n2b v] else n2b (128 + v mod 128) :: enc_uleb_fuel 18 (v / 128)).
  destruct (N.ltb_spec v 128) as [L|L].
  - cbn [app read_uleb128]. rewrite b2n_n2b_small by lia.
    rewrite has_cont_byte by lia. destruct (N.leb_spec 128 v); [lia|]. reflexivity.
  - cbn [app read_uleb128].
    pose proof (N.mod_lt v 128 ltac:(discriminate)) as Mlt.
    pose proof (N.div_mod' v 128) as DM.
    set (q := v / 128) in *. set (m := v mod 128) in *.
    rewrite b2n_n2b_small by lia.
    rewrite has_cont_byte by lia. destruct (N.leb_spec 128 (128 + m)); [|lia].
    assert (L7 : low7 (128 + m) = m).
    { rewrite low7_mod. replace (128 + m) with (m + 1 * 128) by lia.
      rewrite N.mod_add by discriminate. apply N.mod_small. assumption. }
    rewrite L7, uleb_loop_enc.
    + change (2 ^ 7) with 128. f_equal. f_equal. lia.
    + lia.
    + change (2 ^ (7 * N.of_nat 18)) with 85070591730234615865843651857942052864. unfold two64 in H. lia.
    + change (2 ^ 7) with 128. lia.
    + change (2 ^ 7) with 128. lia.
Qed.

(* ---------- signed ---------- *)
Lemma to_i64_small x : x < two63 -> to_i64 x = Z.of_N x.
Proof.
  intros H. unfold to_i64, to_signed, wrapN. change (2 ^ 64) with two64. change (2 ^ (64 - 1)) with two63.
  rewrite N.mod_small by (unfold two63, two64 in *; lia).
  destruct (N.ltb_spec x two63); [reflexivity|lia].
Qed.

Lemma to_i64_big x : two63 <= x -> x < two64 -> to_i64 x = (Z.of_N x - 18446744073709551616)%Z.
Proof.
  intros H1 H2. unfold to_i64, to_signed, wrapN. change (2 ^ 64) with two64. change (2 ^ (64 - 1)) with two63.
  rewrite N.mod_small by assumption.
  destruct (N.ltb_spec x two63); [lia|reflexivity].
Qed.

Lemma pow_split a b : b <= a -> 2 ^ a = 2 ^ (a - b) * 2 ^ b.
Proof. intros H. rewrite <- N.pow_add_r. f_equal. lia. Qed.

Lemma leb_shift_cases s : leb_shift s -> s <= 56 \/ s = 63.
Proof.
  intros [H1 H2].
  assert (s = 7 * (s / 7)) by (rewrite (N.div_mod' s 7) at 1; lia).
  assert (s / 7 <= 9) by (apply N.div_le_upper_bound; lia).
  lia.
Qed.

Lemma pow2_pos s : 0 < 2 ^ s.
Proof. apply N.neq_0_lt_0, N.pow_nonzero. discriminate. Qed.

Lemma pow2_le_56 s : s <= 56 -> 2 ^ s <= 72057594037927936.
Proof. intros H. change 72057594037927936 with (2 ^ 56). apply N.pow_le_mono_r; lia. Qed.

(* last byte of a signed LEB128 number *)
Lemma sleb_loop_last z result shift rest dbg :
  leb_shift shift ->
  (-64 <= z < 64)%Z ->
  (- Z.of_N (2 ^ (63 - shift)) <= z < Z.of_N (2 ^ (63 - shift)))%Z ->
  result < 2 ^ shift ->
  sleb_loop dbg result shift (n2b (Z.to_N (z mod 128)%Z) :: rest)
  = Ok ((Z.of_N result + z * Z.of_N (2 ^ shift))%Z, rest).
Proof.
  intros LS Zs Zr Rb.
  set (d := Z.to_N (z mod 128)%Z).
  assert (Dlt : d < 128) by (unfold d; lia).
  assert (Dz : Z.of_N d = (z mod 128)%Z) by (unfold d; lia).
  cbn [sleb_loop]. rewrite b2n_n2b_small by lia.
  pose proof (pow2_pos shift) as Ppos.
  assert (HP : 2 ^ 63 = 2 ^ (63 - shift) * 2 ^ shift) by (apply pow_split; destruct LS; lia).
  change (2 ^ 63) with two63 in HP.
  set (P := 2 ^ shift) in *. set (H := 2 ^ (63 - shift)) in *.
  destruct (leb_shift_cases _ LS) as [S56|S63].
  - (* shift + 7 < 64 *)
    replace (shift =? 63) with false by (symmetry; apply N.eqb_neq; lia). cbn [andb].
    rewrite shl64_small by lia. cbn [bind].
    rewrite low7_mod, (N.mod_small d 128) by assumption.
    rewrite N.shiftl_mul_pow2. fold P.
    pose proof (pow2_le_56 _ S56) as P56. fold P in P56.
    rewrite wrap64_small by (unfold two64; nia).
    unfold P. rewrite lor_mul_add by assumption. fold P.
    rewrite has_cont_byte by lia. destruct (N.leb_spec 128 d); [lia|].
    destruct (N.ltb_spec (shift + 7) 64); [|lia]. cbn [andb].
    rewrite sign_bit_byte by assumption.
    assert (P7 : 2 ^ (shift + 7) = P * 128) by (rewrite N.pow_add_r; reflexivity).
    destruct (N.leb_spec 64 d) as [Neg|Pos].
    + (* negative *)
      assert (Zneg : (z < 0)%Z) by lia.
      assert (Dval : Z.of_N d = (z + 128)%Z) by lia.
      rewrite shl64_small by assumption. cbn [bind].
      assert (HQ : two64 = 2 ^ (64 - (shift + 7)) * 2 ^ (shift + 7)) by (apply (pow_split 64); lia).
      set (Q := 2 ^ (shift + 7)) in *. set (Q' := 2 ^ (64 - (shift + 7))) in *.
      assert (Qpos : 0 < Q) by apply pow2_pos.
      assert (Q'pos : 0 < Q') by apply pow2_pos.
      assert (Ones : wrap64 (N.shiftl (two64 - 1) (shift + 7)) = (Q' - 1) * Q).
      { unfold wrap64. rewrite N.shiftl_mul_pow2. fold Q.
        transitivity (((two64 - 1) * Q) mod (Q' * Q)); [rewrite <- HQ; reflexivity|].
        rewrite N.mul_mod_distr_r by lia. f_equal.
        rewrite HQ. replace (Q' * Q - 1) with ((Q' - 1) + (Q - 1) * Q') by nia.
        rewrite N.mod_add by lia. apply N.mod_small. lia. }
      assert (DP : d * P <= 127 * P) by (apply N.mul_le_mono_r; lia).
      rewrite Ones. unfold Q. rewrite lor_mul_add by (fold Q; lia). fold Q.
      rewrite to_i64_big.
      * f_equal. f_equal. unfold two64 in HQ. nia.
      * unfold two63, two64 in *. nia.
      * unfold two64 in *. nia.
    + (* non-negative *)
      assert (Zpos : (0 <= z)%Z) by lia.
      assert (Dval : Z.of_N d = z) by lia.
      rewrite to_i64_small by (unfold two63; nia).
      f_equal. f_equal. nia.
  - (* shift = 63: the byte is 0 or 0x7f *)
    assert (H1 : H = 1) by (unfold H; rewrite S63; reflexivity).
    assert (Z01 : z = 0%Z \/ z = (-1)%Z) by lia.
    assert (HPv : P = two63) by (unfold P; rewrite S63; reflexivity).
    rewrite S63. cbn [N.eqb Pos.eqb andb].
    destruct Z01 as [-> | ->].
    + change d with 0. cbn [N.eqb negb andb].
      change (shl64 dbg (low7 0) 63) with (@Ok N 0). cbn [bind].
      change (has_cont 0) with false. change (63 + 7 <? 64) with false. cbn [andb].
      rewrite N.lor_0_r.
      rewrite to_i64_small by (rewrite <- HPv; assumption). f_equal. f_equal. lia.
    + change d with 127. cbn [N.eqb Pos.eqb negb andb].
      change (shl64 dbg (low7 127) 63) with (@Ok N two63). cbn [bind].
      change (has_cont 127) with false. change (63 + 7 <? 64) with false. cbn [andb].
      change two63 with (1 * 2 ^ 63). rewrite lor_mul_add by (change (2 ^ 63) with two63; lia).
      change (1 * 2 ^ 63) with two63.
      rewrite to_i64_big by (unfold two63, two64 in *; lia).
      f_equal. f_equal. unfold two63 in *. lia.
Qed.

Lemma enc_sleb_fuel_S f z :
  enc_sleb_fuel (S f) z =
  if ((-64 <=? z) && (z <? 64))%Z then [n2b (Z.to_N (z mod 128)%Z)]
  else n2b (128 + Z.to_N (z mod 128)%Z) :: enc_sleb_fuel f (z / 128)%Z.
Proof. reflexivity. Qed.

Lemma sleb_loop_enc : forall f z result shift rest dbg,
  leb_shift shift ->
  (- Z.of_N (2 ^ (63 - shift)) <= z < Z.of_N (2 ^ (63 - shift)))%Z ->
  (- 64 * 128 ^ Z.of_nat f <= z < 64 * 128 ^ Z.of_nat f)%Z ->
  result < 2 ^ shift ->
  sleb_loop dbg result shift (enc_sleb_fuel (S f) z ++ rest)
  = Ok ((Z.of_N result + z * Z.of_N (2 ^ shift))%Z, rest).
Proof.
  induction f as [|f IH]; intros z result shift rest dbg LS Zr Zf Rb.
  - change (128 ^ Z.of_nat 0)%Z with 1%Z in Zf.
    cbn [enc_sleb_fuel]. destruct ((-64 <=? z)%Z && (z <? 64)%Z) eqn:C; [|lia].
    cbn [app]. apply sleb_loop_last; auto; lia.
  - rewrite enc_sleb_fuel_S. destruct ((-64 <=? z)%Z && (z <? 64)%Z) eqn:C.
    + cbn [app]. apply sleb_loop_last; auto; lia.
    + (* a continuation byte *)
      set (d := Z.to_N (z mod 128)%Z).
      assert (Dlt : d < 128) by (unfold d; lia).
      assert (Dz : Z.of_N d = (z mod 128)%Z) by (unfold d; lia).
      assert (Zout : (z < -64 \/ 64 <= z)%Z) by lia.
      assert (S56 : shift <= 56).
      { destruct (leb_shift_cases _ LS) as [?|S63]; [assumption|]. exfalso.
        rewrite S63 in Zr. change (2 ^ (63 - 63)) with 1 in Zr. lia. }
      cbn [app sleb_loop]. rewrite b2n_n2b_small by lia.
      replace (shift =? 63) with false by (symmetry; apply N.eqb_neq; lia). cbn [andb].
      rewrite shl64_small by lia. cbn [bind].
      assert (L7 : low7 (128 + d) = d).
      { rewrite low7_mod. replace (128 + d) with (d + 1 * 128) by lia.
        rewrite N.mod_add by discriminate. apply N.mod_small. assumption. }
      rewrite L7, N.shiftl_mul_pow2.
      pose proof (pow2_pos shift) as Ppos. pose proof (pow2_le_56 _ S56) as P56.
      assert (P7 : 2 ^ (shift + 7) = 2 ^ shift * 128) by (rewrite N.pow_add_r; reflexivity).
      assert (HH : 2 ^ (63 - shift) = 2 ^ (63 - (shift + 7)) * 128).
      { replace (63 - shift) with (63 - (shift + 7) + 7) by lia. rewrite N.pow_add_r. reflexivity. }
      set (P := 2 ^ shift) in *. set (H' := 2 ^ (63 - (shift + 7))) in *.
      assert (DP : d * P <= 127 * P) by (apply N.mul_le_mono_r; lia).
      rewrite wrap64_small by (unfold two64; lia).
      unfold P. rewrite lor_mul_add by assumption. fold P.
      rewrite has_cont_byte by lia. destruct (N.leb_spec 128 (128 + d)); [|lia].
      rewrite IH.
      * f_equal. f_equal. rewrite P7.
        pose proof (Z.div_mod z 128 ltac:(lia)) as DM.
        rewrite N2Z.inj_add, !N2Z.inj_mul, Dz. change (Z.of_N 128) with 128%Z.
        set (PZ := Z.of_N P). set (q := (z / 128)%Z) in *. set (m := (z mod 128)%Z) in *.
        clearbody q m. subst z. ring.
      * apply leb_shift_next; [assumption|lia].
      * fold H'. rewrite HH in Zr. lia.
      * replace (Z.of_nat (S f)) with (Z.of_nat f + 1)%Z in Zf by lia.
        rewrite Z.pow_add_r in Zf by lia. change (128 ^ 1)%Z with 128%Z in Zf.
        assert (0 < 128 ^ Z.of_nat f)%Z by (apply Z.pow_pos_nonneg; lia). lia.
      * rewrite P7. lia.
Qed.

Lemma read_sleb128_enc dbg z rest :
  (-9223372036854775808 <= z < 9223372036854775808)%Z ->
  read_sleb128 dbg (enc_sleb z ++ rest) = Ok (z, rest).
Proof.
  intros H. unfold read_sleb128, enc_sleb.
  rewrite sleb_loop_enc.
  - f_equal. f_equal. change (Z.of_N (2 ^ 0)) with 1%Z. lia.
  - apply leb_shift_0.
  - change (Z.of_N (2 ^ (63 - 0))) with 9223372036854775808%Z. lia.
  - change (128 ^ Z.of_nat 9)%Z with 9223372036854775808%Z. lia.
  - reflexivity.
Qed.

(* ------------------------------------------------------------------ *)
(** * Fixed-width round trip *)

Lemma le_enc_length n : forall v, length (le_enc n v) = n.
Proof. induction n as [|n IH]; intros v; cbn; [reflexivity|]. rewrite IH. reflexivity. Qed.

Lemma le_val_le_enc n : forall v, le_val (le_enc n v) = v mod 256 ^ N.of_nat n.
Proof.
  induction n as [|n IH]; intros v.
  - cbn. change (256 ^ 0) with 1. rewrite N.mod_1_r. reflexivity.
  - cbn [le_enc le_val]. rewrite IH, b2n_n2b, N.mod_mod by discriminate.
    replace (N.of_nat (S n)) with (N.succ (N.of_nat n)) by lia.
    rewrite N.pow_succ_r'. rewrite N.mod_mul_r by (try apply N.pow_nonzero; discriminate).
    reflexivity.
Qed.

Lemma read_un_enc n bigend v rest : v < 256 ^ N.of_nat n ->
  read_un n bigend (enc_fixed n bigend v ++ rest) = Ok (v, rest).
Proof.
  intros H. unfold read_un, read_bytes, enc_fixed.
  destruct bigend.
  - rewrite take_app by (rewrite rev_length; apply le_enc_length). cbn [bind].
    unfold be_val. rewrite rev_involutive, le_val_le_enc, N.mod_small by assumption. reflexivity.
  - rewrite take_app by apply le_enc_length. cbn [bind].
    rewrite le_val_le_enc, N.mod_small by assumption. reflexivity.
Qed.

Lemma pow256 n : 256 ^ n = 2 ^ (8 * n).
Proof. rewrite N.pow_mul_r. reflexivity. Qed.

(* ------------------------------------------------------------------ *)
(** * Layout round trip *)

Lemma read_prefix_enc dbg bigend p len rest : len < prefix_bound p ->
  read_prefix dbg bigend p (enc_prefix p bigend len ++ rest) = Ok (len, rest).
Proof.
  destruct p; cbn [read_prefix enc_prefix prefix_bound]; intros H.
  - rewrite (read_u8_un_be bigend). apply read_un_enc. exact H.
  - apply read_un_enc. exact H.
  - apply read_un_enc. exact H.
  - apply read_uleb128_enc. exact H.
Qed.

Lemma read_layout_enc dbg bigend l d payload rest :
  raw_fits l d -> enc_layout l bigend d = Some payload ->
  read_layout dbg bigend l (payload ++ rest) = Ok (d, rest).
Proof.
  destruct l as [n| | |p| | |]; destruct d as [v|z|b|]; cbn [raw_fits enc_layout read_layout];
    intros F E; try contradiction; try discriminate; inversion E; subst; clear E.
  - rewrite read_un_enc; [reflexivity|]. rewrite pow256, N2Nat.id. exact F.
  - rewrite read_uleb128_enc by exact F. reflexivity.
  - rewrite read_sleb128_enc by exact F. reflexivity.
  - unfold read_block. rewrite <- app_assoc, read_prefix_enc by exact F. cbn [bind].
    rewrite split_n_app. reflexivity.
  - rewrite <- app_assoc. cbn [app]. rewrite read_cstr_app by exact F. reflexivity.
  - reflexivity.
Qed.

(* ------------------------------------------------------------------ *)
(** * DW_FORM_indirect hops *)

Lemma read_u16leb_code f rest :
  read_uleb128_u16 (enc_uleb (form_code f) ++ rest) = Ok (form_code f, rest).
Proof.
  apply (read_u16leb_app _ _ [] rest). destruct f; reflexivity.
Qed.

Lemma parse_form_hops : forall depth fuel dbg e spec f data,
  (depth <= fuel)%nat -> depth <> O ->
  parse_form fuel dbg e spec DW_FORM_indirect (enc_hops depth f ++ data)
  = parse_form (fuel - depth) dbg e spec (form_code f) data.
Proof.
  induction depth as [|depth IH]; intros fuel dbg e spec f data L NZ; [congruence|].
  destruct fuel as [|fuel]; [lia|].
  rewrite parse_form_indirect.
  destruct depth as [|depth].
  - cbn [enc_hops]. rewrite read_u16leb_code. cbn [bind]. replace (S fuel - 1)%nat with fuel by lia. reflexivity.
  - change (enc_hops (S (S depth)) f) with (enc_uleb indirect_code ++ enc_hops (S depth) f).
    rewrite <- app_assoc.
    change indirect_code with (form_code F_indirect). rewrite read_u16leb_code. cbn [bind].
    change (form_code F_indirect) with DW_FORM_indirect.
    rewrite IH by lia. reflexivity.
Qed.

Lemma enc_hops_length depth f : (depth <= length (enc_hops depth f))%nat.
Proof.
  induction depth as [|depth IH]; [cbn; lia|].
  destruct depth as [|depth].
  - cbn [enc_hops]. destruct f; vm_compute; repeat constructor.
  - change (enc_hops (S (S depth)) f) with (enc_uleb indirect_code ++ enc_hops (S depth) f).
    rewrite app_length. change (length (enc_uleb indirect_code)) with 1%nat. lia.
Qed.

(* ------------------------------------------------------------------ *)
(** * Theorem 3: decode (encode v) = v for every form *)

Definition addr_size_ok (e : enc) : Prop := valid_size (address_size e) = true.

Lemma attr_roundtrip dbg e name implicit depth f d payload v rest :
  f <> F_indirect ->
  addr_size_ok e ->
  (f = F_implicit_const -> depth = O) ->
  raw_fits (form_layout f e) d ->
  enc_layout (form_layout f e) (be e) d = Some payload ->
  form_value e name implicit f d = Some v ->
  parse_attribute dbg e (mkSpec name (spec_form depth f) implicit) (enc_hops depth f ++ payload ++ rest)
  = Ok (v, rest).
Proof.
  intros Hf Ha Hi Fit Enc Val.
  assert (Hc : form_code f <> DW_FORM_indirect) by (intros C; apply form_code_indirect in C; congruence).
  assert (Direct : forall fuel spec, at_name spec = name -> at_implicit spec = implicit ->
            (f = F_implicit_const -> at_form spec = DW_FORM_implicit_const) ->
            parse_form fuel dbg e spec (form_code f) (payload ++ rest) = Ok (v, rest)).
  { intros fuel spec Hn Him Hic.
    rewrite parse_form_direct by assumption. rewrite parse_direct_known by assumption.
    unfold decode_by_layout.
    assert (G : form_guard e spec f = None).
    { unfold addr_size_ok in Ha. destruct f; cbn [form_guard]; try reflexivity.
      - rewrite Ha. reflexivity.
      - rewrite Ha. cbn [negb]. rewrite andb_false_r. reflexivity.
      - rewrite Hic by reflexivity. reflexivity. }
    rewrite G, (read_layout_enc _ _ _ _ _ _ Fit Enc). cbn [bind]. rewrite Hn, Him, Val. reflexivity. }
  unfold parse_attribute. cbn [at_form].
  destruct depth as [|depth].
  - cbn [spec_form enc_hops app]. apply Direct; try reflexivity. intros ->. reflexivity.
  - change (spec_form (S depth) f) with DW_FORM_indirect.
    rewrite parse_form_hops.
    + apply Direct; try reflexivity. intros E. specialize (Hi E). discriminate.
    + pose proof (enc_hops_length (S depth) f). rewrite app_length. lia.
    + discriminate.
Qed.

(* ------------------------------------------------------------------ *)
(** * Theorem 5: sign rules of udata_value / sdata_value *)

Lemma to_signed_twos bits n : 0 < bits -> n < 2 ^ bits -> to_signed bits n = twos bits n.
Proof.
  intros Hb H. unfold to_signed, twos, wrapN. rewrite N.mod_small by assumption. reflexivity.
Qed.

Lemma of_i64_nonneg z : (0 <= z < 18446744073709551616)%Z -> of_i64 z = Z.to_N z.
Proof.
  intros H. unfold of_i64, of_signed. change (Z.of_N (2 ^ 64)) with 18446744073709551616%Z.
  rewrite Z.mod_small by lia. reflexivity.
Qed.

Lemma udata_value_spec v : value_in_range v -> udata_value v = unsigned_reading v.
Proof.
  destruct v; cbn [value_in_range udata_value unsigned_reading]; intros H; try reflexivity.
  destruct (Z.ltb_spec z 0); destruct (Z.leb_spec 0 z); try lia; try reflexivity.
  rewrite of_i64_nonneg by lia. reflexivity.
Qed.

Lemma sdata_value_spec v : value_in_range v -> sdata_value v = signed_reading v.
Proof.
  destruct v; cbn [value_in_range sdata_value signed_reading]; intros H; try reflexivity.
  - unfold to_i8. rewrite to_signed_twos by (try reflexivity; exact H). reflexivity.
  - unfold to_i16. rewrite to_signed_twos by (try reflexivity; exact H). reflexivity.
  - unfold to_i32. rewrite to_signed_twos by (try reflexivity; exact H). reflexivity.
  - unfold to_i64. rewrite to_signed_twos by (try reflexivity; exact H). reflexivity.
  - unfold two63, two64 in *.
    destruct (N.ltb_spec (9223372036854775808 - 1) n); destruct (N.ltb_spec n 9223372036854775808); try lia;
      try reflexivity.
    unfold to_i64. rewrite to_signed_twos by (try reflexivity; exact H). unfold twos.
    change (2 ^ (64 - 1)) with 9223372036854775808.
    destruct (N.ltb_spec n 9223372036854775808); [reflexivity|lia].
Qed.

(* whenever both readings exist and the signed one is not negative they are the same number *)
Lemma udata_sdata_agree v u s : value_in_range v ->
  udata_value v = Some u -> sdata_value v = Some s -> (0 <= s)%Z -> Z.of_N u = s.
Proof.
  intros R. rewrite udata_value_spec, sdata_value_spec by assumption.
  destruct v; cbn [value_in_range unsigned_reading signed_reading] in *; intros U S P;
    try discriminate; inversion U; subst; clear U.
  1-4: unfold twos in S;
       match type of S with context [if ?c then _ else _] => destruct c eqn:C end;
       inversion S; subst; try reflexivity;
       change (2 ^ 8) with 256 in *; change (2 ^ 16) with 65536 in *;
       change (2 ^ 32) with 4294967296 in *; change (2 ^ 64) with 18446744073709551616 in *;
       unfold two16, two32, two64 in *; lia.
  - destruct (Z.leb_spec 0 z); inversion H0; inversion S; subst. lia.
  - match type of S with context [if ?c then _ else _] => destruct c end; inversion S; subst. reflexivity.
Qed.

(* ------------------------------------------------------------------ *)
(** * Theorem 4: normalisation never changes the payload *)

Lemma udata_value_payload v n : value_in_range v -> udata_value v = Some n ->
  payload_of v = PInt (Z.of_N n) /\ n < two64.
Proof.
  intros R. rewrite udata_value_spec by assumption.
  destruct v; cbn [value_in_range unsigned_reading payload_of] in *; intros H; try discriminate;
    try (inversion H; subst; split; [reflexivity|unfold two16, two32, two64 in *; lia]).
  destruct (Z.leb_spec 0 z); inversion H; subst. split; [f_equal|unfold two64]; lia.
Qed.

Lemma apply_conv_payload c v r : value_in_range v -> apply_conv c v = Some r ->
  payload_of r = payload_of v /\ value_in_range r.
Proof.
  intros R. destruct c as [t| |t| |t]; cbn [apply_conv]; unfold option_map, u8_value, u16_value.
  - destruct (udata_value v) as [n|] eqn:U; [|discriminate].
    destruct (udata_value_payload v n R U) as [P B].
    destruct (N.ltb_spec n 256); [|discriminate]. intros E; inversion E; subst.
    rewrite P. destruct t; cbn; auto.
  - destruct (udata_value v) as [n|] eqn:U; [|discriminate].
    destruct (udata_value_payload v n R U) as [P B].
    destruct (N.ltb_spec n two16); [|discriminate]. intros E; inversion E; subst.
    rewrite P. cbn; auto.
  - destruct (udata_value v) as [n|] eqn:U; [|discriminate].
    destruct (udata_value_payload v n R U) as [P B].
    intros E; inversion E; subst. rewrite P. destruct t; cbn; auto.
  - destruct v; cbn [exprloc_value]; intros E; inversion E; subst; cbn; auto.
  - destruct v; cbn [offset_value]; intros E; inversion E; subst.
    cbn [value_in_range] in R. destruct t; cbn; auto.
Qed.

Lemma apply_convs_payload : forall cs v, value_in_range v ->
  payload_of (apply_convs cs v) = payload_of v /\ value_in_range (apply_convs cs v).
Proof.
  induction cs as [|c t IH]; intros v R; cbn [apply_convs]; [auto|].
  destruct (apply_conv c v) as [r|] eqn:A; [|apply IH; assumption].
  eapply apply_conv_payload; eauto.
Qed.

Lemma normalise_payload name v : value_in_range v ->
  payload_of (attr_normalise name v) = payload_of v /\ value_in_range (attr_normalise name v).
Proof. intros R. apply apply_convs_payload. assumption. Qed.

(* parsing produces values in range, so the hypothesis of normalise_payload is met by everything
   the reader returns on inputs shorter than 2^64 bytes *)


Lemma lor_lt a b k : a < 2 ^ k -> b < 2 ^ k -> N.lor a b < 2 ^ k.
Proof.
  intros Ha Hb.
  destruct (N.eq_dec (N.lor a b) 0) as [E|NZ]; [rewrite E; apply pow2_pos|].
  apply N.log2_lt_pow2; [lia|]. rewrite N.log2_lor.
  assert (K : 0 < k).
  { destruct (N.eq_dec k 0) as [->|]; [|lia]. change (2 ^ 0) with 1 in *.
    assert (a = 0) by lia. assert (b = 0) by lia. subst. exfalso. apply NZ. reflexivity. }
  apply N.max_lub_lt.
  - destruct (N.eq_dec a 0) as [->|]; [exact K|]. apply N.log2_lt_pow2; [lia|assumption].
  - destruct (N.eq_dec b 0) as [->|]; [exact K|]. apply N.log2_lt_pow2; [lia|assumption].
Qed.

Lemma shl64_lt dbg x s v : shl64 dbg x s = Ok v -> v < two64.
Proof.
  unfold shl64. destruct (64 <=? s); [destruct dbg; [discriminate|]|];
    intros H; inversion H; apply wrap64_lt.
Qed.

Lemma uleb_loop_lt : forall bs dbg result shift v r,
  result < two64 -> uleb_loop dbg result shift bs = Ok (v, r) -> v < two64.
Proof.
  induction bs as [|b t IH]; intros dbg result shift v r Rb H; cbn in H; [discriminate|].
  destruct ((shift =? 63) && negb (b2n b =? 0) && negb (b2n b =? 1)); [discriminate|].
  destruct (shl64 dbg (low7 (b2n b)) shift) as [sh| | |] eqn:S; cbn [bind] in H; try discriminate.
  apply shl64_lt in S.
  assert (N.lor result sh < two64) by (apply (lor_lt _ _ 64); assumption).
  destruct (has_cont (b2n b)); [eapply IH; eauto|]. inversion H; subst. assumption.
Qed.

Lemma read_uleb128_lt dbg bs v r : read_uleb128 dbg bs = Ok (v, r) -> v < two64.
Proof.
  destruct bs as [|b t]; cbn; [discriminate|].
  pose proof (b2n_lt b). pose proof (low7_lt (b2n b)).
  destruct (has_cont (b2n b)).
  - apply uleb_loop_lt. unfold two64. lia.
  - intros E; inversion E; subst. unfold two64. lia.
Qed.

Lemma to_i64_range x : (-9223372036854775808 <= to_i64 x < 9223372036854775808)%Z.
Proof.
  unfold to_i64, to_signed, wrapN. change (2 ^ (64 - 1)) with 9223372036854775808.
  change (2 ^ 64) with 18446744073709551616.
  pose proof (N.mod_lt x 18446744073709551616 ltac:(discriminate)).
  destruct (N.ltb_spec (x mod 18446744073709551616) 9223372036854775808); lia.
Qed.

Lemma sleb_loop_range : forall bs dbg result shift v r,
  sleb_loop dbg result shift bs = Ok (v, r) -> (-9223372036854775808 <= v < 9223372036854775808)%Z.
Proof.
  induction bs as [|b t IH]; intros dbg result shift v r H; cbn in H; [discriminate|].
  destruct ((shift =? 63) && negb (b2n b =? 0) && negb (b2n b =? 127)); [discriminate|].
  destruct (shl64 dbg (low7 (b2n b)) shift) as [sh| | |]; cbn [bind] in H; try discriminate.
  destruct (has_cont (b2n b)); [eapply IH; eauto|].
  destruct ((shift + 7 <? 64) && (N.land (b2n b) 64 =? 64)).
  - destruct (shl64 dbg (two64 - 1) (shift + 7)); cbn [bind] in H; inversion H; subst. apply to_i64_range.
  - inversion H; subst. apply to_i64_range.
Qed.

Lemma le_val_lt : forall l, le_val l < 256 ^ N.of_nat (length l).
Proof.
  induction l as [|b t IH]; [cbn; lia|].
  cbn [le_val length]. replace (N.of_nat (S (length t))) with (N.succ (N.of_nat (length t))) by lia.
  rewrite N.pow_succ_r'. pose proof (b2n_lt b). lia.
Qed.

Lemma read_un_lt n bigend bs v r : read_un n bigend bs = Ok (v, r) -> v < 256 ^ N.of_nat n.
Proof.
  intros H. apply read_un_spec in H. destruct H as (h & _ & L & ->). subst n.
  destruct bigend; [|apply le_val_lt].
  unfold be_val. rewrite <- (rev_length h). apply le_val_lt.
Qed.

Definition raw_in_range (l : layout) (d : raw) : Prop :=
  match l, d with
  | LFixed n, RNum v => v < 256 ^ n
  | LUleb, RNum v => v < two64
  | LSleb, RInt z => (-9223372036854775808 <= z < 9223372036854775808)%Z
  | _, _ => True
  end.

Lemma read_layout_range dbg bigend l bs d r : read_layout dbg bigend l bs = Ok (d, r) -> raw_in_range l d.
Proof.
  destruct l as [n| | |p| | |]; cbn [read_layout]; intros H.
  - destruct (read_un (N.to_nat n) bigend bs) as [[v t]| | |] eqn:R; cbn [bind] in H; inversion H; subst.
    apply read_un_lt in R. rewrite N2Nat.id in R. exact R.
  - destruct (read_uleb128 dbg bs) as [[v t]| | |] eqn:R; cbn [bind] in H; inversion H; subst.
    apply read_uleb128_lt in R. exact R.
  - destruct (read_sleb128 dbg bs) as [[v t]| | |] eqn:R; cbn [bind] in H; inversion H; subst.
    apply sleb_loop_range in R. exact R.
  - destruct (read_block (read_prefix dbg bigend p bs)) as [[v t]| | |]; cbn [bind] in H; inversion H; exact I.
  - destruct (read_cstr bs) as [[v t]| | |]; cbn [bind] in H; inversion H; exact I.
  - inversion H; exact I.
  - discriminate.
Qed.

Lemma valid_size_pow n : valid_size n = true -> 256 ^ n <= two64.
Proof.
  unfold valid_size. intros H.
  destruct (N.eqb_spec n 1); [subst; vm_compute; discriminate|].
  destruct (N.eqb_spec n 2); [subst; vm_compute; discriminate|].
  destruct (N.eqb_spec n 4); [subst; vm_compute; discriminate|].
  destruct (N.eqb_spec n 8); [subst; vm_compute; discriminate|]. discriminate.
Qed.

Lemma form_value_range e spec f d v :
  form_guard e spec f = None -> raw_in_range (form_layout f e) d ->
  (-9223372036854775808 <= at_implicit spec < 9223372036854775808)%Z ->
  form_value e (at_name spec) (at_implicit spec) f d = Some v -> value_in_range v.
Proof.
  intros G R I V.
  destruct e as [ver f64 asz bigend].
  destruct f; destruct d as [n|z|b|]; cbn [form_value form_layout raw_in_range form_guard
      version fmt64 address_size be word_bytes] in *; try discriminate;
    inversion V; subst; clear V; cbn [value_in_range]; try exact I; try assumption;
    try (change (256 ^ 1) with 256 in R; change (256 ^ 2) with 65536 in R;
         change (256 ^ 3) with 16777216 in R; change (256 ^ 4) with 4294967296 in R;
         change (256 ^ 8) with 18446744073709551616 in R;
         unfold two16, two32, two64 in *; lia).
  - (* addr *) destruct (valid_size asz) eqn:Va; [|discriminate]. apply valid_size_pow in Va. lia.
  - (* data4 *) change (256 ^ 4) with 4294967296 in R.
    destruct (negb f64 && legacy_section_offset (at_name spec) ver); cbn; unfold two32, two64; lia.
  - (* data8 *) change (256 ^ 8) with two64 in R.
    destruct (f64 && legacy_section_offset (at_name spec) ver); cbn; assumption.
  - (* strp *) destruct f64; unfold word_bytes in R; cbn [fmt64] in R; cbv iota in R; [change (256 ^ 8) with two64 in R|change (256 ^ 4) with 4294967296 in R; unfold two64]; lia.
  - (* ref_addr *)
    destruct (ver =? 2); cbn [andb negb] in G.
    + destruct (valid_size asz) eqn:Va; [|discriminate]. apply valid_size_pow in Va. lia.
    + destruct f64; unfold word_bytes in R; cbn [fmt64] in R; cbv iota in R; [change (256 ^ 8) with two64 in R|change (256 ^ 4) with 4294967296 in R; unfold two64]; lia.
  - destruct f64; unfold word_bytes in R; cbn [fmt64] in R; cbv iota in R; [change (256 ^ 8) with two64 in R|change (256 ^ 4) with 4294967296 in R; unfold two64]; lia.
  - destruct f64; unfold word_bytes in R; cbn [fmt64] in R; cbv iota in R; [change (256 ^ 8) with two64 in R|change (256 ^ 4) with 4294967296 in R; unfold two64]; lia.
  - destruct f64; unfold word_bytes in R; cbn [fmt64] in R; cbv iota in R; [change (256 ^ 8) with two64 in R|change (256 ^ 4) with 4294967296 in R; unfold two64]; lia.
  - destruct f64; unfold word_bytes in R; cbn [fmt64] in R; cbv iota in R; [change (256 ^ 8) with two64 in R|change (256 ^ 4) with 4294967296 in R; unfold two64]; lia.
  - destruct f64; unfold word_bytes in R; cbn [fmt64] in R; cbv iota in R; [change (256 ^ 8) with two64 in R|change (256 ^ 4) with 4294967296 in R; unfold two64]; lia.
Qed.

Lemma parse_attribute_in_range dbg e spec bs v r :
  (-9223372036854775808 <= at_implicit spec < 9223372036854775808)%Z ->
  parse_attribute dbg e spec bs = Ok (v, r) -> value_in_range v.
Proof.
  intros I. unfold parse_attribute. generalize (S (length bs)) as fuel. generalize (at_form spec) as c.
  intros c fuel. revert c bs.
  induction fuel as [|fuel IH]; intros c bs P.
  - destruct (N.eq_dec c DW_FORM_indirect) as [->|Hc]; [discriminate P|].
    rewrite parse_form_direct in P by assumption.
    destruct (form_of_code c) as [f|] eqn:E; [|rewrite parse_direct_unknown in P by assumption; discriminate].
    apply form_of_code_some in E. subst c.
    rewrite parse_direct_known in P by (intros ->; apply Hc; reflexivity).
    apply decode_by_layout_ok in P. destruct P as (G & d & R & V).
    apply read_layout_range in R. eapply form_value_range; eauto.
  - destruct (N.eq_dec c DW_FORM_indirect) as [->|Hc].
    + rewrite parse_form_indirect in P.
      destruct (read_uleb128_u16 bs) as [[c' p1]| | |] eqn:R; cbn [bind] in P; try discriminate.
      eapply IH; eauto.
    + apply (IH c bs). rewrite parse_form_direct in * by assumption. assumption.
Qed.

(* ------------------------------------------------------------------ *)
(** * Fuel-free characterisation of parse_attribute (for users of the model) *)

Lemma parse_attribute_direct dbg e spec bs : at_form spec <> DW_FORM_indirect ->
  parse_attribute dbg e spec bs =
  match form_of_code (at_form spec) with
  | Some f => decode_by_layout dbg e spec f bs
  | None => Err EUnknownForm
  end.
Proof.
  intros H. unfold parse_attribute. rewrite parse_form_direct by assumption.
  destruct (form_of_code (at_form spec)) as [f|] eqn:E.
  - apply form_of_code_some in E. rewrite E in *.
    apply parse_direct_known. intros ->. apply H. reflexivity.
  - apply parse_direct_unknown. assumption.
Qed.

(* parse_form looks at the specification only through its name and implicit constant *)
Lemma parse_form_spec_irrelevant : forall fuel dbg e s1 s2 c bs,
  at_name s1 = at_name s2 -> implicit_const_value s1 = implicit_const_value s2 ->
  parse_form fuel dbg e s1 c bs = parse_form fuel dbg e s2 c bs.
Proof.
  induction fuel as [|fuel IH]; intros dbg e s1 s2 c bs Hn Hi; cbn [parse_form].
  - destruct (c =? DW_FORM_indirect); [reflexivity|]. unfold parse_direct. rewrite Hn, Hi. reflexivity.
  - destruct (c =? DW_FORM_indirect).
    + destruct (read_uleb128_u16 bs) as [[c' r']| | |]; cbn [bind]; try reflexivity. apply IH; assumption.
    + unfold parse_direct. rewrite Hn, Hi. reflexivity.
Qed.

(* one DW_FORM_indirect hop: the dynamic form replaces the form of the specification
   (name and implicit constant stay; DW_FORM_implicit_const cannot be reached this way) *)
Lemma parse_attribute_indirect dbg e spec bs : at_form spec = DW_FORM_indirect ->
  parse_attribute dbg e spec bs =
  let* (c, r) := read_uleb128_u16 bs in
  if c =? DW_FORM_implicit_const then Err EInvalidImplicitConst
  else parse_attribute dbg e (mkSpec (at_name spec) c (at_implicit spec)) r.
Proof.
  intros H. unfold parse_attribute. rewrite H, parse_form_indirect.
  destruct (read_uleb128_u16 bs) as [[c r]| | |] eqn:R; cbn [bind]; try reflexivity.
  apply read_u16leb_shrinks in R. cbn [at_form].
  rewrite (parse_form_fuel (length bs) (S (length r))) by lia.
  destruct (N.eqb_spec c DW_FORM_implicit_const) as [->|Hc].
  - rewrite parse_form_direct by discriminate.
    unfold parse_direct, implicit_const_value. rewrite H. reflexivity.
  - apply parse_form_spec_irrelevant; [reflexivity|].
    unfold implicit_const_value. cbn [at_form]. rewrite H.
    apply N.eqb_neq in Hc. rewrite Hc. reflexivity.
Qed.

Lemma skip_var_unknown dbg e c bs : form_of_code c = None -> skip_var dbg e c bs = Err EUnknownForm.
Proof. intros Hn. unfold skip_var. kill_eqbs Hn c. reflexivity. Qed.

Lemma unknown_form_rejected dbg e spec bs : form_of_code (at_form spec) = None ->
  parse_attribute dbg e spec bs = Err EUnknownForm /\
  skip_attributes dbg e [spec] bs = Err EUnknownForm.
Proof.
  intros Hn.
  assert (Hi : at_form spec <> DW_FORM_indirect) by (intros E; rewrite E in Hn; discriminate Hn).
  split.
  - rewrite parse_attribute_direct by assumption. rewrite Hn. reflexivity.
  - unfold skip_attributes. cbn [skip_specs skip_form].
    rewrite get_attribute_size_unknown by assumption. cbn [N.eqb bind].
    apply N.eqb_neq in Hi. rewrite Hi. rewrite skip_var_unknown by assumption. reflexivity.
Qed.

(* ------------------------------------------------------------------ *)
(** * The line-table variant of parse_attribute (src/read/line.rs) *)

(* forms on which the line-table reader and the DIE reader agree *)
Definition line_forms : list form :=
  [F_block1; F_block2; F_block4; F_block; F_data1; F_data2; F_data4; F_data8; F_udata; F_sdata; F_flag;
   F_sec_offset; F_string; F_strp; F_strp_sup; F_GNU_strp_alt; F_line_strp; F_strx; F_GNU_str_index;
   F_strx1; F_strx2; F_strx3; F_strx4].
Definition line_codes : list N := map form_code (F_data16 :: line_forms).

(* same value and same rest as the DIE reader gives an attribute without a name *)
Lemma line_parse_is_die_parse dbg e f bs : In f line_forms ->
  line_parse_attribute dbg e (form_code f) bs = parse_attribute dbg e (mkSpec 0 (form_code f) 0) bs.
Proof.
  intros H. unfold parse_attribute. cbn [at_form].
  rewrite parse_form_direct by (intros C; apply form_code_indirect in C; subst f; cbn in H; intuition discriminate).
  unfold line_forms in H. cbn [In] in H.
  repeat (destruct H as [<-|H]; [try reflexivity|]); try contradiction.
  - unfold line_parse_attribute, parse_direct. cbn [form_code N.eqb Pos.eqb orb at_name].
    unfold_forms. cbn [N.eqb Pos.eqb orb].
    replace (allow_section_offset 0 (version e)) with false by reflexivity.
    rewrite andb_false_r. reflexivity.
  - unfold line_parse_attribute, parse_direct. cbn [form_code N.eqb Pos.eqb orb at_name].
    unfold_forms. cbn [N.eqb Pos.eqb orb].
    replace (allow_section_offset 0 (version e)) with false by reflexivity.
    rewrite andb_false_r. reflexivity.
Qed.

(* DW_FORM_data16 is handed out as the 16 bytes themselves *)
Lemma line_parse_data16 dbg e bs :
  line_parse_attribute dbg e (form_code F_data16) bs = let* (b, r) := split_n 16 bs in Ok (VBlock b, r).
Proof. reflexivity. Qed.

Lemma line_parse_other dbg e c bs : existsb (N.eqb c) line_codes = false ->
  line_parse_attribute dbg e c bs = Err EUnknownForm.
Proof.
  intros H. unfold line_codes, line_forms in H. cbn [map form_code existsb] in H.
  unfold line_parse_attribute. unfold_forms.
  repeat (apply orb_false_iff in H; let H1 := fresh in destruct H as [H1 H]; rewrite ?H1).
  reflexivity.
Qed.

Lemma line_parse_res dbg e c bs :
  line_parse_attribute dbg e c bs <> Panic /\ line_parse_attribute dbg e c bs <> OutOfFuel.
Proof.
  destruct (existsb (N.eqb c) line_codes) eqn:E.
  - apply existsb_exists in E. destruct E as (k & Hin & Hk). apply N.eqb_eq in Hk. subst k.
    unfold line_codes in Hin. apply in_map_iff in Hin. destruct Hin as (f & <- & Hf).
    destruct Hf as [<-|Hf].
    + rewrite line_parse_data16. destruct (split_n_res bs 16) as [H1 H2].
      destruct (split_n 16 bs) as [[? ?]| | |]; cbn [bind]; split; congruence.
    + rewrite line_parse_is_die_parse by assumption. apply parse_attribute_res.
  - rewrite line_parse_other by assumption. split; discriminate.
Qed.

(* ------------------------------------------------------------------ *)
(** * Packaged statements for Properties/C03.v *)

Lemma udata_sdata v : value_in_range v ->
  udata_value v = unsigned_reading v /\ sdata_value v = signed_reading v.
Proof. intros H; split; [apply udata_value_spec|apply sdata_value_spec]; assumption. Qed.

Lemma no_panic dbg e spec specs bs :
  (parse_attribute dbg e spec bs <> Panic /\ parse_attribute dbg e spec bs <> OutOfFuel) /\
  (read_attributes dbg e specs bs <> Panic /\ read_attributes dbg e specs bs <> OutOfFuel) /\
  (skip_attributes dbg e specs bs <> Panic /\ skip_attributes dbg e specs bs <> OutOfFuel).
Proof.
  split; [apply parse_attribute_res|]. split; [apply read_attributes_res|apply skip_attributes_res].
Qed.

Lemma build_mode_irrelevant dbg e spec specs bs :
  parse_attribute dbg e spec bs = parse_attribute false e spec bs /\
  skip_attributes dbg e specs bs = skip_attributes false e specs bs.
Proof. split; [apply parse_attribute_dbg|apply skip_attributes_dbg]. Qed.
