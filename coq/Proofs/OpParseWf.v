(* Proofs/OpParseWf.v — whatever the reader model decodes is a value of gimli's Operation type in the sense of
   StackSpec.wf_op (field widths, register < 2^16, piece size a whole number of bytes, ...): every opcode. *)
From Coq Require Import List NArith ZArith Bool Lia ZifyBool ZifyN ZifyNat.
From Coq.Strings Require Import Byte.
Require Import GV.Base.Res GV.Base.Byt GV.Base.Ints GV.Spec.LebSpec GV.Model.Leb GV.Model.Prim GV.Proofs.LebProofs.
Require Import GV.Model.OpDec GV.Model.OpVal GV.Model.OpEval GV.Spec.StackSpec GV.Proofs.OpDecProofs GV.Proofs.OpEvalProofs.
Import ListNotations.
Local Open Scope N_scope.

Lemma take_len : forall n bs h t, take n bs = Some (h, t) -> length h = n.
Proof.
  induction n as [|n IH]; intros bs h t H; cbn [take] in H.
  - inversion H; reflexivity.
  - destruct bs as [|b r]; [discriminate|]. destruct (take n r) as [[h' t']|] eqn:E; [|discriminate].
    inversion H; subst. cbn [length]. f_equal. eapply IH; eauto.
Qed.
Lemma le_val_lt256 : forall bs, le_val bs < 256 ^ N.of_nat (length bs).
Proof.
  induction bs as [|b r IH]; cbn [le_val length].
  - change (256 ^ N.of_nat 0) with 1. lia.
  - replace (N.of_nat (S (length r))) with (1 + N.of_nat (length r)) by lia. rewrite N.pow_add_r.
    change (256 ^ 1) with 256. pose proof (b2n_lt b). lia.
Qed.

Lemma R_un n be bs v r : read_un n be bs = Ok (v, r) -> v < 256 ^ N.of_nat n.
Proof.
  unfold read_un, read_bytes. destruct (take n bs) as [[h t]|] eqn:E; [|discriminate]. cbn [bind].
  intros H; inversion H; subst. rewrite <- (take_len _ _ _ _ E). unfold be_val.
  destruct be; [rewrite <- rev_length|]; apply le_val_lt256.
Qed.

Lemma to_signed_range bits v : (bits = 8 \/ bits = 16 \/ bits = 32 \/ bits = 64) -> v < 2 ^ bits ->
  in_signed bits (to_signed bits v) = true.
Proof.
  intros Hb Hv. unfold in_signed, to_signed, wrapN.
  destruct Hb as [->|[->|[->| ->]]];
    match goal with |- context [?a - 1] => let x := eval vm_compute in (a - 1) in change (a - 1) with x end;
    repeat match goal with |- context [2 ^ ?k] => let x := eval vm_compute in (2 ^ k) in change (2 ^ k) with x end;
    match type of Hv with _ < ?p => let x := eval vm_compute in p in change p with x in Hv end;
    rewrite N.mod_small by lia;
    match goal with |- context [if ?c then _ else _] => destruct c eqn:? end; lia.
Qed.

Lemma R_in n be bs z r : (n = 1 \/ n = 2 \/ n = 4 \/ n = 8)%nat -> read_in n be bs = Ok (z, r) ->
  in_signed (8 * N.of_nat n) z = true.
Proof.
  intros Hn. unfold read_in. destruct (read_un n be bs) as [[v t]|e| |] eqn:E; cbn [bind]; try discriminate.
  intros H; inversion H; subst. apply R_un in E.
  destruct Hn as [->|[->|[->| ->]]].
  - change (8 * N.of_nat 1) with 8. apply to_signed_range; [tauto|exact E].
  - change (8 * N.of_nat 2) with 16. apply to_signed_range; [tauto|exact E].
  - change (8 * N.of_nat 4) with 32. apply to_signed_range; [tauto|exact E].
  - change (8 * N.of_nat 8) with 64. apply to_signed_range; [tauto|exact E].
Qed.

Lemma R_uleb dbg bs v r : read_uleb128 dbg bs = Ok (v, r) -> v < 2 ^ 64.
Proof.
  rewrite read_uleb128_exact. unfold uleb_spec. destruct (split_leb bs) as [[e rest]|].
  - destruct ((length e <=? 10)%nat && (uval e <? 2 ^ 64)) eqn:E; [|discriminate]. intros H; inversion H; subst. lia.
  - destruct (10 <=? length bs)%nat; discriminate.
Qed.
Lemma R_sleb dbg bs z r : read_sleb128 dbg bs = Ok (z, r) -> in_i64 z = true.
Proof.
  rewrite read_sleb128_exact. unfold sleb_spec. destruct (split_leb bs) as [[e rest]|].
  - destruct ((length e <=? 10)%nat && in_i64 (sval e)) eqn:E; [|discriminate]. intros H; inversion H; subst.
    apply andb_true_iff in E. tauto.
  - destruct (10 <=? length bs)%nat; discriminate.
Qed.
Lemma R_reg dbg bs v r : read_register dbg bs = Ok (v, r) -> v < 65536.
Proof.
  unfold read_register, register_from_u64. destruct (read_uleb128 dbg bs) as [[x t]|e| |]; cbn [bind]; try discriminate.
  destruct (x <? two16) eqn:E; cbn [bind]; [|discriminate]. intros H; inversion H; subst. unfold two16 in E. lia.
Qed.
Lemma R_u32 dbg bs v r : read_uleb128_u32 dbg bs = Ok (v, r) -> v < 2 ^ 32.
Proof.
  unfold read_uleb128_u32. destruct (read_uleb128 dbg bs) as [[x t]|e| |]; cbn [bind]; try discriminate.
  destruct (x <? two32) eqn:E; [|discriminate]. intros H; inversion H; subst. unfold two32 in E.
  change (2 ^ 32) with 4294967296. lia.
Qed.
Lemma R_addr sz be bs v r : read_address sz be bs = Ok (v, r) ->
  (sz = 1 \/ sz = 2 \/ sz = 4 \/ sz = 8) /\ v < 256 ^ sz.
Proof.
  unfold read_address.
  destruct (sz =? 1) eqn:E1; [intros H; apply R_un in H; assert (sz = 1) by lia; subst; split; [tauto|exact H]|].
  destruct (sz =? 2) eqn:E2; [intros H; apply R_un in H; assert (sz = 2) by lia; subst; split; [tauto|exact H]|].
  destruct (sz =? 4) eqn:E4; [intros H; apply R_un in H; assert (sz = 4) by lia; subst; split; [tauto|exact H]|].
  destruct (sz =? 8) eqn:E8; [intros H; apply R_un in H; assert (sz = 8) by lia; subst; split; [tauto|exact H]|discriminate].
Qed.
Lemma R_off e bs v r : read_offset e bs = Ok (v, r) -> fits_off e v.
Proof.
  unfold read_offset, read_word, fits_off. destruct (e_fmt64 e); intros H; apply R_un in H; exact H.
Qed.
Lemma R_split len bs d r : split_n len bs = Ok (d, r) -> N.of_nat (length d) = len.
Proof.
  unfold split_n. destruct (N.of_nat (length bs) <? len) eqn:E; [discriminate|]. intros H; inversion H; subst.
  rewrite firstn_length. lia.
Qed.
Lemma R_u8 bs v r : read_u8 bs = Ok (v, r) -> v < 256.
Proof. destruct bs as [|b t]; cbn [read_u8]; [discriminate|]. intros H; inversion H; subst. apply b2n_lt. Qed.

Lemma in_signed_i64 k z : (k = 8 \/ k = 16 \/ k = 32) -> in_signed k z = true -> in_i64 z = true.
Proof.
  unfold in_signed, in_i64. intros [->|[->| ->]];
    match goal with |- context [Z.of_N ?p] => let x := eval vm_compute in (Z.of_N p) in change (Z.of_N p) with x end; lia.
Qed.

Ltac ranges :=
  repeat match goal with
  | H : read_u _ _ _ = Ok _ |- _ => unfold read_u in H
  | H : read_i _ _ _ = Ok _ |- _ => unfold read_i in H
  | H : read_un _ _ _ = Ok _ |- _ => apply R_un in H
  | H : read_in ?n _ _ = Ok _ |- _ => apply (R_in n) in H; [|lia]
  | H : read_uleb128 _ _ = Ok _ |- _ => apply R_uleb in H
  | H : read_sleb128 _ _ = Ok _ |- _ => apply R_sleb in H
  | H : read_register _ _ = Ok _ |- _ => apply R_reg in H
  | H : read_uleb128_u32 _ _ = Ok _ |- _ => apply R_u32 in H
  | H : read_address _ _ _ = Ok _ |- _ => apply R_addr in H
  | H : read_offset _ _ = Ok _ |- _ => apply R_off in H
  | H : split_n _ _ = Ok _ |- _ => apply R_split in H
  | H : read_u8 _ = Ok _ |- _ => apply R_u8 in H
  end.

Theorem parse_wf dbg e bs o r : e_asz e < 256 -> parse_op dbg e bs = Ok (o, r) -> wf_op e o.
Proof.
  intros Ha H. destruct bs as [|opc t]; [discriminate|]. cbn [parse_op] in H.
  destruct opc; cbn [parse_opcode] in H; try discriminate H; unfold parse_wasm in H.
  all: peel.
  all: repeat match goal with H : (if ?c then _ else _) = Ok _ |- _ => destruct c eqn:? end.
  all: ranges.
  all: cbn [wf_op]; unfold u64, fits_addr in *.
  all: repeat match goal with |- context [b2n ?b - ?k] => let v := eval vm_compute in (b2n b - k) in change (b2n b - k) with v end.
  all: change (N.of_nat 1) with 1 in *; change (N.of_nat 2) with 2 in *; change (N.of_nat 4) with 4 in *; change (N.of_nat 8) with 8 in *.
  all: change (8 * 1) with 8 in *; change (8 * 2) with 16 in *; change (8 * 4) with 32 in *; change (8 * 8) with 64 in *.
  all: try match goal with |- context [e_ver ?x =? 2] => destruct (e_ver x =? 2) end.
  all: try tauto.
  all: try (repeat split; try assumption; try reflexivity; try tauto; try (intros X; exfalso; apply X; reflexivity);
            try (subst; change (2 ^ 64) with 18446744073709551616 in *; unfold two64 in *; lia)).
  all: eapply in_signed_i64; [|eassumption]; tauto.
Qed.
