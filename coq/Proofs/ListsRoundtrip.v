(* Proofs/ListsRoundtrip.v — C16 x C08: the list WRITER model (Model/ListsWr.v) composed with the list READER
   model (Model/ListsRd.v, property C08).
   For every list the writers accept, the bytes they emit are C08's spec encoding (the ListSpec encoders) of the
   translated entries, those entries are well formed in C08's sense, and the two resolution specs
   (ListWrSpec.resolve, ListSpec.resolve_rng/resolve_loc) agree on them; C08's raw_roundtrip theorems and
   resolve_refines theorems then give what the reader model's raw and resolving iterators yield.
   ListSpec / ListsRd share constructor names with ListWrSpec (LBase, LOffsetPair, amod, …): they are only
   `Require`d here and always written qualified. *)
From Coq Require Import List NArith ZArith Bool Lia ZifyBool ZifyN ZifyNat.
From Coq.Strings Require Import Byte.
Require Import GV.Base.Res GV.Base.Byt GV.Base.Ints GV.Spec.LebSpec GV.Model.Leb GV.Model.Prim
  GV.Proofs.LebProofs GV.Spec.ListWrSpec GV.Model.ListsWr GV.Proofs.ListsWrProofs.
Require GV.Spec.ListSpec GV.Model.ListsRd GV.Proofs.ListsRdProofs.
Import ListNotations.
Local Open Scope N_scope.
Local Arguments N.add : simpl never.
Local Arguments N.sub : simpl never.
Local Arguments N.mul : simpl never.
Local Arguments N.shiftl : simpl never.
Local Arguments N.shiftr : simpl never.
Local Arguments N.land : simpl never.
Local Arguments N.lor : simpl never.
Local Arguments N.pow : simpl never.
Local Arguments N.modulo : simpl never.
Local Arguments N.div : simpl never.
Local Arguments N.of_nat : simpl never.
Local Arguments N.to_nat : simpl never.
Local Ltac Zify.zify_post_hook ::= Z.div_mod_to_equations.

(* ================================================================ translation of entries *)

(* ListWrSpec.ent -> the reader's raw entry (address part) *)
Definition tr_ent (e : ent) : ListSpec.lent :=
  match e with
  | EBase a => ListSpec.LBase a
  | EOffsetPair b e _ => ListSpec.LOffsetPair b e
  | EStartEnd b e _ => ListSpec.LStartEnd b e
  | EStartLength b len _ => ListSpec.LStartLength b len
  | EDefault _ => ListSpec.LDefault
  | EPair b e _ => ListSpec.LPair b e
  end.
Definition ent_data (e : ent) : list byte :=
  match e with
  | EBase _ => []
  | EOffsetPair _ _ d | EStartEnd _ _ d | EStartLength _ _ d | EDefault d | EPair _ _ d => d
  end.
(* ... with its expression bytes (location lists) *)
Definition tr_loc (e : ent) : ListSpec.lloc := (tr_ent e, ent_data e).

(* the reader's view of the unit encoding *)
Definition rd_cfg (be : bool) (asz version : N) : ListSpec.lcfg := ListSpec.Build_lcfg be asz version.

(* ================================================================ ULEB128: the writer emits the spec encoding *)

Lemma rt_lor_cont x : x < 128 -> N.lor x CONT = 128 + x.
Proof.
  intros Hx. unfold CONT. change 128 with (N.shiftl 1 7) at 1.
  rewrite lor_shiftl_add by (change (2 ^ 7) with 128; exact Hx). change (N.shiftl 1 7) with 128. lia.
Qed.

Lemma rt_write_uleb_fuel_enc : forall f v bs, write_uleb_fuel f v = Ok bs ->
  forall g, (f <= g)%nat -> enc_uleb_fuel g v = bs.
Proof.
  induction f as [|f IH]; intros v bs H g Hg; [discriminate|].
  destruct g as [|g]; [lia|]. rewrite lw_wuf_S in H. cbn [enc_uleb_fuel].
  assert (Hm : v mod 128 < 128) by lia.
  destruct (v / 128 =? 0) eqn:E.
  - inversion H; subst. assert (v < 128) by (destruct (N.lt_ge_cases v 128); [assumption|]; assert (1 <= v / 128) by (apply N.div_le_lower_bound; lia); lia).
    destruct (v <? 128) eqn:E2; [|lia]. rewrite N.mod_small by assumption. reflexivity.
  - destruct (write_uleb_fuel f (v / 128)) as [r| | |] eqn:Hr; cbn [bind] in H; try discriminate.
    inversion H; subst.
    assert (128 <= v) by (destruct (N.lt_ge_cases v 128) as [Hl|Hl]; [rewrite (N.div_small _ _ Hl) in E; discriminate|exact Hl]).
    destruct (v <? 128) eqn:E2; [lia|]. rewrite (rt_lor_cont _ Hm). f_equal. apply IH; [exact Hr|lia].
Qed.

Lemma rt_write_uleb_enc v bs : write_uleb128 v = Ok bs -> bs = enc_uleb v.
Proof. intros H. symmetry. unfold enc_uleb. eapply rt_write_uleb_fuel_enc; [exact H|lia]. Qed.

(* ================================================================ DWARF 5: writer bytes = ListSpec encoding *)

Lemma rt_fits_u64 v : v < 2 ^ 64 -> ListSpec.fits_u64 v = true.
Proof. unfold ListSpec.fits_u64, ListSpec.u64_max. change (2 ^ 64) with 18446744073709551616. lia. Qed.

Lemma rt_fits_addr be asz version v : v < amod asz -> ListSpec.fits_addr (rd_cfg be asz version) v = true.
Proof. unfold ListSpec.fits_addr, ListSpec.amod, amod, rd_cfg. cbn [ListSpec.c_asize]. lia. Qed.

Lemma rt_opt_expr5 loc be asz d x :
  opt_expression loc be 5 d = Ok x ->
  x = (if loc then ListSpec.enc_data (rd_cfg be asz 5) d else []).
Proof.
  unfold opt_expression, write_expression. destruct loc; intros H.
  - change (5 <=? 4) with false in H. cbv iota in H. bind_ok H. inversion H; subst.
    unfold ListSpec.enc_data, rd_cfg. cbn [ListSpec.c_version]. change (5 <=? 5) with true. cbv iota.
    rewrite (rt_write_uleb_enc _ _ E). reflexivity.
  - inversion H; reflexivity.
Qed.

Lemma rt_wf_data5 be asz d : N.of_nat (length d) < 2 ^ 64 -> ListSpec.wf_data (rd_cfg be asz 5) d = true.
Proof. intros H. unfold ListSpec.wf_data, rd_cfg. cbn [ListSpec.c_version]. change (5 <=? 5) with true. cbv iota. now apply rt_fits_u64. Qed.

Lemma rt_entry5 loc be asz x b :
  write_entry_v5 loc be 5 asz x = Ok b -> wf loc x ->
  exists e, ent_of x = Some e /\
    b = (if loc then ListSpec.enc_lle (rd_cfg be asz 5) (tr_loc e) else ListSpec.enc_rle (rd_cfg be asz 5) (tr_ent e)) /\
    (if loc then ListSpec.wf_lle (rd_cfg be asz 5) (tr_loc e) else ListSpec.wf_rle (rd_cfg be asz 5) (tr_ent e)) = true.
Proof.
  intros H Hw. pose proof (lw_wf_nodata _ _ Hw) as Hn. destruct Hw as [Hwf [Hd Hr]].
  destruct x as [a|b0 e0 d|b0 e0 d|b0 len d|d]; cbn [write_entry_v5] in H; cbn [wloc_wf data_of] in *.
  - bind_ok H. inversion H; subst.
    destruct (lw_write_address_ok _ _ _ _ E Hwf) as [v [-> [Hs [Hv ->]]]].
    exists (EBase v). split; [reflexivity|].
    pose proof (rt_fits_addr be asz 5 v Hv) as Hf.
    destruct loc; cbn [tr_loc tr_ent ent_data ListSpec.enc_lle ListSpec.enc_rle ListSpec.wf_lle ListSpec.wf_rle ListSpec.has_data];
      (split; [reflexivity|]); rewrite Hf; reflexivity.
  - destruct Hwf as [Hb He]. bind_ok H. bind_ok H. bind_ok H. inversion H; subst.
    exists (EOffsetPair b0 e0 d). split; [reflexivity|].
    rewrite (rt_write_uleb_enc _ _ E), (rt_write_uleb_enc _ _ E0), (rt_opt_expr5 _ _ asz _ _ E1).
    destruct loc; cbn [tr_loc tr_ent ent_data ListSpec.enc_lle ListSpec.enc_rle ListSpec.wf_lle ListSpec.wf_rle ListSpec.has_data].
    + split; [reflexivity|]. rewrite (rt_wf_data5 be asz d Hd), (rt_fits_u64 _ Hb), (rt_fits_u64 _ He). reflexivity.
    + split; [rewrite app_nil_r; reflexivity|]. rewrite (rt_fits_u64 _ Hb), (rt_fits_u64 _ He). reflexivity.
  - destruct Hwf as [Hb He]. bind_ok H. bind_ok H. bind_ok H. inversion H; subst.
    destruct (lw_write_address_ok _ _ _ _ E Hb) as [vb [-> [Hs [Hvb ->]]]].
    destruct (lw_write_address_ok _ _ _ _ E0 He) as [ve [-> [_ [Hve ->]]]].
    exists (EStartEnd vb ve d). split; [reflexivity|].
    rewrite (rt_opt_expr5 _ _ asz _ _ E1).
    pose proof (rt_fits_addr be asz 5 vb Hvb) as Hf1. pose proof (rt_fits_addr be asz 5 ve Hve) as Hf2.
    destruct loc; cbn [tr_loc tr_ent ent_data ListSpec.enc_lle ListSpec.enc_rle ListSpec.wf_lle ListSpec.wf_rle ListSpec.has_data].
    + split; [reflexivity|]. rewrite (rt_wf_data5 be asz d Hd), Hf1, Hf2. reflexivity.
    + split; [rewrite app_nil_r; reflexivity|]. rewrite Hf1, Hf2. reflexivity.
  - destruct Hwf as [Hb Hl]. bind_ok H. bind_ok H. bind_ok H. inversion H; subst.
    destruct (lw_write_address_ok _ _ _ _ E Hb) as [vb [-> [Hs [Hvb ->]]]].
    exists (EStartLength vb len d). split; [reflexivity|].
    rewrite (rt_write_uleb_enc _ _ E0), (rt_opt_expr5 _ _ asz _ _ E1).
    pose proof (rt_fits_addr be asz 5 vb Hvb) as Hf1.
    destruct loc; cbn [tr_loc tr_ent ent_data ListSpec.enc_lle ListSpec.enc_rle ListSpec.wf_lle ListSpec.wf_rle ListSpec.has_data].
    + split; [reflexivity|]. rewrite (rt_wf_data5 be asz d Hd), Hf1, (rt_fits_u64 _ Hl). reflexivity.
    + split; [rewrite app_nil_r; reflexivity|]. rewrite Hf1, (rt_fits_u64 _ Hl). reflexivity.
  - bind_ok H. inversion H; subst. destruct loc.
    + exists (EDefault d). split; [reflexivity|]. rewrite (rt_opt_expr5 _ _ asz _ _ E).
      cbn [tr_loc tr_ent ent_data ListSpec.enc_lle ListSpec.wf_lle ListSpec.has_data].
      split; [reflexivity|]. rewrite (rt_wf_data5 be asz d Hd). reflexivity.
    + destruct (Hr eq_refl) as [r Hx]. destruct r; discriminate Hx.
Qed.

Lemma rt_list5 loc be asz : forall l bs,
  write_list_v5 loc be 5 asz l = Ok bs -> Forall (wf loc) l ->
  exists es, ents_of l = Some es /\
    bs = (if loc then ListSpec.enc_loclist (rd_cfg be asz 5) (map tr_loc es)
          else ListSpec.enc_rnglist (rd_cfg be asz 5) (map tr_ent es)) /\
    (if loc then forallb (ListSpec.wf_lle (rd_cfg be asz 5)) (map tr_loc es)
     else forallb (ListSpec.wf_rle (rd_cfg be asz 5)) (map tr_ent es)) = true.
Proof.
  induction l as [|x r IH]; intros bs H Hwf; cbn [write_list_v5] in H.
  - inversion H; subst. exists []. split; [reflexivity|]. destruct loc; split; reflexivity.
  - bind_ok H. bind_ok H. inversion H; subst. inversion Hwf as [|? ? Hx Hr]; subst.
    destruct (rt_entry5 _ _ _ _ _ E Hx) as [e [He [Hb Hw]]].
    destruct (IH _ eq_refl Hr) as [es [Hes [Hbs Hws]]].
    exists (e :: es). split; [cbn [ents_of]; rewrite He, Hes; reflexivity|].
    destruct loc; cbn [map forallb]; unfold ListSpec.enc_loclist, ListSpec.enc_rnglist in *; cbn [map concat];
      (split; [rewrite <- app_assoc; rewrite Hb, Hbs; reflexivity|rewrite Hw, Hws; reflexivity]).
Qed.

(* ================================================================ DWARF 2-4: writer bytes = ListSpec encoding *)

Lemma rt_pair4 loc be asz version p :
  pair_ok loc asz p -> pair_nomark asz p ->
  enc_pair4 loc be asz p =
    (if loc then ListSpec.enc_locpair (rd_cfg be asz version) (tr_loc p) else ListSpec.enc_pair (rd_cfg be asz version) (tr_ent p)) /\
  (if loc then ListSpec.wf_locpair (rd_cfg be asz version) (tr_loc p) else ListSpec.wf_pair (rd_cfg be asz version) (tr_ent p)) = true.
Proof.
  intros Hok Hnm. destruct p as [a|b e d|b e d|b len d|d|b e d]; cbn [pair_ok] in Hok; try contradiction.
  - pose proof (rt_fits_addr be asz version a Hok) as Hf.
    destruct loc; cbn [enc_pair4 tr_loc tr_ent ent_data ListSpec.enc_locpair ListSpec.enc_pair ListSpec.wf_locpair ListSpec.wf_pair];
      (split; [reflexivity|]); rewrite Hf; reflexivity.
  - destruct Hok as [Hb [He [Hz [Hd Hn]]]]. cbn [pair_nomark] in Hnm.
    pose proof (rt_fits_addr be asz version b Hb) as Hf1. pose proof (rt_fits_addr be asz version e He) as Hf2.
    assert (Hz' : negb ((b =? 0) && (e =? 0)) = true) by lia.
    assert (Hm' : negb (b =? ListSpec.aones (ListSpec.c_asize (rd_cfg be asz version))) = true).
    { unfold ListSpec.aones, ListSpec.amod, rd_cfg. cbn [ListSpec.c_asize]. unfold mask_of in Hnm. lia. }
    destruct loc; cbn [enc_pair4 tr_loc tr_ent ent_data ListSpec.enc_locpair ListSpec.enc_pair ListSpec.wf_locpair ListSpec.wf_pair].
    + split; [reflexivity|]. rewrite Hf1, Hf2, Hz', Hm'. cbn [andb]. lia.
    + split; [rewrite app_nil_r; reflexivity|]. rewrite Hf1, Hf2, Hz', Hm'. reflexivity.
Qed.

Lemma rt_list4 loc be asz version ps :
  Forall (pair_ok loc asz) ps -> Forall (pair_nomark asz) ps ->
  enc_list4 loc be asz ps =
    (if loc then ListSpec.enc_loc (rd_cfg be asz version) (map tr_loc ps)
     else ListSpec.enc_ranges (rd_cfg be asz version) (map tr_ent ps)) /\
  (if loc then forallb (ListSpec.wf_locpair (rd_cfg be asz version)) (map tr_loc ps)
   else forallb (ListSpec.wf_pair (rd_cfg be asz version)) (map tr_ent ps)) = true.
Proof.
  intros Hok Hnm. unfold enc_list4, ListSpec.enc_loc, ListSpec.enc_ranges.
  assert (G : flat_map (enc_pair4 loc be asz) ps =
              (if loc then concat (map (ListSpec.enc_locpair (rd_cfg be asz version)) (map tr_loc ps))
               else concat (map (ListSpec.enc_pair (rd_cfg be asz version)) (map tr_ent ps))) /\
              (if loc then forallb (ListSpec.wf_locpair (rd_cfg be asz version)) (map tr_loc ps)
               else forallb (ListSpec.wf_pair (rd_cfg be asz version)) (map tr_ent ps)) = true).
  { induction ps as [|p ps IH]; [destruct loc; split; reflexivity|].
    inversion Hok; inversion Hnm; subst.
    destruct (rt_pair4 loc be asz version p) as [Hb Hw]; try assumption.
    destruct IH as [Hbs Hws]; try assumption.
    cbn [flat_map map concat forallb]. rewrite Hb, Hbs.
    destruct loc; (split; [reflexivity|]); rewrite Hw, Hws; reflexivity. }
  destruct G as [Hb Hw]. rewrite Hb. split; [|exact Hw].
  destruct loc; reflexivity.
Qed.

(* ================================================================ the two resolution specs agree *)

Lemma rt_live_keep sz r : ListSpec.live sz r = keep sz r.
Proof. unfold ListSpec.live, keep, ListSpec.atomb, tombstone, ListSpec.amod, amod. apply andb_comm. Qed.

Lemma rt_resolve_loc sz tbl : size_ok sz -> forall es base,
  ListSpec.resolve_loc sz tbl base (map tr_loc es) = Some (resolve sz base es).
Proof.
  intros Hs. assert (Hd : ListSpec.live sz (0, ListSpec.u64_max) = true)
    by (destruct Hs as [-> | [-> | [-> | ->]]]; vm_compute; reflexivity).
  induction es as [|e es IH]; intros base; [reflexivity|].
  cbn [map ListSpec.resolve_loc]. unfold tr_loc at 1.
  destruct e as [a|b e d|b e d|b len d|d|b e d]; cbn [tr_ent ent_data ListSpec.resolve1 resolve].
  - rewrite IH. reflexivity.
  - change (ListSpec.atomb sz) with (tombstone sz). destruct (tombstone sz <=? base); rewrite IH; [reflexivity|].
    unfold emit, ListSpec.wadd. change (ListSpec.amod sz) with (amod sz). rewrite rt_live_keep. reflexivity.
  - rewrite IH. unfold emit. rewrite rt_live_keep. reflexivity.
  - rewrite IH. unfold emit, ListSpec.wadd. change (ListSpec.amod sz) with (amod sz). rewrite rt_live_keep. reflexivity.
  - rewrite IH, Hd. reflexivity.
  - change (ListSpec.atomb sz) with (tombstone sz). destruct (tombstone sz <=? base); rewrite IH; [reflexivity|].
    unfold emit, ListSpec.wadd. change (ListSpec.amod sz) with (amod sz). rewrite rt_live_keep. reflexivity.
Qed.

Lemma rt_resolve_rng sz tbl : size_ok sz -> forall es base,
  ListSpec.resolve_rng sz tbl base (map tr_ent es) = Some (map fst (resolve sz base es)).
Proof.
  intros Hs. assert (Hd : ListSpec.live sz (0, ListSpec.u64_max) = true)
    by (destruct Hs as [-> | [-> | [-> | ->]]]; vm_compute; reflexivity).
  induction es as [|e es IH]; intros base; [reflexivity|].
  cbn [map ListSpec.resolve_rng].
  destruct e as [a|b e d|b e d|b len d|d|b e d]; cbn [tr_ent ListSpec.resolve1 resolve].
  - rewrite IH. reflexivity.
  - change (ListSpec.atomb sz) with (tombstone sz). destruct (tombstone sz <=? base); rewrite IH; [reflexivity|].
    unfold emit, ListSpec.wadd. change (ListSpec.amod sz) with (amod sz). rewrite rt_live_keep.
    destruct (keep sz _); reflexivity.
  - rewrite IH. unfold emit. rewrite rt_live_keep. destruct (keep sz _); reflexivity.
  - rewrite IH. unfold emit, ListSpec.wadd. change (ListSpec.amod sz) with (amod sz). rewrite rt_live_keep.
    destruct (keep sz _); reflexivity.
  - rewrite IH, Hd. reflexivity.
  - change (ListSpec.atomb sz) with (tombstone sz). destruct (tombstone sz <=? base); rewrite IH; [reflexivity|].
    unfold emit, ListSpec.wadd. change (ListSpec.amod sz) with (amod sz). rewrite rt_live_keep.
    destruct (keep sz _); reflexivity.
Qed.

(* ================================================================ one list inside a section, read by the reader model *)

Lemma rt_valid_asize asz : size_ok asz -> ListSpec.valid_asize asz = true.
Proof. intros [-> | [-> | [-> | ->]]]; reflexivity. Qed.

Definition no_addr_table : ListsRd.lctx := ListsRd.Build_lctx [] 0.

(* DWARF 5 range list *)
Lemma rt_reader_rng5 dbg be asz l bs (pre post other : list byte) :
  write_list_v5 false be 5 asz l = Ok bs -> Forall (wf false) l -> size_ok asz ->
  exists es, ents_of l = Some es /\
    ListsRd.raw_ranges_all dbg (rd_cfg be asz 5) other (pre ++ bs ++ post) (N.of_nat (length pre))
      = Ok (map ListsRd.EvItem (map tr_ent es)) /\
    forall x base, N.of_nat (length (ListsRd.x_addr x)) < two64 ->
      ListsRd.ranges_all dbg (rd_cfg be asz 5) x other (pre ++ bs ++ post) (N.of_nat (length pre)) base
        = Ok (map ListsRd.EvItem (map fst (resolve asz base es))).
Proof.
  intros H Hwf Hs. destruct (rt_list5 false be asz l bs H Hwf) as [es [He [-> Hw]]]. cbv iota in Hw.
  pose proof (rt_valid_asize _ Hs) as Hv.
  exists es. split; [exact He|]. split.
  - exact (ListsRdProofs.raw_ranges_all_enc dbg (rd_cfg be asz 5) (map tr_ent es) pre post other Hv Hw).
  - intros x base Hx.
    exact (ListsRdProofs.ranges_all_enc dbg (rd_cfg be asz 5) x (map tr_ent es) pre post other base _ Hv Hx Hw
             (rt_resolve_rng asz _ Hs es base)).
Qed.

(* DWARF 5 location list *)
Lemma rt_reader_loc5 dbg be asz l bs (pre post other : list byte) :
  write_list_v5 true be 5 asz l = Ok bs -> Forall (wf true) l -> size_ok asz ->
  exists es, ents_of l = Some es /\
    ListsRd.raw_locations_all dbg (rd_cfg be asz 5) false other (pre ++ bs ++ post) (N.of_nat (length pre))
      = Ok (map ListsRd.EvItem (map tr_loc es)) /\
    forall x base, N.of_nat (length (ListsRd.x_addr x)) < two64 ->
      ListsRd.locations_all dbg (rd_cfg be asz 5) false x other (pre ++ bs ++ post) (N.of_nat (length pre)) base
        = Ok (map ListsRd.EvItem (resolve asz base es)).
Proof.
  intros H Hwf Hs. destruct (rt_list5 true be asz l bs H Hwf) as [es [He [-> Hw]]]. cbv iota in Hw.
  pose proof (rt_valid_asize _ Hs) as Hv.
  exists es. split; [exact He|]. split.
  - exact (ListsRdProofs.raw_locations_all_enc dbg (rd_cfg be asz 5) false (map tr_loc es) pre post other Hv Hw).
  - intros x base Hx.
    exact (ListsRdProofs.locations_all_enc dbg (rd_cfg be asz 5) false x (map tr_loc es) pre post other base _ Hv Hx Hw
             (rt_resolve_loc asz _ Hs es base)).
Qed.

Lemma rt_version_cases version : 2 <= version <= 4 -> version = 2 \/ version = 3 \/ version = 4.
Proof. lia. Qed.

(* DWARF 2-4 range list: the reader sees the pairs, which resolve (given the writer's base-address discipline)
   to the meaning of the written list *)
Lemma rt_reader_rng4 dbg be version asz hb base l bs (pre post other : list byte) :
  write_list_v4 false be version asz (marker asz) hb l = Ok bs -> 2 <= version <= 4 -> Forall (wf false) l ->
  (hb = false -> base = 0) ->
  exists ps es, pairs_of l = Some ps /\ ents_of l = Some es /\
    ListsRd.raw_ranges_all dbg (rd_cfg be asz version) (pre ++ bs ++ post) other (N.of_nat (length pre))
      = Ok (map ListsRd.EvItem (map tr_ent ps)) /\
    forall x, N.of_nat (length (ListsRd.x_addr x)) < two64 ->
      ListsRd.ranges_all dbg (rd_cfg be asz version) x (pre ++ bs ++ post) other (N.of_nat (length pre)) base
        = Ok (map ListsRd.EvItem (map fst (resolve asz base es))).
Proof.
  intros H Hver Hwf Hb. assert (Hv4 : version <= 4) by lia.
  destruct (lw_write_v4_enc _ _ _ _ _ _ _ H Hv4 Hwf) as [Hs [ps [Hp [Hok ->]]]].
  destruct (lw_pairs_ents _ _ Hp) as [es He].
  pose proof (lw_never_bytes _ _ _ _ _ _ _ H Hwf) as Hrej.
  pose proof (lw_nomark _ _ _ _ Hp Hrej) as Hnm.
  pose proof (lw_resolve_pairs false asz Hs l hb base ps es Hrej Hb Hp He Hok) as Hres.
  destruct (rt_list4 false be asz version ps Hok Hnm) as [Henc Hw]. cbv iota in Henc, Hw. rewrite Henc.
  pose proof (rt_valid_asize _ Hs) as Hv.
  exists ps, es. split; [exact Hp|]. split; [exact He|].
  destruct (rt_version_cases _ Hver) as [-> | [-> | ->]];
    match goal with |- context [rd_cfg be asz ?v] =>
      split;
      [exact (ListsRdProofs.raw_ranges_all_enc dbg (rd_cfg be asz v) (map tr_ent ps) pre post other Hv Hw)
      |intros x Hx; rewrite <- Hres;
       exact (ListsRdProofs.ranges_all_enc dbg (rd_cfg be asz v) x (map tr_ent ps) pre post other base _ Hv Hx Hw
                (rt_resolve_rng asz _ Hs ps base))]
    end.
Qed.

Lemma rt_reader_loc4 dbg be version asz hb base l bs (pre post other : list byte) :
  write_list_v4 true be version asz (marker asz) hb l = Ok bs -> 2 <= version <= 4 -> Forall (wf true) l ->
  (hb = false -> base = 0) ->
  exists ps es, pairs_of l = Some ps /\ ents_of l = Some es /\
    ListsRd.raw_locations_all dbg (rd_cfg be asz version) false (pre ++ bs ++ post) other (N.of_nat (length pre))
      = Ok (map ListsRd.EvItem (map tr_loc ps)) /\
    forall x, N.of_nat (length (ListsRd.x_addr x)) < two64 ->
      ListsRd.locations_all dbg (rd_cfg be asz version) false x (pre ++ bs ++ post) other (N.of_nat (length pre)) base
        = Ok (map ListsRd.EvItem (resolve asz base es)).
Proof.
  intros H Hver Hwf Hb. assert (Hv4 : version <= 4) by lia.
  destruct (lw_write_v4_enc _ _ _ _ _ _ _ H Hv4 Hwf) as [Hs [ps [Hp [Hok ->]]]].
  destruct (lw_pairs_ents _ _ Hp) as [es He].
  pose proof (lw_never_bytes _ _ _ _ _ _ _ H Hwf) as Hrej.
  pose proof (lw_nomark _ _ _ _ Hp Hrej) as Hnm.
  pose proof (lw_resolve_pairs true asz Hs l hb base ps es Hrej Hb Hp He Hok) as Hres.
  destruct (rt_list4 true be asz version ps Hok Hnm) as [Henc Hw]. cbv iota in Henc, Hw. rewrite Henc.
  pose proof (rt_valid_asize _ Hs) as Hv.
  exists ps, es. split; [exact Hp|]. split; [exact He|].
  destruct (rt_version_cases _ Hver) as [-> | [-> | ->]];
    match goal with |- context [rd_cfg be asz ?v] =>
      split;
      [exact (ListsRdProofs.raw_locations_all_enc dbg (rd_cfg be asz v) false (map tr_loc ps) pre post other Hv Hw)
      |intros x Hx; rewrite <- Hres;
       exact (ListsRdProofs.locations_all_enc dbg (rd_cfg be asz v) false x (map tr_loc ps) pre post other base _ Hv Hx Hw
                (rt_resolve_loc asz _ Hs ps base))]
    end.
Qed.

(* ================================================================ where a list lies in the section *)

Lemma rt_tbl_gen_nth f tbl pos body offs (sec0 : list byte) :
  tbl_gen f pos tbl = Ok (body, offs) -> N.of_nat (length sec0) = pos ->
  forall i l, nth_error tbl i = Some l ->
    exists pre bs post, nth_error offs i = Some (N.of_nat (length pre)) /\ f l = Ok bs /\
      sec0 ++ body = pre ++ bs ++ post.
Proof.
  intros H Hs i l Hl. destruct (lw_tbl_gen_char f _ _ _ _ H) as [bss [HF [-> ->]]].
  destruct (lw_forall2_nth _ _ _ _ _ HF Hl) as [bs [Hb Hfl]].
  destruct (lw_offsets_from_nth _ pos _ _ Hb) as [Ho Hc].
  exists (sec0 ++ concat (firstn i bss)), bs, (concat (skipn (S i) bss)).
  split; [rewrite Ho; f_equal; rewrite app_length; lia|]. split; [exact Hfl|].
  rewrite Hc at 1. rewrite <- app_assoc. reflexivity.
Qed.

Lemma rt_table_layout_v5 loc be fmt64 asz hb start tbl out offs (sec0 : list byte) :
  table_write loc be fmt64 5 asz hb start tbl = Ok (out, offs) -> N.of_nat (length sec0) = start ->
  forall i l, nth_error tbl i = Some l ->
    exists pre bs post, nth_error offs i = Some (N.of_nat (length pre)) /\
      write_list_v5 loc be 5 asz l = Ok bs /\ sec0 ++ out = pre ++ bs ++ post.
Proof.
  intros H Hs i l Hl. destruct tbl as [|l0 r]; [destruct i; discriminate Hl|].
  unfold table_write in H. change ((2 <=? 5) && (5 <=? 4)) with false in H. change (5 =? 5) with true in H. cbv iota in H.
  unfold write_tbl_v5 in H. change (negb (5 =? 5)) with false in H. cbv iota in H.
  bind_ok H. destruct a as [body o]. bind_ok H. inversion H; subst.
  rewrite lw_lists_v5_gen in E.
  pose proof (lw_write_initial_length_len _ _ _ _ E0) as Hil. pose proof (lw_header_v5_len be 5 asz) as Hh.
  destruct (rt_tbl_gen_nth _ _ _ _ _ (sec0 ++ a ++ header_v5 be 5 asz) E) with (i := i) (l := l)
    as [pre [bs [post [Ho [Hw Hsec]]]]]; [rewrite !app_length, Hh; lia|exact Hl|].
  exists pre, bs, post. split; [exact Ho|]. split; [exact Hw|].
  rewrite <- Hsec. rewrite <- !app_assoc. reflexivity.
Qed.

Lemma rt_table_layout_v4 loc be fmt64 version asz hb start tbl out offs (sec0 : list byte) :
  table_write loc be fmt64 version asz hb start tbl = Ok (out, offs) -> 2 <= version <= 4 ->
  N.of_nat (length sec0) = start ->
  forall i l, nth_error tbl i = Some l ->
    exists pre bs post, nth_error offs i = Some (N.of_nat (length pre)) /\
      write_list_v4 loc be version asz (marker asz) hb l = Ok bs /\ sec0 ++ out = pre ++ bs ++ post.
Proof.
  intros H Hv Hs i l Hl. destruct tbl as [|l0 r]; [destruct i; discriminate Hl|].
  unfold table_write in H. destruct ((2 <=? version) && (version <=? 4)) eqn:E; [|lia].
  unfold write_tbl_v4 in H. bind_ok H. destruct (lw_marker_of_ok _ _ E0) as [_ ->]. rewrite lw_lists_v4_gen in H.
  exact (rt_tbl_gen_nth _ _ _ _ _ sec0 H Hs i l Hl).
Qed.

(* ================================================================ Unit::write composed with the reader model *)

Lemma rt_unit_reader_v5 dbg be fmt64 asz attrs rstart lstart rtbl ltbl rb ro lb lo (rsec lsec other : list byte) :
  unit_write_lists be fmt64 5 asz attrs rstart lstart rtbl ltbl = Ok ((rb, ro), (lb, lo)) -> size_ok asz ->
  N.of_nat (length rsec) = rstart -> N.of_nat (length lsec) = lstart -> unit_wf rtbl ltbl ->
  (forall i l, nth_error rtbl i = Some l ->
     exists o es, nth_error ro i = Some o /\ ents_of (map loc_of_range l) = Some es /\
       ListsRd.raw_ranges_all dbg (rd_cfg be asz 5) other (rsec ++ rb) o = Ok (map ListsRd.EvItem (map tr_ent es)) /\
       forall x base, N.of_nat (length (ListsRd.x_addr x)) < two64 ->
         exists rs, meaning_rng asz base l = Some rs /\
           ListsRd.ranges_all dbg (rd_cfg be asz 5) x other (rsec ++ rb) o base = Ok (map ListsRd.EvItem rs)) /\
  (forall i l, nth_error ltbl i = Some l ->
     exists o es, nth_error lo i = Some o /\ ents_of l = Some es /\
       ListsRd.raw_locations_all dbg (rd_cfg be asz 5) false other (lsec ++ lb) o = Ok (map ListsRd.EvItem (map tr_loc es)) /\
       forall x base, N.of_nat (length (ListsRd.x_addr x)) < two64 ->
         exists rs, meaning_loc asz base l = Some rs /\
           ListsRd.locations_all dbg (rd_cfg be asz 5) false x other (lsec ++ lb) o base = Ok (map ListsRd.EvItem rs)).
Proof.
  unfold unit_write_lists. change (negb ((2 <=? 5) && (5 <=? 5))) with false. cbv iota.
  intros H Hs Hrs Hls [Hwr Hwl]. bind_ok H. bind_ok H. bind_ok H. inversion H; subst. split.
  - intros i l Hl.
    destruct (rt_table_layout_v5 _ _ _ _ _ _ _ _ _ rsec E eq_refl i _ (map_nth_error _ _ _ Hl)) as [pre [bs [post [Ho [Hw Hsec]]]]].
    pose proof (lw_wf_map_range _ Hwr) as Hwr'. rewrite Forall_forall in Hwr'.
    assert (Hwl' : Forall (wf false) (map loc_of_range l)) by (apply Hwr'; apply in_map; eapply nth_error_In; eauto).
    destruct (rt_reader_rng5 dbg be asz _ bs pre post other Hw Hwl' Hs) as [es [He [Hraw Hres]]].
    exists (N.of_nat (length pre)), es. split; [exact Ho|]. split; [exact He|]. rewrite Hsec. split; [exact Hraw|].
    intros x base Hx. exists (map fst (resolve asz base es)). split; [now apply lw_meaning_rng|now apply Hres].
  - intros i l Hl.
    destruct (rt_table_layout_v5 _ _ _ _ _ _ _ _ _ lsec E0 eq_refl i _ Hl) as [pre [bs [post [Ho [Hw Hsec]]]]].
    rewrite Forall_forall in Hwl.
    assert (Hwl' : Forall (wf true) l) by (apply Hwl; eapply nth_error_In; eauto).
    destruct (rt_reader_loc5 dbg be asz _ bs pre post other Hw Hwl' Hs) as [es [He [Hraw Hres]]].
    exists (N.of_nat (length pre)), es. split; [exact Ho|]. split; [exact He|]. rewrite Hsec. split; [exact Hraw|].
    intros x base Hx. exists (resolve asz base es). split; [now apply lw_meaning_loc|now apply Hres].
Qed.

Lemma rt_unit_reader_v4 dbg be fmt64 version asz attrs rstart lstart rtbl ltbl rb ro lb lo (rsec lsec other : list byte) :
  unit_write_lists be fmt64 version asz attrs rstart lstart rtbl ltbl = Ok ((rb, ro), (lb, lo)) -> 2 <= version <= 4 ->
  N.of_nat (length rsec) = rstart -> N.of_nat (length lsec) = lstart -> unit_wf rtbl ltbl ->
  (forall i l, nth_error rtbl i = Some l ->
     exists o ps, nth_error ro i = Some o /\ pairs_of (map loc_of_range l) = Some ps /\
       ListsRd.raw_ranges_all dbg (rd_cfg be asz version) (rsec ++ rb) other o = Ok (map ListsRd.EvItem (map tr_ent ps)) /\
       forall x, N.of_nat (length (ListsRd.x_addr x)) < two64 ->
         exists rs, meaning_rng asz (unit_base attrs) l = Some rs /\
           ListsRd.ranges_all dbg (rd_cfg be asz version) x (rsec ++ rb) other o (unit_base attrs) = Ok (map ListsRd.EvItem rs)) /\
  (forall i l, nth_error ltbl i = Some l ->
     exists o ps, nth_error lo i = Some o /\ pairs_of l = Some ps /\
       ListsRd.raw_locations_all dbg (rd_cfg be asz version) false (lsec ++ lb) other o = Ok (map ListsRd.EvItem (map tr_loc ps)) /\
       forall x, N.of_nat (length (ListsRd.x_addr x)) < two64 ->
         exists rs, meaning_loc asz (unit_base attrs) l = Some rs /\
           ListsRd.locations_all dbg (rd_cfg be asz version) false x (lsec ++ lb) other o (unit_base attrs) = Ok (map ListsRd.EvItem rs)).
Proof.
  unfold unit_write_lists. intros H Hv Hrs Hls [Hwr Hwl].
  destruct (negb ((2 <=? version) && (version <=? 5))); [discriminate|].
  bind_ok H. bind_ok H. bind_ok H. inversion H; subst.
  pose proof (lw_base_from_root attrs) as Hb. split.
  - intros i l Hl.
    destruct (rt_table_layout_v4 _ _ _ _ _ _ _ _ _ _ rsec E Hv eq_refl i _ (map_nth_error _ _ _ Hl)) as [pre [bs [post [Ho [Hw Hsec]]]]].
    pose proof (lw_wf_map_range _ Hwr) as Hwr'. rewrite Forall_forall in Hwr'.
    assert (Hwl' : Forall (wf false) (map loc_of_range l)) by (apply Hwr'; apply in_map; eapply nth_error_In; eauto).
    destruct (rt_reader_rng4 dbg be version asz _ (unit_base attrs) _ bs pre post other Hw Hv Hwl' Hb) as [ps [es [Hp [He [Hraw Hres]]]]].
    exists (N.of_nat (length pre)), ps. split; [exact Ho|]. split; [exact Hp|]. rewrite Hsec. split; [exact Hraw|].
    intros x Hx. exists (map fst (resolve asz (unit_base attrs) es)). split; [now apply lw_meaning_rng|now apply Hres].
  - intros i l Hl.
    destruct (rt_table_layout_v4 _ _ _ _ _ _ _ _ _ _ lsec E0 Hv eq_refl i _ Hl) as [pre [bs [post [Ho [Hw Hsec]]]]].
    rewrite Forall_forall in Hwl.
    assert (Hwl' : Forall (wf true) l) by (apply Hwl; eapply nth_error_In; eauto).
    destruct (rt_reader_loc4 dbg be version asz _ (unit_base attrs) _ bs pre post other Hw Hv Hwl' Hb) as [ps [es [Hp [He [Hraw Hres]]]]].
    exists (N.of_nat (length pre)), ps. split; [exact Ho|]. split; [exact Hp|]. rewrite Hsec. split; [exact Hraw|].
    intros x Hx. exists (resolve asz (unit_base attrs) es). split; [now apply lw_meaning_loc|now apply Hres].
Qed.
