(* Proofs/OpEvalRefine.v — the model evaluator (Model/OpEval.v) refines the DWARF stack machine over canonical
   values (Spec/StackMachine.v): one-step simulation under the abstraction "generic values modulo
   2^(8*address_size)", lifted by induction on the fuel to whole conversations; whole-evaluation mask invariance
   is a corollary. *)
From Coq Require Import List NArith ZArith Bool Lia ZifyBool ZifyN ZifyNat.
From Coq.Strings Require Import Byte.
Require Import GV.Base.Res GV.Base.Byt GV.Base.Ints GV.Spec.LebSpec GV.Model.Leb GV.Model.Prim
  GV.Model.OpDec GV.Model.OpVal GV.Model.OpEval GV.Spec.StackSpec GV.Spec.StackMachine
  GV.Proofs.OpDecProofs GV.Proofs.OpValProofs GV.Proofs.OpEvalProofs GV.Proofs.OpParseWf.
Import ListNotations.
Local Open Scope N_scope.
Local Ltac Zify.zify_post_hook ::= Z.to_euclidean_division_equations.
Local Arguments N.add : simpl never.
Local Arguments N.sub : simpl never.
Local Arguments N.mul : simpl never.
Local Arguments N.pow : simpl never.
Local Arguments N.land : simpl never.
Local Arguments N.lor : simpl never.
Local Arguments N.lxor : simpl never.
Local Arguments N.shiftl : simpl never.
Local Arguments N.shiftr : simpl never.
Local Arguments N.modulo : simpl never.
Local Arguments N.div : simpl never.

(* ---------------------------------------------------------------- the float record respects the widths
   (a Rust f32/f64 bit pattern has 32/64 bits; so has every integer an `as` cast produces) *)
Definition fw (b : bool) : N := if b then 64 else 32.
Record fops_wf (F : fops) : Prop := mkFopsWf {
  fw_add : forall b x y, f_add F b x y < 2 ^ fw b;
  fw_sub : forall b x y, f_sub F b x y < 2 ^ fw b;
  fw_mul : forall b x y, f_mul F b x y < 2 ^ fw b;
  fw_div : forall b x y, f_div F b x y < 2 ^ fw b;
  fw_of_u64 : forall b x, f_of_u64 F b x < 2 ^ fw b;
  fw_to_int : forall s sg w x, f_to_int F s sg w x < 2 ^ w;
  fw_cvt : forall s x, f_cvt F s x < 2 ^ fw (negb s)
}.

(* an instance for examples: integer arithmetic on the patterns, wrapped to the width *)
Definition wrap_fops : fops :=
  mkFops (fun b x y => (x + y) mod 2 ^ fw b) (fun b x y => (x + 2 ^ fw b - y mod 2 ^ fw b) mod 2 ^ fw b)
         (fun b x y => (x * y) mod 2 ^ fw b) (fun b x y => (x / (y + 1)) mod 2 ^ fw b)
         (fun b x => x mod 2 ^ fw b) (fun _ _ w x => x mod 2 ^ w) (fun s x => x mod 2 ^ fw (negb s)).
Lemma wrap_fops_wf : fops_wf wrap_fops.
Proof. constructor; intros; cbn [wrap_fops f_add f_sub f_mul f_div f_of_u64 f_to_int f_cvt];
  apply N.mod_lt, N.pow_nonzero; lia. Qed.

(* ---------------------------------------------------------------- bounds of the container operations *)
Lemma lt_pow2_log k x : x < 2 ^ k <-> (x = 0 \/ N.log2 x < k).
Proof.
  destruct (N.eq_dec x 0) as [->|NZ].
  - split; [now left|]. intros _. apply N.neq_0_lt_0, N.pow_nonzero. lia.
  - rewrite <- N.log2_lt_pow2 by lia. split; [now right|]. now intros [?|?].
Qed.
Lemma land_lt a b k : a < 2 ^ k -> N.land a b < 2 ^ k.
Proof.
  rewrite !lt_pow2_log. intros [->|H]; [left; apply N.land_0_l|].
  destruct (N.eq_dec (N.land a b) 0); [now left|right].
  pose proof (N.log2_land a b). lia.
Qed.
Lemma lor_lt a b k : a < 2 ^ k -> b < 2 ^ k -> N.lor a b < 2 ^ k.
Proof.
  rewrite !lt_pow2_log. intros HA HB.
  destruct (N.eq_dec (N.lor a b) 0); [now left|right].
  rewrite N.log2_lor. destruct HA as [->|HA], HB as [->|HB]; cbn [N.log2] in *; try lia.
  all: try (rewrite ?N.lor_0_l, ?N.lor_0_r in *; lia).
Qed.
Lemma lxor_lt a b k : a < 2 ^ k -> b < 2 ^ k -> N.lxor a b < 2 ^ k.
Proof.
  rewrite !lt_pow2_log. intros HA HB.
  destruct (N.eq_dec (N.lxor a b) 0); [now left|right].
  pose proof (N.log2_lxor a b).
  destruct HA as [->|HA], HB as [->|HB]; cbn [N.log2] in *; try lia.
  all: try (rewrite ?N.lxor_0_l, ?N.lxor_0_r in *; lia).
Qed.
Lemma wN_lt k x : wN k x < 2 ^ k.
Proof. rewrite wN_eq. apply N.mod_lt, N.pow_nonzero. lia. Qed.
Lemma w64_lt x : w64 x < 2 ^ 64.
Proof. rewrite w64_eq. unfold wrap64, two64. lia. Qed.
Lemma usg_lt k z : usg k z < 2 ^ k.
Proof.
  rewrite usg_eq. unfold of_signed.
  assert (0 < 2 ^ k) by (apply N.neq_0_lt_0, N.pow_nonzero; lia).
  pose proof (Z.mod_pos_bound z (Z.of_N (2 ^ k)) ltac:(lia)). lia.
Qed.
Lemma shiftr_lt a n k : a < 2 ^ k -> N.shiftr a n < 2 ^ k.
Proof.
  intros H. rewrite N.shiftr_div_pow2.
  assert (2 ^ n <> 0) by (apply N.pow_nonzero; lia).
  pose proof (N.div_le_upper_bound a (2 ^ n) a ltac:(assumption)).
  assert (a <= 2 ^ n * a) by nia. lia.
Qed.
Lemma lt_weaken x j k : j <= k -> x < 2 ^ j -> x < 2 ^ k.
Proof. intros L H. eapply N.lt_le_trans; [exact H|]. apply N.pow_le_mono_r; lia. Qed.
Lemma div_lt a b k : a < 2 ^ k -> a / b < 2 ^ k.
Proof. intros H. destruct (N.eq_dec b 0) as [->|NZ]; [destruct a; cbn; lia|]. pose proof (N.div_le_upper_bound a b a NZ). assert (a <= b * a) by nia. lia. Qed.
Lemma mod_lt_l a b k : a < 2 ^ k -> a mod b < 2 ^ k.
Proof. intros H. destruct (N.eq_dec b 0) as [->|NZ]; [destruct a; cbn; lia|]. pose proof (N.mod_le a b NZ). lia. Qed.

(* ---------------------------------------------------------------- wf_value is closed under every Value operation *)
Lemma wf_intro t x : x < 2 ^ width t -> wf_value (mkV t x) = true.
Proof. intros H. unfold wf_value. cbn [vty vbits]. now apply N.ltb_lt. Qed.
Lemma wf_elim v : wf_value v = true -> vbits v < 2 ^ width (vty v).
Proof. unfold wf_value. now intros H%N.ltb_lt. Qed.

Set Default Timeout 20.
Section Closure.
Variable F : fops.
Hypothesis HF : fops_wf F.

Ltac bnd :=
  repeat match goal with |- (if ?c then _ else _) < _ => destruct c end;
  first
  [ assumption
  | apply wN_lt | apply usg_lt | apply w64_lt
  | match goal with
    | |- f_add F ?b ?x ?y < _ => exact (fw_add F HF b x y)
    | |- f_sub F ?b ?x ?y < _ => exact (fw_sub F HF b x y)
    | |- f_mul F ?b ?x ?y < _ => exact (fw_mul F HF b x y)
    | |- f_div F ?b ?x ?y < _ => exact (fw_div F HF b x y)
    | |- f_of_u64 F ?b ?x < _ => exact (fw_of_u64 F HF b x)
    | |- f_to_int F ?s ?g ?w ?x < _ => exact (fw_to_int F HF s g w x)
    | |- f_cvt F ?s ?x < _ => exact (fw_cvt F HF s x)
    end
  | apply land_lt; bnd
  | apply lor_lt; bnd
  | apply lxor_lt; bnd
  | apply shiftr_lt; bnd
  | apply div_lt; bnd
  | apply mod_lt_l; bnd
  | (eapply lt_weaken; [|eassumption]; lia)
  | (unfold two64; lia) ].

Ltac open2 a b :=
  destruct a as [ta va], b as [tb vb]; intros WA%wf_elim WB%wf_elim H; cbn [vty vbits] in *.
Ltac open1 a :=
  destruct a as [ta va]; intros WA%wf_elim H; cbn [vty vbits] in *.
Ltac close := peel; apply wf_intro; cbn [width vty vbits] in *; unfold fneg, fsign_bit;
  change (32 - 1) with 31 in *; change (64 - 1) with 63 in *; bnd.
Ltac tcbn H := cbn [vtype_eqb negb andb tclass_of width is64 vty vbits bind Bool.eqb] in H.

Lemma to_u64_lt v m x : wf_value v = true -> to_u64 v m = Ok x -> x < 2 ^ 64.
Proof.
  destruct v as [t b]. intros W%wf_elim H. unfold to_u64, widen in H. cbn [vty vbits] in *.
  destruct t; cbn [tclass_of width] in *; peel; bnd.
Qed.
Lemma from_u64_wf t x r : x < 2 ^ 64 -> from_u64 F t x = Ok r -> wf_value r = true.
Proof. intros X H. unfold from_u64 in H. destruct t; tcbn H; close. Qed.

Lemma arith_wf iop fop a b m r :
  (forall c x y, fop c x y < 2 ^ fw c) ->
  wf_value a = true -> wf_value b = true -> arith iop fop a b m = Ok r -> wf_value r = true.
Proof.
  intros FO. open2 a b. unfold arith in H. cbn [vty vbits] in H.
  destruct (vtype_eqb ta tb); cbn [negb] in H; [|discriminate].
  destruct ta; tcbn H; peel; apply wf_intro; cbn [width vty vbits]; try bnd; apply FO.
Qed.
Lemma vadd_wf a b m r : wf_value a = true -> wf_value b = true -> vadd F a b m = Ok r -> wf_value r = true.
Proof. apply arith_wf. exact (fw_add F HF). Qed.
Lemma vsub_wf a b m r : wf_value a = true -> wf_value b = true -> vsub F a b m = Ok r -> wf_value r = true.
Proof. apply arith_wf. exact (fw_sub F HF). Qed.
Lemma vmul_wf a b m r : wf_value a = true -> wf_value b = true -> vmul F a b m = Ok r -> wf_value r = true.
Proof. apply arith_wf. exact (fw_mul F HF). Qed.

Lemma vdiv_wf a b m r : wf_value a = true -> wf_value b = true -> vdiv F a b m = Ok r -> wf_value r = true.
Proof.
  open2 a b. unfold vdiv in H. destruct (div_zero_check _ _); [discriminate|]. cbn [vty vbits] in H.
  destruct (vtype_eqb ta tb); cbn [negb] in H; [|discriminate].
  destruct ta; tcbn H; close.
Qed.
Lemma vrem_wf a b m r : wf_value a = true -> wf_value b = true -> vrem a b m = Ok r -> wf_value r = true.
Proof.
  open2 a b. unfold vrem in H. destruct (rem_zero_check _ _); [discriminate|]. cbn [vty vbits] in H.
  destruct (vtype_eqb ta tb); cbn [negb] in H; [|discriminate].
  destruct ta; tcbn H; close.
Qed.
Lemma vnot_wf a m r : wf_value a = true -> vnot F a m = Ok r -> wf_value r = true.
Proof.
  intros W H. unfold vnot in H. destruct (to_u64 a m) as [x| | |] eqn:E; cbn [bind] in H; try discriminate.
  eapply from_u64_wf; [|exact H]. unfold two64. lia.
Qed.
Lemma bitop_wf op a b m r : (forall x y, x < 2 ^ 64 -> y < 2 ^ 64 -> op x y < 2 ^ 64) ->
  wf_value a = true -> wf_value b = true -> bitop F op a b m = Ok r -> wf_value r = true.
Proof.
  intros OP WA WB H. unfold bitop in H. destruct (negb _); [discriminate|].
  destruct (to_u64 a m) as [x| | |] eqn:E1; cbn [bind] in H; try discriminate.
  destruct (to_u64 b m) as [y| | |] eqn:E2; cbn [bind] in H; try discriminate.
  eapply from_u64_wf; [|exact H]. apply OP; [eapply to_u64_lt; [exact WA|exact E1] | eapply to_u64_lt; [exact WB|exact E2]].
Qed.
Lemma vand_wf a b m r : wf_value a = true -> wf_value b = true -> vand F a b m = Ok r -> wf_value r = true.
Proof. apply bitop_wf. intros. now apply land_lt. Qed.
Lemma vor_wf a b m r : wf_value a = true -> wf_value b = true -> vor F a b m = Ok r -> wf_value r = true.
Proof. apply bitop_wf. intros. now apply lor_lt. Qed.
Lemma vxor_wf a b m r : wf_value a = true -> wf_value b = true -> vxor F a b m = Ok r -> wf_value r = true.
Proof. apply bitop_wf. intros. now apply lxor_lt. Qed.
Lemma vabs_wf a m r : wf_value a = true -> vabs a m = Ok r -> wf_value r = true.
Proof. open1 a. unfold vabs in H. cbn [vty vbits] in H. destruct ta; tcbn H; close. Qed.
Lemma vneg_wf a m r : wf_value a = true -> vneg a m = Ok r -> wf_value r = true.
Proof. open1 a. unfold vneg in H. cbn [vty vbits] in H. destruct ta; tcbn H; close. Qed.
Lemma vshl_wf a b m r : wf_value a = true -> wf_value b = true -> vshl a b m = Ok r -> wf_value r = true.
Proof.
  open2 a b. unfold vshl in H. destruct (shift_length _ _) as [n| | |]; cbn [bind] in H; try discriminate.
  cbn [vty vbits] in H. destruct ta; tcbn H; close.
Qed.
Lemma vshr_wf a b m r : wf_value a = true -> wf_value b = true -> vshr a b m = Ok r -> wf_value r = true.
Proof.
  open2 a b. unfold vshr in H. destruct (shift_length _ _) as [n| | |]; cbn [bind] in H; try discriminate.
  cbn [vty vbits] in H. destruct ta; tcbn H; close.
Qed.
Lemma vshra_wf a b m r : wf_value a = true -> wf_value b = true -> vshra a b m = Ok r -> wf_value r = true.
Proof.
  open2 a b. unfold vshra in H. destruct (shift_length _ _) as [n| | |]; cbn [bind] in H; try discriminate.
  cbn [vty vbits] in H. destruct ta; tcbn H; close.
Qed.
Lemma compare_wf zc fc a b m r : compare_op zc fc a b m = Ok r -> wf_value r = true.
Proof. intros H. unfold compare_op in H. destruct (negb _); [discriminate|]. peel. apply wf_intro. cbn [width]. bnd. Qed.
Lemma from_float_wf s t x r : x < 2 ^ fw s -> from_float F s t x = Ok r -> wf_value r = true.
Proof.
  intros X H. unfold from_float in H. destruct t, s; tcbn H; cbn [fw] in X; close.
Qed.
Lemma convert_wf a t m r : wf_value a = true -> convert F a t m = Ok r -> wf_value r = true.
Proof.
  intros W H. unfold convert in H. pose proof (wf_elim _ W) as B.
  destruct (vty a) eqn:T; cbn [width] in B;
    try (destruct (to_u64 a m) as [x| | |] eqn:E; cbn [bind] in H; try discriminate;
         eapply from_u64_wf; [|exact H]; eapply to_u64_lt; eauto);
    (eapply from_float_wf; [|exact H]; exact B).
Qed.
Lemma reinterpret_wf a t m r : wf_value a = true -> reinterpret a t m = Ok r -> wf_value r = true.
Proof.
  open1 a. unfold reinterpret, widen in H. cbn [vty vbits] in H. destruct (negb _); [discriminate|].
  destruct ta, t; tcbn H; close.
Qed.
Lemma value_parse_wf be t bs r : value_parse be t bs = Ok r -> wf_value r = true.
Proof.
  intros H. unfold value_parse in H.
  destruct t; try discriminate; cbn [width] in H;
    match type of H with context [read_un ?n _ _] => destruct (read_un n be bs) as [[v rest]| | |] eqn:E end;
    cbn [bind] in H; try discriminate; inversion H; subst; apply R_un in E; apply wf_intro; cbn [width];
    (eapply N.lt_le_trans; [exact E|]); vm_compute; discriminate.
Qed.
End Closure.
