(* Proofs/OpEvalRefine.v — the model evaluator (Model/OpEval.v) refines the DWARF stack machine over canonical
   values (Spec/StackMachine.v): one-step simulation under the abstraction "generic values modulo
   2^(8*address_size)", lifted by induction on the fuel to whole conversations; whole-evaluation mask invariance
   is a corollary. *)
From Coq Require Import List NArith ZArith Bool Lia ZifyBool ZifyN ZifyNat.
From Coq.Strings Require Import Byte.
Require Import GV.Base.Res GV.Base.Byt GV.Base.Ints GV.Spec.LebSpec GV.Model.Leb GV.Model.Prim
  GV.Model.OpDec GV.Model.OpVal GV.Model.OpEval GV.Spec.StackSpec GV.Spec.StackMachine
  GV.Proofs.OpDecProofs GV.Proofs.OpValProofs GV.Proofs.OpEvalProofs GV.Proofs.OpParseWf.
Import ListNotations.
Local Open Scope N_scope.
Local Ltac Zify.zify_post_hook ::= Z.to_euclidean_division_equations.
Local Arguments N.add : simpl never.
Local Arguments N.sub : simpl never.
Local Arguments N.mul : simpl never.
Local Arguments N.pow : simpl never.
Local Arguments N.land : simpl never.
Local Arguments N.lor : simpl never.
Local Arguments N.lxor : simpl never.
Local Arguments N.shiftl : simpl never.
Local Arguments N.shiftr : simpl never.
Local Arguments N.modulo : simpl never.
Local Arguments N.div : simpl never.

(* ---------------------------------------------------------------- the float record respects the widths
   (a Rust f32/f64 bit pattern has 32/64 bits; so has every integer an `as` cast produces) *)
Definition fw (b : bool) : N := if b then 64 else 32.
Record fops_wf (F : fops) : Prop := mkFopsWf {
  fw_add : forall b x y, f_add F b x y < 2 ^ fw b;
  fw_sub : forall b x y, f_sub F b x y < 2 ^ fw b;
  fw_mul : forall b x y, f_mul F b x y < 2 ^ fw b;
  fw_div : forall b x y, f_div F b x y < 2 ^ fw b;
  fw_of_u64 : forall b x, f_of_u64 F b x < 2 ^ fw b;
  fw_to_int : forall s sg w x, f_to_int F s sg w x < 2 ^ w;
  fw_cvt : forall s x, f_cvt F s x < 2 ^ fw (negb s)
}.

(* an instance for examples: integer arithmetic on the patterns, wrapped to the width *)
Definition wrap_fops : fops :=
  mkFops (fun b x y => (x + y) mod 2 ^ fw b) (fun b x y => (x + 2 ^ fw b - y mod 2 ^ fw b) mod 2 ^ fw b)
         (fun b x y => (x * y) mod 2 ^ fw b) (fun b x y => (x / (y + 1)) mod 2 ^ fw b)
         (fun b x => x mod 2 ^ fw b) (fun _ _ w x => x mod 2 ^ w) (fun s x => x mod 2 ^ fw (negb s)).
Lemma wrap_fops_wf : fops_wf wrap_fops.
Proof. constructor; intros; cbn [wrap_fops f_add f_sub f_mul f_div f_of_u64 f_to_int f_cvt];
  apply N.mod_lt, N.pow_nonzero; lia. Qed.

(* ---------------------------------------------------------------- bounds of the container operations *)
Lemma lt_pow2_log k x : x < 2 ^ k <-> (x = 0 \/ N.log2 x < k).
Proof.
  destruct (N.eq_dec x 0) as [->|NZ].
  - split; [now left|]. intros _. apply N.neq_0_lt_0, N.pow_nonzero. lia.
  - rewrite <- N.log2_lt_pow2 by lia. split; [now right|]. now intros [?|?].
Qed.
Lemma land_lt a b k : a < 2 ^ k -> N.land a b < 2 ^ k.
Proof.
  rewrite !lt_pow2_log. intros [->|H]; [left; apply N.land_0_l|].
  destruct (N.eq_dec (N.land a b) 0); [now left|right].
  pose proof (N.log2_land a b). lia.
Qed.
Lemma lor_lt a b k : a < 2 ^ k -> b < 2 ^ k -> N.lor a b < 2 ^ k.
Proof.
  rewrite !lt_pow2_log. intros HA HB.
  destruct (N.eq_dec (N.lor a b) 0); [now left|right].
  rewrite N.log2_lor. destruct HA as [->|HA], HB as [->|HB]; cbn [N.log2] in *; try lia.
  all: try (rewrite ?N.lor_0_l, ?N.lor_0_r in *; lia).
Qed.
Lemma lxor_lt a b k : a < 2 ^ k -> b < 2 ^ k -> N.lxor a b < 2 ^ k.
Proof.
  rewrite !lt_pow2_log. intros HA HB.
  destruct (N.eq_dec (N.lxor a b) 0); [now left|right].
  pose proof (N.log2_lxor a b).
  destruct HA as [->|HA], HB as [->|HB]; cbn [N.log2] in *; try lia.
  all: try (rewrite ?N.lxor_0_l, ?N.lxor_0_r in *; lia).
Qed.
Lemma wN_lt k x : wN k x < 2 ^ k.
Proof. rewrite wN_eq. apply N.mod_lt, N.pow_nonzero. lia. Qed.
Lemma w64_lt x : w64 x < 2 ^ 64.
Proof. rewrite w64_eq. unfold wrap64, two64. lia. Qed.
Lemma usg_lt k z : usg k z < 2 ^ k.
Proof.
  rewrite usg_eq. unfold of_signed.
  assert (0 < 2 ^ k) by (apply N.neq_0_lt_0, N.pow_nonzero; lia).
  pose proof (Z.mod_pos_bound z (Z.of_N (2 ^ k)) ltac:(lia)). lia.
Qed.
Lemma shiftr_lt a n k : a < 2 ^ k -> N.shiftr a n < 2 ^ k.
Proof.
  intros H. rewrite N.shiftr_div_pow2.
  assert (2 ^ n <> 0) by (apply N.pow_nonzero; lia).
  pose proof (N.div_le_upper_bound a (2 ^ n) a ltac:(assumption)).
  assert (a <= 2 ^ n * a) by nia. lia.
Qed.
Lemma lt_weaken x j k : j <= k -> x < 2 ^ j -> x < 2 ^ k.
Proof. intros L H. eapply N.lt_le_trans; [exact H|]. apply N.pow_le_mono_r; lia. Qed.
Lemma div_lt a b k : a < 2 ^ k -> a / b < 2 ^ k.
Proof. intros H. destruct (N.eq_dec b 0) as [->|NZ]; [destruct a; cbn; lia|]. pose proof (N.div_le_upper_bound a b a NZ). assert (a <= b * a) by nia. lia. Qed.
Lemma mod_lt_l a b k : a < 2 ^ k -> a mod b < 2 ^ k.
Proof. intros H. destruct (N.eq_dec b 0) as [->|NZ]; [destruct a; cbn; lia|]. pose proof (N.mod_le a b NZ). lia. Qed.

(* ---------------------------------------------------------------- wf_value is closed under every Value operation *)
Lemma wf_intro t x : x < 2 ^ width t -> wf_value (mkV t x) = true.
Proof. intros H. unfold wf_value. cbn [vty vbits]. now apply N.ltb_lt. Qed.
Lemma wf_elim v : wf_value v = true -> vbits v < 2 ^ width (vty v).
Proof. unfold wf_value. now intros H%N.ltb_lt. Qed.

Section Closure.
Variable F : fops.
Hypothesis HF : fops_wf F.

Ltac bnd :=
  repeat match goal with |- (if ?c then _ else _) < _ => destruct c end;
  first
  [ assumption
  | apply wN_lt | apply usg_lt | apply w64_lt
  | match goal with
    | |- f_add F ?b ?x ?y < _ => exact (fw_add F HF b x y)
    | |- f_sub F ?b ?x ?y < _ => exact (fw_sub F HF b x y)
    | |- f_mul F ?b ?x ?y < _ => exact (fw_mul F HF b x y)
    | |- f_div F ?b ?x ?y < _ => exact (fw_div F HF b x y)
    | |- f_of_u64 F ?b ?x < _ => exact (fw_of_u64 F HF b x)
    | |- f_to_int F ?s ?g ?w ?x < _ => exact (fw_to_int F HF s g w x)
    | |- f_cvt F ?s ?x < _ => exact (fw_cvt F HF s x)
    end
  | apply land_lt; bnd
  | apply lor_lt; bnd
  | apply lxor_lt; bnd
  | apply shiftr_lt; bnd
  | apply div_lt; bnd
  | apply mod_lt_l; bnd
  | (eapply lt_weaken; [|eassumption]; lia)
  | (unfold two64; lia) ].

Ltac open2 a b :=
  destruct a as [ta va], b as [tb vb]; intros WA%wf_elim WB%wf_elim H; cbn [vty vbits] in *.
Ltac open1 a :=
  destruct a as [ta va]; intros WA%wf_elim H; cbn [vty vbits] in *.
Ltac close := peel; apply wf_intro; cbn [width vty vbits] in *; unfold fneg, fsign_bit;
  change (32 - 1) with 31 in *; change (64 - 1) with 63 in *; bnd.
Ltac tcbn H := cbn [vtype_eqb negb andb tclass_of width is64 vty vbits bind Bool.eqb] in H.

Lemma to_u64_lt v m x : wf_value v = true -> to_u64 v m = Ok x -> x < 2 ^ 64.
Proof.
  destruct v as [t b]. intros W%wf_elim H. unfold to_u64, widen in H. cbn [vty vbits] in *.
  destruct t; cbn [tclass_of width] in *; peel; bnd.
Qed.
Lemma from_u64_wf t x r : x < 2 ^ 64 -> from_u64 F t x = Ok r -> wf_value r = true.
Proof. intros X H. unfold from_u64 in H. destruct t; tcbn H; close. Qed.

Lemma arith_wf iop fop a b m r :
  (forall c x y, fop c x y < 2 ^ fw c) ->
  wf_value a = true -> wf_value b = true -> arith iop fop a b m = Ok r -> wf_value r = true.
Proof.
  intros FO. open2 a b. unfold arith in H. cbn [vty vbits] in H.
  destruct (vtype_eqb ta tb); cbn [negb] in H; [|discriminate].
  destruct ta; tcbn H; peel; apply wf_intro; cbn [width vty vbits]; try bnd; apply FO.
Qed.
Lemma vadd_wf a b m r : wf_value a = true -> wf_value b = true -> vadd F a b m = Ok r -> wf_value r = true.
Proof. apply arith_wf. exact (fw_add F HF). Qed.
Lemma vsub_wf a b m r : wf_value a = true -> wf_value b = true -> vsub F a b m = Ok r -> wf_value r = true.
Proof. apply arith_wf. exact (fw_sub F HF). Qed.
Lemma vmul_wf a b m r : wf_value a = true -> wf_value b = true -> vmul F a b m = Ok r -> wf_value r = true.
Proof. apply arith_wf. exact (fw_mul F HF). Qed.

Lemma vdiv_wf a b m r : wf_value a = true -> wf_value b = true -> vdiv F a b m = Ok r -> wf_value r = true.
Proof.
  open2 a b. unfold vdiv in H. destruct (div_zero_check _ _); [discriminate|]. cbn [vty vbits] in H.
  destruct (vtype_eqb ta tb); cbn [negb] in H; [|discriminate].
  destruct ta; tcbn H; close.
Qed.
Lemma vrem_wf a b m r : wf_value a = true -> wf_value b = true -> vrem a b m = Ok r -> wf_value r = true.
Proof.
  open2 a b. unfold vrem in H. destruct (rem_zero_check _ _); [discriminate|]. cbn [vty vbits] in H.
  destruct (vtype_eqb ta tb); cbn [negb] in H; [|discriminate].
  destruct ta; tcbn H; close.
Qed.
Lemma vnot_wf a m r : wf_value a = true -> vnot F a m = Ok r -> wf_value r = true.
Proof.
  intros W H. unfold vnot in H. destruct (to_u64 a m) as [x| | |] eqn:E; cbn [bind] in H; try discriminate.
  eapply from_u64_wf; [|exact H]. unfold two64. lia.
Qed.
Lemma bitop_wf op a b m r : (forall x y, x < 2 ^ 64 -> y < 2 ^ 64 -> op x y < 2 ^ 64) ->
  wf_value a = true -> wf_value b = true -> bitop F op a b m = Ok r -> wf_value r = true.
Proof.
  intros OP WA WB H. unfold bitop in H. destruct (negb _); [discriminate|].
  destruct (to_u64 a m) as [x| | |] eqn:E1; cbn [bind] in H; try discriminate.
  destruct (to_u64 b m) as [y| | |] eqn:E2; cbn [bind] in H; try discriminate.
  eapply from_u64_wf; [|exact H]. apply OP; [eapply to_u64_lt; [exact WA|exact E1] | eapply to_u64_lt; [exact WB|exact E2]].
Qed.
Lemma vand_wf a b m r : wf_value a = true -> wf_value b = true -> vand F a b m = Ok r -> wf_value r = true.
Proof. apply bitop_wf. intros. now apply land_lt. Qed.
Lemma vor_wf a b m r : wf_value a = true -> wf_value b = true -> vor F a b m = Ok r -> wf_value r = true.
Proof. apply bitop_wf. intros. now apply lor_lt. Qed.
Lemma vxor_wf a b m r : wf_value a = true -> wf_value b = true -> vxor F a b m = Ok r -> wf_value r = true.
Proof. apply bitop_wf. intros. now apply lxor_lt. Qed.
Lemma vabs_wf a m r : wf_value a = true -> vabs a m = Ok r -> wf_value r = true.
Proof. open1 a. unfold vabs in H. cbn [vty vbits] in H. destruct ta; tcbn H; close. Qed.
Lemma vneg_wf a m r : wf_value a = true -> vneg a m = Ok r -> wf_value r = true.
Proof. open1 a. unfold vneg in H. cbn [vty vbits] in H. destruct ta; tcbn H; close. Qed.
Lemma vshl_wf a b m r : wf_value a = true -> wf_value b = true -> vshl a b m = Ok r -> wf_value r = true.
Proof.
  open2 a b. unfold vshl in H. destruct (shift_length _ _) as [n| | |]; cbn [bind] in H; try discriminate.
  cbn [vty vbits] in H. destruct ta; tcbn H; close.
Qed.
Lemma vshr_wf a b m r : wf_value a = true -> wf_value b = true -> vshr a b m = Ok r -> wf_value r = true.
Proof.
  open2 a b. unfold vshr in H. destruct (shift_length _ _) as [n| | |]; cbn [bind] in H; try discriminate.
  cbn [vty vbits] in H. destruct ta; tcbn H; close.
Qed.
Lemma vshra_wf a b m r : wf_value a = true -> wf_value b = true -> vshra a b m = Ok r -> wf_value r = true.
Proof.
  open2 a b. unfold vshra in H. destruct (shift_length _ _) as [n| | |]; cbn [bind] in H; try discriminate.
  cbn [vty vbits] in H. destruct ta; tcbn H; close.
Qed.
Lemma compare_wf zc fc a b m r : compare_op zc fc a b m = Ok r -> wf_value r = true.
Proof. intros H. unfold compare_op in H. destruct (negb _); [discriminate|]. peel. apply wf_intro. cbn [width]. bnd. Qed.
Lemma from_float_wf s t x r : x < 2 ^ fw s -> from_float F s t x = Ok r -> wf_value r = true.
Proof.
  intros X H. unfold from_float in H. destruct t, s; tcbn H; cbn [fw] in X; close.
Qed.
Lemma convert_wf a t m r : wf_value a = true -> convert F a t m = Ok r -> wf_value r = true.
Proof.
  intros W H. unfold convert in H. pose proof (wf_elim _ W) as B.
  destruct (vty a) eqn:T; cbn [width] in B;
    try (destruct (to_u64 a m) as [x| | |] eqn:E; cbn [bind] in H; try discriminate;
         eapply from_u64_wf; [|exact H]; eapply to_u64_lt; eauto);
    (eapply from_float_wf; [|exact H]; exact B).
Qed.
Lemma reinterpret_wf a t m r : wf_value a = true -> reinterpret a t m = Ok r -> wf_value r = true.
Proof.
  open1 a. unfold reinterpret, widen in H. cbn [vty vbits] in H. destruct (negb _); [discriminate|].
  destruct ta, t; tcbn H; close.
Qed.
Lemma value_parse_wf be t bs r : value_parse be t bs = Ok r -> wf_value r = true.
Proof.
  intros H. unfold value_parse in H.
  destruct t; try discriminate; cbn [width] in H;
    match type of H with context [read_un ?n _ _] => destruct (read_un n be bs) as [[v rest]| | |] eqn:E end;
    cbn [bind] in H; try discriminate; inversion H; subst; apply R_un in E; apply wf_intro; cbn [width];
    (eapply N.lt_le_trans; [exact E|]); vm_compute; discriminate.
Qed.
End Closure.

(* ---------------------------------------------------------------- the abstraction of states and results *)
Section Sim.
Variable sz : N.
Variable F : fops.
Hypothesis SZ : addr_size sz.
Hypothesis HF : fops_wf F.

Definition abs_st (s : st) : st :=
  mkSt (s_bytecode s) (s_pc s) (map (canon sz) (s_stack s)) (s_estack s) (map (abs_piece sz) (s_result s))
       (s_iter s) (option_map (canon sz) (s_vres s)) (s_nops s) (s_nparse s).
Definition abs_opres (r : opres) : opres := match r with RComplete l => RComplete (abs_loc sz l) | _ => r end.
Definition mapr (r : res (opres * st)) : res (opres * st) :=
  match r with Ok (o, s) => Ok (abs_opres o, abs_st s) | Err e => Err e | Panic => Panic | OutOfFuel => OutOfFuel end.
Definition mapo (r : res (outcome * st)) : res (outcome * st) :=
  match r with Ok (o, s) => Ok (o, abs_st s) | Err e => Err e | Panic => Panic | OutOfFuel => OutOfFuel end.
Definition maps (r : res st) : res st :=
  match r with Ok s => Ok (abs_st s) | Err e => Err e | Panic => Panic | OutOfFuel => OutOfFuel end.
Definition wf_st (s : st) : Prop := Forall (fun v => wf_value v = true) (s_stack s).
(* the configuration holds Rust values: u64 object address / initial value, u32 iteration limit; faithful model *)
Definition cfg_ok (c : cfg) : Prop :=
  c_canon c = None /\ e_asz (c_enc c) = sz /\ lim_cfg c /\
  (forall v, c_obj c = Some v -> v < 2 ^ 64) /\ (forall v, c_init c = Some v -> v < 2 ^ 64).
(* the answer holds Rust values *)
Definition wf_answer (a : answer) : Prop := wf_value (a_val a) = true /\ a_u64 a < 2 ^ 64.

Ltac sfields := cbn [s_bytecode s_pc s_stack s_estack s_result s_iter s_vres s_nops s_nparse
                     set_stack set_pc set_result set_iter set_vres set_code count_op count_parse abs_st
                     c_enc c_obj c_max c_init c_cap_stack c_cap_expr c_cap_res c_canon abs_cfg] in *.

Lemma full_map {A B} (f : A -> B) cap l : full cap (map f l) = full cap l.
Proof. unfold full. now rewrite map_length. Qed.

Lemma canon_ty v : vty (canon sz v) = vty v.
Proof. unfold canon. now destruct (vty v) eqn:E; cbn [vty]. Qed.

Lemma mod_M_64 x : (x mod 2 ^ 64) mod 2 ^ (8 * sz) = x mod 2 ^ (8 * sz).
Proof. sizes SZ; lia. Qed.
Lemma M_le_64 : 2 ^ (8 * sz) <= 2 ^ 64.
Proof. sizes SZ; lia. Qed.
Lemma land_amask x : N.land x (amask sz) = x mod 2 ^ (8 * sz).
Proof. unfold amask. now rewrite <- ones_pred, N.land_ones. Qed.

Lemma to_u64_sim v : wf_value v = true -> to_u64 v (amask sz) = sp_to_u64 sz (canon sz v).
Proof.
  destruct v as [t b]. intros W%wf_elim. unfold to_u64, sp_to_u64, widen, is_float, as_int, canon. cbn [vty vbits] in *.
  destruct t; cbn [tclass_of width vty vbits tbits] in *; try reflexivity; f_equal; vnorm; unfold modulus; cbn [tbits].
  1: { rewrite land_amask. unfold of_signed. sizes SZ; lia. }
  all: try reflexivity; unfold of_signed; lia.
Qed.

Lemma from_u64_sim t x : cres sz (from_u64 F t x) = Ok (sp_from_u64 sz F t x).
Proof.
  unfold from_u64, sp_from_u64, cres, canon, modulus. destruct t; cbn [tclass_of width tbits is64 vty vbits]; try reflexivity;
    vnorm; reflexivity.
Qed.

Lemma sconst_sim z : canon sz (mkV TGeneric (usg 64 z)) = of_int sz TGeneric z.
Proof.
  unfold canon, of_int, modulus. cbn [vty vbits tbits]. f_equal. vnorm. unfold of_signed. sizes SZ; lia.
Qed.

Lemma frame_sim a off : a < 2 ^ 64 ->
  canon sz (mkV TGeneric (w64 (a + usg 64 off))) = sp_from_u64 sz F TGeneric (a mod modulus sz TGeneric + of_signed 64 off).
Proof.
  intros A. unfold canon, sp_from_u64, modulus. cbn [vty vbits tbits tclass_of]. f_equal. vnorm. unfold wrap64, two64.
  pose proof (usg_lt 64 off) as U. rewrite usg_eq in U. sizes SZ; lia.
Qed.

Lemma push_abs c s v : c_canon c = None ->
  maps (push c s v) = sp_push (abs_cfg sz c) (abs_st s) (canon sz v).
Proof.
  intros CC. unfold push, sp_push, norm. rewrite CC. sfields. rewrite full_map.
  destruct (full _ _); reflexivity.
Qed.
Lemma push_tail c s v : c_canon c = None ->
  mapr (let* s3 := push c s v in Ok (RIncomplete, s3)) =
  let* s3 := sp_push (abs_cfg sz c) (abs_st s) (canon sz v) in Ok (RIncomplete, s3).
Proof. intros CC. rewrite <- push_abs by exact CC. destruct (push c s v); reflexivity. Qed.

Lemma pop_abs s : pop (abs_st s) =
  match pop s with Ok (v, s1) => Ok (canon sz v, abs_st s1) | Err e => Err e | Panic => Panic | OutOfFuel => OutOfFuel end.
Proof. unfold pop. sfields. destruct (s_stack s); reflexivity. Qed.

Lemma push_piece_abs c s p : maps (push_piece c s p) = push_piece (abs_cfg sz c) (abs_st s) (abs_piece sz p).
Proof. unfold push_piece. sfields. rewrite full_map. destruct (full _ _); reflexivity. Qed.

Lemma binop_sim c s f sp : c_canon c = None -> wf_st s -> agrees2 sz f sp ->
  mapr (binop c (amask sz) s f) = sp_binop (abs_cfg sz c) (abs_st s) sp.
Proof.
  intros CC W AG. unfold binop, sp_binop. rewrite pop_abs. unfold wf_st in W.
  destruct (pop s) as [[v1 s1]| | |] eqn:P1; cbn [bind mapr mapo maps]; try reflexivity.
  apply pop_inv in P1. destruct P1 as (r1 & E1 & ->). rewrite E1 in W. inversion W as [|? ? W1 W']; subst.
  rewrite pop_abs.
  destruct (pop (set_stack s r1)) as [[v2 s2]| | |] eqn:P2; cbn [bind mapr mapo maps]; try reflexivity.
  apply pop_inv in P2. destruct P2 as (r2 & E2 & ->). sfields. subst r1. inversion W' as [|? ? W2 W'']; subst.
  pose proof (AG v2 v1 SZ W2 W1) as H.
  destruct (f v2 v1 (amask sz)) as [r| | |]; cbn [cres] in H; rewrite <- H; cbn [bind mapr mapo maps]; try reflexivity.
  apply push_tail. exact CC.
Qed.
Lemma unop_sim c s f sp : c_canon c = None -> wf_st s -> agrees1 sz f sp ->
  mapr (unop c (amask sz) s f) = sp_unop (abs_cfg sz c) (abs_st s) sp.
Proof.
  intros CC W AG. unfold unop, sp_unop. rewrite pop_abs. unfold wf_st in W.
  destruct (pop s) as [[v1 s1]| | |] eqn:P1; cbn [bind mapr mapo maps]; try reflexivity.
  apply pop_inv in P1. destruct P1 as (r1 & E1 & ->). rewrite E1 in W. inversion W as [|? ? W1 W']; subst.
  pose proof (AG v1 SZ W1) as H.
  destruct (f v1 (amask sz)) as [r| | |]; cbn [cres] in H; rewrite <- H; cbn [bind mapr mapo maps]; try reflexivity.
  apply push_tail. exact CC.
Qed.

Lemma sp_decode_eq dbg e pc : parse_op dbg e pc = sp_decode e pc.
Proof.
  destruct pc as [|opc bs]; [reflexivity|]. cbn [sp_decode]. rewrite <- decode_table_lemma.
  destruct dbg; [reflexivity|]. exact (eq_sym (parse_op_dbg e (opc :: bs))).
Qed.

Lemma wf_pop s v r : wf_st s -> s_stack s = v :: r -> wf_value v = true /\ wf_st (set_stack s r).
Proof. unfold wf_st. intros W E. rewrite E in W. inversion W; subst. split; assumption. Qed.
Lemma compute_pc_abs s t : compute_pc (abs_st s) t = compute_pc s t.
Proof. reflexivity. Qed.
Lemma nth_error_len {A} (l : list A) i : N.of_nat (length l) <=? i = false -> nth_error l (N.to_nat i) <> None.
Proof. intros H. apply nth_error_Some. lia. Qed.
Lemma nth_error_len2 {A} (l : list A) i : N.of_nat (length l) <=? i = true -> nth_error l (N.to_nat i) = None.
Proof. intros H. apply nth_error_None. lia. Qed.

Ltac dpop v :=
  rewrite pop_abs;
  match goal with |- context [pop ?s] =>
    let P := fresh "P" in let r := fresh "r" in let E := fresh "E" in let Wv := fresh "Wv" in let Ws := fresh "Ws" in
    destruct (pop s) as [[v ?]| | |] eqn:P; cbn [bind mapr mapo maps]; try reflexivity;
    apply pop_inv in P; destruct P as (r & E & ->);
    match goal with W : wf_st s |- _ => destruct (wf_pop s v r W E) as (Wv & Ws) end end.
Ltac dpush CC :=
  match goal with |- context [push ?cc ?ss ?vv] =>
    let H := fresh "PA" in let sn := fresh "sn" in pose proof (push_abs cc ss vv CC) as H;
    destruct (push cc ss vv) as [sn| | |]; cbn [maps] in H; rewrite <- H; cbn [bind mapr mapo maps]; try reflexivity end.
Ltac du64 :=
  match goal with |- context [to_u64 ?v (amask sz)] =>
    match goal with Wv : wf_value v = true |- _ => rewrite (to_u64_sim v Wv) end;
    destruct (sp_to_u64 sz (canon sz v)); cbn [bind mapr mapo maps]; try reflexivity end.

Lemma piece_tail c s a b loc : abs_loc sz loc = loc ->
  mapr (let* s2 := push_piece c s (mkPiece a b loc) in Ok (RPiece, s2)) =
  let* s2 := push_piece (abs_cfg sz c) (abs_st s) (mkPiece a b loc) in Ok (RPiece, s2).
Proof.
  intros L. pose proof (push_piece_abs c s (mkPiece a b loc)) as PP. unfold abs_piece in PP. cbn [p_size p_bit_offset p_loc] in PP.
  rewrite L in PP. rewrite <- PP. destruct (push_piece c s _); reflexivity.
Qed.

Lemma step_sim dbg c s : cfg_ok c -> wf_st s ->
  mapr (evaluate_one_operation F dbg c (amask sz) s) = spec_one sz F (abs_cfg sz c) (abs_st s).
Proof.
  intros (CC & ASZ & LIM & OBJ & INI) W.
  unfold evaluate_one_operation, spec_one. rewrite sp_decode_eq.
  change (c_enc (abs_cfg sz c)) with (c_enc c).
  change (s_pc (count_op (count_parse (abs_st s)))) with (s_pc (count_op (count_parse s))).
  destruct (sp_decode (c_enc c) (s_pc (count_op (count_parse s)))) as [[o pc']| | |] eqn:P; cbn [bind mapr mapo maps]; try reflexivity.
  assert (WO : wf_op (c_enc c) o).
  { rewrite <- (sp_decode_eq true) in P. eapply parse_wf; [|exact P]. rewrite ASZ. destruct SZ as [->|[->|[->| ->]]]; lia. }
  set (s1 := set_pc (count_op (count_parse s)) pc').
  change (set_pc (count_op (count_parse (abs_st s))) pc') with (abs_st s1).
  assert (W1 : wf_st s1) by exact W.
  clearbody s1. clear P W.
  destruct (value_ops_lemma F sz) as (H1 & H2 & H3 & H4 & H5 & H6 & H7 & H8 & H9 & H10 & H11 & H12 & H13 & H14 &
    H15 & H16 & H17 & H18 & H19 & H20 & H21 & H22).
  destruct o; cbn [spec_step]; try reflexivity;
    try (apply binop_sim; assumption); try (apply unop_sim; assumption).
  - (* deref *) change (c_enc (abs_cfg sz c)) with (c_enc c). destruct (_ <? _); [reflexivity|].
    dpop v. du64. destruct space; [|reflexivity]. dpop v2. du64.
  - (* drop *) dpop v.
  - (* pick *) cbn [abs_st s_stack]. rewrite nth_error_map.
    destruct (N.of_nat (length (s_stack s1)) <=? index) eqn:L.
    + rewrite (nth_error_len2 _ _ L). reflexivity.
    + pose proof (nth_error_len _ _ L) as NE. destruct (nth_error (s_stack s1) (N.to_nat index)) as [v|]; [|congruence].
      cbn [option_map]. apply push_tail. exact CC.
  - (* swap *) dpop v. dpop v2. dpush CC. apply push_tail. exact CC.
  - (* rot *) dpop v. dpop v2. dpop v3. dpush CC. dpush CC. apply push_tail. exact CC.
  - (* plus_uconst *) dpop v.
    pose proof (from_u64_sim (vty v) value) as FU.
    assert (WR : forall q, from_u64 F (vty v) value = Ok q -> wf_value q = true).
    { intros q EQ. eapply from_u64_wf; [exact HF| |exact EQ]. exact WO. }
    destruct (from_u64 F (vty v) value) as [rhs| | |]; cbn [cres] in FU; try discriminate FU. cbn [bind].
    inversion FU as [FU']. rewrite canon_ty. rewrite <- FU'.
    pose proof (H1 v rhs SZ Wv (WR rhs eq_refl)) as HA.
    destruct (vadd F v rhs (amask sz)) as [q| | |]; cbn [cres] in HA; rewrite <- HA; cbn [bind mapr mapo maps]; try reflexivity.
    apply push_tail. exact CC.
  - (* bra *) dpop v. du64. destruct (negb _); [|reflexivity]. rewrite compute_pc_abs.
    destruct (compute_pc _ target); try reflexivity.
  - (* skip *) rewrite compute_pc_abs. destruct (compute_pc _ target); reflexivity.
  - (* constu *) rewrite push_tail by exact CC. reflexivity.
  - (* consts *) rewrite push_tail by exact CC. rewrite sconst_sim. reflexivity.
  - (* push_object_address *) cbn [abs_cfg c_obj]. destruct (c_obj c) as [v|]; cbn [option_map]; [|reflexivity].
    rewrite push_tail by exact CC. reflexivity.
  - (* tls *) dpop v. du64.
  - (* piece *) change (s_stack (abs_st s1)) with (map (canon sz) (s_stack s1)).
    destruct (s_stack s1) as [|v0 r0] eqn:ES; cbn [map bind].
    + apply piece_tail. reflexivity.
    + dpop v. du64. apply piece_tail. reflexivity.
  - (* stack_value *) dpop v.
Qed.

(* ---------------------------------------------------------------- well-formedness is preserved by one operation / one answer *)
Ltac cl2 L := eapply L; [| |eassumption]; assumption.
Ltac cl1 L := eapply L; [|eassumption]; assumption.
Ltac wfv :=
  match goal with
  | |- wf_value _ = true =>
    first [ assumption
          | cl2 (vadd_wf F HF) | cl2 (vsub_wf F HF) | cl2 (vmul_wf F HF) | cl2 (vdiv_wf F HF) | cl2 vrem_wf
          | cl2 (vand_wf F HF) | cl2 (vor_wf F HF) | cl2 (vxor_wf F HF)
          | cl1 (vnot_wf F HF) | cl1 vabs_wf | cl1 vneg_wf
          | cl2 vshl_wf | cl2 vshr_wf | cl2 vshra_wf
          | (eapply compare_wf; eassumption)
          | cl1 (convert_wf F HF) | cl1 reinterpret_wf
          | (eapply value_parse_wf; eassumption)
          | match goal with |- wf_value (mkV _ _) = true =>
              apply wf_intro; cbn [width]; first [assumption | apply usg_lt | apply w64_lt | (unfold two64; lia) | eauto] end ]
  end.

Lemma eoo_wf dbg c s r s' : cfg_ok c -> wf_st s ->
  evaluate_one_operation F dbg c (amask sz) s = Ok (r, s') -> wf_st s'.
Proof.
  intros (CC & ASZ & LIM & OBJ & INI) W H. unfold evaluate_one_operation in H.
  destruct (parse_op dbg (c_enc c) (s_pc (count_op (count_parse s)))) as [[o pc']| | |] eqn:P; cbn [bind] in H; try discriminate H.
  assert (WO : wf_op (c_enc c) o).
  { eapply parse_wf; [|exact P]. rewrite ASZ. destruct SZ as [->|[->|[->| ->]]]; lia. }
  clear P. unfold wf_st in *. fields.
  destruct o; unfold binop, unop, veq, vge, vgt, vle, vlt, vne in H; peel; invert_prims; fields;
    repeat match goal with E : s_stack _ = _ |- _ => fields; rewrite E in *; clear E end; fields;
    forall_inv; unfold norm; rewrite ?CC; repeat (apply Forall_cons; [try wfv|]); auto.
  - (* pick *) match goal with E : nth_error _ _ = Some _ |- _ => apply nth_error_In in E; rewrite Forall_forall in W; now apply W end.
  - (* plus_uconst *) eapply (vadd_wf F HF); [| |eassumption]; [assumption|]. eapply (from_u64_wf F HF); [|eassumption]. exact WO.
Qed.

Lemma resume_apply_wf c w a s s' : cfg_ok c -> wf_answer a -> wf_st s ->
  resume_apply F c (amask sz) w a s = Ok s' -> wf_st s'.
Proof.
  intros (CC & ASZ & LIM & OBJ & INI) [WA WU] W H. unfold resume_apply in H. unfold wf_st in *.
  destruct w; peel; invert_prims; fields;
    repeat match goal with E : s_stack _ = _ |- _ => fields; rewrite E in *; clear E end; fields;
    forall_inv; unfold norm; rewrite ?CC; repeat (apply Forall_cons; [try wfv|]); auto.
  - (* register *) eapply (vadd_wf F HF); [| |eassumption]; [assumption|]. eapply (from_u64_wf F HF); [|eassumption]. apply usg_lt.
Qed.

(* ---------------------------------------------------------------- the loop *)
Definition good (c : cfg) (s : st) : Prop := inv s /\ lim_ok c s /\ wf_st s.

Lemma eoe_abs s : end_of_expression (abs_st s) = (fst (end_of_expression s), abs_st (snd (end_of_expression s))).
Proof.
  unfold end_of_expression. change (s_pc (abs_st s)) with (s_pc s). change (s_bytecode (abs_st s)) with (s_bytecode s).
  change (s_estack (abs_st s)) with (s_estack s). destruct (eoe_loop _ _ _) as [b [[pc bc] es]]. reflexivity.
Qed.
Lemma eoe_good c s : good c s -> good c (snd (end_of_expression s)).
Proof.
  intros (I & L & W). destruct (eoe_ok s I) as (I' & IT & _). split; [exact I'|]. split.
  - unfold lim_ok in *. now rewrite IT.
  - unfold wf_st. now rewrite eoe_stack.
Qed.
Lemma count_sim dbg c s : lim_ok c s ->
  maps (count_iteration dbg c s) = sp_count_iteration (abs_cfg sz c) (abs_st s).
Proof.
  unfold count_iteration, sp_count_iteration, lim_ok. change (c_max (abs_cfg sz c)) with (c_max c).
  change (s_iter (abs_st s)) with (s_iter s). destruct (c_max c) as [n|]; [|reflexivity]. intros [NB L].
  destruct (n <=? s_iter s) eqn:E; [reflexivity|]. rewrite chk_add_iter by lia. reflexivity.
Qed.
Lemma count_good dbg c s s2 : good c s -> count_iteration dbg c s = Ok s2 -> good c s2.
Proof.
  intros (I & L & W) H. pose proof (count_iteration_spec dbg c s L) as CS. rewrite H in CS.
  destruct CS as [[_ ->]|(n & MX & LT & ->)]; [exact (conj I (conj L W))|].
  split; [exact I|]. split; [|exact W]. unfold lim_ok in *. rewrite MX in *. fields. lia.
Qed.
Lemma eoo_good dbg c s r s' : cfg_ok c -> good c s ->
  evaluate_one_operation F dbg c (amask sz) s = Ok (r, s') -> good c s'.
Proof.
  intros CK (I & L & W) H. destruct (eoo_ok F dbg c (amask sz) s r s' I H) as (I' & CT). unfold ctl in CT. inversion CT as [[A B C D E]].
  split; [exact I'|]. split; [unfold lim_ok in *; now rewrite C|]. eapply eoo_wf; eauto.
Qed.
Lemma push_piece_good c s p s' : good c s -> push_piece c s p = Ok s' -> good c s'.
Proof. intros (I & L & W) H. apply push_piece_inv in H. subst. exact (conj I (conj L W)). Qed.

Lemma finish_sim c s : wf_st s -> mapo (finish c (amask sz) s) = sp_finish sz (abs_cfg sz c) (abs_st s).
Proof.
  intros W. unfold finish, sp_finish. change (s_result (abs_st s)) with (map (abs_piece sz) (s_result s)).
  destruct (s_result s); cbn [map]; [|reflexivity].
  dpop v. du64.
  change (set_vres (abs_st (set_stack s r)) (Some (canon sz v))) with (abs_st (set_vres (set_stack s r) (Some v))).
  match goal with |- context [push_piece c ?s2 ?p] =>
    pose proof (push_piece_abs c s2 p) as PP; destruct (push_piece c s2 p); cbn [maps] in PP;
    change (abs_piece sz p) with p in PP; rewrite <- PP; reflexivity end.
Qed.

Lemma ei_sim dbg c : cfg_ok c -> forall fuel s, good c s ->
  mapo (evaluate_internal F fuel dbg c (amask sz) s) = sp_internal sz F fuel (abs_cfg sz c) (abs_st s).
Proof.
  intros CK. induction fuel as [|fuel IH]; intros s G; [reflexivity|].
  cbn [evaluate_internal sp_internal]. rewrite eoe_abs.
  pose proof (eoe_good c s G) as G1.
  destruct (end_of_expression s) as [e s1]. cbn [fst snd] in *.
  destruct e; [apply finish_sim; apply G1|].
  rewrite <- (count_sim dbg c s1) by apply G1.
  destruct (count_iteration dbg c s1) as [s2| | |] eqn:CI; cbn [bind maps mapo]; try reflexivity.
  pose proof (count_good dbg c s1 s2 G1 CI) as G2.
  rewrite <- (step_sim dbg c s2 CK) by apply G2.
  destruct (evaluate_one_operation F dbg c (amask sz) s2) as [[r s3]| | |] eqn:EO; cbn [bind mapr mapo]; try reflexivity.
  pose proof (eoo_good dbg c s2 r s3 CK G2 EO) as G3.
  destruct r; cbn [abs_opres].
  - apply IH. exact G3.
  - rewrite eoe_abs. pose proof (eoe_good c s3 G3) as G4. destruct (end_of_expression s3) as [e4 s4]. cbn [fst snd] in *.
    change (s_result (abs_st s4)) with (map (abs_piece sz) (s_result s4)).
    replace (match map (abs_piece sz) (s_result s4) with [] => true | _ :: _ => false end)
      with (match s_result s4 with [] => true | _ :: _ => false end) by (destruct (s_result s4); reflexivity).
    destruct (e4 && _); [reflexivity|]. apply IH. exact G4.
  - rewrite eoe_abs. pose proof (eoe_good c s3 G3) as G4. destruct (end_of_expression s3) as [e4 s4]. cbn [fst snd] in *.
    destruct e4.
    + change (s_result (abs_st s4)) with (map (abs_piece sz) (s_result s4)).
      destruct (s_result s4) eqn:RS; cbn [map]; [|reflexivity].
      pose proof (push_piece_abs c s4 (mkPiece None None l)) as PP.
      destruct (push_piece c s4 (mkPiece None None l)) as [s5| | |] eqn:PE; cbn [maps] in PP;
        change (abs_piece sz (mkPiece None None l)) with (mkPiece None None (abs_loc sz l)) in PP; rewrite <- PP;
        cbn [bind mapo]; try reflexivity.
      apply IH. eapply push_piece_good; eauto.
    + cbv zeta. change (c_enc (abs_cfg sz c)) with (c_enc c).
      change (s_pc (count_parse (abs_st s4))) with (s_pc (count_parse s4)).
      rewrite (sp_decode_eq dbg).
      destruct (sp_decode (c_enc c) (s_pc (count_parse s4))) as [[o2 pc2]| | |] eqn:P2; cbn [bind mapo]; try reflexivity.
      rewrite <- (sp_decode_eq dbg) in P2.
      destruct (parse_op_good dbg (c_enc c) (s_pc (count_parse s4))) as (_ & _ & PG). specialize (PG _ _ P2).
      destruct (parse_op_consumes dbg _ _ _ _ P2) as (b0 & u0 & EQ).
      destruct G4 as (I4 & L4 & W4).
      assert (G5 : good c (set_pc (count_parse s4) pc2)).
      { split; [|split; [exact L4|exact W4]]. destruct I4 as [I4a I4b]. split; [|exact I4b]. fields. eapply sfx_trans; eauto. }
      destruct o2; try
       (destruct I4 as [I4a I4b]; fields; apply sfx_length in I4a; fields; rewrite EQ in I4a; cbn [length] in I4a; rewrite app_length in I4a;
        rewrite chk_sub_ok by lia; cbn [bind]; rewrite chk_sub_ok by lia; reflexivity).
      pose proof (push_piece_abs c (set_pc (count_parse s4) pc2) (mkPiece (Some size_in_bits) bit_offset l)) as PP.
      destruct (push_piece c (set_pc (count_parse s4) pc2) (mkPiece (Some size_in_bits) bit_offset l)) as [s5| | |] eqn:PE;
        cbn [maps] in PP;
        change (abs_piece sz (mkPiece (Some size_in_bits) bit_offset l)) with (mkPiece (Some size_in_bits) bit_offset (abs_loc sz l)) in PP;
        change (abs_st (set_pc (count_parse s4) pc2)) with (set_pc (count_parse (abs_st s4)) pc2) in PP; rewrite <- PP;
        cbn [bind mapo]; try reflexivity.
      apply IH. eapply push_piece_good; eauto.
  - reflexivity.
Qed.

Lemma ei_good dbg c : cfg_ok c -> forall fuel s o s', good c s ->
  evaluate_internal F fuel dbg c (amask sz) s = Ok (o, s') -> good c s'.
Proof.
  intros CK. induction fuel as [|fuel IH]; intros s o s' G H; [discriminate H|].
  cbn [evaluate_internal] in H.
  pose proof (eoe_good c s G) as G1. destruct (end_of_expression s) as [e s1]. cbn [snd] in G1.
  destruct e.
  { unfold finish in H. destruct G1 as (I1 & L1 & W1). destruct (s_result s1); [|inversion H; subst; exact (conj I1 (conj L1 W1))].
    peel; invert_prims. unfold good, inv, lim_ok, wf_st in *. fields.
    match goal with E : s_stack _ = _ |- _ => rewrite E in W1 end. inversion W1; subst. auto. }
  destruct (count_iteration dbg c s1) as [s2| | |] eqn:CI; cbn [bind] in H; try discriminate H.
  pose proof (count_good dbg c s1 s2 G1 CI) as G2.
  destruct (evaluate_one_operation F dbg c (amask sz) s2) as [[r s3]| | |] eqn:EO; cbn [bind] in H; try discriminate H.
  pose proof (eoo_good dbg c s2 r s3 CK G2 EO) as G3.
  destruct r.
  - eapply IH; [|exact H]. exact G3.
  - pose proof (eoe_good c s3 G3) as G4. destruct (end_of_expression s3) as [e4 s4]. cbn [snd] in G4.
    destruct (e4 && _); [discriminate H|]. eapply IH; [|exact H]. exact G4.
  - pose proof (eoe_good c s3 G3) as G4. destruct (end_of_expression s3) as [e4 s4]. cbn [snd] in G4.
    destruct e4.
    + destruct (s_result s4); [|discriminate H].
      destruct (push_piece c s4 _) as [s5| | |] eqn:PP; cbn [bind] in H; try discriminate H.
      eapply IH; [|exact H]. eapply push_piece_good; eauto.
    + cbv zeta in H.
      destruct (parse_op dbg (c_enc c) (s_pc (count_parse s4))) as [[o2 pc2]| | |] eqn:P2; cbn [bind] in H; try discriminate H.
      destruct (parse_op_good dbg (c_enc c) (s_pc (count_parse s4))) as (_ & _ & PG). specialize (PG _ _ P2).
      destruct G4 as (I4 & L4 & W4).
      assert (G5 : good c (set_pc (count_parse s4) pc2)).
      { split; [|split; [exact L4|exact W4]]. destruct I4 as [I4a I4b]. split; [|exact I4b]. fields. eapply sfx_trans; eauto. }
      destruct o2; peel.
      eapply IH; [|exact H]. eapply push_piece_good; eauto.
  - inversion H; subst. exact G3.
Qed.

Lemma value_parse_canon be t bs x : value_parse be t bs = Ok x -> canon sz x = x.
Proof.
  intros H. unfold value_parse in H. destruct t; try discriminate H;
    match type of H with context [read_un ?n _ _] => destruct (read_un n be bs) as [[v rest]| | |] end;
    cbn [bind] in H; try discriminate H; inversion H; reflexivity.
Qed.

Lemma resume_apply_sim c w a s : cfg_ok c -> wf_answer a -> wf_st s ->
  maps (resume_apply F c (amask sz) w a s) = sp_resume_apply sz F (abs_cfg sz c) w (abs_answer sz a) (abs_st s).
Proof.
  intros (CC & ASZ & LIM & OBJ & INI) [WA WU] W.
  destruct (value_ops_lemma F sz) as (H1 & H2 & H3 & H4 & H5 & H6 & H7 & H8 & H9 & H10 & H11 & H12 & H13 & H14 &
    H15 & H16 & H17 & H18 & H19 & H20 & H21 & H22).
  unfold resume_apply, sp_resume_apply. cbn [abs_answer a_val a_u64 a_bytes a_ty].
  destruct w; try (apply push_abs; exact CC).
  - (* register *)
    pose proof (from_u64_sim (vty (a_val a)) (usg 64 offset)) as FU.
    assert (WR : forall q, from_u64 F (vty (a_val a)) (usg 64 offset) = Ok q -> wf_value q = true).
    { intros q EQ. eapply from_u64_wf; [exact HF| |exact EQ]. apply usg_lt. }
    destruct (from_u64 F (vty (a_val a)) (usg 64 offset)) as [rhs| | |]; cbn [cres] in FU; try discriminate FU. cbn [bind].
    inversion FU as [FU']. rewrite canon_ty. rewrite <- usg_eq. rewrite <- FU'.
    pose proof (H1 (a_val a) rhs SZ WA (WR rhs eq_refl)) as HA.
    destruct (vadd F (a_val a) rhs (amask sz)) as [q| | |]; cbn [cres] in HA; rewrite <- HA; cbn [bind maps]; try reflexivity.
    apply push_abs. exact CC.
  - (* frame base *) rewrite push_abs by exact CC. rewrite frame_sim by exact WU. reflexivity.
  - (* at_location *) destruct (a_bytes a); [reflexivity|]. change (s_estack (abs_st s)) with (s_estack s).
    change (c_cap_expr (abs_cfg sz c)) with (c_cap_expr c). destruct (full _ _); reflexivity.
  - (* typed literal *) change (c_enc (abs_cfg sz c)) with (c_enc c).
    destruct (value_parse (e_be (c_enc c)) (a_ty a) v) as [x| | |] eqn:VP; cbn [bind maps]; try reflexivity.
    rewrite push_abs by exact CC. now rewrite (value_parse_canon _ _ _ _ VP).
  - (* convert *) dpop v. pose proof (H21 v (a_ty a) SZ Wv) as HA.
    destruct (convert F v (a_ty a) (amask sz)) as [q| | |]; cbn [cres] in HA; rewrite <- HA; cbn [bind maps]; try reflexivity.
    apply push_abs. exact CC.
  - (* reinterpret *) dpop v. pose proof (H22 v (a_ty a) SZ Wv) as HA.
    destruct (reinterpret v (a_ty a) (amask sz)) as [q| | |]; cbn [cres] in HA; rewrite <- HA; cbn [bind maps]; try reflexivity.
    apply push_abs. exact CC.
Qed.

Lemma resume_sim dbg c fuel w a s : cfg_ok c -> wf_answer a -> good c s ->
  mapo (resume F fuel dbg c (amask sz) w a s) = sp_resume sz F fuel (abs_cfg sz c) w (abs_answer sz a) (abs_st s) /\
  forall o s', resume F fuel dbg c (amask sz) w a s = Ok (o, s') -> good c s'.
Proof.
  intros CK WA (I & L & W). unfold resume, sp_resume.
  rewrite <- (resume_apply_sim c w a s CK WA W).
  destruct (resume_apply F c (amask sz) w a s) as [s1| | |] eqn:RA; cbn [bind maps mapo]; try (split; [reflexivity|discriminate]).
  assert (G1 : good c s1).
  { destruct (resume_apply_ok F c (amask sz) w a s s1 I RA) as (I1 & J1 & _). split; [exact I1|]. split.
    - unfold lim_ok in *. now rewrite J1.
    - eapply resume_apply_wf; eauto. }
  split; [apply ei_sim; assumption|]. intros o s' E. eapply ei_good; eauto.
Qed.

Lemma drive_sim dbg c fuel : cfg_ok c -> forall answers r, Forall wf_answer answers ->
  (forall o s, r = Ok (o, s) -> good c s) ->
  abs_trace sz (drive F fuel dbg c (amask sz) r answers) =
  sp_drive sz F fuel (abs_cfg sz c) (mapo r) (map (abs_answer sz) answers).
Proof.
  intros CK. induction answers as [|a rest IH]; intros r WA RG.
  - destruct r as [[[|w rq] s]| e | |]; cbn [drive sp_drive mapo map]; try reflexivity.
    unfold abs_trace. cbn [fst snd abs_final]. change (s_result (abs_st s)) with (map (abs_piece sz) (s_result s)).
    now rewrite map_rev.
  - inversion WA as [|? ? WA1 WA2]; subst.
    destruct r as [[[|w rq] s]| e | |]; cbn [drive sp_drive mapo map]; try reflexivity.
    + unfold abs_trace. cbn [fst snd abs_final]. change (s_result (abs_st s)) with (map (abs_piece sz) (s_result s)).
      now rewrite map_rev.
    + destruct (resume_sim dbg c fuel w a s CK WA1 (RG _ _ eq_refl)) as [RS RGD].
      specialize (IH (resume F fuel dbg c (amask sz) w a s) WA2 RGD). rewrite RS in IH. rewrite <- IH.
      destruct (drive F fuel dbg c (amask sz) (resume F fuel dbg c (amask sz) w a s) rest) as [rqs f]. reflexivity.
Qed.

Lemma new_mask_amask dbg : new_mask dbg sz = Ok (amask sz).
Proof. destruct SZ as [->|[->|[->| ->]]]; reflexivity. Qed.

Lemma run_sim dbg c fuel program answers : cfg_ok c -> Forall wf_answer answers ->
  abs_trace sz (run F fuel dbg c program answers) = spec_run sz F fuel c program answers.
Proof.
  intros CK WA. pose proof CK as (CC & ASZ & LIM & OBJ & INI). unfold run, spec_run. rewrite ASZ, new_mask_amask.
  rewrite drive_sim; [|exact CK|exact WA|].
  - f_equal. unfold evaluate, sp_evaluate. cbn [abs_cfg c_init].
    destruct (c_init c) as [v|] eqn:CI; cbn [option_map].
    + pose proof (push_abs c (initial_state program) (mkV TGeneric v) CC) as PA.
      change (abs_st (initial_state program)) with (initial_state program) in PA.
      change (canon sz (mkV TGeneric v)) with (mkV TGeneric (v mod modulus sz TGeneric)) in PA. rewrite <- PA.
      destruct (push c (initial_state program) (mkV TGeneric v)) as [s1| | |] eqn:PE; cbn [bind maps mapo]; try reflexivity.
      apply ei_sim; [exact CK|]. apply push_inv in PE. subst s1. unfold norm. rewrite CC. split; [|split].
      * destruct (initial_inv program). unfold inv; fields; auto.
      * unfold lim_ok, lim_cfg in *. unfold initial_state. fields. destruct (c_max c); [lia|exact Logic.I].
      * unfold wf_st. fields. constructor; [|constructor]. apply wf_intro. cbn [width]. auto.
    + cbn [bind]. change (initial_state program) with (abs_st (initial_state program)) at 2.
      apply ei_sim; [exact CK|]. split; [apply initial_inv|split].
      * unfold lim_ok, lim_cfg in *. cbn [initial_state s_iter]. destruct (c_max c); [lia|exact Logic.I].
      * unfold wf_st. constructor.
  - intros o s' E. unfold evaluate in E.
    destruct (match c_init c with Some v => _ | None => _ end) as [s1| | |] eqn:PI; cbn [bind] in E; try discriminate E.
    eapply ei_good; [exact CK| |exact E].
    destruct (c_init c) as [v|] eqn:CI; [apply push_inv in PI; subst s1|inversion PI; subst s1].
    + unfold norm. rewrite CC. split; [|split].
      * destruct (initial_inv program). unfold inv; fields; auto.
      * unfold lim_ok, lim_cfg in *. unfold initial_state. fields. destruct (c_max c); [lia|exact Logic.I].
      * unfold wf_st. fields. constructor; [|constructor]. apply wf_intro. cbn [width]. auto.
    + split; [apply initial_inv|split].
      * unfold lim_ok, lim_cfg in *. cbn [initial_state s_iter]. destruct (c_max c); [lia|exact Logic.I].
      * unfold wf_st. constructor.
Qed.
End Sim.

(* ---------------------------------------------------------------- packaging for Properties/C07.v *)
Lemma eval_refines_lemma (F : fops) (sz : N) (dbg : bool) (c : cfg) (fuel : nat) (program : list byte) (answers : list answer) :
  addr_size sz -> fops_wf F -> cfg_ok sz c -> Forall wf_answer answers ->
  abs_trace sz (run F fuel dbg c program answers) = spec_run sz F fuel c program answers.
Proof. intros SZ HF CK WA. now apply run_sim. Qed.

(* two runs whose configurations and answers denote the same canonical values (generic payloads equal modulo
   2^(8 sz)) have the same trace: same requests, same error, same pieces and value result up to the same reading *)
Lemma mask_invariance_lemma (F : fops) (sz : N) (dbg dbg' : bool) (c c' : cfg) (fuel : nat) (program : list byte)
    (answers answers' : list answer) :
  addr_size sz -> fops_wf F -> cfg_ok sz c -> cfg_ok sz c' -> Forall wf_answer answers -> Forall wf_answer answers' ->
  abs_cfg sz c = abs_cfg sz c' -> map (abs_answer sz) answers = map (abs_answer sz) answers' ->
  abs_trace sz (run F fuel dbg c program answers) = abs_trace sz (run F fuel dbg' c' program answers').
Proof.
  intros SZ HF CK CK' WA WA' EC EA. rewrite !run_sim by assumption. unfold spec_run. now rewrite EC, EA.
Qed.

(* the spec machine and the model run out of fuel together *)
Lemma refines_fuel (F : fops) (sz : N) (dbg : bool) (c : cfg) (fuel : nat) (program : list byte) (answers : list answer) :
  addr_size sz -> fops_wf F -> cfg_ok sz c -> Forall wf_answer answers ->
  (snd (run F fuel dbg c program answers) = FOutOfFuel <-> snd (spec_run sz F fuel c program answers) = FOutOfFuel).
Proof.
  intros SZ HF CK WA. rewrite <- (run_sim sz F SZ HF dbg c fuel program answers CK WA).
  unfold abs_trace. cbn [snd]. destruct (snd (run F fuel dbg c program answers)); cbn [abs_final]; split; intros H; try discriminate H; reflexivity.
Qed.

(* non-vacuity material *)
Definition refine_ex_cfg : cfg := mkCfg (mkEnc 4 false 4 false) (Some 4294967301) (Some 40) (Some 4294967298) None None None None.
Lemma refine_ex_hyp : addr_size 4 /\ fops_wf wrap_fops /\ cfg_ok 4 refine_ex_cfg /\
  Forall wf_answer [mkAns (mkV TGeneric 18446744073709551615) 4294967297 [] TU8].
Proof.
  split; [right; right; left; reflexivity|]. split; [exact wrap_fops_wf|]. split.
  - unfold cfg_ok, refine_ex_cfg, lim_cfg. cbn. repeat split; try lia; intros v E; inversion E; lia.
  - constructor; [|constructor]. split; [reflexivity|cbn; lia].
Qed.
